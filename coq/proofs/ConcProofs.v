(* ConcProofs.v -- (a) with private states and shared immutable data, every
   schedule gives every goroutine exactly its solo result (C10); (b) under a
   readers-writer lock, every read of the shared value sees the result of a
   prefix of the completed writer operations -- never a half-applied one -- and
   all reads of one reader operation see the same value (C13). *)
From Coq Require Import List Arith Bool Lia.
From Dec Require Import Conc.
Import ListNotations.

(* ------------------------------------------------------------------ (a) *)

Section PRIVATE.
Variable S : Type.
Variable step : nat -> S -> S.

Lemma nth_upd_same (l : list S) : forall i x s, nth_error l i = Some s -> nth_error (upd l i x) i = Some x.
Proof. induction l as [|y l IH]; intros [|i] x s H; simpl in *; try discriminate; eauto. Qed.

Lemma nth_upd_other (l : list S) : forall i j x, i <> j -> nth_error (upd l j x) i = nth_error l i.
Proof. induction l as [|y l IH]; intros [|i] [|j] x H; simpl; auto; try congruence. Qed.

Fixpoint count (i : nat) (l : list nat) : nat :=
  match l with [] => 0 | x :: r => (if Nat.eqb x i then 1 else 0) + count i r end.

Lemma iter_succ n f (s : S) : iter S (Datatypes.S n) f s = iter S n f (f s).
Proof. reflexivity. Qed.

(* C10: whatever the schedule, goroutine i ends in the state its own steps
   alone produce: other goroutines never influence it *)
Theorem projection_solo sched : forall st i s,
  nth_error st i = Some s ->
  nth_error (run S step st sched) i = Some (iter S (count i sched) (step i) s).
Proof.
  induction sched as [|j sched IH]; intros st i s H; simpl; [exact H|].
  unfold run in *. simpl. unfold sched_step at 2.
  destruct (Nat.eqb_spec j i) as [->|N].
  - rewrite H. simpl. apply IH. eapply nth_upd_same; eauto.
  - simpl. apply IH. destruct (nth_error st j) as [sj|] eqn:E; [|exact H].
    rewrite nth_upd_other by congruence. exact H.
Qed.

(* in particular two schedules that give i the same number of steps agree on i *)
Corollary schedule_irrelevant s1 s2 st i s :
  nth_error st i = Some s -> count i s1 = count i s2 ->
  nth_error (run S step st s1) i = nth_error (run S step st s2) i.
Proof. intros H E. rewrite (projection_solo s1 st i s H), (projection_solo s2 st i s H), E. reflexivity. Qed.

End PRIVATE.

(* ------------------------------------------------------------------ (b) *)

Section RWLOCK.
Variable D : Type.
Variable prog : nat -> top D.
Variable d0 : D.

Notation cfg := (cfg D).
Notation tstep := (tstep D prog).

Definition complete_state (c : cfg) (o : D) : Prop :=
  exists k, o = apply_ops D d0 (firstn k (completed D c)).

Definition is_active (t : tstate D) : Prop :=
  match t with InW _ _ _ | InR _ _ _ => True | _ => False end.

Record Inv (c : cfg) : Prop := {
  i_free : lk D c = Free -> shared D c = apply_ops D d0 (completed D c) /\ forall i, ~ is_active (ths D c i);
  i_rd : forall l, lk D c = Rd l ->
         shared D c = apply_ops D d0 (completed D c) /\ l <> [] /\
         (forall i, (exists n obs, ths D c i = InR D n obs) <-> In i l) /\
         (forall i r a, ths D c i <> InW D r a);
  i_wr : forall t, lk D c = Wr t ->
         (exists rest all, ths D c t = InW D rest all /\
            apply_op D (shared D c) rest = apply_op D (apply_ops D d0 (completed D c)) all) /\
         (forall i, i <> t -> ~ is_active (ths D c i));
  i_obs_active : forall i n obs, ths D c i = InR D n obs -> forall o, In o obs -> o = shared D c;
  i_obs_done : forall i obs, ths D c i = Done D obs ->
               (forall o, In o obs -> complete_state c o) /\ (forall o1 o2, In o1 obs -> In o2 obs -> o1 = o2);
}.

Lemma firstn_app_le {A} (l l2 : list A) k : k <= length l -> firstn k (l ++ l2) = firstn k l.
Proof. intro H. rewrite firstn_app. replace (k - length l) with 0 by lia. simpl. apply app_nil_r. Qed.

Lemma complete_state_mono c c' o :
  (exists x, completed D c' = completed D c ++ x) -> complete_state c o -> complete_state c' o.
Proof.
  intros [x Hx] [k Hk]. destruct (le_lt_dec k (length (completed D c))) as [L|L].
  - exists k. rewrite Hx, firstn_app_le by exact L. exact Hk.
  - exists (length (completed D c)). rewrite Hx, firstn_app_le by lia. rewrite firstn_all.
    rewrite firstn_all2 in Hk by lia. exact Hk.
Qed.

Lemma complete_now c : shared D c = apply_ops D d0 (completed D c) -> complete_state c (shared D c).
Proof. intro H. exists (length (completed D c)). rewrite firstn_all. exact H. Qed.

Lemma Inv_init : Inv (init D d0).
Proof.
  constructor; simpl; intros; try discriminate.
  - split; [reflexivity|]. intros i H0. exact H0.
Qed.

Lemma set_th_same f i x : set_th D f i x i = x.
Proof. unfold set_th. rewrite Nat.eqb_refl. reflexivity. Qed.
Lemma set_th_other f i j x : j <> i -> set_th D f i x j = f j.
Proof. intro H. unfold set_th. destruct (Nat.eqb_spec j i); congruence. Qed.

Lemma In_remove i j l : In j (remove_nat i l) <-> In j l /\ j <> i.
Proof.
  induction l as [|x l IH]; simpl; [tauto|].
  destruct (Nat.eqb_spec x i).
  - subst. rewrite IH. split; [tauto|]. intros [[E|H] N]; [congruence|tauto].
  - simpl. rewrite IH. split; [intros [E|[H N]]; subst; tauto|tauto].
Qed.

Lemma apply_ops_app d ops op : apply_ops D d (ops ++ [op]) = apply_op D (apply_ops D d ops) op.
Proof. unfold apply_ops. rewrite fold_left_app. reflexivity. Qed.

Lemma step_inv c i : Inv c -> Inv (tstep c i).
Proof.
  intros I. unfold tstep.
  destruct (ths D c i) as [|rest all|n obs|obs] eqn:Ei.
  - (* NotStarted *)
    destruct (prog i) as [steps|n]; destruct (lk D c) as [|t|l] eqn:El; try exact I.
    + (* writer starts *)
      destruct (i_free c I El) as [Hs Hn].
      constructor; simpl; intros; try discriminate.
      * inversion H; subst t. split.
        -- exists steps, steps. rewrite set_th_same. split; [reflexivity|]. rewrite Hs. reflexivity.
        -- intros j Hj. rewrite set_th_other by exact Hj. apply Hn.
      * destruct (Nat.eq_dec i0 i) as [->|N]; [rewrite set_th_same in H; discriminate|].
        rewrite set_th_other in H by exact N. exfalso. apply (Hn i0). rewrite H. constructor.
      * destruct (Nat.eq_dec i0 i) as [->|N]; [rewrite set_th_same in H; discriminate|].
        rewrite set_th_other in H by exact N. exact (i_obs_done c I i0 _ H).
    + (* reader starts on a free lock *)
      destruct (i_free c I El) as [Hs Hn].
      constructor; simpl; intros; try discriminate.
      * inversion H; subst l. split; [exact Hs|]. split; [discriminate|]. split.
        -- intros j. split.
           ++ intros (n0 & obs & Hj). destruct (Nat.eq_dec j i) as [->|N]; [left; reflexivity|].
              rewrite set_th_other in Hj by exact N. exfalso. apply (Hn j). rewrite Hj. constructor.
           ++ intros [<-|[]]. exists n, []. apply set_th_same.
        -- intros j r a Hj. destruct (Nat.eq_dec j i) as [->|N]; [rewrite set_th_same in Hj; discriminate|].
           rewrite set_th_other in Hj by exact N. apply (Hn j). rewrite Hj. constructor.
      * destruct (Nat.eq_dec i0 i) as [->|N].
        -- rewrite set_th_same in H. inversion H; subst. destruct H0.
        -- rewrite set_th_other in H by exact N. exfalso. apply (Hn i0). rewrite H. constructor.
      * destruct (Nat.eq_dec i0 i) as [->|N]; [rewrite set_th_same in H; discriminate|].
        rewrite set_th_other in H by exact N. exact (i_obs_done c I i0 _ H).
    + (* reader joins other readers *)
      destruct (i_rd c I l El) as (Hs & Hne & Hl & Hw).
      constructor; simpl; intros; try discriminate.
      * inversion H; subst l0. split; [exact Hs|]. split; [discriminate|]. split.
        -- intros j. split.
           ++ intros (n0 & obs & Hj). destruct (Nat.eq_dec j i) as [->|N]; [left; reflexivity|].
              rewrite set_th_other in Hj by exact N. right. apply Hl. eauto.
           ++ intros [<-|Hin]; [exists n, []; apply set_th_same|].
              destruct (Nat.eq_dec j i) as [->|N]; [exists n, []; apply set_th_same|].
              rewrite set_th_other by exact N. apply Hl. exact Hin.
        -- intros j r a Hj. destruct (Nat.eq_dec j i) as [->|N]; [rewrite set_th_same in Hj; discriminate|].
           rewrite set_th_other in Hj by exact N. eapply Hw; eauto.
      * destruct (Nat.eq_dec i0 i) as [->|N].
        -- rewrite set_th_same in H. inversion H; subst. destruct H0.
        -- rewrite set_th_other in H by exact N. eapply (i_obs_active c I); eauto.
      * destruct (Nat.eq_dec i0 i) as [->|N]; [rewrite set_th_same in H; discriminate|].
        rewrite set_th_other in H by exact N. exact (i_obs_done c I i0 _ H).
  - (* InW *)
    assert (Hlk : lk D c = Wr i).
    { destruct (lk D c) as [|t|l] eqn:El.
      - exfalso. apply (proj2 (i_free c I El) i). rewrite Ei. constructor.
      - destruct (Nat.eq_dec t i) as [->|N]; [reflexivity|].
        exfalso. apply (proj2 (i_wr c I t El) i); [congruence|]. rewrite Ei. constructor.
      - exfalso. eapply (proj2 (proj2 (proj2 (i_rd c I l El)))); eauto. }
    destruct (i_wr c I i Hlk) as ((r0 & a0 & Hth & Heq) & Hoth).
    rewrite Ei in Hth. inversion Hth; subst r0 a0.
    destruct rest as [|f rest].
    + (* writer finishes *)
      constructor; simpl; intros; try discriminate.
      * split.
        -- rewrite apply_ops_app. simpl in Heq. exact Heq.
        -- intros j Hj. destruct (Nat.eq_dec j i) as [->|N]; [rewrite set_th_same in Hj; exact Hj|].
           rewrite set_th_other in Hj by exact N. apply (Hoth j N). exact Hj.
      * destruct (Nat.eq_dec i0 i) as [->|N]; [rewrite set_th_same in H; discriminate|].
        rewrite set_th_other in H by exact N. exfalso. apply (Hoth i0 N). rewrite H. constructor.
      * destruct (Nat.eq_dec i0 i) as [->|N].
        -- rewrite set_th_same in H. inversion H; subst. split; intros; contradiction.
        -- rewrite set_th_other in H by exact N.
           destruct (i_obs_done c I i0 obs H) as [A B]. split; [|exact B].
           intros o Ho. eapply complete_state_mono; [|apply A; exact Ho]. simpl. eexists; reflexivity.
    + (* a primitive write *)
      constructor; simpl; intros; try congruence.
      * rewrite Hlk in H. inversion H; subst t. split.
        -- exists rest, all. rewrite set_th_same. split; [reflexivity|]. simpl in Heq. exact Heq.
        -- intros j Hj. rewrite set_th_other by exact Hj. apply Hoth. exact Hj.
      * destruct (Nat.eq_dec i0 i) as [->|N]; [rewrite set_th_same in H; discriminate|].
        rewrite set_th_other in H by exact N. exfalso. apply (Hoth i0 N). rewrite H. constructor.
      * destruct (Nat.eq_dec i0 i) as [->|N]; [rewrite set_th_same in H; discriminate|].
        rewrite set_th_other in H by exact N.
        destruct (i_obs_done c I i0 obs H) as [A B]. split; [|exact B].
        intros o Ho. destruct (A o Ho) as [k Hk]. exists k. exact Hk.
  - (* InR *)
    assert (Hlk : exists l, lk D c = Rd l /\ In i l).
    { destruct (lk D c) as [|t|l] eqn:El.
      - exfalso. apply (proj2 (i_free c I El) i). rewrite Ei. constructor.
      - exfalso. destruct (Nat.eq_dec t i) as [->|N].
        + destruct (proj1 (i_wr c I i El)) as (r & a & Hth & _). congruence.
        + apply (proj2 (i_wr c I t El) i); [congruence|]. rewrite Ei. constructor.
      - exists l. split; [reflexivity|]. apply (proj1 (proj2 (proj2 (i_rd c I l El)))). eauto. }
    destruct Hlk as (l & El & Hin).
    destruct (i_rd c I l El) as (Hs & Hne & Hl & Hw).
    destruct n as [|n].
    + (* reader finishes *)
      rewrite El.
      assert (Hobs : (forall o, In o obs -> complete_state c o) /\ (forall o1 o2, In o1 obs -> In o2 obs -> o1 = o2)).
      { split.
        - intros o Ho. rewrite (i_obs_active c I i 0 obs Ei o Ho). apply complete_now. exact Hs.
        - intros o1 o2 H1 H2. rewrite (i_obs_active c I i 0 obs Ei o1 H1), (i_obs_active c I i 0 obs Ei o2 H2). reflexivity. }
      destruct (remove_nat i l) as [|x l'] eqn:Er.
      * constructor; simpl; intros; try discriminate.
        -- split; [exact Hs|]. intros j Hj.
           destruct (Nat.eq_dec j i) as [->|N]; [rewrite set_th_same in Hj; exact Hj|].
           rewrite set_th_other in Hj by exact N.
           destruct (ths D c j) as [|r a|n0 o0|o0] eqn:Ej; try exact Hj.
           ++ eapply Hw; eauto.
           ++ assert (Hjl : In j l) by (apply Hl; eauto).
              assert (Hjr : In j (remove_nat i l)) by (apply In_remove; auto). rewrite Er in Hjr. destruct Hjr.
        -- destruct (Nat.eq_dec i0 i) as [->|N]; [rewrite set_th_same in H; discriminate|].
           rewrite set_th_other in H by exact N.
           assert (Hjl : In i0 l) by (apply Hl; eauto).
           assert (Hjr : In i0 (remove_nat i l)) by (apply In_remove; auto). rewrite Er in Hjr. destruct Hjr.
        -- destruct (Nat.eq_dec i0 i) as [->|N].
           ++ rewrite set_th_same in H. inversion H; subst obs0.
              destruct Hobs as [A B]. split; [|exact B]. intros o Ho. destruct (A o Ho) as [k Hk]. exists k. exact Hk.
           ++ rewrite set_th_other in H by exact N.
              destruct (i_obs_done c I i0 obs0 H) as [A B]. split; [|exact B].
              intros o Ho. destruct (A o Ho) as [k Hk]. exists k. exact Hk.
      * constructor; simpl; intros; try discriminate.
        -- inversion H; subst l0. split; [exact Hs|]. split; [discriminate|]. split.
           ++ intros j. rewrite <- Er. rewrite In_remove. split.
              ** intros (n0 & o0 & Hj). destruct (Nat.eq_dec j i) as [->|N]; [rewrite set_th_same in Hj; discriminate|].
                 rewrite set_th_other in Hj by exact N. split; [apply Hl; eauto|exact N].
              ** intros [Hj N]. rewrite set_th_other by exact N. apply Hl. exact Hj.
           ++ intros j r a Hj. destruct (Nat.eq_dec j i) as [->|N]; [rewrite set_th_same in Hj; discriminate|].
              rewrite set_th_other in Hj by exact N. eapply Hw; eauto.
        -- destruct (Nat.eq_dec i0 i) as [->|N]; [rewrite set_th_same in H; discriminate|].
           rewrite set_th_other in H by exact N. eapply (i_obs_active c I); eauto.
        -- destruct (Nat.eq_dec i0 i) as [->|N].
           ++ rewrite set_th_same in H. inversion H; subst obs0.
              destruct Hobs as [A B]. split; [|exact B]. intros o Ho. destruct (A o Ho) as [k Hk]. exists k. exact Hk.
           ++ rewrite set_th_other in H by exact N.
              destruct (i_obs_done c I i0 obs0 H) as [A B]. split; [|exact B].
              intros o Ho. destruct (A o Ho) as [k Hk]. exists k. exact Hk.
    + (* a primitive read *)
      constructor; simpl; intros; try congruence.
      * rewrite El in H. inversion H; subst l0. split; [exact Hs|]. split; [exact Hne|]. split.
        -- intros j. split.
           ++ intros (n0 & o0 & Hj). destruct (Nat.eq_dec j i) as [->|N]; [exact Hin|].
              rewrite set_th_other in Hj by exact N. apply Hl. eauto.
           ++ intros Hj. destruct (Nat.eq_dec j i) as [->|N]; [rewrite set_th_same; eauto|].
              rewrite set_th_other by exact N. apply Hl. exact Hj.
        -- intros j r a Hj. destruct (Nat.eq_dec j i) as [->|N]; [rewrite set_th_same in Hj; discriminate|].
           rewrite set_th_other in Hj by exact N. eapply Hw; eauto.
      * destruct (Nat.eq_dec i0 i) as [->|N].
        -- rewrite set_th_same in H. inversion H; subst. destruct H0 as [<-|H0]; [reflexivity|].
           eapply (i_obs_active c I); eauto.
        -- rewrite set_th_other in H by exact N. eapply (i_obs_active c I); eauto.
      * destruct (Nat.eq_dec i0 i) as [->|N]; [rewrite set_th_same in H; discriminate|].
        rewrite set_th_other in H by exact N.
        destruct (i_obs_done c I i0 obs0 H) as [A B]. split; [|exact B].
        intros o Ho. destruct (A o Ho) as [k Hk]. exists k. exact Hk.
  - exact I.
Qed.


Theorem exec_inv sched : Inv (exec D prog d0 sched).
Proof.
  unfold exec.
  assert (G : forall c, Inv c -> Inv (fold_left tstep sched c)).
  { induction sched as [|i s IH]; intros c I; simpl; [exact I|]. apply IH. apply step_inv. exact I. }
  apply G. apply Inv_init.
Qed.

(* C13: under any schedule, a reader that has finished observed, at every one
   of its reads, the shared value exactly as some prefix of the completed
   writer operations left it -- and the same value at all of its reads *)
Theorem reader_sees_complete_states sched i obs :
  ths D (exec D prog d0 sched) i = Done D obs ->
  (forall o, In o obs -> exists k, o = apply_ops D d0 (firstn k (completed D (exec D prog d0 sched)))) /\
  (forall o1 o2, In o1 obs -> In o2 obs -> o1 = o2).
Proof. intro H. exact (i_obs_done _ (exec_inv sched) i obs H). Qed.

(* whenever no writer holds the lock, the shared value is the result of all
   completed writer operations, in the order they released the lock *)
Theorem quiescent_value_is_serial sched :
  (forall t, lk D (exec D prog d0 sched) <> Wr t) ->
  shared D (exec D prog d0 sched) = apply_ops D d0 (completed D (exec D prog d0 sched)).
Proof.
  intro H. pose proof (exec_inv sched) as I.
  destruct (lk D (exec D prog d0 sched)) as [|t|l] eqn:E.
  - apply (i_free _ I E).
  - exfalso. apply (H t). reflexivity.
  - apply (i_rd _ I l E).
Qed.

End RWLOCK.
