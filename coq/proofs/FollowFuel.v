(* FollowFuel.v -- the fuel of the model is only a recursion bound: a run that
   does not end with the out-of-fuel error gives the same result with any
   larger fuel.  So "the implementation returns" corresponds to "some fuel is
   enough", the result the model assigns to a program does not depend on the
   fuel the correspondence happens to run it with, and every theorem stated
   "at any fuel" speaks about that one result.

   Fifth induction on fuel through every driver of followRule (after
   FollowCore, FollowInv, FollowErr, FollowFail). *)
From Coq Require Import List NArith ZArith Bool Lia String.
From Dec Require Import Bytes Strconv Crc Values Tree Interp.
From Dec.proofs Require Import InterpFacts InterpFacts2 InterpFacts3 RuleFacts.
Import ListNotations.

Local Arguments ctx_set : simpl never.
Local Arguments ctx_get : simpl never.
Local Arguments ctx_cmp : simpl never.
Local Arguments split_path : simpl never.
Local Arguments find_var : simpl never.
Local Arguments set_var : simpl never.

Definition fuelish (e : option err) : Prop := e = Some EFuel.

Lemma fuelish_dec (e : option err) : fuelish e \/ e <> Some EFuel.
Proof. unfold fuelish. destruct e as [[]|]; first [left; reflexivity | right; discriminate]. Qed.

(* [f2] agrees with [f1] wherever [f1] did not run out of fuel *)
Definition le_fr (f1 f2 : node -> ctx -> ctx * option err) : Prop :=
  forall n c c' e, f1 n c = (c', e) -> f2 n c = (c', e) \/ fuelish e.

Section WITH_U.
Variable U : ufuns.

Section DRV.
Variables f1 f2 : node -> ctx -> ctx * option err.
Hypothesis H12 : le_fr f1 f2.

Lemma rules_lz_le l : forall c lz c' e,
  rules_lz f1 l c lz = (c', e) -> rules_lz f2 l c lz = (c', e) \/ fuelish e.
Proof.
  induction l as [|n l IH]; intros c lz c' e H; cbn [rules_lz] in *; [left; exact H|].
  destruct (f1 n c) as [c1 e1] eqn:E1.
  destruct (H12 n c c1 e1 E1) as [E2|F].
  - rewrite E2. destruct e1 as [[]|]; try (left; exact H); apply IH; exact H.
  - unfold fuelish in F. subst e1. inversion H; subst. right. reflexivity.
Qed.

Lemma body_le l : forall c lz c' br,
  body f1 l c lz = (c', br) -> body f2 l c lz = (c', br) \/ br = BFail EFuel.
Proof.
  induction l as [|n l IH]; intros c lz c' br H; cbn [body] in *; [left; exact H|].
  destruct (f1 n c) as [c1 e1] eqn:E1.
  destruct (H12 n c c1 e1 E1) as [E2|F].
  - rewrite E2. destruct e1 as [[]|]; try (left; exact H); apply IH; exact H.
  - unfold fuelish in F. subst e1. inversion H; subst. right. reflexivity.
Qed.

Lemma cloop_run_le k : forall k' n idx v lim c c',
  k <= k' -> cloop_run f1 k n idx v lim c = c' ->
  cloop_run f2 k' n idx v lim c = c' \/ cerr c' = Some EFuel.
Proof.
  induction k as [|k IH]; intros k' n idx v lim c c' Hk H.
  { cbn [cloop_run] in H. subst c'. right. reflexivity. }
  destruct k' as [|k']; [lia|]. assert (Hk' : k <= k') by lia.
  cbn [cloop_run] in *.
  destruct (loop_allows (loopCondOp n) v lim) as [al|].
  2:{ left. exact H. }
  destruct (negb (al && Nat.eqb (brkD c) 0)); [left; exact H|].
  destruct (body f1 (child n) (ctx_set c (loopCnt n) (VLC idx) InsStatic) false) as [c1 br] eqn:Eb.
  destruct (body_le _ _ _ _ _ Eb) as [E2|F].
  - rewrite E2. destruct br; try (left; exact H);
      (destruct (step64 (loopCntOp n) v); first [left; exact H | apply (IH k'); [exact Hk'|exact H]]).
  - subst br. subst c'. right. reflexivity.
Qed.

Lemma cloop_le k k' n c c' :
  k <= k' -> cloop f1 k n c = c' -> cloop f2 k' n c = c' \/ cerr c' = Some EFuel.
Proof.
  intros Hk H. unfold cloop in *.
  destruct (cloop_range c (loopCntStatic n) (loopCntInit n)) as [c1 cnt].
  destruct (cerr c1); [left; exact H|].
  destruct (cloop_range c1 (loopLimStatic n) (loopLim n)) as [c2 lim].
  destruct (cerr c2); [left; exact H|].
  eapply cloop_run_le; eassumption.
Qed.

Lemma iterate_le n c brk c1 b1 s1 :
  iterate f1 n c brk = (c1, b1, s1) ->
  iterate f2 n c brk = (c1, b1, s1) \/ (cerr c1 = Some EFuel /\ b1 = true /\ s1 = true).
Proof.
  unfold iterate. intro H.
  destruct brk; [left; exact H|].
  destruct (negb (Nat.eqb (brkD c) 0)); [left; exact H|].
  destruct (body f1 (child n) c false) as [c2 br] eqn:Eb.
  destruct (body_le _ _ _ _ _ Eb) as [E2|F].
  - rewrite E2. left. exact H.
  - subst br. inversion H; subst. right. repeat split.
Qed.

Lemma cerr_set_key n c i : cerr (set_key n c i) = cerr c.
Proof. unfold set_key. destruct (loopKey n); reflexivity. Qed.

(* once broken, a vector range loop leaves the error channel alone *)
Lemma vloop_broken_cerr f n xs : forall i c, cerr (vloop f n xs i c true) = cerr c.
Proof.
  induction xs as [|x xs IH]; intros i c; cbn [vloop]; [reflexivity|].
  unfold iterate. rewrite IH. cbn [cerr ctx_set]. unfold ctx_set. cbn [cerr w_vars]. apply cerr_set_key.
Qed.

Lemma vloop_le n xs : forall i c brk c',
  vloop f1 n xs i c brk = c' -> vloop f2 n xs i c brk = c' \/ cerr c' = Some EFuel.
Proof.
  induction xs as [|x xs IH]; intros i c brk c' H; cbn [vloop] in *; [left; exact H|].
  destruct (iterate f1 n (ctx_set (set_key n c i) (loopVal n) (VNode x) InsVector) brk) as [[c1 b1] s1] eqn:Ei.
  destruct (iterate_le _ _ _ _ _ _ Ei) as [E2|(F1 & F2 & F3)].
  - rewrite E2. apply IH. exact H.
  - subst b1. right. rewrite <- H. rewrite vloop_broken_cerr. exact F1.
Qed.

Lemma oloop_run_le n oid sp cnt : forall i c brk c',
  oloop_run f1 n oid sp cnt i c brk = c' -> oloop_run f2 n oid sp cnt i c brk = c' \/ cerr c' = Some EFuel.
Proof.
  induction cnt as [|cnt IH]; intros i c brk c' H; cbn [oloop_run] in *; [left; exact H|].
  destruct (iterate f1 n (ctx_set (set_key n c i) (loopVal n) (VObj oid (sp ++ [format_int (Z.of_nat i)])) InsObj) brk) as [[c1 b1] s1] eqn:Ei.
  destruct (iterate_le _ _ _ _ _ _ Ei) as [E2|(F1 & F2 & F3)].
  - rewrite E2. destruct s1; [left; exact H|]. apply IH. exact H.
  - subst s1. subst c'. right. exact F1.
Qed.

Lemma rloop_le n c c' : rloop f1 n c = c' -> rloop f2 n c = c' \/ cerr c' = Some EFuel.
Proof.
  unfold rloop. intro H.
  destruct (split_path (loopSrc n)) as [|k rest]; [left; exact H|].
  destruct (find_var (vars c) k) as [[v i]|]; [|left; exact H].
  destruct i; try (left; exact H).
  - destruct v; try (left; exact H).
    destruct (jget j rest) as [| | | | |l|l]; try (left; exact H);
      (destruct l; [left; exact H|]);
      match type of H with key_slot n ?X = _ =>
        destruct (vloop_le n _ _ _ _ X eq_refl) as [E|F];
        [rewrite E; left; exact H|right; rewrite <- H; unfold key_slot; destruct (loopKey n); exact F]
      end.
  - destruct v; try (left; exact H).
    destruct (nth_error (store (w_cerr c None)) oid) as [ob|]; [|left; exact H].
    destruct (oloop ofuel ob (prefix ++ rest)) as [[sp cnt]|]; [|left; exact H].
    destruct (oloop_run_le n oid sp cnt 0 (w_cerr c None) false _ eq_refl) as [E|F].
    + rewrite E. left. exact H.
    + right. rewrite <- H. destruct cnt; [exact F|]. unfold key_slot; destruct (loopKey n); exact F.
Qed.

Lemma branch_le n c ok e0 c' e :
  branch f1 n c ok e0 = (c', e) -> branch f2 n c ok e0 = (c', e) \/ fuelish e.
Proof.
  unfold branch. intro H. destruct ok.
  - destruct (child n) as [|ch l]; [left; exact H|]. apply H12. exact H.
  - destruct (child n) as [|x [|ch l]]; try (left; exact H). apply H12. exact H.
Qed.

Lemma switch_classic_le sw l : forall c ok c1 ok1 e1 ea1,
  switch_classic f1 sw l c ok = (c1, ok1, e1, ea1) ->
  switch_classic f2 sw l c ok = (c1, ok1, e1, ea1) \/ (fuelish e1 /\ ok1 = true /\ ea1 = false).
Proof.
  induction l as [|ch l IH]; intros c ok c1 ok1 e1 ea1 H; [cbn [switch_classic] in *; left; exact H|].
  rewrite switch_classic_cons in *.
  destruct (classic_verdict sw ch c ok) as [[[c2 ok2] e2] ea2].
  destruct ea2; [left; exact H|].
  destruct ok2; [|apply IH; exact H].
  destruct (f1 ch c2) as [c3 e3] eqn:E1.
  destruct (H12 _ _ _ _ E1) as [E2|F].
  - rewrite E2. left. exact H.
  - inversion H; subst. right. repeat split. exact F.
Qed.

Lemma switch_nocond_le l : forall c ok c1 ok1 e1 ea1,
  switch_nocond U f1 l c ok = (c1, ok1, e1, ea1) ->
  switch_nocond U f2 l c ok = (c1, ok1, e1, ea1) \/ (fuelish e1 /\ ok1 = true /\ ea1 = false).
Proof.
  induction l as [|ch l IH]; intros c ok c1 ok1 e1 ea1 H; [cbn [switch_nocond] in *; left; exact H|].
  rewrite switch_nocond_cons in *.
  destruct (Z.eqb (typ ch) typeCase); [|apply IH; exact H].
  destruct (nocond_verdict U ch c ok) as [[[c2 ok2] e2] ea2].
  destruct ea2; [left; exact H|].
  destruct (cerr c2); [left; exact H|].
  destruct ok2; [|apply IH; exact H].
  destruct (f1 ch c2) as [c3 e3] eqn:E1.
  destruct (H12 _ _ _ _ E1) as [E2|F].
  - rewrite E2. left. exact H.
  - inversion H; subst. right. repeat split. exact F.
Qed.

End DRV.

Local Arguments rloop : simpl never.
Local Arguments cloop : simpl never.
Local Arguments rules : simpl never.
Local Arguments switch_classic : simpl never.
Local Arguments switch_nocond : simpl never.
Local Arguments run_mods : simpl never.
Local Arguments ctx_set_path : simpl never.
Local Arguments collect_args : simpl never.
Local Arguments node_cmp : simpl never.
Local Arguments call_cond : simpl never.
Local Arguments run_bget : simpl never.
Local Arguments branch : simpl never.
Local Arguments log_call : simpl never.

Lemma cerr_restore c p : cerr (if Nat.ltb (brkD c) p then w_brkD c p else c) = cerr c.
Proof. destruct (Nat.ltb (brkD c) p); reflexivity. Qed.

(* the induction *)
Theorem follow_le f : forall f', f <= f' -> le_fr (follow U f) (follow U f').
Proof.
  induction f as [|f IH]; intros f' Hle r c c' e H.
  { cbn [follow] in H. inversion H; subst. right. reflexivity. }
  destruct f' as [|f']; [lia|]. assert (Hf : f <= f') by lia.
  pose proof (IH f' Hf) as H12.
  revert H. cbn [follow]. cbv zeta.
  destruct (Z.eqb (typ r) typeLoopRange).
  { intro H.
    destruct (rloop_le _ _ H12 r (w_brkD c 0) _ eq_refl) as [E|F].
    - rewrite E. left. exact H.
    - right. inversion H; subst. unfold fuelish. rewrite cerr_restore. exact F. }
  destruct (Z.eqb (typ r) typeLoopCount).
  { intro H.
    destruct (cloop_le _ _ H12 f f' r (w_brkD c 0) _ Hf eq_refl) as [E|F].
    - rewrite E. left. exact H.
    - right. inversion H; subst. unfold fuelish. rewrite cerr_restore. exact F. }
  destruct (Z.eqb (typ r) typeBreak); [intro H; left; exact H|].
  destruct (Z.eqb (typ r) typeLBreak); [intro H; left; exact H|].
  destruct (Z.eqb (typ r) typeContinue); [intro H; left; exact H|].
  destruct (Z.eqb (typ r) typeCondOK).
  { destruct (condHlp r) as [|h hs]; [intro H; left; exact H|].
    destruct (u_condok U (h :: hs)) as [fn|]; [|intro H; left; exact H].
    destruct (collect_args c (condHlpArg r) []) as [c1 la].
    destruct (log_call c1 (bs "condok") (h :: hs) la) as [c2 n].
    destruct (fn n la) as [v okv].
    destruct (u_ins U match condIns r with [] => bs "static" | x :: l => x :: l end) as [i|]; [|intro H; left; exact H].
    destruct (condR r) as [|cr crs].
    - apply branch_le. exact H12.
    - destruct (node_cmp (ctx_set (ctx_set (w_bufBl (w_bufX c2 v) okv) (condOKL r) v i) (condOKR r) (VBool okv) InsStatic) r) as [[c3 o3] e3].
      apply branch_le. exact H12. }
  destruct (Z.eqb (typ r) typeCond).
  { destruct (condHlp r) as [|h hs].
    - destruct (node_cmp c r) as [[c1 ok1] e1].
      destruct (cerr c1); [intro H; left; exact H|].
      apply branch_le. exact H12.
    - destruct (Z.eqb (condLC r) lcNone); [|intro H; left; exact H].
      destruct (call_cond U c (h :: hs) (condHlpArg r)) as [c1 [b|]]; [|intro H; left; exact H].
      destruct (cerr c1); [intro H; left; exact H|].
      apply branch_le. exact H12. }
  destruct (Z.eqb (typ r) typeCondTrue || Z.eqb (typ r) typeCondFalse || Z.eqb (typ r) typeCase || Z.eqb (typ r) typeDefault).
  { apply rules_lz_le. exact H12. }
  destruct (Z.eqb (typ r) typeSwitch).
  { destruct (switchArg r) as [|sa sas].
    - destruct (switch_nocond U (follow U f) (child r) c false) as [[[c1 ok1] e1] ea1] eqn:E1.
      destruct (switch_nocond_le _ _ H12 _ _ _ _ _ _ _ E1) as [E2|(F1 & F2 & F3)].
      + rewrite E2. destruct ea1; [intro H; left; exact H|]. destruct ok1; [intro H; left; exact H|].
        destruct (first_default (child r)); [apply H12|intro H; left; exact H].
      + subst ok1 ea1. intro H. inversion H; subst. right. exact F1.
    - destruct (switch_classic (follow U f) r (child r) c false) as [[[c1 ok1] e1] ea1] eqn:E1.
      destruct (switch_classic_le _ _ H12 _ _ _ _ _ _ _ _ E1) as [E2|(F1 & F2 & F3)].
      + rewrite E2. destruct ea1; [intro H; left; exact H|]. destruct ok1; [intro H; left; exact H|].
        destruct (first_default (child r)); [apply H12|intro H; left; exact H].
      + subst ok1 ea1. intro H. inversion H; subst. right. exact F1. }
  intro H. left. exact H.
Qed.

(* a run that does not end out of fuel is the same at every larger fuel *)
Theorem follow_fuel_stable f f' r c c' e :
  follow U f r c = (c', e) -> e <> Some EFuel -> f <= f' -> follow U f' r c = (c', e).
Proof.
  intros H Hn Hle. destruct (follow_le f f' Hle r c c' e H) as [E|F]; [exact E|contradiction].
Qed.

Theorem decode_fuel_stable f f' t c c' e :
  decode U f t c = (c', e) -> e <> Some EFuel -> f <= f' -> decode U f' t c = (c', e).
Proof.
  unfold decode, rules. intros H Hn Hle.
  destruct (rules_lz_le _ _ (follow_le f f' Hle) t c false c' e H) as [E|F]; [exact E|contradiction].
Qed.

(* so two sufficient fuels give the same result: the result of a program is
   well defined *)
Corollary decode_result_unique f1 f2 t c :
  snd (decode U f1 t c) <> Some EFuel -> snd (decode U f2 t c) <> Some EFuel ->
  decode U f1 t c = decode U f2 t c.
Proof.
  intros H1 H2. destruct (Nat.le_ge_cases f1 f2) as [L|L].
  - destruct (decode U f1 t c) as [c1 e1] eqn:E1. symmetry. eapply decode_fuel_stable; eauto.
  - destruct (decode U f2 t c) as [c2 e2] eqn:E2. eapply decode_fuel_stable; eauto.
Qed.

End WITH_U.
