(* InterpFacts2.v -- context variables, arguments, coalesce, comparison
   operators, builtins, the assign cascade and frame facts. *)
From Coq Require Import List NArith ZArith Bool Lia String.
From Dec Require Import Bytes Strconv Crc Values Tree Interp.
From Dec.proofs Require Import StrconvFacts InterpFacts.
Import ListNotations.

(* ------------------------------------------------- variables are a map *)

Lemma find_set_same vs k v i : find_var (set_var vs k v i) k = Some (v, i).
Proof.
  induction vs as [|[[k' v'] i'] vs IH]; simpl.
  - rewrite bytes_eqb_refl. reflexivity.
  - destruct (bytes_eqb k' k) eqn:E; simpl.
    + rewrite bytes_eqb_refl. reflexivity.
    + rewrite E. exact IH.
Qed.

Lemma find_set_other vs k k' v i : k <> k' -> find_var (set_var vs k v i) k' = find_var vs k'.
Proof.
  intro N. induction vs as [|[[k0 v0] i0] vs IH]; simpl.
  - destruct (bytes_eqb k k') eqn:E; [apply bytes_eqb_eq in E; congruence|reflexivity].
  - destruct (bytes_eqb k0 k) eqn:E; simpl.
    + apply bytes_eqb_eq in E; subst k0.
      destruct (bytes_eqb k k') eqn:E2; [apply bytes_eqb_eq in E2; congruence|reflexivity].
    + destruct (bytes_eqb k0 k'); [reflexivity|exact IH].
Qed.

(* the latest binding wins; rebinding one name never disturbs another *)
Lemma ctx_set_get_same c k v i : find_var (vars (ctx_set c k v i)) k = Some (v, i).
Proof. apply find_set_same. Qed.

Lemma ctx_set_get_other c k k' v i : k <> k' ->
  find_var (vars (ctx_set c k v i)) k' = find_var (vars c) k'.
Proof. apply find_set_other. Qed.

(* Reset empties the store of variables *)
Lemma reset_unbinds c k : find_var (vars (ctx_reset c)) k = None.
Proof. reflexivity. Qed.

(* Get of an unbound name yields nil and no error *)
Lemma get_unbound c k : find_var (vars c) k = None -> In 46%N k = False \/ True ->
  forall rest, split_path (k ++ rest) = [k] ->
  snd (ctx_get c (k ++ rest) []) = VNil /\ cerr (fst (ctx_get c (k ++ rest) [])) = cerr c.
Proof.
  intros H _ rest Hs. unfold ctx_get.
  destruct (k ++ rest) eqn:Ek; [split; reflexivity|].
  change (vars (w_bufX c VNil)) with (vars c).
  destruct (vars c) eqn:Ev; [split; reflexivity|].
  rewrite Hs. rewrite H. split; reflexivity.
Qed.

(* --------------------------------------------------------- coalesce *)

(* the first listed key that is present and not null *)
Fixpoint first_present (j : json) (rest : list bytes) (tails : list bytes) : option json :=
  match tails with
  | [] => None
  | t :: r =>
      match t with
      | [] => first_present j rest r
      | _ => if jis_null (jget j (rest ++ [t])) then first_present j rest r
             else Some (jget j (rest ++ [t]))
      end
  end.

Lemma coalesce_first_present j rest tails : forall cur,
  match first_present j rest tails with
  | Some x => coalesce j rest tails cur = VNode x
  | None => exists v, coalesce j rest tails cur = v /\
                      (v = cur \/ exists x, v = VNode x /\ jis_null x = true)
  end.
Proof.
  induction tails as [|t r IH]; intro cur.
  - exists cur. auto.
  - destruct t as [|b t'].
    + apply IH.
    + cbn [first_present coalesce].
      match goal with |- context [jis_null ?y] => remember y as x eqn:Ex end.
      destruct (jis_null x) eqn:E.
      * specialize (IH (VNode x)).
        destruct (first_present j rest r); [exact IH|].
        destruct IH as (v & Hv & [Hc|Hx]); exists v; split; auto.
        right. exists x. subst v. auto.
      * reflexivity.
Qed.

(* --------------------------------------------------- operator algebra *)

Definition valid_cmp (o : Z) : Prop :=
  o = opEq \/ o = opNq \/ o = opGt \/ o = opGtq \/ o = opLt \/ o = opLtq.

(* the literal-on-the-left route: comparing b with a under the swapped operator
   is comparing a with b under the operator itself *)
Lemma swap_mirror o c : valid_cmp o -> cmp_by (op_swap o) (CompOpp c) = cmp_by o c.
Proof.
  intros [->|[->|[->|[->|[->| ->]]]]]; destruct c; reflexivity.
Qed.

Lemma swap_mirror_Z o a b : valid_cmp o ->
  cmp_by (op_swap o) (Z.compare b a) = cmp_by o (Z.compare a b).
Proof. intro H. rewrite (Z.compare_antisym a b). apply swap_mirror. exact H. Qed.

Lemma bytes_cmp_antisym a : forall b, bytes_cmp b a = CompOpp (bytes_cmp a b).
Proof.
  induction a as [|x a IH]; intros [|y b]; simpl; try reflexivity.
  rewrite (N.compare_antisym x y). destruct (N.compare x y); simpl; auto.
Qed.

Lemma swap_mirror_bytes o a b : valid_cmp o ->
  cmp_by (op_swap o) (bytes_cmp b a) = cmp_by o (bytes_cmp a b).
Proof. intro H. rewrite bytes_cmp_antisym. apply swap_mirror. exact H. Qed.

Lemma swap_involutive o : op_swap (op_swap o) = o.
Proof.
  unfold op_swap.
  destruct (Z.eqb_spec o opGt); [subst; reflexivity|].
  destruct (Z.eqb_spec o opGtq); [subst; reflexivity|].
  destruct (Z.eqb_spec o opLt); [subst; reflexivity|].
  destruct (Z.eqb_spec o opLtq); [subst; reflexivity|].
  destruct (Z.eqb_spec o opGt); [contradiction|].
  destruct (Z.eqb_spec o opGtq); [contradiction|].
  destruct (Z.eqb_spec o opLt); [contradiction|].
  destruct (Z.eqb_spec o opLtq); [contradiction|]. reflexivity.
Qed.

(* the six operators mean what they say on integers *)
Lemma cmp_by_spec o a b : valid_cmp o ->
  cmp_by o (Z.compare a b) =
  if Z.eqb o opEq then Z.eqb a b
  else if Z.eqb o opNq then negb (Z.eqb a b)
  else if Z.eqb o opGt then Z.gtb a b
  else if Z.eqb o opGtq then Z.geb a b
  else if Z.eqb o opLt then Z.ltb a b
  else Z.leb a b.
Proof.
  intros [->|[->|[->|[->|[->| ->]]]]]; simpl;
    unfold Z.gtb, Z.geb, Z.ltb, Z.leb; rewrite ?Z.eqb_compare;
    destruct (Z.compare a b); reflexivity.
Qed.

(* -------------------------------------------------------- builtins *)

(* default: passes every non-empty value through unchanged ... *)
Lemma default_passes c v a : mod_is_empty c v = false -> mod_default c v a = (c, None, None).
Proof. intro H. unfold mod_default. rewrite H. reflexivity. Qed.

(* ... replaces an empty one by its argument ... *)
Lemma default_replaces c v x a : mod_is_empty c v = true ->
  exists c' r, mod_default c v (x :: a) = (c', Some r, None) /\
    vars c' = vars c /\ store c' = store c /\
    match x with
    | VBytes b => r = VBytes b
    | VNode j => r = VBytes (jbytes j)
    | VStr _ | VBool _ | VInt _ | VUint _ | VFloat _ => r = x
    | _ => r = VNil
    end.
Proof.
  intro H. unfold mod_default. rewrite H. simpl.
  destruct x; eexists; eexists; (split; [reflexivity|]); simpl; auto.
Qed.

(* ... and fails without an argument *)
Lemma default_arity c v : mod_is_empty c v = true -> mod_default c v [] = (c, None, Some EModPoorArgs).
Proof. intro H. unfold mod_default. rewrite H. reflexivity. Qed.

(* what "empty" means *)
Lemma empty_classes c :
  mod_is_empty c (VNode JAbsent) = true /\ mod_is_empty c (VNode JNull) = true /\
  mod_is_empty c (VBytes []) = true /\ mod_is_empty c (VStr []) = true /\
  mod_is_empty c (VInt 0) = true /\ mod_is_empty c (VUint 0) = true /\ mod_is_empty c (VBool false) = true /\
  mod_is_empty c (VNode (JStr [])) = true /\
  (forall x b, mod_is_empty c (VBytes (x :: b)) = false) /\
  (forall x b, mod_is_empty c (VStr (x :: b)) = false) /\
  (forall x b, mod_is_empty c (VNode (JStr (x :: b))) = false) /\
  (forall x b, mod_is_empty c (VNode (JNum (x :: b))) = false) /\
  (forall b, mod_is_empty c (VNode (JBool b)) = false) /\
  (forall z, z <> 0%Z -> mod_is_empty c (VInt z) = false) /\
  (forall z, z <> 0%Z -> mod_is_empty c (VUint z) = false) /\
  mod_is_empty c (VBool true) = false.
Proof.
  repeat split; try reflexivity; intros; simpl; try reflexivity.
  - destruct b; reflexivity.
  - apply Z.eqb_neq. assumption.
  - apply Z.eqb_neq. assumption.
Qed.

Lemma ifthen_spec c v x a :
  mod_ifthen c v (x :: a) = ((if check_true c v then own_arg c x else c), (if check_true c v then Some x else None), None).
Proof. unfold mod_ifthen. destruct (check_true c v); reflexivity. Qed.

Lemma ifthen_arity c v : mod_ifthen c v [] = (c, None, Some EModNoArgs).
Proof. reflexivity. Qed.

Lemma ifthenelse_spec c v x y a :
  mod_ifthenelse c v (x :: y :: a) = (own_arg c (if check_true c v then x else y), Some (if check_true c v then x else y), None).
Proof. unfold mod_ifthenelse. destruct (check_true c v); reflexivity. Qed.

Lemma ifthenelse_arity c v a : List.length a < 2 -> mod_ifthenelse c v a = (c, None, Some EModPoorArgs).
Proof. destruct a as [|x [|y a]]; simpl; intro H; try reflexivity. lia. Qed.

(* atoi / atou / atob are strconv's parsers, and fail exactly when they fail *)
Lemma atoi_is_parseint c s rest :
  run_bget c GAtoi (VBytes s :: rest) =
  match parse_int10 s with
  | inl z => (c, Some (VInt z), None)
  | inr e => (c, None, Some (EStrconv e))
  end.
Proof. reflexivity. Qed.

Lemma atou_is_parseuint c s rest :
  run_bget c GAtou (VBytes s :: rest) =
  match parse_uint10 s with
  | inl z => (c, Some (VUint z), None)
  | inr e => (c, None, Some (EStrconv e))
  end.
Proof. reflexivity. Qed.

Lemma atob_is_parsebool c s rest :
  run_bget c GAtob (VBytes s :: rest) =
  match parse_bool s with
  | Some b => (c, Some (VBool b), None)
  | None => (c, None, Some (EStrconv ESyntax))
  end.
Proof. reflexivity. Qed.

Lemma atox_node c t rest :
  run_bget c GAtoi (VNode (JStr t) :: rest) = run_bget c GAtoi (VBytes t :: rest) /\
  run_bget c GAtou (VNode (JStr t) :: rest) = run_bget c GAtou (VBytes t :: rest) /\
  run_bget c GAtob (VNode (JStr t) :: rest) = run_bget c GAtob (VBytes t :: rest).
Proof. repeat split; reflexivity. Qed.

(* itoa / utoa render as strconv does *)
Lemma itoa_formats c z rest :
  run_bget c GItoa (VInt z :: rest) = (w_lenBB c (S (lenBB c)), Some (VBytes (format_int z)), None).
Proof. reflexivity. Qed.

Lemma utoa_formats c z rest :
  run_bget c GUtoa (VUint z :: rest) = (w_lenBB c (S (lenBB c)), Some (VBytes (format_uint z)), None).
Proof. reflexivity. Qed.

(* crc32 is the IEEE CRC-32 of the concatenation of its arguments *)
Lemma crc32_concat c x rest :
  run_bget c GCrc32 (x :: rest) =
  (c, Some (VInt (Z.of_N (crc32_ieee (List.concat (map crc_piece (x :: rest)))))), None).
Proof. reflexivity. Qed.

Lemma crc32_empty_is_zero c : run_bget c GCrc32 [VBytes []] = (c, Some (VInt 0), None).
Proof. reflexivity. Qed.

(* every builtin getter fails without arguments *)
Lemma getter_arity c g : run_bget c g [] = (c, None, Some EGetterPoorArgs).
Proof. destruct g; reflexivity. Qed.

(* -------------------------------------------------- the assign cascade *)

(* The specification: what a destination of each kind must hold after an
   assignment from a present, compatible source. It does not mention the
   cascade. *)
Definition convert (dstf : fval) (text : bytes) : option fval :=
  match dstf with
  | FBytes _ => Some (FBytes text)
  | FStr _ => Some (FStr text)
  | FBool _ => Some (FBool (bytes_eqb text (bs "true")))
  | FInt bits _ => match parse_int10 text with inl z => Some (FInt bits (wrap_int bits z)) | inr _ => None end
  | FUint bits _ => match parse_uint10 text with inl z => Some (FUint bits (wrap_uint bits z)) | inr _ => None end
  | FFloat _ _ => None
  end.

(* textual sources: a literal (the tree keeps its text), a []byte / string
   field, a string node *)
Lemma assign_text_int c bits z0 s z :
  parse_int10 s = inl z -> assign c (FInt bits z0) (VBytes s) = Some (FInt bits (wrap_int bits z)).
Proof.
  intro H. simpl. unfold atoi_re. rewrite (parse_int10_re _ _ H), H. reflexivity.
Qed.

Lemma assign_text_uint c bits z0 s z :
  parse_uint10 s = inl z -> assign c (FUint bits z0) (VBytes s) = Some (FUint bits (wrap_uint bits z)).
Proof.
  intro H. simpl. unfold atou_re. rewrite (parse_uint10_re _ _ H), H. reflexivity.
Qed.

Lemma assign_text_spec c dstf s r :
  (match dstf with FFloat _ _ => False | _ => True end) ->
  convert dstf s = Some r -> assign c dstf (VBytes s) = Some r.
Proof.
  intros Hk H. destruct dstf; simpl in H; try contradiction.
  - inversion H; reflexivity.
  - inversion H; reflexivity.
  - inversion H; reflexivity.
  - destruct (parse_int10 s) eqn:E; [|discriminate]. inversion H; subst.
    eapply assign_text_int; eauto.
  - destruct (parse_uint10 s) eqn:E; [|discriminate]. inversion H; subst.
    eapply assign_text_uint; eauto.
Qed.

(* a number node into an integer field: the integer its text denotes, wrapped
   to the field's width *)
Lemma assign_num_node_int c bits z0 t z :
  parse_int10 t = inl z -> assign c (FInt bits z0) (VNode (JNum t)) = Some (FInt bits (wrap_int bits z)).
Proof. intro H. simpl. rewrite H. reflexivity. Qed.

Lemma assign_num_node_uint c bits z0 t z :
  parse_uint10 t = inl z -> assign c (FUint bits z0) (VNode (JNum t)) = Some (FUint bits (wrap_uint bits z)).
Proof. intro H. simpl. rewrite H. reflexivity. Qed.

(* a string / number / bool node into a string or []byte field: its text *)
Lemma assign_node_text c f j :
  (match j with JStr _ | JNum _ | JBool _ => True | _ => False end) ->
  (match f with FStr _ => assign c f (VNode j) = Some (FStr (jbytes j))
              | FBytes _ => assign c f (VNode j) = Some (FBytes (jbytes j))
              | _ => True end).
Proof. intro H. destruct f; auto. Qed.

(* integers travel between integer kinds by value, narrowed as Go narrows *)
Lemma assign_int_int c bits z0 z : assign c (FInt bits z0) (VInt z) = Some (FInt bits (wrap_int bits z)).
Proof. reflexivity. Qed.
Lemma assign_uint_uint c bits z0 z : assign c (FUint bits z0) (VUint z) = Some (FUint bits (wrap_uint bits z)).
Proof. reflexivity. Qed.
Lemma assign_int_in_range c bits z0 z :
  (0 < bits)%N -> (- 2 ^ (Z.of_N bits - 1) <= z < 2 ^ (Z.of_N bits - 1))%Z ->
  assign c (FInt bits z0) (VInt z) = Some (FInt bits z).
Proof. intros Hb H. simpl. rewrite wrap_int_id; auto. Qed.

(* An absent source (unknown variable or field: nil; missing key or null: the
   null node) never yields a value from elsewhere: the field is left alone or
   becomes its zero value. *)
Definition zero_of (f : fval) : fval :=
  match f with
  | FStr _ => FStr [] | FBytes _ => FBytes [] | FBool _ => FBool false
  | FInt b _ => FInt b 0 | FUint b _ => FUint b 0 | FFloat b _ => FFloat b [48%N]
  end.

Lemma assign_absent c f v :
  v = VNil \/ v = VNode JAbsent \/ v = VNode JNull ->
  assign c f v = None \/ assign c f v = Some (zero_of f).
Proof.
  intros [->|[->| ->]]; destruct f; simpl; auto.
Qed.

(* -------------------------------------------------------------- frame *)

Lemma assoc_set_other {A} (l : list (bytes * A)) p k v : k <> p ->
  assoc_b k (set_assoc p v l) = assoc_b k l.
Proof.
  intro N. induction l as [|[k0 x] l IH]; simpl; [reflexivity|].
  destruct (bytes_eqb p k0) eqn:E; simpl.
  - apply bytes_eqb_eq in E; subst k0.
    destruct (bytes_eqb k p) eqn:E2; [apply bytes_eqb_eq in E2; congruence|reflexivity].
  - destruct (bytes_eqb k k0); [reflexivity|exact IH].
Qed.

Lemma assoc_set_same {A} (l : list (bytes * A)) p v x :
  assoc_b p l = Some x -> assoc_b p (set_assoc p v l) = Some v.
Proof.
  induction l as [|[k0 y] l IH]; simpl; [discriminate|].
  destruct (bytes_eqb p k0) eqn:E; simpl.
  - intros _. rewrite E. reflexivity.
  - intro H. rewrite E. apply IH. exact H.
Qed.

Lemma nth_set_nth_l_other {A} (l : list A) i j x : i <> j -> nth_error (set_nth_l l i x) j = nth_error l j.
Proof.
  revert i j; induction l as [|y l IH]; intros [|i] [|j] H; simpl; auto; try congruence.
Qed.

(* writing a field of one object leaves every other object, every variable,
   the loop counters, the trace and the pending break depth untouched *)
Lemma setwb_frame c v x path c' e :
  obj_setwb c v x path = (c', e) ->
  vars c' = vars c /\ bufLC c' = bufLC c /\ trace c' = trace c /\ ncalls c' = ncalls c /\
  brkD c' = brkD c /\ cerr c' = cerr c /\
  forall oid prefix, v = VObj oid prefix -> forall j, j <> oid -> nth_error (store c') j = nth_error (store c) j.
Proof.
  unfold obj_setwb. intro H.
  destruct path as [|p path]; [inversion H; subst; repeat split; auto|].
  destruct v; try (inversion H; subst; repeat split; auto; fail).
  destruct (nth_error (store c) oid) as [ob|] eqn:Eo; [|inversion H; subst; repeat split; auto].
  destruct (oresolve ofuel ob (prefix ++ p :: path)); try (inversion H; subst; repeat split; auto; fail).
  destruct (assign c v x); inversion H; subst; simpl; repeat split; auto.
  intros oid0 prefix0 Hv j Hj. inversion Hv; subst. apply nth_set_nth_l_other. congruence.
Qed.

(* within a flat object, writing one field leaves the others alone *)
Lemma oupdate_flat_other fuel o p v k :
  k <> p -> assoc_b p (o_fields o) <> None ->
  assoc_b k (o_fields (oupdate (S fuel) o [p] v)) = assoc_b k (o_fields o).
Proof.
  intros N H. simpl. destruct (assoc_b p (o_fields o)); [|congruence].
  simpl. apply assoc_set_other. exact N.
Qed.

Lemma oupdate_flat_same fuel o p v x :
  assoc_b p (o_fields o) = Some x ->
  assoc_b p (o_fields (oupdate (S fuel) o [p] v)) = Some v.
Proof.
  intro H. simpl. rewrite H. simpl. eapply assoc_set_same; eauto.
Qed.

Lemma set_assoc_comm {A} (l : list (bytes * A)) p q v w : p <> q ->
  set_assoc p v (set_assoc q w l) = set_assoc q w (set_assoc p v l).
Proof.
  intro N. induction l as [|[k x] l IH]; simpl; [reflexivity|].
  destruct (bytes_eqb q k) eqn:E1; destruct (bytes_eqb p k) eqn:E2; simpl; rewrite ?E1, ?E2; try reflexivity.
  - apply bytes_eqb_eq in E1. apply bytes_eqb_eq in E2. congruence.
  - rewrite IH. reflexivity.
Qed.

(* two rules writing different fields of a flat object commute *)
Lemma oupdate_flat_comm fuel o p q v w :
  p <> q -> assoc_b p (o_fields o) <> None -> assoc_b q (o_fields o) <> None ->
  oupdate (S fuel) (oupdate (S fuel) o [p] v) [q] w = oupdate (S fuel) (oupdate (S fuel) o [q] w) [p] v.
Proof.
  intros N Hp Hq. simpl.
  destruct (assoc_b p (o_fields o)) eqn:Ep; [|congruence].
  destruct (assoc_b q (o_fields o)) eqn:Eq; [|congruence].
  simpl. rewrite (assoc_set_other _ p q) by congruence. rewrite Eq.
  rewrite (assoc_set_other _ q p) by congruence. rewrite Ep. simpl.
  rewrite set_assoc_comm by congruence. reflexivity.
Qed.
