(* FollowCore.v -- scratch irrelevance, lifted through the whole interpreter:
   two contexts that agree on everything but the scratch cells bufX and bufBl
   give the same result, the same trace and the same objects after any rule,
   at any fuel.  Hence a context that has been Reset (which leaves exactly
   bufBl behind) behaves like a new one (C14), and the verdict of a condition
   depends on nothing but its operands (C03). *)
From Coq Require Import List NArith ZArith Bool Lia String.
From Dec Require Import Bytes Strconv Crc Values Tree Interp.
From Dec.proofs Require Import InterpFacts InterpFacts2 InterpFacts3.
Import ListNotations.

Local Arguments ctx_set : simpl never.
Local Arguments oresolve : simpl never.
Local Arguments oupdate : simpl never.
Local Arguments oloop : simpl never.
Local Arguments assign : simpl never.
Local Arguments deref : simpl never.
Local Arguments x2bytes : simpl never.
Local Arguments ctx_get : simpl never.
Local Arguments ctx_cmp : simpl never.
Local Arguments set_var : simpl never.
Local Arguments find_var : simpl never.
Local Arguments split_path : simpl never.
Local Arguments format_int : simpl never.
Local Arguments parse_int0 : simpl never.
Local Arguments log_call : simpl never.
Local Arguments jget : simpl never.

Ltac ce_split := repeat split; simpl; try congruence; auto.

Lemma ce_w_bufX a b x y : core_eq a b -> core_eq (w_bufX a x) (w_bufX b y).
Proof. intros (A&B&C&D&E&F&G&H). ce_split. Qed.
Lemma ce_w_bufBl a b x y : core_eq a b -> core_eq (w_bufBl a x) (w_bufBl b y).
Proof. intros (A&B&C&D&E&F&G&H). ce_split. Qed.
Lemma ce_w_cerr a b e : core_eq a b -> core_eq (w_cerr a e) (w_cerr b e).
Proof. intros (A&B&C&D&E&F&G&H). ce_split. Qed.
Lemma ce_w_brkD a b n : core_eq a b -> core_eq (w_brkD a n) (w_brkD b n).
Proof. intros (A&B&C&D&E&F&G&H). ce_split. Qed.
Lemma ce_w_bufLC a b l : core_eq a b -> core_eq (w_bufLC a l) (w_bufLC b l).
Proof. intros (A&B&C&D&E&F&G&H). ce_split. Qed.
Lemma ce_w_lenBB a b n : core_eq a b -> core_eq (w_lenBB a n) (w_lenBB b n).
Proof. intros (A&B&C&D&E&F&G&H). ce_split. Qed.
Lemma ce_w_store a b s : core_eq a b -> core_eq (w_store a s) (w_store b s).
Proof. intros (A&B&C&D&E&F&G&H). ce_split. Qed.
Lemma ce_ctx_set a b k v i : core_eq a b -> core_eq (ctx_set a k v i) (ctx_set b k v i).
Proof. intros (A&B&C&D&E&F&G&H). unfold ctx_set. ce_split. Qed.
Lemma ce_dec_brk a b : core_eq a b -> core_eq (dec_brk a) (dec_brk b).
Proof. intros H. pose proof H as (A&B&C&D&E&F&G&I). unfold dec_brk. rewrite D. destruct (brkD b); [exact H|apply ce_w_brkD; exact H]. Qed.

Lemma ce_brkD a b : core_eq a b -> brkD a = brkD b.
Proof. intros (A&B&C&D&E&F&G&H). exact D. Qed.
Lemma ce_cerr a b : core_eq a b -> cerr a = cerr b.
Proof. intros (A&B&C&D&E&F&G&H). exact C. Qed.
Lemma ce_vars a b : core_eq a b -> vars a = vars b.
Proof. intros (A&B&C&D&E&F&G&H). exact A. Qed.
Lemma ce_store a b : core_eq a b -> store a = store b.
Proof. intros (A&B&C&D&E&F&G&H). exact B. Qed.
Lemma ce_bufLC a b : core_eq a b -> bufLC a = bufLC b.
Proof. intros (A&B&C&D&E&F&G&H). exact E. Qed.
Lemma ce_lenBB a b : core_eq a b -> lenBB a = lenBB b.
Proof. intros (A&B&C&D&E&F&G&H). exact F. Qed.

Lemma ce_log_call a b k n v : core_eq a b ->
  core_eq (fst (log_call a k n v)) (fst (log_call b k n v)) /\ snd (log_call a k n v) = snd (log_call b k n v).
Proof. intros (A&B&C&D&E&F&G&H). unfold log_call. ce_split. Qed.

Lemma ce_ncalls a b : core_eq a b -> ncalls a = ncalls b.
Proof. intros (A&B&C&D&E&F&G&H). exact H. Qed.

Lemma bufX_log_call c k n v : bufX (fst (log_call c k n v)) = bufX c.
Proof. reflexivity. Qed.

(* the two runs log the same entry (the kind mentions the call counter, equal on both sides) *)
Ltac sync_log H L1 L2 a2 na b2 nb :=
  cbv zeta;
  match type of H with core_eq ?ca ?cb =>
    rewrite ?(ce_ncalls ca cb H);
    match goal with |- context [log_call cb ?k ?nm ?v] =>
      destruct (ce_log_call ca cb k nm v H) as [L1 L2];
      pose proof (bufX_log_call ca k nm v) as BA; pose proof (bufX_log_call cb k nm v) as BB;
      destruct (log_call ca k nm v) as [a2 na]; destruct (log_call cb k nm v) as [b2 nb]
    end
  end.

Lemma assign_core a b f v : core_eq a b -> assign a f v = assign b f v.
Proof.
  intro H. unfold assign. rewrite (deref_core a b v H).
  destruct f; try reflexivity; rewrite (x2bytes_core a b _ H); reflexivity.
Qed.

Lemma obj_setwb_core a b v x p : core_eq a b ->
  core_eq (fst (obj_setwb a v x p)) (fst (obj_setwb b v x p)) /\ snd (obj_setwb a v x p) = snd (obj_setwb b v x p).
Proof.
  intro H. unfold obj_setwb. destruct p; [simpl; auto|]. destruct v; simpl; auto.
  rewrite <- (ce_store a b H). destruct (nth_error (store a) oid); simpl; auto.
  destruct (oresolve ofuel o (prefix ++ b0 :: p)); simpl; auto.
  match goal with |- context [assign a ?f ?y] => rewrite (assign_core a b f y H); destruct (assign b f y) end; simpl; auto.
  split; [|reflexivity]. apply ce_w_store. exact H.
Qed.

Section WITH_U.
Variable U : ufuns.

Lemma ctx_set_path_core a b p x i : core_eq a b ->
  core_eq (fst (ctx_set_path U a p x i)) (fst (ctx_set_path U b p x i)) /\
  snd (ctx_set_path U a p x i) = snd (ctx_set_path U b p x i).
Proof.
  intro H. unfold ctx_set_path. destruct p as [|p0 p']; [simpl; auto|].
  rewrite <- (ce_vars a b H). destruct (vars a) as [|v0 vs] eqn:Ev; [simpl; auto|].
  destruct (split_path (p0 :: p')) as [|k rest]; [simpl; auto|].
  destruct (is_ctx_name k).
  - destruct rest; [simpl; auto|].
    destruct i as [|i0 i'].
    + destruct x; simpl; auto using ce_ctx_set. destruct j; simpl; auto using ce_ctx_set.
    + destruct (u_ins U (i0 :: i')); simpl; auto using ce_ctx_set.
  - destruct (find_var (v0 :: vs) k) as [[v ik]|]; [|simpl; auto].
    destruct ik; simpl; auto using ce_w_cerr, ce_w_bufX.
    pose proof (obj_setwb_core (w_bufX a x) (w_bufX b x) v x rest (ce_w_bufX _ _ x x H)) as [S1 S2].
    destruct (obj_setwb (w_bufX a x) v x rest) as [a' ea].
    destruct (obj_setwb (w_bufX b x) v x rest) as [b' eb]. simpl in *. subst eb.
    split; [apply ce_w_cerr; exact S1|reflexivity].
Qed.

Lemma cmp_dynamic_core a b l o r : core_eq a b ->
  core_eq (fst (fst (cmp_dynamic a l o r))) (fst (fst (cmp_dynamic b l o r))) /\
  snd (fst (cmp_dynamic a l o r)) = snd (fst (cmp_dynamic b l o r)) /\
  snd (cmp_dynamic a l o r) = snd (cmp_dynamic b l o r).
Proof.
  intro H. unfold cmp_dynamic.
  destruct (ctx_get_core a b r [] H) as (G1 & G2 & G3).
  destruct (ctx_get a r []) as [a' va]. destruct (ctx_get b r []) as [b' vb]. simpl in *.
  rewrite (ce_cerr a' b' G1). destruct (cerr b'); [simpl; auto|].
  rewrite G3. rewrite (x2bytes_core a' b' _ G1). destruct (x2bytes b' (bufX b')); [|simpl; auto].
  destruct (ctx_cmp_core a' b' l o b0 G1) as [C1 C2].
  destruct (ctx_cmp a' l o b0). destruct (ctx_cmp b' l o b0). simpl in *. auto.
Qed.

Lemma node_cmp_core a b n : core_eq a b ->
  core_eq (fst (fst (node_cmp a n))) (fst (fst (node_cmp b n))) /\
  snd (fst (node_cmp a n)) = snd (fst (node_cmp b n)) /\
  snd (node_cmp a n) = snd (node_cmp b n).
Proof.
  intro H. unfold node_cmp. destruct (condStaticL n && condStaticR n); [simpl; auto|].
  destruct (condStaticR n).
  - destruct (ctx_cmp_core a b (condL n) (condOp n) (condR n) H) as [C1 C2].
    destruct (ctx_cmp a (condL n) (condOp n) (condR n)). destruct (ctx_cmp b (condL n) (condOp n) (condR n)). simpl in *. auto.
  - destruct (condStaticL n).
    + destruct (ctx_cmp_core a b (condR n) (op_swap (condOp n)) (condL n) H) as [C1 C2].
      destruct (ctx_cmp a (condR n) (op_swap (condOp n)) (condL n)). destruct (ctx_cmp b (condR n) (op_swap (condOp n)) (condL n)). simpl in *. auto.
    + apply cmp_dynamic_core. exact H.
Qed.

Lemma mod_is_empty_core a b v : core_eq a b -> mod_is_empty a v = mod_is_empty b v.
Proof. intro H. unfold mod_is_empty. rewrite (deref_core a b v H). reflexivity. Qed.
Lemma check_true_core a b v : core_eq a b -> check_true a v = check_true b v.
Proof. intro H. unfold check_true. rewrite (deref_core a b v H). reflexivity. Qed.

(* a modifier / getter step: context, produced value, error *)
Definition step3_eq (x y : ctx * option val * option err) : Prop :=
  core_eq (fst (fst x)) (fst (fst y)) /\ snd (fst x) = snd (fst y) /\ snd x = snd y.

Lemma mod_default_core a b v l : core_eq a b -> step3_eq (mod_default a v l) (mod_default b v l).
Proof.
  intro H. unfold mod_default, step3_eq. rewrite (mod_is_empty_core a b v H).
  destruct (mod_is_empty b v); simpl; auto. destruct l as [|x l]; simpl; auto.
  rewrite (ce_lenBB a b H). destruct x; simpl; auto using ce_w_lenBB.
Qed.
Lemma ce_own_arg a b x : core_eq a b -> core_eq (own_arg a x) (own_arg b x).
Proof. intro H. unfold own_arg. destruct x; try exact H. rewrite (ce_lenBB a b H). apply ce_w_lenBB. exact H. Qed.
Lemma bufX_own_arg a x : bufX (own_arg a x) = bufX a.
Proof. destruct x; reflexivity. Qed.

Lemma mod_ifthen_core a b v l : core_eq a b -> step3_eq (mod_ifthen a v l) (mod_ifthen b v l).
Proof.
  intro H. unfold mod_ifthen, step3_eq. destruct l; simpl; auto.
  rewrite (check_true_core a b v H). destruct (check_true b v); simpl; auto using ce_own_arg.
Qed.
Lemma mod_ifthenelse_core a b v l : core_eq a b -> step3_eq (mod_ifthenelse a v l) (mod_ifthenelse b v l).
Proof.
  intro H. unfold mod_ifthenelse, step3_eq. destruct l as [|x [|y l]]; simpl; auto.
  rewrite (check_true_core a b v H). destruct (check_true b v); simpl; auto using ce_own_arg.
Qed.

Lemma run_bget_core a b g l : core_eq a b -> step3_eq (run_bget a g l) (run_bget b g l).
Proof.
  intro H. unfold run_bget, step3_eq. rewrite (ce_lenBB a b H).
  destruct g; destruct l as [|x l]; simpl; auto;
    try (destruct (atox_raw x); simpl; auto;
         match goal with |- context [match ?e with _ => _ end] => destruct e end; simpl; auto; fail);
    try (destruct x; simpl; auto using ce_w_lenBB; fail).
Qed.

Lemma run_mods_core ms : forall a b raw, core_eq a b ->
  core_eq (fst (run_mods U ms a raw)) (fst (run_mods U ms b raw)) /\
  snd (run_mods U ms a raw) = snd (run_mods U ms b raw).
Proof.
  induction ms as [|m ms IH]; intros a b raw H; [simpl; auto|cbn [run_mods]].
  destruct (collect_args_core (m_arg m) a b [] H) as [C1 C2].
  destruct (collect_args a (m_arg m) []) as [a1 la]. destruct (collect_args b (m_arg m) []) as [b1 lb].
  simpl in C1, C2. subst lb.
  pose proof (ce_w_bufX a1 b1 raw raw C1) as C3.
  assert (G : forall (x y : ctx * option val * option err),
             step3_eq x y -> bufX (fst (fst x)) = bufX (fst (fst y)) ->
             core_eq (fst (let '(c, res, e) := x in
                           let c0 := match res with Some v => w_bufX c v | None => c end in
                           let c1 := w_cerr c0 e in
                           match e with Some _ => (c1, raw) | None => run_mods U ms c1 (bufX c1) end))
                     (fst (let '(c, res, e) := y in
                           let c0 := match res with Some v => w_bufX c v | None => c end in
                           let c1 := w_cerr c0 e in
                           match e with Some _ => (c1, raw) | None => run_mods U ms c1 (bufX c1) end)) /\
             snd (let '(c, res, e) := x in
                  let c0 := match res with Some v => w_bufX c v | None => c end in
                  let c1 := w_cerr c0 e in
                  match e with Some _ => (c1, raw) | None => run_mods U ms c1 (bufX c1) end) =
             snd (let '(c, res, e) := y in
                  let c0 := match res with Some v => w_bufX c v | None => c end in
                  let c1 := w_cerr c0 e in
                  match e with Some _ => (c1, raw) | None => run_mods U ms c1 (bufX c1) end)).
  { intros [[xa xr] xe] [[ya yr] ye] (S1 & S2 & S3) SX. simpl in *. subst yr ye.
    assert (Q : core_eq (w_cerr match xr with Some v => w_bufX xa v | None => xa end xe)
                        (w_cerr match xr with Some v => w_bufX ya v | None => ya end xe)).
    { apply ce_w_cerr. destruct xr; [apply ce_w_bufX|]; exact S1. }
    assert (QX : bufX (w_cerr match xr with Some v => w_bufX xa v | None => xa end xe) =
                 bufX (w_cerr match xr with Some v => w_bufX ya v | None => ya end xe)).
    { destruct xr; simpl; [reflexivity|exact SX]. }
    destruct xe; [simpl; split; [exact Q|reflexivity]|].
    clear QX. destruct xr; simpl in *; [apply IH; exact Q | rewrite SX; apply IH; exact Q]. }
  destruct (builtin_mod (m_id m)) as [[| | |]|].
  - apply G; [apply mod_default_core; exact C3|].
    unfold mod_default. rewrite (mod_is_empty_core _ _ raw C3).
    destruct (mod_is_empty (w_bufX b1 raw) raw); [|reflexivity]. destruct la as [|x l]; [reflexivity|]. destruct x; reflexivity.
  - apply G; [apply mod_ifthen_core; exact C3|].
    unfold mod_ifthen. destruct la; [reflexivity|]. rewrite (check_true_core _ _ raw C3).
    destruct (check_true (w_bufX b1 raw) raw); cbn [fst]; rewrite ?bufX_own_arg; reflexivity.
  - apply G; [apply mod_ifthenelse_core; exact C3|].
    unfold mod_ifthenelse. destruct la as [|x [|y l]]; try reflexivity. rewrite (check_true_core _ _ raw C3).
    destruct (check_true (w_bufX b1 raw) raw); cbn [fst]; rewrite ?bufX_own_arg; reflexivity.
  - apply (G (w_bufX a1 raw, None, None) (w_bufX b1 raw, None, None)); [unfold step3_eq; simpl; auto|reflexivity].
  - destruct (u_mod U (m_id m)) as [f|].
    + rewrite (deref_core _ _ raw C3).
      sync_log C3 L1 L2 a2 na b2 nb.
      cbn [fst snd] in L1, L2, BA, BB. subst nb.
      assert (BX : bufX a2 = bufX b2) by (rewrite BA, BB; reflexivity).
      assert (D2 : deref a2 raw = deref b2 raw) by (apply deref_core; exact L1).
      rewrite D2. destruct (f na (deref b2 raw) la) as [v|x];
        [apply (G (a2, Some v, None) (b2, Some v, None))|apply (G (a2, None, Some x) (b2, None, Some x))];
        unfold step3_eq; simpl; auto.
    + apply (G (w_bufX a1 raw, None, Some EUnsupported) (w_bufX b1 raw, None, Some EUnsupported)); [unfold step3_eq; simpl; auto|reflexivity].
Qed.

Lemma cloop_range_core a b st s : core_eq a b ->
  core_eq (fst (cloop_range a st s)) (fst (cloop_range b st s)) /\ snd (cloop_range a st s) = snd (cloop_range b st s).
Proof.
  intro H. unfold cloop_range. destruct st.
  - destruct (parse_int0 s); simpl; auto using ce_w_cerr.
  - destruct (ctx_get_core a b s [] H) as (G1 & G2 & G3).
    destruct (ctx_get a s []) as [a' va]. destruct (ctx_get b s []) as [b' vb]. simpl in *. subst vb.
    rewrite (ce_cerr a' b' G1). destruct (cerr b'); [simpl; auto|].
    unfold iface2int. rewrite (deref_core a' b' va G1).
    destruct (match deref b' va with
              | VInt z => Some z | VUint z => Some (wrap_int 64 z)
              | VBytes b0 | VStr b0 => match b0 with [] => Some 0%Z | _ => match parse_int0 b0 with inl z => Some z | inr _ => Some 0%Z end end
              | VNode j => jint j | _ => None end); simpl; auto using ce_w_cerr.
Qed.

Lemma call_cond_core a b name al : core_eq a b ->
  core_eq (fst (call_cond U a name al)) (fst (call_cond U b name al)) /\
  snd (call_cond U a name al) = snd (call_cond U b name al).
Proof.
  intro H. unfold call_cond. destruct (u_cond U name); [|simpl; auto].
  destruct (collect_args_core al a b [] H) as [C1 C2].
  destruct (collect_args a al []) as [a1 la]. destruct (collect_args b al []) as [b1 lb]. cbn [fst snd] in *. subst lb.
  sync_log C1 L1 L2 a2 na b2 nb.
  cbn [fst snd] in *. subst nb.
  match goal with |- context [let '(_, _) := ?X in _] => destruct X as [bb ee] end.
  cbn [fst snd]. split; [|reflexivity]. destruct ee; [apply ce_w_cerr|]; exact L1.
Qed.

(* ------------------------------------------------ drivers, for any rule semantics that respects core_eq *)

Definition respects (fr : node -> ctx -> ctx * option err) : Prop :=
  forall n a b, core_eq a b -> core_eq (fst (fr n a)) (fst (fr n b)) /\ snd (fr n a) = snd (fr n b).

Section DRV.
Variable fr : node -> ctx -> ctx * option err.
Hypothesis Hfr : respects fr.

Lemma rules_lz_core l : forall a b lz, core_eq a b ->
  core_eq (fst (rules_lz fr l a lz)) (fst (rules_lz fr l b lz)) /\ snd (rules_lz fr l a lz) = snd (rules_lz fr l b lz).
Proof.
  induction l as [|n l IH]; intros a b lz H; simpl; [auto|].
  destruct (Hfr n a b H) as [F1 F2]. destruct (fr n a) as [a' ea]. destruct (fr n b) as [b' eb]. simpl in *. subst eb.
  destruct ea as [e|]; [destruct e; simpl; auto|]; apply IH; exact F1.
Qed.

Lemma rules_core l a b : core_eq a b ->
  core_eq (fst (rules fr l a)) (fst (rules fr l b)) /\ snd (rules fr l a) = snd (rules fr l b).
Proof. apply rules_lz_core. Qed.

Lemma body_core l : forall a b lz, core_eq a b ->
  core_eq (fst (body fr l a lz)) (fst (body fr l b lz)) /\ snd (body fr l a lz) = snd (body fr l b lz).
Proof.
  induction l as [|n l IH]; intros a b lz H; simpl; [auto|].
  destruct (Hfr n a b H) as [F1 F2]. destruct (fr n a) as [a' ea]. destruct (fr n b) as [b' eb]. simpl in *. subst eb.
  destruct ea as [e|]; [destruct e; simpl; auto|]; apply IH; exact F1.
Qed.

Lemma cloop_run_core k : forall n idx v lim a b, core_eq a b ->
  core_eq (cloop_run fr k n idx v lim a) (cloop_run fr k n idx v lim b).
Proof.
  induction k as [|k IH]; intros n idx v lim a b H; cbn [cloop_run]; [apply ce_w_cerr; exact H|].
  destruct (loop_allows (loopCondOp n) v lim) as [al|].
  - rewrite (ce_brkD a b H).
    destruct (negb (al && Nat.eqb (brkD b) 0)); [apply ce_dec_brk; exact H|].
    destruct (body_core (child n) (ctx_set a (loopCnt n) (VLC idx) InsStatic) (ctx_set b (loopCnt n) (VLC idx) InsStatic) false
                (ce_ctx_set _ _ _ _ _ H)) as [B1 B2].
    destruct (body fr (child n) (ctx_set a (loopCnt n) (VLC idx) InsStatic) false) as [a1 ba].
    destruct (body fr (child n) (ctx_set b (loopCnt n) (VLC idx) InsStatic) false) as [b1 bb].
    cbn [fst snd] in B1, B2. subst bb.
    destruct ba; try (apply ce_w_cerr; exact B1);
      (destruct (step64 (loopCntOp n) v);
       [rewrite (ce_bufLC a1 b1 B1);
        first [apply IH; apply ce_ctx_set; apply ce_w_bufLC; exact B1 | apply ce_dec_brk; apply ce_ctx_set; apply ce_w_bufLC; exact B1]
       |first [apply IH; apply ce_ctx_set; apply ce_w_cerr; exact B1 | apply ce_dec_brk; apply ce_ctx_set; apply ce_w_cerr; exact B1]]).
  - cbn [negb andb]. apply ce_dec_brk. apply ce_w_cerr. exact H.
Qed.

Lemma cloop_core k n a b : core_eq a b -> core_eq (cloop fr k n a) (cloop fr k n b).
Proof.
  intro H. unfold cloop.
  destruct (cloop_range_core a b (loopCntStatic n) (loopCntInit n) H) as [R1 R2].
  destruct (cloop_range a (loopCntStatic n) (loopCntInit n)) as [a1 ca].
  destruct (cloop_range b (loopCntStatic n) (loopCntInit n)) as [b1 cb]. simpl in *. subst cb.
  rewrite (ce_cerr a1 b1 R1). destruct (cerr b1); [exact R1|].
  destruct (cloop_range_core a1 b1 (loopLimStatic n) (loopLim n) R1) as [S1 S2].
  destruct (cloop_range a1 (loopLimStatic n) (loopLim n)) as [a2 la].
  destruct (cloop_range b1 (loopLimStatic n) (loopLim n)) as [b2 lb]. simpl in *. subst lb.
  rewrite (ce_cerr a2 b2 S1). destruct (cerr b2); [exact S1|].
  rewrite (ce_bufLC a2 b2 S1). apply cloop_run_core. apply ce_w_bufLC. exact S1.
Qed.

Lemma iterate_core n a b brk : core_eq a b ->
  core_eq (fst (fst (iterate fr n a brk))) (fst (fst (iterate fr n b brk))) /\
  snd (fst (iterate fr n a brk)) = snd (fst (iterate fr n b brk)) /\
  snd (iterate fr n a brk) = snd (iterate fr n b brk).
Proof.
  intro H. unfold iterate. destruct brk; [simpl; auto|].
  rewrite (ce_brkD a b H). destruct (negb (Nat.eqb (brkD b) 0)); [simpl; auto using ce_dec_brk|].
  destruct (body_core (child n) a b false H) as [B1 B2].
  destruct (body fr (child n) a false) as [a1 ba]. destruct (body fr (child n) b false) as [b1 bb]. simpl in *. subst bb.
  destruct ba; simpl; auto using ce_dec_brk, ce_w_cerr.
  rewrite (ce_brkD a1 b1 B1). destruct (negb (Nat.eqb (brkD b1) 0)); simpl; auto using ce_dec_brk.
Qed.

Lemma ce_set_key n a b i : core_eq a b -> core_eq (set_key n a i) (set_key n b i).
Proof. intro H. unfold set_key. destruct (loopKey n); [exact H|apply ce_ctx_set; exact H]. Qed.

Lemma vloop_core n xs : forall i a b brk, core_eq a b -> core_eq (vloop fr n xs i a brk) (vloop fr n xs i b brk).
Proof.
  induction xs as [|x xs IH]; intros i a b brk H; simpl; [exact H|].
  destruct (iterate_core n _ _ brk (ce_ctx_set _ _ (loopVal n) (VNode x) InsVector (ce_set_key n a b i H))) as (I1 & I2 & I3).
  destruct (iterate fr n (ctx_set (set_key n a i) (loopVal n) (VNode x) InsVector) brk) as [[a1 ba] sa].
  destruct (iterate fr n (ctx_set (set_key n b i) (loopVal n) (VNode x) InsVector) brk) as [[b1 bb] sb].
  simpl in *. subst. apply IH. exact I1.
Qed.

Lemma oloop_run_core n oid sp cnt : forall i a b brk, core_eq a b ->
  core_eq (oloop_run fr n oid sp cnt i a brk) (oloop_run fr n oid sp cnt i b brk).
Proof.
  induction cnt as [|cnt IH]; intros i a b brk H; simpl; [exact H|].
  destruct (iterate_core n _ _ brk (ce_ctx_set _ _ (loopVal n) (VObj oid (sp ++ [format_int (Z.of_nat i)])) InsObj (ce_set_key n a b i H))) as (I1 & I2 & I3).
  destruct (iterate fr n (ctx_set (set_key n a i) (loopVal n) (VObj oid (sp ++ [format_int (Z.of_nat i)])) InsObj) brk) as [[a1 ba] sa].
  destruct (iterate fr n (ctx_set (set_key n b i) (loopVal n) (VObj oid (sp ++ [format_int (Z.of_nat i)])) InsObj) brk) as [[b1 bb] sb].
  simpl in *. subst. destruct sb; [exact I1|apply IH; exact I1].
Qed.

Lemma ce_key_slot n a b : core_eq a b -> core_eq (key_slot n a) (key_slot n b).
Proof. intro H. unfold key_slot. destruct (loopKey n); [exact H|]. rewrite (ce_lenBB a b H). apply ce_w_lenBB. exact H. Qed.

Lemma rloop_core n a b : core_eq a b -> core_eq (rloop fr n a) (rloop fr n b).
Proof.
  intro H. unfold rloop. destruct (split_path (loopSrc n)) as [|k rest]; [exact H|].
  rewrite <- (ce_vars a b H). destruct (find_var (vars a) k) as [[v i]|]; [|exact H].
  pose proof (ce_w_cerr a b None H) as H1.
  destruct i; try exact H1.
  - destruct v; try exact H1.
    destruct (jget j rest); try exact H1; try (apply ce_w_cerr; exact H1);
      match goal with |- context [match ?l with [] => _ | _ :: _ => _ end] => destruct l end;
      try (apply ce_w_cerr; exact H1); apply ce_key_slot, vloop_core; exact H1.
  - destruct v; try exact H1. rewrite <- (ce_store _ _ H1).
    destruct (nth_error (store (w_cerr a None)) oid); try exact H1.
    destruct (oloop ofuel o (prefix ++ rest)) as [[sp cnt]|]; [|exact H1].
    destruct cnt; [apply oloop_run_core; exact H1|apply ce_key_slot, oloop_run_core; exact H1].
  - apply ce_w_cerr. exact H1.
Qed.

Lemma branch_core n a b ok e : core_eq a b ->
  core_eq (fst (branch fr n a ok e)) (fst (branch fr n b ok e)) /\ snd (branch fr n a ok e) = snd (branch fr n b ok e).
Proof.
  intro H. unfold branch. destruct ok.
  - destruct (child n) as [|ch r]; [simpl; auto|apply Hfr; exact H].
  - destruct (child n) as [|x [|ch r]]; simpl; auto.
Qed.

Definition sw4_eq (x y : ctx * bool * option err * bool) : Prop :=
  core_eq (fst (fst (fst x))) (fst (fst (fst y))) /\ snd (fst (fst x)) = snd (fst (fst y)) /\
  snd (fst x) = snd (fst y) /\ snd x = snd y.

Lemma switch_classic_core sw l : forall a b ok, core_eq a b ->
  sw4_eq (switch_classic fr sw l a ok) (switch_classic fr sw l b ok).
Proof.
  induction l as [|ch l IH]; intros a b ok H; [unfold sw4_eq; simpl; auto|].
  cbn [switch_classic].
  assert (V : sw4_eq
    (if Z.eqb (typ ch) typeCase then
       if caseStaticL ch then let '(c', b0) := ctx_cmp a (switchArg sw) opEq (trimq (caseL ch)) in (c', b0, None, false)
       else let '(c', _) := ctx_get a (caseL ch) [] in
            match cerr c' with
            | Some _ => (c', ok, None, false)
            | None => match x2bytes c' (bufX c') with
                      | None => (c', ok, Some EUnknownType, true)
                      | Some b0 => let '(c'', b') := ctx_cmp c' (switchArg sw) opEq b0 in (c'', b', None, false)
                      end
            end
     else (a, ok, None, false))
    (if Z.eqb (typ ch) typeCase then
       if caseStaticL ch then let '(c', b0) := ctx_cmp b (switchArg sw) opEq (trimq (caseL ch)) in (c', b0, None, false)
       else let '(c', _) := ctx_get b (caseL ch) [] in
            match cerr c' with
            | Some _ => (c', ok, None, false)
            | None => match x2bytes c' (bufX c') with
                      | None => (c', ok, Some EUnknownType, true)
                      | Some b0 => let '(c'', b') := ctx_cmp c' (switchArg sw) opEq b0 in (c'', b', None, false)
                      end
            end
     else (b, ok, None, false))).
  { unfold sw4_eq. destruct (Z.eqb (typ ch) typeCase); [|simpl; auto].
    destruct (caseStaticL ch).
    - destruct (ctx_cmp_core a b (switchArg sw) opEq (trimq (caseL ch)) H) as [C1 C2].
      destruct (ctx_cmp a (switchArg sw) opEq (trimq (caseL ch))). destruct (ctx_cmp b (switchArg sw) opEq (trimq (caseL ch))).
      simpl in *. auto.
    - destruct (ctx_get_core a b (caseL ch) [] H) as (G1 & G2 & G3).
      destruct (ctx_get a (caseL ch) []) as [a' va]. destruct (ctx_get b (caseL ch) []) as [b' vb]. simpl in *.
      rewrite (ce_cerr a' b' G1). destruct (cerr b'); [simpl; auto|].
      rewrite G3, (x2bytes_core a' b' _ G1). destruct (x2bytes b' (bufX b')); [|simpl; auto].
      destruct (ctx_cmp_core a' b' (switchArg sw) opEq b0 G1) as [C1 C2].
      destruct (ctx_cmp a' (switchArg sw) opEq b0). destruct (ctx_cmp b' (switchArg sw) opEq b0). simpl in *. auto. }
  revert V.
  match goal with |- sw4_eq ?X ?Y -> _ => destruct X as [[[a1 ok1] e1] ea1]; destruct Y as [[[b1 ok2] e2] ea2] end.
  intros (V1 & V2 & V3 & V4). simpl in V1, V2, V3, V4. subst ok2 e2 ea2.
  destruct ea1; [unfold sw4_eq; simpl; auto|].
  destruct ok1.
  - destruct (Hfr ch a1 b1 V1) as [F1 F2]. destruct (fr ch a1). destruct (fr ch b1). unfold sw4_eq. simpl in *. auto.
  - apply IH. exact V1.
Qed.

End DRV.

(* switch without subject needs U for helper cases *)
Lemma switch_nocond_core fr (Hfr : respects fr) l : forall a b ok, core_eq a b ->
  sw4_eq (switch_nocond U fr l a ok) (switch_nocond U fr l b ok).
Proof.
  induction l as [|ch l IH]; intros a b ok H; [unfold sw4_eq; simpl; auto|].
  cbn [switch_nocond]. destruct (Z.eqb (typ ch) typeCase); [|apply IH; exact H].
  assert (V : sw4_eq
    (match caseHlp ch with
     | _ :: _ => match call_cond U a (caseHlp ch) (caseHlpArg ch) with
                 | (c', None) => (c', ok, Some ECondHlpNotFound, true)
                 | (c', Some b0) => (c', b0, None, false)
                 end
     | [] => let sl := caseStaticL ch in let sr := caseStaticR ch in
             if sl && sr then (a, ok, Some ESenseless, true)
             else if sr then let '(c', b0) := ctx_cmp a (caseL ch) (caseOp ch) (trimq (caseR ch)) in (c', b0, None, false)
             else if sl then let '(c', b0) := ctx_cmp a (caseR ch) (op_swap (caseOp ch)) (trimq (caseL ch)) in (c', b0, None, false)
             else let '(c', _) := ctx_get a (caseR ch) [] in
                  match cerr c' with
                  | Some _ => (c', ok, None, false)
                  | None => match x2bytes c' (bufX c') with
                            | None => (c', ok, Some EUnknownType, true)
                            | Some b0 => let '(c'', b') := ctx_cmp c' (caseL ch) (caseOp ch) b0 in (c'', b', None, false)
                            end
                  end
     end)
    (match caseHlp ch with
     | _ :: _ => match call_cond U b (caseHlp ch) (caseHlpArg ch) with
                 | (c', None) => (c', ok, Some ECondHlpNotFound, true)
                 | (c', Some b0) => (c', b0, None, false)
                 end
     | [] => let sl := caseStaticL ch in let sr := caseStaticR ch in
             if sl && sr then (b, ok, Some ESenseless, true)
             else if sr then let '(c', b0) := ctx_cmp b (caseL ch) (caseOp ch) (trimq (caseR ch)) in (c', b0, None, false)
             else if sl then let '(c', b0) := ctx_cmp b (caseR ch) (op_swap (caseOp ch)) (trimq (caseL ch)) in (c', b0, None, false)
             else let '(c', _) := ctx_get b (caseR ch) [] in
                  match cerr c' with
                  | Some _ => (c', ok, None, false)
                  | None => match x2bytes c' (bufX c') with
                            | None => (c', ok, Some EUnknownType, true)
                            | Some b0 => let '(c'', b') := ctx_cmp c' (caseL ch) (caseOp ch) b0 in (c'', b', None, false)
                            end
                  end
     end)).
  { unfold sw4_eq. destruct (caseHlp ch) as [|h hs].
    - cbv zeta. destruct (caseStaticL ch && caseStaticR ch); [simpl; auto|].
      destruct (caseStaticR ch).
      + destruct (ctx_cmp_core a b (caseL ch) (caseOp ch) (trimq (caseR ch)) H) as [C1 C2].
        destruct (ctx_cmp a (caseL ch) (caseOp ch) (trimq (caseR ch))). destruct (ctx_cmp b (caseL ch) (caseOp ch) (trimq (caseR ch))).
        simpl in *. auto.
      + destruct (caseStaticL ch).
        * destruct (ctx_cmp_core a b (caseR ch) (op_swap (caseOp ch)) (trimq (caseL ch)) H) as [C1 C2].
          destruct (ctx_cmp a (caseR ch) (op_swap (caseOp ch)) (trimq (caseL ch))). destruct (ctx_cmp b (caseR ch) (op_swap (caseOp ch)) (trimq (caseL ch))).
          simpl in *. auto.
        * destruct (ctx_get_core a b (caseR ch) [] H) as (G1 & G2 & G3).
          destruct (ctx_get a (caseR ch) []) as [a' va]. destruct (ctx_get b (caseR ch) []) as [b' vb]. simpl in *.
          rewrite (ce_cerr a' b' G1). destruct (cerr b'); [simpl; auto|].
          rewrite G3, (x2bytes_core a' b' _ G1). destruct (x2bytes b' (bufX b')); [|simpl; auto].
          destruct (ctx_cmp_core a' b' (caseL ch) (caseOp ch) b0 G1) as [C1 C2].
          destruct (ctx_cmp a' (caseL ch) (caseOp ch) b0). destruct (ctx_cmp b' (caseL ch) (caseOp ch) b0). simpl in *. auto.
    - destruct (call_cond_core a b (h :: hs) (caseHlpArg ch) H) as [C1 C2].
      destruct (call_cond U a (h :: hs) (caseHlpArg ch)) as [a' ra]. destruct (call_cond U b (h :: hs) (caseHlpArg ch)) as [b' rb].
      simpl in *. subst rb. destruct ra; simpl; auto. }
  revert V.
  match goal with |- sw4_eq ?X ?Y -> _ => destruct X as [[[a1 ok1] e1] ea1]; destruct Y as [[[b1 ok2] e2] ea2] end.
  intros (V1 & V2 & V3 & V4). simpl in V1, V2, V3, V4. subst ok2 e2 ea2.
  destruct ea1; [unfold sw4_eq; simpl; auto|].
  rewrite (ce_cerr a1 b1 V1). destruct (cerr b1); [unfold sw4_eq; simpl; auto|].
  destruct ok1.
  - destruct (Hfr ch a1 b1 V1) as [F1 F2]. destruct (fr ch a1). destruct (fr ch b1). unfold sw4_eq. simpl in *. auto.
  - apply IH. exact V1.
Qed.

End WITH_U.

(* ------------------------------------------------ the interpreter itself *)

Local Arguments rloop : simpl never.
Local Arguments cloop : simpl never.
Local Arguments rules : simpl never.
Local Arguments switch_classic : simpl never.
Local Arguments switch_nocond : simpl never.
Local Arguments run_mods : simpl never.
Local Arguments ctx_set_path : simpl never.
Local Arguments collect_args : simpl never.
Local Arguments node_cmp : simpl never.
Local Arguments call_cond : simpl never.
Local Arguments run_bget : simpl never.
Local Arguments branch : simpl never.

Lemma ce_restore a b p : core_eq a b ->
  core_eq (if Nat.ltb (brkD a) p then w_brkD a p else a) (if Nat.ltb (brkD b) p then w_brkD b p else b).
Proof. intro H. rewrite (ce_brkD a b H). destruct (Nat.ltb (brkD b) p); [apply ce_w_brkD|]; exact H. Qed.

Theorem follow_respects U fuel : respects (follow U fuel).
Proof.
  induction fuel as [|f IH]; intros r a b H; [simpl; auto|].
  cbn [follow]. cbv zeta.
  destruct (Z.eqb (typ r) typeLoopRange).
  { rewrite (ce_brkD a b H).
    pose proof (ce_restore _ _ (brkD b) (rloop_core (follow U f) IH r _ _ (ce_w_brkD a b 0 H))) as Q.
    cbn [fst snd]. split; [exact Q|apply ce_cerr; exact Q]. }
  destruct (Z.eqb (typ r) typeLoopCount).
  { rewrite (ce_brkD a b H).
    pose proof (ce_restore _ _ (brkD b) (cloop_core (follow U f) IH f r _ _ (ce_w_brkD a b 0 H))) as Q.
    cbn [fst snd]. split; [exact Q|apply ce_cerr; exact Q]. }
  destruct (Z.eqb (typ r) typeBreak); [cbn [fst snd]; split; [apply ce_w_brkD; exact H|reflexivity]|].
  destruct (Z.eqb (typ r) typeLBreak); [cbn [fst snd]; split; [apply ce_w_brkD; exact H|reflexivity]|].
  destruct (Z.eqb (typ r) typeContinue); [cbn [fst snd]; auto|].
  destruct (Z.eqb (typ r) typeCondOK).
  { destruct (condHlp r) as [|h hs]; [cbn [fst snd]; auto|].
    destruct (u_condok U (h :: hs)) as [fn|]; [|cbn [fst snd]; auto].
    destruct (collect_args_core (condHlpArg r) a b [] H) as [C1 C2].
    destruct (collect_args a (condHlpArg r) []) as [a1 la]. destruct (collect_args b (condHlpArg r) []) as [b1 lb].
    cbn [fst snd] in C1, C2. subst lb.
    destruct (ce_log_call a1 b1 (bs "condok") (h :: hs) la C1) as [L1 L2].
    destruct (log_call a1 (bs "condok") (h :: hs) la) as [a2 na]. destruct (log_call b1 (bs "condok") (h :: hs) la) as [b2 nb].
    cbn [fst snd] in L1, L2. subst nb.
    destruct (fn na la) as [v okv].
    pose proof (ce_w_bufBl _ _ okv okv (ce_w_bufX a2 b2 v v L1)) as L3.
    destruct (u_ins U match condIns r with [] => bs "static" | x :: l => x :: l end) as [i|]; [|cbn [fst snd]; auto].
    pose proof (ce_ctx_set _ _ (condOKR r) (VBool okv) InsStatic (ce_ctx_set _ _ (condOKL r) v i L3)) as L4.
    destruct (condR r) as [|cr crs].
    - apply branch_core; [exact IH|exact L4].
    - destruct (node_cmp_core _ _ r L4) as (N1 & N2 & N3).
      destruct (node_cmp (ctx_set (ctx_set (w_bufBl (w_bufX a2 v) okv) (condOKL r) v i) (condOKR r) (VBool okv) InsStatic) r) as [[a3 oa] ea].
      destruct (node_cmp (ctx_set (ctx_set (w_bufBl (w_bufX b2 v) okv) (condOKL r) v i) (condOKR r) (VBool okv) InsStatic) r) as [[b3 ob] eb].
      cbn [fst snd] in N1, N2, N3. subst ob eb. apply branch_core; [exact IH|exact N1]. }
  destruct (Z.eqb (typ r) typeCond).
  { assert (V : sw4_eq
      (match condHlp r with
       | [] => let '(c', b0, e') := node_cmp a r in (c', b0, e', false)
       | _ :: _ => if Z.eqb (condLC r) lcNone
                   then match call_cond U a (condHlp r) (condHlpArg r) with
                        | (c', Some b0) => (c', b0, None, false)
                        | (c', None) => (c', false, Some ECondHlpNotFound, true)
                        end
                   else (a, false, Some EUnsupported, true)
       end)
      (match condHlp r with
       | [] => let '(c', b0, e') := node_cmp b r in (c', b0, e', false)
       | _ :: _ => if Z.eqb (condLC r) lcNone
                   then match call_cond U b (condHlp r) (condHlpArg r) with
                        | (c', Some b0) => (c', b0, None, false)
                        | (c', None) => (c', false, Some ECondHlpNotFound, true)
                        end
                   else (b, false, Some EUnsupported, true)
       end)).
    { unfold sw4_eq. destruct (condHlp r) as [|h hs].
      - destruct (node_cmp_core a b r H) as (N1 & N2 & N3).
        destruct (node_cmp a r) as [[a3 oa] ea]. destruct (node_cmp b r) as [[b3 ob] eb].
        cbn [fst snd] in *. auto.
      - destruct (Z.eqb (condLC r) lcNone); [|cbn [fst snd]; auto].
        destruct (call_cond_core U a b (h :: hs) (condHlpArg r) H) as [C1 C2].
        destruct (call_cond U a (h :: hs) (condHlpArg r)) as [a' ra]. destruct (call_cond U b (h :: hs) (condHlpArg r)) as [b' rb].
        cbn [fst snd] in *. subst rb. destruct ra; cbn [fst snd]; auto. }
    revert V.
    match goal with |- sw4_eq ?X ?Y -> _ => destruct X as [[[a1 ok1] e1] ea1]; destruct Y as [[[b1 ok2] e2] ea2] end.
    intros (V1 & V2 & V3 & V4). cbn [fst snd] in V1, V2, V3, V4. subst ok2 e2 ea2.
    destruct ea1; [cbn [fst snd]; auto|].
    rewrite (ce_cerr a1 b1 V1). destruct (cerr b1); [cbn [fst snd]; auto|].
    apply branch_core; [exact IH|exact V1]. }
  destruct (Z.eqb (typ r) typeCondTrue || Z.eqb (typ r) typeCondFalse || Z.eqb (typ r) typeCase || Z.eqb (typ r) typeDefault).
  { apply rules_core; [exact IH|exact H]. }
  destruct (Z.eqb (typ r) typeSwitch).
  { assert (V : sw4_eq
      (match switchArg r with
       | [] => switch_nocond U (follow U f) (child r) a false
       | _ :: _ => switch_classic (follow U f) r (child r) a false
       end)
      (match switchArg r with
       | [] => switch_nocond U (follow U f) (child r) b false
       | _ :: _ => switch_classic (follow U f) r (child r) b false
       end)).
    { destruct (switchArg r); [apply switch_nocond_core|apply switch_classic_core]; assumption. }
    revert V.
    match goal with |- sw4_eq ?X ?Y -> _ => destruct X as [[[a1 ok1] e1] ea1]; destruct Y as [[[b1 ok2] e2] ea2] end.
    intros (V1 & V2 & V3 & V4). cbn [fst snd] in V1, V2, V3, V4. subst ok2 e2 ea2.
    destruct ea1; [cbn [fst snd]; auto|]. destruct ok1; [cbn [fst snd]; auto|].
    destruct (first_default (child r)); [apply IH; exact V1|cbn [fst snd]; auto]. }
  destruct (callback r).
  { destruct (collect_args_core (args r) a b [] H) as [C1 C2].
    destruct (collect_args a (args r) []) as [a1 la]. destruct (collect_args b (args r) []) as [b1 lb].
    cbn [fst snd] in C1, C2. subst lb.
    destruct (u_cb U (src r)) as [fn|]; [|cbn [fst snd]; auto].
    sync_log C1 L1 L2 a2 na b2 nb.
    cbn [fst snd] in *. subst nb. auto. }
  destruct (getter r).
  { destruct (collect_args_core (args r) a b [] H) as [C1 C2].
    destruct (collect_args a (args r) []) as [a1 la]. destruct (collect_args b (args r) []) as [b1 lb].
    cbn [fst snd] in C1, C2. subst lb.
    pose proof (ce_w_bufX a1 b1 VNil VNil C1) as C3.
    assert (V : step3_eq
       (match builtin_getter (src r) with
        | Some g => run_bget (w_bufX a1 VNil) g la
        | None => match u_get U (src r) with
                  | Some fn => let '(c, n) := log_call (w_bufX a1 VNil) (kind_of (bs "get") (match fn (ncalls (w_bufX a1 VNil)) la with inr _ => true | inl _ => false end)) (src r) la in
                               match fn n la with inl v => (c, Some v, None) | inr x => (c, None, Some x) end
                  | None => (w_bufX a1 VNil, None, Some EUnsupported)
                  end
        end)
       (match builtin_getter (src r) with
        | Some g => run_bget (w_bufX b1 VNil) g la
        | None => match u_get U (src r) with
                  | Some fn => let '(c, n) := log_call (w_bufX b1 VNil) (kind_of (bs "get") (match fn (ncalls (w_bufX b1 VNil)) la with inr _ => true | inl _ => false end)) (src r) la in
                               match fn n la with inl v => (c, Some v, None) | inr x => (c, None, Some x) end
                  | None => (w_bufX b1 VNil, None, Some EUnsupported)
                  end
        end) /\
       bufX (fst (fst (match builtin_getter (src r) with
        | Some g => run_bget (w_bufX a1 VNil) g la
        | None => match u_get U (src r) with
                  | Some fn => let '(c, n) := log_call (w_bufX a1 VNil) (kind_of (bs "get") (match fn (ncalls (w_bufX a1 VNil)) la with inr _ => true | inl _ => false end)) (src r) la in
                               match fn n la with inl v => (c, Some v, None) | inr x => (c, None, Some x) end
                  | None => (w_bufX a1 VNil, None, Some EUnsupported)
                  end
        end))) = VNil /\
       bufX (fst (fst (match builtin_getter (src r) with
        | Some g => run_bget (w_bufX b1 VNil) g la
        | None => match u_get U (src r) with
                  | Some fn => let '(c, n) := log_call (w_bufX b1 VNil) (kind_of (bs "get") (match fn (ncalls (w_bufX b1 VNil)) la with inr _ => true | inl _ => false end)) (src r) la in
                               match fn n la with inl v => (c, Some v, None) | inr x => (c, None, Some x) end
                  | None => (w_bufX b1 VNil, None, Some EUnsupported)
                  end
        end))) = VNil).
    { destruct (builtin_getter (src r)) as [g|].
      - split; [apply run_bget_core; exact C3|].
        unfold run_bget. split.
        + destruct g; destruct la as [|x l]; try reflexivity;
            try (destruct (atox_raw x); try reflexivity;
                 match goal with |- context [match ?e with _ => _ end] => destruct e end; reflexivity);
            destruct x; reflexivity.
        + destruct g; destruct la as [|x l]; try reflexivity;
            try (destruct (atox_raw x); try reflexivity;
                 match goal with |- context [match ?e with _ => _ end] => destruct e end; reflexivity);
            destruct x; reflexivity.
      - destruct (u_get U (src r)) as [fn|]; [|unfold step3_eq; cbn [fst snd]; auto].
        sync_log C3 L1 L2 a2 na b2 nb.
        cbn [fst snd] in L1, L2, BA, BB. subst nb.
        destruct (fn na la); unfold step3_eq; cbn [fst snd]; auto. }
    destruct V as (V & XA & XB). revert V XA XB.
    match goal with |- step3_eq ?X ?Y -> _ => destruct X as [[a2 ra] ea]; destruct Y as [[b2 rb] eb] end.
    intros (V1 & V2 & V3) XA XB. cbn [fst snd] in V1, V2, V3, XA, XB. subst rb eb.
    destruct ea; [cbn [fst snd]; split; [destruct ra; [apply ce_w_bufX|]; exact V1|reflexivity]|].
    destruct ra as [v|].
    - cbn [bufX w_bufX]. apply ctx_set_path_core. apply ce_w_bufX. exact V1.
    - rewrite XA, XB. apply ctx_set_path_core. exact V1. }
  destruct (nonempty (dst r) && static r).
  { apply ctx_set_path_core. rewrite (ce_lenBB a b H). apply ce_w_lenBB. exact H. }
  destruct (nonempty (dst r) && nonempty (src r) && negb (static r)); [|cbn [fst snd]; auto].
  destruct (ctx_get_core a b (src r) (subset r) H) as (G1 & G2 & G3).
  destruct (ctx_get a (src r) (subset r)) as [a1 va]. destruct (ctx_get b (src r) (subset r)) as [b1 vb].
  cbn [fst snd] in G1, G2, G3. subst vb.
  rewrite (ce_cerr a1 b1 G1). destruct (cerr b1); [cbn [fst snd]; auto|].
  destruct (run_mods_core U (mods r) a1 b1 va G1) as [M1 M2].
  destruct (run_mods U (mods r) a1 va) as [a2 wa]. destruct (run_mods U (mods r) b1 va) as [b2 wb].
  cbn [fst snd] in M1, M2. subst wb.
  rewrite (ce_cerr a2 b2 M1). destruct (cerr b2); [cbn [fst snd]; auto|].
  apply ctx_set_path_core. exact M1.
Qed.

(* what the caller of Decode observes does not depend on the scratch cells *)
Corollary decode_core U fuel t a b : core_eq a b ->
  core_eq (fst (decode U fuel t a)) (fst (decode U fuel t b)) /\ snd (decode U fuel t a) = snd (decode U fuel t b).
Proof. intro H. unfold decode. apply rules_core; [apply follow_respects|exact H]. Qed.

(* C14 at full strength: take a context with any past (any variables, errors,
   pending break depth, counter cells, scratch values, borrowed buffers), Reset
   it, bind the job's variables, decode: the error returned, every destination
   object, every variable and the sequence of user-function calls are those of
   a new context given the same bindings.  (trace / ncalls are the model's call
   log, carried over so that the logs can be compared.) *)
Definition bind_all (c : ctx) (l : list (bytes * val * insk)) : ctx :=
  fold_left (fun c x => ctx_set c (fst (fst x)) (snd (fst x)) (snd x)) l c.

Lemma bind_all_core l : forall a b, core_eq a b -> core_eq (bind_all a l) (bind_all b l).
Proof.
  induction l as [|x l IH]; intros a b H; [exact H|].
  unfold bind_all. cbn [fold_left]. apply IH. apply ce_ctx_set. exact H.
Qed.

Definition fresh_like (c : ctx) : ctx := w_ncalls (w_trace (new_ctx (store c)) (trace c)) (ncalls c).

Lemma reset_core_fresh c : core_eq (ctx_reset c) (fresh_like c).
Proof. repeat split. Qed.

Theorem reused_context_decodes_like_new U fuel t c binds :
  let r := decode U fuel t (bind_all (ctx_reset c) binds) in
  let n := decode U fuel t (bind_all (fresh_like c) binds) in
  snd r = snd n /\ store (fst r) = store (fst n) /\ vars (fst r) = vars (fst n) /\
  trace (fst r) = trace (fst n) /\ cerr (fst r) = cerr (fst n) /\ brkD (fst r) = brkD (fst n).
Proof.
  cbv zeta.
  destruct (decode_core U fuel t _ _ (bind_all_core binds _ _ (reset_core_fresh c))) as [(A&B&C&D&E&F&G&H) S].
  repeat split; assumption.
Qed.

(* not vacuous: a context with a stale verdict, a pending error and a pending
   break depth is taken to the same place as a new one *)
Example reused_example :
  let dirty := mkCtx [(bs "old", VInt 3, InsStatic)] [] (VInt 9) true (Some EBreak) 2 [5%Z] 4 [] 0 in
  core_eq (ctx_reset dirty) (fresh_like dirty) /\ bufBl (ctx_reset dirty) = true /\ bufBl (fresh_like dirty) = false.
Proof. repeat split. Qed.

(* C11, the link to the allocation model: two repetitions Reset - bind - Decode
   of one program over the same objects make the same demands on the context's
   buffers (literal slots, counter cells), whatever the context went through
   before each of them; so the second repetition finds every buffer already
   grown (AllocProofs: a repeated demand trace allocates nothing) *)
Corollary repetitions_make_the_same_demands U fuel t c1 c2 binds :
  store c1 = store c2 -> trace c1 = trace c2 -> ncalls c1 = ncalls c2 ->
  let r1 := decode U fuel t (bind_all (ctx_reset c1) binds) in
  let r2 := decode U fuel t (bind_all (ctx_reset c2) binds) in
  lenBB (fst r1) = lenBB (fst r2) /\ bufLC (fst r1) = bufLC (fst r2) /\ snd r1 = snd r2.
Proof.
  intros Hs Ht Hn. cbv zeta.
  assert (C : core_eq (ctx_reset c1) (ctx_reset c2)).
  { unfold ctx_reset. repeat split; simpl; assumption. }
  destruct (decode_core U fuel t _ _ (bind_all_core binds _ _ C)) as [(A&B&Cc&D&E&F&G&H) S].
  repeat split; assumption.
Qed.
