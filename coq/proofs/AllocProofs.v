(* AllocProofs.v -- once a trace of buffer demands has been served, serving it
   again (after Reset, which keeps capacities) allocates nothing; and so does
   every trace whose demands are dominated by it (C11). *)
From Coq Require Import List Arith Lia Bool.
From Dec Require Import Alloc.
Import ListNotations.

Definition covers (c : caps) (t : list demand) : Prop := forall b k, In (b, k) t -> k <= c b.

Lemma need_mono c d b : c b <= fst (need c d) b.
Proof.
  destruct d as [b0 k]. unfold need. destruct (Nat.leb_spec k (c b0)); simpl; [lia|].
  destruct (Nat.eqb_spec b b0); subst; lia.
Qed.

Lemma run_mono t : forall c b, c b <= caps_after c t b.
Proof.
  induction t as [|d t IH]; intros c b; unfold caps_after in *; simpl; [lia|].
  destruct (need c d) as [c1 a] eqn:E. specialize (IH c1 b).
  destruct (run_trace c1 t) as [c2 n]. simpl in *.
  pose proof (need_mono c d b). rewrite E in H. simpl in H. lia.
Qed.

Lemma need_satisfied c b k : k <= fst (need c (b, k)) b.
Proof. unfold need. destruct (Nat.leb_spec k (c b)); simpl; [lia|]. rewrite Nat.eqb_refl. lia. Qed.

(* after serving a trace, the capacities cover it *)
Lemma caps_after_covers t : forall c, covers (caps_after c t) t.
Proof.
  induction t as [|d t IH]; intros c b k H; [destruct H|].
  unfold caps_after. simpl. destruct (need c d) as [c1 a] eqn:E.
  destruct (run_trace c1 t) as [c2 n] eqn:E2. simpl.
  destruct H as [->|H].
  - pose proof (need_satisfied c b k) as S. rewrite E in S. simpl in S.
    pose proof (run_mono t c1 b) as M. unfold caps_after in M. rewrite E2 in M. simpl in M. lia.
  - pose proof (IH c1 b k H) as C. unfold caps_after in C. rewrite E2 in C. exact C.
Qed.

(* capacities that cover a trace serve it without allocating and unchanged *)
Lemma covered_no_alloc t : forall c, covers c t -> run_trace c t = (c, 0).
Proof.
  induction t as [|[b k] t IH]; intros c H; simpl; [reflexivity|].
  assert (Hk : k <= c b) by (apply H; left; reflexivity).
  apply Nat.leb_le in Hk. rewrite Hk. rewrite IH; [reflexivity|].
  intros b' k' Hin. apply H. right. exact Hin.
Qed.

(* C11: steady state.  The second and every later identical run allocates nothing. *)
Theorem steady_state_no_growth c t : allocs (caps_after c t) t = 0.
Proof. unfold allocs. rewrite covered_no_alloc; [reflexivity|apply caps_after_covers]. Qed.

Theorem steady_state_caps_stable c t : caps_after (caps_after c t) t = caps_after c t.
Proof. unfold caps_after at 1. rewrite covered_no_alloc; [reflexivity|apply caps_after_covers]. Qed.

(* ... and so does any run whose demands are no larger (a smaller document, a
   shorter program) *)
Theorem dominated_run_no_alloc c t t' :
  (forall b k, In (b, k) t' -> exists k', In (b, k') t /\ k <= k') ->
  allocs (caps_after c t) t' = 0.
Proof.
  intro H. unfold allocs. rewrite covered_no_alloc; [reflexivity|].
  intros b k Hin. destruct (H b k Hin) as (k' & Hin' & Hle).
  pose proof (caps_after_covers t c b k' Hin'). lia.
Qed.

(* a buffer whose demand keeps growing from run to run (a length that Reset
   forgets to truncate) allocates again and again: the converse hazard *)
Example growing_demand_allocates :
  allocs (caps_after (fun _ => 0) [(0, 4)]) [(0, 5)] = 1.
Proof. reflexivity. Qed.
