(* FollowErr.v -- the error channel, through the whole interpreter.
   With user functions that report their own call number when they fail and
   never return a loop signal:
   - a rule that returns a user function's error made no call after the failing
     one (C15: "no rule after the failing one takes effect", for calls);
   - ctx.Err never holds break / lazybreak / continue, so a loop statement never
     returns a loop signal to the rules around it (C06);
   - a rule that returns nil or a signal leaves no user error behind. *)
From Coq Require Import List NArith ZArith Bool Lia String.
From Dec Require Import Bytes Strconv Crc Values Tree Interp.
From Dec.proofs Require Import InterpFacts InterpFacts2 InterpFacts3.
Import ListNotations.

Local Arguments ctx_set : simpl never.
Local Arguments oresolve : simpl never.
Local Arguments oupdate : simpl never.
Local Arguments oloop : simpl never.
Local Arguments assign : simpl never.
Local Arguments deref : simpl never.
Local Arguments x2bytes : simpl never.
Local Arguments ctx_get : simpl never.
Local Arguments ctx_cmp : simpl never.
Local Arguments set_var : simpl never.
Local Arguments find_var : simpl never.
Local Arguments split_path : simpl never.
Local Arguments format_int : simpl never.
Local Arguments parse_int0 : simpl never.
Local Arguments parse_uint0 : simpl never.
Local Arguments parse_bool : simpl never.
Local Arguments jget : simpl never.
Local Arguments iface2int : simpl never.
Local Arguments cmp_by : simpl never.
Local Arguments dec_cmp : simpl never.
Local Arguments is_plain_dec : simpl never.
Local Arguments is_float_re : simpl never.

(* an error that is neither a loop signal nor a user function's *)
Definition plain (e : err) : Prop :=
  match e with EBreak | ELBreak | ECont | EUser _ => False | _ => True end.
Definition plain_opt (e : option err) : Prop := match e with None => True | Some x => plain x end.

(* ctx.Err is nil or a plain error *)
Definition calm (c : ctx) : Prop := plain_opt (cerr c).

(* ctx.Err never holds a signal; if it holds a user error, that call was the last one *)
Definition okc (c : ctx) : Prop :=
  match cerr c with
  | Some (EUser m) => ncalls c = S m
  | Some EBreak | Some ELBreak | Some ECont => False
  | _ => True
  end.

(* what a rule's result says about the context it leaves *)
Definition post (e : option err) (c : ctx) : Prop :=
  match e with
  | None | Some EBreak | Some ELBreak | Some ECont => calm c
  | Some (EUser m) => ncalls c = S m
  | Some _ => calm c
  end.

Definition good (x : ctx * option err) : Prop := okc (fst x) /\ post (snd x) (fst x).

Lemma calm_okc c : calm c -> okc c.
Proof. unfold calm, okc, plain_opt. destruct (cerr c) as [e|]; [destruct e; simpl; tauto|auto]. Qed.

Lemma good_plain c e : calm c -> plain_opt e -> good (c, e).
Proof.
  intros H P. split; [apply calm_okc; exact H|]. cbn [fst snd]. unfold post.
  destruct e as [e|]; [|exact H]. destruct e; simpl in P; try tauto; exact I.
Qed.

Lemma good_cerr c : okc c -> good (c, cerr c).
Proof.
  intro H. split; [exact H|]. cbn [fst snd]. unfold okc in H. unfold post, calm.
  destruct (cerr c) as [e|] eqn:E; [|exact I].
  destruct e; try tauto; try exact I.
Qed.

Lemma calm_same c c' : cerr c' = cerr c -> calm c -> calm c'.
Proof. unfold calm. intros ->. auto. Qed.

Lemma calm_set c e : plain_opt e -> calm (w_cerr c e).
Proof. unfold calm. simpl. auto. Qed.

Lemma calm_dec_brk c : calm c -> calm (dec_brk c).
Proof. unfold dec_brk. destruct (brkD c); auto. Qed.
Lemma calm_ctx_set c k v i : calm c -> calm (ctx_set c k v i).
Proof. apply calm_same. reflexivity. Qed.
Lemma calm_own_arg c x : calm c -> calm (own_arg c x).
Proof. destruct x; auto. Qed.

Lemma okc_dec_brk c : okc c -> okc (dec_brk c).
Proof. unfold dec_brk. destruct (brkD c); auto. Qed.

Lemma calm_ctx_get c p s : calm c -> calm (fst (ctx_get c p s)).
Proof.
  intro H. unfold ctx_get.
  destruct p as [|p0 p']; [exact H|].
  change (vars (w_bufX c VNil)) with (vars c).
  destruct (vars c) as [|v0 vs]; [exact H|].
  destruct (split_path (p0 :: p')) as [|k rest]; [exact H|].
  destruct (find_var (v0 :: vs) k) as [[v i]|]; [|exact H].
  destruct v; try (destruct i; try exact H;
    match goal with |- context [ins_getto ?c ?i ?v ?r] => unfold ins_getto end; try exact H; try (apply calm_set; exact I);
    fail).
  - destruct i; try exact H; unfold ins_getto; try (apply calm_set; exact I).
    destruct (nth_error (store (w_bufX c VNil)) oid); [|apply calm_set; exact I].
    destruct (oresolve ofuel o (prefix ++ rest)); apply calm_set; exact I.
Qed.

Ltac leaf_destruct :=
  match goal with
  | |- context [match ?x with _ => _ end] =>
      lazymatch x with
      | context [match _ with _ => _ end] => fail
      | _ => destruct x
      end
  end.

Lemma plain_field_compare f o r : match field_compare f o r with CErr e => plain e | _ => True end.
Proof. unfold field_compare, cmp_float_text. repeat leaf_destruct; exact I. Qed.

Lemma plain_ins_compare c i v o r p : match ins_compare c i v o r p with CErr e => plain e | _ => True end.
Proof.
  unfold ins_compare. destruct i; try exact I.
  - unfold static_compare, cmp_float_text. repeat leaf_destruct; exact I.
  - unfold vector_compare. repeat leaf_destruct; exact I.
  - unfold obj_compare. destruct p; [exact I|]. destruct v; try exact I.
    destruct (nth_error (store c) oid); [|exact I].
    destruct (oresolve ofuel o0 (prefix ++ b :: p)); try exact I. apply plain_field_compare.
Qed.

Lemma calm_ctx_cmp c p o r : calm c -> calm (fst (ctx_cmp c p o r)).
Proof.
  intro H. unfold ctx_cmp. destruct (split_path p) as [|k rest]; [exact H|].
  destruct (find_var (vars c) k) as [[v i]|]; [|exact H].
  pose proof (plain_ins_compare (w_bufBl c false) i v o r rest) as P.
  destruct (ins_compare (w_bufBl c false) i v o r rest); apply calm_set; simpl; auto.
Qed.

Lemma calm_collect_args l : forall c acc, calm c -> calm (fst (collect_args c l acc)).
Proof.
  induction l as [|a l IH]; intros c acc H; [exact H|]. cbn [collect_args].
  destruct (a_static a); [apply IH; exact H|].
  pose proof (calm_ctx_get c (a_val a) (a_subset a) H) as G.
  destruct (ctx_get c (a_val a) (a_subset a)) as [c1 v]. apply IH. exact G.
Qed.

Lemma calm_log_call c k n v : calm c -> calm (fst (log_call c k n v)) /\ ncalls (fst (log_call c k n v)) = S (snd (log_call c k n v)).
Proof. intro H. unfold log_call. split; [exact H|reflexivity]. Qed.

Lemma calm_obj_setwb c v x p : calm c -> calm (fst (obj_setwb c v x p)) /\ plain_opt (snd (obj_setwb c v x p)).
Proof.
  intro H. unfold obj_setwb. destruct p; [split; [exact H|exact I]|]. destruct v; try (split; [exact H|exact I]).
  destruct (nth_error (store c) oid); [|split; [exact H|exact I]].
  destruct (oresolve ofuel o (prefix ++ b :: p)); try (split; [exact H|exact I]).
  match goal with |- context [assign c ?f ?y] => destruct (assign c f y) end; split; try exact H; exact I.
Qed.

Lemma calm_ctx_set_path U c p x i : calm c ->
  calm (fst (ctx_set_path U c p x i)) /\ plain_opt (snd (ctx_set_path U c p x i)).
Proof.
  intro H. unfold ctx_set_path. destruct p as [|p0 p']; [split; [exact H|exact I]|].
  destruct (vars c) as [|v0 vs] eqn:Ev; [split; [exact H|exact I]|].
  destruct (split_path (p0 :: p')) as [|k rest]; [split; [exact H|exact I]|].
  destruct (is_ctx_name k).
  - destruct rest; [split; [exact H|exact I]|].
    destruct i as [|i0 i'].
    + destruct x; try (split; [apply calm_ctx_set; exact H|exact I]).
      destruct j; split; try exact I; first [apply calm_ctx_set; exact H|exact H].
    + destruct (u_ins U (i0 :: i')); split; try exact I; first [apply calm_ctx_set; exact H|exact H].
  - destruct (find_var (v0 :: vs) k) as [[v ik]|]; [|split; [exact H|exact I]].
    destruct ik; try (split; [exact H|exact I]); try (split; [apply calm_set; exact I|exact I]).
    destruct (calm_obj_setwb (w_bufX c x) v x rest H) as [A B].
    destruct (obj_setwb (w_bufX c x) v x rest) as [c' e]. cbn [fst snd] in *.
    split; [apply calm_set; exact B|exact B].
Qed.

Lemma calm_cmp_dynamic c l o r : calm c ->
  calm (fst (fst (cmp_dynamic c l o r))) /\ plain_opt (snd (cmp_dynamic c l o r)).
Proof.
  intro H. unfold cmp_dynamic. pose proof (calm_ctx_get c r [] H) as G.
  destruct (ctx_get c r []) as [c1 v1]. cbn [fst] in G.
  destruct (cerr c1); [split; [exact G|exact I]|]. destruct (x2bytes c1 (bufX c1)); [|split; [exact G|exact I]].
  pose proof (calm_ctx_cmp c1 l o b G) as Q. destruct (ctx_cmp c1 l o b) as [c2 ok]. split; [exact Q|exact I].
Qed.

Lemma calm_node_cmp c n : calm c -> calm (fst (fst (node_cmp c n))) /\ plain_opt (snd (node_cmp c n)).
Proof.
  intro H. unfold node_cmp. destruct (condStaticL n && condStaticR n); [split; [exact H|exact I]|].
  destruct (condStaticR n).
  - pose proof (calm_ctx_cmp c (condL n) (condOp n) (condR n) H) as Q.
    destruct (ctx_cmp c (condL n) (condOp n) (condR n)). split; [exact Q|exact I].
  - destruct (condStaticL n).
    + pose proof (calm_ctx_cmp c (condR n) (op_swap (condOp n)) (condL n) H) as Q.
      destruct (ctx_cmp c (condR n) (op_swap (condOp n)) (condL n)). split; [exact Q|exact I].
    + apply calm_cmp_dynamic. exact H.
Qed.

Definition calm3 (x : ctx * option val * option err) : Prop := calm (fst (fst x)) /\ plain_opt (snd x).

Lemma calm_mod_default c v l : calm c -> calm3 (mod_default c v l).
Proof.
  intro H. unfold mod_default, calm3. destruct (negb (mod_is_empty c v)); [split; [exact H|exact I]|].
  destruct l as [|x l]; [split; [exact H|exact I]|]. destruct x; split; try exact H; exact I.
Qed.
Lemma calm_mod_ifthen c v l : calm c -> calm3 (mod_ifthen c v l).
Proof.
  intro H. unfold mod_ifthen, calm3. destruct l; [split; [exact H|exact I]|].
  destruct (check_true c v); split; try exact I; first [apply calm_own_arg; exact H|exact H].
Qed.
Lemma calm_mod_ifthenelse c v l : calm c -> calm3 (mod_ifthenelse c v l).
Proof.
  intro H. unfold mod_ifthenelse, calm3. destruct l as [|x [|y l]]; try (split; [exact H|exact I]).
  destruct (check_true c v); split; try exact I; apply calm_own_arg; exact H.
Qed.

Lemma calm_run_bget c g l : calm c -> calm3 (run_bget c g l).
Proof.
  intro H. unfold run_bget, calm3.
  destruct g; destruct l as [|x l]; try (split; [exact H|exact I]);
    try (destruct (atox_raw x); try (split; [exact H|exact I]);
         match goal with |- context [match ?e with _ => _ end] => destruct e end; split; try exact H; exact I);
    destruct x; split; try exact H; exact I.
Qed.

Lemma calm_cloop_range c st s : calm c -> calm (fst (cloop_range c st s)).
Proof.
  intro H. unfold cloop_range. destruct st.
  - destruct (parse_int0 s); apply calm_set; exact I.
  - pose proof (calm_ctx_get c s [] H) as G. destruct (ctx_get c s []) as [c1 v]. cbn [fst] in G.
    destruct (cerr c1) eqn:E; [exact G|]. destruct (iface2int c1 v); [exact G|apply calm_set; exact I].
Qed.

(* ------------------------------------------------ user functions *)

Record honest (U : ufuns) : Prop := {
  h_cb : forall name fn n a, u_cb U name = Some fn ->
         match fn n a with Some (EUser m) => m = n | Some EBreak | Some ELBreak | Some ECont => False | _ => True end;
  h_get : forall name fn n a, u_get U name = Some fn ->
          match fn n a with inr (EUser m) => m = n | inr EBreak | inr ELBreak | inr ECont => False | _ => True end;
  h_mod : forall name fn n v a, u_mod U name = Some fn ->
          match fn n v a with inr (EUser m) => m = n | inr EBreak | inr ELBreak | inr ECont => False | _ => True end;
  h_cond : forall name fn n a, u_cond U name = Some fn ->
          match snd (fn n a) with Some (EUser m) => m = n | Some EBreak | Some ELBreak | Some ECont => False | _ => True end;
}.

Ltac take_calm_log Q L N c2 n :=
  cbv zeta;
  match goal with |- context [log_call ?cc ?k ?nm ?v] =>
    destruct (calm_log_call cc k nm v Q) as [L N]; destruct (log_call cc k nm v) as [c2 n] end.

Section WITH_U.
Variable U : ufuns.
Hypothesis HU : honest U.

(* a condition helper may report a failure through ctx.Err: the context is then
   no longer calm, but the error is that of the last call *)
Lemma okc_user c e n : ncalls c = S n ->
  match e with EUser m => m = n | EBreak | ELBreak | ECont => False | _ => True end ->
  okc (w_cerr c (Some e)).
Proof. intros N H. unfold okc. simpl. destruct e; try tauto. subst. exact N. Qed.

Lemma call_cond_post c name al : calm c ->
  match call_cond U c name al with (c1, Some _) => okc c1 | (c1, None) => calm c1 end.
Proof.
  intro H. unfold call_cond. destruct (u_cond U name) as [f|] eqn:Ef; [|exact H].
  pose proof (calm_collect_args al c [] H) as Q. destruct (collect_args c al []) as [c1 la]. cbn [fst] in Q.
  take_calm_log Q L NC c2 n. cbn [fst snd] in L, NC. rename NC into N.
  pose proof (h_cond U HU _ _ n la Ef) as Hh.
  destruct (f n la) as [b e]. cbn [fst snd] in *.
  destruct e as [x|]; [apply okc_user with (n := n); assumption|apply calm_okc; exact L].
Qed.

Lemma okc_run_mods ms : forall c raw, calm c -> okc (fst (run_mods U ms c raw)).
Proof.
  induction ms as [|m ms IH]; intros c raw H; [apply calm_okc; exact H|]. cbn [run_mods].
  pose proof (calm_collect_args (m_arg m) c [] H) as Q. destruct (collect_args c (m_arg m) []) as [c1 la]. cbn [fst] in Q.
  assert (B : calm (w_bufX c1 raw)) by exact Q.
  (* a step whose error is plain *)
  assert (G : forall (x : ctx * option val * option err), calm3 x ->
     okc (fst (let '(c0, res, e) := x in
               let c2 := match res with Some v => w_bufX c0 v | None => c0 end in
               let c3 := w_cerr c2 e in
               match e with Some _ => (c3, raw) | None => run_mods U ms c3 (bufX c3) end))).
  { intros [[x0 xr] xe] [X1 X2]. cbn [fst snd] in X1, X2.
    destruct xe as [e|]; [apply calm_okc, calm_set; exact X2|].
    apply IH. apply calm_set. exact I. }
  destruct (builtin_mod (m_id m)) as [[| | |]|].
  - apply G, calm_mod_default, B.
  - apply G, calm_mod_ifthen, B.
  - apply G, calm_mod_ifthenelse, B.
  - apply (G (w_bufX c1 raw, None, None)). split; [exact B|exact I].
  - destruct (u_mod U (m_id m)) as [f|] eqn:Ef.
    + take_calm_log B L NC c2 n. rename NC into N.
      cbn [fst snd] in L, N.
      pose proof (h_mod U HU _ _ n (deref c2 raw) la Ef) as Hh.
      destruct (f n (deref c2 raw) la) as [v|x].
      * apply (G (c2, Some v, None)). split; [exact L|exact I].
      * cbn [fst]. apply okc_user with (n := n); [exact N|exact Hh].
    + apply (G (w_bufX c1 raw, None, Some EUnsupported)). split; [exact B|exact I].
Qed.

(* ------------------------------------------------ drivers *)

Definition sound (fr : node -> ctx -> ctx * option err) : Prop := forall n c, calm c -> good (fr n c).

Section DRV.
Variable fr : node -> ctx -> ctx * option err.
Hypothesis Hfr : sound fr.

Lemma good_lbreak c : calm c -> good (c, Some ELBreak).
Proof. intro H. split; [apply calm_okc; exact H|exact H]. Qed.
Lemma good_none c : calm c -> good (c, None).
Proof. intro H. split; [apply calm_okc; exact H|exact H]. Qed.

Lemma good_rules_lz l : forall c lz, calm c -> good (rules_lz fr l c lz).
Proof.
  induction l as [|n l IH]; intros c lz H; cbn [rules_lz].
  { destruct lz; [apply good_lbreak|apply good_none]; exact H. }
  pose proof (Hfr n c H) as F. destruct (fr n c) as [c1 e1]. destruct F as [F1 F2]. cbn [fst snd] in F1, F2.
  destruct e1 as [e|]; [|apply IH; exact F2].
  destruct e; try (split; [exact F1|exact F2]); [apply IH; exact F2|].
  destruct lz; split; try exact F1; exact F2.
Qed.

(* what one pass over a loop body leaves *)
Definition bpost (br : bodyres) (c : ctx) : Prop :=
  match br with
  | BFail e => okc (w_cerr c (Some e))
  | _ => calm c
  end.

Lemma body_post l : forall c lz, calm c -> bpost (snd (body fr l c lz)) (fst (body fr l c lz)).
Proof.
  induction l as [|n l IH]; intros c lz H; cbn [body].
  { destruct lz; exact H. }
  pose proof (Hfr n c H) as F. destruct (fr n c) as [c1 e1]. destruct F as [F1 F2]. cbn [fst snd] in F1, F2.
  destruct e1 as [e|]; [|apply IH; exact F2].
  destruct e; cbn [fst snd bpost]; try exact F2; try (apply IH; exact F2);
    try (destruct lz; exact F2);
    try (unfold okc; simpl; try exact I; exact F2).
Qed.

Lemma okc_cloop_run k : forall n idx v lim c, calm c -> okc (cloop_run fr k n idx v lim c).
Proof.
  induction k as [|k IH]; intros n idx v lim c H; cbn [cloop_run].
  { apply calm_okc, calm_set. exact I. }
  destruct (loop_allows (loopCondOp n) v lim) as [al|].
  2:{ cbn [andb negb]. apply calm_okc, calm_dec_brk, calm_set. exact I. }
  destruct (negb (al && Nat.eqb (brkD c) 0)); [apply calm_okc, calm_dec_brk; exact H|].
  pose proof (body_post (child n) (ctx_set c (loopCnt n) (VLC idx) InsStatic) false (calm_ctx_set _ _ _ _ H)) as B.
  destruct (body fr (child n) (ctx_set c (loopCnt n) (VLC idx) InsStatic) false) as [c1 br]. cbn [fst snd] in B.
  destruct br as [| | | |e]; cbn [bpost] in B; try exact B;
    (destruct (step64 (loopCntOp n) v) as [v'|];
     [ first [ apply IH; exact B | apply calm_okc, calm_dec_brk; exact B ]
     | first [ apply IH; apply calm_set; exact I | apply calm_okc, calm_dec_brk, calm_set; exact I ] ]).
Qed.

Lemma okc_cloop k n c : calm c -> okc (cloop fr k n c).
Proof.
  intro H. unfold cloop.
  pose proof (calm_cloop_range c (loopCntStatic n) (loopCntInit n) H) as R1.
  destruct (cloop_range c (loopCntStatic n) (loopCntInit n)) as [c1 cnt]. cbn [fst] in R1.
  destruct (cerr c1) eqn:E1; [apply calm_okc; exact R1|].
  pose proof (calm_cloop_range c1 (loopLimStatic n) (loopLim n) R1) as R2.
  destruct (cloop_range c1 (loopLimStatic n) (loopLim n)) as [c2 lim]. cbn [fst] in R2.
  destruct (cerr c2) eqn:E2; [apply calm_okc; exact R2|].
  apply okc_cloop_run. exact R2.
Qed.

(* Iterate: once rl.brk is set the context is left alone *)
Lemma iterate_post n c brk : okc c -> (brk = false -> calm c) ->
  okc (fst (fst (iterate fr n c brk))) /\ (snd (fst (iterate fr n c brk)) = false -> calm (fst (fst (iterate fr n c brk)))).
Proof.
  intros Ho Hc. unfold iterate. destruct brk; [split; [exact Ho|discriminate]|].
  specialize (Hc eq_refl).
  destruct (negb (Nat.eqb (brkD c) 0)); [split; [apply okc_dec_brk; exact Ho|discriminate]|].
  pose proof (body_post (child n) c false Hc) as B.
  destruct (body fr (child n) c false) as [c1 br]. cbn [fst snd] in B.
  destruct br; cbn [bpost fst snd] in *; try (split; [apply calm_okc, calm_dec_brk; exact B|discriminate]).
  - destruct (negb (Nat.eqb (brkD c1) 0)); cbn [fst snd];
      [split; [apply calm_okc, calm_dec_brk; exact B|discriminate]|split; [apply calm_okc; exact B|intros _; exact B]].
  - split; [apply calm_okc; exact B|intros _; exact B].
  - split; [exact B|discriminate].
Qed.

Lemma okc_set_key n c i : okc c -> okc (set_key n c i).
Proof. unfold set_key. destruct (loopKey n); auto. Qed.
Lemma calm_set_key n c i : calm c -> calm (set_key n c i).
Proof. unfold set_key. destruct (loopKey n); auto. Qed.

Lemma okc_vloop n xs : forall i c brk, okc c -> (brk = false -> calm c) -> okc (vloop fr n xs i c brk).
Proof.
  induction xs as [|x xs IH]; intros i c brk Ho Hc; [exact Ho|]. cbn [vloop].
  pose proof (iterate_post n (ctx_set (set_key n c i) (loopVal n) (VNode x) InsVector) brk) as P.
  destruct P as [P1 P2].
  { apply (okc_set_key n c i) in Ho. exact Ho. }
  { intro E. apply calm_ctx_set, calm_set_key, Hc, E. }
  destruct (iterate fr n (ctx_set (set_key n c i) (loopVal n) (VNode x) InsVector) brk) as [[c1 b1] s1].
  cbn [fst snd] in P1, P2. apply IH; assumption.
Qed.

Lemma okc_oloop_run n oid sp cnt : forall i c brk, okc c -> (brk = false -> calm c) -> okc (oloop_run fr n oid sp cnt i c brk).
Proof.
  induction cnt as [|cnt IH]; intros i c brk Ho Hc; [exact Ho|]. cbn [oloop_run].
  pose proof (iterate_post n (ctx_set (set_key n c i) (loopVal n) (VObj oid (sp ++ [format_int (Z.of_nat i)])) InsObj) brk) as P.
  destruct P as [P1 P2].
  { apply (okc_set_key n c i) in Ho. exact Ho. }
  { intro E. apply calm_ctx_set, calm_set_key, Hc, E. }
  destruct (iterate fr n (ctx_set (set_key n c i) (loopVal n) (VObj oid (sp ++ [format_int (Z.of_nat i)])) InsObj) brk) as [[c1 b1] s1].
  cbn [fst snd] in P1, P2. destruct s1; [exact P1|apply IH; assumption].
Qed.

Lemma okc_key_slot n c : okc c -> okc (key_slot n c).
Proof. unfold key_slot. destruct (loopKey n); auto. Qed.

Lemma okc_rloop n c : calm c -> okc (rloop fr n c).
Proof.
  intro H. unfold rloop. destruct (split_path (loopSrc n)) as [|k rest]; [apply calm_okc; exact H|].
  destruct (find_var (vars c) k) as [[v i]|]; [|apply calm_okc; exact H].
  assert (H1 : calm (w_cerr c None)) by (apply calm_set; exact I).
  assert (H2 : forall e, plain e -> okc (w_cerr (w_cerr c None) (Some e))).
  { intros e P. apply calm_okc, calm_set. exact P. }
  destruct i; try (apply calm_okc; exact H1); try (apply H2; exact I).
  - destruct v; try (apply calm_okc; exact H1).
    destruct (jget j rest); try (apply calm_okc; exact H1); try (apply H2; exact I);
      match goal with |- context [match ?l with [] => _ | _ :: _ => _ end] => destruct l end;
      try (apply H2; exact I); (apply okc_key_slot, okc_vloop; [apply calm_okc; exact H1|intros _; exact H1]).
  - destruct v; try (apply calm_okc; exact H1).
    destruct (nth_error (store (w_cerr c None)) oid); try (apply calm_okc; exact H1).
    destruct (oloop ofuel o (prefix ++ rest)) as [[sp cnt]|]; [|apply calm_okc; exact H1].
    destruct cnt; [|apply okc_key_slot]; (apply okc_oloop_run; [apply calm_okc; exact H1|intros _; exact H1]).
Qed.

Lemma good_branch n c ok e : calm c -> plain_opt e -> good (branch fr n c ok e).
Proof.
  intros H P. unfold branch. destruct ok.
  - destruct (child n) as [|ch r]; [apply good_plain; assumption|apply Hfr; exact H].
  - destruct (child n) as [|x [|ch r]]; try (apply good_plain; assumption). apply Hfr; exact H.
Qed.

(* a switch scan: either it is over (a case ran, or an error stopped it) and the
   result is good, or no case matched and the context is still calm *)
Definition swpost (x : ctx * bool * option err * bool) : Prop :=
  let '(c, ok, e, early) := x in
  good (c, e) /\ (early = false -> ok = false -> calm c /\ e = None).

Lemma switch_classic_post sw l : forall c ok, calm c -> ok = false -> swpost (switch_classic fr sw l c ok).
Proof.
  induction l as [|ch l IH]; intros c ok H Hok; cbn [switch_classic].
  { unfold swpost. split; [apply good_none; exact H|auto]. }
  assert (V : match
    (if Z.eqb (typ ch) typeCase then
       if caseStaticL ch then let '(c', b0) := ctx_cmp c (switchArg sw) opEq (trimq (caseL ch)) in (c', b0, None, false)
       else let '(c', _) := ctx_get c (caseL ch) [] in
            match cerr c' with
            | Some _ => (c', ok, None, false)
            | None => match x2bytes c' (bufX c') with
                      | None => (c', ok, Some EUnknownType, true)
                      | Some b0 => let '(c'', b') := ctx_cmp c' (switchArg sw) opEq b0 in (c'', b', None, false)
                      end
            end
     else (c, ok, None, false)) with (c1, ok1, e1, ea1) => calm c1 /\ plain_opt e1 /\ (ea1 = false -> e1 = None) end).
  { destruct (Z.eqb (typ ch) typeCase); [|repeat split; auto; exact I].
    destruct (caseStaticL ch).
    - pose proof (calm_ctx_cmp c (switchArg sw) opEq (trimq (caseL ch)) H) as Q.
      destruct (ctx_cmp c (switchArg sw) opEq (trimq (caseL ch))). repeat split; auto; exact I.
    - pose proof (calm_ctx_get c (caseL ch) [] H) as G. destruct (ctx_get c (caseL ch) []) as [c1 v1]. cbn [fst] in G.
      destruct (cerr c1) eqn:E; [repeat split; auto; exact I|].
      destruct (x2bytes c1 (bufX c1)); [|repeat split; auto; try exact I; discriminate].
      pose proof (calm_ctx_cmp c1 (switchArg sw) opEq b G) as Q. destruct (ctx_cmp c1 (switchArg sw) opEq b).
      repeat split; auto; exact I. }
  revert V.
  match goal with |- match ?X with _ => _ end -> _ => destruct X as [[[c1 ok1] e1] ea1] end.
  intros (V1 & V2 & V3).
  destruct ea1.
  { unfold swpost. split; [apply good_plain; assumption|discriminate]. }
  destruct ok1.
  - pose proof (Hfr ch c1 V1) as F. destruct (fr ch c1) as [c2 e2]. unfold swpost. split; [exact F|discriminate].
  - apply IH; [exact V1|reflexivity].
Qed.

Lemma switch_nocond_post l : forall c ok, calm c -> ok = false -> swpost (switch_nocond U fr l c ok).
Proof.
  induction l as [|ch l IH]; intros c ok H Hok; cbn [switch_nocond].
  { unfold swpost. split; [apply good_none; exact H|auto]. }
  destruct (Z.eqb (typ ch) typeCase); [|apply IH; assumption].
  assert (V : match
    (match caseHlp ch with
     | _ :: _ => match call_cond U c (caseHlp ch) (caseHlpArg ch) with
                 | (c', None) => (c', ok, Some ECondHlpNotFound, true)
                 | (c', Some b0) => (c', b0, None, false)
                 end
     | [] => let sl := caseStaticL ch in let sr := caseStaticR ch in
             if sl && sr then (c, ok, Some ESenseless, true)
             else if sr then let '(c', b0) := ctx_cmp c (caseL ch) (caseOp ch) (trimq (caseR ch)) in (c', b0, None, false)
             else if sl then let '(c', b0) := ctx_cmp c (caseR ch) (op_swap (caseOp ch)) (trimq (caseL ch)) in (c', b0, None, false)
             else let '(c', _) := ctx_get c (caseR ch) [] in
                  match cerr c' with
                  | Some _ => (c', ok, None, false)
                  | None => match x2bytes c' (bufX c') with
                            | None => (c', ok, Some EUnknownType, true)
                            | Some b0 => let '(c'', b') := ctx_cmp c' (caseL ch) (caseOp ch) b0 in (c'', b', None, false)
                            end
                  end
     end) with (c1, ok1, e1, ea1) => okc c1 /\ plain_opt e1 /\ (ea1 = false -> e1 = None) /\ (ea1 = true -> calm c1) end).
  { assert (W : forall c1 e1 (ea1 : bool), calm c1 -> plain_opt e1 -> (ea1 = false -> e1 = None) ->
                okc c1 /\ plain_opt e1 /\ (ea1 = false -> e1 = None) /\ (ea1 = true -> calm c1)).
    { intros. repeat split; auto. apply calm_okc. assumption. }
    destruct (caseHlp ch) as [|h hs].
    - cbv zeta. destruct (caseStaticL ch && caseStaticR ch); [apply W; [exact H|exact I|discriminate]|].
      destruct (caseStaticR ch).
      + pose proof (calm_ctx_cmp c (caseL ch) (caseOp ch) (trimq (caseR ch)) H) as Q.
        destruct (ctx_cmp c (caseL ch) (caseOp ch) (trimq (caseR ch))). apply W; [exact Q|exact I|reflexivity].
      + destruct (caseStaticL ch).
        * pose proof (calm_ctx_cmp c (caseR ch) (op_swap (caseOp ch)) (trimq (caseL ch)) H) as Q.
          destruct (ctx_cmp c (caseR ch) (op_swap (caseOp ch)) (trimq (caseL ch))). apply W; [exact Q|exact I|reflexivity].
        * pose proof (calm_ctx_get c (caseR ch) [] H) as G. destruct (ctx_get c (caseR ch) []) as [c1 v1]. cbn [fst] in G.
          destruct (cerr c1) eqn:E; [apply W; [exact G|exact I|reflexivity]|].
          destruct (x2bytes c1 (bufX c1)); [|apply W; [exact G|exact I|discriminate]].
          pose proof (calm_ctx_cmp c1 (caseL ch) (caseOp ch) b G) as Q. destruct (ctx_cmp c1 (caseL ch) (caseOp ch) b).
          apply W; [exact Q|exact I|reflexivity].
    - pose proof (call_cond_post c (h :: hs) (caseHlpArg ch) H) as C.
      destruct (call_cond U c (h :: hs) (caseHlpArg ch)) as [c1 [b|]].
      + split; [exact C|split; [exact I|split; [reflexivity|discriminate]]].
      + apply W; [exact C|exact I|discriminate]. }
  revert V.
  match goal with |- match ?X with _ => _ end -> _ => destruct X as [[[c1 ok1] e1] ea1] end.
  intros (V0 & V2 & V3 & V4).
  destruct ea1.
  { unfold swpost. split; [apply good_plain; [apply V4; reflexivity|exact V2]|discriminate]. }
  destruct (cerr c1) as [x|] eqn:E.
  { unfold swpost. split; [|discriminate]. pose proof (good_cerr c1 V0) as G. rewrite E in G. exact G. }
  assert (V1 : calm c1) by (unfold calm; rewrite E; exact I).
  destruct ok1.
  - pose proof (Hfr ch c1 V1) as F. destruct (fr ch c1) as [c2 e2]. unfold swpost. split; [exact F|discriminate].
  - apply IH; [exact V1|reflexivity].
Qed.

End DRV.

Local Arguments rloop : simpl never.
Local Arguments cloop : simpl never.
Local Arguments rules : simpl never.
Local Arguments switch_classic : simpl never.
Local Arguments switch_nocond : simpl never.
Local Arguments run_mods : simpl never.
Local Arguments ctx_set_path : simpl never.
Local Arguments collect_args : simpl never.
Local Arguments node_cmp : simpl never.
Local Arguments call_cond : simpl never.
Local Arguments run_bget : simpl never.
Local Arguments branch : simpl never.
Local Arguments log_call : simpl never.

(* a loop statement: whatever ctx.Err holds at the end is what it returns *)

Lemma good_loop_result c p : okc c ->
  good (if Nat.ltb (brkD c) p then w_brkD c p else c, cerr (if Nat.ltb (brkD c) p then w_brkD c p else c)).
Proof. intro H. destruct (Nat.ltb (brkD c) p); apply good_cerr; exact H. Qed.

Theorem follow_sound fuel : sound (follow U fuel).
Proof.
  induction fuel as [|f IH]; intros r c H; [apply good_plain; [exact H|exact I]|].
  cbn [follow]. cbv zeta.
  destruct (Z.eqb (typ r) typeLoopRange).
  { apply good_loop_result. apply okc_rloop; [exact IH|exact H]. }
  destruct (Z.eqb (typ r) typeLoopCount).
  { apply good_loop_result. apply okc_cloop; [exact IH|exact H]. }
  destruct (Z.eqb (typ r) typeBreak); [split; [apply calm_okc; exact H|exact H]|].
  destruct (Z.eqb (typ r) typeLBreak); [split; [apply calm_okc; exact H|exact H]|].
  destruct (Z.eqb (typ r) typeContinue); [split; [apply calm_okc; exact H|exact H]|].
  destruct (Z.eqb (typ r) typeCondOK).
  { destruct (condHlp r) as [|h hs]; [apply good_none; exact H|].
    destruct (u_condok U (h :: hs)) as [fn|]; [|apply good_plain; [exact H|exact I]].
    pose proof (calm_collect_args (condHlpArg r) c [] H) as Q. destruct (collect_args c (condHlpArg r) []) as [c1 la]. cbn [fst] in Q.
    take_calm_log Q L NQ c2 n. cbn [fst] in L.
    destruct (fn n la) as [v okv].
    assert (E3 : calm (w_bufBl (w_bufX c2 v) okv)) by exact L.
    destruct (u_ins U match condIns r with [] => bs "static" | x :: l => x :: l end) as [i|]; [|apply good_plain; [exact E3|exact I]].
    assert (E4 : calm (ctx_set (ctx_set (w_bufBl (w_bufX c2 v) okv) (condOKL r) v i) (condOKR r) (VBool okv) InsStatic)) by exact E3.
    destruct (condR r) as [|cr crs].
    - apply good_branch; [exact IH|exact E4|exact I].
    - destruct (calm_node_cmp _ r E4) as [N1 N2].
      destruct (node_cmp (ctx_set (ctx_set (w_bufBl (w_bufX c2 v) okv) (condOKL r) v i) (condOKR r) (VBool okv) InsStatic) r) as [[c3 o3] e3].
      cbn [fst snd] in N1, N2. apply good_branch; [exact IH|exact N1|exact N2]. }
  destruct (Z.eqb (typ r) typeCond).
  { assert (V : match
      (match condHlp r with
       | [] => let '(c', b0, e') := node_cmp c r in (c', b0, e', false)
       | _ :: _ => if Z.eqb (condLC r) lcNone
                   then match call_cond U c (condHlp r) (condHlpArg r) with
                        | (c', Some b0) => (c', b0, None, false)
                        | (c', None) => (c', false, Some ECondHlpNotFound, true)
                        end
                   else (c, false, Some EUnsupported, true)
       end) with (c1, ok1, e1, ea1) => okc c1 /\ plain_opt e1 /\ (ea1 = true -> calm c1) end).
    { destruct (condHlp r) as [|h hs].
      - destruct (calm_node_cmp c r H) as [N1 N2]. destruct (node_cmp c r) as [[c3 o3] e3].
        cbn [fst snd] in N1, N2. split; [apply calm_okc; exact N1|split; [exact N2|discriminate]].
      - destruct (Z.eqb (condLC r) lcNone); [|split; [apply calm_okc; exact H|split; [exact I|intros _; exact H]]].
        pose proof (call_cond_post c (h :: hs) (condHlpArg r) H) as C.
        destruct (call_cond U c (h :: hs) (condHlpArg r)) as [c1 [b|]].
        + split; [exact C|split; [exact I|discriminate]].
        + split; [apply calm_okc; exact C|split; [exact I|intros _; exact C]]. }
    revert V.
    match goal with |- match ?X with _ => _ end -> _ => destruct X as [[[c1 ok1] e1] ea1] end.
    intros (V0 & V2 & V4).
    destruct ea1; [apply good_plain; [apply V4; reflexivity|exact V2]|].
    destruct (cerr c1) as [x|] eqn:E.
    - pose proof (good_cerr c1 V0) as G. rewrite E in G. exact G.
    - apply good_branch; [exact IH| |exact V2]. unfold calm. rewrite E. exact I. }
  destruct (Z.eqb (typ r) typeCondTrue || Z.eqb (typ r) typeCondFalse || Z.eqb (typ r) typeCase || Z.eqb (typ r) typeDefault).
  { apply good_rules_lz; [exact IH|exact H]. }
  destruct (Z.eqb (typ r) typeSwitch).
  { assert (V : swpost
      (match switchArg r with
       | [] => switch_nocond U (follow U f) (child r) c false
       | _ :: _ => switch_classic (follow U f) r (child r) c false
       end)).
    { destruct (switchArg r); [apply switch_nocond_post|apply switch_classic_post]; auto. }
    revert V. unfold swpost.
    match goal with |- match ?X with _ => _ end -> _ => destruct X as [[[c1 ok1] e1] ea1] end.
    intros [V1 V2].
    destruct ea1; [exact V1|]. destruct ok1; [exact V1|].
    destruct (V2 eq_refl eq_refl) as [V3 V4].
    destruct (first_default (child r)); [apply IH; exact V3|exact V1]. }
  destruct (callback r).
  { pose proof (calm_collect_args (args r) c [] H) as Q. destruct (collect_args c (args r) []) as [c1 la]. cbn [fst] in Q.
    destruct (u_cb U (src r)) as [fn|] eqn:Ef; [|apply good_plain; [exact Q|exact I]].
    take_calm_log Q L NC c2 n. cbn [fst snd] in L, NC. rename NC into N.
    pose proof (h_cb U HU _ _ n la Ef) as Hh.
    split; [apply calm_okc; exact L|]. cbn [fst snd]. unfold post.
    destruct (fn n la) as [e|]; [|exact L]. destruct e; try tauto; try exact I. subst. exact N. }
  destruct (getter r).
  { pose proof (calm_collect_args (args r) c [] H) as Q. destruct (collect_args c (args r) []) as [c1 la]. cbn [fst] in Q.
    assert (B : calm (w_bufX c1 VNil)) by exact Q.
    (* the getter step: either a plain outcome on a calm context, or a user error at the last call *)
    assert (V : match
       (match builtin_getter (src r) with
        | Some g => run_bget (w_bufX c1 VNil) g la
        | None => match u_get U (src r) with
                  | Some fn => let '(c0, n) := log_call (w_bufX c1 VNil) (kind_of (bs "get") (match fn (ncalls (w_bufX c1 VNil)) la with inr _ => true | inl _ => false end)) (src r) la in
                               match fn n la with inl v => (c0, Some v, None) | inr x => (c0, None, Some x) end
                  | None => (w_bufX c1 VNil, None, Some EUnsupported)
                  end
        end) with (c2, ra, ea) => calm c2 /\ good (c2, ea) end).
    { destruct (builtin_getter (src r)) as [g|].
      - destruct (calm_run_bget (w_bufX c1 VNil) g la B) as [A1 A2].
        destruct (run_bget (w_bufX c1 VNil) g la) as [[c2 ra] ea]. cbn [fst snd] in A1, A2.
        split; [exact A1|apply good_plain; assumption].
      - destruct (u_get U (src r)) as [fn|] eqn:Ef; [|split; [exact B|apply good_plain; [exact B|exact I]]].
        take_calm_log B L NC c2 n. cbn [fst snd] in L, NC. rename NC into N.
        pose proof (h_get U HU _ _ n la Ef) as Hh.
        destruct (fn n la) as [v|x]; [split; [exact L|apply good_none; exact L]|].
        split; [exact L|]. split; [apply calm_okc; exact L|]. cbn [fst snd]. unfold post.
        destruct x; try tauto; try exact I. subst. exact N. }
    revert V.
    match goal with |- match ?X with _ => _ end -> _ => destruct X as [[c2 ra] ea] end.
    intros [V1 V2].
    assert (V3 : calm match ra with Some v => w_bufX c2 v | None => c2 end) by (destruct ra; exact V1).
    destruct ea as [e|].
    - destruct V2 as [W1 W2]. cbn [fst snd] in W1, W2. split; [apply calm_okc; exact V3|].
      cbn [fst snd]. unfold post in *. destruct e; try exact I; try exact V3; destruct ra; exact W2.
    - destruct (calm_ctx_set_path U _ (dst r) (bufX match ra with Some v => w_bufX c2 v | None => c2 end) (ins r) V3) as [S1 S2].
      destruct (ctx_set_path U match ra with Some v => w_bufX c2 v | None => c2 end (dst r) (bufX match ra with Some v => w_bufX c2 v | None => c2 end) (ins r)) as [c3 e3].
      apply good_plain; assumption. }
  destruct (nonempty (dst r) && static r).
  { destruct (calm_ctx_set_path U (w_lenBB c (S (lenBB c))) (dst r) (VBytes (src r)) (ins r) H) as [S1 S2].
    destruct (ctx_set_path U (w_lenBB c (S (lenBB c))) (dst r) (VBytes (src r)) (ins r)) as [c3 e3].
    apply good_plain; assumption. }
  destruct (nonempty (dst r) && nonempty (src r) && negb (static r)); [|apply good_none; exact H].
  pose proof (calm_ctx_get c (src r) (subset r) H) as G. destruct (ctx_get c (src r) (subset r)) as [c1 va]. cbn [fst] in G.
  destruct (cerr c1) as [x|] eqn:E1.
  { apply good_plain; [exact G|]. unfold calm in G. rewrite E1 in G. exact G. }
  pose proof (okc_run_mods (mods r) c1 va G) as M. destruct (run_mods U (mods r) c1 va) as [c2 wa]. cbn [fst] in M.
  destruct (cerr c2) as [x|] eqn:E2.
  { split; [exact M|]. cbn [fst snd]. unfold okc in M. rewrite E2 in M. unfold post.
    destruct x; try tauto; unfold calm; rewrite E2; exact I. }
  assert (C2 : calm c2) by (unfold calm; rewrite E2; exact I).
  destruct (calm_ctx_set_path U c2 (dst r) wa (ins r) C2) as [S1 S2].
  destruct (ctx_set_path U c2 (dst r) wa (ins r)) as [c3 e3].
  apply good_plain; assumption.
Qed.

(* ------------------------------------------------ the statements users rely on *)

(* C15: if Decode returns a user function's error, that function's call is the
   last call the decode made -- no callback, getter, modifier or helper of any
   later rule, loop iteration or case was invoked *)
Theorem user_error_is_last_call fuel t c c' m :
  calm c -> decode U fuel t c = (c', Some (EUser m)) -> ncalls c' = S m.
Proof.
  intros H E. pose proof (good_rules_lz (follow U fuel) (follow_sound fuel) t c false H) as [_ P].
  unfold decode, rules in E. rewrite E in P. exact P.
Qed.

(* C15: a user function's error sitting in ctx.Err is never masked: whatever
   construct the failing call is buried in, the rule (and so the decode)
   returns exactly that error *)
Theorem user_error_in_ctx_is_returned fuel r c m :
  calm c -> cerr (fst (follow U fuel r c)) = Some (EUser m) -> snd (follow U fuel r c) = Some (EUser m).
Proof.
  intros H E. destruct (follow_sound fuel r c H) as [O P].
  destruct (follow U fuel r c) as [c' e]. cbn [fst snd] in *.
  unfold okc in O. rewrite E in O. unfold post, calm in P.
  destruct e as [x|]; [|rewrite E in P; destruct P].
  destruct x; try (rewrite E in P; destruct P).
  f_equal. f_equal. lia.
Qed.

Corollary decode_returns_user_error fuel t c m :
  calm c -> cerr (fst (decode U fuel t c)) = Some (EUser m) -> snd (decode U fuel t c) = Some (EUser m).
Proof.
  intros H E. pose proof (good_rules_lz (follow U fuel) (follow_sound fuel) t c false H) as [O P].
  unfold decode, rules in *. destruct (rules_lz (follow U fuel) t c false) as [c' e]. cbn [fst snd] in *.
  unfold okc in O. rewrite E in O. unfold post, calm in P.
  destruct e as [x|]; [|rewrite E in P; destruct P].
  destruct x; try (rewrite E in P; destruct P).
  f_equal. f_equal. lia.
Qed.

(* C06: a loop statement never hands a loop signal to the rules around it *)
Theorem loop_never_returns_signal fuel r c :
  calm c -> Z.eqb (typ r) typeLoopRange || Z.eqb (typ r) typeLoopCount = true ->
  match snd (follow U fuel r c) with Some EBreak | Some ELBreak | Some ECont => False | _ => True end.
Proof.
  intros H T. destruct fuel as [|f]; [exact I|].
  pose proof (follow_sound (S f) r c H) as [O _]. revert O.
  cbn [follow]. cbv zeta.
  destruct (Z.eqb (typ r) typeLoopRange).
  { cbn [fst snd]. unfold okc. match goal with |- context [cerr ?X] => destruct (cerr X) as [e|] end; [destruct e|]; auto. }
  destruct (Z.eqb (typ r) typeLoopCount); [|discriminate].
  cbn [fst snd]. unfold okc. match goal with |- context [cerr ?X] => destruct (cerr X) as [e|] end; [destruct e|]; auto.
Qed.

(* after a successful decode no error is left in the context *)
Theorem success_leaves_no_user_error fuel t c :
  calm c -> snd (decode U fuel t c) = None -> calm (fst (decode U fuel t c)).
Proof.
  intros H E. pose proof (good_rules_lz (follow U fuel) (follow_sound fuel) t c false H) as [_ P].
  unfold decode, rules in *. rewrite E in P. exact P.
Qed.

End WITH_U.

(* the premises are met by a new or reset context *)
Example new_is_calm st : calm (new_ctx st).
Proof. exact I. Qed.
Example reset_is_calm c : calm (ctx_reset c).
Proof. exact I. Qed.

(* the user functions the correspondence check runs (mirrored by the harness's
   Go functions) are honest in this sense, whatever call is made to fail *)
From Dec Require Import CasesInterp.
Lemma testU_honest fk : honest (testU fk).
Proof.
  split.
  - intros name fn n a. cbn [testU u_cb].
    destruct (bytes_eqb name (bs "probe") || bytes_eqb name (bs "ns::probe")); [|discriminate].
    intro E. inversion E; subst. destruct (fails fk n); auto.
  - intros name fn n a. cbn [testU u_get].
    destruct (bytes_eqb name (bs "ident")); [intro E; inversion E; subst; destruct (fails fk n); auto|].
    destruct (bytes_eqb name (bs "konst")); [intro E; inversion E; subst; destruct (fails fk n); auto|discriminate].
  - intros name fn n v a. cbn [testU u_mod].
    destruct (bytes_eqb name (bs "upper")); [intro E; inversion E; subst; destruct (fails fk n); auto|].
    destruct (bytes_eqb name (bs "ns::suffix") || bytes_eqb name (bs "suffix")); [intro E; inversion E; subst; destruct (fails fk n); auto|discriminate].
  - intros name fn n a. cbn [testU u_cond].
    destruct (bytes_eqb name (bs "isTrue")); [intro E; inversion E; subst; destruct (fails fk n); cbn [snd]; auto|].
    destruct (bytes_eqb name (bs "ns::eq") || bytes_eqb name (bs "eq")); [intro E; inversion E; subst; destruct (fails fk n); cbn [snd]; auto|discriminate].
Qed.

(* so, for every job the harness runs: a decode that returns the injected
   failure made exactly failing-index + 1 calls *)
Corollary injected_failure_is_last_call fk fuel t c c' m :
  calm c -> decode (testU fk) fuel t c = (c', Some (EUser m)) -> ncalls c' = S m.
Proof. apply user_error_is_last_call. apply testU_honest. Qed.
