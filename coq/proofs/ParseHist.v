(* ParseHist.v -- C20 over histories: in any history of Parse and Register*
   calls (registering trees that earlier Parse calls returned), every Parse
   returns exactly what parsing its text returns. *)
From Coq Require Import List NArith ZArith Bool Lia String.
From Dec Require Import Bytes Strconv Crc Regex Tree Db Parser CasesParser.
From Dec.proofs Require Import ParserFacts.
Import ListNotations.

Section HIST.
Variable NM : names.

Fixpoint parse_texts (ops : list hop) : list bytes :=
  match ops with
  | [] => []
  | HParse s :: r => s :: parse_texts r
  | _ :: r => parse_texts r
  end.

Definition pure_obs (s : bytes) : option perror * bytes :=
  (snd (mk_tree NM s), ser_nodes (t_nodes (fst (mk_tree NM s)))).

Theorem history_parses_are_pure : forall ops d res,
  wf_db NM d -> Forall (wf_tree NM) res ->
  run_hist NM d res ops = map pure_obs (parse_texts ops).
Proof.
  induction ops as [|o ops IH]; intros d res Hd Hres; [reflexivity|].
  destruct o as [s|k i|id i|id k i]; simpl.
  - rewrite (parse_ignores_registry NM d s Hd).
    destruct (mk_tree NM s) as [t e] eqn:E. unfold pure_obs. rewrite E. simpl. f_equal.
    apply IH; [exact Hd|]. apply Forall_app. split; [exact Hres|].
    constructor; [|constructor]. pose proof (mk_tree_wf NM s) as W. rewrite E in W. exact W.
  - destruct (nth_error res i) as [t|] eqn:En; [|apply IH; assumption].
    apply IH; [|exact Hres]. apply set_wf; [exact Hd|].
    eapply Forall_forall; [exact Hres|]. eapply nth_error_In; eauto.
  - destruct (nth_error res i) as [t|] eqn:En; [|apply IH; assumption].
    apply IH; [|exact Hres]. apply set_wf; [exact Hd|].
    eapply Forall_forall; [exact Hres|]. eapply nth_error_In; eauto.
  - destruct (nth_error res i) as [t|] eqn:En; [|apply IH; assumption].
    apply IH; [|exact Hres]. apply set_wf; [exact Hd|].
    eapply Forall_forall; [exact Hres|]. eapply nth_error_In; eauto.
Qed.

Corollary history_from_empty_registry ops :
  run_hist NM initDB [] ops = map pure_obs (parse_texts ops).
Proof. apply history_parses_are_pure; [apply initDB_wf|constructor]. Qed.

End HIST.
