(* Examples.v -- the hypotheses of the rule- and program-level theorems are met
   by concrete, non-trivial states: texts parsed by the parser model, contexts
   with a document and destination objects bound, the harness's user functions.
   Everything here is closed by computation. *)
From Coq Require Import List NArith ZArith Bool Lia String.
From Dec Require Import Bytes Strconv Crc Regex Values Tree Db Parser Interp CasesInterp.
From Dec.generated Require Import Regexes.
From Dec.proofs Require Import InterpFacts InterpFacts2 InterpFacts3 FollowCore FollowInv FollowErr FollowFail RuleFacts IndepFacts ParserBalanced FollowFuel FuelFree VarsFrame.
Import ListNotations.

Definition enl : string := String (Ascii.ascii_of_nat 10) EmptyString.
Definition enames : names :=
  mkNames (fun b => bytes_eqb b (bs "ident")) (fun b => bytes_eqb b (bs "upper")) (fun b => bytes_eqb b (bs "probe")).

(* the text `obj.Status = jso.n`, parsed by the parser model *)
Definition e_text : bytes := bs ("obj.Status = jso.n" ++ enl).
Definition e_rule : node := hd node0 (fst (parse_pure enames e_text)).

Definition e_doc : json := JObj [(bs "n", JNum (bs "42")); (bs "s", JStr (bs "abc"))].
Definition e_obj : obj := Obj [(bs "Id", FStr []); (bs "Status", FInt 64 0)] [] [].
Definition e_ctx : ctx :=
  ctx_set (ctx_set (new_ctx [e_obj]) (bs "obj") (VObj 0 []) InsObj) (bs "jso") (VNode e_doc) InsVector.

(* vector_to_field_rule applies, and tells what the destination holds afterwards *)
Example e_assign_rule :
  let res := follow (testU None) 5 e_rule e_ctx in
  snd res = None /\
  store (fst res) = [Obj [(bs "Id", FStr []); (bs "Status", FInt 64 42)] [] []] /\
  vars (fst res) = vars e_ctx.
Proof.
  pose proof (vector_to_field_rule (testU None) 4 e_rule e_ctx (bs "obj") (bs "Status") (bs "jso") [bs "n"] e_doc 0 e_obj
                (FInt 64 0) (FInt 64 42)) as T.
  cbv zeta in T |- *.
  assert (E : set_nth_l (store e_ctx) 0 (oupdate ofuel e_obj [bs "Status"] (FInt 64 42)) =
              [Obj [(bs "Id", FStr []); (bs "Status", FInt 64 42)] [] []]) by (vm_compute; reflexivity).
  rewrite <- E. apply T; vm_compute; reflexivity.
Qed.

(* a program with a loop, a condition and a call: parsed, balanced, decoded;
   the theorems' premises (calm context, empty log, honest and strict user
   functions) hold, and so do their conclusions *)
Definition e_prog : bytes :=
  bs ("for i := 0; i < 3; i++ {" ++ enl ++ "if i == 1 {" ++ enl ++ "continue" ++ enl ++ "}" ++ enl ++ "probe(i)" ++ enl ++ "}" ++ enl ++ "obj.Status = jso.n" ++ enl).
Definition e_tree : list node := fst (parse_pure enames e_prog).

Example e_program :
  snd (parse_pure enames e_prog) = None /\
  balanced (toks e_prog (S (List.length e_prog)) 0) = true /\
  calm e_ctx /\ NF e_ctx /\ honest (testU (Some 1)) /\ strict (testU (Some 1)) /\
  (* fault-free: two calls (i = 0, 2), success, nothing marked *)
  snd (decode (testU None) 50 e_tree e_ctx) = None /\
  ncalls (fst (decode (testU None) 50 e_tree e_ctx)) = 2 /\
  (* call 1 made to fail: Decode returns it, it is the last call, and the rule after the loop did not run *)
  snd (decode (testU (Some 1)) 50 e_tree e_ctx) = Some (EUser 1) /\
  ncalls (fst (decode (testU (Some 1)) 50 e_tree e_ctx)) = 2 /\
  store (fst (decode (testU (Some 1)) 50 e_tree e_ctx)) = [e_obj].
Proof.
  split; [vm_compute; reflexivity|]. split; [vm_compute; reflexivity|].
  split; [exact I|]. split; [reflexivity|].
  split; [apply testU_honest|]. split; [apply testU_strict|].
  split; [vm_compute; reflexivity|]. split; [vm_compute; reflexivity|].
  split; [vm_compute; reflexivity|]. split; [vm_compute; reflexivity|].
  vm_compute; reflexivity.
Qed.

(* scratch cells: a context with a stale verdict and stale scratch value decodes
   the same program to the same result as the clean one (decode_core) *)
Example e_scratch :
  let dirty := w_bufBl (w_bufX e_ctx (VInt 99)) true in
  core_eq dirty e_ctx /\
  snd (decode (testU None) 50 e_tree dirty) = snd (decode (testU None) 50 e_tree e_ctx) /\
  store (fst (decode (testU None) 50 e_tree dirty)) = store (fst (decode (testU None) 50 e_tree e_ctx)).
Proof.
  cbv zeta. split; [unfold core_eq; vm_compute; repeat split|].
  split; vm_compute; reflexivity.
Qed.

(* C02, program level: `obj.Id = "lit"; obj.Status = jso.n` meets the premises
   of independent_rules_any_order; both orders give the same object, each field
   holding what its rule alone writes *)
Definition e_two : bytes := bs ("obj.Id = ""lit""" ++ enl ++ "obj.Status = jso.n" ++ enl).
Definition e_two_tree : list node := fst (parse_pure enames e_two).
Definition e_r1 : node := nth 0 e_two_tree node0.
Definition e_r2 : node := nth 1 e_two_tree node0.
Definition e_block : list (node * (bytes * fval)) :=
  [(e_r1, (bs "Id", FStr (bs "lit"))); (e_r2, (bs "Status", FInt 64 42))].

Example e_block_is_independent :
  St 0 (bufLC e_ctx) (vars e_ctx) (store e_ctx) e_ctx e_obj /\
  block_writes (bs "obj") (bs "jso") e_doc 0 (bufLC e_ctx) (vars e_ctx) (store e_ctx) e_obj e_block /\
  map fst e_block = e_two_tree.
Proof.
  split; [unfold St; vm_compute; repeat split|].
  split; [|vm_compute; reflexivity].
  split.
  - constructor; [|constructor; [|constructor]].
    + split; [vm_compute; reflexivity|]. exists (VBytes (bs "lit")), (FStr []).
      split; [unfold rule_src; split; [vm_compute; reflexivity|]; split; [vm_compute; reflexivity|]; split; [vm_compute; reflexivity|]; left; split; vm_compute; reflexivity|].
      split; [vm_compute; reflexivity|].
      intros cc E. rewrite (assign_counters cc e_ctx _ _ E). vm_compute. reflexivity.
    + split; [vm_compute; reflexivity|]. exists (VNode (jget e_doc [bs "n"])), (FInt 64 0).
      split; [unfold rule_src; split; [vm_compute; reflexivity|]; split; [vm_compute; reflexivity|]; split; [vm_compute; reflexivity|]; right; left; split; [vm_compute; reflexivity|]; split; [vm_compute; reflexivity|]; split; [vm_compute; reflexivity|]; exists [bs "n"]; split; vm_compute; reflexivity|].
      split; [vm_compute; reflexivity|].
      intros cc E. rewrite (assign_counters cc e_ctx _ _ E). vm_compute. reflexivity.
  - vm_compute. constructor; [|constructor; [|constructor]]; simpl; intuition discriminate.
Qed.

Example e_both_orders :
  store (fst (decode (testU None) 50 e_two_tree e_ctx)) = [Obj [(bs "Id", FStr (bs "lit")); (bs "Status", FInt 64 42)] [] []] /\
  store (fst (decode (testU None) 50 (rev e_two_tree) e_ctx)) = store (fst (decode (testU None) 50 e_two_tree e_ctx)).
Proof. split; vm_compute; reflexivity. Qed.

(* C16: the program with a counter loop, a condition and a call fits fuel 8
   (literal bounds, three Go iterations, depth 3), so the model never runs out
   of fuel on it, for any context, and fuel 50 gives what fuel 8 gives *)
Example e_program_fits :
  Forall (fit 8) e_tree /\ cl e_ctx /\
  snd (decode (testU None) 8 e_tree e_ctx) <> Some EFuel /\
  decode (testU None) 50 e_tree e_ctx = decode (testU None) 8 e_tree e_ctx.
Proof.
  assert (F : Forall (fit 8) e_tree).
  { unfold fit. apply Forall_forall. intros n Hin. vm_compute in Hin.
    repeat (destruct Hin as [<-|Hin]; [vm_compute; reflexivity|]). destruct Hin. }
  assert (C : cl e_ctx) by (unfold cl; vm_compute; discriminate).
  split; [exact F|]. split; [exact C|]. split.
  - apply harness_finite_programs_are_decided; assumption.
  - apply finite_programs_result_is_fuel_independent; [apply testU_fair|exact F|exact C|lia].
Qed.

(* C19 at program level: the program binds `i` (and the empty names of the
   fields it does not use); the document and the objects stay bound as they were *)
Example e_program_keeps_other_names :
  ~ In (bs "jso") (flat_map binds e_tree) /\ ~ In (bs "obj") (flat_map binds e_tree) /\
  In (bs "i") (flat_map binds e_tree) /\
  forall U f c, find_var (vars (fst (decode U f e_tree c))) (bs "jso") = find_var (vars c) (bs "jso").
Proof.
  assert (N1 : ~ In (bs "jso") (flat_map binds e_tree)).
  { intro H. vm_compute in H. repeat (destruct H as [H|H]; [discriminate H|]). exact H. }
  split; [exact N1|]. split.
  - intro H. vm_compute in H. repeat (destruct H as [H|H]; [discriminate H|]). exact H.
  - split; [vm_compute; tauto|]. intros U f c. apply decode_binds_only_its_names. exact N1.
Qed.

(* C05: `for k, v := range jso.a { probe(k, v) }` -- the body is one callback,
   which neither breaks nor fails, from any context with no pending depth: the
   premise of vloop_visits_all holds, so the body is entered once per element,
   in order, for every array *)
Definition e_range_text : bytes := bs ("for k, v := range jso.a {" ++ enl ++ "probe(k, v)" ++ enl ++ "}" ++ enl).
Definition e_loop : node := Eval vm_compute in hd node0 (fst (parse_pure enames e_range_text)).
Definition e_probe : node := Eval vm_compute in hd node0 (child e_loop).

Opaque e_probe.
Lemma e_body_never_breaks f c0 c1 br :
  brkD c0 = 0 -> body (follow (testU None) (S f)) (child e_loop) c0 false = (c1, br) ->
  (br = BNone \/ br = BCont) /\ brkD c1 = 0.
Proof.
  intros H0 Hb.
  change (child e_loop) with [e_probe] in Hb. cbn [body] in Hb.
  assert (Ef : exists fn, u_cb (testU None) (src e_probe) = Some fn /\ forall n a, fn n a = None).
  { eexists. split; [vm_compute; reflexivity|]. intros n a. reflexivity. }
  destruct Ef as [fn [Eu Hn]].
  rewrite (follow_callback (testU None) f e_probe c0 fn) in Hb; [|vm_compute; reflexivity|vm_compute; reflexivity|exact Eu].
  destruct (collect_args_exact (args e_probe) c0 []) as [_ (_ & _ & _ & Hk & _)].
  destruct (collect_args c0 (args e_probe) []) as [c2 a]. cbn [fst] in Hk.
  unfold log_call in Hb. cbv zeta in Hb. rewrite !Hn in Hb. cbn [body] in Hb.
  inversion Hb; subst. split; [left; reflexivity|]. cbn [brkD w_trace w_ncalls]. congruence.
Qed.

Transparent e_probe.
Example e_range_visits_all xs c f :
  brkD c = 0 ->
  map (fun e => (fst (fst e), snd (fst e))) (vloop_entries (follow (testU None) (S f)) e_loop xs 0 c false) =
  combine (seq 0 (List.length xs)) xs.
Proof. intro H. apply vloop_visits_all; [apply e_body_never_breaks|exact H]. Qed.

(* C07: a parsed switch over a document value; the scan finds the second case *)
Definition e_switch_text : bytes :=
  bs ("switch jso.n {" ++ enl ++ "case 7:" ++ enl ++ "obj.Status = 1" ++ enl ++ "case 42:" ++ enl ++ "obj.Status = 2" ++ enl ++
      "default:" ++ enl ++ "obj.Status = 3" ++ enl ++ "}" ++ enl).
(* the tree the parser model returns for the text, evaluated once *)
Definition e_switch : node := Eval vm_compute in hd node0 (fst (parse_pure enames e_switch_text)).

Example e_switch_second_case :
  typ e_switch = typeSwitch /\ switchArg e_switch <> [] /\
  (exists c1 c2 e, no_match e_switch (firstn 1 (child e_switch)) e_ctx c1 /\
                   classic_verdict e_switch (nth 1 (child e_switch) node0) c1 false = (c2, true, e, false)) /\
  store (fst (follow (testU None) 6 e_switch e_ctx)) = [Obj [(bs "Id", FStr []); (bs "Status", FInt 64 2)] [] []].
Proof.
  split; [vm_compute; reflexivity|]. split; [vm_compute; discriminate|]. split.
  - eexists. eexists. eexists. split.
    + eapply nm_cons; [vm_compute; reflexivity|apply nm_nil].
    + vm_compute. reflexivity.
  - vm_compute. reflexivity.
Qed.

(* C03: a parsed condition with the literal on the left; the premises of
   cond_selects_branch hold and the first branch runs *)
Definition e_cond_text : bytes :=
  bs ("if 5 < jso.n {" ++ enl ++ "obj.Status = 1" ++ enl ++ "} else {" ++ enl ++ "obj.Status = 2" ++ enl ++ "}" ++ enl).
Definition e_cond : node := Eval vm_compute in hd node0 (fst (parse_pure enames e_cond_text)).

Example e_cond_literal_left :
  typ e_cond = typeCond /\ condHlp e_cond = [] /\ condStaticL e_cond = true /\ condStaticR e_cond = false /\
  (exists c', node_cmp e_ctx e_cond = (c', true, None) /\ cerr c' = None) /\
  store (fst (follow (testU None) 6 e_cond e_ctx)) = [Obj [(bs "Id", FStr []); (bs "Status", FInt 64 1)] [] []].
Proof.
  repeat (split; [vm_compute; reflexivity|]). split.
  - eexists. split; vm_compute; reflexivity.
  - vm_compute. reflexivity.
Qed.

(* C02, program level, the other two kinds of source: a static variable and a
   field of another object *)
Definition e_obj3 : obj := Obj [(bs "Id", FStr []); (bs "Status", FInt 64 0); (bs "Name", FBytes [])] [] [].
Definition e_st3 : obj := Obj [(bs "Id", FStr (bs "sid")); (bs "Status", FInt 64 5); (bs "Name", FBytes (bs "nm"))] [] [].
Definition e_ctx3 : ctx :=
  ctx_set (ctx_set (ctx_set (ctx_set (new_ctx [e_obj3; e_st3]) (bs "obj") (VObj 0 []) InsObj) (bs "st") (VObj 1 []) InsObj)
                   (bs "jso") (VNode e_doc) InsVector) (bs "ivar") (VInt 7) InsStatic.
Definition e_three : bytes := bs ("obj.Id = ivar" ++ enl ++ "obj.Status = st.Status" ++ enl ++ "obj.Name = ""lit""" ++ enl).
Definition e_three_tree : list node := fst (parse_pure enames e_three).
Definition e_block3 : list (node * (bytes * fval)) :=
  [(nth 0 e_three_tree node0, (bs "Id", FStr (bs "7"))); (nth 1 e_three_tree node0, (bs "Status", FInt 64 5));
   (nth 2 e_three_tree node0, (bs "Name", FBytes (bs "lit")))].

Example e_block3_is_independent :
  St 0 (bufLC e_ctx3) (vars e_ctx3) (store e_ctx3) e_ctx3 e_obj3 /\
  block_writes (bs "obj") (bs "jso") e_doc 0 (bufLC e_ctx3) (vars e_ctx3) (store e_ctx3) e_obj3 e_block3 /\
  map fst e_block3 = e_three_tree /\
  store (fst (decode (testU None) 50 (rev e_three_tree) e_ctx3)) = store (fst (decode (testU None) 50 e_three_tree e_ctx3)).
Proof.
  split; [unfold St; split; [vm_compute; reflexivity|]; split; [vm_compute; reflexivity|]; split; [vm_compute; reflexivity|]; split; [vm_compute; reflexivity|]; intros; reflexivity|].
  split; [|split; vm_compute; reflexivity].
  split.
  - constructor; [|constructor; [|constructor; [|constructor]]].
    + split; [vm_compute; reflexivity|]. exists (VInt 7), (FStr []).
      split; [unfold rule_src; split; [vm_compute; reflexivity|]; split; [vm_compute; reflexivity|]; split; [vm_compute; reflexivity|]; right; right; left;
              split; [vm_compute; reflexivity|]; split; [vm_compute; reflexivity|]; split; [vm_compute; reflexivity|]; exists (bs "ivar"), [];
              split; [vm_compute; reflexivity|]; split; [vm_compute; reflexivity|]; intros j; discriminate|].
      split; [vm_compute; reflexivity|].
      intros cc E. rewrite (assign_counters cc e_ctx3 _ _ E). vm_compute. reflexivity.
    + split; [vm_compute; reflexivity|]. exists (VInt 5), (FInt 64 0).
      split; [unfold rule_src; split; [vm_compute; reflexivity|]; split; [vm_compute; reflexivity|]; split; [vm_compute; reflexivity|]; right; right; right;
              split; [vm_compute; reflexivity|]; split; [vm_compute; reflexivity|]; split; [vm_compute; reflexivity|];
              exists (bs "st"), [bs "Status"], 1, [], e_st3, (FInt 64 5);
              split; [vm_compute; reflexivity|]; split; [vm_compute; reflexivity|]; split; [discriminate|];
              split; [vm_compute; reflexivity|]; split; vm_compute; reflexivity|].
      split; [vm_compute; reflexivity|].
      intros cc E. rewrite (assign_counters cc e_ctx3 _ _ E). vm_compute. reflexivity.
    + split; [vm_compute; reflexivity|]. exists (VBytes (bs "lit")), (FBytes []).
      split; [unfold rule_src; split; [vm_compute; reflexivity|]; split; [vm_compute; reflexivity|]; split; [vm_compute; reflexivity|]; left; split; vm_compute; reflexivity|].
      split; [vm_compute; reflexivity|].
      intros cc E. rewrite (assign_counters cc e_ctx3 _ _ E). vm_compute. reflexivity.
  - vm_compute. constructor; [|constructor; [|constructor; [|constructor]]]; simpl; intuition discriminate.
Qed.
