(* FollowFail.v -- a failure is never swallowed (C15).
   Every call of a user function is logged; the entry of a call that returned
   an error carries a `!` after its kind (the harness's Go functions write the
   same mark).  With user functions whose only errors are their own
   (EUser n at call n):  if a rule -- hence a decode -- returns anything but a
   user function's error (nil, a loop signal, an internal error), then no entry
   of its log is marked: no call failed.  Contrapositive: whenever a callback,
   getter, modifier or condition helper fails, however deeply it is buried in
   loops, switches, blocks and modifier chains, Decode returns a user
   function's error -- and by user_error_is_last_call it is the error of the
   last call made, i.e. of the first one that failed. *)
From Coq Require Import List NArith ZArith Bool Lia String.
From Dec Require Import Bytes Strconv Crc Values Tree Interp.
From Dec.proofs Require Import InterpFacts InterpFacts2 InterpFacts3 FollowInv FollowErr.
Import ListNotations.

Local Arguments ctx_set : simpl never.
Local Arguments deref : simpl never.
Local Arguments x2bytes : simpl never.
Local Arguments ctx_get : simpl never.
Local Arguments ctx_cmp : simpl never.
Local Arguments split_path : simpl never.
Local Arguments find_var : simpl never.
Local Arguments format_int : simpl never.
Local Arguments jget : simpl never.
Local Arguments event : simpl never.

(* the byte before the first `:` of a log entry is `!` *)
Definition is_fail (ev : bytes) : bool :=
  match index_byte 58 ev with
  | Some (S j) => N.eqb (nth j ev 0%N) 33
  | _ => false
  end.

Definition nofail (t : list bytes) : Prop := forallb (fun ev => negb (is_fail ev)) t = true.
Definition NF (c : ctx) : Prop := nofail (trace c).
Definition noEU (e : option err) : Prop := forall m, e <> Some (EUser m).
(* if ctx.Err does not hold a user error, no call has failed so far *)
Definition P (c : ctx) : Prop := noEU (cerr c) -> NF c.

Lemma nofail_cons ev t : is_fail ev = false -> nofail t -> nofail (ev :: t).
Proof. unfold nofail. intros H1 H2. simpl. rewrite H1, H2. reflexivity. Qed.

Lemma plain_kinds_do_not_fail name vs :
  is_fail (Interp.event (bs "cb") name vs) = false /\ is_fail (Interp.event (bs "get") name vs) = false /\
  is_fail (Interp.event (bs "mod") name vs) = false /\ is_fail (Interp.event (bs "cond") name vs) = false /\
  is_fail (Interp.event (bs "condok") name vs) = false.
Proof. repeat split; reflexivity. Qed.

Lemma NF_quiet c c' : quiet c c' -> NF c -> NF c'.
Proof. intros (_ & T & _). unfold NF. rewrite T. auto. Qed.

Lemma trace_dec_brk c : trace (dec_brk c) = trace c.
Proof. unfold dec_brk. destruct (brkD c); reflexivity. Qed.

Lemma NF_P c : NF c -> P c.
Proof. intros H _. exact H. Qed.

Ltac nf_dec BN := apply NF_P; unfold NF; rewrite trace_dec_brk; exact BN.

Lemma calm_noEU c : calm c -> noEU (cerr c).
Proof. unfold calm, noEU. intros H m E. rewrite E in H. exact H. Qed.

Lemma noEU_plain e : plain_opt e -> noEU e.
Proof. intros H m E. subst e. exact H. Qed.

(* user functions whose only errors are their own *)
Record strict (U : ufuns) : Prop := {
  s_cb : forall name fn n a e, u_cb U name = Some fn -> fn n a = Some e -> e = EUser n;
  s_get : forall name fn n a e, u_get U name = Some fn -> fn n a = inr e -> e = EUser n;
  s_mod : forall name fn n v a e, u_mod U name = Some fn -> fn n v a = inr e -> e = EUser n;
  s_cond : forall name fn n a e, u_cond U name = Some fn -> snd (fn n a) = Some e -> e = EUser n;
}.

Lemma strict_honest U : strict U -> honest U.
Proof.
  intros [A B C D]. split.
  - intros name fn n a E. destruct (fn n a) as [e|] eqn:F; [|exact I]. rewrite (A _ _ _ _ _ E F). reflexivity.
  - intros name fn n a E. destruct (fn n a) as [v|e] eqn:F; [exact I|]. rewrite (B _ _ _ _ _ E F). reflexivity.
  - intros name fn n v a E. destruct (fn n v a) as [w|e] eqn:F; [exact I|]. rewrite (C _ _ _ _ _ _ E F). reflexivity.
  - intros name fn n a E. destruct (snd (fn n a)) as [e|] eqn:F; [|exact I]. rewrite (D _ _ _ _ _ E F). reflexivity.
Qed.

Section WITH_U.
Variable U : ufuns.
Hypothesis SU : strict U.
Let HU : honest U := strict_honest U SU.

(* condition helpers *)
Lemma call_cond_nf c name al : calm c -> NF c -> P (fst (call_cond U c name al)).
Proof.
  intros H HN. unfold call_cond. destruct (u_cond U name) as [f|] eqn:Ef; [|apply NF_P; exact HN].
  pose proof (q_collect_args al c []) as Q. destruct (collect_args c al []) as [c1 la]. cbn [fst] in Q.
  pose proof (NF_quiet _ _ Q HN) as N1. cbv zeta. unfold log_call.
  destruct (f (ncalls c1) la) as [b e] eqn:F. cbn [snd fst].
  destruct e as [x|].
  - pose proof (s_cond U SU _ _ (ncalls c1) la x Ef) as S. rewrite F in S. specialize (S eq_refl). subst x.
    intro Hn. exfalso. apply (Hn (ncalls c1)). reflexivity.
  - apply NF_P. unfold NF. simpl. apply nofail_cons; [apply plain_kinds_do_not_fail|exact N1].
Qed.

(* modifier chains *)
Lemma run_mods_nf ms : forall c raw, calm c -> NF c -> P (fst (run_mods U ms c raw)).
Proof.
  induction ms as [|m ms IH]; intros c raw H HN; [apply NF_P; exact HN|]. cbn [run_mods].
  pose proof (q_collect_args (m_arg m) c []) as Q. pose proof (calm_collect_args (m_arg m) c [] H) as QC.
  destruct (collect_args c (m_arg m) []) as [c1 la]. cbn [fst] in Q, QC.
  assert (B : calm (w_bufX c1 raw)) by exact QC.
  assert (BN : NF (w_bufX c1 raw)) by (apply (NF_quiet c); [eapply quiet_trans; [exact Q|apply q_w_bufX]|exact HN]).
  (* a builtin step: the context stays calm and quiet *)
  assert (G : forall (x : ctx * option val * option err), calm3 x -> NF (fst (fst x)) ->
     P (fst (let '(c0, res, e) := x in
             let c2 := match res with Some v => w_bufX c0 v | None => c0 end in
             let c3 := w_cerr c2 e in
             match e with Some _ => (c3, raw) | None => run_mods U ms c3 (bufX c3) end))).
  { intros [[x0 xr] xe] [X1 X2] XN. cbn [fst snd] in X1, X2, XN.
    assert (N3 : NF (w_cerr match xr with Some v => w_bufX x0 v | None => x0 end xe)).
    { destruct xr; exact XN. }
    destruct xe as [e|]; [apply NF_P; exact N3|].
    apply IH; [apply calm_set; exact I|exact N3]. }
  destruct (builtin_mod (m_id m)) as [[| | |]|].
  - apply G; [apply calm_mod_default, B|apply (NF_quiet _ _ (q_mod_default _ _ _) BN)].
  - apply G; [apply calm_mod_ifthen, B|apply (NF_quiet _ _ (q_mod_ifthen _ _ _) BN)].
  - apply G; [apply calm_mod_ifthenelse, B|apply (NF_quiet _ _ (q_mod_ifthenelse _ _ _) BN)].
  - apply (G (w_bufX c1 raw, None, None)); [split; [exact B|exact I]|exact BN].
  - destruct (u_mod U (m_id m)) as [f|] eqn:Ef.
    + cbv zeta. unfold log_call.
      change (deref (w_ncalls (w_trace (w_bufX c1 raw) _) _) raw) with (deref (w_bufX c1 raw) raw).
      change (ncalls (w_bufX c1 raw)) with (ncalls c1).
      destruct (f (ncalls c1) (deref (w_bufX c1 raw) raw) la) as [v|x] eqn:F.
      * apply (G (_, Some v, None)); [split; [exact B|exact I]|].
        unfold NF. simpl. apply nofail_cons; [apply plain_kinds_do_not_fail|exact BN].
      * pose proof (s_mod U SU _ _ _ _ _ _ Ef F). subst x. cbn [fst].
        intro Hn. exfalso. apply (Hn (ncalls c1)). reflexivity.
    + apply (G (w_bufX c1 raw, None, Some EUnsupported)); [split; [exact B|exact I]|exact BN].
Qed.

(* ------------------------------------------------ drivers *)

Definition sound2 (fr : node -> ctx -> ctx * option err) : Prop :=
  forall n c, calm c -> NF c -> noEU (snd (fr n c)) -> NF (fst (fr n c)).

Section DRV.
Variable fr : node -> ctx -> ctx * option err.
Hypothesis Hfr : sound fr.
Hypothesis Hfr2 : sound2 fr.

Ltac step_fr n c H HN c1 e1 F1 F2 G2 :=
  pose proof (Hfr n c H) as [F1 F2]; pose proof (Hfr2 n c H HN) as G2;
  destruct (fr n c) as [c1 e1]; cbn [fst snd] in F1, F2, G2.

Lemma rules_lz_nf l : forall c lz, calm c -> NF c -> noEU (snd (rules_lz fr l c lz)) -> NF (fst (rules_lz fr l c lz)).
Proof.
  induction l as [|n l IH]; intros c lz H HN; cbn [rules_lz].
  { intros _. destruct lz; exact HN. }
  step_fr n c H HN c1 e1 F1 F2 G2.
  destruct e1 as [e|]; [|apply IH; [exact F2|apply G2; intros m; discriminate]].
  destruct e; cbn [fst snd]; intro Hn;
    try (apply G2; intros m0; discriminate);
    try (exfalso; eapply Hn; reflexivity).
  - apply IH; [exact F2|apply G2; intros m0; discriminate|exact Hn].
Qed.

Definition bnf (br : bodyres) (c : ctx) : Prop :=
  match br with BFail e => noEU (Some e) -> NF c | _ => NF c end.

Lemma body_nf l : forall c lz, calm c -> NF c -> bnf (snd (body fr l c lz)) (fst (body fr l c lz)).
Proof.
  induction l as [|n l IH]; intros c lz H HN; cbn [body].
  { destruct lz; exact HN. }
  step_fr n c H HN c1 e1 F1 F2 G2.
  destruct e1 as [e|]; [|apply IH; [exact F2|apply G2; intros m; discriminate]].
  destruct e; cbn [fst snd bnf];
    try (apply G2; intros m0; discriminate);
    try (destruct lz; apply G2; intros m0; discriminate);
    try (intro Hn; apply G2; exact Hn).
  - apply IH; [exact F2|apply G2; intros m0; discriminate].
Qed.

Lemma P_w_cerr_fail c e : (noEU (Some e) -> NF c) -> P (w_cerr c (Some e)).
Proof. intros H Hn. apply H. exact Hn. Qed.

Lemma cloop_run_nf k : forall n idx v lim c, calm c -> NF c -> P (cloop_run fr k n idx v lim c).
Proof.
  induction k as [|k IH]; intros n idx v lim c H HN; cbn [cloop_run].
  { apply NF_P. exact HN. }
  destruct (loop_allows (loopCondOp n) v lim) as [al|].
  2:{ cbn [andb negb]. nf_dec HN. }
  destruct (negb (al && Nat.eqb (brkD c) 0)); [nf_dec HN|].
  pose proof (body_post fr Hfr (child n) (ctx_set c (loopCnt n) (VLC idx) InsStatic) false (calm_ctx_set _ _ _ _ H)) as B.
  pose proof (body_nf (child n) (ctx_set c (loopCnt n) (VLC idx) InsStatic) false (calm_ctx_set _ _ _ _ H) HN) as BN.
  destruct (body fr (child n) (ctx_set c (loopCnt n) (VLC idx) InsStatic) false) as [c1 br]. cbn [fst snd] in B, BN.
  destruct br as [| | | |e]; cbn [bpost bnf] in B, BN; try (apply P_w_cerr_fail; exact BN);
    (destruct (step64 (loopCntOp n) v) as [v'|];
     [ first [ apply IH; [exact B|exact BN] | nf_dec BN ]
     | first [ apply IH; [apply calm_set; exact I|exact BN] | nf_dec BN ] ]).
Qed.

Lemma cloop_nf k n c : calm c -> NF c -> P (cloop fr k n c).
Proof.
  intros H HN. unfold cloop.
  pose proof (calm_cloop_range c (loopCntStatic n) (loopCntInit n) H) as R1.
  pose proof (q_cloop_range c (loopCntStatic n) (loopCntInit n)) as Q1.
  destruct (cloop_range c (loopCntStatic n) (loopCntInit n)) as [c1 cnt]. cbn [fst] in R1, Q1.
  pose proof (NF_quiet _ _ Q1 HN) as N1.
  destruct (cerr c1) eqn:E1; [apply NF_P; exact N1|].
  pose proof (calm_cloop_range c1 (loopLimStatic n) (loopLim n) R1) as R2.
  pose proof (q_cloop_range c1 (loopLimStatic n) (loopLim n)) as Q2.
  destruct (cloop_range c1 (loopLimStatic n) (loopLim n)) as [c2 lim]. cbn [fst] in R2, Q2.
  pose proof (NF_quiet _ _ Q2 N1) as N2.
  destruct (cerr c2) eqn:E2; [apply NF_P; exact N2|].
  apply cloop_run_nf; [exact R2|exact N2].
Qed.

Lemma P_dec_brk c : P c -> P (dec_brk c).
Proof. unfold dec_brk. destruct (brkD c); auto. Qed.

Lemma iterate_nf n c brk : okc c -> P c -> (brk = false -> calm c /\ NF c) ->
  P (fst (fst (iterate fr n c brk))) /\ (snd (fst (iterate fr n c brk)) = false -> NF (fst (fst (iterate fr n c brk)))).
Proof.
  intros Ho Hp Hc. unfold iterate. destruct brk; [split; [exact Hp|discriminate]|].
  destruct (Hc eq_refl) as [H HN].
  destruct (negb (Nat.eqb (brkD c) 0)); [split; [apply P_dec_brk; exact Hp|discriminate]|].
  pose proof (body_post fr Hfr (child n) c false H) as B.
  pose proof (body_nf (child n) c false H HN) as BN.
  destruct (body fr (child n) c false) as [c1 br]. cbn [fst snd] in B, BN.
  destruct br; cbn [bpost bnf fst snd] in *;
    try (split; [nf_dec BN|discriminate]).
  - destruct (negb (Nat.eqb (brkD c1) 0)); cbn [fst snd];
      [split; [nf_dec BN|discriminate]|split; [apply NF_P; exact BN|intros _; exact BN]].
  - split; [apply NF_P; exact BN|intros _; exact BN].
  - split; [apply P_w_cerr_fail; exact BN|discriminate].
Qed.

Lemma P_ctx_set c k v i : P c -> P (ctx_set c k v i).
Proof. auto. Qed.
Lemma P_set_key n c i : P c -> P (set_key n c i).
Proof. unfold set_key. destruct (loopKey n); auto. Qed.
Lemma NF_set_key n c i : NF c -> NF (set_key n c i).
Proof. unfold set_key. destruct (loopKey n); auto. Qed.

Lemma vloop_nf n xs : forall i c brk, okc c -> P c -> (brk = false -> calm c /\ NF c) -> P (vloop fr n xs i c brk).
Proof.
  induction xs as [|x xs IH]; intros i c brk Ho Hp Hc; [exact Hp|]. cbn [vloop].
  pose proof (iterate_post fr Hfr n (ctx_set (set_key n c i) (loopVal n) (VNode x) InsVector) brk) as IP.
  pose proof (iterate_nf n (ctx_set (set_key n c i) (loopVal n) (VNode x) InsVector) brk) as IN.
  destruct IP as [P1 P2].
  { apply (okc_set_key n c i) in Ho. exact Ho. }
  { intro E. apply calm_ctx_set, calm_set_key, (proj1 (Hc E)). }
  destruct IN as [N1 N2].
  { apply (okc_set_key n c i) in Ho. exact Ho. }
  { apply P_ctx_set, P_set_key. exact Hp. }
  { intro E. destruct (Hc E) as [A B]. split; [apply calm_ctx_set, calm_set_key, A|exact (NF_set_key n c i B)]. }
  destruct (iterate fr n (ctx_set (set_key n c i) (loopVal n) (VNode x) InsVector) brk) as [[c1 b1] s1].
  cbn [fst snd] in P1, P2, N1, N2. apply IH; [exact P1|exact N1|]. intro E. split; [apply P2, E|apply N2, E].
Qed.

Lemma oloop_run_nf n oid sp cnt : forall i c brk, okc c -> P c -> (brk = false -> calm c /\ NF c) -> P (oloop_run fr n oid sp cnt i c brk).
Proof.
  induction cnt as [|cnt IH]; intros i c brk Ho Hp Hc; [exact Hp|]. cbn [oloop_run].
  pose proof (iterate_post fr Hfr n (ctx_set (set_key n c i) (loopVal n) (VObj oid (sp ++ [format_int (Z.of_nat i)])) InsObj) brk) as IP.
  pose proof (iterate_nf n (ctx_set (set_key n c i) (loopVal n) (VObj oid (sp ++ [format_int (Z.of_nat i)])) InsObj) brk) as IN.
  destruct IP as [P1 P2].
  { apply (okc_set_key n c i) in Ho. exact Ho. }
  { intro E. apply calm_ctx_set, calm_set_key, (proj1 (Hc E)). }
  destruct IN as [N1 N2].
  { apply (okc_set_key n c i) in Ho. exact Ho. }
  { apply P_ctx_set, P_set_key. exact Hp. }
  { intro E. destruct (Hc E) as [A B]. split; [apply calm_ctx_set, calm_set_key, A|exact (NF_set_key n c i B)]. }
  destruct (iterate fr n (ctx_set (set_key n c i) (loopVal n) (VObj oid (sp ++ [format_int (Z.of_nat i)])) InsObj) brk) as [[c1 b1] s1].
  cbn [fst snd] in P1, P2, N1, N2. destruct s1; [exact N1|].
  apply IH; [exact P1|exact N1|]. intro E. split; [apply P2, E|apply N2, E].
Qed.

Lemma P_key_slot n c : P c -> P (key_slot n c).
Proof. unfold key_slot. destruct (loopKey n); auto. Qed.

Lemma rloop_nf n c : calm c -> NF c -> P (rloop fr n c).
Proof.
  intros H HN. unfold rloop. destruct (split_path (loopSrc n)) as [|k rest]; [apply NF_P; exact HN|].
  destruct (find_var (vars c) k) as [[v i]|]; [|apply NF_P; exact HN].
  assert (H1 : calm (w_cerr c None)) by (apply calm_set; exact I).
  assert (N1 : NF (w_cerr c None)) by exact HN.
  assert (H2 : forall e, P (w_cerr (w_cerr c None) (Some e))) by (intros e; apply NF_P; exact HN).
  destruct i; try (apply NF_P; exact N1); try apply H2.
  - destruct v; try (apply NF_P; exact N1).
    destruct (jget j rest); try (apply NF_P; exact N1); try apply H2;
      match goal with |- context [match ?l with [] => _ | _ :: _ => _ end] => destruct l end;
      try apply H2; (apply P_key_slot, vloop_nf; [apply calm_okc; exact H1|apply NF_P; exact N1|intros _; split; assumption]).
  - destruct v; try (apply NF_P; exact N1).
    destruct (nth_error (store (w_cerr c None)) oid); try (apply NF_P; exact N1).
    destruct (oloop ofuel o (prefix ++ rest)) as [[sp cnt]|]; [|apply NF_P; exact N1].
    destruct cnt; [|apply P_key_slot]; (apply oloop_run_nf; [apply calm_okc; exact H1|apply NF_P; exact N1|intros _; split; assumption]).
Qed.

Lemma branch_nf n c ok e : calm c -> NF c -> noEU (snd (branch fr n c ok e)) -> NF (fst (branch fr n c ok e)).
Proof.
  intros H HN. unfold branch. destruct ok.
  - destruct (child n) as [|ch r]; [intros _; exact HN|apply Hfr2; assumption].
  - destruct (child n) as [|x [|ch r]]; try (intros _; exact HN). apply Hfr2; assumption.
Qed.

(* a switch scan *)
Definition swnf (x : ctx * bool * option err * bool) : Prop :=
  let '(c, ok, e, early) := x in noEU e -> NF c.

Lemma switch_classic_nf sw l : forall c ok, calm c -> NF c -> ok = false -> swnf (switch_classic fr sw l c ok).
Proof.
  induction l as [|ch l IH]; intros c ok H HN Hok; cbn [switch_classic].
  { intros _. exact HN. }
  assert (V : match
    (if Z.eqb (typ ch) typeCase then
       if caseStaticL ch then let '(c', b0) := ctx_cmp c (switchArg sw) opEq (trimq (caseL ch)) in (c', b0, None, false)
       else let '(c', _) := ctx_get c (caseL ch) [] in
            match cerr c' with
            | Some _ => (c', ok, None, false)
            | None => match x2bytes c' (bufX c') with
                      | None => (c', ok, Some EUnknownType, true)
                      | Some b0 => let '(c'', b') := ctx_cmp c' (switchArg sw) opEq b0 in (c'', b', None, false)
                      end
            end
     else (c, ok, None, false)) with (c1, ok1, e1, ea1) => calm c1 /\ NF c1 end).
  { destruct (Z.eqb (typ ch) typeCase); [|split; assumption].
    destruct (caseStaticL ch).
    - pose proof (calm_ctx_cmp c (switchArg sw) opEq (trimq (caseL ch)) H) as Q.
      pose proof (q_ctx_cmp c (switchArg sw) opEq (trimq (caseL ch))) as QQ.
      destruct (ctx_cmp c (switchArg sw) opEq (trimq (caseL ch))). split; [exact Q|exact (NF_quiet _ _ QQ HN)].
    - pose proof (calm_ctx_get c (caseL ch) [] H) as G. pose proof (q_ctx_get c (caseL ch) []) as GQ.
      destruct (ctx_get c (caseL ch) []) as [c1 v1]. cbn [fst] in G, GQ.
      pose proof (NF_quiet _ _ GQ HN) as N1.
      destruct (cerr c1) eqn:E; [split; assumption|].
      destruct (x2bytes c1 (bufX c1)); [|split; assumption].
      pose proof (calm_ctx_cmp c1 (switchArg sw) opEq b G) as Q. pose proof (q_ctx_cmp c1 (switchArg sw) opEq b) as QQ.
      destruct (ctx_cmp c1 (switchArg sw) opEq b). split; [exact Q|exact (NF_quiet _ _ QQ N1)]. }
  revert V.
  match goal with |- match ?X with _ => _ end -> _ => destruct X as [[[c1 ok1] e1] ea1] end.
  intros [V1 V2].
  destruct ea1; [intros _; exact V2|].
  destruct ok1.
  - pose proof (Hfr2 ch c1 V1 V2) as F. destruct (fr ch c1) as [c2 e2]. exact F.
  - apply IH; [exact V1|exact V2|reflexivity].
Qed.

Lemma switch_nocond_nf l : forall c ok, calm c -> NF c -> ok = false -> swnf (switch_nocond U fr l c ok).
Proof.
  induction l as [|ch l IH]; intros c ok H HN Hok; cbn [switch_nocond].
  { intros _. exact HN. }
  destruct (Z.eqb (typ ch) typeCase); [|apply IH; assumption].
  assert (V : match
    (match caseHlp ch with
     | _ :: _ => match call_cond U c (caseHlp ch) (caseHlpArg ch) with
                 | (c', None) => (c', ok, Some ECondHlpNotFound, true)
                 | (c', Some b0) => (c', b0, None, false)
                 end
     | [] => let sl := caseStaticL ch in let sr := caseStaticR ch in
             if sl && sr then (c, ok, Some ESenseless, true)
             else if sr then let '(c', b0) := ctx_cmp c (caseL ch) (caseOp ch) (trimq (caseR ch)) in (c', b0, None, false)
             else if sl then let '(c', b0) := ctx_cmp c (caseR ch) (op_swap (caseOp ch)) (trimq (caseL ch)) in (c', b0, None, false)
             else let '(c', _) := ctx_get c (caseR ch) [] in
                  match cerr c' with
                  | Some _ => (c', ok, None, false)
                  | None => match x2bytes c' (bufX c') with
                            | None => (c', ok, Some EUnknownType, true)
                            | Some b0 => let '(c'', b') := ctx_cmp c' (caseL ch) (caseOp ch) b0 in (c'', b', None, false)
                            end
                  end
     end) with (c1, ok1, e1, ea1) => okc c1 /\ P c1 /\ (ea1 = true -> NF c1) end).
  { assert (W : forall c1 (b : bool), calm c1 -> NF c1 -> okc c1 /\ P c1 /\ (b = true -> NF c1)).
    { intros. split; [apply calm_okc; assumption|split; [apply NF_P; assumption|auto]]. }
    destruct (caseHlp ch) as [|h hs].
    - cbv zeta. destruct (caseStaticL ch && caseStaticR ch); [apply W; assumption|].
      destruct (caseStaticR ch).
      + pose proof (calm_ctx_cmp c (caseL ch) (caseOp ch) (trimq (caseR ch)) H) as Q.
        pose proof (q_ctx_cmp c (caseL ch) (caseOp ch) (trimq (caseR ch))) as QQ.
        destruct (ctx_cmp c (caseL ch) (caseOp ch) (trimq (caseR ch))). cbn [fst] in *.
        apply W; [exact Q|exact (NF_quiet _ _ QQ HN)].
      + destruct (caseStaticL ch).
        * pose proof (calm_ctx_cmp c (caseR ch) (op_swap (caseOp ch)) (trimq (caseL ch)) H) as Q.
          pose proof (q_ctx_cmp c (caseR ch) (op_swap (caseOp ch)) (trimq (caseL ch))) as QQ.
          destruct (ctx_cmp c (caseR ch) (op_swap (caseOp ch)) (trimq (caseL ch))). cbn [fst] in *.
          apply W; [exact Q|exact (NF_quiet _ _ QQ HN)].
        * pose proof (calm_ctx_get c (caseR ch) [] H) as G. pose proof (q_ctx_get c (caseR ch) []) as GQ.
          destruct (ctx_get c (caseR ch) []) as [c1 v1]. cbn [fst] in G, GQ.
          pose proof (NF_quiet _ _ GQ HN) as N1.
          destruct (cerr c1) eqn:E; [apply W; assumption|].
          destruct (x2bytes c1 (bufX c1)); [|apply W; assumption].
          pose proof (calm_ctx_cmp c1 (caseL ch) (caseOp ch) b G) as Q. pose proof (q_ctx_cmp c1 (caseL ch) (caseOp ch) b) as QQ.
          destruct (ctx_cmp c1 (caseL ch) (caseOp ch) b). cbn [fst] in *.
          apply W; [exact Q|exact (NF_quiet _ _ QQ N1)].
    - pose proof (call_cond_post U HU c (h :: hs) (caseHlpArg ch) H) as C.
      pose proof (call_cond_nf c (h :: hs) (caseHlpArg ch) H HN) as CN.
      destruct (call_cond U c (h :: hs) (caseHlpArg ch)) as [c1 [b|]]; cbn [fst] in CN.
      + split; [exact C|split; [exact CN|discriminate]].
      + split; [apply calm_okc; exact C|split; [exact CN|intros _; apply CN, calm_noEU, C]]. }
  revert V.
  match goal with |- match ?X with _ => _ end -> _ => destruct X as [[[c1 ok1] e1] ea1] end.
  intros (V0 & VP & V4).
  destruct ea1; [intros _; apply V4; reflexivity|].
  destruct (cerr c1) as [x|] eqn:E.
  { intro Hn. apply VP. rewrite E. exact Hn. }
  assert (V1 : calm c1) by (unfold calm; rewrite E; exact I).
  assert (V2 : NF c1) by (apply VP; rewrite E; intros m; discriminate).
  destruct ok1.
  - pose proof (Hfr2 ch c1 V1 V2) as F. destruct (fr ch c1) as [c2 e2]. exact F.
  - apply IH; [exact V1|exact V2|reflexivity].
Qed.

End DRV.

Local Arguments rloop : simpl never.
Local Arguments cloop : simpl never.
Local Arguments rules : simpl never.
Local Arguments switch_classic : simpl never.
Local Arguments switch_nocond : simpl never.
Local Arguments run_mods : simpl never.
Local Arguments ctx_set_path : simpl never.
Local Arguments collect_args : simpl never.
Local Arguments node_cmp : simpl never.
Local Arguments call_cond : simpl never.
Local Arguments run_bget : simpl never.
Local Arguments branch : simpl never.

Lemma loop_result_nf c p : P c ->
  noEU (cerr (if Nat.ltb (brkD c) p then w_brkD c p else c)) -> NF (if Nat.ltb (brkD c) p then w_brkD c p else c).
Proof. intro H. destruct (Nat.ltb (brkD c) p); exact H. Qed.

Theorem follow_sound2 fuel : sound2 (follow U fuel).
Proof.
  induction fuel as [|f IH]; intros r c H HN; [intros _; exact HN|].
  pose proof (follow_sound U HU f) as IS.
  cbn [follow]. cbv zeta.
  destruct (Z.eqb (typ r) typeLoopRange).
  { cbn [fst snd]. apply loop_result_nf. apply rloop_nf; [exact IS|exact IH|exact H|exact HN]. }
  destruct (Z.eqb (typ r) typeLoopCount).
  { cbn [fst snd]. apply loop_result_nf. apply cloop_nf; [exact IS|exact IH|exact H|exact HN]. }
  destruct (Z.eqb (typ r) typeBreak); [intros _; exact HN|].
  destruct (Z.eqb (typ r) typeLBreak); [intros _; exact HN|].
  destruct (Z.eqb (typ r) typeContinue); [intros _; exact HN|].
  destruct (Z.eqb (typ r) typeCondOK).
  { destruct (condHlp r) as [|h hs]; [intros _; exact HN|].
    destruct (u_condok U (h :: hs)) as [fn|]; [|intros _; exact HN].
    pose proof (calm_collect_args (condHlpArg r) c [] H) as QC. pose proof (q_collect_args (condHlpArg r) c []) as Q.
    destruct (collect_args c (condHlpArg r) []) as [c1 la]. cbn [fst] in Q, QC.
    pose proof (NF_quiet _ _ Q HN) as N1.
    unfold log_call. destruct (fn (ncalls c1) la) as [v okv].
    set (c2 := w_ncalls (w_trace c1 (Interp.event (bs "condok") (h :: hs) la :: trace c1)) (S (ncalls c1))).
    assert (C2 : calm c2) by exact QC.
    assert (N2 : NF c2) by (unfold NF, c2; simpl; apply nofail_cons; [apply plain_kinds_do_not_fail|exact N1]).
    destruct (u_ins U match condIns r with [] => bs "static" | x :: l => x :: l end) as [i|]; [|intros _; exact N2].
    assert (E4 : calm (ctx_set (ctx_set (w_bufBl (w_bufX c2 v) okv) (condOKL r) v i) (condOKR r) (VBool okv) InsStatic)) by exact C2.
    assert (N4 : NF (ctx_set (ctx_set (w_bufBl (w_bufX c2 v) okv) (condOKL r) v i) (condOKR r) (VBool okv) InsStatic)) by exact N2.
    destruct (condR r) as [|cr crs].
    - apply branch_nf; [exact IH|exact E4|exact N4].
    - destruct (calm_node_cmp _ r E4) as [M1 M2]. pose proof (q_node_cmp (ctx_set (ctx_set (w_bufBl (w_bufX c2 v) okv) (condOKL r) v i) (condOKR r) (VBool okv) InsStatic) r) as MQ.
      destruct (node_cmp (ctx_set (ctx_set (w_bufBl (w_bufX c2 v) okv) (condOKL r) v i) (condOKR r) (VBool okv) InsStatic) r) as [[c3 o3] e3].
      cbn [fst snd] in M1, M2, MQ. apply branch_nf; [exact IH|exact M1|exact (NF_quiet _ _ MQ N4)]. }
  destruct (Z.eqb (typ r) typeCond).
  { assert (V : match
      (match condHlp r with
       | [] => let '(c', b0, e') := node_cmp c r in (c', b0, e', false)
       | _ :: _ => if Z.eqb (condLC r) lcNone
                   then match call_cond U c (condHlp r) (condHlpArg r) with
                        | (c', Some b0) => (c', b0, None, false)
                        | (c', None) => (c', false, Some ECondHlpNotFound, true)
                        end
                   else (c, false, Some EUnsupported, true)
       end) with (c1, ok1, e1, ea1) => P c1 /\ plain_opt e1 /\ (ea1 = true -> NF c1) end).
    { destruct (condHlp r) as [|h hs].
      - destruct (calm_node_cmp c r H) as [M1 M2]. pose proof (q_node_cmp c r) as MQ.
        destruct (node_cmp c r) as [[c3 o3] e3]. cbn [fst snd] in M1, M2, MQ.
        split; [apply NF_P, (NF_quiet _ _ MQ HN)|split; [exact M2|discriminate]].
      - destruct (Z.eqb (condLC r) lcNone); [|split; [apply NF_P; exact HN|split; [exact I|intros _; exact HN]]].
        pose proof (call_cond_post U HU c (h :: hs) (condHlpArg r) H) as C.
        pose proof (call_cond_nf c (h :: hs) (condHlpArg r) H HN) as CN.
        destruct (call_cond U c (h :: hs) (condHlpArg r)) as [c1 [b|]]; cbn [fst] in CN.
        + split; [exact CN|split; [exact I|discriminate]].
        + split; [exact CN|split; [exact I|intros _; apply CN, calm_noEU, C]]. }
    revert V.
    match goal with |- match ?X with _ => _ end -> _ => destruct X as [[[c1 ok1] e1] ea1] end.
    intros (VP & V2 & V4).
    destruct ea1; [intros _; apply V4; reflexivity|].
    destruct (cerr c1) as [x|] eqn:E.
    - cbn [fst snd]. intro Hn. apply VP. rewrite E. exact Hn.
    - apply branch_nf; [exact IH|unfold calm; rewrite E; exact I|apply VP; rewrite E; intros m; discriminate]. }
  destruct (Z.eqb (typ r) typeCondTrue || Z.eqb (typ r) typeCondFalse || Z.eqb (typ r) typeCase || Z.eqb (typ r) typeDefault).
  { apply rules_lz_nf; [exact IS|exact IH|exact H|exact HN]. }
  destruct (Z.eqb (typ r) typeSwitch).
  { assert (V : swnf
      (match switchArg r with
       | [] => switch_nocond U (follow U f) (child r) c false
       | _ :: _ => switch_classic (follow U f) r (child r) c false
       end)).
    { destruct (switchArg r); [apply switch_nocond_nf|apply switch_classic_nf]; auto. }
    assert (W : swpost
      (match switchArg r with
       | [] => switch_nocond U (follow U f) (child r) c false
       | _ :: _ => switch_classic (follow U f) r (child r) c false
       end)).
    { destruct (switchArg r); [apply switch_nocond_post|apply switch_classic_post]; auto. }
    revert V W. unfold swnf, swpost.
    match goal with |- match ?X with _ => _ end -> _ => destruct X as [[[c1 ok1] e1] ea1] end.
    intros V [W1 W2].
    destruct ea1; [exact V|]. destruct ok1; [exact V|].
    destruct (W2 eq_refl eq_refl) as [W3 W4]. subst e1.
    destruct (first_default (child r)); [apply IH; [exact W3|apply V; intros m; discriminate]|exact V]. }
  destruct (callback r).
  { pose proof (calm_collect_args (args r) c [] H) as QC. pose proof (q_collect_args (args r) c []) as Q.
    destruct (collect_args c (args r) []) as [c1 la]. cbn [fst] in Q, QC.
    pose proof (NF_quiet _ _ Q HN) as N1.
    destruct (u_cb U (src r)) as [fn|] eqn:Ef; [|intros _; exact N1].
    unfold log_call. cbn [fst snd].
    destruct (fn (ncalls c1) la) as [e|] eqn:F.
    - pose proof (s_cb U SU _ _ _ _ _ Ef F). subst e. intro Hn. exfalso. apply (Hn (ncalls c1)). reflexivity.
    - intros _. unfold NF. simpl. apply nofail_cons; [apply plain_kinds_do_not_fail|exact N1]. }
  destruct (getter r).
  { pose proof (calm_collect_args (args r) c [] H) as QC. pose proof (q_collect_args (args r) c []) as Q.
    destruct (collect_args c (args r) []) as [c1 la]. cbn [fst] in Q, QC.
    assert (B : calm (w_bufX c1 VNil)) by exact QC.
    assert (BN : NF (w_bufX c1 VNil)) by exact (NF_quiet _ _ Q HN).
    assert (V : match
       (match builtin_getter (src r) with
        | Some g => run_bget (w_bufX c1 VNil) g la
        | None => match u_get U (src r) with
                  | Some fn => let '(c0, n) := log_call (w_bufX c1 VNil) (kind_of (bs "get") (match fn (ncalls (w_bufX c1 VNil)) la with inr _ => true | inl _ => false end)) (src r) la in
                               match fn n la with inl v => (c0, Some v, None) | inr x => (c0, None, Some x) end
                  | None => (w_bufX c1 VNil, None, Some EUnsupported)
                  end
        end) with (c2, ra, ea) => calm c2 /\ (noEU ea -> NF c2) end).
    { destruct (builtin_getter (src r)) as [g|].
      - destruct (calm_run_bget (w_bufX c1 VNil) g la B) as [A1 A2]. pose proof (q_run_bget (w_bufX c1 VNil) g la) as AQ.
        destruct (run_bget (w_bufX c1 VNil) g la) as [[c2 ra] ea]. cbn [fst snd] in A1, A2, AQ.
        split; [exact A1|intros _; exact (NF_quiet _ _ AQ BN)].
      - destruct (u_get U (src r)) as [fn|] eqn:Ef; [|split; [exact B|intros _; exact BN]].
        unfold log_call. change (ncalls (w_bufX c1 VNil)) with (ncalls c1).
        destruct (fn (ncalls c1) la) as [v|x] eqn:F.
        + split; [exact B|intros _; unfold NF; simpl; apply nofail_cons; [apply plain_kinds_do_not_fail|exact BN]].
        + pose proof (s_get U SU _ _ _ _ _ Ef F). subst x. split; [exact B|].
          intro Hn. exfalso. apply (Hn (ncalls c1)). reflexivity. }
    revert V.
    match goal with |- match ?X with _ => _ end -> _ => destruct X as [[c2 ra] ea] end.
    intros [V1 V2].
    assert (V3 : calm match ra with Some v => w_bufX c2 v | None => c2 end) by (destruct ra; exact V1).
    destruct ea as [e|].
    - cbn [fst snd]. intro Hn. destruct ra; exact (V2 Hn).
    - pose proof (q_ctx_set_path U match ra with Some v => w_bufX c2 v | None => c2 end (dst r) (bufX match ra with Some v => w_bufX c2 v | None => c2 end) (ins r)) as SQ.
      intros _. apply (NF_quiet _ _ SQ). destruct ra; apply V2; intros m; discriminate. }
  destruct (nonempty (dst r) && static r).
  { intros _. apply (NF_quiet _ _ (q_ctx_set_path U _ _ _ _)). exact HN. }
  destruct (nonempty (dst r) && nonempty (src r) && negb (static r)); [|intros _; exact HN].
  pose proof (calm_ctx_get c (src r) (subset r) H) as G. pose proof (q_ctx_get c (src r) (subset r)) as GQ.
  destruct (ctx_get c (src r) (subset r)) as [c1 va]. cbn [fst] in G, GQ.
  pose proof (NF_quiet _ _ GQ HN) as N1.
  destruct (cerr c1) as [x|] eqn:E1; [intros _; exact N1|].
  pose proof (run_mods_nf (mods r) c1 va G N1) as M. destruct (run_mods U (mods r) c1 va) as [c2 wa]. cbn [fst] in M.
  destruct (cerr c2) as [x|] eqn:E2.
  { cbn [fst snd]. intro Hn. apply M. rewrite E2. exact Hn. }
  intros _. apply (NF_quiet _ _ (q_ctx_set_path U _ _ _ _)). apply M. rewrite E2. intros m; discriminate.
Qed.

(* ------------------------------------------------ the statement *)

(* C15: a decode that returns anything but a user function's error contains
   no failed call *)
Theorem failure_is_never_swallowed fuel t c :
  calm c -> NF c -> noEU (snd (decode U fuel t c)) -> NF (fst (decode U fuel t c)).
Proof.
  intros H HN. unfold decode, rules.
  apply rules_lz_nf; [apply follow_sound; exact HU|apply follow_sound2|exact H|exact HN].
Qed.

(* in particular a successful decode *)
Corollary success_means_no_call_failed fuel t c :
  calm c -> NF c -> snd (decode U fuel t c) = None -> NF (fst (decode U fuel t c)).
Proof. intros H HN E. apply failure_is_never_swallowed; [exact H|exact HN|]. rewrite E. intros m; discriminate. Qed.

End WITH_U.

(* the harness's functions are strict, and a job starts with an empty log *)
From Dec Require Import CasesInterp.
Lemma testU_strict fk : strict (testU fk).
Proof.
  split.
  - intros name fn n a e. cbn [testU u_cb].
    destruct (bytes_eqb name (bs "probe") || bytes_eqb name (bs "ns::probe")); [|discriminate].
    intro E. inversion E; subst. destruct (fails fk n); [intro F; inversion F; reflexivity|discriminate].
  - intros name fn n a e. cbn [testU u_get].
    destruct (bytes_eqb name (bs "ident")); [intro E; inversion E; subst; destruct (fails fk n); [intro F; inversion F; reflexivity|discriminate]|].
    destruct (bytes_eqb name (bs "konst")); [intro E; inversion E; subst; destruct (fails fk n); [intro F; inversion F; reflexivity|discriminate]|discriminate].
  - intros name fn n v a e. cbn [testU u_mod].
    destruct (bytes_eqb name (bs "upper")); [intro E; inversion E; subst; destruct (fails fk n); [intro F; inversion F; reflexivity|discriminate]|].
    destruct (bytes_eqb name (bs "ns::suffix") || bytes_eqb name (bs "suffix")); [intro E; inversion E; subst; destruct (fails fk n); [intro F; inversion F; reflexivity|discriminate]|discriminate].
  - intros name fn n a e. cbn [testU u_cond].
    destruct (bytes_eqb name (bs "isTrue")); [intro E; inversion E; subst; destruct (fails fk n); cbn [snd]; [intro F; inversion F; reflexivity|discriminate]|].
    destruct (bytes_eqb name (bs "ns::eq") || bytes_eqb name (bs "eq")); [intro E; inversion E; subst; destruct (fails fk n); cbn [snd]; [intro F; inversion F; reflexivity|discriminate]|discriminate].
Qed.

Example empty_log_has_no_failure st : NF (new_ctx st).
Proof. reflexivity. Qed.
