(* ChainFacts.v -- C17: a chain of user-registered modifiers `src|m1(..)|m2(..)`
   runs left to right; each modifier receives the previous stage's result and
   its own written arguments, evaluated at call time, and the last result is
   the value of the chain. *)
From Coq Require Import List NArith ZArith Bool Lia String.
From Dec Require Import Bytes Strconv Crc Values Tree Interp.
From Dec.proofs Require Import InterpFacts InterpFacts2 InterpFacts3.
Import ListNotations.

Local Arguments ctx_get : simpl never.
Local Arguments collect_args : simpl never.
Local Arguments deref : simpl never.

Section CHAIN.
Variable U : ufuns.

(* what the property says a chain of user modifiers computes: fold the stages
   from left to right; call number n, n+1, ... *)
Fixpoint chain (ms : list modn) (c : ctx) (v : val) (n : nat) : option val :=
  match ms with
  | [] => Some v
  | m :: r =>
      match builtin_mod (m_id m), u_mod U (m_id m) with
      | None, Some f =>
          match f n (deref c v) (map (arg_value c) (m_arg m)) with
          | inl v' => chain r c v' (S n)
          | inr _ => None
          end
      | _, _ => None
      end
  end.

Definition same_state (a b : ctx) : Prop := vars a = vars b /\ store a = store b /\ bufLC a = bufLC b.

Lemma chain_stable ms : forall a b v n, same_state a b -> chain ms a v n = chain ms b v n.
Proof.
  induction ms as [|m ms IH]; intros a b v n H; [reflexivity|]. cbn [chain].
  destruct (builtin_mod (m_id m)); [reflexivity|]. destruct (u_mod U (m_id m)) as [f|]; [|reflexivity].
  destruct H as (Hv & Hs & Hl).
  assert (D : deref a v = deref b v) by (unfold deref; rewrite Hl; reflexivity).
  assert (A : map (arg_value a) (m_arg m) = map (arg_value b) (m_arg m)).
  { apply map_ext. intro x. apply arg_value_stable; assumption. }
  rewrite D, A. destruct (f n (deref b v) (map (arg_value b) (m_arg m))); [|reflexivity].
  apply IH. repeat split; assumption.
Qed.

Theorem run_mods_is_the_chain ms : forall c raw v,
  chain ms c raw (ncalls c) = Some v -> snd (run_mods U ms c raw) = v.
Proof.
  induction ms as [|m ms IH]; intros c raw v H; [inversion H; reflexivity|].
  cbn [chain] in H. cbn [run_mods].
  destruct (builtin_mod (m_id m)) eqn:Eb; [discriminate|].
  destruct (u_mod U (m_id m)) as [f|] eqn:Ef; [|discriminate].
  destruct (collect_args_exact (m_arg m) c []) as [A1 (F1 & F2 & F3 & F4 & F5 & F6 & F7)].
  destruct (collect_args c (m_arg m) []) as [c1 la]. cbn [fst snd] in *.
  cbn [rev app] in A1. subst la.
  cbv zeta. unfold log_call.
  change (ncalls (w_bufX c1 raw)) with (ncalls c1).
  change (deref (w_ncalls (w_trace (w_bufX c1 raw) _) _) raw) with (deref (w_bufX c1 raw) raw).
  assert (D : deref (w_bufX c1 raw) raw = deref c raw) by (unfold deref; cbn [bufLC w_bufX]; rewrite F3; reflexivity).
  rewrite D, F7.
  destruct (f (ncalls c) (deref c raw) (map (arg_value c) (m_arg m))) as [v'|x] eqn:Fr; [|discriminate].
  cbn [bufX w_bufX w_cerr].
  match goal with |- snd (run_mods U ms ?cc ?vv) = v => apply (IH cc vv v) end.
  cbn [ncalls w_cerr w_bufX w_ncalls].
  rewrite <- H. apply chain_stable. repeat split; cbn; assumption.
Qed.

End CHAIN.
