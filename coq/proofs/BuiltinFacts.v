(* BuiltinFacts.v -- the model's tables of built-in modifiers and getters are
   the registrations the package's init() makes (regenerated from init.go on
   every run): every registered name and alias is bound, in the model, to the
   model of the Go function it is registered with, and the model knows no
   built-in name that init() does not register. *)
From Coq Require Import List String Bool NArith.
From Dec Require Import Bytes Strconv Crc Values Tree Interp.
From Dec.generated Require Import Builtins.
Import ListNotations.

Definition mod_of_go (s : string) : option bmod :=
  if String.eqb s "modDefault" then Some BDefault
  else if String.eqb s "modIfThen" then Some BIfThen
  else if String.eqb s "modIfThenElse" then Some BIfThenElse
  else if String.eqb s "func" then Some BNop
  else None.

Definition get_of_go (s : string) : option bget :=
  if String.eqb s "getterCrc32" then Some GCrc32
  else if String.eqb s "getterAtoi" then Some GAtoi
  else if String.eqb s "getterAtou" then Some GAtou
  else if String.eqb s "getterAtof" then Some GAtof
  else if String.eqb s "getterAtob" then Some GAtob
  else if String.eqb s "getterItoa" then Some GItoa
  else if String.eqb s "getterUtoa" then Some GUtoa
  else None.

Definition bmod_eqb (a b : option bmod) : bool :=
  match a, b with
  | Some BDefault, Some BDefault | Some BIfThen, Some BIfThen | Some BIfThenElse, Some BIfThenElse | Some BNop, Some BNop | None, None => true
  | _, _ => false
  end.
Definition bget_eqb (a b : option bget) : bool :=
  match a, b with
  | Some GCrc32, Some GCrc32 | Some GAtoi, Some GAtoi | Some GAtou, Some GAtou | Some GAtof, Some GAtof
  | Some GAtob, Some GAtob | Some GItoa, Some GItoa | Some GUtoa, Some GUtoa | None, None => true
  | _, _ => false
  end.

Definition empty_b (b : bytes) : bool := match b with [] => true | _ => false end.

(* one registration agrees with the model *)
Definition reg_ok (r : string * bytes * bytes * string) : bool :=
  let '(kind, name, alias, fn) := r in
  if String.eqb kind "ModFn" then
    bmod_eqb (builtin_mod name) (mod_of_go fn) && (empty_b alias || bmod_eqb (builtin_mod alias) (mod_of_go fn))
    && match mod_of_go fn with Some _ => true | None => false end
  else if String.eqb kind "GetterFn" then
    (* appendTestHistory is test scaffolding outside the model: the model must not know it *)
    bget_eqb (builtin_getter name) (get_of_go fn) && (empty_b alias || bget_eqb (builtin_getter alias) (get_of_go fn))
  else true.

Lemma registrations_agree_with_model : forallb reg_ok go_registrations = true.
Proof. vm_compute. reflexivity. Qed.

Definition registered (kind : string) (name : bytes) : bool :=
  existsb (fun r => let '(k, n, a, _) := r in String.eqb k kind && (bytes_eqb name n || (negb (empty_b a) && bytes_eqb name a))) go_registrations.

(* the model knows no modifier that init() does not register *)
Lemma model_mods_are_registered name b : builtin_mod name = Some b -> registered "ModFn" name = true.
Proof.
  unfold builtin_mod. intro H.
  repeat match type of H with
  | (if ?x || ?y then _ else _) = _ =>
      let E1 := fresh "E" in let E2 := fresh "E" in
      destruct x eqn:E1; [apply bytes_eqb_eq in E1; subst name; vm_compute; reflexivity|];
      destruct y eqn:E2; [apply bytes_eqb_eq in E2; subst name; vm_compute; reflexivity|]; cbn [orb] in H
  | (if ?x then _ else _) = _ =>
      let E1 := fresh "E" in
      destruct x eqn:E1; [apply bytes_eqb_eq in E1; subst name; vm_compute; reflexivity|]
  end.
  discriminate.
Qed.

Lemma model_getters_are_registered name g : builtin_getter name = Some g -> registered "GetterFn" name = true.
Proof.
  unfold builtin_getter. intro H.
  repeat match type of H with
  | (if ?x || ?y then _ else _) = _ =>
      let E1 := fresh "E" in let E2 := fresh "E" in
      destruct x eqn:E1; [apply bytes_eqb_eq in E1; subst name; vm_compute; reflexivity|];
      destruct y eqn:E2; [apply bytes_eqb_eq in E2; subst name; vm_compute; reflexivity|]; cbn [orb] in H
  | (if ?x then _ else _) = _ =>
      let E1 := fresh "E" in
      destruct x eqn:E1; [apply bytes_eqb_eq in E1; subst name; vm_compute; reflexivity|]
  end.
  discriminate.
Qed.
