(* FuelFree.v -- where the out-of-fuel error can come from: nowhere but the
   fuel.  With user functions that do not forge it, a program without counter
   loops never reports it once the fuel exceeds the nesting depth of its tree:
   range loops always terminate (C16). *)
From Coq Require Import List NArith ZArith Bool Lia String.
From Dec Require Import Bytes Strconv Crc Values Tree Interp.
From Dec.proofs Require Import InterpFacts InterpFacts2 InterpFacts3 RuleFacts FollowFuel.
Import ListNotations.

Local Arguments ctx_set : simpl never.
Local Arguments oresolve : simpl never.
Local Arguments oupdate : simpl never.
Local Arguments oloop : simpl never.
Local Arguments assign : simpl never.
Local Arguments deref : simpl never.
Local Arguments x2bytes : simpl never.
Local Arguments set_var : simpl never.
Local Arguments find_var : simpl never.
Local Arguments split_path : simpl never.
Local Arguments format_int : simpl never.
Local Arguments parse_int0 : simpl never.
Local Arguments parse_uint0 : simpl never.
Local Arguments parse_int10 : simpl never.
Local Arguments parse_uint10 : simpl never.
Local Arguments parse_bool : simpl never.
Local Arguments jget : simpl never.
Local Arguments iface2int : simpl never.
Local Arguments cmp_by : simpl never.
Local Arguments dec_cmp : simpl never.
Local Arguments is_plain_dec : simpl never.
Local Arguments is_float_re : simpl never.
Local Arguments crc32_ieee : simpl never.
Local Arguments norm_dec : simpl never.
Local Arguments coalesce : simpl never.

(* the error channel does not hold the out-of-fuel error *)
Definition cl (c : ctx) : Prop := cerr c <> Some EFuel.
Definition cle (e : option err) : Prop := e <> Some EFuel.

Lemma cl_same c c' : cerr c' = cerr c -> cl c -> cl c'.
Proof. unfold cl. intros ->. auto. Qed.

Ltac leaf_destruct :=
  match goal with
  | |- context [match ?x with _ => _ end] =>
      lazymatch x with
      | context [match _ with _ => _ end] => fail
      | _ => destruct x
      end
  end.

Ltac cl_done := unfold cl, cle in *; cbn [cerr fst snd w_cerr w_bufX w_bufBl w_store w_vars w_brkD w_bufLC w_lenBB w_trace w_ncalls] in *;
  first [assumption | discriminate | congruence].

Lemma cl_ctx_cmp c p o r : cl c -> cl (fst (ctx_cmp c p o r)).
Proof.
  intro H. unfold ctx_cmp, ins_compare, static_compare, vector_compare, obj_compare, field_compare, cmp_float_text.
  repeat leaf_destruct; cl_done.
Qed.

Lemma cl_ctx_get c p s : cl c -> cl (fst (ctx_get c p s)).
Proof.
  intro H. unfold ctx_get, ins_getto.
  repeat leaf_destruct; cl_done.
Qed.

Lemma cl_collect_args l : forall c acc, cl c -> cl (fst (collect_args c l acc)).
Proof.
  induction l as [|a l IH]; intros c acc H; cbn [collect_args]; [exact H|].
  destruct (a_static a); [apply IH; exact H|].
  pose proof (cl_ctx_get c (a_val a) (a_subset a) H) as G.
  destruct (ctx_get c (a_val a) (a_subset a)) as [c1 v]. apply IH. exact G.
Qed.

Lemma cl_obj_setwb c v x p : cl c -> cl (fst (obj_setwb c v x p)) /\ cle (snd (obj_setwb c v x p)).
Proof.
  intro H. unfold obj_setwb. repeat leaf_destruct; split; cl_done.
Qed.

Lemma cl_ctx_set_path U c p x i : cl c -> cl (fst (ctx_set_path U c p x i)) /\ cle (snd (ctx_set_path U c p x i)).
Proof.
  intro H. unfold ctx_set_path.
  destruct p as [|p0 p']; [split; cl_done|].
  destruct (vars c) as [|v0 vs]; [split; cl_done|].
  destruct (split_path (p0 :: p')) as [|k rest]; [split; cl_done|].
  destruct (is_ctx_name k).
  - repeat leaf_destruct; split; cl_done.
  - destruct (find_var (v0 :: vs) k) as [[v ik]|]; [|split; cl_done].
    destruct ik; try (split; cl_done).
    destruct (cl_obj_setwb (w_bufX c x) v x rest H) as [A B].
    destruct (obj_setwb (w_bufX c x) v x rest) as [c1 e1]. cbn [fst snd] in *. split; cl_done.
Qed.

Lemma cl_mod_default c v l : cl c -> cl (fst (fst (mod_default c v l))) /\ cle (snd (mod_default c v l)).
Proof. intro H. unfold mod_default. repeat leaf_destruct; split; cl_done. Qed.
Lemma cl_mod_ifthen c v l : cl c -> cl (fst (fst (mod_ifthen c v l))) /\ cle (snd (mod_ifthen c v l)).
Proof. intro H. unfold mod_ifthen, own_arg. repeat leaf_destruct; split; cl_done. Qed.
Lemma cl_mod_ifthenelse c v l : cl c -> cl (fst (fst (mod_ifthenelse c v l))) /\ cle (snd (mod_ifthenelse c v l)).
Proof. intro H. unfold mod_ifthenelse, own_arg. repeat leaf_destruct; split; cl_done. Qed.

Lemma cl_run_bget c g l : cl c -> cl (fst (fst (run_bget c g l))) /\ cle (snd (run_bget c g l)).
Proof. intro H. unfold run_bget. repeat leaf_destruct; split; cl_done. Qed.

Lemma cl_cmp_dynamic c l o r : cl c -> cl (fst (fst (cmp_dynamic c l o r))) /\ cle (snd (cmp_dynamic c l o r)).
Proof.
  intro H. unfold cmp_dynamic.
  pose proof (cl_ctx_get c r [] H) as G. destruct (ctx_get c r []) as [c1 v]. cbn [fst] in G.
  destruct (cerr c1) eqn:E; [split; cl_done|].
  destruct (x2bytes c1 (bufX c1)); [|split; cl_done].
  pose proof (cl_ctx_cmp c1 l o b G) as G2. destruct (ctx_cmp c1 l o b) as [c2 ok]. split; cl_done.
Qed.

Lemma cl_node_cmp c n : cl c -> cl (fst (fst (node_cmp c n))) /\ cle (snd (node_cmp c n)).
Proof.
  intro H. unfold node_cmp.
  destruct (condStaticL n && condStaticR n); [split; cl_done|].
  destruct (condStaticR n).
  { pose proof (cl_ctx_cmp c (condL n) (condOp n) (condR n) H) as G. destruct (ctx_cmp c (condL n) (condOp n) (condR n)). split; cl_done. }
  destruct (condStaticL n).
  { pose proof (cl_ctx_cmp c (condR n) (op_swap (condOp n)) (condL n) H) as G. destruct (ctx_cmp c (condR n) (op_swap (condOp n)) (condL n)). split; cl_done. }
  apply cl_cmp_dynamic. exact H.
Qed.

Lemma cl_cloop_range c st s : cl c -> cl (fst (cloop_range c st s)).
Proof.
  intro H. unfold cloop_range.
  destruct st; [repeat leaf_destruct; cl_done|].
  pose proof (cl_ctx_get c s [] H) as G. destruct (ctx_get c s []) as [c1 v]. cbn [fst] in G.
  repeat leaf_destruct; cl_done.
Qed.

Lemma cl_log_call c k n v : cl c -> cl (fst (log_call c k n v)).
Proof. intro H. unfold log_call. cl_done. Qed.

Lemma cl_dec_brk c : cl c -> cl (dec_brk c).
Proof. unfold dec_brk. destruct (brkD c); auto. Qed.

Lemma cl_set_key n c i : cl c -> cl (set_key n c i).
Proof. unfold cl. rewrite cerr_set_key. auto. Qed.

Lemma cl_ctx_set c k v i : cl c -> cl (ctx_set c k v i).
Proof. apply cl_same. reflexivity. Qed.

(* user functions do not forge the out-of-fuel error *)
Definition fair (U : ufuns) : Prop :=
  (forall name fn n a, u_cb U name = Some fn -> fn n a <> Some EFuel) /\
  (forall name fn n a, u_get U name = Some fn -> fn n a <> inr EFuel) /\
  (forall name fn n v a, u_mod U name = Some fn -> fn n v a <> inr EFuel) /\
  (forall name fn n a, u_cond U name = Some fn -> snd (fn n a) <> Some EFuel).

Section WITH_U.
Variable U : ufuns.
Hypothesis HU : fair U.

Lemma cl_call_cond c name al : cl c -> cl (fst (call_cond U c name al)).
Proof.
  intro H. unfold call_cond. destruct (u_cond U name) as [fn|] eqn:Eu; [|exact H].
  pose proof (cl_collect_args al c [] H) as G. destruct (collect_args c al []) as [c1 a]. cbn [fst] in G.
  match goal with |- context [log_call c1 ?k name a] => pose proof (cl_log_call c1 k name a G) as L; destruct (log_call c1 k name a) as [c2 n] end.
  cbn [fst] in L. destruct HU as (_ & _ & _ & Hc). pose proof (Hc name fn n a Eu) as Q.
  destruct (fn n a) as [b e]. cbn [snd] in Q. destruct e; cl_done.
Qed.

Lemma cl_run_mods ms : forall c raw, cl c -> cl (fst (run_mods U ms c raw)).
Proof.
  induction ms as [|m ms IH]; intros c raw H; cbn [run_mods]; [exact H|].
  pose proof (cl_collect_args (m_arg m) c [] H) as G. destruct (collect_args c (m_arg m) []) as [c1 a]. cbn [fst] in G.
  assert (V : forall X : ctx * option val * option err, cle (snd X) ->
              cl (fst (let '(c0, res, e) := X in
                       let c2 := match res with Some v => w_bufX c0 v | None => c0 end in
                       let c3 := w_cerr c2 e in
                       match e with Some _ => (c3, raw) | None => run_mods U ms c3 (bufX c3) end))).
  { intros [[c0 res] e] Q. cbn [snd] in Q. destruct e as [x|].
    - cbn [fst]. cl_done.
    - apply IH. cl_done. }
  apply V.
  destruct (builtin_mod (m_id m)) as [[| | |]|].
  - apply cl_mod_default. exact G.
  - apply cl_mod_ifthen. exact G.
  - apply cl_mod_ifthenelse. exact G.
  - cl_done.
  - destruct (u_mod U (m_id m)) as [fn|] eqn:Eu; [|cl_done].
    match goal with |- context [log_call ?cc ?k (m_id m) ?aa] => destruct (log_call cc k (m_id m) aa) as [c2 n] end.
    destruct HU as (_ & _ & Hm & _). pose proof (Hm (m_id m) fn n (deref c2 raw) a Eu) as Q.
    destruct (fn n (deref c2 raw) a); cbn [snd]; unfold cle; congruence.
Qed.

Section DRV.
Variable fr : node -> ctx -> ctx * option err.
Variable P : node -> Prop.
Hypothesis Hfr : forall n c, P n -> cl c -> cl (fst (fr n c)) /\ cle (snd (fr n c)).

Lemma rules_lz_cl l : Forall P l -> forall c lz, cl c ->
  cl (fst (rules_lz fr l c lz)) /\ cle (snd (rules_lz fr l c lz)).
Proof.
  induction 1 as [|n l Hn Hl IH]; intros c lz H; cbn [rules_lz].
  - split; [exact H|]. destruct lz; unfold cle; cbn; discriminate.
  - destruct (Hfr n c Hn H) as [A B]. destruct (fr n c) as [c1 e1]. cbn [fst snd] in *.
    destruct e1 as [[]|]; try (split; cl_done); try (apply IH; exact A).
    destruct lz; split; cl_done.
Qed.

Lemma body_cl l : Forall P l -> forall c lz, cl c ->
  cl (fst (body fr l c lz)) /\ snd (body fr l c lz) <> BFail EFuel.
Proof.
  induction 1 as [|n l Hn Hl IH]; intros c lz H; cbn [body].
  - split; [exact H|]. destruct lz; cbn; discriminate.
  - destruct (Hfr n c Hn H) as [A B]. destruct (fr n c) as [c1 e1]. cbn [fst snd] in *.
    destruct e1 as [[]|]; try (apply IH; exact A); try (split; [exact A|cbn; try discriminate]).
    + destruct lz; discriminate.
    + exfalso. apply B. reflexivity.
Qed.

Lemma iterate_cl n c brk : Forall P (child n) -> cl c -> cl (fst (fst (iterate fr n c brk))).
Proof.
  intros Hc H. unfold iterate. destruct brk; [exact H|].
  destruct (negb (Nat.eqb (brkD c) 0)); [apply cl_dec_brk; exact H|].
  destruct (body_cl (child n) Hc c false H) as [A B]. destruct (body fr (child n) c false) as [c1 br]. cbn [fst snd] in *.
  destruct br; cbn [fst]; try (apply cl_dec_brk; exact A); try exact A.
  - destruct (negb (Nat.eqb (brkD c1) 0)); [apply cl_dec_brk|]; exact A.
  - unfold cl. cbn. congruence.
Qed.

Lemma vloop_cl n xs : Forall P (child n) -> forall i c brk, cl c -> cl (vloop fr n xs i c brk).
Proof.
  intro Hc. induction xs as [|x xs IH]; intros i c brk H; cbn [vloop]; [exact H|].
  pose proof (iterate_cl n (ctx_set (set_key n c i) (loopVal n) (VNode x) InsVector) brk Hc
                (cl_ctx_set _ _ _ _ (cl_set_key n c i H))) as A.
  destruct (iterate fr n (ctx_set (set_key n c i) (loopVal n) (VNode x) InsVector) brk) as [[c1 b1] s1].
  apply IH. exact A.
Qed.

Lemma oloop_run_cl n oid sp cnt : Forall P (child n) -> forall i c brk, cl c -> cl (oloop_run fr n oid sp cnt i c brk).
Proof.
  intro Hc. induction cnt as [|cnt IH]; intros i c brk H; cbn [oloop_run]; [exact H|].
  pose proof (iterate_cl n (ctx_set (set_key n c i) (loopVal n) (VObj oid (sp ++ [format_int (Z.of_nat i)])) InsObj) brk Hc
                (cl_ctx_set _ _ _ _ (cl_set_key n c i H))) as A.
  destruct (iterate fr n (ctx_set (set_key n c i) (loopVal n) (VObj oid (sp ++ [format_int (Z.of_nat i)])) InsObj) brk) as [[c1 b1] s1].
  cbn [fst] in A. destruct s1; [exact A|]. apply IH. exact A.
Qed.

Lemma cl_key_slot n c : cl c -> cl (key_slot n c).
Proof. unfold key_slot. destruct (loopKey n); auto. Qed.

Lemma rloop_cl n c : Forall P (child n) -> cl c -> cl (rloop fr n c).
Proof.
  intros Hc H. unfold rloop.
  assert (H0 : cl (w_cerr c None)) by (unfold cl; cbn; discriminate).
  destruct (split_path (loopSrc n)) as [|k rest]; [exact H|].
  destruct (find_var (vars c) k) as [[v i]|]; [|exact H].
  destruct i; try exact H0.
  - destruct v; try exact H0.
    destruct (jget j rest) as [| | | | |l|l]; try exact H0; try (unfold cl; cbn; discriminate);
      (destruct l; [unfold cl; cbn; discriminate|apply cl_key_slot, vloop_cl; [exact Hc|exact H0]]).
  - destruct v; try exact H0.
    destruct (nth_error (store (w_cerr c None)) oid) as [ob|]; [|exact H0].
    destruct (oloop ofuel ob (prefix ++ rest)) as [[sp cnt]|]; [|exact H0].
    destruct cnt; [|apply cl_key_slot]; (apply oloop_run_cl; [exact Hc|exact H0]).
  - unfold cl; cbn; discriminate.
Qed.

Lemma branch_cl n c ok e0 : Forall P (child n) -> cl c -> cle e0 ->
  cl (fst (branch fr n c ok e0)) /\ cle (snd (branch fr n c ok e0)).
Proof.
  intros Hc H He. unfold branch. destruct ok.
  - destruct (child n) as [|ch l]; [split; assumption|]. inversion Hc; subst. apply Hfr; assumption.
  - destruct (child n) as [|x [|ch l]]; try (split; assumption).
    inversion Hc as [|? ? _ Hc']; subst. inversion Hc'; subst. apply Hfr; assumption.
Qed.

Lemma cl_classic_verdict sw ch c ok : cl c ->
  cl (fst (fst (fst (classic_verdict sw ch c ok)))) /\ cle (snd (fst (classic_verdict sw ch c ok))).
Proof.
  intro H. unfold classic_verdict.
  destruct (Z.eqb (typ ch) typeCase); [|split; cl_done].
  destruct (caseStaticL ch).
  - pose proof (cl_ctx_cmp c (switchArg sw) opEq (trimq (caseL ch)) H) as G.
    destruct (ctx_cmp c (switchArg sw) opEq (trimq (caseL ch))). split; cl_done.
  - pose proof (cl_ctx_get c (caseL ch) [] H) as G. destruct (ctx_get c (caseL ch) []) as [c1 v]. cbn [fst] in G.
    destruct (cerr c1) eqn:E; [split; cl_done|].
    destruct (x2bytes c1 (bufX c1)); [|split; cl_done].
    pose proof (cl_ctx_cmp c1 (switchArg sw) opEq b G) as G2. destruct (ctx_cmp c1 (switchArg sw) opEq b). split; cl_done.
Qed.

Lemma switch_classic_cl sw l : Forall P l -> forall c ok, cl c ->
  cl (fst (fst (fst (switch_classic fr sw l c ok)))) /\ cle (snd (fst (switch_classic fr sw l c ok))).
Proof.
  induction 1 as [|ch l Hn Hl IH]; intros c ok H; [cbn [switch_classic]; split; cl_done|].
  rewrite switch_classic_cons.
  destruct (cl_classic_verdict sw ch c ok H) as [A B].
  destruct (classic_verdict sw ch c ok) as [[[c2 ok2] e2] ea2]. cbn [fst snd] in A, B.
  destruct ea2; [split; cl_done|].
  destruct ok2; [|apply IH; exact A].
  destruct (Hfr ch c2 Hn A) as [A2 B2]. destruct (fr ch c2) as [c3 e3]. split; cl_done.
Qed.

Lemma cl_nocond_verdict ch c ok : cl c ->
  cl (fst (fst (fst (nocond_verdict U ch c ok)))) /\ cle (snd (fst (nocond_verdict U ch c ok))).
Proof.
  intro H. unfold nocond_verdict.
  destruct (caseHlp ch) as [|h hs].
  - destruct (caseStaticL ch && caseStaticR ch); [split; cl_done|].
    destruct (caseStaticR ch).
    { pose proof (cl_ctx_cmp c (caseL ch) (caseOp ch) (trimq (caseR ch)) H) as G.
      destruct (ctx_cmp c (caseL ch) (caseOp ch) (trimq (caseR ch))). split; cl_done. }
    destruct (caseStaticL ch).
    { pose proof (cl_ctx_cmp c (caseR ch) (op_swap (caseOp ch)) (trimq (caseL ch)) H) as G.
      destruct (ctx_cmp c (caseR ch) (op_swap (caseOp ch)) (trimq (caseL ch))). split; cl_done. }
    pose proof (cl_ctx_get c (caseR ch) [] H) as G. destruct (ctx_get c (caseR ch) []) as [c1 v]. cbn [fst] in G.
    destruct (cerr c1) eqn:E; [split; cl_done|].
    destruct (x2bytes c1 (bufX c1)); [|split; cl_done].
    pose proof (cl_ctx_cmp c1 (caseL ch) (caseOp ch) b G) as G2. destruct (ctx_cmp c1 (caseL ch) (caseOp ch) b). split; cl_done.
  - pose proof (cl_call_cond c (h :: hs) (caseHlpArg ch) H) as G.
    destruct (call_cond U c (h :: hs) (caseHlpArg ch)) as [c1 [b|]]; split; cl_done.
Qed.

Lemma switch_nocond_cl l : Forall P l -> forall c ok, cl c ->
  cl (fst (fst (fst (switch_nocond U fr l c ok)))) /\ cle (snd (fst (switch_nocond U fr l c ok))).
Proof.
  induction 1 as [|ch l Hn Hl IH]; intros c ok H; [cbn [switch_nocond]; split; cl_done|].
  rewrite switch_nocond_cons.
  destruct (Z.eqb (typ ch) typeCase); [|apply IH; exact H].
  destruct (cl_nocond_verdict ch c ok H) as [A B].
  destruct (nocond_verdict U ch c ok) as [[[c2 ok2] e2] ea2]. cbn [fst snd] in A, B.
  destruct ea2; [split; cl_done|].
  destruct (cerr c2) eqn:E; [split; cl_done|].
  destruct ok2; [|apply IH; exact A].
  destruct (Hfr ch c2 Hn A) as [A2 B2]. destruct (fr ch c2) as [c3 e3]. split; cl_done.
Qed.

Definition valid_stepb (o : Z) : bool := Z.eqb o opInc || Z.eqb o opDec.

(* a counter loop runs out of fuel only if Go's loop makes at least [k] iterations *)
Lemma cloop_run_cl k : forall n idx v lim c,
  valid_stepb (loopCntOp n) = true ->
  List.length (go_seq k (loopCondOp n) (loopCntOp n) v lim) < k ->
  Forall P (child n) -> cl c -> cl (cloop_run fr k n idx v lim c).
Proof.
  induction k as [|k IH]; intros n idx v lim c Hs Hlen Hc H; [cbn in Hlen; lia|].
  cbn [cloop_run]. cbn [go_seq] in Hlen.
  destruct (loop_allows (loopCondOp n) v lim) as [al|].
  2:{ cbn [andb negb]. apply cl_dec_brk. cl_done. }
  destruct al; cbn [andb]; [|cbn [negb]; apply cl_dec_brk; exact H].
  destruct (Nat.eqb (brkD c) 0); cbn [negb]; [|apply cl_dec_brk; exact H].
  destruct (body_cl (child n) Hc (ctx_set c (loopCnt n) (VLC idx) InsStatic) false (cl_ctx_set _ _ _ _ H)) as [A B].
  destruct (body fr (child n) (ctx_set c (loopCnt n) (VLC idx) InsStatic) false) as [c1 br]. cbn [fst snd] in A, B.
  assert (Hv : exists v', step64 (loopCntOp n) v = Some v').
  { unfold valid_stepb in Hs. unfold step64. destruct (Z.eqb (loopCntOp n) opInc); [eauto|]. destruct (Z.eqb (loopCntOp n) opDec); [eauto|discriminate]. }
  destruct Hv as [v' Ev]. rewrite Ev in Hlen |- *. cbn [List.length] in Hlen.
  destruct br; try (apply cl_dec_brk; apply cl_ctx_set; cl_done);
    try (apply IH; [exact Hs|lia|exact Hc|apply cl_ctx_set; cl_done]).
  unfold cl. cbn. congruence.
Qed.

Definition cloop_ok (k : nat) (n : node) : bool :=
  valid_stepb (loopCntOp n) && loopCntStatic n && loopLimStatic n &&
  match parse_int0 (loopCntInit n), parse_int0 (loopLim n) with
  | inl v, inl lim => Nat.ltb (List.length (go_seq k (loopCondOp n) (loopCntOp n) v lim)) k
  | _, _ => true
  end.

Lemma cloop_cl k n c : cloop_ok k n = true -> Forall P (child n) -> cl c -> cl (cloop fr k n c).
Proof.
  unfold cloop_ok. intros Hok Hc H.
  apply andb_true_iff in Hok. destruct Hok as [Hok Hlen].
  apply andb_true_iff in Hok. destruct Hok as [Hok Hl].
  apply andb_true_iff in Hok. destruct Hok as [Hs Hi].
  unfold cloop, cloop_range. rewrite Hi, Hl.
  destruct (parse_int0 (loopCntInit n)) as [v|e]; cbn [cerr w_cerr]; [|cl_done].
  destruct (parse_int0 (loopLim n)) as [lim|e]; cbn [cerr w_cerr]; [|cl_done].
  apply cloop_run_cl; [exact Hs|apply Nat.ltb_lt; exact Hlen|exact Hc|cl_done].
Qed.

End DRV.

Local Arguments rloop : simpl never.
Local Arguments cloop : simpl never.
Local Arguments rules : simpl never.
Local Arguments switch_classic : simpl never.
Local Arguments switch_nocond : simpl never.
Local Arguments run_mods : simpl never.
Local Arguments ctx_set_path : simpl never.
Local Arguments collect_args : simpl never.
Local Arguments node_cmp : simpl never.
Local Arguments call_cond : simpl never.
Local Arguments run_bget : simpl never.
Local Arguments branch : simpl never.
Local Arguments log_call : simpl never.
Local Arguments ctx_get : simpl never.

(* [fitb f n]: fuel [f] is enough for the tree [n] -- it exceeds the nesting
   depth, and every counter loop has literal bounds and a Go iteration count
   below the fuel it is run with *)
Fixpoint fitb (f : nat) (n : node) : bool :=
  match f with
  | O => false
  | S f' => (if Z.eqb (typ n) typeLoopCount then cloop_ok f' n else true) && forallb (fitb f') (child n)
  end.
Definition fit (f : nat) (n : node) : Prop := fitb f n = true.

Lemma fit_children f n : fit (S f) n ->
  Forall (fit f) (child n) /\ (Z.eqb (typ n) typeLoopCount = true -> cloop_ok f n = true).
Proof.
  unfold fit. cbn [fitb]. intro H. apply andb_true_iff in H. destruct H as [Hl Hc]. split.
  - apply Forall_forall. intros ch Hin. rewrite forallb_forall in Hc. apply Hc. exact Hin.
  - intro Et. rewrite Et in Hl. exact Hl.
Qed.

(* nesting depth of a tree, and "contains no counter loop": enough for [fit] *)
Fixpoint height (n : node) : nat := S (list_max (map height (child n))).
Fixpoint no_cloop (n : node) : bool := negb (Z.eqb (typ n) typeLoopCount) && forallb no_cloop (child n).

Lemma height_unfold n : height n = S (list_max (map height (child n))).
Proof. destruct n; reflexivity. Qed.
Lemma no_cloop_unfold n : no_cloop n = negb (Z.eqb (typ n) typeLoopCount) && forallb no_cloop (child n).
Proof. destruct n; reflexivity. Qed.

Lemma fit_of_height f : forall n, height n <= f -> no_cloop n = true -> fit f n.
Proof.
  induction f as [|f IH]; intros n Hh Hn; rewrite height_unfold in Hh; [lia|].
  rewrite no_cloop_unfold in Hn. apply andb_true_iff in Hn. destruct Hn as [Ht Hc].
  unfold fit. cbn [fitb]. apply andb_true_iff. split.
  - destruct (Z.eqb (typ n) typeLoopCount); [discriminate|reflexivity].
  - apply forallb_forall. intros ch Hin. apply IH.
    + assert (L : list_max (map height (child n)) <= f) by lia.
      rewrite list_max_le in L. rewrite Forall_forall in L. apply L. apply in_map. exact Hin.
    + rewrite forallb_forall in Hc. apply Hc. exact Hin.
Qed.

Lemma first_default_in l d : first_default l = Some d -> In d l.
Proof.
  induction l as [|ch l IH]; cbn [first_default]; [discriminate|].
  destruct (Z.eqb (typ ch) typeDefault); [intro H; inversion H; left; reflexivity|intro H; right; apply IH; exact H].
Qed.

Lemma cl_restore c p : cl c -> cl (if Nat.ltb (brkD c) p then w_brkD c p else c).
Proof. intro H. destruct (Nat.ltb (brkD c) p); exact H. Qed.

(* the induction: with enough fuel in the sense of [fit], a tree never reports
   the out-of-fuel error and never leaves it in ctx.Err *)
Theorem follow_fuel_free f : forall r c, fit f r -> cl c ->
  cl (fst (follow U f r c)) /\ cle (snd (follow U f r c)).
Proof.
  induction f as [|f IH]; intros r c Hfit H.
  { unfold fit in Hfit. cbn in Hfit. discriminate. }
  destruct (fit_children f r Hfit) as [Hch Hnc].
  cbn [follow]. cbv zeta.
  destruct (Z.eqb (typ r) typeLoopRange).
  { cbn [fst snd].
    assert (A : cl (rloop (follow U f) r (w_brkD c 0))) by (apply (rloop_cl _ (fit f) IH); [exact Hch|exact H]).
    split; [apply cl_restore; exact A|]. unfold cle. rewrite cerr_restore. exact A. }
  destruct (Z.eqb (typ r) typeLoopCount).
  { cbn [fst snd].
    assert (A : cl (cloop (follow U f) f r (w_brkD c 0))) by (apply (cloop_cl _ (fit f) IH); [apply Hnc; reflexivity|exact Hch|exact H]).
    split; [apply cl_restore; exact A|]. unfold cle. rewrite cerr_restore. exact A. }
  destruct (Z.eqb (typ r) typeBreak); [split; cl_done|].
  destruct (Z.eqb (typ r) typeLBreak); [split; cl_done|].
  destruct (Z.eqb (typ r) typeContinue); [split; cl_done|].
  destruct (Z.eqb (typ r) typeCondOK).
  { destruct (condHlp r) as [|h hs]; [split; cl_done|].
    destruct (u_condok U (h :: hs)) as [fn|]; [|split; cl_done].
    pose proof (cl_collect_args (condHlpArg r) c [] H) as G. destruct (collect_args c (condHlpArg r) []) as [c1 la]. cbn [fst] in G.
    pose proof (cl_log_call c1 (bs "condok") (h :: hs) la G) as L. destruct (log_call c1 (bs "condok") (h :: hs) la) as [c2 n]. cbn [fst] in L.
    destruct (fn n la) as [v okv].
    destruct (u_ins U match condIns r with [] => bs "static" | x :: l => x :: l end) as [i|]; [|split; cl_done].
    assert (E4 : cl (ctx_set (ctx_set (w_bufBl (w_bufX c2 v) okv) (condOKL r) v i) (condOKR r) (VBool okv) InsStatic)).
    { apply cl_ctx_set, cl_ctx_set. cl_done. }
    destruct (condR r) as [|cr crs].
    - apply (branch_cl _ (fit f) IH); [exact Hch|exact E4|unfold cle; discriminate].
    - destruct (cl_node_cmp _ r E4) as [N1 N2].
      destruct (node_cmp (ctx_set (ctx_set (w_bufBl (w_bufX c2 v) okv) (condOKL r) v i) (condOKR r) (VBool okv) InsStatic) r) as [[c3 o3] e3].
      cbn [fst snd] in N1, N2. apply (branch_cl _ (fit f) IH); assumption. }
  destruct (Z.eqb (typ r) typeCond).
  { destruct (condHlp r) as [|h hs].
    - destruct (cl_node_cmp c r H) as [N1 N2]. destruct (node_cmp c r) as [[c1 ok1] e1]. cbn [fst snd] in N1, N2.
      destruct (cerr c1) eqn:E; [split; cl_done|].
      apply (branch_cl _ (fit f) IH); assumption.
    - destruct (Z.eqb (condLC r) lcNone); [|split; cl_done].
      pose proof (cl_call_cond c (h :: hs) (condHlpArg r) H) as G.
      destruct (call_cond U c (h :: hs) (condHlpArg r)) as [c1 [b|]]; cbn [fst] in G; [|split; cl_done].
      destruct (cerr c1) eqn:E; [split; cl_done|].
      apply (branch_cl _ (fit f) IH); [exact Hch|exact G|unfold cle; discriminate]. }
  destruct (Z.eqb (typ r) typeCondTrue || Z.eqb (typ r) typeCondFalse || Z.eqb (typ r) typeCase || Z.eqb (typ r) typeDefault).
  { apply (rules_lz_cl _ (fit f) IH); assumption. }
  destruct (Z.eqb (typ r) typeSwitch).
  { assert (V : forall X : ctx * bool * option err * bool,
                cl (fst (fst (fst X))) /\ cle (snd (fst X)) ->
                cl (fst (let '(c0, ok, e, early) := X in
                         if early then (c0, e) else if ok then (c0, e)
                         else match first_default (child r) with Some d => follow U f d c0 | None => (c0, e) end)) /\
                cle (snd (let '(c0, ok, e, early) := X in
                         if early then (c0, e) else if ok then (c0, e)
                         else match first_default (child r) with Some d => follow U f d c0 | None => (c0, e) end))).
    { intros [[[c0 ok] e] early] [A B]. cbn [fst snd] in A, B.
      destruct early; [split; assumption|]. destruct ok; [split; assumption|].
      destruct (first_default (child r)) as [d|] eqn:Ed; [|split; assumption].
      apply IH; [|exact A]. rewrite Forall_forall in Hch. apply Hch. apply first_default_in. exact Ed. }
    apply V. destruct (switchArg r).
    - apply (switch_nocond_cl _ (fit f) IH); assumption.
    - apply (switch_classic_cl _ (fit f) IH); assumption. }
  destruct (callback r).
  { pose proof (cl_collect_args (args r) c [] H) as G. destruct (collect_args c (args r) []) as [c1 la]. cbn [fst] in G.
    destruct (u_cb U (src r)) as [fn|] eqn:Eu; [|split; cl_done].
    match goal with |- context [log_call c1 ?k (src r) la] => pose proof (cl_log_call c1 k (src r) la G) as L; destruct (log_call c1 k (src r) la) as [c2 n] end.
    cbn [fst snd] in *. split; [exact L|]. destruct HU as (Hcb & _). apply (Hcb _ _ _ _ Eu). }
  destruct (getter r).
  { pose proof (cl_collect_args (args r) c [] H) as G. destruct (collect_args c (args r) []) as [c1 la]. cbn [fst] in G.
    assert (B : cl (w_bufX c1 VNil)) by cl_done.
    assert (V : forall X : ctx * option val * option err, cl (fst (fst X)) -> cle (snd X) ->
                cl (fst (let '(c0, res, e) := X in
                         let c2 := match res with Some v => w_bufX c0 v | None => c0 end in
                         match e with Some _ => (c2, e) | None => ctx_set_path U c2 (dst r) (bufX c2) (ins r) end)) /\
                cle (snd (let '(c0, res, e) := X in
                         let c2 := match res with Some v => w_bufX c0 v | None => c0 end in
                         match e with Some _ => (c2, e) | None => ctx_set_path U c2 (dst r) (bufX c2) (ins r) end))).
    { intros [[c0 res] e] A Q. cbn [fst snd] in A, Q.
      assert (A2 : cl match res with Some v => w_bufX c0 v | None => c0 end) by (destruct res; cl_done).
      destruct e; [split; cbn [fst snd]; assumption|]. apply cl_ctx_set_path. exact A2. }
    destruct (builtin_getter (src r)) as [g|].
    - apply V; apply cl_run_bget; exact B.
    - destruct (u_get U (src r)) as [fn|] eqn:Eu; [|split; cl_done].
      match goal with |- context [log_call ?cc ?k (src r) la] => pose proof (cl_log_call cc k (src r) la B) as L; destruct (log_call cc k (src r) la) as [c2 n] end.
      cbn [fst] in L. destruct HU as (_ & Hg & _). pose proof (Hg _ _ n la Eu) as Q.
      destruct (fn n la) as [v|x].
      + apply cl_ctx_set_path. cl_done.
      + split; [exact L|]. cbn [snd]. unfold cle. congruence. }
  destruct (nonempty (dst r) && static r).
  { apply cl_ctx_set_path. cl_done. }
  destruct (nonempty (dst r) && nonempty (src r) && negb (static r)); [|split; cl_done].
  pose proof (cl_ctx_get c (src r) (subset r) H) as G. destruct (ctx_get c (src r) (subset r)) as [c1 va]. cbn [fst] in G.
  destruct (cerr c1) eqn:E1; [split; cl_done|].
  pose proof (cl_run_mods (mods r) c1 va G) as M. destruct (run_mods U (mods r) c1 va) as [c2 wa]. cbn [fst] in M.
  destruct (cerr c2) eqn:E2; [split; cl_done|].
  apply cl_ctx_set_path. exact M.
Qed.

(* C16: a program whose counter loops have literal bounds returns whenever Go's
   reading of those loops is finite (range loops always are): with fuel that
   fits, the model never runs out of fuel, whatever the document, the variables
   and the (fair) user functions *)
Theorem finite_programs_terminate t c f :
  Forall (fit f) t -> cl c -> snd (decode U f t c) <> Some EFuel.
Proof.
  intros Ht H. unfold decode, rules.
  apply (rules_lz_cl (follow U f) (fit f) (follow_fuel_free f) t Ht c false H).
Qed.

(* and every larger fuel gives the same result *)
Corollary finite_programs_result_is_fuel_independent t c f f' :
  Forall (fit f) t -> cl c -> f <= f' -> decode U f' t c = decode U f t c.
Proof.
  intros Ht H Hle. destruct (decode U f t c) as [c' e] eqn:E.
  eapply decode_fuel_stable; [exact E| |exact Hle].
  pose proof (finite_programs_terminate t c f Ht H) as N. rewrite E in N. exact N.
Qed.

(* programs without counter loops: any fuel above the nesting depth fits *)
Corollary range_programs_terminate t c f :
  Forall (fun n => height n <= f /\ no_cloop n = true) t -> cl c -> snd (decode U f t c) <> Some EFuel.
Proof.
  intros Ht H. apply finite_programs_terminate; [|exact H].
  eapply Forall_impl; [|exact Ht]. intros n [A B]. apply fit_of_height; assumption.
Qed.

End WITH_U.

(* the harness's user functions are fair *)
From Dec Require Import CasesInterp.
Lemma testU_fair fk : fair (testU fk).
Proof.
  split; [|split; [|split]].
  - intros name fn n a. cbn [testU u_cb].
    destruct (bytes_eqb name (bs "probe") || bytes_eqb name (bs "ns::probe")); [|discriminate].
    intro E. inversion E; subst. destruct (fails fk n); discriminate.
  - intros name fn n a. cbn [testU u_get].
    destruct (bytes_eqb name (bs "ident")); [intro E; inversion E; subst; destruct (fails fk n); discriminate|].
    destruct (bytes_eqb name (bs "konst")); [intro E; inversion E; subst; destruct (fails fk n); discriminate|discriminate].
  - intros name fn n v a. cbn [testU u_mod].
    destruct (bytes_eqb name (bs "upper")); [intro E; inversion E; subst; destruct (fails fk n); discriminate|].
    destruct (bytes_eqb name (bs "ns::suffix") || bytes_eqb name (bs "suffix")); [intro E; inversion E; subst; destruct (fails fk n); discriminate|discriminate].
  - intros name fn n a. cbn [testU u_cond].
    destruct (bytes_eqb name (bs "isTrue")); [intro E; inversion E; subst; destruct (fails fk n); cbn [snd]; discriminate|].
    destruct (bytes_eqb name (bs "ns::eq") || bytes_eqb name (bs "eq")); [intro E; inversion E; subst; destruct (fails fk n); cbn [snd]; discriminate|discriminate].
Qed.

(* so every correspondence case of a program without counter loops that the
   harness runs with fuel above the tree's depth is decided by the model: the
   out-of-fuel outcome ("outside the model") cannot occur *)
Corollary harness_finite_programs_are_decided fk t c f :
  Forall (fit f) t -> cl c -> snd (decode (testU fk) f t c) <> Some EFuel.
Proof. apply finite_programs_terminate. apply testU_fair. Qed.
