(* CtxMap.v -- C19 at the level of histories: under any sequence of Set /
   SetStatic / SetVector / SetVectorNode (all of them [OSet] with the inspector
   they choose) and Reset calls, a context is the abstract map "name -> latest
   binding since the last Reset", and Get reads that map. *)
From Coq Require Import List NArith ZArith Bool Lia String.
From Dec Require Import Bytes Strconv Crc Values Tree Interp.
From Dec.proofs Require Import InterpFacts InterpFacts2.
Import ListNotations.

Inductive cop :=
| OSet (name : bytes) (v : val) (i : insk)     (* Set / SetStatic / SetVector / SetVectorNode *)
| OReset.

Definition apply_op (c : ctx) (o : cop) : ctx :=
  match o with
  | OSet k v i => ctx_set c k v i
  | OReset => ctx_reset c
  end.

(* the specification: a function from names to bindings *)
Definition amap := bytes -> option (val * insk).
Definition spec_op (m : amap) (o : cop) : amap :=
  match o with
  | OSet k v i => fun k' => if bytes_eqb k k' then Some (v, i) else m k'
  | OReset => fun _ => None
  end.

Definition abs (c : ctx) : amap := find_var (vars c).

Lemma abs_step c o k : abs (apply_op c o) k = spec_op (abs c) o k.
Proof.
  destruct o as [n v i|]; unfold abs; cbn [apply_op spec_op].
  - destruct (bytes_eqb n k) eqn:E.
    + apply bytes_eqb_eq in E. subst k. apply ctx_set_get_same.
    + apply ctx_set_get_other. intro X. subst k. rewrite bytes_eqb_refl in E. discriminate.
  - apply reset_unbinds.
Qed.

(* refinement: after any history the context is the abstract map the history builds *)
Theorem ctx_is_a_map ops : forall c k,
  abs (fold_left apply_op ops c) k = fold_left spec_op ops (abs c) k.
Proof.
  induction ops as [|o ops IH]; intros c k; cbn [fold_left]; [reflexivity|].
  rewrite IH. clear IH. revert k.
  assert (E : forall m1 m2 : amap, (forall k, m1 k = m2 k) -> forall k, fold_left spec_op ops m1 k = fold_left spec_op ops m2 k).
  { induction ops as [|o' ops' IH']; intros m1 m2 H k; cbn [fold_left]; [apply H|].
    apply IH'. intro k'. destruct o' as [n v i|]; cbn [spec_op]; [destruct (bytes_eqb n k'); [reflexivity|apply H]|reflexivity]. }
  apply E. intro k. apply abs_step.
Qed.

(* what the map says: the latest binding of a name since the last Reset *)
Fixpoint latest (ops : list cop) (k : bytes) (acc : option (val * insk)) : option (val * insk) :=
  match ops with
  | [] => acc
  | OSet n v i :: r => latest r k (if bytes_eqb n k then Some (v, i) else acc)
  | OReset :: r => latest r k None
  end.

Lemma spec_is_latest ops : forall m k, fold_left spec_op ops m k = latest ops k (m k).
Proof.
  induction ops as [|o ops IH]; intros m k; cbn [fold_left latest]; [reflexivity|].
  rewrite IH. destruct o as [n v i|]; reflexivity.
Qed.

(* C19: after any history of binding calls and Resets, a name resolves to its
   latest binding since the last Reset, whatever was done to other names *)
Theorem latest_binding_wins_in_every_history ops c k :
  find_var (vars (fold_left apply_op ops c)) k = latest ops k (find_var (vars c) k).
Proof. change (abs (fold_left apply_op ops c) k = latest ops k (abs c k)). rewrite ctx_is_a_map. apply spec_is_latest. Qed.

(* operations on other names do not matter *)
Corollary other_names_do_not_matter ops c k :
  Forall (fun o => match o with OSet n _ _ => n <> k | OReset => False end) ops ->
  find_var (vars (fold_left apply_op ops c)) k = find_var (vars c) k.
Proof.
  intro H. rewrite latest_binding_wins_in_every_history.
  generalize (find_var (vars c) k) as acc. induction H as [|o ops Ho Hr IH]; intro acc; cbn [latest]; [reflexivity|].
  destruct o as [n v i|]; [|destruct Ho].
  rewrite IH. destruct (bytes_eqb n k) eqn:E; [apply bytes_eqb_eq in E; contradiction|reflexivity].
Qed.

Example history_example :
  let c := fold_left apply_op [OSet (bs "a") (VInt 1) InsStatic; OSet (bs "b") (VInt 2) InsStatic; OSet (bs "a") (VInt 3) InsStatic; OReset;
                               OSet (bs "b") (VInt 4) InsStatic] (new_ctx []) in
  find_var (vars c) (bs "a") = None /\ find_var (vars c) (bs "b") = Some (VInt 4, InsStatic).
Proof. split; vm_compute; reflexivity. Qed.
