(* RegexFacts.v -- structural facts about the matcher of Regex.v, for every
   expression and every input:
     re_find_length   a match reports exactly ncap+1 groups;
     re_find_group0   group 0 is set;
     re_find_bounds   every set group (i,j) has i <= j <= length s;
     re_find_within   every set group lies inside group 0;
     re_exec_fuel     the iteration budget re_fuel is never exhausted, hence
     re_find_none     re_find = None exactly when the search failed.
   Agreement with Go's engine is not a theorem; it is tested
   (harness/retest.sh). *)
From Coq Require Import List NArith Bool Arith Lia.
From Dec Require Import Bytes Regex.
Import ListNotations.

(* ------------------------------------------------------------------ *)
(* Decoding consumes between one and four bytes.                        *)

Lemma decode_length s x w s' :
  decode s = Some (x, w, s') -> List.length s = w + List.length s' /\ 1 <= w.
Proof.
  unfold decode. destruct s as [|b0 t]; [discriminate|]. cbv zeta.
  repeat match goal with
         | |- context [if ?b then _ else _] => destruct b
         | |- context [match ?l with [] => _ | _ :: _ => _ end] => destruct l
         end;
    intro H; inversion H; subst; simpl; lia.
Qed.

Lemma same_len_false a b : same_len a b = false -> List.length a <> List.length b.
Proof.
  revert b; induction a as [|x a IH]; intros [|y b]; simpl; intro H;
    try discriminate; try lia.
  apply IH in H. lia.
Qed.

(* ------------------------------------------------------------------ *)
(* Capture invariants.                                                  *)

(* every set group of [c] lies in [lo, hi] *)
Definition caps_in (c : caps) (lo hi : nat) : Prop :=
  forall i j, In (Some (i, j)) c -> lo <= i /\ i <= j /\ j <= hi.

Lemma caps_in_weaken c lo hi hi' : hi <= hi' -> caps_in c lo hi -> caps_in c lo hi'.
Proof. intros Hle H i j Hin. specialize (H i j Hin). lia. Qed.

Lemma set_cap_length i v c : List.length (set_cap i v c) = List.length c.
Proof.
  revert i; induction c as [|x c IH]; intros [|i]; simpl; auto.
Qed.

Lemma set_cap_in i v c g : In g (set_cap i v c) -> g = Some v \/ In g c.
Proof.
  revert i; induction c as [|x c IH]; intros [|i]; simpl; auto.
  - intros [H|H]; auto.
  - intros [H|H]; auto. apply IH in H. tauto.
Qed.

Lemma set_cap_caps_in i a b c lo hi :
  lo <= a -> a <= b -> b <= hi -> caps_in c lo hi -> caps_in (set_cap i (a, b) c) lo hi.
Proof.
  intros H1 H2 H3 H x y Hin. apply set_cap_in in Hin as [E|Hin].
  - inversion E; subst. lia.
  - exact (H x y Hin).
Qed.

Lemma set_cap_0 v c : c <> [] -> nth_error (set_cap 0 v c) 0 = Some (Some v).
Proof. destruct c; simpl; congruence. Qed.

Lemma caps_in_repeat n lo hi : caps_in (repeat None n) lo hi.
Proof. intros i j Hin. apply repeat_spec in Hin. discriminate. Qed.

(* ------------------------------------------------------------------ *)
(* What a successful run tells: the continuation was entered in a state
   reachable from the initial one.                                      *)

Record step (s : bytes) (p : nat) (c : caps) (s' : bytes) (p' : nat) (c' : caps) : Prop :=
  { st_pos : p <= p';
    st_len : p' + List.length s' = p + List.length s;
    st_ncap : List.length c' = List.length c;
    st_caps : forall lo, lo <= p -> caps_in c lo p -> caps_in c' lo p' }.

Lemma step_refl s p c : step s p c s p c.
Proof. split; auto. Qed.

Lemma step_trans s p c s1 p1 c1 s2 p2 c2 :
  step s p c s1 p1 c1 -> step s1 p1 c1 s2 p2 c2 -> step s p c s2 p2 c2.
Proof.
  intros [A1 A2 A3 A4] [B1 B2 B3 B4]. split; try lia.
  intros lo Hlo H. apply B4; [lia|]. apply A4; assumption.
Qed.

Definition good (mt : matcher) : Prop :=
  forall k s p c gs, mt k s p c = MOk gs ->
    exists s' p' c', k s' p' c' = MOk gs /\ step s p c s' p' c'.

Lemma good_rune f : good (m_rune f).
Proof.
  intros k s p c gs. unfold m_rune.
  destruct (decode s) as [[[x w] s']|] eqn:D; [|discriminate].
  destruct (f x); [|discriminate]. intro H.
  apply decode_length in D as [D1 D2].
  exists s', (w + p), c. split; [exact H|]. split; try lia.
  intros lo _ Hc. eapply caps_in_weaken; [|exact Hc]. lia.
Qed.

Lemma good_id : good (fun k => k).
Proof. intros k s p c gs H. exists s, p, c. split; [exact H|apply step_refl]. Qed.

Lemma good_comp m1 m2 : good m1 -> good m2 -> good (fun k => m1 (m2 k)).
Proof.
  intros G1 G2 k s p c gs H.
  apply G1 in H as (s1 & p1 & c1 & H & S1).
  apply G2 in H as (s2 & p2 & c2 & H & S2).
  exists s2, p2, c2. split; [exact H|]. eapply step_trans; eassumption.
Qed.

Lemma good_lit rs : good (m_lit rs).
Proof.
  induction rs as [|x t IH]; simpl.
  - apply good_id.
  - apply (good_comp (m_rune (N.eqb x)) (m_lit t)); [apply good_rune|exact IH].
Qed.

Lemma good_orelse m1 (m2 : matcher) :
  good m1 -> good m2 ->
  good (fun k s p c => match m1 k s p c with MFail => m2 k s p c | x => x end).
Proof.
  intros G1 G2 k s p c gs H.
  destruct (m1 k s p c) eqn:E; try discriminate.
  - apply G2 in H. exact H.
  - rewrite <- H in *. apply G1 in E. inversion H; subst. exact E.
Qed.

Lemma good_loop body : good body -> forall n first, good (m_loop body n first).
Proof.
  intros G n. induction n as [|n IH]; intros first k s p c gs; simpl; [discriminate|].
  intro H. apply G in H as (s1 & p1 & c1 & H & S1).
  destruct (same_len s1 s).
  - destruct first; [|discriminate]. exists s1, p1, c1. auto.
  - destruct (m_loop body n false k s1 p1 c1) eqn:E; try discriminate.
    + exists s1, p1, c1. auto.
    + inversion H; subst. apply IH in E as (s2 & p2 & c2 & E & S2).
      exists s2, p2, c2. split; [exact E|]. eapply step_trans; eassumption.
Qed.

Lemma good_m fuel r : good (m fuel r).
Proof.
  induction r; simpl.
  - apply good_id.
  - intros k s p c gs H. discriminate.
  - apply good_lit.
  - apply good_rune.
  - apply good_rune.
  - apply good_rune.
  - intros k s p c gs H. destruct p; [|discriminate].
    exists s, 0, c. split; [exact H|apply step_refl].
  - intros k s p c gs H. destruct s; [|discriminate].
    exists [], p, c. split; [exact H|apply step_refl].
  - intros k s p c gs H.
    apply IHr in H as (s1 & p1 & c1 & H & S1).
    exists s1, p1, (set_cap i (p, p1) c1). split; [exact H|].
    destruct S1 as [A1 A2 A3 A4]. split; try assumption.
    + rewrite set_cap_length. exact A3.
    + intros lo Hlo Hc. apply set_cap_caps_in; try lia. apply A4; assumption.
  - apply (good_orelse (m_loop (m fuel r) fuel true) (fun k => k)).
    + apply good_loop. exact IHr.
    + apply good_id.
  - apply good_loop. exact IHr.
  - apply (good_orelse (m fuel r) (fun k => k)); [exact IHr|apply good_id].
  - apply good_comp; assumption.
  - apply good_orelse; assumption.
Qed.

(* ------------------------------------------------------------------ *)
(* The search as a whole.                                               *)

(* the shape of every successful result *)
Definition result_ok (ncap total : nat) (gs : caps) : Prop :=
  List.length gs = S ncap /\
  exists i j, nth_error gs 0 = Some (Some (i, j)) /\ caps_in gs i j /\ j <= total.

Lemma match_here_ok mr ncap s p gs :
  good mr -> match_here mr ncap s p = MOk gs ->
  result_ok ncap (p + List.length s) gs.
Proof.
  intros G H. unfold match_here in H.
  apply G in H as (s1 & p1 & c1 & H & [A1 A2 A3 A4]).
  assert (E : gs = set_cap 0 (p, p1) c1) by congruence. subst gs. clear H.
  rewrite repeat_length in A3.
  split.
  - rewrite set_cap_length. exact A3.
  - exists p, p1. split; [|split].
    + apply set_cap_0. destruct c1; [discriminate|congruence].
    + apply set_cap_caps_in; try lia. apply (A4 p); [lia|]. apply caps_in_repeat.
    + lia.
Qed.

Lemma search_ok mr ncap : good mr -> forall n s p gs,
  search mr ncap n s p = MOk gs -> result_ok ncap (p + List.length s) gs.
Proof.
  intros G n. induction n as [|n IH]; intros s p gs; simpl; [discriminate|].
  destruct (match_here mr ncap s p) eqn:E; try discriminate.
  - destruct (decode s) as [[[x w] s']|] eqn:D; [|discriminate].
    intro H. apply IH in H. apply decode_length in D as [D1 D2].
    replace (p + List.length s) with (w + p + List.length s') by lia. exact H.
  - intro H. inversion H; subst. eapply match_here_ok; eassumption.
Qed.

Lemma re_find_ok r ncap s gs :
  re_find r ncap s = Some gs -> result_ok ncap (List.length s) gs.
Proof.
  unfold re_find, re_exec. intro H.
  destruct (search _ _ _ _ _) eqn:E; try discriminate.
  inversion H; subst. apply search_ok in E; [exact E|apply good_m].
Qed.

(* (a) *)
Theorem re_find_length r ncap s gs :
  re_find r ncap s = Some gs -> List.length gs = S ncap.
Proof. intro H. apply re_find_ok in H. apply H. Qed.

(* (c) *)
Theorem re_find_group0 r ncap s gs :
  re_find r ncap s = Some gs ->
  exists i j, nth_error gs 0 = Some (Some (i, j)) /\ i <= j /\ j <= List.length s.
Proof.
  intro H. apply re_find_ok in H as (_ & i & j & H0 & Hc & Hj).
  exists i, j. split; [exact H0|].
  apply nth_error_In in H0. apply Hc in H0. lia.
Qed.

(* every set group lies inside group 0 *)
Theorem re_find_within r ncap s gs i0 j0 :
  re_find r ncap s = Some gs -> nth_error gs 0 = Some (Some (i0, j0)) ->
  forall i j, In (Some (i, j)) gs -> i0 <= i /\ i <= j /\ j <= j0.
Proof.
  intros H H0 i j Hin. apply re_find_ok in H as (_ & i' & j' & H0' & Hc & _).
  rewrite H0 in H0'. inversion H0'; subst. exact (Hc i j Hin).
Qed.

(* (b) *)
Theorem re_find_bounds r ncap s gs :
  re_find r ncap s = Some gs ->
  forall i j, In (Some (i, j)) gs -> i <= j /\ j <= List.length s.
Proof.
  intros H i j Hin. apply re_find_ok in H as (_ & i0 & j0 & _ & Hc & Hj).
  apply Hc in Hin. lia.
Qed.

Corollary re_find_nth r ncap s gs g i j :
  re_find r ncap s = Some gs -> nth_error gs g = Some (Some (i, j)) ->
  i <= j /\ j <= List.length s.
Proof. intros H Hn. eapply re_find_bounds; [exact H|]. eapply nth_error_In; exact Hn. Qed.

Corollary re_submatch_length r ncap s xs :
  re_submatch r ncap s = Some xs -> List.length xs = S ncap.
Proof.
  unfold re_submatch. destruct (re_find r ncap s) eqn:E; [|discriminate].
  intro H. inversion H; subst. rewrite map_length. eapply re_find_length; exact E.
Qed.

Corollary re_match_find r ncap s :
  re_match r ncap s = true <-> exists gs, re_find r ncap s = Some gs.
Proof.
  unfold re_match. destruct (re_find r ncap s).
  - split; [eauto|reflexivity].
  - split; [discriminate|]. intros [gs H]. discriminate.
Qed.

(* ------------------------------------------------------------------ *)
(* The budget is sufficient.                                            *)

(* continuation [k] does not run out of fuel on anything at most as long
   as [s] *)
Definition kfine (k : kont) (s : bytes) : Prop :=
  forall s' p' c', List.length s' <= List.length s -> k s' p' c' <> MFuel.

Lemma kfine_shorter k s s' :
  List.length s' <= List.length s -> kfine k s -> kfine k s'.
Proof. intros Hle H s2 p2 c2 H2. apply H. lia. Qed.

(* [mt] does not run out of fuel on inputs shorter than [bound] *)
Definition fine (bound : nat) (mt : matcher) : Prop :=
  forall k s p c, List.length s < bound -> kfine k s -> mt k s p c <> MFuel.

Lemma fine_rune bound f : fine bound (m_rune f).
Proof.
  intros k s p c _ Hk. unfold m_rune.
  destruct (decode s) as [[[x w] s']|] eqn:D; [|discriminate].
  destruct (f x); [|discriminate].
  apply decode_length in D as [D1 D2]. apply Hk. lia.
Qed.

Lemma fine_id bound : fine bound (fun k => k).
Proof. intros k s p c _ Hk. apply Hk. lia. Qed.

Lemma fine_comp bound m1 m2 : fine bound m1 -> fine bound m2 -> fine bound (fun k => m1 (m2 k)).
Proof.
  intros F1 F2 k s p c Hb Hk. apply F1; [exact Hb|].
  intros s1 p1 c1 H1. apply F2; [lia|]. eapply kfine_shorter; eassumption.
Qed.

Lemma fine_lit bound rs : fine bound (m_lit rs).
Proof.
  induction rs as [|x t IH]; simpl.
  - apply fine_id.
  - apply (fine_comp bound (m_rune (N.eqb x)) (m_lit t)); [apply fine_rune|exact IH].
Qed.

Lemma fine_orelse bound m1 (m2 : matcher) :
  fine bound m1 -> fine bound m2 ->
  fine bound (fun k s p c => match m1 k s p c with MFail => m2 k s p c | x => x end).
Proof.
  intros F1 F2 k s p c Hb Hk.
  destruct (m1 k s p c) eqn:E; try discriminate.
  - apply F2; assumption.
  - exfalso. revert E. apply F1; assumption.
Qed.

(* a loop with budget [n] is fine on inputs shorter than [n] *)
Lemma fine_loop bound body : fine bound body -> forall n first k s p c,
  List.length s < n -> List.length s < bound -> kfine k s ->
  m_loop body n first k s p c <> MFuel.
Proof.
  intros F n. induction n as [|n IH]; intros first k s p c Hn Hb Hk; [lia|].
  simpl. apply F; [exact Hb|].
  intros s1 p1 c1 H1.
  destruct (same_len s1 s) eqn:SL.
  - destruct first; [|discriminate]. apply Hk. exact H1.
  - apply same_len_false in SL.
    destruct (m_loop body n false k s1 p1 c1) eqn:E; try discriminate.
    + apply Hk. exact H1.
    + exfalso. revert E. apply IH; try lia. eapply kfine_shorter; eassumption.
Qed.

Lemma fine_m fuel r : fine fuel (m fuel r).
Proof.
  induction r; simpl.
  - apply fine_id.
  - intros k s p c _ _. discriminate.
  - apply fine_lit.
  - apply fine_rune.
  - apply fine_rune.
  - apply fine_rune.
  - intros k s p c _ Hk. destruct p; [|discriminate]. apply Hk. lia.
  - intros k s p c _ Hk. destruct s; [|discriminate]. apply Hk. lia.
  - intros k s p c Hb Hk. apply IHr; [exact Hb|].
    intros s1 p1 c1 H1. apply Hk. exact H1.
  - apply (fine_orelse fuel (m_loop (m fuel r) fuel true) (fun k => k)).
    + intros k s p c Hb Hk. apply (fine_loop fuel); assumption.
    + apply fine_id.
  - intros k s p c Hb Hk. apply (fine_loop fuel); assumption.
  - apply (fine_orelse fuel (m fuel r) (fun k => k)); [exact IHr|apply fine_id].
  - apply fine_comp; assumption.
  - apply fine_orelse; assumption.
Qed.

Lemma search_fuel bound mr ncap : fine bound mr -> forall n s p,
  List.length s < n -> List.length s < bound -> search mr ncap n s p <> MFuel.
Proof.
  intros F n. induction n as [|n IH]; intros s p Hn Hb; [lia|]. simpl.
  destruct (match_here mr ncap s p) eqn:E; try discriminate.
  - destruct (decode s) as [[[x w] s']|] eqn:D; [|discriminate].
    apply decode_length in D as [D1 D2]. apply IH; lia.
  - exfalso. revert E. unfold match_here. apply F; [exact Hb|].
    intros s1 p1 c1 _. discriminate.
Qed.

(* the budget of re_exec is never exhausted *)
Theorem re_exec_fuel r ncap s : re_exec r ncap s <> MFuel.
Proof.
  unfold re_exec. apply (search_fuel (re_fuel s)).
  - apply fine_m.
  - lia.
  - unfold re_fuel. lia.
Qed.

Corollary re_find_none r ncap s :
  re_find r ncap s = None <-> re_exec r ncap s = MFail.
Proof.
  unfold re_find. pose proof (re_exec_fuel r ncap s) as F.
  destruct (re_exec r ncap s); split; intro H; try discriminate; try reflexivity.
  contradiction.
Qed.

Corollary re_find_some r ncap s gs :
  re_find r ncap s = Some gs <-> re_exec r ncap s = MOk gs.
Proof.
  unfold re_find. destruct (re_exec r ncap s); split; intro H;
    try discriminate; inversion H; reflexivity.
Qed.
