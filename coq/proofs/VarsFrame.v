(* VarsFrame.v -- C19 / C02 at program level: a decode changes the binding of
   no name other than those its rules bind (destinations `ctx.name`, loop
   counters, range keys and values, the two names of a cond-OK header).
   "Rebinding one name never disturbs another", for whole programs.
   Sixth induction on fuel through every driver. *)
From Coq Require Import List NArith ZArith Bool Lia String.
From Dec Require Import Bytes Strconv Crc Values Tree Interp.
From Dec.proofs Require Import InterpFacts InterpFacts2 InterpFacts3 RuleFacts.
Import ListNotations.

Local Arguments ctx_set : simpl never.
Local Arguments oresolve : simpl never.
Local Arguments oupdate : simpl never.
Local Arguments oloop : simpl never.
Local Arguments assign : simpl never.
Local Arguments deref : simpl never.
Local Arguments x2bytes : simpl never.
Local Arguments set_var : simpl never.
Local Arguments find_var : simpl never.
Local Arguments split_path : simpl never.
Local Arguments format_int : simpl never.
Local Arguments parse_int0 : simpl never.
Local Arguments parse_uint0 : simpl never.
Local Arguments parse_int10 : simpl never.
Local Arguments parse_uint10 : simpl never.
Local Arguments parse_bool : simpl never.
Local Arguments jget : simpl never.
Local Arguments iface2int : simpl never.
Local Arguments cmp_by : simpl never.
Local Arguments dec_cmp : simpl never.
Local Arguments is_plain_dec : simpl never.
Local Arguments is_float_re : simpl never.
Local Arguments crc32_ieee : simpl never.
Local Arguments norm_dec : simpl never.
Local Arguments coalesce : simpl never.
Local Arguments is_ctx_name : simpl never.

(* the name a destination `ctx.<name>` binds *)
Definition ctx_name_of (path : bytes) : list bytes :=
  match split_path path with
  | k :: _ :: _ => if is_ctx_name k then [skipn (S (List.length k)) path] else []
  | _ => []
  end.

(* the names a node binds itself, and with its children *)
Definition own (n : node) : list bytes :=
  [loopCnt n; loopKey n; loopVal n; condOKL n; condOKR n] ++ ctx_name_of (dst n).
Fixpoint binds (n : node) : list bytes := own n ++ flat_map binds (child n).

Lemma binds_unfold n : binds n = own n ++ flat_map binds (child n).
Proof. destruct n; reflexivity. Qed.

Section FRAME.
(* [B]: the names the program may bind *)
Variable B : bytes -> Prop.

Definition frame (c c' : ctx) : Prop :=
  forall k, ~ B k -> find_var (vars c') k = find_var (vars c) k.

Lemma frame_refl c : frame c c.
Proof. intros k _. reflexivity. Qed.
Lemma frame_trans a b c : frame a b -> frame b c -> frame a c.
Proof. intros H1 H2 k Hk. rewrite (H2 k Hk). apply H1. exact Hk. Qed.
Lemma frame_eq c c' : vars c' = vars c -> frame c c'.
Proof. intros E k _. rewrite E. reflexivity. Qed.
Lemma frame_ctx_set c k0 v i : B k0 -> frame c (ctx_set c k0 v i).
Proof. intros H k Hk. apply ctx_set_get_other. intro E. subst k0. contradiction. Qed.

Definition covers (n : node) : Prop := forall k, In k (binds n) -> B k.

Lemma covers_own n : covers n -> forall k, In k (own n) -> B k.
Proof. intros H k Hk. apply H. rewrite binds_unfold. apply in_or_app. left. exact Hk. Qed.

Lemma covers_children n : covers n -> Forall covers (child n).
Proof.
  intro H. apply Forall_forall. intros ch Hin k Hk. apply H. rewrite binds_unfold.
  apply in_or_app. right. apply in_flat_map. exists ch. split; assumption.
Qed.

Ltac leaf_destruct :=
  match goal with
  | |- context [match ?x with _ => _ end] =>
      lazymatch x with
      | context [match _ with _ => _ end] => fail
      | _ => destruct x
      end
  end.

Ltac v_done := cbn [vars fst snd w_cerr w_bufX w_bufBl w_store w_vars w_brkD w_bufLC w_lenBB w_trace w_ncalls]; reflexivity.

Lemma v_ctx_cmp c p o r : vars (fst (ctx_cmp c p o r)) = vars c.
Proof. unfold ctx_cmp. repeat leaf_destruct; v_done. Qed.

Lemma v_ctx_get c p s : vars (fst (ctx_get c p s)) = vars c.
Proof. unfold ctx_get, ins_getto. repeat leaf_destruct; v_done. Qed.

Lemma v_collect_args l : forall c acc, vars (fst (collect_args c l acc)) = vars c.
Proof.
  induction l as [|a l IH]; intros c acc; cbn [collect_args]; [reflexivity|].
  destruct (a_static a); [apply IH|].
  pose proof (v_ctx_get c (a_val a) (a_subset a)) as G.
  destruct (ctx_get c (a_val a) (a_subset a)) as [c1 v]. cbn [fst] in G. rewrite IH. exact G.
Qed.

Lemma v_obj_setwb c v x p : vars (fst (obj_setwb c v x p)) = vars c.
Proof. unfold obj_setwb. repeat leaf_destruct; v_done. Qed.

Lemma v_mod_default c v l : vars (fst (fst (mod_default c v l))) = vars c.
Proof. unfold mod_default. repeat leaf_destruct; v_done. Qed.
Lemma v_mod_ifthen c v l : vars (fst (fst (mod_ifthen c v l))) = vars c.
Proof. unfold mod_ifthen, own_arg. repeat leaf_destruct; v_done. Qed.
Lemma v_mod_ifthenelse c v l : vars (fst (fst (mod_ifthenelse c v l))) = vars c.
Proof. unfold mod_ifthenelse, own_arg. repeat leaf_destruct; v_done. Qed.
Lemma v_run_bget c g l : vars (fst (fst (run_bget c g l))) = vars c.
Proof. unfold run_bget. repeat leaf_destruct; v_done. Qed.

Lemma v_cmp_dynamic c l o r : vars (fst (fst (cmp_dynamic c l o r))) = vars c.
Proof.
  unfold cmp_dynamic.
  pose proof (v_ctx_get c r []) as G. destruct (ctx_get c r []) as [c1 v]. cbn [fst] in G.
  destruct (cerr c1); [exact G|]. destruct (x2bytes c1 (bufX c1)); [|exact G].
  pose proof (v_ctx_cmp c1 l o b) as G2. destruct (ctx_cmp c1 l o b) as [c2 ok]. cbn [fst] in *. congruence.
Qed.

Lemma v_node_cmp c n : vars (fst (fst (node_cmp c n))) = vars c.
Proof.
  unfold node_cmp.
  destruct (condStaticL n && condStaticR n); [reflexivity|].
  destruct (condStaticR n).
  { pose proof (v_ctx_cmp c (condL n) (condOp n) (condR n)) as G. destruct (ctx_cmp c (condL n) (condOp n) (condR n)). exact G. }
  destruct (condStaticL n).
  { pose proof (v_ctx_cmp c (condR n) (op_swap (condOp n)) (condL n)) as G. destruct (ctx_cmp c (condR n) (op_swap (condOp n)) (condL n)). exact G. }
  apply v_cmp_dynamic.
Qed.

Lemma v_cloop_range c st s : vars (fst (cloop_range c st s)) = vars c.
Proof.
  unfold cloop_range. destruct st; [repeat leaf_destruct; v_done|].
  pose proof (v_ctx_get c s []) as G. destruct (ctx_get c s []) as [c1 v]. cbn [fst] in G.
  repeat leaf_destruct; cbn [fst vars w_cerr]; exact G.
Qed.

Lemma v_log_call c k n v : vars (fst (log_call c k n v)) = vars c.
Proof. unfold log_call. v_done. Qed.

Lemma v_dec_brk c : vars (dec_brk c) = vars c.
Proof. unfold dec_brk. destruct (brkD c); reflexivity. Qed.

Section WITH_U.
Variable U : ufuns.

Lemma v_call_cond c name al : vars (fst (call_cond U c name al)) = vars c.
Proof.
  unfold call_cond. destruct (u_cond U name) as [fn|]; [|reflexivity].
  pose proof (v_collect_args al c []) as G. destruct (collect_args c al []) as [c1 a]. cbn [fst] in G.
  match goal with |- context [log_call c1 ?k name a] => pose proof (v_log_call c1 k name a) as L; destruct (log_call c1 k name a) as [c2 n] end.
  cbn [fst] in L. destruct (fn n a) as [b e]. destruct e; cbn [fst vars w_cerr]; congruence.
Qed.

Lemma v_run_mods ms : forall c raw, vars (fst (run_mods U ms c raw)) = vars c.
Proof.
  induction ms as [|m ms IH]; intros c raw; cbn [run_mods]; [reflexivity|].
  pose proof (v_collect_args (m_arg m) c []) as G. destruct (collect_args c (m_arg m) []) as [c1 a]. cbn [fst] in G.
  assert (V : forall X : ctx * option val * option err, vars (fst (fst X)) = vars c ->
              vars (fst (let '(c0, res, e) := X in
                       let c2 := match res with Some v => w_bufX c0 v | None => c0 end in
                       let c3 := w_cerr c2 e in
                       match e with Some _ => (c3, raw) | None => run_mods U ms c3 (bufX c3) end)) = vars c).
  { intros [[c0 res] e] Q. cbn [fst] in Q. destruct e as [x|].
    - cbn [fst]. destruct res; cbn [vars w_cerr w_bufX]; exact Q.
    - rewrite IH. destruct res; cbn [vars w_cerr w_bufX]; exact Q. }
  apply V.
  destruct (builtin_mod (m_id m)) as [[| | |]|].
  - rewrite v_mod_default. exact G.
  - rewrite v_mod_ifthen. exact G.
  - rewrite v_mod_ifthenelse. exact G.
  - exact G.
  - destruct (u_mod U (m_id m)) as [fn|]; [|exact G].
    match goal with |- context [log_call ?cc ?k (m_id m) ?aa] => pose proof (v_log_call cc k (m_id m) aa) as L; destruct (log_call cc k (m_id m) aa) as [c2 n] end.
    cbn [fst] in L. destruct (fn n (deref c2 raw) a); cbn [fst]; rewrite L; exact G.
Qed.

(* a destination write: a `ctx.name` destination binds that name, any other
   destination binds nothing *)
Lemma frame_ctx_set_path c p x i :
  (forall k, In k (ctx_name_of p) -> B k) -> frame c (fst (ctx_set_path U c p x i)).
Proof.
  intro HB. unfold ctx_set_path, ctx_name_of in *.
  destruct p as [|p0 p']; [apply frame_refl|].
  destruct (vars c) as [|v0 vs] eqn:Ev; [apply frame_refl|].
  destruct (split_path (p0 :: p')) as [|k rest]; [apply frame_refl|].
  destruct (is_ctx_name k).
  - destruct rest as [|r0 rest]; [apply frame_refl|].
    assert (HN : B (skipn (S (List.length k)) (p0 :: p'))) by (apply HB; left; reflexivity).
    destruct i as [|i0 i'].
    + destruct x; try (apply frame_ctx_set; exact HN). destruct j; first [apply frame_ctx_set; exact HN|apply frame_refl].
    + destruct (u_ins U (i0 :: i')); [apply frame_ctx_set; exact HN|apply frame_refl].
  - destruct (find_var (v0 :: vs) k) as [[v ik]|]; [|apply frame_refl].
    destruct ik; try apply frame_refl; try (apply frame_eq; cbn [fst vars w_cerr w_bufX]; reflexivity).
    pose proof (v_obj_setwb (w_bufX c x) v x rest) as Q.
    destruct (obj_setwb (w_bufX c x) v x rest) as [c' e]. cbn [fst] in *.
    apply frame_eq. cbn [vars w_cerr]. rewrite Q. reflexivity.
Qed.

Section DRV.
Variable fr : node -> ctx -> ctx * option err.
Hypothesis Hfr : forall n c, covers n -> frame c (fst (fr n c)).

Lemma rules_lz_frame l : Forall covers l -> forall c lz, frame c (fst (rules_lz fr l c lz)).
Proof.
  induction 1 as [|n l Hn Hl IH]; intros c lz; cbn [rules_lz]; [apply frame_refl|].
  pose proof (Hfr n c Hn) as A. destruct (fr n c) as [c1 e1]. cbn [fst] in A.
  destruct e1 as [[]|]; cbn [fst]; first [exact A | eapply frame_trans; [exact A|apply IH]].
Qed.

Lemma body_frame l : Forall covers l -> forall c lz, frame c (fst (body fr l c lz)).
Proof.
  induction 1 as [|n l Hn Hl IH]; intros c lz; cbn [body]; [apply frame_refl|].
  pose proof (Hfr n c Hn) as A. destruct (fr n c) as [c1 e1]. cbn [fst] in A.
  destruct e1 as [[]|]; cbn [fst]; first [exact A | eapply frame_trans; [exact A|apply IH]].
Qed.

Lemma cloop_run_frame k : forall n idx v lim c, covers n -> frame c (cloop_run fr k n idx v lim c).
Proof.
  induction k as [|k IH]; intros n idx v lim c Hn; cbn [cloop_run]; [apply frame_eq; reflexivity|].
  assert (HB : B (loopCnt n)) by (apply (covers_own n Hn); cbn; auto).
  pose proof (covers_children n Hn) as Hc.
  destruct (loop_allows (loopCondOp n) v lim) as [al|].
  2:{ cbn [andb negb]. apply frame_eq. rewrite v_dec_brk. reflexivity. }
  destruct (negb (al && Nat.eqb (brkD c) 0)); [apply frame_eq, v_dec_brk|].
  pose proof (body_frame (child n) Hc (ctx_set c (loopCnt n) (VLC idx) InsStatic) false) as A.
  destruct (body fr (child n) (ctx_set c (loopCnt n) (VLC idx) InsStatic) false) as [c1 br]. cbn [fst] in A.
  assert (A1 : frame c c1) by (eapply frame_trans; [apply frame_ctx_set; exact HB|exact A]).
  assert (S1 : forall c2, vars c2 = vars c1 -> frame c (ctx_set c2 (loopCnt n) (VLC idx) InsStatic)).
  { intros c2 E. eapply frame_trans; [exact A1|]. eapply frame_trans; [apply frame_eq; exact E|apply frame_ctx_set; exact HB]. }
  destruct br; try (eapply frame_trans; [exact A1|apply frame_eq; reflexivity]);
    (destruct (step64 (loopCntOp n) v);
     match goal with
     | |- frame c (dec_brk ?X) => eapply frame_trans; [|apply frame_eq, v_dec_brk]; apply S1; reflexivity
     | |- frame c (cloop_run fr k n idx _ lim ?X) => eapply frame_trans; [|apply IH; exact Hn]; apply S1; reflexivity
     end).
Qed.

Lemma cloop_frame k n c : covers n -> frame c (cloop fr k n c).
Proof.
  intro Hn. unfold cloop.
  pose proof (v_cloop_range c (loopCntStatic n) (loopCntInit n)) as R1.
  destruct (cloop_range c (loopCntStatic n) (loopCntInit n)) as [c1 cnt]. cbn [fst] in R1.
  destruct (cerr c1); [apply frame_eq; exact R1|].
  pose proof (v_cloop_range c1 (loopLimStatic n) (loopLim n)) as R2.
  destruct (cloop_range c1 (loopLimStatic n) (loopLim n)) as [c2 lim]. cbn [fst] in R2.
  destruct (cerr c2); [apply frame_eq; congruence|].
  eapply frame_trans; [|apply cloop_run_frame; exact Hn]. apply frame_eq; cbn [vars w_bufLC]; congruence.
Qed.

Lemma iterate_frame n c brk : covers n -> frame c (fst (fst (iterate fr n c brk))).
Proof.
  intro Hn. pose proof (covers_children n Hn) as Hc. unfold iterate.
  destruct brk; [apply frame_refl|].
  destruct (negb (Nat.eqb (brkD c) 0)); [apply frame_eq, v_dec_brk|].
  pose proof (body_frame (child n) Hc c false) as A. destruct (body fr (child n) c false) as [c1 br]. cbn [fst] in A.
  destruct br; cbn [fst]; try exact A; try (eapply frame_trans; [exact A|apply frame_eq, v_dec_brk]).
  destruct (negb (Nat.eqb (brkD c1) 0)); [eapply frame_trans; [exact A|apply frame_eq, v_dec_brk]|exact A].
Qed.

Lemma frame_set_key n c i : covers n -> frame c (set_key n c i).
Proof.
  intro Hn. unfold set_key. destruct (loopKey n) as [|k0 k'] eqn:E; [apply frame_refl|].
  apply frame_ctx_set. rewrite <- E. apply (covers_own n Hn). cbn. auto.
Qed.

Lemma vloop_frame n xs : covers n -> forall i c brk, frame c (vloop fr n xs i c brk).
Proof.
  intro Hn. assert (HV : B (loopVal n)) by (apply (covers_own n Hn); cbn; auto).
  induction xs as [|x xs IH]; intros i c brk; cbn [vloop]; [apply frame_refl|].
  pose proof (iterate_frame n (ctx_set (set_key n c i) (loopVal n) (VNode x) InsVector) brk Hn) as A.
  destruct (iterate fr n (ctx_set (set_key n c i) (loopVal n) (VNode x) InsVector) brk) as [[c1 b1] s1]. cbn [fst] in A.
  eapply frame_trans; [|apply IH].
  eapply frame_trans; [apply frame_set_key; exact Hn|]. eapply frame_trans; [apply frame_ctx_set; exact HV|exact A].
Qed.

Lemma oloop_run_frame n oid sp cnt : covers n -> forall i c brk, frame c (oloop_run fr n oid sp cnt i c brk).
Proof.
  intro Hn. assert (HV : B (loopVal n)) by (apply (covers_own n Hn); cbn; auto).
  induction cnt as [|cnt IH]; intros i c brk; cbn [oloop_run]; [apply frame_refl|].
  pose proof (iterate_frame n (ctx_set (set_key n c i) (loopVal n) (VObj oid (sp ++ [format_int (Z.of_nat i)])) InsObj) brk Hn) as A.
  destruct (iterate fr n (ctx_set (set_key n c i) (loopVal n) (VObj oid (sp ++ [format_int (Z.of_nat i)])) InsObj) brk) as [[c1 b1] s1]. cbn [fst] in A.
  assert (A1 : frame c c1).
  { eapply frame_trans; [apply frame_set_key; exact Hn|]. eapply frame_trans; [apply frame_ctx_set; exact HV|exact A]. }
  destruct s1; [exact A1|]. eapply frame_trans; [exact A1|apply IH].
Qed.

Lemma frame_key_slot n c : frame c (key_slot n c).
Proof. apply frame_eq. unfold key_slot. destruct (loopKey n); reflexivity. Qed.

Lemma rloop_frame n c : covers n -> frame c (rloop fr n c).
Proof.
  intro Hn. unfold rloop.
  assert (H0 : frame c (w_cerr c None)) by (apply frame_eq; reflexivity).
  destruct (split_path (loopSrc n)) as [|k rest]; [apply frame_refl|].
  destruct (find_var (vars c) k) as [[v i]|]; [|apply frame_refl].
  destruct i; try exact H0; try (apply frame_eq; reflexivity).
  - destruct v; try exact H0.
    destruct (jget j rest) as [| | | | |l|l]; try exact H0; try (apply frame_eq; reflexivity);
      (destruct l; [apply frame_eq; reflexivity|eapply frame_trans; [eapply frame_trans; [exact H0|apply vloop_frame; exact Hn]|apply frame_key_slot]]).
  - destruct v; try exact H0.
    destruct (nth_error (store (w_cerr c None)) oid) as [ob|]; [|exact H0].
    destruct (oloop ofuel ob (prefix ++ rest)) as [[sp cnt]|]; [|exact H0].
    assert (H3 : frame c (oloop_run fr n oid sp cnt 0 (w_cerr c None) false)) by (eapply frame_trans; [exact H0|apply oloop_run_frame; exact Hn]).
    destruct cnt; [exact H3|eapply frame_trans; [exact H3|apply frame_key_slot]].
Qed.

Lemma branch_frame n c ok e0 : covers n -> frame c (fst (branch fr n c ok e0)).
Proof.
  intro Hn. pose proof (covers_children n Hn) as Hc. unfold branch. destruct ok.
  - destruct (child n) as [|ch l]; [apply frame_refl|]. inversion Hc; subst. apply Hfr; assumption.
  - destruct (child n) as [|x [|ch l]]; try apply frame_refl.
    inversion Hc as [|? ? _ Hc']; subst. inversion Hc'; subst. apply Hfr; assumption.
Qed.

Lemma v_classic_verdict sw ch c ok : vars (fst (fst (fst (classic_verdict sw ch c ok)))) = vars c.
Proof.
  unfold classic_verdict.
  destruct (Z.eqb (typ ch) typeCase); [|reflexivity].
  destruct (caseStaticL ch).
  - pose proof (v_ctx_cmp c (switchArg sw) opEq (trimq (caseL ch))) as G.
    destruct (ctx_cmp c (switchArg sw) opEq (trimq (caseL ch))). exact G.
  - pose proof (v_ctx_get c (caseL ch) []) as G. destruct (ctx_get c (caseL ch) []) as [c1 v]. cbn [fst] in G.
    destruct (cerr c1); [exact G|].
    destruct (x2bytes c1 (bufX c1)); [|exact G].
    pose proof (v_ctx_cmp c1 (switchArg sw) opEq b) as G2. destruct (ctx_cmp c1 (switchArg sw) opEq b). cbn [fst] in *. congruence.
Qed.

Lemma switch_classic_frame sw l : Forall covers l -> forall c ok, frame c (fst (fst (fst (switch_classic fr sw l c ok)))).
Proof.
  induction 1 as [|ch l Hn Hl IH]; intros c ok; [apply frame_refl|].
  rewrite switch_classic_cons.
  pose proof (v_classic_verdict sw ch c ok) as A.
  destruct (classic_verdict sw ch c ok) as [[[c2 ok2] e2] ea2]. cbn [fst] in A.
  destruct ea2; [apply frame_eq; exact A|].
  destruct ok2; [|eapply frame_trans; [apply frame_eq; exact A|apply IH]].
  pose proof (Hfr ch c2 Hn) as A2. destruct (fr ch c2) as [c3 e3]. cbn [fst] in *.
  eapply frame_trans; [apply frame_eq; exact A|exact A2].
Qed.

Lemma v_nocond_verdict ch c ok : vars (fst (fst (fst (nocond_verdict U ch c ok)))) = vars c.
Proof.
  unfold nocond_verdict.
  destruct (caseHlp ch) as [|h hs].
  - destruct (caseStaticL ch && caseStaticR ch); [reflexivity|].
    destruct (caseStaticR ch).
    { pose proof (v_ctx_cmp c (caseL ch) (caseOp ch) (trimq (caseR ch))) as G.
      destruct (ctx_cmp c (caseL ch) (caseOp ch) (trimq (caseR ch))). exact G. }
    destruct (caseStaticL ch).
    { pose proof (v_ctx_cmp c (caseR ch) (op_swap (caseOp ch)) (trimq (caseL ch))) as G.
      destruct (ctx_cmp c (caseR ch) (op_swap (caseOp ch)) (trimq (caseL ch))). exact G. }
    pose proof (v_ctx_get c (caseR ch) []) as G. destruct (ctx_get c (caseR ch) []) as [c1 v]. cbn [fst] in G.
    destruct (cerr c1); [exact G|].
    destruct (x2bytes c1 (bufX c1)); [|exact G].
    pose proof (v_ctx_cmp c1 (caseL ch) (caseOp ch) b) as G2. destruct (ctx_cmp c1 (caseL ch) (caseOp ch) b). cbn [fst] in *. congruence.
  - pose proof (v_call_cond c (h :: hs) (caseHlpArg ch)) as G.
    destruct (call_cond U c (h :: hs) (caseHlpArg ch)) as [c1 [b|]]; exact G.
Qed.

Lemma switch_nocond_frame l : Forall covers l -> forall c ok, frame c (fst (fst (fst (switch_nocond U fr l c ok)))).
Proof.
  induction 1 as [|ch l Hn Hl IH]; intros c ok; [apply frame_refl|].
  rewrite switch_nocond_cons.
  destruct (Z.eqb (typ ch) typeCase); [|apply IH].
  pose proof (v_nocond_verdict ch c ok) as A.
  destruct (nocond_verdict U ch c ok) as [[[c2 ok2] e2] ea2]. cbn [fst] in A.
  destruct ea2; [apply frame_eq; exact A|].
  destruct (cerr c2); [apply frame_eq; exact A|].
  destruct ok2; [|eapply frame_trans; [apply frame_eq; exact A|apply IH]].
  pose proof (Hfr ch c2 Hn) as A2. destruct (fr ch c2) as [c3 e3]. cbn [fst] in *.
  eapply frame_trans; [apply frame_eq; exact A|exact A2].
Qed.

End DRV.

Local Arguments rloop : simpl never.
Local Arguments cloop : simpl never.
Local Arguments rules : simpl never.
Local Arguments switch_classic : simpl never.
Local Arguments switch_nocond : simpl never.
Local Arguments run_mods : simpl never.
Local Arguments ctx_set_path : simpl never.
Local Arguments collect_args : simpl never.
Local Arguments node_cmp : simpl never.
Local Arguments call_cond : simpl never.
Local Arguments run_bget : simpl never.
Local Arguments branch : simpl never.
Local Arguments log_call : simpl never.
Local Arguments ctx_get : simpl never.

Lemma frame_restore c c' p : frame c c' -> frame c (if Nat.ltb (brkD c') p then w_brkD c' p else c').
Proof. intro H. destruct (Nat.ltb (brkD c') p); exact H. Qed.

Lemma first_default_in' l d : first_default l = Some d -> In d l.
Proof.
  induction l as [|ch l IH]; cbn [first_default]; [discriminate|].
  destruct (Z.eqb (typ ch) typeDefault); [intro H; inversion H; left; reflexivity|intro H; right; apply IH; exact H].
Qed.

Theorem follow_frames f : forall r c, covers r -> frame c (fst (follow U f r c)).
Proof.
  induction f as [|f IH]; intros r c Hr; [apply frame_refl|].
  pose proof (covers_children r Hr) as Hch.
  pose proof (covers_own r Hr) as Hown.
  cbn [follow]. cbv zeta.
  destruct (Z.eqb (typ r) typeLoopRange).
  { cbn [fst]. apply frame_restore. eapply frame_trans; [|apply rloop_frame; [exact IH|exact Hr]]. apply frame_eq; reflexivity. }
  destruct (Z.eqb (typ r) typeLoopCount).
  { cbn [fst]. apply frame_restore. eapply frame_trans; [|apply cloop_frame; [exact IH|exact Hr]]. apply frame_eq; reflexivity. }
  destruct (Z.eqb (typ r) typeBreak); [apply frame_eq; reflexivity|].
  destruct (Z.eqb (typ r) typeLBreak); [apply frame_eq; reflexivity|].
  destruct (Z.eqb (typ r) typeContinue); [apply frame_refl|].
  destruct (Z.eqb (typ r) typeCondOK).
  { destruct (condHlp r) as [|h hs]; [apply frame_refl|].
    destruct (u_condok U (h :: hs)) as [fn|]; [|apply frame_refl].
    pose proof (v_collect_args (condHlpArg r) c []) as G. destruct (collect_args c (condHlpArg r) []) as [c1 la]. cbn [fst] in G.
    pose proof (v_log_call c1 (bs "condok") (h :: hs) la) as L. destruct (log_call c1 (bs "condok") (h :: hs) la) as [c2 n]. cbn [fst] in L.
    destruct (fn n la) as [v okv].
    assert (E3 : frame c (w_bufBl (w_bufX c2 v) okv)) by (apply frame_eq; cbn [vars w_bufBl w_bufX]; congruence).
    destruct (u_ins U match condIns r with [] => bs "static" | x :: l => x :: l end) as [i|]; [|exact E3].
    assert (E4 : frame c (ctx_set (ctx_set (w_bufBl (w_bufX c2 v) okv) (condOKL r) v i) (condOKR r) (VBool okv) InsStatic)).
    { eapply frame_trans; [exact E3|]. eapply frame_trans; apply frame_ctx_set; apply Hown; unfold own; apply in_or_app; left; cbn [In]; tauto. }
    destruct (condR r) as [|cr crs].
    - eapply frame_trans; [exact E4|apply branch_frame; [exact IH|exact Hr]].
    - pose proof (v_node_cmp (ctx_set (ctx_set (w_bufBl (w_bufX c2 v) okv) (condOKL r) v i) (condOKR r) (VBool okv) InsStatic) r) as N.
      destruct (node_cmp (ctx_set (ctx_set (w_bufBl (w_bufX c2 v) okv) (condOKL r) v i) (condOKR r) (VBool okv) InsStatic) r) as [[c3 o3] e3].
      cbn [fst] in N. eapply frame_trans; [eapply frame_trans; [exact E4|apply frame_eq; exact N]|apply branch_frame; [exact IH|exact Hr]]. }
  destruct (Z.eqb (typ r) typeCond).
  { destruct (condHlp r) as [|h hs].
    - pose proof (v_node_cmp c r) as N. destruct (node_cmp c r) as [[c1 ok1] e1]. cbn [fst] in N.
      destruct (cerr c1); [apply frame_eq; exact N|].
      eapply frame_trans; [apply frame_eq; exact N|apply branch_frame; [exact IH|exact Hr]].
    - destruct (Z.eqb (condLC r) lcNone); [|apply frame_refl].
      pose proof (v_call_cond c (h :: hs) (condHlpArg r)) as G.
      destruct (call_cond U c (h :: hs) (condHlpArg r)) as [c1 [b|]]; cbn [fst] in G; [|apply frame_eq; exact G].
      destruct (cerr c1); [apply frame_eq; exact G|].
      eapply frame_trans; [apply frame_eq; exact G|apply branch_frame; [exact IH|exact Hr]]. }
  destruct (Z.eqb (typ r) typeCondTrue || Z.eqb (typ r) typeCondFalse || Z.eqb (typ r) typeCase || Z.eqb (typ r) typeDefault).
  { apply rules_lz_frame; [exact IH|exact Hch]. }
  destruct (Z.eqb (typ r) typeSwitch).
  { assert (V : forall X : ctx * bool * option err * bool,
                frame c (fst (fst (fst X))) ->
                frame c (fst (let '(c0, ok, e, early) := X in
                         if early then (c0, e) else if ok then (c0, e)
                         else match first_default (child r) with Some d => follow U f d c0 | None => (c0, e) end))).
    { intros [[[c0 ok] e] early] A. cbn [fst] in A.
      destruct early; [exact A|]. destruct ok; [exact A|].
      destruct (first_default (child r)) as [d|] eqn:Ed; [|exact A].
      eapply frame_trans; [exact A|apply IH]. rewrite Forall_forall in Hch. apply Hch. apply first_default_in'. exact Ed. }
    apply V. destruct (switchArg r).
    - apply switch_nocond_frame; [exact IH|exact Hch].
    - apply switch_classic_frame; [exact IH|exact Hch]. }
  destruct (callback r).
  { pose proof (v_collect_args (args r) c []) as G. destruct (collect_args c (args r) []) as [c1 la]. cbn [fst] in G.
    destruct (u_cb U (src r)) as [fn|]; [|apply frame_eq; exact G].
    match goal with |- context [log_call c1 ?k (src r) la] => pose proof (v_log_call c1 k (src r) la) as L; destruct (log_call c1 k (src r) la) as [c2 n] end.
    cbn [fst] in *. apply frame_eq. congruence. }
  assert (HD : forall k, In k (ctx_name_of (dst r)) -> B k).
  { intros k Hk. apply Hown. unfold own. apply in_or_app. right. exact Hk. }
  destruct (getter r).
  { pose proof (v_collect_args (args r) c []) as G. destruct (collect_args c (args r) []) as [c1 la]. cbn [fst] in G.
    assert (V : forall X : ctx * option val * option err, vars (fst (fst X)) = vars c ->
                frame c (fst (let '(c0, res, e) := X in
                         let c2 := match res with Some v => w_bufX c0 v | None => c0 end in
                         match e with Some _ => (c2, e) | None => ctx_set_path U c2 (dst r) (bufX c2) (ins r) end))).
    { intros [[c0 res] e] A. cbn [fst] in A.
      assert (A2 : frame c match res with Some v => w_bufX c0 v | None => c0 end) by (apply frame_eq; destruct res; exact A).
      destruct e; [exact A2|]. eapply frame_trans; [exact A2|apply frame_ctx_set_path; exact HD]. }
    destruct (builtin_getter (src r)) as [g|].
    - apply V. rewrite v_run_bget. exact G.
    - destruct (u_get U (src r)) as [fn|]; [|apply frame_eq; exact G].
      match goal with |- context [log_call ?cc ?k (src r) la] => pose proof (v_log_call cc k (src r) la) as L; destruct (log_call cc k (src r) la) as [c2 n] end.
      cbn [fst] in L. cbn [vars w_bufX] in L.
      destruct (fn n la) as [v|x].
      + eapply frame_trans; [|apply frame_ctx_set_path; exact HD]. apply frame_eq. cbn [vars w_bufX]. congruence.
      + apply frame_eq. cbn [fst]. congruence. }
  destruct (nonempty (dst r) && static r).
  { eapply frame_trans; [|apply frame_ctx_set_path; exact HD]. apply frame_eq. reflexivity. }
  destruct (nonempty (dst r) && nonempty (src r) && negb (static r)); [|apply frame_refl].
  pose proof (v_ctx_get c (src r) (subset r)) as G. destruct (ctx_get c (src r) (subset r)) as [c1 va]. cbn [fst] in G.
  destruct (cerr c1); [apply frame_eq; exact G|].
  pose proof (v_run_mods (mods r) c1 va) as M. destruct (run_mods U (mods r) c1 va) as [c2 wa]. cbn [fst] in M.
  destruct (cerr c2); [apply frame_eq; cbn [fst]; congruence|].
  eapply frame_trans; [|apply frame_ctx_set_path; exact HD]. apply frame_eq. congruence.
Qed.

End WITH_U.
End FRAME.

(* C19 / C02 for whole programs: a decode changes the binding of no name other
   than those its rules bind *)
Theorem decode_binds_only_its_names U f t c k :
  ~ In k (flat_map binds t) ->
  find_var (vars (fst (decode U f t c))) k = find_var (vars c) k.
Proof.
  intro Hk. unfold decode, rules.
  apply (rules_lz_frame (fun x => In x (flat_map binds t)) (follow U f)
           (follow_frames (fun x => In x (flat_map binds t)) U f) t); [|exact Hk].
  apply Forall_forall. intros n Hn x Hx. apply in_flat_map. exists n. split; assumption.
Qed.
