(* ParserFacts.v -- the parser terminates on every byte string (fuel
   [length + 2] always suffices), rejects surplus closing braces, stray elses,
   unclosed blocks and unregistered functions, ignores line-level layout, and
   Parse is a pure function of the text whatever the registry holds. *)
From Coq Require Import List NArith ZArith Bool Lia String.
From Dec Require Import Bytes Strconv Crc Regex Tree Db Parser.
From Dec.generated Require Import Regexes.
Import ListNotations.

(* ------------------------------------------------------------ targets *)

Lemma reached_eq t p : reached t p = true -> t = p.
Proof.
  destruct t, p. unfold reached. simpl. intro H.
  apply andb_true_iff in H as [H H3]. apply andb_true_iff in H as [H1 H2].
  apply Z.eqb_eq in H1, H2, H3. subst. reflexivity.
Qed.

Lemma reached_refl t : reached t t = true.
Proof. destruct t. unfold reached. simpl. rewrite !Z.eqb_refl. reflexivity. Qed.

Lemma not_reached_incr_cl p : reached p (mkT (cc p) (cl p + 1) (cs p)) = false.
Proof. destruct p. unfold reached. simpl. rewrite Z.eqb_refl. simpl. destruct (Z.eqb_spec cl (cl + 1)); [lia|reflexivity]. Qed.
Lemma not_reached_incr_cc p : reached p (mkT (cc p + 1) (cl p) (cs p)) = false.
Proof. destruct p. unfold reached. simpl. destruct (Z.eqb_spec cc (cc + 1)); [lia|reflexivity]. Qed.
Lemma not_reached_incr_cs p : reached p (mkT (cc p) (cl p) (cs p + 1)) = false.
Proof. destruct p. unfold reached. simpl. rewrite !Z.eqb_refl. simpl. destruct (Z.eqb_spec cs (cs + 1)); [lia|reflexivity]. Qed.

(* ------------------------------------------------------------ the line cutter *)

Lemma skip_fmt_spec : forall s off o,
  skip_fmt s off = Some o ->
  off <= o /\ o - off < List.length s /\ is_fmt (nth (o - off) s 0%N) = false /\
  (forall i, i < o - off -> is_fmt (nth i s 0%N) = true).
Proof.
  induction s as [|c s IH]; intros off o H; simpl in H; [discriminate|].
  destruct (is_fmt c) eqn:E.
  - destruct (IH _ _ H) as (H1 & H2 & H3 & H4).
    replace (o - off) with (S (o - S off)) by lia.
    split; [lia|]. split; [simpl; lia|]. split; [simpl; exact H3|].
    intros i Hi. destruct i as [|i]; simpl; [exact E|apply H4; lia].
  - inversion H; subst. rewrite Nat.sub_diag.
    split; [lia|]. split; [simpl; lia|]. split; [simpl; exact E|].
    intros i Hi. lia.
Qed.

(* leading layout -- blanks, tabs, line ends of either kind, `;` -- is skipped *)
Lemma skip_fmt_layout ws : forall s off,
  forallb is_fmt ws = true -> skip_fmt (ws ++ s) off = skip_fmt s (off + List.length ws).
Proof.
  induction ws as [|c ws IH]; intros s off H; simpl.
  - f_equal. lia.
  - simpl in H. apply andb_true_iff in H as [H1 H2]. rewrite H1. rewrite IH by exact H2. f_equal. lia.
Qed.

Lemma skip_fmt_none_all s : forall off, skip_fmt s off = None -> forallb is_fmt s = true.
Proof.
  induction s as [|c s IH]; intros off H; simpl in *; [reflexivity|].
  destruct (is_fmt c); [simpl; eapply IH; eauto|discriminate].
Qed.

Lemma firstn_length_le {A} (l : list A) n : n <= List.length l -> List.length (firstn n l) = n.
Proof. intro H. rewrite firstn_length. lia. Qed.

Lemma index_byte_bound c : forall s j, index_byte c s = Some j -> j < List.length s.
Proof.
  induction s as [|x s IH]; intros j H; simpl in H; [discriminate|].
  destruct (N.eqb x c); [inversion H; simpl; lia|].
  destruct (index_byte c s) eqn:E; simpl in H; [|discriminate]. inversion H; subst. simpl.
  specialize (IH _ eq_refl). lia.
Qed.

Lemma index_pos_bound c s j : index_pos c s = Some j -> 1 <= j /\ j < List.length s.
Proof.
  unfold index_pos. destruct (index_byte c s) as [[|k]|] eqn:E; try discriminate.
  intro H; inversion H; subst. split; [lia|]. eapply index_byte_bound; eauto.
Qed.

Lemma index_any_nl_spec s : forall i,
  index_any_nl s = Some i -> i < List.length s /\ (forall k, k < i -> (N.eqb (nth k s 0%N) c_nl || N.eqb (nth k s 0%N) c_cr) = false).
Proof.
  unfold index_any_nl.
  assert (G : forall l b i,
    (fix go (l : bytes) (i : nat) : option nat :=
       match l with
       | [] => None
       | c :: r => if N.eqb c c_nl || N.eqb c c_cr then Some i else go r (S i)
       end) l b = Some i ->
    b <= i /\ i - b < List.length l /\
    (forall k, k < i - b -> (N.eqb (nth k l 0%N) c_nl || N.eqb (nth k l 0%N) c_cr) = false)).
  { induction l as [|c l IH]; intros b i H; [discriminate|].
    destruct (N.eqb c c_nl || N.eqb c c_cr) eqn:E.
    - inversion H; subst. rewrite Nat.sub_diag. split; [lia|]. split; [simpl; lia|]. intros k Hk; lia.
    - destruct (IH _ _ H) as (H1 & H2 & H3). replace (i - b) with (S (i - S b)) by lia.
      split; [lia|]. split; [simpl; lia|]. intros k Hk. destruct k as [|k]; simpl; [exact E|apply H3; lia]. }
  intros i H. destruct (G s 0 i H) as (_ & H2 & H3). rewrite Nat.sub_0_r in *. auto.
Qed.

Lemma nth_skipn' {A} (l : list A) : forall n i d, nth i (skipn n l) d = nth (n + i) l d.
Proof.
  induction l as [|x l IH]; intros n i d.
  - rewrite skipn_nil. destruct i, n; reflexivity.
  - destruct n; simpl; [reflexivity|apply IH].
Qed.

(* a control line is a non-empty prefix of the text at its offset, starting at
   a byte that is not layout *)
Lemma next_ctl_spec body off ctl o :
  next_ctl body off = Some (ctl, o) ->
  off <= o /\ 1 <= List.length ctl /\ o + List.length ctl <= List.length body /\
  is_fmt (nth 0 ctl 0%N) = false /\ ctl = firstn (List.length ctl) (skipn o body).
Proof.
  unfold next_ctl. intro H.
  destruct (skip_fmt (skipn off body) off) as [o'|] eqn:Es; [|discriminate].
  destruct (skip_fmt_spec _ _ _ Es) as (S1 & S2 & S3 & _).
  rewrite skipn_length in S2.
  set (rest := skipn o' body) in *.
  assert (Hrest : 1 <= List.length rest) by (unfold rest; rewrite skipn_length; lia).
  assert (Hfirst : is_fmt (nth 0 rest 0%N) = false).
  { unfold rest. rewrite nth_skipn' in S3. rewrite nth_skipn'. replace (o' + 0) with (off + (o' - off)) by lia. exact S3. }
  assert (Hlen : o' + List.length rest = List.length body) by (unfold rest; rewrite skipn_length; lia).
  set (i := match index_any_nl rest with Some i => i | None => List.length rest end) in *.
  assert (Hi : 1 <= i /\ i <= List.length rest).
  { unfold i. destruct (index_any_nl rest) as [k|] eqn:Ek; [|lia].
    destruct (index_any_nl_spec _ _ Ek) as [K1 K2]. split; [|lia].
    destruct k; [|lia]. exfalso.
    (* the first byte is not layout, so it is not a line end *)
    clear -Ek Hfirst. unfold index_any_nl in Ek. destruct rest as [|c r]; [discriminate|]. simpl in *.
    destruct (N.eqb c c_nl || N.eqb c c_cr) eqn:E.
    - unfold is_fmt in Hfirst. apply orb_false_iff in Hfirst as [Hf _]. apply orb_false_iff in Hf as [Hf _].
      apply orb_false_iff in Hf as [Hf _]. rewrite Hf in E. discriminate.
    - assert (G : forall l b k, (fix go (l : bytes) (i : nat) : option nat :=
         match l with [] => None | c :: r => if N.eqb c c_nl || N.eqb c c_cr then Some i else go r (S i) end) l b = Some k -> b <= k).
      { induction l as [|x l IH]; intros b k H; [discriminate|].
        destruct (N.eqb x c_nl || N.eqb x c_cr); [inversion H; lia|]. specialize (IH _ _ H). lia. }
      specialize (G _ _ _ Ek). lia. }
  assert (Hctl : forall k, 1 <= k -> k <= List.length rest ->
            1 <= List.length (firstn k rest) /\ o' + List.length (firstn k rest) <= List.length body /\
            is_fmt (nth 0 (firstn k rest) 0%N) = false /\
            firstn k rest = firstn (List.length (firstn k rest)) (skipn o' body)).
  { intros k K1 K2. rewrite firstn_length_le by lia. repeat split; try lia.
    destruct rest as [|c r]; [simpl in Hrest; lia|]. destruct k; [lia|]. simpl. exact Hfirst. }
  assert (Hfi : List.length (firstn i rest) = i) by (apply firstn_length_le; lia).
  (* every branch returns firstn k rest for some 1 <= k <= i *)
  assert (Hgoal : forall k, 1 <= k -> k <= List.length rest -> (firstn k rest, o') = (ctl, o) ->
            off <= o /\ 1 <= List.length ctl /\ o + List.length ctl <= List.length body /\
            is_fmt (nth 0 ctl 0%N) = false /\ ctl = firstn (List.length ctl) (skipn o body)).
  { intros k K1 K2 E. inversion E; subst. destruct (Hctl k K1 K2) as (A & B & C & D). repeat split; auto. }
  cbv zeta in H. fold rest in H. fold i in H.
  repeat match type of H with
  | context [index_pos ?c (firstn i rest)] =>
      let E := fresh "E" in
      destruct (index_pos c (firstn i rest)) as [?j|] eqn:E;
      [apply index_pos_bound in E; rewrite Hfi in E|]
  | context [if ?b then _ else _] => destruct b
  end;
  inversion H; subst;
  repeat match goal with
  | |- context [match rest with [] => [] | a :: l => a :: firstn ?j l end] =>
      change (match rest with [] => [] | a :: l => a :: firstn j l end) with (firstn (S j) rest)
  end;
  try (apply (Hgoal i); [lia|lia|reflexivity]);
  try (match goal with |- context [firstn (S ?j) rest] => apply (Hgoal (S j)); [lia|lia|reflexivity] end);
  try (match goal with |- context [firstn ?j rest] => apply (Hgoal j); [lia|lia|reflexivity] end).
Qed.

Lemma trim_left_head set s : s <> [] -> mem_byte (nth 0 s 0%N) set = false -> trim_left set s = s.
Proof. destruct s as [|c s]; [congruence|]. simpl. intros _ H. rewrite H. reflexivity. Qed.

(* trailing blanks and tabs are dropped and nothing else: the line keeps its
   first byte, so it stays non-empty *)
Lemma trim_right_blank_nonempty ctl :
  1 <= List.length ctl -> is_fmt (nth 0 ctl 0%N) = false -> 1 <= List.length (trim_right_blank ctl).
Proof.
  intros H1 H2. unfold trim_right_blank, trim_right.
  rewrite rev_length.
  assert (G : forall l, l <> [] -> mem_byte (last l 0%N) [c_sp; c_tab] = false -> 1 <= List.length (trim_left [c_sp; c_tab] l)).
  { induction l as [|c l IH]; intros Hn Hm; [congruence|].
    cbn [trim_left]. destruct (mem_byte c [c_sp; c_tab]) eqn:E; [|cbn [List.length]; lia].
    (* c is blank but the last byte is not: something non-blank remains *)
    destruct l as [|d l].
    - cbn [last] in Hm. congruence.
    - apply IH; [congruence|]. exact Hm. }
  apply G.
  - intro E. apply (f_equal (@List.length N)) in E. rewrite rev_length in E. simpl in E. lia.
  - destruct ctl as [|c r]; [simpl in H1; lia|].
    assert (L : last (rev (c :: r)) 0%N = c).
    { simpl. rewrite last_last. reflexivity. }
    rewrite L. simpl in H2. unfold is_fmt in H2. unfold mem_byte. simpl.
    apply orb_false_iff in H2 as [H2 _]. apply orb_false_iff in H2 as [H2 Hsp].
    apply orb_false_iff in H2 as [_ Htab]. rewrite Hsp, Htab. reflexivity.
Qed.

(* ------------------------------------------------------------ processCtl *)

Section WITH_NAMES.
Variable NM : names.

Definition rec_t := list node -> option node -> nat -> target -> target -> pres.

(* what [process] needs from the parser it calls for nested blocks: a nested
   block that ends without error has consumed something and has brought the
   counters back to its target *)
Definition rec_nested_ok (rec : rec_t) : Prop :=
  forall dst root off t p, reached t p = false -> p_err (rec dst root off t p) = None ->
    off < p_off (rec dst root off t p) /\ reached t (p_cnt (rec dst root off t p)) = true.

Ltac nested rec Hrec tac :=
  match goal with
  | |- context [p_err (rec ?d ?r ?o ?t ?p)] =>
      let E := fresh "E" in
      destruct (p_err (rec d r o t p)) eqn:E;
      [|let H1 := fresh in let H2 := fresh in
        destruct (Hrec d r o t p ltac:(first [apply not_reached_incr_cl|apply not_reached_incr_cc|apply not_reached_incr_cs]) E) as [H1 H2];
        apply reached_eq in H2]
  end.

(* a statement consumes at least one byte and leaves the counters alone; a
   closing brace consumes exactly one byte; an error is an error *)
Lemma process_progress rec dst root ctl off p :
  rec_nested_ok rec -> 1 <= List.length ctl ->
  match process NM rec dst root ctl off p with
  | SNext r => off < p_off r /\ p_cnt r = p /\ p_err r = None
  | SUp r => p_off r = S off /\ p_err r = None
  | SErr r => p_err r <> None
  end.
Proof.
  intros Hrec Hlen. unfold process.
  destruct ctl as [|c0 ctl']; [simpl in Hlen; lia|].
  set (ctl := c0 :: ctl') in *.
  destruct (N.eqb c0 c_hash || has_prefix (bs "//") ctl); [cbn [p_off p_cnt p_err]; repeat split; lia|].
  destruct (mt re_reLoop ncap_reLoop ctl).
  { destruct (negb (N.eqb (last ctl 0%N) c_lbrace)); [cbn [p_off p_cnt p_err]; discriminate|].
    destruct (loop_header ctl) as [r|]; [|cbn [p_off p_cnt p_err]; discriminate].
    nested rec Hrec idtac; cbn [p_off p_cnt p_err]; [discriminate|]. repeat split; try lia. congruence. }
  destruct (mt re_reCondOK ncap_reCondOK ctl).
  { destruct (negb (N.eqb (last ctl 0%N) c_lbrace)); [cbn [p_off p_cnt p_err]; discriminate|].
    nested rec Hrec idtac; cbn [p_off p_cnt p_err]; [discriminate|]. repeat split; try lia. congruence. }
  destruct (mt re_reCond ncap_reCond ctl).
  { destruct (negb (N.eqb (last ctl 0%N) c_lbrace)); [cbn [p_off p_cnt p_err]; discriminate|].
    destruct (mt re_reCondComplex ncap_reCondComplex ctl).
    - destruct (sub re_reCondHelper ncap_reCondHelper ctl); [|cbn [p_off p_cnt p_err]; discriminate].
      nested rec Hrec idtac; cbn [p_off p_cnt p_err]; [discriminate|]. repeat split; try lia. congruence.
    - destruct (parseCondExpr re_reCondExpr ncap_reCondExpr ctl) as [[[[l r_] sl] sr] op].
      nested rec Hrec idtac; cbn [p_off p_cnt p_err]; [discriminate|]. repeat split; try lia. congruence. }
  destruct (mt re_reCondElse ncap_reCondElse ctl).
  { destruct root; cbn [p_off p_cnt p_err]; [repeat split; lia|discriminate]. }
  destruct (sub re_reSwitch ncap_reSwitch ctl).
  { destruct (negb (N.eqb (last ctl 0%N) c_lbrace)); [cbn [p_off p_cnt p_err]; discriminate|].
    nested rec Hrec idtac; cbn [p_off p_cnt p_err]; [discriminate|]. repeat split; try lia. congruence. }
  destruct (sub re_reSwitchCaseHelper ncap_reSwitchCaseHelper ctl); [cbn [p_off p_cnt p_err]; repeat split; lia|].
  destruct (mt re_reSwitchCase ncap_reSwitchCase ctl); [cbn [p_off p_cnt p_err]; repeat split; lia|].
  destruct (mt re_reSwitchDefault ncap_reSwitchDefault ctl); [cbn [p_off p_cnt p_err]; repeat split; lia|].
  destruct (N.eqb c0 c_rbrace).
  { destruct root as [rt|]; [|cbn [p_off p_cnt p_err]; discriminate].
    destruct (close_block p (typ rt)) as [p' [x|]]; cbn [p_off p_cnt p_err]; [discriminate|auto]. }
  destruct (simple_stmt NM ctl); cbn [p_off p_cnt p_err]; [repeat split; lia|discriminate].
Qed.

(* which errors a control line can produce by itself *)
Lemma process_error_source rec dst root ctl off p r :
  process NM rec dst root ctl off p = SErr r -> p_err r = Some PEFuel ->
  exists d0 r0 t0 p0, p_err (rec d0 r0 (off + List.length ctl) t0 p0) = Some PEFuel.
Proof.
  unfold process. intros H HF.
  destruct ctl as [|c0 ctl']; [discriminate|].
  set (ctl := c0 :: ctl') in *.
  destruct (N.eqb c0 c_hash || has_prefix (bs "//") ctl); [discriminate|].
  destruct (mt re_reLoop ncap_reLoop ctl).
  { destruct (negb (N.eqb (last ctl 0%N) c_lbrace)); [inversion H; subst; discriminate|].
    destruct (loop_header ctl) as [r0|]; [|inversion H; subst; discriminate].
    match type of H with context [p_err (rec ?d ?rr ?o ?t ?pp)] =>
      destruct (p_err (rec d rr o t pp)) eqn:E; inversion H; subst; simpl in HF; inversion HF; subst;
      exists d, rr, t, pp; exact E end. }
  destruct (mt re_reCondOK ncap_reCondOK ctl).
  { destruct (negb (N.eqb (last ctl 0%N) c_lbrace)); [inversion H; subst; discriminate|].
    match type of H with context [p_err (rec ?d ?rr ?o ?t ?pp)] =>
      destruct (p_err (rec d rr o t pp)) eqn:E; inversion H; subst; simpl in HF; inversion HF; subst;
      exists d, rr, t, pp; exact E end. }
  destruct (mt re_reCond ncap_reCond ctl).
  { destruct (negb (N.eqb (last ctl 0%N) c_lbrace)); [inversion H; subst; discriminate|].
    destruct (mt re_reCondComplex ncap_reCondComplex ctl).
    - destruct (sub re_reCondHelper ncap_reCondHelper ctl); [|inversion H; subst; discriminate].
      match type of H with context [p_err (rec ?d ?rr ?o ?t ?pp)] =>
        destruct (p_err (rec d rr o t pp)) eqn:E; inversion H; subst; simpl in HF; inversion HF; subst;
        exists d, rr, t, pp; exact E end.
    - destruct (parseCondExpr re_reCondExpr ncap_reCondExpr ctl) as [[[[l r_] sl] sr] op].
      match type of H with context [p_err (rec ?d ?rr ?o ?t ?pp)] =>
        destruct (p_err (rec d rr o t pp)) eqn:E; inversion H; subst; simpl in HF; inversion HF; subst;
        exists d, rr, t, pp; exact E end. }
  destruct (mt re_reCondElse ncap_reCondElse ctl).
  { destruct root; inversion H; subst; discriminate. }
  destruct (sub re_reSwitch ncap_reSwitch ctl).
  { destruct (negb (N.eqb (last ctl 0%N) c_lbrace)); [inversion H; subst; discriminate|].
    match type of H with context [p_err (rec ?d ?rr ?o ?t ?pp)] =>
      destruct (p_err (rec d rr o t pp)) eqn:E; inversion H; subst; simpl in HF; inversion HF; subst;
      exists d, rr, t, pp; exact E end. }
  destruct (sub re_reSwitchCaseHelper ncap_reSwitchCaseHelper ctl); [discriminate|].
  destruct (mt re_reSwitchCase ncap_reSwitchCase ctl); [discriminate|].
  destruct (mt re_reSwitchDefault ncap_reSwitchDefault ctl); [discriminate|].
  destruct (N.eqb c0 c_rbrace).
  { destruct root as [rt|]; [|inversion H; subst; discriminate].
    unfold close_block in H.
    destruct (Z.eqb (typ rt) typeLoopCount || Z.eqb (typ rt) typeLoopRange); [discriminate|].
    destruct (Z.eqb (typ rt) typeCond || Z.eqb (typ rt) typeCondOK || Z.eqb (typ rt) typeElse || Z.eqb (typ rt) typeDiv); [discriminate|].
    destruct (Z.eqb (typ rt) typeSwitch); [discriminate|]. inversion H; subst; discriminate. }
  destruct (simple_stmt NM ctl) as [nd|e] eqn:Es; [discriminate|].
  inversion H; subst. simpl in HF. inversion HF; subst.
  (* simple statements never produce PEFuel *)
  exfalso. clear -Es. unfold simple_stmt in Es.
  repeat match type of Es with
  | context [if ?b then _ else _] => destruct b
  | context [match ?x with _ => _ end] => destruct x
  end; try discriminate.
Qed.

(* ------------------------------------------------------------ parse *)

Local Arguments reached : simpl never.
Local Arguments eqZero : simpl never.
Local Arguments next_ctl : simpl never.
Local Arguments process : simpl never.
Local Arguments trim_right_blank : simpl never.

Section WITH_BODY.
Variable body : bytes.

Lemma parse_nested_ok : forall fuel, rec_nested_ok (parse NM body fuel).
Proof.
  induction fuel as [|f IH]; intros dst root off t p Hr He; [simpl in He; discriminate|].
  simpl in He |- *. rewrite Hr in He |- *. simpl in He |- *.
  destruct (next_ctl body off) as [[ctl0 o]|] eqn:En; [|simpl in He; discriminate].
  destruct (next_ctl_spec _ _ _ _ En) as (N1 & N2 & N3 & N4 & _).
  pose proof (trim_right_blank_nonempty ctl0 N2 N4) as Nt.
  pose proof (process_progress (parse NM body f) dst root (trim_right_blank ctl0) o p IH Nt) as P.
  destruct (process NM (parse NM body f) dst root (trim_right_blank ctl0) o p) as [r|r|r].
  - contradiction.
  - destruct P as [P1 P2]. unfold perr_of in He |- *. simpl in He |- *.
    destruct (reached t (p_cnt r)) eqn:Er; [|discriminate]. split; [lia|reflexivity].
  - destruct P as (P1 & P2 & P3).
    assert (Hr' : reached t (p_cnt r) = false) by (rewrite P2; exact Hr).
    destruct (IH (p_nodes r) (p_root r) (p_off r) t (p_cnt r) Hr' He) as [Q1 Q2]. split; [lia|exact Q2].
Qed.

(* C08: Parse terminates. With fuel above the number of bytes left, the
   parser never reports running out of fuel -- at any nesting depth, for any
   byte string. *)
Theorem parse_fuel_sufficient : forall fuel dst root off t p,
  List.length body + 1 - off < fuel ->
  p_err (parse NM body fuel dst root off t p) <> Some PEFuel.
Proof.
  induction fuel as [|f IH]; intros dst root off t p Hf; [lia|].
  simpl. destruct (reached t p && negb (eqZero t)); [simpl; discriminate|].
  destruct (next_ctl body off) as [[ctl0 o]|] eqn:En.
  2:{ simpl. destruct (reached t p); discriminate. }
  destruct (next_ctl_spec _ _ _ _ En) as (N1 & N2 & N3 & N4 & _).
  pose proof (trim_right_blank_nonempty ctl0 N2 N4) as Nt.
  pose proof (process_progress (parse NM body f) dst root (trim_right_blank ctl0) o p (parse_nested_ok f) Nt) as P.
  destruct (process NM (parse NM body f) dst root (trim_right_blank ctl0) o p) as [r|r|r] eqn:Ep.
  - intro HF. destruct (process_error_source _ _ _ _ _ _ _ Ep HF) as (d0 & r0 & t0 & p0 & Hx).
    revert Hx. apply IH. lia.
  - destruct P as [P1 P2]. unfold perr_of. simpl. destruct (reached t (p_cnt r)); discriminate.
  - destruct P as (P1 & P2 & P3). apply IH. lia.
Qed.

End WITH_BODY.

Corollary parse_pure_terminates src : snd (parse_pure NM src) <> Some PEFuel.
Proof. unfold parse_pure. cbv zeta. cbn [snd]. apply parse_fuel_sufficient. lia. Qed.

(* ------------------------------------------------------------ rejections *)

(* a surplus closing brace (no open block) is rejected *)
Theorem surplus_close_rejected rec dst ctl' off p :
  mt re_reLoop ncap_reLoop (c_rbrace :: ctl') = false ->
  mt re_reCondOK ncap_reCondOK (c_rbrace :: ctl') = false ->
  mt re_reCond ncap_reCond (c_rbrace :: ctl') = false ->
  mt re_reCondElse ncap_reCondElse (c_rbrace :: ctl') = false ->
  sub re_reSwitch ncap_reSwitch (c_rbrace :: ctl') = None ->
  sub re_reSwitchCaseHelper ncap_reSwitchCaseHelper (c_rbrace :: ctl') = None ->
  mt re_reSwitchCase ncap_reSwitchCase (c_rbrace :: ctl') = false ->
  mt re_reSwitchDefault ncap_reSwitchDefault (c_rbrace :: ctl') = false ->
  process NM rec dst None (c_rbrace :: ctl') off p = SErr (mkP dst (S off) p None (Some PEUnexpectedClose)).
Proof.
  intros H1 H2 H3 H4 H5 H6 H7 H8. unfold process.
  change (N.eqb c_rbrace c_hash) with false. simpl orb.
  change (has_prefix (bs "//") (c_rbrace :: ctl')) with false. cbv iota.
  rewrite H1, H2, H3, H4, H5, H6, H7, H8. reflexivity.
Qed.

(* the plain line "}" at top level: the regular expressions are evaluated *)
Example surplus_close_line rec dst off p :
  process NM rec dst None [c_rbrace] off p = SErr (mkP dst (S off) p None (Some PEUnexpectedClose)).
Proof. apply surplus_close_rejected; vm_compute; reflexivity. Qed.

(* an else with no open block is rejected *)
Example stray_else_line rec dst off p :
  process NM rec dst None (bs "} else {") off p = SErr (mkP dst off p None (Some PEUnexpectedClose)).
Proof. vm_compute. reflexivity. Qed.

(* end of input inside an open block is rejected *)
Theorem eof_in_block_rejected body fuel dst root off t p :
  reached t p = false -> next_ctl body off = None ->
  p_err (parse NM body (S fuel) dst root off t p) = Some PEUnbalanced.
Proof. intros Hr He. simpl. rewrite Hr, He. simpl. reflexivity. Qed.

(* a call line naming no registered callback is rejected *)
Theorem unknown_callback_rejected ctl m :
  mt re_reLoopLBrk ncap_reLoopLBrk ctl = false -> bytes_eqb ctl (bs "lazybreak") = false ->
  mt re_reLoopBrk ncap_reLoopBrk ctl = false -> bytes_eqb ctl (bs "break") = false ->
  bytes_eqb ctl (bs "continue") = false ->
  mt re_reAssignV2C ncap_reAssignV2C ctl = false -> mt re_reAssignV2V ncap_reAssignV2V ctl = false ->
  mt re_reFunction ncap_reFunction ctl = true -> sub re_reFunction ncap_reFunction ctl = Some m ->
  is_callback NM (g m 1) = false ->
  simple_stmt NM ctl = inr PEUnknownCallback.
Proof.
  intros H1 H2 H3 H4 H5 H6 H7 H8 H9 H10. unfold simple_stmt.
  rewrite H1, H2, H3, H4, H5, H6, H7, H8, H9, H10. reflexivity.
Qed.

(* comments produce no node *)
Lemma comment_skipped rec dst root ctl' off p :
  process NM rec dst root (c_hash :: ctl') off p = SNext (mkP dst (off + S (List.length ctl')) p root None).
Proof. reflexivity. Qed.

(* ------------------------------------------------------------ C20 *)

(* every tree the registry holds that records a text is the tree of that text *)
Definition wf_tree (t : tree) : Prop := forall s, t_src t = Some s -> mk_tree NM s = (t, None).
Definition wf_db (d : db tree) : Prop := forall dec, In dec (buf d) -> wf_tree (d_tree dec).

Lemma mk_tree_wf src : wf_tree (fst (mk_tree NM src)).
Proof.
  intros s H. unfold mk_tree in *.
  destruct (parse_pure NM src) as [ns [e|]] eqn:E; simpl in H; [discriminate|].
  inversion H; subst s. rewrite E. reflexivity.
Qed.

(* a tree built by hand (the zero Tree) records no text *)
Lemma zero_tree_wf ns h : wf_tree (mkTree ns h None).
Proof. intros s H. discriminate. Qed.

Lemma In_set_nth {A} (l : list A) : forall n x y, In y (set_nth l n x) -> y = x \/ In y l.
Proof.
  induction l as [|a l IH]; intros [|n] x y H; simpl in *; auto.
  - destruct H; auto.
  - destruct H as [H|H]; auto. destruct (IH _ _ _ H); auto.
Qed.

Lemma set_wf d id key t : wf_db d -> wf_tree t -> wf_db (set tree t_hsum t_src d id key t).
Proof.
  intros Hd Ht dec Hin. unfold set in Hin.
  destruct (in_range d (getIdxLF d id key)) as [i|]; simpl in Hin.
  - apply In_set_nth in Hin as [->|Hin]; [exact Ht|apply Hd; exact Hin].
  - apply in_app_or in Hin as [Hin|[<-|[]]]; [apply Hd; exact Hin|exact Ht].
Qed.

(* C20: whatever the registry holds, Parse answers what parsing the text answers *)
Theorem parse_ignores_registry d src : wf_db d -> parse_api NM d src = mk_tree NM src.
Proof.
  intro Hd. unfold parse_api, getTreeByHash.
  destruct (in_range d (idxHash d (crc64_iso src))) as [i|]; [|reflexivity].
  destruct (nth_error (buf d) i) as [dec|] eqn:En; [|reflexivity].
  destruct (t_src (d_tree dec)) as [s|] eqn:Es; [|reflexivity].
  destruct (N.eqb (t_hsum (d_tree dec)) (crc64_iso src) && bytes_eqb s src) eqn:E; [|reflexivity].
  apply andb_true_iff in E as [_ E]. apply bytes_eqb_eq in E. subst s.
  symmetry. apply (Hd dec (nth_error_In _ _ En)). exact Es.
Qed.

Lemma initDB_wf : wf_db initDB.
Proof. intros dec []. Qed.

End WITH_NAMES.
