(* DbProofs.v -- the registry of db.go refines the abstract registry of
   DbSpec.v on every valid history (C12). *)
From Coq Require Import List NArith ZArith Bool Lia.
From Dec Require Import Bytes Db DbSpec.
Import ListNotations.

Section PROOFS.
Variable T : Type.
Variable t_hsum : T -> N.
Variable t_src : T -> option bytes.

Notation db := (db T).
Notation set := (set T t_hsum t_src).
Notation apply_reg := (apply_reg T t_hsum t_src).
Notation run_regs := (run_regs T t_hsum t_src).

(* ---------- list lemmas ---------- *)

Lemma length_set_nth {A} (l : list A) n x : length (set_nth l n x) = length l.
Proof. revert n; induction l as [|y l IH]; intros [|n]; simpl; auto. Qed.

Lemma nth_set_nth_same {A} (l : list A) n x :
  n < length l -> nth_error (set_nth l n x) n = Some x.
Proof.
  revert n; induction l as [|y l IH]; intros [|n] H; simpl in *; try lia; auto.
  apply IH. lia.
Qed.

Lemma nth_set_nth_other {A} (l : list A) n m x :
  n <> m -> nth_error (set_nth l n x) m = nth_error l m.
Proof.
  revert n m; induction l as [|y l IH]; intros [|n] [|m] H; simpl; auto; try congruence.
Qed.

Lemma nth_app_last {A} (l : list A) x : nth_error (l ++ [x]) (length l) = Some x.
Proof. rewrite nth_error_app2 by lia. rewrite Nat.sub_diag. reflexivity. Qed.

Lemma nth_app_old {A} (l : list A) x i : i < length l -> nth_error (l ++ [x]) i = nth_error l i.
Proof. intro H. apply nth_error_app1. exact H. Qed.

(* ---------- abstraction ---------- *)

Definition slot (d : db) (i : nat) : option T := option_map d_tree (nth_error (buf d) i).
Definition tI (d : db) (id : Z) : option T :=
  match idxID d id with Some i => slot d i | None => None end.
Definition tK (d : db) (k : bytes) : option T :=
  match idxKey d k with Some i => slot d i | None => None end.

Record Inv (d : db) (s : spec T) : Prop := {
  inv_idb : forall id i, idxID d id = Some i -> i < length (buf d);
  inv_kb : forall k i, idxKey d k = Some i -> i < length (buf d);
  inv_mI : forall id, mI s id = tI d id;
  inv_mK : forall k, mK s k = tK d k;
  inv_share : forall id k i, idxID d id = Some i -> idxKey d k = Some i ->
                             pK s id = Some k;
  inv_pair : forall id k, pK s id = Some k ->
                          exists i, idxID d id = Some i /\ idxKey d k = Some i;
  inv_sym : forall id k, pK s id = Some k <-> pI s k = Some id;
  inv_injI : forall a b i, idxID d a = Some i -> idxID d b = Some i -> a = b;
  inv_injK : forall a b i, idxKey d a = Some i -> idxKey d b = Some i -> a = b;
  inv_negI : forall id, (id < 0)%Z -> idxID d id = None;
  inv_noK : idxKey d nokey = None;
}.

Lemma Inv_init : Inv initDB spec_init.
Proof.
  constructor; simpl; intros; try discriminate; try reflexivity; try tauto.
  split; discriminate.
Qed.

(* lookups in terms of the abstraction *)
Lemma lookup_id_abs d s id : Inv d s -> lookup_id d id = mI s id.
Proof.
  intros I. unfold lookup_id, getID, get, getIdxLF.
  rewrite (inv_noK _ _ I). rewrite (inv_mI _ _ I). unfold tI, slot, in_range.
  destruct (idxID d id) as [i|] eqn:E; [|reflexivity].
  pose proof (inv_idb _ _ I _ _ E) as Hb. apply Nat.ltb_lt in Hb. rewrite Hb. reflexivity.
Qed.

Lemma lookup_key_abs d s k : Inv d s -> lookup_key d k = mK s k.
Proof.
  intros I. unfold lookup_key, getKey, get, getIdxLF.
  rewrite (inv_mK _ _ I). unfold tK, slot, in_range.
  destruct (idxKey d k) as [i|] eqn:E.
  - pose proof (inv_kb _ _ I _ _ E) as Hb. apply Nat.ltb_lt in Hb. rewrite Hb. reflexivity.
  - rewrite (inv_negI _ _ I) by lia. reflexivity.
Qed.

Lemma lookup_fb_abs d s k fb : Inv d s -> lookup_fb d k fb = spec_fb s k fb.
Proof.
  intros I. unfold lookup_fb, getKey1, spec_fb.
  rewrite !(inv_mK _ _ I). unfold tK, slot, in_range.
  destruct (idxKey d k) as [i|] eqn:E.
  - pose proof (inv_kb _ _ I _ _ E) as Hb. pose proof Hb as Hb'. apply Nat.ltb_lt in Hb. rewrite Hb.
    destruct (nth_error (buf d) i) eqn:En; [reflexivity|].
    apply nth_error_None in En. lia.
  - destruct (idxKey d fb) as [j|] eqn:E2; [|reflexivity].
    pose proof (inv_kb _ _ I _ _ E2) as Hb. apply Nat.ltb_lt in Hb. rewrite Hb. reflexivity.
Qed.


(* ---------- one registration step preserves the invariant ---------- *)

Lemma eqb_Z_refl x : Z.eqb x x = true. Proof. apply Z.eqb_refl. Qed.

Ltac eqbs :=
  repeat match goal with
  | |- context [Z.eqb ?a ?b] => destruct (Z.eqb_spec a b); subst
  | |- context [bytes_eqb ?a ?b] =>
      let E := fresh "E" in destruct (bytes_eqb a b) eqn:E;
      [apply bytes_eqb_eq in E; subst | apply bytes_eqb_neq in E]
  end.

Lemma in_range_some (d : db) i : i < length (buf d) -> in_range d (Some i) = Some i.
Proof. intro H. unfold in_range. apply Nat.ltb_lt in H. rewrite H. reflexivity. Qed.

(* what [set] does, as three cases *)
Lemma set_cases (d : db) id key t :
  (forall k i, idxKey d k = Some i -> i < length (buf d)) ->
  (forall a i, idxID d a = Some i -> i < length (buf d)) ->
  let dec := {| d_id := id; d_key := key; d_tree := t |} in
  exists idx buf',
    buf (set d id key t) = buf' /\
    idxID (set d id key t) = (if Z.leb 0 id then upd_Z (idxID d) id idx else idxID d) /\
    idxKey (set d id key t) = (if bytes_eqb key nokey then idxKey d else upd_B (idxKey d) key idx) /\
    ((getIdxLF d id key = Some idx /\ idx < length (buf d) /\ buf' = set_nth (buf d) idx dec) \/
     (getIdxLF d id key = None /\ idx = length (buf d) /\ buf' = buf d ++ [dec])).
Proof.
  intros Hk Hi dec. unfold set. fold dec.
  destruct (getIdxLF d id key) as [i|] eqn:E.
  - assert (i < length (buf d)) as Hlt.
    { unfold getIdxLF in E. destruct (idxKey d key) eqn:E2.
      - inversion E; subst. eapply Hk; eauto.
      - eapply Hi; eauto. }
    rewrite in_range_some by exact Hlt. simpl.
    exists i, (set_nth (buf d) i dec). repeat split; auto.
  - simpl. exists (length (buf d)), (buf d ++ [dec]). repeat split; auto.
Qed.


Lemma slot_set_same (d d' : db) i x :
  buf d' = set_nth (buf d) i x -> i < length (buf d) -> slot d' i = Some (d_tree x).
Proof. intros H L. unfold slot. rewrite H, nth_set_nth_same by exact L. reflexivity. Qed.

Lemma slot_set_other (d d' : db) i j x :
  buf d' = set_nth (buf d) i x -> i <> j -> slot d' j = slot d j.
Proof. intros H L. unfold slot. rewrite H, nth_set_nth_other by exact L. reflexivity. Qed.

Lemma slot_app_last (d d' : db) x :
  buf d' = buf d ++ [x] -> slot d' (length (buf d)) = Some (d_tree x).
Proof. intros H. unfold slot. rewrite H, nth_app_last. reflexivity. Qed.

Lemma slot_app_old (d d' : db) x j :
  buf d' = buf d ++ [x] -> j < length (buf d) -> slot d' j = slot d j.
Proof. intros H L. unfold slot. rewrite H, nth_app_old by exact L. reflexivity. Qed.

Lemma step_RegID d s id t :
  Inv d s -> (0 <= id)%Z -> Inv (set d id nokey t) (spec_apply s (RegID id t)).
Proof.
  intros I Hid.
  destruct (set_cases d id nokey t (inv_kb _ _ I) (inv_idb _ _ I)) as (idx & buf' & Hb & HI & HK & Hc).
  assert (Z.leb 0 id = true) as Hle by (apply Z.leb_le; exact Hid).
  rewrite Hle in HI. rewrite bytes_eqb_refl in HK.
  set (d' := set d id nokey t) in *.
  unfold getIdxLF in Hc. rewrite (inv_noK _ _ I) in Hc.
  assert (Hlen : length (buf d) <= length (buf d')).
  { rewrite Hb. destruct Hc as [(_ & _ & ->)|(_ & _ & ->)].
    - rewrite length_set_nth. lia.
    - rewrite app_length. simpl. lia. }
  assert (Hidx : idx < length (buf d')).
  { rewrite Hb. destruct Hc as [(_ & L & ->)|(_ & -> & ->)].
    - rewrite length_set_nth. lia.
    - rewrite app_length. simpl. lia. }
  assert (Hslot_idx : slot d' idx = Some t).
  { destruct Hc as [(_ & L & E)|(_ & -> & E)]; rewrite <- Hb in E.
    - rewrite (slot_set_same d d' idx _ E L). reflexivity.
    - rewrite (slot_app_last d d' _ E). reflexivity. }
  assert (Hslot_other : forall j, j < length (buf d) -> j <> idx -> slot d' j = slot d j).
  { intros j Lj Nj. destruct Hc as [(_ & L & E)|(_ & -> & E)]; rewrite <- Hb in E.
    - apply (slot_set_other d d' idx j _ E). congruence.
    - apply (slot_app_old d d' _ j E Lj). }
  (* who else points at idx in the old registry? only id itself, and its partner key *)
  assert (HoI : forall a, idxID d a = Some idx -> a = id).
  { intros a Ha. destruct Hc as [(E & _ & _)|(_ & -> & _)].
    - eapply (inv_injI _ _ I); eauto.
    - apply (inv_idb _ _ I) in Ha. lia. }
  assert (HoK : forall k, idxKey d k = Some idx -> pK s id = Some k).
  { intros k Hk. destruct Hc as [(E & _ & _)|(_ & -> & _)].
    - eapply (inv_share _ _ I); eauto.
    - apply (inv_kb _ _ I) in Hk. lia. }
  constructor; simpl.
  - intros a i. rewrite HI. unfold upd_Z. eqbs.
    + intro E; inversion E; subst. exact Hidx.
    + intro E. apply (inv_idb _ _ I) in E. lia.
  - intros k i. rewrite HK. intro E. apply (inv_kb _ _ I) in E. lia.
  - intros a. unfold tI. rewrite HI. unfold upd_Z. eqbs.
    + symmetry. exact Hslot_idx.
    + rewrite (inv_mI _ _ I). unfold tI. destruct (idxID d a) as [j|] eqn:Ej; [|reflexivity].
      symmetry. apply Hslot_other. { eapply (inv_idb _ _ I); eauto. }
      intro; subst j. apply n. apply HoI. exact Ej.
  - intros k. unfold tK. rewrite HK. unfold opt_is_key.
    destruct (pK s id) as [pk|] eqn:Ep.
    + eqbs.
      * destruct (inv_pair _ _ I _ _ Ep) as (i & Ei & Ek). rewrite Ek.
        destruct Hc as [(E & _ & _)|(E & _ & _)]; [|congruence].
        assert (i = idx) by congruence. subst i. symmetry. exact Hslot_idx.
      * rewrite (inv_mK _ _ I). unfold tK. destruct (idxKey d k) as [j|] eqn:Ej; [|reflexivity].
        symmetry. apply Hslot_other. { eapply (inv_kb _ _ I); eauto. }
        intro; subst j. apply HoK in Ej. congruence.
    + rewrite (inv_mK _ _ I). unfold tK. destruct (idxKey d k) as [j|] eqn:Ej; [|reflexivity].
      symmetry. apply Hslot_other. { eapply (inv_kb _ _ I); eauto. }
      intro; subst j. apply HoK in Ej. congruence.
  - intros a k i. rewrite HI, HK. unfold upd_Z. eqbs.
    + intros E Ek. inversion E; subst i. apply HoK. exact Ek.
    + apply (inv_share _ _ I).
  - intros a k Hp. rewrite HI, HK. unfold upd_Z.
    destruct (inv_pair _ _ I _ _ Hp) as (i & Ei & Ek). eqbs.
    + exists idx. split; [reflexivity|].
      destruct Hc as [(E & _ & _)|(E & _ & _)]; congruence.
    + exists i. split; assumption.
  - apply (inv_sym _ _ I).
  - intros a b i. rewrite HI. unfold upd_Z. eqbs; intros Ea Eb; try reflexivity.
    + inversion Ea; subst i. symmetry. apply HoI. exact Eb.
    + inversion Eb; subst i. apply HoI. exact Ea.
    + eapply (inv_injI _ _ I); eauto.
  - intros a b i. rewrite HK. apply (inv_injK _ _ I).
  - intros a Ha. rewrite HI. unfold upd_Z. eqbs; [lia|]. apply (inv_negI _ _ I). exact Ha.
  - rewrite HK. apply (inv_noK _ _ I).
Qed.


Lemma step_RegKey d s key t :
  Inv d s -> key <> nokey -> Inv (set d (-1)%Z key t) (spec_apply s (RegKey key t)).
Proof.
  intros I Hkey.
  destruct (set_cases d (-1)%Z key t (inv_kb _ _ I) (inv_idb _ _ I)) as (idx & buf' & Hb & HI & HK & Hc).
  change (Z.leb 0 (-1)) with false in HI.
  assert (bytes_eqb key nokey = false) as Hne by (apply bytes_eqb_neq; exact Hkey).
  rewrite Hne in HK.
  set (d' := set d (-1)%Z key t) in *.
  unfold getIdxLF in Hc. rewrite (inv_negI _ _ I (-1)%Z) in Hc by lia.
  assert (Hc' : (idxKey d key = Some idx /\ idx < length (buf d) /\
                 buf' = set_nth (buf d) idx {| d_id := -1; d_key := key; d_tree := t |}) \/
                (idxKey d key = None /\ idx = length (buf d) /\
                 buf' = buf d ++ [{| d_id := -1; d_key := key; d_tree := t |}])).
  { destruct (idxKey d key); exact Hc. }
  clear Hc. rename Hc' into Hc.
  assert (Hlen : length (buf d) <= length (buf d')).
  { rewrite Hb. destruct Hc as [(_ & _ & ->)|(_ & _ & ->)].
    - rewrite length_set_nth. lia.
    - rewrite app_length. simpl. lia. }
  assert (Hidx : idx < length (buf d')).
  { rewrite Hb. destruct Hc as [(_ & L & ->)|(_ & -> & ->)].
    - rewrite length_set_nth. lia.
    - rewrite app_length. simpl. lia. }
  assert (Hslot_idx : slot d' idx = Some t).
  { destruct Hc as [(_ & L & E)|(_ & -> & E)]; rewrite <- Hb in E.
    - rewrite (slot_set_same d d' idx _ E L). reflexivity.
    - rewrite (slot_app_last d d' _ E). reflexivity. }
  assert (Hslot_other : forall j, j < length (buf d) -> j <> idx -> slot d' j = slot d j).
  { intros j Lj Nj. destruct Hc as [(_ & L & E)|(_ & -> & E)]; rewrite <- Hb in E.
    - apply (slot_set_other d d' idx j _ E). congruence.
    - apply (slot_app_old d d' _ j E Lj). }
  assert (HoK : forall k, idxKey d k = Some idx -> k = key).
  { intros k Hk. destruct Hc as [(Ec & _ & _)|(_ & -> & _)].
    - eapply (inv_injK _ _ I); eauto.
    - apply (inv_kb _ _ I) in Hk. lia. }
  assert (HoI : forall a, idxID d a = Some idx -> pI s key = Some a).
  { intros a Ha. destruct Hc as [(Ec & _ & _)|(_ & -> & _)].
    - apply (inv_sym _ _ I). eapply (inv_share _ _ I); eauto.
    - apply (inv_idb _ _ I) in Ha. lia. }
  constructor; simpl.
  - intros a i. rewrite HI. intro E. apply (inv_idb _ _ I) in E. lia.
  - intros k i. rewrite HK. unfold upd_B. eqbs.
    + intro Ee; inversion Ee; subst. exact Hidx.
    + intro Ee. apply (inv_kb _ _ I) in Ee. lia.
  - intros a. unfold tI. rewrite HI. unfold opt_is_id.
    destruct (pI s key) as [pi|] eqn:Ep.
    + eqbs.
      * apply (inv_sym _ _ I) in Ep.
        destruct (inv_pair _ _ I _ _ Ep) as (i & Ei & Ek). rewrite Ei.
        destruct Hc as [(Ec & _ & _)|(Ec & _ & _)]; [|congruence].
        assert (i = idx) by congruence. subst i. symmetry. exact Hslot_idx.
      * rewrite (inv_mI _ _ I). unfold tI. destruct (idxID d a) as [j|] eqn:Ej; [|reflexivity].
        symmetry. apply Hslot_other. { eapply (inv_idb _ _ I); eauto. }
        intro; subst j. apply HoI in Ej. congruence.
    + rewrite (inv_mI _ _ I). unfold tI. destruct (idxID d a) as [j|] eqn:Ej; [|reflexivity].
      symmetry. apply Hslot_other. { eapply (inv_idb _ _ I); eauto. }
      intro; subst j. apply HoI in Ej. congruence.
  - intros k. unfold tK. rewrite HK. unfold upd_B. eqbs.
    + symmetry. exact Hslot_idx.
    + rewrite (inv_mK _ _ I). unfold tK. destruct (idxKey d k) as [j|] eqn:Ej; [|reflexivity].
      symmetry. apply Hslot_other. { eapply (inv_kb _ _ I); eauto. }
      intro; subst j. apply E. apply HoK. exact Ej.
  - intros a k i. rewrite HI, HK. unfold upd_B. eqbs.
    + intros Ea Ee. inversion Ee; subst i. apply (inv_sym _ _ I). apply HoI. exact Ea.
    + apply (inv_share _ _ I).
  - intros a k Hp. rewrite HI, HK. unfold upd_B.
    destruct (inv_pair _ _ I _ _ Hp) as (i & Ei & Ek). eqbs.
    + exists idx. split; [|reflexivity].
      destruct Hc as [(Ec & _ & _)|(Ec & _ & _)]; congruence.
    + exists i. split; assumption.
  - apply (inv_sym _ _ I).
  - intros a b i. rewrite HI. apply (inv_injI _ _ I).
  - intros a b i. rewrite HK. unfold upd_B. eqbs; intros Ea Eb; try reflexivity.
    + inversion Ea; subst i. symmetry. apply HoK. exact Eb.
    + inversion Eb; subst i. apply HoK. exact Ea.
    + eapply (inv_injK _ _ I); eauto.
  - intros a Ha. rewrite HI. apply (inv_negI _ _ I). exact Ha.
  - rewrite HK. unfold upd_B. eqbs; [congruence|]. apply (inv_noK _ _ I).
Qed.


Lemma step_RegBoth d s id key t :
  Inv d s -> valid_op s (RegBoth id key t) ->
  Inv (set d id key t) (spec_apply s (RegBoth id key t)).
Proof.
  intros I (Hid & Hkey & VK & VI).
  destruct (set_cases d id key t (inv_kb _ _ I) (inv_idb _ _ I)) as (idx & buf' & Hb & HI & HK & Hc).
  assert (Z.leb 0 id = true) as Hle by (apply Z.leb_le; exact Hid).
  assert (bytes_eqb key nokey = false) as Hne by (apply bytes_eqb_neq; exact Hkey).
  rewrite Hle in HI. rewrite Hne in HK. clear Hle Hne.
  set (d' := set d id key t) in *.
  unfold getIdxLF in Hc.
  assert (Hlen : length (buf d) <= length (buf d')).
  { rewrite Hb. destruct Hc as [(_ & _ & ->)|(_ & _ & ->)].
    - rewrite length_set_nth. lia.
    - rewrite app_length. simpl. lia. }
  assert (Hidx : idx < length (buf d')).
  { rewrite Hb. destruct Hc as [(_ & L & ->)|(_ & -> & ->)].
    - rewrite length_set_nth. lia.
    - rewrite app_length. simpl. lia. }
  assert (Hslot_idx : slot d' idx = Some t).
  { destruct Hc as [(_ & L & Ec)|(_ & -> & Ec)]; rewrite <- Hb in Ec.
    - rewrite (slot_set_same d d' idx _ Ec L). reflexivity.
    - rewrite (slot_app_last d d' _ Ec). reflexivity. }
  assert (Hslot_other : forall j, j < length (buf d) -> j <> idx -> slot d' j = slot d j).
  { intros j Lj Nj. destruct Hc as [(_ & L & Ec)|(_ & -> & Ec)]; rewrite <- Hb in Ec.
    - apply (slot_set_other d d' idx j _ Ec). congruence.
    - apply (slot_app_old d d' _ j Ec Lj). }
  assert (HoK : forall k, idxKey d k = Some idx -> k = key).
  { intros k Hk. destruct Hc as [(Ec & _ & _)|(_ & -> & _)].
    - destruct (idxKey d key) as [i|] eqn:Ek.
      + inversion Ec; subst i. eapply (inv_injK _ _ I); eauto.
      + pose proof (inv_share _ _ I _ _ _ Ec Hk) as Hp.
        destruct VK as [VK|VK]; congruence.
    - apply (inv_kb _ _ I) in Hk. lia. }
  assert (HoI : forall a, idxID d a = Some idx -> a = id).
  { intros a Ha. destruct Hc as [(Ec & _ & _)|(_ & -> & _)].
    - destruct (idxKey d key) as [i|] eqn:Ek.
      + inversion Ec; subst i.
        pose proof (inv_share _ _ I _ _ _ Ha Ek) as Hp. apply (inv_sym _ _ I) in Hp.
        destruct VI as [VI|VI]; congruence.
      + eapply (inv_injI _ _ I); eauto.
    - apply (inv_idb _ _ I) in Ha. lia. }
  constructor; simpl.
  - intros a i. rewrite HI. unfold upd_Z. eqbs.
    + intro Ee; inversion Ee; subst. exact Hidx.
    + intro Ee. apply (inv_idb _ _ I) in Ee. lia.
  - intros k i. rewrite HK. unfold upd_B. eqbs.
    + intro Ee; inversion Ee; subst. exact Hidx.
    + intro Ee. apply (inv_kb _ _ I) in Ee. lia.
  - intros a. unfold tI. rewrite HI. unfold upd_Z. eqbs.
    + symmetry. exact Hslot_idx.
    + rewrite (inv_mI _ _ I). unfold tI. destruct (idxID d a) as [j|] eqn:Ej; [|reflexivity].
      symmetry. apply Hslot_other. { eapply (inv_idb _ _ I); eauto. }
      intro; subst j. apply n. apply HoI. exact Ej.
  - intros k. unfold tK. rewrite HK. unfold upd_B. eqbs.
    + symmetry. exact Hslot_idx.
    + rewrite (inv_mK _ _ I). unfold tK. destruct (idxKey d k) as [j|] eqn:Ej; [|reflexivity].
      symmetry. apply Hslot_other. { eapply (inv_kb _ _ I); eauto. }
      intro; subst j. apply E. apply HoK. exact Ej.
  - intros a k i. rewrite HI, HK. unfold upd_Z, upd_B. eqbs; intros Ea Ek.
    + reflexivity.
    + inversion Ea; subst i. apply HoK in Ek. congruence.
    + inversion Ek; subst i. apply HoI in Ea. congruence.
    + eapply (inv_share _ _ I); eauto.
  - intros a k. rewrite HI, HK. unfold upd_Z, upd_B.
    destruct (Z.eqb_spec a id) as [->|Na]; intro Hp.
    + inversion Hp; subst k. rewrite bytes_eqb_refl. exists idx. split; reflexivity.
    + destruct (inv_pair _ _ I _ _ Hp) as (i & Ei & Ek).
      destruct (bytes_eqb k key) eqn:E; [apply bytes_eqb_eq in E; subst k|].
      * apply (inv_sym _ _ I) in Hp. destruct VI as [VI|VI]; congruence.
      * exists i. split; assumption.
  - intros a k.
    destruct (Z.eqb_spec a id) as [->|Na];
      (destruct (bytes_eqb k key) eqn:E; [apply bytes_eqb_eq in E; subst k|apply bytes_eqb_neq in E]);
      split; intro Hp.
    + reflexivity.
    + reflexivity.
    + congruence.
    + apply (inv_sym _ _ I) in Hp. destruct VK as [VK|VK]; congruence.
    + apply (inv_sym _ _ I) in Hp. destruct VI as [VI|VI]; congruence.
    + congruence.
    + apply (inv_sym _ _ I). exact Hp.
    + apply (inv_sym _ _ I). exact Hp.
  - intros a b i. rewrite HI. unfold upd_Z. eqbs; intros Ea Eb; try reflexivity.
    + inversion Ea; subst i. symmetry. apply HoI. exact Eb.
    + inversion Eb; subst i. apply HoI. exact Ea.
    + eapply (inv_injI _ _ I); eauto.
  - intros a b i. rewrite HK. unfold upd_B. eqbs; intros Ea Eb; try reflexivity.
    + inversion Ea; subst i. symmetry. apply HoK. exact Eb.
    + inversion Eb; subst i. apply HoK. exact Ea.
    + eapply (inv_injK _ _ I); eauto.
  - intros a Ha. rewrite HI. unfold upd_Z. eqbs; [lia|]. apply (inv_negI _ _ I). exact Ha.
  - rewrite HK. unfold upd_B. eqbs; [congruence|]. apply (inv_noK _ _ I).
Qed.


Lemma step_inv d s o : Inv d s -> valid_op s o -> Inv (apply_reg d o) (spec_apply s o).
Proof.
  intros I V. destruct o as [id key t|id t|key t]; simpl in V |- *.
  - apply step_RegBoth; assumption.
  - apply step_RegID; assumption.
  - apply step_RegKey; assumption.
Qed.

Lemma hist_inv ops : forall d s, Inv d s -> valid_hist s ops ->
  Inv (fold_left apply_reg ops d) (fold_left spec_apply ops s).
Proof.
  induction ops as [|o ops IH]; intros d s I V; simpl in *; [exact I|].
  destruct V as [V1 V2]. apply IH; [apply step_inv; assumption|exact V2].
Qed.

(* C12, main statement: after every valid history of registrations every
   lookup of the concrete registry answers what the abstract registry answers. *)
Theorem db_refines_spec ops :
  valid_hist spec_init ops ->
  (forall id, lookup_id (run_regs ops) id = mI (spec_run ops) id) /\
  (forall k, lookup_key (run_regs ops) k = mK (spec_run ops) k) /\
  (forall k fb, lookup_fb (run_regs ops) k fb = spec_fb (spec_run ops) k fb).
Proof.
  intro V. pose proof (hist_inv ops _ _ Inv_init V) as I.
  repeat split; intros.
  - eapply lookup_id_abs; exact I.
  - eapply lookup_key_abs; exact I.
  - eapply lookup_fb_abs; exact I.
Qed.

(* Consequences in the words of the property, over the abstract registry. *)

(* after a registration returns, every identifier it named resolves to its tree *)
Lemma spec_named_latest (s : spec T) (o : regop T) :
  match o with
  | RegBoth id key t => mI (spec_apply s o) id = Some t /\ mK (spec_apply s o) key = Some t
  | RegID id t => mI (spec_apply s o) id = Some t
  | RegKey key t => mK (spec_apply s o) key = Some t
  end.
Proof.
  destruct o; simpl; rewrite ?Z.eqb_refl, ?bytes_eqb_refl; auto.
Qed.

(* ... and so does the identifier paired with it *)
Lemma spec_partner_latest (s : spec T) (o : regop T) :
  match o with
  | RegID id t => forall k, pK s id = Some k -> mK (spec_apply s o) k = Some t
  | RegKey key t => forall id, pI s key = Some id -> mI (spec_apply s o) id = Some t
  | RegBoth _ _ _ => True
  end.
Proof.
  destruct o; simpl; auto; intros x Hx; rewrite Hx; simpl.
  - rewrite bytes_eqb_refl. reflexivity.
  - rewrite Z.eqb_refl. reflexivity.
Qed.

(* identifiers that are neither named nor paired with a named one keep their tree *)
Lemma spec_others_unaffected (s : spec T) (o : regop T) :
  (forall id, (match o with
               | RegBoth i _ _ => id <> i
               | RegID i _ => id <> i
               | RegKey k _ => pI s k <> Some id
               end) -> mI (spec_apply s o) id = mI s id) /\
  (forall key, (match o with
               | RegBoth _ k _ => key <> k
               | RegKey k _ => key <> k
               | RegID i _ => pK s i <> Some key
               end) -> mK (spec_apply s o) key = mK s key).
Proof.
  split; intros x H; destruct o; simpl.
  - destruct (Z.eqb_spec x id); congruence.
  - destruct (Z.eqb_spec x id); congruence.
  - unfold opt_is_id. destruct (pI s key) as [z|]; [|reflexivity].
    destruct (Z.eqb_spec z x); congruence.
  - destruct (bytes_eqb x key) eqn:E; [apply bytes_eqb_eq in E; congruence|reflexivity].
  - unfold opt_is_key. destruct (pK s id) as [z|]; [|reflexivity].
    destruct (bytes_eqb z x) eqn:E; [apply bytes_eqb_eq in E; congruence|reflexivity].
  - destruct (bytes_eqb x key) eqn:E; [apply bytes_eqb_eq in E; congruence|reflexivity].
Qed.

(* never registered => not found *)
Definition names_id (o : regop T) (id : Z) : Prop :=
  match o with RegBoth i _ _ => i = id | RegID i _ => i = id | RegKey _ _ => False end.
Definition names_key (o : regop T) (k : bytes) : Prop :=
  match o with RegBoth _ x _ => x = k | RegKey x _ => x = k | RegID _ _ => False end.

Lemma spec_unregistered_id ops id :
  (forall o, In o ops -> ~ names_id o id) -> mI (spec_run ops) id = None.
Proof.
  unfold spec_run.
  assert (G : forall (s : spec T), (mI s id = None /\ forall k, pI s k <> Some id) ->
              (forall o, In o ops -> ~ names_id o id) ->
              mI (fold_left spec_apply ops s) id = None /\
              forall k, pI (fold_left spec_apply ops s) k <> Some id).
  { induction ops as [|o ops IH]; intros s P H; simpl; [exact P|].
    apply IH; [|intros o' Ho'; apply H; right; exact Ho'].
    destruct P as [P1 P2]. pose proof (H o (or_introl eq_refl)) as Hn.
    destruct o as [i k t|i t|k t]; simpl in *.
    - destruct (Z.eqb_spec id i); [congruence|]. split; [exact P1|].
      intros x. destruct (bytes_eqb x k); [congruence|apply P2].
    - destruct (Z.eqb_spec id i); [congruence|]. split; [exact P1|exact P2].
    - split; [|exact P2]. unfold opt_is_id. pose proof (P2 k) as Hk.
      destruct (pI s k) as [z|]; [|exact P1].
      destruct (Z.eqb_spec z id); [congruence|exact P1]. }
  intro H. apply G; [|exact H]. split; [reflexivity|discriminate].
Qed.

Lemma spec_unregistered_key ops key :
  (forall o, In o ops -> ~ names_key o key) -> mK (spec_run ops) key = None.
Proof.
  unfold spec_run.
  assert (G : forall (s : spec T), (mK s key = None /\ forall i, pK s i <> Some key) ->
              (forall o, In o ops -> ~ names_key o key) ->
              mK (fold_left spec_apply ops s) key = None /\
              forall i, pK (fold_left spec_apply ops s) i <> Some key).
  { induction ops as [|o ops IH]; intros s P H; simpl; [exact P|].
    apply IH; [|intros o' Ho'; apply H; right; exact Ho'].
    destruct P as [P1 P2]. pose proof (H o (or_introl eq_refl)) as Hn.
    destruct o as [i k t|i t|k t]; simpl in *.
    - destruct (bytes_eqb key k) eqn:E; [apply bytes_eqb_eq in E; congruence|].
      apply bytes_eqb_neq in E. split; [exact P1|].
      intros x. destruct (Z.eqb x i); [congruence|apply P2].
    - split; [|exact P2]. unfold opt_is_key. pose proof (P2 i) as Hk.
      destruct (pK s i) as [z|]; [|exact P1].
      destruct (bytes_eqb z key) eqn:E; [apply bytes_eqb_eq in E; congruence|exact P1].
    - destruct (bytes_eqb key k) eqn:E; [apply bytes_eqb_eq in E; congruence|].
      split; [exact P1|exact P2]. }
  intro H. apply G; [|exact H]. split; [reflexivity|discriminate].
Qed.


(* the executable validity check used by the harness is sound *)
Lemma valid_opb_sound (s : spec T) (o : regop T) : valid_opb s o = true -> valid_op s o.
Proof.
  destruct o as [id key t|id t|key t]; simpl; intro H.
  - apply andb_true_iff in H as [H H4]. apply andb_true_iff in H as [H H3].
    apply andb_true_iff in H as [H1 H2].
    apply Z.leb_le in H1. apply negb_true_iff in H2. apply bytes_eqb_neq in H2.
    repeat split; auto.
    + unfold opt_none_or_key in H3. destruct (pK s id); [right|left; reflexivity].
      apply bytes_eqb_eq in H3. congruence.
    + unfold opt_none_or_id in H4. destruct (pI s key); [right|left; reflexivity].
      apply Z.eqb_eq in H4. congruence.
  - apply Z.leb_le. exact H.
  - apply negb_true_iff in H. apply bytes_eqb_neq. exact H.
Qed.

Lemma valid_histb_sound ops : forall (s : spec T), valid_histb s ops = true -> valid_hist s ops.
Proof.
  induction ops as [|o ops IH]; intros s H; simpl in *; [exact I|].
  apply andb_true_iff in H as [H1 H2]. split; [apply valid_opb_sound; exact H1|apply IH; exact H2].
Qed.

End PROOFS.
