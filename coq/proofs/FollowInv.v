(* FollowInv.v -- what every rule, at any depth, leaves alone: the counter cells
   that existed when it started (it may only append cells), and the log of
   user-function calls made so far (it may only add calls).  Lifted through
   the whole interpreter by induction on fuel; discharges the hypothesis of
   counter_reads_go_value (C04), so that the loop variable reads Go's value of
   i in every iteration of every counter loop of every program. *)
From Coq Require Import List NArith ZArith Bool Lia String.
From Dec Require Import Bytes Strconv Crc Values Tree Interp.
From Dec.proofs Require Import InterpFacts InterpFacts2 InterpFacts3.
Import ListNotations.

Local Arguments ctx_set : simpl never.
Local Arguments oresolve : simpl never.
Local Arguments oupdate : simpl never.
Local Arguments oloop : simpl never.
Local Arguments assign : simpl never.
Local Arguments deref : simpl never.
Local Arguments x2bytes : simpl never.
Local Arguments ctx_get : simpl never.
Local Arguments ctx_cmp : simpl never.
Local Arguments set_var : simpl never.
Local Arguments find_var : simpl never.
Local Arguments split_path : simpl never.
Local Arguments format_int : simpl never.
Local Arguments parse_int0 : simpl never.
Local Arguments jget : simpl never.
Local Arguments ins_compare : simpl never.
Local Arguments ins_getto : simpl never.
Local Arguments iface2int : simpl never.

(* cells: every counter cell that exists in c is still there, unchanged, in c' *)
Definition cells (c c' : ctx) : Prop :=
  forall m, m <= List.length (bufLC c) ->
    m <= List.length (bufLC c') /\ forall i, i < m -> nth i (bufLC c') 0%Z = nth i (bufLC c) 0%Z.

(* calls: the call log of c' extends that of c, and the call counter counts it *)
Definition calls (c c' : ctx) : Prop :=
  exists t, trace c' = t ++ trace c /\ ncalls c' = ncalls c + List.length t.

Definition ext (c c' : ctx) : Prop := cells c c' /\ calls c c'.

(* nothing of the kind touched at all *)
Definition quiet (c c' : ctx) : Prop :=
  bufLC c' = bufLC c /\ trace c' = trace c /\ ncalls c' = ncalls c.

Lemma quiet_refl c : quiet c c.
Proof. repeat split. Qed.
Lemma quiet_trans a b c : quiet a b -> quiet b c -> quiet a c.
Proof. unfold quiet. intuition congruence. Qed.

Lemma ext_of_quiet c c' : quiet c c' -> ext c c'.
Proof.
  intros (A & B & C). split.
  - intros m Hm. rewrite A. split; [exact Hm|reflexivity].
  - exists []. simpl. split; [exact B|lia].
Qed.

Lemma ext_refl c : ext c c.
Proof. apply ext_of_quiet, quiet_refl. Qed.

Lemma ext_trans a b c : ext a b -> ext b c -> ext a c.
Proof.
  intros [K1 [t1 [T1 N1]]] [K2 [t2 [T2 N2]]]. split.
  - intros m Hm. destruct (K1 m Hm) as [L1 E1]. destruct (K2 m L1) as [L2 E2].
    split; [exact L2|]. intros i Hi. rewrite (E2 i Hi). apply E1. exact Hi.
  - exists (t2 ++ t1). rewrite T2, T1, app_assoc. split; [reflexivity|]. rewrite app_length. lia.
Qed.

Ltac quiet_simpl := repeat split; simpl; try congruence; auto.

Lemma q_w_bufX c x : quiet c (w_bufX c x). Proof. quiet_simpl. Qed.
Lemma q_w_bufBl c x : quiet c (w_bufBl c x). Proof. quiet_simpl. Qed.
Lemma q_w_cerr c x : quiet c (w_cerr c x). Proof. quiet_simpl. Qed.
Lemma q_w_brkD c x : quiet c (w_brkD c x). Proof. quiet_simpl. Qed.
Lemma q_w_lenBB c x : quiet c (w_lenBB c x). Proof. quiet_simpl. Qed.
Lemma q_w_store c x : quiet c (w_store c x). Proof. quiet_simpl. Qed.
Lemma q_ctx_set c k v i : quiet c (ctx_set c k v i). Proof. quiet_simpl. Qed.
Lemma q_dec_brk c : quiet c (dec_brk c). Proof. unfold dec_brk. destruct (brkD c); quiet_simpl. Qed.
Lemma q_own_arg c x : quiet c (own_arg c x). Proof. destruct x; quiet_simpl. Qed.

Lemma q_ctx_get c p s : quiet c (fst (ctx_get c p s)).
Proof. pose proof (ctx_get_preserves c p s) as P. simpl in P. destruct P as (_&_&A&_&_&B&C). repeat split; assumption. Qed.

Lemma q_ctx_cmp c p o r : quiet c (fst (ctx_cmp c p o r)).
Proof.
  unfold ctx_cmp. destruct (split_path p) as [|k rest]; [apply quiet_refl|].
  destruct (find_var (vars c) k) as [[v i]|]; [|apply quiet_refl].
  destruct (ins_compare (w_bufBl c false) i v o r rest); quiet_simpl.
Qed.

Lemma q_collect_args l c acc : quiet c (fst (collect_args c l acc)).
Proof. destruct (collect_args_exact l c acc) as [_ (_&_&A&_&_&B&C)]. repeat split; assumption. Qed.

Lemma q_obj_setwb c v x p : quiet c (fst (obj_setwb c v x p)).
Proof.
  unfold obj_setwb. destruct p; [apply quiet_refl|]. destruct v; try apply quiet_refl.
  destruct (nth_error (store c) oid); [|apply quiet_refl].
  destruct (oresolve ofuel o (prefix ++ b :: p)); try apply quiet_refl.
  match goal with |- context [assign c ?f ?y] => destruct (assign c f y) end; quiet_simpl.
Qed.

Lemma q_ctx_set_path U c p x i : quiet c (fst (ctx_set_path U c p x i)).
Proof.
  unfold ctx_set_path. destruct p as [|p0 p']; [apply quiet_refl|].
  destruct (vars c) as [|v0 vs] eqn:Ev; [apply quiet_refl|].
  destruct (split_path (p0 :: p')) as [|k rest]; [apply quiet_refl|].
  destruct (is_ctx_name k).
  - destruct rest; [apply quiet_refl|].
    destruct i as [|i0 i'].
    + destruct x; try apply q_ctx_set. destruct j; first [apply q_ctx_set|apply quiet_refl].
    + destruct (u_ins U (i0 :: i')); [apply q_ctx_set|apply quiet_refl].
  - destruct (find_var (v0 :: vs) k) as [[v ik]|]; [|apply quiet_refl].
    destruct ik; try apply quiet_refl; try (cbn [fst]; quiet_simpl; fail).
    pose proof (q_obj_setwb (w_bufX c x) v x rest) as Q.
    destruct (obj_setwb (w_bufX c x) v x rest) as [c' e]. cbn [fst] in *.
    destruct Q as (A&B&C). quiet_simpl.
Qed.

Lemma q_cmp_dynamic c l o r : quiet c (fst (fst (cmp_dynamic c l o r))).
Proof.
  unfold cmp_dynamic. pose proof (q_ctx_get c r []) as G.
  destruct (ctx_get c r []) as [c1 v1]. cbn [fst] in G.
  destruct (cerr c1); [exact G|]. destruct (x2bytes c1 (bufX c1)); [|exact G].
  pose proof (q_ctx_cmp c1 l o b) as Q. destruct (ctx_cmp c1 l o b) as [c2 ok]. cbn [fst] in *.
  eapply quiet_trans; eassumption.
Qed.

Lemma q_node_cmp c n : quiet c (fst (fst (node_cmp c n))).
Proof.
  unfold node_cmp. destruct (condStaticL n && condStaticR n); [apply quiet_refl|].
  destruct (condStaticR n).
  - pose proof (q_ctx_cmp c (condL n) (condOp n) (condR n)) as Q.
    destruct (ctx_cmp c (condL n) (condOp n) (condR n)). exact Q.
  - destruct (condStaticL n).
    + pose proof (q_ctx_cmp c (condR n) (op_swap (condOp n)) (condL n)) as Q.
      destruct (ctx_cmp c (condR n) (op_swap (condOp n)) (condL n)). exact Q.
    + apply q_cmp_dynamic.
Qed.

Lemma q_mod_default c v l : quiet c (fst (fst (mod_default c v l))).
Proof. unfold mod_default. destruct (negb (mod_is_empty c v)); [apply quiet_refl|]. destruct l as [|x l]; [apply quiet_refl|]. destruct x; quiet_simpl. Qed.
Lemma q_mod_ifthen c v l : quiet c (fst (fst (mod_ifthen c v l))).
Proof. unfold mod_ifthen. destruct l; [apply quiet_refl|]. destruct (check_true c v); [apply q_own_arg|apply quiet_refl]. Qed.
Lemma q_mod_ifthenelse c v l : quiet c (fst (fst (mod_ifthenelse c v l))).
Proof. unfold mod_ifthenelse. destruct l as [|x [|y l]]; try apply quiet_refl. destruct (check_true c v); apply q_own_arg. Qed.

Lemma q_run_bget c g l : quiet c (fst (fst (run_bget c g l))).
Proof.
  unfold run_bget.
  destruct g; destruct l as [|x l]; try apply quiet_refl;
    try (destruct (atox_raw x); try apply quiet_refl;
         match goal with |- context [match ?e with _ => _ end] => destruct e end; apply quiet_refl);
    destruct x; quiet_simpl.
Qed.

Lemma q_cloop_range c st s : quiet c (fst (cloop_range c st s)).
Proof.
  unfold cloop_range. destruct st.
  - destruct (parse_int0 s); quiet_simpl.
  - pose proof (q_ctx_get c s []) as G. destruct (ctx_get c s []) as [c1 v]. cbn [fst] in G.
    destruct (cerr c1); [exact G|]. destruct (iface2int c1 v); [exact G|].
    destruct G as (A&B&C). quiet_simpl.
Qed.

Lemma ext_log_call c k n v : ext c (fst (log_call c k n v)).
Proof.
  unfold log_call. split.
  - intros m Hm. simpl. split; [exact Hm|reflexivity].
  - exists [event k n v]. simpl. split; [reflexivity|lia].
Qed.

Ltac take_log L c2 n :=
  cbv zeta;
  match goal with |- context [log_call ?cc ?k ?nm ?v] =>
    pose proof (ext_log_call cc k nm v) as L; destruct (log_call cc k nm v) as [c2 n] end.

Section WITH_U.
Variable U : ufuns.

Lemma ext_call_cond c name al : ext c (fst (call_cond U c name al)).
Proof.
  unfold call_cond. destruct (u_cond U name); [|apply ext_refl].
  pose proof (q_collect_args al c []) as Q. destruct (collect_args c al []) as [c1 la]. cbn [fst] in Q.
  take_log L c2 n. cbn [fst] in *.
  destruct (p n la) as [b e]. cbn [fst].
  eapply ext_trans; [apply ext_of_quiet; exact Q|].
  destruct e; [eapply ext_trans; [exact L|apply ext_of_quiet, q_w_cerr]|exact L].
Qed.

Lemma ext_run_mods ms : forall c raw, ext c (fst (run_mods U ms c raw)).
Proof.
  induction ms as [|m ms IH]; intros c raw; [apply ext_refl|]. cbn [run_mods].
  pose proof (q_collect_args (m_arg m) c []) as Q. destruct (collect_args c (m_arg m) []) as [c1 la]. cbn [fst] in Q.
  assert (G : forall (x : ctx * option val * option err), ext c (fst (fst x)) ->
     ext c (fst (let '(c0, res, e) := x in
                 let c2 := match res with Some v => w_bufX c0 v | None => c0 end in
                 let c3 := w_cerr c2 e in
                 match e with Some _ => (c3, raw) | None => run_mods U ms c3 (bufX c3) end))).
  { intros [[x0 xr] xe] X. cbn [fst] in X.
    assert (X2 : ext c (w_cerr match xr with Some v => w_bufX x0 v | None => x0 end xe)).
    { eapply ext_trans; [exact X|]. apply ext_of_quiet.
      destruct xr; [eapply quiet_trans; [apply q_w_bufX|apply q_w_cerr]|apply q_w_cerr]. }
    destruct xe; [exact X2|]. eapply ext_trans; [exact X2|apply IH]. }
  assert (B : ext c (w_bufX c1 raw)).
  { apply ext_of_quiet. eapply quiet_trans; [exact Q|apply q_w_bufX]. }
  destruct (builtin_mod (m_id m)) as [[| | |]|].
  - apply G. eapply ext_trans; [exact B|apply ext_of_quiet, q_mod_default].
  - apply G. eapply ext_trans; [exact B|apply ext_of_quiet, q_mod_ifthen].
  - apply G. eapply ext_trans; [exact B|apply ext_of_quiet, q_mod_ifthenelse].
  - apply (G (w_bufX c1 raw, None, None)). exact B.
  - destruct (u_mod U (m_id m)) as [f|].
    + take_log L c2 n.
      cbn [fst] in L. pose proof (ext_trans _ _ _ B L) as B2.
      destruct (f n (deref c2 raw) la) as [v|x];
        [apply (G (c2, Some v, None))|apply (G (c2, None, Some x))]; exact B2.
    + apply (G (w_bufX c1 raw, None, Some EUnsupported)). exact B.
Qed.

(* ------------------------------------------------ drivers *)

Definition keeps (fr : node -> ctx -> ctx * option err) : Prop := forall n c, ext c (fst (fr n c)).

Section DRV.
Variable fr : node -> ctx -> ctx * option err.
Hypothesis Hfr : keeps fr.

Lemma ext_rules_lz l : forall c lz, ext c (fst (rules_lz fr l c lz)).
Proof.
  induction l as [|n l IH]; intros c lz; [apply ext_refl|]. cbn [rules_lz].
  pose proof (Hfr n c) as F. destruct (fr n c) as [c1 e1]. cbn [fst] in F.
  destruct e1 as [e|]; [destruct e; try exact F|]; (eapply ext_trans; [exact F|apply IH]).
Qed.

Lemma ext_body l : forall c lz, ext c (fst (body fr l c lz)).
Proof.
  induction l as [|n l IH]; intros c lz; [apply ext_refl|]. cbn [body].
  pose proof (Hfr n c) as F. destruct (fr n c) as [c1 e1]. cbn [fst] in F.
  destruct e1 as [e|]; [destruct e; try exact F|]; (eapply ext_trans; [exact F|apply IH]).
Qed.

(* the counter loop writes its own cell only: everything below idx is kept,
   and the cell itself stays in place *)
Definition below (idx : nat) (c c' : ctx) : Prop :=
  idx < List.length (bufLC c) ->
  idx < List.length (bufLC c') /\ (forall i, i < idx -> nth i (bufLC c') 0%Z = nth i (bufLC c) 0%Z) /\ calls c c'.

Lemma below_of_ext idx c c' : ext c c' -> below idx c c'.
Proof.
  intros [K L] H. destruct (K (S idx) H) as [A B]. split; [exact A|]. split; [|exact L].
  intros i Hi. apply B. lia.
Qed.

Lemma below_trans idx a b c : below idx a b -> below idx b c -> below idx a c.
Proof.
  intros H1 H2 Ha. destruct (H1 Ha) as (A1 & B1 & [t1 [T1 N1]]). destruct (H2 A1) as (A2 & B2 & [t2 [T2 N2]]).
  split; [exact A2|]. split.
  - intros i Hi. rewrite (B2 i Hi). apply B1. exact Hi.
  - exists (t2 ++ t1). rewrite T2, T1, app_assoc. split; [reflexivity|]. rewrite app_length. lia.
Qed.

Lemma length_set_nth_l' {A} (l : list A) i x : List.length (set_nth_l l i x) = List.length l.
Proof. revert i; induction l as [|y l IH]; intros [|i]; simpl; auto. Qed.

Lemma nth_set_nth_l_lt {A} (l : list A) i j x d : j <> i -> nth j (set_nth_l l i x) d = nth j l d.
Proof.
  revert i j; induction l as [|y l IH]; intros [|i] [|j] H; simpl; auto; try congruence;
    try (apply IH; congruence).
Qed.

Lemma below_step_cell idx c x : below idx c (w_bufLC c (set_nth_l (bufLC c) idx x)).
Proof.
  intro H. simpl. rewrite length_set_nth_l'. split; [exact H|]. split.
  - intros i Hi. apply nth_set_nth_l_lt. lia.
  - exists []. simpl. split; [reflexivity|lia].
Qed.

Lemma below_cloop_run k : forall n idx v lim c, below idx c (cloop_run fr k n idx v lim c).
Proof.
  induction k as [|k IH]; intros n idx v lim c; cbn [cloop_run].
  { apply below_of_ext, ext_of_quiet, q_w_cerr. }
  assert (Q0 : forall c0, ext c c0 -> below idx c (dec_brk c0)).
  { intros c0 E. apply below_of_ext. eapply ext_trans; [exact E|apply ext_of_quiet, q_dec_brk]. }
  destruct (loop_allows (loopCondOp n) v lim) as [al|].
  2:{ cbn [andb negb]. apply Q0. apply ext_of_quiet, q_w_cerr. }
  destruct (negb (al && Nat.eqb (brkD c) 0)); [apply Q0, ext_refl|].
  pose proof (ext_body (child n) (ctx_set c (loopCnt n) (VLC idx) InsStatic) false) as B.
  destruct (body fr (child n) (ctx_set c (loopCnt n) (VLC idx) InsStatic) false) as [c1 br]. cbn [fst] in B.
  assert (B1 : ext c c1).
  { eapply ext_trans; [apply ext_of_quiet, q_ctx_set|exact B]. }
  assert (F : below idx c (w_cerr c1 (Some EFuel)) -> True) by auto.
  destruct br as [| | | |e];
    try (apply below_of_ext; eapply ext_trans; [exact B1|apply ext_of_quiet, q_w_cerr]);
    (destruct (step64 (loopCntOp n) v) as [v'|];
     [ match goal with
       | |- below idx c (dec_brk ?X) =>
           eapply below_trans; [apply below_of_ext; exact B1|];
           eapply below_trans; [apply below_step_cell|];
           eapply below_trans; [apply below_of_ext, ext_of_quiet, q_ctx_set|apply below_of_ext, ext_of_quiet, q_dec_brk]
       | |- below idx c (cloop_run fr k n idx v' lim ?X) =>
           eapply below_trans; [apply below_of_ext; exact B1|];
           eapply below_trans; [apply below_step_cell|];
           eapply below_trans; [apply below_of_ext, ext_of_quiet, q_ctx_set|apply IH]
       end
     | match goal with
       | |- below idx c (dec_brk ?X) =>
           apply below_of_ext; eapply ext_trans; [exact B1|];
           apply ext_of_quiet; eapply quiet_trans; [apply q_w_cerr|eapply quiet_trans; [apply q_ctx_set|apply q_dec_brk]]
       | |- below idx c (cloop_run fr k n idx v lim ?X) =>
           eapply below_trans; [apply below_of_ext; eapply ext_trans; [exact B1|apply ext_of_quiet; eapply quiet_trans; [apply q_w_cerr|apply q_ctx_set]]|apply IH]
       end ]).
Qed.

Lemma ext_cloop k n c : ext c (cloop fr k n c).
Proof.
  unfold cloop.
  pose proof (q_cloop_range c (loopCntStatic n) (loopCntInit n)) as R1.
  destruct (cloop_range c (loopCntStatic n) (loopCntInit n)) as [c1 cnt]. cbn [fst] in R1.
  destruct (cerr c1); [apply ext_of_quiet; exact R1|].
  pose proof (q_cloop_range c1 (loopLimStatic n) (loopLim n)) as R2.
  destruct (cloop_range c1 (loopLimStatic n) (loopLim n)) as [c2 lim]. cbn [fst] in R2.
  pose proof (quiet_trans _ _ _ R1 R2) as R.
  destruct (cerr c2); [apply ext_of_quiet; exact R|].
  pose proof (below_cloop_run k n (List.length (bufLC c2)) cnt lim (w_bufLC c2 (bufLC c2 ++ [cnt]))) as W.
  destruct W as (W1 & W2 & [t [T N]]); [simpl; rewrite app_length; simpl; lia|].
  destruct R as (RA & RB & RC).
  split.
  - intros m Hm. rewrite <- RA in Hm. split; [lia|].
    intros i Hi. rewrite (W2 i) by lia. simpl. rewrite app_nth1 by lia. rewrite RA. reflexivity.
  - exists t. simpl in T, N. rewrite T, N, RB, RC. split; reflexivity.
Qed.

Lemma ext_iterate n c brk : ext c (fst (fst (iterate fr n c brk))).
Proof.
  unfold iterate. destruct brk; [apply ext_refl|].
  destruct (negb (Nat.eqb (brkD c) 0)); [apply ext_of_quiet, q_dec_brk|].
  pose proof (ext_body (child n) c false) as B. destruct (body fr (child n) c false) as [c1 br]. cbn [fst] in B.
  destruct br; cbn [fst]; try exact B;
    try (eapply ext_trans; [exact B|apply ext_of_quiet; first [apply q_dec_brk|apply q_w_cerr]]).
  destruct (negb (Nat.eqb (brkD c1) 0)); cbn [fst]; [eapply ext_trans; [exact B|apply ext_of_quiet, q_dec_brk]|exact B].
Qed.

Lemma q_set_key n c i : quiet c (set_key n c i).
Proof. unfold set_key. destruct (loopKey n); [apply quiet_refl|apply q_ctx_set]. Qed.

Lemma ext_vloop n xs : forall i c brk, ext c (vloop fr n xs i c brk).
Proof.
  induction xs as [|x xs IH]; intros i c brk; [apply ext_refl|]. cbn [vloop].
  pose proof (ext_iterate n (ctx_set (set_key n c i) (loopVal n) (VNode x) InsVector) brk) as I.
  destruct (iterate fr n (ctx_set (set_key n c i) (loopVal n) (VNode x) InsVector) brk) as [[c1 b1] s1]. cbn [fst] in I.
  eapply ext_trans; [|apply IH].
  eapply ext_trans; [apply ext_of_quiet; eapply quiet_trans; [apply q_set_key|apply q_ctx_set]|exact I].
Qed.

Lemma ext_oloop_run n oid sp cnt : forall i c brk, ext c (oloop_run fr n oid sp cnt i c brk).
Proof.
  induction cnt as [|cnt IH]; intros i c brk; [apply ext_refl|]. cbn [oloop_run].
  pose proof (ext_iterate n (ctx_set (set_key n c i) (loopVal n) (VObj oid (sp ++ [format_int (Z.of_nat i)])) InsObj) brk) as I.
  destruct (iterate fr n (ctx_set (set_key n c i) (loopVal n) (VObj oid (sp ++ [format_int (Z.of_nat i)])) InsObj) brk) as [[c1 b1] s1]. cbn [fst] in I.
  assert (E : ext c c1).
  { eapply ext_trans; [apply ext_of_quiet; eapply quiet_trans; [apply q_set_key|apply q_ctx_set]|exact I]. }
  destruct s1; [exact E|eapply ext_trans; [exact E|apply IH]].
Qed.

Lemma q_key_slot n c : quiet c (key_slot n c).
Proof. unfold key_slot. destruct (loopKey n); [apply quiet_refl|apply q_w_lenBB]. Qed.

Lemma ext_rloop n c : ext c (rloop fr n c).
Proof.
  unfold rloop. destruct (split_path (loopSrc n)) as [|k rest]; [apply ext_refl|].
  destruct (find_var (vars c) k) as [[v i]|]; [|apply ext_refl].
  assert (H1 : ext c (w_cerr c None)) by apply ext_of_quiet, q_w_cerr.
  assert (H2 : forall e, ext c (w_cerr (w_cerr c None) e)).
  { intro e. apply ext_of_quiet. eapply quiet_trans; apply q_w_cerr. }
  destruct i; try exact H1; try apply H2.
  - destruct v; try exact H1.
    destruct (jget j rest); try exact H1; try apply H2;
      match goal with |- context [match ?l with [] => _ | _ :: _ => _ end] => destruct l end;
      try apply H2; (eapply ext_trans; [eapply ext_trans; [exact H1|apply ext_vloop]|apply ext_of_quiet, q_key_slot]).
  - destruct v; try exact H1.
    destruct (nth_error (store (w_cerr c None)) oid); try exact H1.
    destruct (oloop ofuel o (prefix ++ rest)) as [[sp cnt]|]; [|exact H1].
    assert (H3 : ext c (oloop_run fr n oid sp cnt 0 (w_cerr c None) false)) by (eapply ext_trans; [exact H1|apply ext_oloop_run]).
    destruct cnt; [exact H3|eapply ext_trans; [exact H3|apply ext_of_quiet, q_key_slot]].
Qed.

Lemma ext_branch n c ok e : ext c (fst (branch fr n c ok e)).
Proof.
  unfold branch. destruct ok.
  - destruct (child n) as [|ch r]; [apply ext_refl|apply Hfr].
  - destruct (child n) as [|x [|ch r]]; try apply ext_refl. apply Hfr.
Qed.

Lemma ext_switch_classic sw l : forall c ok, ext c (fst (fst (fst (switch_classic fr sw l c ok)))).
Proof.
  induction l as [|ch l IH]; intros c ok; [apply ext_refl|]. cbn [switch_classic].
  assert (V : ext c (fst (fst (fst
    (if Z.eqb (typ ch) typeCase then
       if caseStaticL ch then let '(c', b0) := ctx_cmp c (switchArg sw) opEq (trimq (caseL ch)) in (c', b0, None, false)
       else let '(c', _) := ctx_get c (caseL ch) [] in
            match cerr c' with
            | Some _ => (c', ok, None, false)
            | None => match x2bytes c' (bufX c') with
                      | None => (c', ok, Some EUnknownType, true)
                      | Some b0 => let '(c'', b') := ctx_cmp c' (switchArg sw) opEq b0 in (c'', b', None, false)
                      end
            end
     else (c, ok, None, false)))))).
  { destruct (Z.eqb (typ ch) typeCase); [|apply ext_refl].
    destruct (caseStaticL ch).
    - pose proof (q_ctx_cmp c (switchArg sw) opEq (trimq (caseL ch))) as Q.
      destruct (ctx_cmp c (switchArg sw) opEq (trimq (caseL ch))). apply ext_of_quiet. exact Q.
    - pose proof (q_ctx_get c (caseL ch) []) as G. destruct (ctx_get c (caseL ch) []) as [c1 v1]. cbn [fst] in G.
      destruct (cerr c1); [apply ext_of_quiet; exact G|].
      destruct (x2bytes c1 (bufX c1)); [|apply ext_of_quiet; exact G].
      pose proof (q_ctx_cmp c1 (switchArg sw) opEq b) as Q. destruct (ctx_cmp c1 (switchArg sw) opEq b).
      cbn [fst] in *. apply ext_of_quiet. eapply quiet_trans; eassumption. }
  revert V.
  match goal with |- ext c (fst (fst (fst ?X))) -> _ => destruct X as [[[c1 ok1] e1] ea1] end.
  cbn [fst]. intro V.
  destruct ea1; [exact V|]. destruct ok1.
  - pose proof (Hfr ch c1) as F. destruct (fr ch c1). cbn [fst] in *. eapply ext_trans; eassumption.
  - eapply ext_trans; [exact V|apply IH].
Qed.

Lemma ext_switch_nocond l : forall c ok, ext c (fst (fst (fst (switch_nocond U fr l c ok)))).
Proof.
  induction l as [|ch l IH]; intros c ok; [apply ext_refl|]. cbn [switch_nocond].
  destruct (Z.eqb (typ ch) typeCase); [|apply IH].
  assert (V : ext c (fst (fst (fst
    (match caseHlp ch with
     | _ :: _ => match call_cond U c (caseHlp ch) (caseHlpArg ch) with
                 | (c', None) => (c', ok, Some ECondHlpNotFound, true)
                 | (c', Some b0) => (c', b0, None, false)
                 end
     | [] => let sl := caseStaticL ch in let sr := caseStaticR ch in
             if sl && sr then (c, ok, Some ESenseless, true)
             else if sr then let '(c', b0) := ctx_cmp c (caseL ch) (caseOp ch) (trimq (caseR ch)) in (c', b0, None, false)
             else if sl then let '(c', b0) := ctx_cmp c (caseR ch) (op_swap (caseOp ch)) (trimq (caseL ch)) in (c', b0, None, false)
             else let '(c', _) := ctx_get c (caseR ch) [] in
                  match cerr c' with
                  | Some _ => (c', ok, None, false)
                  | None => match x2bytes c' (bufX c') with
                            | None => (c', ok, Some EUnknownType, true)
                            | Some b0 => let '(c'', b') := ctx_cmp c' (caseL ch) (caseOp ch) b0 in (c'', b', None, false)
                            end
                  end
     end))))).
  { destruct (caseHlp ch) as [|h hs].
    - cbv zeta. destruct (caseStaticL ch && caseStaticR ch); [apply ext_refl|].
      destruct (caseStaticR ch).
      + pose proof (q_ctx_cmp c (caseL ch) (caseOp ch) (trimq (caseR ch))) as Q.
        destruct (ctx_cmp c (caseL ch) (caseOp ch) (trimq (caseR ch))). apply ext_of_quiet. exact Q.
      + destruct (caseStaticL ch).
        * pose proof (q_ctx_cmp c (caseR ch) (op_swap (caseOp ch)) (trimq (caseL ch))) as Q.
          destruct (ctx_cmp c (caseR ch) (op_swap (caseOp ch)) (trimq (caseL ch))). apply ext_of_quiet. exact Q.
        * pose proof (q_ctx_get c (caseR ch) []) as G. destruct (ctx_get c (caseR ch) []) as [c1 v1]. cbn [fst] in G.
          destruct (cerr c1); [apply ext_of_quiet; exact G|].
          destruct (x2bytes c1 (bufX c1)); [|apply ext_of_quiet; exact G].
          pose proof (q_ctx_cmp c1 (caseL ch) (caseOp ch) b) as Q. destruct (ctx_cmp c1 (caseL ch) (caseOp ch) b).
          cbn [fst] in *. apply ext_of_quiet. eapply quiet_trans; eassumption.
    - pose proof (ext_call_cond c (h :: hs) (caseHlpArg ch)) as C.
      destruct (call_cond U c (h :: hs) (caseHlpArg ch)) as [c1 [b|]]; exact C. }
  revert V.
  match goal with |- ext c (fst (fst (fst ?X))) -> _ => destruct X as [[[c1 ok1] e1] ea1] end.
  cbn [fst]. intro V.
  destruct ea1; [exact V|]. destruct (cerr c1); [exact V|]. destruct ok1.
  - pose proof (Hfr ch c1) as F. destruct (fr ch c1). cbn [fst] in *. eapply ext_trans; eassumption.
  - eapply ext_trans; [exact V|apply IH].
Qed.

End DRV.

Local Arguments rloop : simpl never.
Local Arguments cloop : simpl never.
Local Arguments rules : simpl never.
Local Arguments switch_classic : simpl never.
Local Arguments switch_nocond : simpl never.
Local Arguments run_mods : simpl never.
Local Arguments ctx_set_path : simpl never.
Local Arguments collect_args : simpl never.
Local Arguments node_cmp : simpl never.
Local Arguments call_cond : simpl never.
Local Arguments run_bget : simpl never.
Local Arguments branch : simpl never.
Local Arguments log_call : simpl never.

Lemma ext_restore c c' p : ext c c' -> ext c (if Nat.ltb (brkD c') p then w_brkD c' p else c').
Proof. intro H. destruct (Nat.ltb (brkD c') p); [eapply ext_trans; [exact H|apply ext_of_quiet, q_w_brkD]|exact H]. Qed.

Theorem follow_keeps fuel : keeps (follow U fuel).
Proof.
  induction fuel as [|f IH]; intros r c; [apply ext_refl|].
  cbn [follow]. cbv zeta.
  destruct (Z.eqb (typ r) typeLoopRange).
  { cbn [fst]. apply ext_restore. eapply ext_trans; [apply ext_of_quiet, q_w_brkD|apply ext_rloop; exact IH]. }
  destruct (Z.eqb (typ r) typeLoopCount).
  { cbn [fst]. apply ext_restore. eapply ext_trans; [apply ext_of_quiet, q_w_brkD|apply ext_cloop; exact IH]. }
  destruct (Z.eqb (typ r) typeBreak); [apply ext_of_quiet, q_w_brkD|].
  destruct (Z.eqb (typ r) typeLBreak); [apply ext_of_quiet, q_w_brkD|].
  destruct (Z.eqb (typ r) typeContinue); [apply ext_refl|].
  destruct (Z.eqb (typ r) typeCondOK).
  { destruct (condHlp r) as [|h hs]; [apply ext_refl|].
    destruct (u_condok U (h :: hs)) as [fn|]; [|apply ext_refl].
    pose proof (q_collect_args (condHlpArg r) c []) as Q. destruct (collect_args c (condHlpArg r) []) as [c1 la]. cbn [fst] in Q.
    take_log L c2 n. cbn [fst] in L.
    pose proof (ext_trans _ _ _ (ext_of_quiet _ _ Q) L) as E2.
    destruct (fn n la) as [v okv].
    assert (E3 : ext c (w_bufBl (w_bufX c2 v) okv)).
    { eapply ext_trans; [exact E2|apply ext_of_quiet; eapply quiet_trans; [apply q_w_bufX|apply q_w_bufBl]]. }
    destruct (u_ins U match condIns r with [] => bs "static" | x :: l => x :: l end) as [i|]; [|exact E3].
    assert (E4 : ext c (ctx_set (ctx_set (w_bufBl (w_bufX c2 v) okv) (condOKL r) v i) (condOKR r) (VBool okv) InsStatic)).
    { eapply ext_trans; [exact E3|apply ext_of_quiet; eapply quiet_trans; apply q_ctx_set]. }
    destruct (condR r) as [|cr crs].
    - eapply ext_trans; [exact E4|apply ext_branch; exact IH].
    - pose proof (q_node_cmp (ctx_set (ctx_set (w_bufBl (w_bufX c2 v) okv) (condOKL r) v i) (condOKR r) (VBool okv) InsStatic) r) as N.
      destruct (node_cmp (ctx_set (ctx_set (w_bufBl (w_bufX c2 v) okv) (condOKL r) v i) (condOKR r) (VBool okv) InsStatic) r) as [[c3 o3] e3].
      cbn [fst] in N. eapply ext_trans; [eapply ext_trans; [exact E4|apply ext_of_quiet; exact N]|apply ext_branch; exact IH]. }
  destruct (Z.eqb (typ r) typeCond).
  { assert (V : ext c (fst (fst (fst
      (match condHlp r with
       | [] => let '(c', b0, e') := node_cmp c r in (c', b0, e', false)
       | _ :: _ => if Z.eqb (condLC r) lcNone
                   then match call_cond U c (condHlp r) (condHlpArg r) with
                        | (c', Some b0) => (c', b0, None, false)
                        | (c', None) => (c', false, Some ECondHlpNotFound, true)
                        end
                   else (c, false, Some EUnsupported, true)
       end))))).
    { destruct (condHlp r) as [|h hs].
      - pose proof (q_node_cmp c r) as N. destruct (node_cmp c r) as [[c3 o3] e3]. apply ext_of_quiet. exact N.
      - destruct (Z.eqb (condLC r) lcNone); [|apply ext_refl].
        pose proof (ext_call_cond c (h :: hs) (condHlpArg r)) as C.
        destruct (call_cond U c (h :: hs) (condHlpArg r)) as [c1 [b|]]; exact C. }
    revert V.
    match goal with |- ext c (fst (fst (fst ?X))) -> _ => destruct X as [[[c1 ok1] e1] ea1] end.
    cbn [fst]. intro V.
    destruct ea1; [exact V|]. destruct (cerr c1); [exact V|].
    eapply ext_trans; [exact V|apply ext_branch; exact IH]. }
  destruct (Z.eqb (typ r) typeCondTrue || Z.eqb (typ r) typeCondFalse || Z.eqb (typ r) typeCase || Z.eqb (typ r) typeDefault).
  { apply ext_rules_lz. exact IH. }
  destruct (Z.eqb (typ r) typeSwitch).
  { assert (V : ext c (fst (fst (fst
      (match switchArg r with
       | [] => switch_nocond U (follow U f) (child r) c false
       | _ :: _ => switch_classic (follow U f) r (child r) c false
       end))))).
    { destruct (switchArg r); [apply ext_switch_nocond|apply ext_switch_classic]; exact IH. }
    revert V.
    match goal with |- ext c (fst (fst (fst ?X))) -> _ => destruct X as [[[c1 ok1] e1] ea1] end.
    cbn [fst]. intro V.
    destruct ea1; [exact V|]. destruct ok1; [exact V|].
    destruct (first_default (child r)); [eapply ext_trans; [exact V|apply IH]|exact V]. }
  destruct (callback r).
  { pose proof (q_collect_args (args r) c []) as Q. destruct (collect_args c (args r) []) as [c1 la]. cbn [fst] in Q.
    destruct (u_cb U (src r)) as [fn|]; [|apply ext_of_quiet; exact Q].
    take_log L c2 n. cbn [fst] in *.
    eapply ext_trans; [apply ext_of_quiet; exact Q|exact L]. }
  destruct (getter r).
  { pose proof (q_collect_args (args r) c []) as Q. destruct (collect_args c (args r) []) as [c1 la]. cbn [fst] in Q.
    assert (B : ext c (w_bufX c1 VNil)).
    { apply ext_of_quiet. eapply quiet_trans; [exact Q|apply q_w_bufX]. }
    assert (V : ext c (fst (fst
       (match builtin_getter (src r) with
        | Some g => run_bget (w_bufX c1 VNil) g la
        | None => match u_get U (src r) with
                  | Some fn => let '(c0, n) := log_call (w_bufX c1 VNil) (kind_of (bs "get") (match fn (ncalls (w_bufX c1 VNil)) la with inr _ => true | inl _ => false end)) (src r) la in
                               match fn n la with inl v => (c0, Some v, None) | inr x => (c0, None, Some x) end
                  | None => (w_bufX c1 VNil, None, Some EUnsupported)
                  end
        end)))).
    { destruct (builtin_getter (src r)) as [g|].
      - eapply ext_trans; [exact B|apply ext_of_quiet, q_run_bget].
      - destruct (u_get U (src r)) as [fn|]; [|exact B].
        take_log L c2 n. cbn [fst] in L.
        destruct (fn n la); cbn [fst]; eapply ext_trans; eassumption. }
    revert V.
    match goal with |- ext c (fst (fst ?X)) -> _ => destruct X as [[c2 ra] ea] end.
    cbn [fst]. intro V.
    assert (V2 : ext c match ra with Some v => w_bufX c2 v | None => c2 end).
    { destruct ra; [eapply ext_trans; [exact V|apply ext_of_quiet, q_w_bufX]|exact V]. }
    destruct ea; [exact V2|].
    eapply ext_trans; [exact V2|apply ext_of_quiet, q_ctx_set_path]. }
  destruct (nonempty (dst r) && static r).
  { eapply ext_trans; [apply ext_of_quiet, q_w_lenBB|apply ext_of_quiet, q_ctx_set_path]. }
  destruct (nonempty (dst r) && nonempty (src r) && negb (static r)); [|apply ext_refl].
  pose proof (q_ctx_get c (src r) (subset r)) as G. destruct (ctx_get c (src r) (subset r)) as [c1 va]. cbn [fst] in G.
  destruct (cerr c1); [apply ext_of_quiet; exact G|].
  pose proof (ext_run_mods (mods r) c1 va) as M. destruct (run_mods U (mods r) c1 va) as [c2 wa]. cbn [fst] in M.
  pose proof (ext_trans _ _ _ (ext_of_quiet _ _ G) M) as E2.
  destruct (cerr c2); [exact E2|].
  eapply ext_trans; [exact E2|apply ext_of_quiet, q_ctx_set_path].
Qed.

(* ------------------------------------------------ C04 with nothing left to assume *)

(* In every counter loop of every program, at every nesting depth, the loop
   variable reads Go's value of i in every iteration the body is entered. *)
Theorem counter_reads_go_value_everywhere f k n idx v lim c :
  valid_step (loopCntOp n) ->
  idx < List.length (bufLC c) -> nth idx (bufLC c) 0%Z = v ->
  Forall (fun p => fst p = snd p)
         (iter_reads (follow U f) n idx (go_seq k (loopCondOp n) (loopCntOp n) v lim) c).
Proof.
  intros Hs Hl Hv. apply counter_reads_go_value; try assumption.
  intros c0 c1 br Hb Hi.
  pose proof (ext_body (follow U f) (follow_keeps f) (child n) c0 false) as [K _].
  rewrite Hb in K. cbn [fst] in K. destruct (K (S idx) Hi) as [A B]. split; [apply B; lia|exact A].
Qed.

(* the log of calls only grows, whatever the program does: a rule cannot undo
   or reorder calls made by earlier rules *)
Corollary decode_extends_log fuel t c :
  exists new, trace (fst (decode U fuel t c)) = new ++ trace c /\
              ncalls (fst (decode U fuel t c)) = ncalls c + List.length new.
Proof. unfold decode, rules. destruct (ext_rules_lz (follow U fuel) (follow_keeps fuel) t c false) as [_ L]. exact L. Qed.

End WITH_U.
