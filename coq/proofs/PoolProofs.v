(* PoolProofs.v -- every object of an internal pool is, at any time, in exactly
   one place: the pool's free list or one context's list of borrowed objects.
   Hence no object is handed out twice, and Reset returns exactly what the
   context borrowed, each object reset and put back once (C14, second half). *)
From Coq Require Import List NArith ZArith Bool Lia.
From Dec Require Import Bytes Pool.
Import ListNotations.

Definition pair_eqb (a b : bytes * nat) : bool := bytes_eqb (fst a) (fst b) && Nat.eqb (snd a) (snd b).

Fixpoint count_nat (o : nat) (l : list nat) : nat :=
  match l with [] => 0 | x :: r => (if Nat.eqb x o then 1 else 0) + count_nat o r end.

Fixpoint count_pair (k : bytes) (o : nat) (l : list (bytes * nat)) : nat :=
  match l with
  | [] => 0
  | (k', o') :: r => (if bytes_eqb k' k && Nat.eqb o' o then 1 else 0) + count_pair k o r
  end.

Fixpoint count_held (k : bytes) (o : nat) (hs : list (list (bytes * nat))) : nat :=
  match hs with [] => 0 | h :: r => count_pair k o h + count_held k o r end.

Definition count_free (k : bytes) (o : nat) (ps : list (bytes * pool)) : nat :=
  match pool_find k ps with Some p => count_nat o (p_free p) | None => 0 end.

Definition next_of (k : bytes) (ps : list (bytes * pool)) : nat :=
  match pool_find k ps with Some p => p_next p | None => 0 end.

(* the invariant: an object that exists (serial below the pool's counter) is in
   exactly one place; one that does not exist is nowhere; nothing is held from
   an unregistered pool *)
Definition PInv (s : pstate) : Prop :=
  forall k o,
    count_free k o (pools s) + count_held k o (held s) =
    (if Nat.ltb o (next_of k (pools s)) then 1 else 0).

Lemma count_pair_app k o a b : count_pair k o (a ++ b) = count_pair k o a + count_pair k o b.
Proof. induction a as [|[k' o'] a IH]; simpl; [reflexivity|]. rewrite IH. lia. Qed.

Lemma pool_find_set_same k p l q : pool_find k l = Some q -> pool_find k (pool_set k p l) = Some p.
Proof.
  induction l as [|[k' x] l IH]; simpl; [discriminate|].
  destruct (bytes_eqb k k') eqn:E; simpl; rewrite E; auto.
Qed.

Lemma pool_find_set_other k k2 p l : k2 <> k -> pool_find k2 (pool_set k p l) = pool_find k2 l.
Proof.
  intro N. induction l as [|[k' x] l IH]; simpl; [reflexivity|].
  destruct (bytes_eqb k k') eqn:E; simpl.
  - apply bytes_eqb_eq in E; subst k'.
    destruct (bytes_eqb k2 k) eqn:E2; [apply bytes_eqb_eq in E2; congruence|reflexivity].
  - destruct (bytes_eqb k2 k'); [reflexivity|exact IH].
Qed.

Lemma pool_find_set_none k p l k2 : pool_find k2 l = None -> pool_find k2 (pool_set k p l) = None.
Proof.
  induction l as [|[k' x] l IH]; simpl; [auto|].
  destruct (bytes_eqb k k') eqn:E; simpl; destruct (bytes_eqb k2 k') eqn:E2; try discriminate; auto.
Qed.

Lemma count_held_upd k o : forall hs n h h',
  nth_error hs n = Some h ->
  count_held k o (upd_nth hs n h') + count_pair k o h = count_held k o hs + count_pair k o h'.
Proof.
  induction hs as [|x hs IH]; intros [|n] h h' H; simpl in *; try discriminate.
  - inversion H; subst. lia.
  - specialize (IH n h h' H). lia.
Qed.

Lemma bytes_eqb_sym a b : bytes_eqb a b = bytes_eqb b a.
Proof.
  destruct (bytes_eqb a b) eqn:E; symmetry.
  - apply bytes_eqb_eq in E; subst. apply bytes_eqb_refl.
  - apply bytes_eqb_neq. apply bytes_eqb_neq in E. congruence.
Qed.

Lemma PInv_init names n : PInv (pinit names n).
Proof.
  intros k o. unfold pinit, count_free, next_of. simpl.
  assert (H : count_held k o (repeat [] n) = 0) by (induction n; simpl; auto).
  rewrite H.
  assert (G : forall l, match pool_find k (map (fun k0 => (k0, mkPool [] 0)) l) with
                        | Some p => count_nat o (p_free p) | None => 0 end = 0 /\
                        match pool_find k (map (fun k0 => (k0, mkPool [] 0)) l) with
                        | Some p => p_next p | None => 0 end = 0).
  { induction l as [|x l IH]; simpl; [auto|]. destruct (bytes_eqb k x); simpl; auto. }
  destruct (G names) as [G1 G2]. rewrite G1, G2. reflexivity.
Qed.

(* acquiring keeps the invariant, and the object handed out was held by nobody *)
Lemma acquire_inv s c k s' o :
  PInv s -> acquire s c k = (s', Some o) ->
  PInv s' /\ count_held k o (held s) = 0 /\
  (exists h, nth_error (held s) c = Some h /\ nth_error (held s') c = Some (h ++ [(k, o)])).
Proof.
  intros I H. unfold acquire in H.
  destruct (pool_find k (pools s)) as [p|] eqn:Ep; [|inversion H].
  destruct (nth_error (held s) c) as [h|] eqn:Eh; [|inversion H].
  assert (Hupd : forall h', nth_error (upd_nth (held s) c h') c = Some h').
  { intro h'. clear -Eh. revert c Eh. induction (held s) as [|x l IH]; intros [|c] Eh; simpl in *; try discriminate; auto. }
  destruct (p_free p) as [|x fr] eqn:Ef.
  - (* a new object *)
    inversion H; subst s' o; clear H. split; [|split].
    + intros k2 o2. simpl. pose proof (I k2 o2) as Ik. unfold count_free, next_of in *.
      pose proof (count_held_upd k2 o2 (held s) c h (h ++ [(k, p_next p)]) Eh) as Hc.
      rewrite count_pair_app in Hc. simpl in Hc.
      destruct (bytes_eqb k2 k) eqn:E.
      * apply bytes_eqb_eq in E; subst k2.
        rewrite (pool_find_set_same k _ _ p Ep). rewrite Ep in Ik. rewrite Ef in Ik. simpl in *.
        rewrite bytes_eqb_refl in Hc. simpl in Hc.
        destruct (Nat.eqb_spec (p_next p) o2).
        -- subst o2. destruct (Nat.ltb_spec (p_next p) (p_next p)); [lia|].
           destruct (Nat.ltb_spec (p_next p) (S (p_next p))); lia.
        -- destruct (Nat.ltb_spec o2 (p_next p)); destruct (Nat.ltb_spec o2 (S (p_next p))); lia.
      * apply bytes_eqb_neq in E. rewrite (pool_find_set_other k k2 _ _ E).
        rewrite (bytes_eqb_sym k k2) in Hc.
        destruct (bytes_eqb k2 k) eqn:E2; [apply bytes_eqb_eq in E2; congruence|]. simpl in Hc. lia.
    + pose proof (I k (p_next p)) as Ik. unfold count_free, next_of in Ik. rewrite Ep, Ef in Ik. simpl in Ik.
      destruct (Nat.ltb_spec (p_next p) (p_next p)); lia.
    + exists h. split; [reflexivity|apply Hupd].
  - (* an object from the free list *)
    inversion H; subst s' o; clear H. split; [|split].
    + intros k2 o2. simpl. pose proof (I k2 o2) as Ik. unfold count_free, next_of in *.
      pose proof (count_held_upd k2 o2 (held s) c h (h ++ [(k, x)]) Eh) as Hc.
      rewrite count_pair_app in Hc. simpl in Hc.
      destruct (bytes_eqb k2 k) eqn:E.
      * apply bytes_eqb_eq in E; subst k2.
        rewrite (pool_find_set_same k _ _ p Ep). rewrite Ep in Ik. rewrite Ef in Ik. simpl in *.
        rewrite bytes_eqb_refl in Hc. simpl in Hc. lia.
      * apply bytes_eqb_neq in E. rewrite (pool_find_set_other k k2 _ _ E).
        rewrite (bytes_eqb_sym k k2) in Hc.
        destruct (bytes_eqb k2 k) eqn:E2; [apply bytes_eqb_eq in E2; congruence|]. simpl in Hc. lia.
    + pose proof (I k x) as Ik. unfold count_free, next_of in Ik. rewrite Ep, Ef in Ik. simpl in Ik.
      rewrite Nat.eqb_refl in Ik. destruct (Nat.ltb x (p_next p)); lia.
    + exists h. split; [reflexivity|apply Hupd].
Qed.

(* an unknown pool: nothing happens *)
Lemma acquire_unknown s c k : pool_find k (pools s) = None -> acquire s c k = (s, None).
Proof. intro H. unfold acquire. rewrite H. reflexivity. Qed.

(* releasing the borrowed objects one by one *)
Lemma release_all_inv : forall h ps lg hs,
  (forall k o, count_free k o ps + (count_pair k o h + count_held k o hs) =
               (if Nat.ltb o (next_of k ps) then 1 else 0)) ->
  let '(ps', lg') := release_all ps lg h in
  (forall k o, count_free k o ps' + count_held k o hs =
               (if Nat.ltb o (next_of k ps') then 1 else 0)).
Proof.
  induction h as [|[k0 o0] h IH]; intros ps lg hs H; simpl.
  - intros k o. specialize (H k o). simpl in H. lia.
  - unfold release. destruct (pool_find k0 ps) as [p|] eqn:Ep.
    + apply IH. intros k o. specialize (H k o). simpl in H.
      unfold count_free, next_of in *.
      destruct (bytes_eqb k k0) eqn:E.
      * apply bytes_eqb_eq in E; subst k.
        rewrite (pool_find_set_same k0 _ _ p Ep). rewrite Ep in H. simpl.
        rewrite bytes_eqb_refl in H. simpl in H.
        destruct (Nat.eqb o0 o); simpl in *; lia.
      * apply bytes_eqb_neq in E. rewrite (pool_find_set_other k0 k _ _ E).
        rewrite (bytes_eqb_sym k0 k) in H.
        destruct (bytes_eqb k k0) eqn:E2; [apply bytes_eqb_eq in E2; congruence|]. simpl in H. lia.
    + (* cannot happen under the invariant: the object would exist nowhere *)
      exfalso. specialize (H k0 o0). simpl in H. unfold count_free, next_of in H. rewrite Ep in H.
      rewrite bytes_eqb_refl, Nat.eqb_refl in H. simpl in H. lia.
Qed.

Lemma count_held_remove k o : forall hs n h,
  nth_error hs n = Some h ->
  count_held k o hs = count_pair k o h + count_held k o (upd_nth hs n []).
Proof.
  induction hs as [|x hs IH]; intros [|n] h H; simpl in *; try discriminate.
  - inversion H; subst. lia.
  - rewrite (IH n h H). lia.
Qed.

Lemma reset_inv s c : PInv s -> PInv (reset s c).
Proof.
  intros I. unfold reset. destruct (nth_error (held s) c) as [h|] eqn:Eh; [|exact I].
  pose proof (release_all_inv h (pools s) (plog s) (upd_nth (held s) c [])) as R.
  destruct (release_all (pools s) (plog s) h) as [ps lg].
  intros k o. simpl. apply R. intros k1 o1. specialize (I k1 o1).
  rewrite (count_held_remove k1 o1 (held s) c h Eh) in I. exact I.
Qed.

Lemma upd_nth_same {A} (l : list A) n x y : nth_error l n = Some y -> nth_error (upd_nth l n x) n = Some x.
Proof. revert n; induction l as [|a l IH]; intros [|n] H; simpl in *; try discriminate; auto. Qed.

(* after Reset the context holds nothing *)
Lemma reset_holds_nothing s c h : nth_error (held s) c = Some h -> nth_error (held (reset s c)) c = Some [].
Proof.
  intro H. unfold reset. rewrite H. destruct (release_all (pools s) (plog s) h) as [ps lg]. simpl.
  eapply upd_nth_same; eauto.
Qed.

(* and the log gained, for each borrowed object in order, one Reset and one Put *)
Fixpoint release_events (h : list (bytes * nat)) : list pevent :=
  match h with [] => [] | (k, o) :: r => release_events r ++ [PPut k o; PReset k o] end.

Lemma release_all_log : forall h ps lg,
  (forall k o, In (k, o) h -> pool_find k ps <> None) ->
  snd (release_all ps lg h) = release_events h ++ lg.
Proof.
  induction h as [|[k o] h IH]; intros ps lg H; simpl; [reflexivity|].
  unfold release. destruct (pool_find k ps) as [p|] eqn:Ep.
  - rewrite IH.
    + rewrite <- app_assoc. reflexivity.
    + intros k1 o1 Hin. specialize (H k1 o1 (or_intror Hin)).
      destruct (bytes_eqb k1 k) eqn:E.
      * apply bytes_eqb_eq in E; subst. rewrite (pool_find_set_same k _ _ p Ep). discriminate.
      * apply bytes_eqb_neq in E. rewrite (pool_find_set_other k k1 _ _ E). exact H.
  - exfalso. apply (H k o); [left; reflexivity|exact Ep].
Qed.

Lemma held_registered s : PInv s ->
  forall c h k o, nth_error (held s) c = Some h -> In (k, o) h -> pool_find k (pools s) <> None.
Proof.
  intros I c h k o Hc Hin Hn. specialize (I k o). unfold count_free, next_of in I. rewrite Hn in I. simpl in I.
  assert (1 <= count_held k o (held s)).
  { rewrite (count_held_remove k o (held s) c h Hc).
    assert (1 <= count_pair k o h).
    { clear -Hin. induction h as [|[k' o'] h IH]; [destruct Hin|]. simpl. destruct Hin as [E|Hin].
      - inversion E; subst. rewrite bytes_eqb_refl, Nat.eqb_refl. simpl. lia.
      - specialize (IH Hin). lia. }
    lia. }
  lia.
Qed.

Theorem reset_returns_all s c h :
  PInv s -> nth_error (held s) c = Some h ->
  plog (reset s c) = release_events h ++ plog s.
Proof.
  intros I Hc. unfold reset. rewrite Hc.
  pose proof (release_all_log h (pools s) (plog s)) as L.
  destruct (release_all (pools s) (plog s) h) as [ps lg] eqn:E. simpl. simpl in L. apply L.
  intros k o Hin. eapply held_registered; eauto.
Qed.

(* the invariant holds after every history *)
Lemma pstep_inv s o : PInv s -> PInv (pstep s o).
Proof.
  intros I. destruct o as [c k|c]; simpl.
  - destruct (acquire s c k) as [s' [x|]] eqn:E.
    + simpl. eapply acquire_inv; eauto.
    + simpl. unfold acquire in E.
      destruct (pool_find k (pools s)); [destruct (nth_error (held s) c)|]; try (inversion E; subst; exact I).
      destruct (p_free p); inversion E.
  - apply reset_inv. exact I.
Qed.

Theorem prun_inv names n ops : PInv (prun names n ops).
Proof.
  unfold prun. assert (G : forall s, PInv s -> PInv (fold_left pstep ops s)).
  { induction ops as [|o ops IH]; intros s I; simpl; [exact I|]. apply IH. apply pstep_inv. exact I. }
  apply G. apply PInv_init.
Qed.

(* C14: no object is ever handed out while someone still holds it *)
Theorem never_handed_out_twice names n ops c k s' o :
  acquire (prun names n ops) c k = (s', Some o) ->
  count_held k o (held (prun names n ops)) = 0.
Proof. intro H. eapply acquire_inv; [apply prun_inv|exact H]. Qed.
