(* IndepFacts.v -- C02, program level.  A block of assignment rules
   `obj.F1 = <literal or document path>`, ..., `obj.Fn = ...` with pairwise
   distinct destination fields leaves the destination object equal to the
   union of the rules' individual effects, and that state is the same for
   every ordering of the rules. *)
From Coq Require Import List NArith ZArith Bool Lia String Permutation.
From Dec Require Import Bytes Strconv Crc Values Tree Interp.
From Dec.proofs Require Import InterpFacts InterpFacts2 InterpFacts3.
Import ListNotations.

Local Arguments split_path : simpl never.
Local Arguments find_var : simpl never.
Local Arguments ctx_get : simpl never.
Local Arguments assign : simpl never.
Local Arguments oupdate : simpl never.
Local Arguments oresolve : simpl never.

(* the assignment cascade reads the context only through the loop counters
   (a counter value handed over by reference) *)
Lemma assign_counters c c' f v : bufLC c = bufLC c' -> assign c f v = assign c' f v.
Proof. intro E. unfold assign, x2bytes, deref. rewrite E. reflexivity. Qed.

Lemma set_nth_l_twice {A} (l : list A) i x y : set_nth_l (set_nth_l l i x) i y = set_nth_l l i y.
Proof.
  revert i. induction l as [|a l IH]; intros [|i]; simpl; try reflexivity. rewrite IH. reflexivity.
Qed.

Lemma nth_error_set_nth_l_same {A} (l : list A) i x a : nth_error l i = Some a -> nth_error (set_nth_l l i x) i = Some x.
Proof.
  revert i. induction l as [|b l IH]; intros [|i] H; simpl in *; try discriminate; [reflexivity|]. apply IH. exact H.
Qed.

Section INDEP.
Variable U : ufuns.
(* the destination variable, the source variable, the document the source
   variable holds, the object the destination variable points to, the loop
   counters and the variable table: none of them is written by these rules *)
Variables (dk sk : bytes) (doc : json) (oid : nat) (lc : list Z) (vs : list (bytes * val * insk)) (s0 : list obj).
Hypothesis dk_not_ctx : is_ctx_name dk = false.
Hypothesis vs_dst : find_var vs dk = Some (VObj oid [], InsObj).
Hypothesis vs_src : find_var vs sk = Some (VNode doc, InsVector).

(* the states the block runs through: no pending error, the counters and the
   variables as given, the destination object currently [ob], every other
   object as in the store [s0] the block started with *)
Definition St (c : ctx) (ob : obj) : Prop :=
  cerr c = None /\ bufLC c = lc /\ vars c = vs /\ nth_error (store c) oid = Some ob /\
  forall j, j <> oid -> nth_error (store c) j = nth_error s0 j.

(* one field write *)
Lemma write_field c ob path fk fld fld' x insn :
  St c ob -> split_path path = [dk; fk] ->
  assoc_b fk (o_fields ob) = Some fld -> assign c fld x = Some fld' ->
  exists c', ctx_set_path U c path x insn = (c', None) /\
             St c' (oupdate ofuel ob [fk] fld') /\
             store c' = set_nth_l (store c) oid (oupdate ofuel ob [fk] fld') /\
             trace c' = trace c /\ ncalls c' = ncalls c.
Proof.
  intros (Hce & Hlc & Hvs & Hob & Hoth) Hs Hf Ha.
  unfold ctx_set_path.
  destruct path as [|p0 p']; [discriminate Hs|].
  assert (Hne : vars c <> []) by (rewrite Hvs; intro E; rewrite E in vs_dst; discriminate vs_dst).
  destruct (vars c) as [|v0 vr] eqn:Ev; [congruence|].
  rewrite Hvs, Hs, dk_not_ctx, vs_dst.
  unfold obj_setwb. cbn [store w_bufX app]. rewrite Hob.
  unfold oresolve, ofuel. rewrite Hf.
  rewrite (assign_counters (w_bufX c x) c fld x eq_refl), Ha.
  eexists. split; [reflexivity|].
  unfold St. cbn [cerr bufLC vars store trace ncalls w_cerr w_store w_bufX].
  repeat split; try assumption; try congruence.
  - eapply nth_error_set_nth_l_same. exact Hob.
  - intros j Hj. rewrite nth_set_nth_l_other by congruence. apply Hoth. exact Hj.
Qed.

(* the two shapes of rule: `dst = "literal"` and `dst = src.path` *)
Lemma follow_static_assign f r c :
  typ r = typeOperator -> callback r = false -> getter r = false -> static r = true ->
  nonempty (dst r) = true ->
  follow U (S f) r c = ctx_set_path U (w_lenBB c (S (lenBB c))) (dst r) (VBytes (src r)) (ins r).
Proof.
  intros H H1 H2 H3 H4. cbn [follow]. rewrite H. cbn. rewrite H1, H2, H3, H4. reflexivity.
Qed.

Lemma follow_path_assign f r c :
  typ r = typeOperator -> callback r = false -> getter r = false -> static r = false ->
  nonempty (dst r) = true -> nonempty (src r) = true -> mods r = [] ->
  follow U (S f) r c =
    (let '(c1, raw) := ctx_get c (src r) (subset r) in
     match cerr c1 with
     | Some x => (c1, Some x)
     | None => ctx_set_path U c1 (dst r) raw (ins r)
     end).
Proof.
  intros H H1 H2 H3 H4 H5 H6. cbn [follow]. rewrite H. cbn. rewrite H1, H2, H3, H4, H5, H6. cbn.
  destruct (ctx_get c (src r) (subset r)) as [c1 raw]. destruct (cerr c1); reflexivity.
Qed.

(* what a rule assigns: its literal; the value its path selects in the
   document; the value of a static (or context) variable; a field of an object
   other than the destination object *)
Definition rule_src (r : node) (x : val) : Prop :=
  typ r = typeOperator /\ callback r = false /\ getter r = false /\
  ((static r = true /\ x = VBytes (src r)) \/
   (static r = false /\ mods r = [] /\ subset r = [] /\
    exists rest, split_path (src r) = sk :: rest /\ x = VNode (jget doc rest)) \/
   (static r = false /\ mods r = [] /\ subset r = [] /\
    exists tk rest, split_path (src r) = tk :: rest /\ find_var vs tk = Some (x, InsStatic) /\
                    (forall j, x <> VNode j)) \/
   (static r = false /\ mods r = [] /\ subset r = [] /\
    exists tk rest oid2 pre ob2 fl, split_path (src r) = tk :: rest /\
      find_var vs tk = Some (VObj oid2 pre, InsObj) /\ oid2 <> oid /\
      nth_error s0 oid2 = Some ob2 /\ oresolve ofuel ob2 (pre ++ rest) = RField fl /\ x = val_of_fval fl)).

(* rule [r] is `dk.F = ...` with F = [fst e], and the cascade turns the value
   it assigns into [snd e] for that field of [ob] *)
Definition writes (ob : obj) (r : node) (e : bytes * fval) : Prop :=
  split_path (dst r) = [dk; fst e] /\
  exists x fld, rule_src r x /\ assoc_b (fst e) (o_fields ob) = Some fld /\
                forall cc, bufLC cc = lc -> assign cc fld x = Some (snd e).

Definition upd (o : obj) (e : bytes * fval) : obj := oupdate ofuel o [fst e] (snd e).

(* one rule *)
Lemma rule_step f r e c ob :
  St c ob -> writes ob r e ->
  exists c', follow U (S f) r c = (c', None) /\ St c' (upd ob e) /\
             store c' = set_nth_l (store c) oid (upd ob e) /\
             trace c' = trace c /\ ncalls c' = ncalls c.
Proof.
  intros HS (Hd & x & fld & (Ht & Hcb & Hg & Hk) & Hf & Ha).
  assert (Hnd : nonempty (dst r) = true) by (destruct (dst r); [discriminate Hd|reflexivity]).
  assert (Hne0 : vs <> []) by (intro E; rewrite E in vs_dst; discriminate vs_dst).
  destruct Hk as [(Hst & ->)|[(Hst & Hm & Hsub & rest & Hs & ->)|[(Hst & Hm & Hsub & tk & rest & Hs & Hv & Hnn)|(Hst & Hm & Hsub & tk & rest & oid2 & pre & ob2 & fl & Hs & Hv & Hne2 & Ho2 & Hr & ->)]]].
  - rewrite (follow_static_assign f r c Ht Hcb Hg Hst Hnd).
    assert (HS' : St (w_lenBB c (S (lenBB c))) ob) by exact HS.
    destruct (write_field _ ob (dst r) (fst e) fld (snd e) (VBytes (src r)) (ins r) HS' Hd Hf) as (c' & E & K).
    { apply Ha. apply HS. }
    exists c'. split; [exact E|]. exact K.
  - assert (Hns : nonempty (src r) = true) by (destruct (src r); [discriminate Hs|reflexivity]).
    rewrite (follow_path_assign f r c Ht Hcb Hg Hst Hnd Hns Hm).
    destruct HS as (Hce & Hlc & Hvs & Hob & Hoth).
    unfold ctx_get. rewrite Hsub.
    destruct (src r) as [|s0' s'] eqn:Es; [discriminate|].
    change (vars (w_bufX c VNil)) with (vars c).
    assert (Hne : vars c <> []) by (rewrite Hvs; exact Hne0).
    destruct (vars c) as [|v0 vr] eqn:Ev; [congruence|].
    rewrite Hvs, Hs, vs_src. cbn [cerr w_bufX]. rewrite Hce.
    set (c1 := w_bufX (w_bufX c VNil) (VNode (jget doc rest))).
    assert (HS' : St c1 ob) by (unfold St, c1; cbn [cerr bufLC vars store w_bufX]; repeat split; try assumption; try congruence).
    destruct (write_field c1 ob (dst (r)) (fst e) fld (snd e) (VNode (jget doc rest)) (ins r) HS' Hd Hf) as (c' & E & K).
    { apply Ha. exact Hlc. }
    exists c'. split; [exact E|]. exact K.
  - assert (Hns : nonempty (src r) = true) by (destruct (src r); [discriminate Hs|reflexivity]).
    rewrite (follow_path_assign f r c Ht Hcb Hg Hst Hnd Hns Hm).
    destruct HS as (Hce & Hlc & Hvs & Hob & Hoth).
    unfold ctx_get. rewrite Hsub.
    destruct (src r) as [|s0' s'] eqn:Es; [discriminate|].
    change (vars (w_bufX c VNil)) with (vars c).
    assert (Hne : vars c <> []) by (rewrite Hvs; exact Hne0).
    destruct (vars c) as [|v0 vr] eqn:Ev; [congruence|].
    rewrite Hvs, Hs, Hv.
    assert (E1 : match x with
                 | VNode j => (w_bufX (w_bufX c VNil) (VNode (jget j rest)), VNode (jget j rest))
                 | _ => (w_cerr (w_bufX (w_bufX c VNil) x) None, x)
                 end = (w_cerr (w_bufX (w_bufX c VNil) x) None, x)).
    { destruct x; try reflexivity. exfalso. eapply Hnn. reflexivity. }
    assert (E2 : (match x with
                  | VNode j => (w_bufX (w_bufX c VNil) (VNode (jget j rest)), VNode (jget j rest))
                  | _ => match ins_getto (w_bufX c VNil) InsStatic x rest with
                         | GVal y => (w_cerr (w_bufX (w_bufX c VNil) y) None, y)
                         | GUntouched => (w_cerr (w_bufX c VNil) None, VNil)
                         | GErr e0 => (w_cerr (w_bufX c VNil) (Some e0), VNil)
                         end
                  end) = (w_cerr (w_bufX (w_bufX c VNil) x) None, x)).
    { destruct x; try reflexivity. exfalso. eapply Hnn. reflexivity. }
    destruct x; try (exfalso; eapply Hnn; reflexivity);
      cbn [ins_getto cerr w_cerr w_bufX];
      match goal with |- exists c', ctx_set_path U ?c1 _ ?xx _ = _ /\ _ =>
        assert (HS' : St c1 ob) by (unfold St; cbn [cerr bufLC vars store w_bufX w_cerr]; repeat split; try assumption; try congruence);
        destruct (write_field c1 ob (dst r) (fst e) fld (snd e) xx (ins r) HS' Hd Hf) as (c' & E & K);
        [apply Ha; exact Hlc|exists c'; split; [exact E|exact K]]
      end.
  - assert (Hns : nonempty (src r) = true) by (destruct (src r); [discriminate Hs|reflexivity]).
    rewrite (follow_path_assign f r c Ht Hcb Hg Hst Hnd Hns Hm).
    destruct HS as (Hce & Hlc & Hvs & Hob & Hoth).
    unfold ctx_get. rewrite Hsub.
    destruct (src r) as [|s0' s'] eqn:Es; [discriminate|].
    change (vars (w_bufX c VNil)) with (vars c).
    assert (Hne : vars c <> []) by (rewrite Hvs; exact Hne0).
    destruct (vars c) as [|v0 vr] eqn:Ev; [congruence|].
    rewrite Hvs, Hs, Hv. cbn [ins_getto store w_bufX]. rewrite (Hoth oid2 Hne2), Ho2, Hr.
    cbn [cerr w_cerr w_bufX].
    set (c1 := w_cerr (w_bufX (w_bufX c VNil) (val_of_fval fl)) None).
    assert (HS' : St c1 ob) by (unfold St, c1; cbn [cerr bufLC vars store w_bufX w_cerr]; repeat split; try assumption; try congruence).
    destruct (write_field c1 ob (dst r) (fst e) fld (snd e) (val_of_fval fl) (ins r) HS' Hd Hf) as (c' & E & K).
    { apply Ha. exact Hlc. }
    exists c'. split; [exact E|]. exact K.
Qed.

(* a rule that writes another field is not affected by this write *)
Lemma writes_other ob r e p v :
  writes ob r e -> fst e <> p -> assoc_b p (o_fields ob) <> None ->
  writes (oupdate ofuel ob [p] v) r e.
Proof.
  intros (Hd & x & fld & Hr & Hf & Ha) Hn Hp. split; [exact Hd|].
  exists x, fld. split; [exact Hr|]. split; [|exact Ha].
  unfold ofuel. rewrite oupdate_flat_other by assumption. exact Hf.
Qed.

Lemma writes_present ob r e : writes ob r e -> assoc_b (fst e) (o_fields ob) <> None.
Proof. intros (_ & x & fld & _ & Hf & _). congruence. Qed.

(* the block: rules paired with what they write *)
Definition block_writes (ob : obj) (l : list (node * (bytes * fval))) : Prop :=
  Forall (fun p => writes ob (fst p) (snd p)) l /\ NoDup (map (fun p => fst (snd p)) l).

Lemma block_writes_tail ob p l : block_writes ob (p :: l) -> block_writes (upd ob (snd p)) l.
Proof.
  intros (HF & HN). inversion HF as [|? ? Hp HF']; subst. inversion HN as [|? ? Hni HN']; subst.
  split; [|exact HN'].
  apply Forall_forall. intros q Hq. apply writes_other.
  - eapply Forall_forall in HF'; eauto.
  - intro E. apply Hni. rewrite <- E. apply (in_map (fun p => fst (snd p))). exact Hq.
  - eapply writes_present. exact Hp.
Qed.

(* C02, the block as a whole: it succeeds, leaves the destination object equal
   to the rules' writes applied one after another, touches no other object, no
   variable and no counter, and calls nothing *)
Theorem independent_block f l : forall c ob,
  St c ob -> block_writes ob l ->
  exists c', rules (follow U (S f)) (map fst l) c = (c', None) /\
             St c' (fold_left upd (map snd l) ob) /\
             store c' = set_nth_l (store c) oid (fold_left upd (map snd l) ob) /\
             trace c' = trace c /\ ncalls c' = ncalls c.
Proof.
  induction l as [|p l IH]; intros c ob HS HB.
  - exists c. cbn. split; [reflexivity|]. split; [exact HS|]. split; [|split; reflexivity].
    destruct HS as (_ & _ & _ & Hob & _). clear - Hob. revert Hob. generalize (store c) as s. intro s. revert oid.
    induction s as [|a s IHs]; intros [|i] H; simpl in *; try discriminate; [congruence|]. f_equal. apply IHs. exact H.
  - destruct HB as (HF & HN). pose proof (block_writes_tail ob p l (conj HF HN)) as HB'.
    inversion HF as [|? ? Hp HF']; subst.
    destruct (rule_step f (fst p) (snd p) c ob HS Hp) as (c1 & E1 & HS1 & Hst1 & Ht1 & Hn1).
    destruct (IH c1 (upd ob (snd p)) HS1 HB') as (c' & E & HS' & Hst & Ht & Hn).
    exists c'. cbn [map fold_left]. split.
    + rewrite (rules_cons_ok _ _ _ _ _ E1). exact E.
    + split; [exact HS'|]. split; [|split; congruence].
      rewrite Hst, Hst1. apply set_nth_l_twice.
Qed.

(* ---- the order of the writes does not matter *)

Definition keys_present (ob : obj) (es : list (bytes * fval)) : Prop :=
  Forall (fun e => assoc_b (fst e) (o_fields ob) <> None) es.

Lemma upd_present ob e k : assoc_b (fst e) (o_fields ob) <> None ->
  assoc_b k (o_fields ob) <> None -> assoc_b k (o_fields (upd ob e)) <> None.
Proof.
  intros He Hk. unfold upd, ofuel. destruct (list_eq_dec N.eq_dec k (fst e)) as [->|N].
  - destruct (assoc_b (fst e) (o_fields ob)) as [x|] eqn:E; [|congruence].
    rewrite (oupdate_flat_same _ _ _ _ x E). discriminate.
  - rewrite oupdate_flat_other; assumption.
Qed.

Lemma keys_present_upd ob e es : assoc_b (fst e) (o_fields ob) <> None ->
  keys_present ob es -> keys_present (upd ob e) es.
Proof.
  intros He H. apply Forall_forall. intros x Hx. apply upd_present; [exact He|].
  eapply Forall_forall in H; eauto.
Qed.

Lemma fold_upd_perm es es' : Permutation es es' -> forall ob,
  NoDup (map fst es) -> keys_present ob es ->
  fold_left upd es ob = fold_left upd es' ob.
Proof.
  induction 1 as [|x l l' HP IH|x y l|l l' l'' HP1 IH1 HP2 IH2]; intros ob HN HK.
  - reflexivity.
  - cbn [fold_left]. inversion HN; subst. inversion HK; subst. apply IH; [assumption|].
    apply keys_present_upd; assumption.
  - cbn [fold_left]. f_equal.
    inversion HN as [|? ? Hni HN']; subst. inversion HK as [|? ? Hy HK']; subst. inversion HK' as [|? ? Hx _]; subst.
    unfold upd, ofuel. apply oupdate_flat_comm; try assumption.
    intro E. apply Hni. left. symmetry. exact E.
  - rewrite IH1 by assumption. apply IH2.
    + eapply Permutation_NoDup; [|exact HN]. apply Permutation_map. exact HP1.
    + eapply Permutation_Forall; eassumption.
Qed.

(* ---- and the result is the union of the individual effects *)

Lemma fold_upd_other es : forall ob k, keys_present ob es -> ~ In k (map fst es) ->
  assoc_b k (o_fields (fold_left upd es ob)) = assoc_b k (o_fields ob).
Proof.
  induction es as [|e es IH]; intros ob k HK Hni; [reflexivity|].
  cbn [fold_left]. inversion HK; subst. rewrite IH.
  - unfold upd, ofuel. apply oupdate_flat_other; [|assumption]. intro E. apply Hni. left. symmetry. exact E.
  - apply keys_present_upd; assumption.
  - intro H. apply Hni. right. exact H.
Qed.

Lemma fold_upd_same es : forall ob e, keys_present ob es -> NoDup (map fst es) -> In e es ->
  assoc_b (fst e) (o_fields (fold_left upd es ob)) = Some (snd e).
Proof.
  induction es as [|e0 es IH]; intros ob e HK HN Hin; [destruct Hin|].
  cbn [fold_left]. inversion HK as [|? ? H0 HK']; subst. inversion HN as [|? ? Hni HN']; subst.
  destruct Hin as [->|Hin].
  - rewrite fold_upd_other.
    + unfold upd, ofuel. destruct (assoc_b (fst e) (o_fields ob)) as [x|] eqn:E; [|congruence].
      apply (oupdate_flat_same _ _ _ _ x E).
    + apply keys_present_upd; assumption.
    + exact Hni.
  - apply IH; [apply keys_present_upd; assumption|exact HN'|exact Hin].
Qed.

Lemma block_keys_present ob l : block_writes ob l -> keys_present ob (map snd l).
Proof.
  intros (HF & _). apply Forall_forall. intros e He. apply in_map_iff in He. destruct He as (p & <- & Hp).
  eapply writes_present. eapply Forall_forall in HF; eauto.
Qed.

Lemma block_nodup ob l : block_writes ob l -> NoDup (map fst (map snd l)).
Proof. intros (_ & HN). rewrite map_map. exact HN. Qed.

Lemma block_writes_perm ob l l' : Permutation l l' -> block_writes ob l -> block_writes ob l'.
Proof.
  intros HP (HF & HN). split.
  - eapply Permutation_Forall; eassumption.
  - eapply Permutation_NoDup; [|exact HN]. apply Permutation_map. exact HP.
Qed.

(* C02, second sentence.  For a block of rules with pairwise distinct
   destination fields, each assigning a literal or a value of the document:
   (1) every ordering succeeds; (2) every ordering leaves the same objects,
   variables, counters and call log; (3) in that state each destination field
   holds exactly what its rule alone writes, and every other field of the
   object is as before. *)
Theorem independent_rules_any_order f l l' c ob :
  St c ob -> block_writes ob l -> Permutation l l' ->
  exists c1 c2,
    rules (follow U (S f)) (map fst l) c = (c1, None) /\
    rules (follow U (S f)) (map fst l') c = (c2, None) /\
    store c1 = store c2 /\ vars c1 = vars c /\ vars c2 = vars c /\
    bufLC c1 = bufLC c /\ bufLC c2 = bufLC c /\ trace c1 = trace c /\ trace c2 = trace c /\
    exists ob', nth_error (store c1) oid = Some ob' /\
      (forall p, In p l -> assoc_b (fst (snd p)) (o_fields ob') = Some (snd (snd p))) /\
      (forall k, ~ In k (map (fun p => fst (snd p)) l) -> assoc_b k (o_fields ob') = assoc_b k (o_fields ob)) /\
      (forall j, j <> oid -> nth_error (store c1) j = nth_error (store c) j).
Proof.
  intros HS HB HP.
  pose proof (block_writes_perm ob l l' HP HB) as HB'.
  destruct (independent_block f l c ob HS HB) as (c1 & E1 & HS1 & Hst1 & Ht1 & _).
  destruct (independent_block f l' c ob HS HB') as (c2 & E2 & HS2 & Hst2 & Ht2 & _).
  assert (EF : fold_left upd (map snd l) ob = fold_left upd (map snd l') ob).
  { apply fold_upd_perm; [apply Permutation_map; exact HP|eapply block_nodup; exact HB|apply block_keys_present; exact HB]. }
  exists c1, c2. destruct HS as (Hce & Hlc & Hvs & Hob & _).
  destruct HS1 as (_ & Hlc1 & Hvs1 & Hob1 & _). destruct HS2 as (_ & Hlc2 & Hvs2 & _).
  repeat (split; [first [exact E1|exact E2|congruence]|]).
  exists (fold_left upd (map snd l) ob). split; [exact Hob1|]. split; [|split].
  - intros p Hp. apply (fold_upd_same (map snd l) ob (snd p)).
    + apply block_keys_present; exact HB.
    + eapply block_nodup; exact HB.
    + apply in_map. exact Hp.
  - intros k Hk. apply fold_upd_other; [apply block_keys_present; exact HB|]. rewrite map_map. exact Hk.
  - intros j Hj. rewrite Hst1. apply nth_set_nth_l_other. congruence.
Qed.

End INDEP.
