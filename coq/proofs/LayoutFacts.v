(* LayoutFacts.v -- C09, line level: how a statement's line ends does not
   change the control line the parser cuts out.  A statement without braces
   and semicolons is cut identically whether it is followed by LF, by CR LF,
   by `;` and anything up to the end of the line, or by the end of the text;
   a block header is cut at its opening brace whatever follows on the line. *)
From Coq Require Import List NArith ZArith Bool Lia String.
From Dec Require Import Bytes Strconv Crc Regex Tree Db Parser.
From Dec.proofs Require Import ParserFacts.
Import ListNotations.

Local Arguments N.eqb : simpl never.

Definition no_byte (c : N) (s : bytes) : Prop := forall x, In x s -> N.eqb x c = false.

Lemma index_byte_none c s : no_byte c s -> index_byte c s = None.
Proof.
  induction s as [|x r IH]; intro H; [reflexivity|]. simpl.
  rewrite (H x (or_introl eq_refl)). rewrite IH; [reflexivity|]. intros y Hy. apply H. right. exact Hy.
Qed.

Lemma index_pos_none c s : no_byte c s -> index_pos c s = None.
Proof. intro H. unfold index_pos. rewrite index_byte_none by exact H. reflexivity. Qed.

Lemma index_byte_app c s rest : no_byte c s -> index_byte c (s ++ c :: rest) = Some (List.length s).
Proof.
  induction s as [|x r IH]; intro H; simpl.
  - rewrite N.eqb_refl. reflexivity.
  - rewrite (H x (or_introl eq_refl)). rewrite IH; [reflexivity|]. intros y Hy. apply H. right. exact Hy.
Qed.

(* a line: bytes without LF and CR *)
Definition one_line (s : bytes) : Prop := no_byte c_nl s /\ no_byte c_cr s.

Lemma index_any_nl_app s t rest : one_line s -> (t = c_nl \/ t = c_cr) ->
  index_any_nl (s ++ t :: rest) = Some (List.length s).
Proof.
  intros [H1 H2] Ht. unfold index_any_nl.
  assert (G : forall l i, no_byte c_nl l -> no_byte c_cr l ->
     (fix go (l : bytes) (i : nat) : option nat :=
        match l with [] => None | c :: r => if N.eqb c c_nl || N.eqb c c_cr then Some i else go r (S i) end)
       (l ++ t :: rest) i = Some (i + List.length l)).
  { induction l as [|x r IH]; intros i A B; simpl.
    - destruct Ht; subst t; simpl; f_equal; lia.
    - rewrite (A x (or_introl eq_refl)), (B x (or_introl eq_refl)). simpl.
      rewrite IH; [f_equal; lia| |]; intros y Hy; [apply A|apply B]; right; exact Hy. }
  rewrite (G s 0 H1 H2). reflexivity.
Qed.

Lemma index_any_nl_none s : one_line s -> index_any_nl s = None.
Proof.
  intros [H1 H2]. unfold index_any_nl.
  assert (G : forall l i, no_byte c_nl l -> no_byte c_cr l ->
     (fix go (l : bytes) (i : nat) : option nat :=
        match l with [] => None | c :: r => if N.eqb c c_nl || N.eqb c c_cr then Some i else go r (S i) end) l i = None).
  { induction l as [|x r IH]; intros i A B; simpl; [reflexivity|].
    rewrite (A x (or_introl eq_refl)), (B x (or_introl eq_refl)). simpl.
    apply IH; intros y Hy; [apply A|apply B]; right; exact Hy. }
  apply G; assumption.
Qed.

Lemma skip_fmt_head c r off : is_fmt c = false -> skip_fmt (c :: r) off = Some off.
Proof. intro H. simpl. rewrite H. reflexivity. Qed.

Lemma firstn_app_exact {A} (l r : list A) : firstn (List.length l) (l ++ r) = l.
Proof. induction l; simpl; [destruct r; reflexivity|f_equal; assumption]. Qed.

(* a statement: starts with a non-layout byte, has no braces and no semicolon *)
Definition stmt_line (s : bytes) : Prop :=
  (exists c r, s = c :: r /\ is_fmt c = false) /\ one_line s /\
  no_byte c_semi s /\ no_byte c_lbrace s /\ no_byte c_rbrace s.

(* ... followed by LF or CR (so also CR LF): the control line is the statement *)
Theorem stmt_cut_at_line_end s t rest :
  stmt_line s -> (t = c_nl \/ t = c_cr) -> next_ctl (s ++ t :: rest) 0 = Some (s, 0).
Proof.
  intros ([c [r [Es Hc]]] & Hl & Hs & Hb & Hr) Ht. unfold next_ctl. cbn [skipn].
  rewrite Es at 1. cbn [app]. rewrite skip_fmt_head by exact Hc. cbn [skipn].
  rewrite (index_any_nl_app s t rest Hl Ht). cbv iota beta.
  rewrite firstn_app_exact.
  rewrite (index_pos_none c_lbrace s Hb), (index_pos_none c_semi s Hs), (index_pos_none c_rbrace s Hr).
  destruct (is_comment s); reflexivity.
Qed.

(* ... at the very end of the text (no final newline) *)
Theorem stmt_cut_at_eof s : stmt_line s -> next_ctl s 0 = Some (s, 0).
Proof.
  intros ([c [r [Es Hc]]] & Hl & Hs & Hb & Hr). unfold next_ctl. cbn [skipn].
  rewrite Es at 1. rewrite skip_fmt_head by exact Hc. cbn [skipn].
  rewrite (index_any_nl_none s Hl). cbv iota beta.
  rewrite firstn_all.
  rewrite (index_pos_none c_lbrace s Hb), (index_pos_none c_semi s Hs), (index_pos_none c_rbrace s Hr).
  destruct (is_comment s); reflexivity.
Qed.

(* ... followed by `;` and anything without braces up to the end of the line *)
Theorem stmt_cut_at_semicolon s tl t rest :
  stmt_line s -> has_prefix (bs "for") s = false -> is_comment (s ++ c_semi :: tl) = false ->
  one_line tl -> no_byte c_lbrace tl -> (t = c_nl \/ t = c_cr) ->
  next_ctl (s ++ c_semi :: tl ++ t :: rest) 0 = Some (s, 0).
Proof.
  intros ([c [r [Es Hc]]] & Hl & Hs & Hb & Hr) Hf Hcm Htl Htb Ht. unfold next_ctl. cbn [skipn].
  rewrite Es at 1. cbn [app]. rewrite skip_fmt_head by exact Hc. cbn [skipn].
  assert (L1 : one_line (s ++ c_semi :: tl)).
  { destruct Hl as [A B]. destruct Htl as [C D]. split; intros x Hx; apply in_app_or in Hx;
      (destruct Hx as [Hx|[Hx|Hx]]; [auto| subst x; reflexivity | auto]). }
  replace (s ++ c_semi :: tl ++ t :: rest) with ((s ++ c_semi :: tl) ++ t :: rest) by (rewrite <- app_assoc; reflexivity).
  rewrite (index_any_nl_app _ t rest L1 Ht). cbv iota beta.
  rewrite firstn_app_exact. rewrite Hcm.
  assert (Nb : no_byte c_lbrace (s ++ c_semi :: tl)).
  { intros x Hx. apply in_app_or in Hx. destruct Hx as [Hx|[Hx|Hx]]; [auto|subst x; reflexivity|auto]. }
  rewrite (index_pos_none c_lbrace _ Nb).
  unfold index_pos. rewrite (index_byte_app c_semi s tl Hs).
  destruct s as [|c0 r0]; [inversion Es|]. cbn [List.length].
  assert (Hp : has_prefix (bs "for") ((c0 :: r0) ++ c_semi :: tl) = false).
  { revert Hf. clear. change (bs "for") with [102%N; 111%N; 114%N]. unfold c_semi.
    cbn [has_prefix app].
    destruct (N.eqb 102 c0); [|reflexivity]. cbn [andb].
    destruct r0 as [|c1 r1]; cbn [has_prefix app]; [reflexivity|].
    destruct (N.eqb 111 c1); [|reflexivity]. cbn [andb].
    destruct r1 as [|c2 r2]; cbn [has_prefix app]; [reflexivity|].
    destruct (N.eqb 114 c2); cbn [andb]; auto. }
  rewrite Hp. cbn [negb].
  replace (((c0 :: r0) ++ c_semi :: tl) ++ t :: rest) with ((c0 :: r0) ++ (c_semi :: tl) ++ t :: rest)
    by (rewrite <- app_assoc; reflexivity).
  change (S (List.length r0)) with (List.length (c0 :: r0)).
  rewrite firstn_app_exact. reflexivity.
Qed.

Lemma nth_length_last {A} (r : list A) : forall c d, nth (List.length r) (c :: r) d = last (c :: r) d.
Proof.
  induction r as [|x r IH]; intros c d; [reflexivity|].
  change (nth (List.length (x :: r)) (c :: x :: r) d) with (nth (List.length r) (x :: r) d).
  rewrite IH. reflexivity.
Qed.

(* a block header: cut at its opening brace (the first `{` not preceded by a
   dot), whatever follows on the line *)
Theorem header_cut_at_brace h tl t rest :
  (exists c r, h = c :: r /\ is_fmt c = false) -> h <> [] -> last h 0%N <> c_dot ->
  is_comment (h ++ c_lbrace :: tl) = false ->
  one_line h -> no_byte c_lbrace h -> one_line tl -> (t = c_nl \/ t = c_cr) ->
  next_ctl (h ++ c_lbrace :: tl ++ t :: rest) 0 = Some (h ++ [c_lbrace], 0).
Proof.
  intros [c [r [Es Hc]]] Hne Hlast Hcm Hl Hb Htl Ht. unfold next_ctl. cbn [skipn].
  rewrite Es at 1. cbn [app]. rewrite skip_fmt_head by exact Hc. cbn [skipn].
  assert (L1 : one_line (h ++ c_lbrace :: tl)).
  { destruct Hl as [A B]. destruct Htl as [C D]. split; intros x Hx; apply in_app_or in Hx;
      (destruct Hx as [Hx|[Hx|Hx]]; [auto| subst x; reflexivity | auto]). }
  replace (h ++ c_lbrace :: tl ++ t :: rest) with ((h ++ c_lbrace :: tl) ++ t :: rest) by (rewrite <- app_assoc; reflexivity).
  rewrite (index_any_nl_app _ t rest L1 Ht). cbv iota beta.
  rewrite firstn_app_exact. rewrite Hcm.
  unfold index_pos. rewrite (index_byte_app c_lbrace h tl Hb).
  destruct h as [|c0 r0]; [congruence|]. cbn [List.length].
  replace (S (List.length r0) - 1) with (List.length r0) by lia.
  assert (Hn : nth (List.length r0) ((c0 :: r0) ++ c_lbrace :: tl) 0%N = last (c0 :: r0) 0%N).
  { rewrite app_nth1 by (simpl; lia). apply nth_length_last. }
  rewrite Hn.
  destruct (N.eqb_spec (last (c0 :: r0) 0%N) c_dot) as [E|E]; [congruence|]. cbn [negb].
  replace (((c0 :: r0) ++ c_lbrace :: tl) ++ t :: rest) with (((c0 :: r0) ++ [c_lbrace]) ++ tl ++ t :: rest)
    by (rewrite <- !app_assoc; reflexivity).
  replace (S (S (List.length r0))) with (List.length ((c0 :: r0) ++ [c_lbrace])) by (rewrite app_length; simpl; lia).
  rewrite firstn_app_exact. reflexivity.
Qed.

(* D45: a whole-line comment is opaque -- whatever it contains (braces,
   semicolons, keywords), the whole line is one control line, which processCtl
   skips *)
Theorem comment_line_is_opaque s t rest :
  is_comment s = true -> one_line s -> (t = c_nl \/ t = c_cr) ->
  next_ctl (s ++ t :: rest) 0 = Some (s, 0).
Proof.
  intros Hc Hl Ht. unfold next_ctl. cbn [skipn].
  destruct s as [|c r]; [discriminate|].
  assert (Hf : is_fmt c = false).
  { unfold is_comment in Hc. apply orb_true_iff in Hc. destruct Hc as [Hc|Hc].
    - apply N.eqb_eq in Hc. subst c. reflexivity.
    - change (bs "//") with [47%N; 47%N] in Hc. cbn [has_prefix] in Hc.
      apply andb_true_iff in Hc. destruct Hc as [Hc _]. apply N.eqb_eq in Hc. subst c. reflexivity. }
  cbn [app]. rewrite skip_fmt_head by exact Hf. cbn [skipn].
  change (c :: r ++ t :: rest) with ((c :: r) ++ t :: rest).
  rewrite (index_any_nl_app (c :: r) t rest Hl Ht). cbv iota beta.
  rewrite firstn_app_exact. rewrite Hc. reflexivity.
Qed.
