(* StrconvFacts.v -- proved facts about theories/Strconv.v and theories/Crc.v:
   FormatInt/ParseInt round trips over the whole int64 / uint64 range, the
   relation between a successful base-10 parse and the integer regexp, and
   the range / identity laws of the integer conversions. *)
From Coq Require Import List NArith ZArith Bool Lia ZifyN ZifyNat.
From Dec Require Import Bytes Strconv Crc.
Import ListNotations.
Local Open Scope N_scope.

Ltac Zify.zify_post_hook ::= Z.div_mod_to_equations.

(* ------------------------------------------------------------------ *)
(* digits                                                             *)

Definition co10 : N := 1844674407370955162.

Lemma co10_eq : maxU64 / 10 + 1 = co10.
Proof. reflexivity. Qed.

Lemma is_digit_spec c : is_digit c = true <-> 48 <= c <= 57.
Proof.
  unfold is_digit. rewrite andb_true_iff, !N.leb_le. tauto.
Qed.

Lemma is_digit_false c : is_digit c = false <-> c < 48 \/ 57 < c.
Proof.
  unfold is_digit. rewrite andb_false_iff, !N.leb_gt. tauto.
Qed.

Lemma digit_val_digit d : d < 10 -> digit_val (48 + d) = Some d.
Proof.
  intro H. unfold digit_val.
  replace (is_digit (48 + d)) with true
    by (symmetry; apply is_digit_spec; lia).
  f_equal. lia.
Qed.

(* a byte whose digit value is below ten is an ASCII digit *)
Lemma digit_val_lt10 c d : digit_val c = Some d -> d < 10 -> is_digit c = true.
Proof.
  unfold digit_val. destruct (is_digit c) eqn:E; [reflexivity|].
  destruct ((97 <=? c) && (c <=? 122)) eqn:E1.
  - apply andb_true_iff in E1 as [A B]. apply N.leb_le in A.
    intros [= <-]. lia.
  - destruct ((65 <=? c) && (c <=? 90)) eqn:E2; [|discriminate].
    apply andb_true_iff in E2 as [A B]. apply N.leb_le in A.
    intros [= <-]. lia.
Qed.

Lemma digit_val_of_digit c : is_digit c = true -> digit_val c = Some (c - 48) /\ c - 48 < 10.
Proof.
  intro H. unfold digit_val. rewrite H. split; [reflexivity|].
  apply is_digit_spec in H. lia.
Qed.

Lemma is_digit_not_sign c : is_digit c = true -> is_sign c = false /\ (c =? 45) = false /\ (c =? 43) = false.
Proof.
  intro H. apply is_digit_spec in H. unfold is_sign.
  assert (A : (c =? 43) = false) by (apply N.eqb_neq; lia).
  assert (B : (c =? 45) = false) by (apply N.eqb_neq; lia).
  rewrite A, B. auto.
Qed.

(* ------------------------------------------------------------------ *)
(* the ParseUint loop                                                 *)

Lemma uloop_app base co b0 a b : forall n us,
  uloop base co b0 (a ++ b) n us =
  match uloop base co b0 a n us with
  | inl (n', us') => uloop base co b0 b n' us'
  | inr e => inr e
  end.
Proof.
  induction a as [|c a IH]; intros n us; [reflexivity|].
  cbn [app uloop].
  destruct ((c =? 95) && b0); [apply IH|].
  destruct (digit_val c) as [d|]; [|reflexivity].
  destruct (base <=? d); [reflexivity|].
  destruct (co <=? n); [reflexivity|].
  destruct (maxU64 <? n * base + d); [reflexivity|apply IH].
Qed.

(* one decimal digit *)
Lemma uloop_digit m d : d < 10 -> m * 10 + d <= maxU64 ->
  uloop 10 co10 false [48 + d] m false = inl (m * 10 + d, false).
Proof.
  intros Hd Hm. cbn [uloop]. rewrite andb_false_r.
  rewrite (digit_val_digit d Hd).
  replace (10 <=? d) with false by (symmetry; apply N.leb_gt; exact Hd).
  replace (co10 <=? m) with false
    by (symmetry; apply N.leb_gt; unfold co10, maxU64 in *; lia).
  replace (maxU64 <? m * 10 + d) with false
    by (symmetry; apply N.ltb_ge; exact Hm).
  reflexivity.
Qed.

Lemma digs_parse : forall f n, n < 2 ^ N.of_nat f -> n <= maxU64 ->
  uloop 10 co10 false (digs f n) 0 false = inl (n, false).
Proof.
  induction f as [|f IH]; intros n Hf Hn.
  - change (2 ^ N.of_nat 0) with 1 in Hf. assert (n = 0) by lia. subst. reflexivity.
  - cbn [digs]. rewrite uloop_app.
    assert (Hpow : 2 ^ N.of_nat (S f) = 2 * 2 ^ N.of_nat f).
    { rewrite Nat2N.inj_succ. apply N.pow_succ_r. lia. }
    rewrite Hpow in Hf.
    assert (Hstep : uloop 10 co10 false [48 + n mod 10] (n / 10) false = inl (n, false)).
    { rewrite uloop_digit; [f_equal; f_equal; lia | lia | lia]. }
    destruct (n <? 10) eqn:E.
    + apply N.ltb_lt in E.
      replace (n / 10) with 0 in Hstep by lia. exact Hstep.
    + apply N.ltb_ge in E. rewrite IH; [exact Hstep | lia | lia].
Qed.

Lemma format_N_parse n : n <= maxU64 ->
  uloop 10 co10 false (format_N n) 0 false = inl (n, false).
Proof.
  intro Hn. unfold format_N. apply digs_parse; [|exact Hn].
  eapply N.lt_le_trans; [apply N.size_gt|].
  apply N.pow_le_mono_r; lia.
Qed.

Lemma digs_all_digits : forall f n, all_digits (digs f n) = true.
Proof.
  induction f as [|f IH]; intro n; [reflexivity|].
  cbn [digs]. unfold all_digits in *. rewrite forallb_app.
  apply andb_true_iff; split.
  - destruct (n <? 10); [reflexivity|apply IH].
  - cbn [forallb]. rewrite andb_true_r. apply is_digit_spec. lia.
Qed.

Lemma format_N_cons n : exists c r, format_N n = c :: r /\ is_digit c = true.
Proof.
  pose proof (digs_all_digits (S (N.to_nat (N.size n))) n) as H.
  unfold format_N. destruct (digs _ n) as [|c r] eqn:E.
  - cbn [digs] in E. apply app_eq_nil in E as [_ E]. discriminate.
  - exists c, r. split; [reflexivity|].
    unfold all_digits in H. cbn [forallb] in H. apply andb_true_iff in H. tauto.
Qed.

(* ------------------------------------------------------------------ *)
(* base 10 parsers unfolded                                           *)

Lemma parse_uint_gen_10 s :
  parse_uint_gen false s =
  match s with
  | [] => inr ESyntax
  | _ :: _ =>
      match uloop 10 co10 false s 0 false with
      | inr e => inr e
      | inl (n, us) => if us && negb (underscore_ok s) then inr ESyntax else inl n
      end
  end.
Proof. destruct s; reflexivity. Qed.

Lemma parse_uint_format_N n : n <= maxU64 -> parse_uint_gen false (format_N n) = inl n.
Proof.
  intro Hn. rewrite parse_uint_gen_10.
  destruct (format_N_cons n) as (c & r & E & _).
  pose proof (format_N_parse n Hn) as P. rewrite E in *. rewrite P. reflexivity.
Qed.

Theorem format_parse_uint : forall z, (0 <= z < 2 ^ 64)%Z ->
  parse_uint10 (format_uint z) = inl z.
Proof.
  intros z Hz. unfold parse_uint10, format_uint.
  rewrite parse_uint_format_N by (unfold maxU64; lia).
  cbn [lift_u]. f_equal. lia.
Qed.

Theorem format_parse_int : forall z, (- 2 ^ 63 <= z < 2 ^ 63)%Z ->
  parse_int10 (format_int z) = inl z.
Proof.
  intros z Hz. unfold parse_int10, format_int.
  destruct (z <? 0)%Z eqn:E.
  - apply Z.ltb_lt in E. cbn [parse_int_gen].
    change (is_sign 45) with true. change (45 =? 45) with true. cbv iota.
    rewrite parse_uint_format_N by (unfold maxU64; lia).
    replace (two63 <? Z.to_N (- z)) with false
      by (symmetry; apply N.ltb_ge; unfold two63; lia).
    f_equal. lia.
  - apply Z.ltb_ge in E.
    pose proof (parse_uint_format_N (Z.to_N z)) as P.
    destruct (format_N_cons (Z.to_N z)) as (c & r & Ec & Hc).
    rewrite Ec in *. cbn [parse_int_gen].
    destruct (is_digit_not_sign c Hc) as (S1 & S2 & _). rewrite S1, S2.
    rewrite P by (unfold maxU64; lia).
    replace (two63 <=? Z.to_N z) with false
      by (symmetry; apply N.leb_gt; unfold two63; lia).
    f_equal. lia.
Qed.

(* ------------------------------------------------------------------ *)
(* successful base-10 parse versus the integer regexps                *)

Lemma uloop10_ok_digits : forall s n us r,
  uloop 10 co10 false s n us = inl r -> all_digits s = true.
Proof.
  induction s as [|c s IH]; intros n us r H; [reflexivity|].
  cbn [uloop] in H. rewrite andb_false_r in H.
  destruct (digit_val c) as [d|] eqn:Ed; [|discriminate].
  destruct (10 <=? d) eqn:E1; [discriminate|]. apply N.leb_gt in E1.
  destruct (co10 <=? n); [discriminate|].
  destruct (maxU64 <? n * 10 + d); [discriminate|].
  unfold all_digits. cbn [forallb].
  rewrite (digit_val_lt10 c d Ed E1). apply (IH _ _ _ H).
Qed.

Lemma uloop10_digits_res : forall s n,
  all_digits s = true ->
  match uloop 10 co10 false s n false with
  | inl (_, us) => us = false
  | inr e => e = ERange
  end.
Proof.
  induction s as [|c s IH]; intros n H; [reflexivity|].
  unfold all_digits in H. cbn [forallb] in H. apply andb_true_iff in H as [Hc Hs].
  cbn [uloop]. rewrite andb_false_r.
  destruct (digit_val_of_digit c Hc) as [-> Hd].
  replace (10 <=? c - 48) with false by (symmetry; apply N.leb_gt; exact Hd).
  destruct (co10 <=? n); [reflexivity|].
  destruct (maxU64 <? n * 10 + (c - 48)); [reflexivity|].
  apply IH. exact Hs.
Qed.

Lemma parse_uint_gen_10_ok s n :
  parse_uint_gen false s = inl n -> all_digits1 s = true.
Proof.
  rewrite parse_uint_gen_10. destruct s as [|c s]; [discriminate|].
  destruct (uloop 10 co10 false (c :: s) 0 false) as [r|e] eqn:E; [|discriminate].
  intros _. unfold all_digits1. apply (uloop10_ok_digits _ _ _ _ E).
Qed.

Lemma parse_uint_gen_10_digits s :
  all_digits1 s = true -> parse_uint_gen false s <> inr ESyntax.
Proof.
  intro H. rewrite parse_uint_gen_10. destruct s as [|c s]; [discriminate|].
  unfold all_digits1 in H.
  pose proof (uloop10_digits_res (c :: s) 0 H) as R.
  destruct (uloop 10 co10 false (c :: s) 0 false) as [[n us]|e].
  - subst us. discriminate.
  - subst e. discriminate.
Qed.

Theorem parse_int10_re : forall s z, parse_int10 s = inl z -> is_int_re s = true.
Proof.
  intros s z. unfold parse_int10, parse_int_gen, is_int_re.
  destruct s as [|c r]; [discriminate|].
  match goal with |- context [parse_uint_gen false ?b] =>
    destruct (parse_uint_gen false b) as [un|e] eqn:E end; [|discriminate].
  intros _. apply parse_uint_gen_10_ok in E.
  destruct (is_sign c); exact E.
Qed.

Theorem is_int_re_parse : forall s, is_int_re s = true -> parse_int10 s <> inr ESyntax.
Proof.
  intros s. unfold parse_int10, parse_int_gen, is_int_re.
  destruct s as [|c r]; [discriminate|].
  intro H.
  match goal with |- context [parse_uint_gen false ?b] => set (body := b) end.
  assert (D : all_digits1 body = true)
    by (unfold body; destruct (is_sign c); exact H).
  apply parse_uint_gen_10_digits in D.
  destruct (parse_uint_gen false body) as [un|e].
  - destruct (c =? 45).
    + destruct (two63 <? un); discriminate.
    + destruct (two63 <=? un); discriminate.
  - destruct e; [contradiction|discriminate].
Qed.

(* same for the unsigned parser; the converse fails for "+1" *)
Theorem parse_uint10_re : forall s z, parse_uint10 s = inl z -> is_uint_re s = true.
Proof.
  intros s z. unfold parse_uint10, lift_u.
  destruct (parse_uint_gen false s) as [n|e] eqn:E; [|discriminate].
  intros _. apply parse_uint_gen_10_ok in E.
  unfold is_uint_re. destruct s as [|c r]; [discriminate|].
  unfold all_digits1, all_digits in E. cbn [forallb] in E.
  apply andb_true_iff in E as [Hc Hr].
  destruct (is_digit_not_sign c Hc) as (_ & _ & ->).
  unfold all_digits1, all_digits. cbn [forallb]. rewrite Hc. exact Hr.
Qed.

(* a successful signed parse is within int64, an unsigned one within uint64 *)
Lemma uloop_bound : forall base co b0 s n us m us',
  n <= maxU64 -> uloop base co b0 s n us = inl (m, us') -> m <= maxU64.
Proof.
  induction s as [|c s IH]; intros n us m us' Hn H.
  - cbn [uloop] in H. injection H as <- _. exact Hn.
  - cbn [uloop] in H.
    destruct ((c =? 95) && b0); [apply (IH _ _ _ _ Hn H)|].
    destruct (digit_val c) as [d|]; [|discriminate].
    destruct (base <=? d); [discriminate|].
    destruct (co <=? n); [discriminate|].
    destruct (maxU64 <? n * base + d) eqn:E; [discriminate|].
    apply N.ltb_ge in E. apply (IH _ _ _ _ E H).
Qed.

Lemma parse_uint_gen_range b0 s n : parse_uint_gen b0 s = inl n -> n <= maxU64.
Proof.
  unfold parse_uint_gen. destruct s as [|c0 r0]; [discriminate|].
  match goal with |- context [let '(base, body) := ?X in _] => destruct X as [base body] end.
  destruct (uloop base (maxU64 / base + 1) b0 body 0 false) as [[m us]|e] eqn:E; [|discriminate].
  destruct (us && negb (underscore_ok (c0 :: r0))); [discriminate|].
  intros [= <-]. apply (uloop_bound _ _ _ _ _ _ _ _ (N.le_0_l _) E).
Qed.

Theorem parse_uint_range : forall b0 s z,
  lift_u (parse_uint_gen b0 s) = inl z -> (0 <= z < 2 ^ 64)%Z.
Proof.
  intros b0 s z. destruct (parse_uint_gen b0 s) as [n|e] eqn:E; [|discriminate].
  apply parse_uint_gen_range in E. cbn [lift_u]. intros [= <-].
  unfold maxU64 in E. lia.
Qed.

Theorem parse_int_range : forall b0 s z,
  parse_int_gen b0 s = inl z -> (- 2 ^ 63 <= z < 2 ^ 63)%Z.
Proof.
  intros b0 s z. unfold parse_int_gen. destruct s as [|c r]; [discriminate|].
  destruct (parse_uint_gen b0 _) as [un|e]; [|discriminate].
  destruct (c =? 45).
  - destruct (two63 <? un) eqn:E; [discriminate|]. apply N.ltb_ge in E.
    intros [= <-]. unfold two63 in E. lia.
  - destruct (two63 <=? un) eqn:E; [discriminate|]. apply N.leb_gt in E.
    intros [= <-]. unfold two63 in E. lia.
Qed.

(* ------------------------------------------------------------------ *)
(* integer conversions                                                *)

Local Open Scope Z_scope.

Theorem wrap_uint_range : forall bits z, 0 <= wrap_uint bits z < 2 ^ Z.of_N bits.
Proof.
  intros. unfold wrap_uint. apply Z.mod_pos_bound. apply Z.pow_pos_nonneg; lia.
Qed.

Theorem wrap_uint_id : forall bits z, 0 <= z < 2 ^ Z.of_N bits -> wrap_uint bits z = z.
Proof. intros. unfold wrap_uint. apply Z.mod_small. assumption. Qed.

Lemma pow2_split (bits : N) : (0 < bits)%N ->
  2 ^ Z.of_N bits = 2 * 2 ^ (Z.of_N bits - 1) /\ 0 < 2 ^ (Z.of_N bits - 1).
Proof.
  intro H. split.
  - rewrite <- Z.pow_succ_r by lia. f_equal. lia.
  - apply Z.pow_pos_nonneg; lia.
Qed.

Theorem wrap_int_range : forall bits z, (0 < bits)%N ->
  - 2 ^ (Z.of_N bits - 1) <= wrap_int bits z < 2 ^ (Z.of_N bits - 1).
Proof.
  intros bits z Hb. unfold wrap_int.
  destruct (pow2_split bits Hb) as [E P]. rewrite E.
  set (h := 2 ^ (Z.of_N bits - 1)) in *.
  pose proof (Z.mod_pos_bound z (2 * h) ltac:(lia)) as B.
  destruct (2 * (z mod (2 * h)) <? 2 * h) eqn:C.
  - apply Z.ltb_lt in C. lia.
  - apply Z.ltb_ge in C. lia.
Qed.

Theorem wrap_int_id : forall bits z, (0 < bits)%N ->
  - 2 ^ (Z.of_N bits - 1) <= z < 2 ^ (Z.of_N bits - 1) -> wrap_int bits z = z.
Proof.
  intros bits z Hb Hz. unfold wrap_int.
  destruct (pow2_split bits Hb) as [E P]. rewrite E.
  set (h := 2 ^ (Z.of_N bits - 1)) in *.
  destruct (Z.ltb_spec z 0) as [Hn|Hp].
  - assert (M : z mod (2 * h) = z + 2 * h).
    { rewrite <- (Z_mod_plus_full z 1 (2 * h)).
      replace (z + 1 * (2 * h)) with (z + 2 * h) by lia. apply Z.mod_small. lia. }
    rewrite M.
    replace (2 * (z + 2 * h) <? 2 * h) with false by (symmetry; apply Z.ltb_ge; lia).
    lia.
  - rewrite (Z.mod_small z (2 * h)) by lia.
    replace (2 * z <? 2 * h) with true by (symmetry; apply Z.ltb_lt; lia).
    reflexivity.
Qed.

(* the two unsigned/signed views agree modulo 2^bits *)
Theorem wrap_int_uint : forall bits z, wrap_uint bits (wrap_int bits z) = wrap_uint bits z.
Proof.
  intros bits z. unfold wrap_int, wrap_uint.
  set (m := 2 ^ Z.of_N bits).
  destruct (2 * (z mod m) <? m).
  - apply Z.mod_mod. unfold m. apply Z.pow_nonzero; lia.
  - replace (z mod m - m) with (z mod m + (-1) * m) by lia.
    rewrite Z_mod_plus_full. apply Z.mod_mod. unfold m. apply Z.pow_nonzero; lia.
Qed.

(* ------------------------------------------------------------------ *)
(* CRCs of the empty string                                           *)

Theorem crc32_ieee_nil : crc32_ieee [] = 0%N.
Proof. reflexivity. Qed.

Theorem crc64_iso_nil : crc64_iso [] = 0%N.
Proof. reflexivity. Qed.
