(* ParserLines.v -- C09: the parsed tree is a function of the sequence of
   control lines.  Two texts that are cut into the same control lines (after
   dropping blanks at line ends) parse to the same nodes with the same error,
   whatever differs between them outside the lines: indentation, blank lines,
   LF or CR LF, `;` after statements, a final newline or none.  What layout can
   change is only how lines are cut, and LayoutFacts says how they are. *)
From Coq Require Import List NArith ZArith Bool Lia String.
From Dec Require Import Bytes Strconv Crc Regex Tree Db Parser.
From Dec.generated Require Import Regexes.
From Dec.proofs Require Import RegexFacts ParserFacts ParserBalanced.
Import ListNotations.

Section WITH_NAMES.
Variable NM : names.

(* the control lines of a text from an offset on, with their content *)
Inductive Ctls (body : bytes) : nat -> list bytes -> Prop :=
| C_eof off : next_ctl body off = None -> Ctls body off []
| C_cons off0 ctl0 off l :
    next_ctl body off0 = Some (ctl0, off) ->
    Ctls body (off + consumed (trim_right_blank ctl0)) l ->
    Ctls body off0 (trim_right_blank ctl0 :: l).

Fixpoint ctls (body : bytes) (fuel off : nat) : list bytes :=
  match fuel with
  | O => []
  | S f =>
      match next_ctl body off with
      | None => []
      | Some (ctl0, o) => trim_right_blank ctl0 :: ctls body f (o + consumed (trim_right_blank ctl0))
      end
  end.

Lemma ctls_sound body : forall fuel off, List.length body - off < fuel -> Ctls body off (ctls body fuel off).
Proof.
  induction fuel as [|f IH]; intros off H; [lia|]. cbn [ctls].
  destruct (next_ctl body off) as [[ctl0 o]|] eqn:E; [|apply C_eof; exact E].
  destruct (next_ctl_spec _ _ _ _ E) as (N1 & N2 & N3 & N4 & _).
  pose proof (trim_right_blank_nonempty ctl0 N2 N4) as Nt.
  pose proof (consumed_pos _ Nt) as Nc.
  eapply C_cons; [exact E|]. apply IH. lia.
Qed.

Definition same4 (r1 r2 : pres) : Prop :=
  p_nodes r1 = p_nodes r2 /\ p_cnt r1 = p_cnt r2 /\ p_root r1 = p_root r2 /\ p_err r1 = p_err r2.

Section TWO.
Variables b1 b2 : bytes.

(* where the two parsers stand, the remaining control lines are the same *)
Definition tails (r1 r2 : pres) : Prop := exists l', Ctls b1 (p_off r1) l' /\ Ctls b2 (p_off r2) l'.

Definition rec_rel (rec1 rec2 : rec_t) (m1 m2 : nat) : Prop :=
  forall l d ro o1 o2 t p, m1 <= o1 -> m2 <= o2 -> reached t p = false -> Ctls b1 o1 l -> Ctls b2 o2 l ->
    same4 (rec1 d ro o1 t p) (rec2 d ro o2 t p) /\
    (p_err (rec1 d ro o1 t p) = None -> tails (rec1 d ro o1 t p) (rec2 d ro o2 t p)).

Definition step_rel (s1 s2 : Parser.step) : Prop :=
  match s1, s2 with
  | SErr r1, SErr r2 => same4 r1 r2
  | SUp r1, SUp r2 => same4 r1 r2 /\ tails r1 r2
  | SNext r1, SNext r2 => same4 r1 r2 /\ tails r1 r2
  | _, _ => False
  end.

Lemma same4_mk n o1 o2 c r e : same4 (mkP n o1 c r e) (mkP n o2 c r e).
Proof. repeat split. Qed.

(* one control line, the same on both sides *)
Lemma process_rel rec1 rec2 dst root ctl o1 o2 p l :
  1 <= List.length ctl -> rec_rel rec1 rec2 (S o1) (S o2) ->
  Ctls b1 (o1 + consumed ctl) l -> Ctls b2 (o2 + consumed ctl) l ->
  step_rel (process NM rec1 dst root ctl o1 p) (process NM rec2 dst root ctl o2 p).
Proof.
  intros Hlen Hrec. unfold consumed, classify, process.
  destruct ctl as [|c0 ctl']; [simpl in Hlen; lia|].
  set (ctl := c0 :: ctl') in *. set (n := List.length ctl) in *.
  (* a nested block parsed by rec on both sides *)
  assert (NB : forall d rr t pp (K : pres -> pres) (F : pres -> pres),
     reached t pp = false -> Ctls b1 (o1 + n) l -> Ctls b2 (o2 + n) l ->
     (forall s1 s2, same4 s1 s2 -> same4 (K s1) (K s2)) ->
     (forall s1 s2, same4 s1 s2 -> same4 (F s1) (F s2)) ->
     (forall s, p_off (F s) = p_off s) ->
     step_rel (match p_err (rec1 d rr (o1 + n) t pp) with Some e => SErr (K (rec1 d rr (o1 + n) t pp)) | None => SNext (F (rec1 d rr (o1 + n) t pp)) end)
              (match p_err (rec2 d rr (o2 + n) t pp) with Some e => SErr (K (rec2 d rr (o2 + n) t pp)) | None => SNext (F (rec2 d rr (o2 + n) t pp)) end)).
  { intros d rr t pp K F Hr H1 H2 HK HF HO.
    assert (Hn : 1 <= n) by exact Hlen.
    destruct (Hrec l d rr (o1 + n) (o2 + n) t pp ltac:(lia) ltac:(lia) Hr H1 H2) as [S4 TL].
    pose proof S4 as (_ & _ & _ & Se). rewrite <- Se.
    destruct (p_err (rec1 d rr (o1 + n) t pp)) as [e|] eqn:E.
    - cbn [step_rel]. apply (HK _ _ S4).
    - cbn [step_rel]. split; [apply HF; exact S4|].
      destruct (TL eq_refl) as [l' [T1 T2]]. exists l'. rewrite !HO. split; assumption. }
  destruct (N.eqb c0 c_hash || has_prefix (bs "//") ctl).
  { intros H1 H2. cbn [step_rel]. split; [apply same4_mk|]. exists l. split; assumption. }
  destruct (mt re_reLoop ncap_reLoop ctl).
  { intros H1 H2. destruct (negb (N.eqb (last ctl 0%N) c_lbrace)); [apply same4_mk|].
    destruct (loop_header ctl) as [r|]; [|apply same4_mk].
    apply (NB [] (Some r) p (mkT (cc p) (cl p + 1) (cs p))
              (fun s => mkP (p_nodes s) (p_off s) (p_cnt s) root (p_err s))
              (fun s => mkP (dst ++ [with_child (match p_root s with Some x => x | None => r end) (p_nodes s)]) (p_off s) (p_cnt s) root None)) in H1;
      [| apply not_reached_incr_cl | exact H2
       | intros s1 s2 (A&B&C&D); unfold same4; cbn [p_nodes p_cnt p_root p_err p_off]; rewrite ?A, ?B, ?C, ?D; repeat split
       | intros s1 s2 (A&B&C&D); unfold same4; cbn [p_nodes p_cnt p_root p_err p_off]; rewrite ?A, ?B, ?C, ?D; repeat split
       | reflexivity].
    revert H1.
    destruct (p_err (rec1 [] (Some r) (o1 + n) p (mkT (cc p) (cl p + 1) (cs p)))) eqn:E1;
      destruct (p_err (rec2 [] (Some r) (o2 + n) p (mkT (cc p) (cl p + 1) (cs p)))) eqn:E2; cbn [step_rel];
      try tauto. }
  destruct (mt re_reCondOK ncap_reCondOK ctl).
  { intros H1 H2. destruct (negb (N.eqb (last ctl 0%N) c_lbrace)); [apply same4_mk|]. cbv zeta.
    apply (NB [] (Some (typed typeCondOK)) p (mkT (cc p + 1) (cl p) (cs p))
              (fun s => mkP (dst ++ [with_child (condok_header ctl) (cond_children (p_nodes s))]) (p_off s) (p_cnt s) root (p_err s))
              (fun s => mkP (dst ++ [with_child (condok_header ctl) (cond_children (p_nodes s))]) (p_off s) (p_cnt s) root None)) in H1;
      [| apply not_reached_incr_cc | exact H2
       | intros s1 s2 (A&B&C&D); unfold same4; cbn [p_nodes p_cnt p_root p_err p_off]; rewrite ?A, ?B, ?C, ?D; repeat split
       | intros s1 s2 (A&B&C&D); unfold same4; cbn [p_nodes p_cnt p_root p_err p_off]; rewrite ?A, ?B, ?C, ?D; repeat split
       | reflexivity].
    revert H1.
    destruct (p_err (rec1 [] (Some (typed typeCondOK)) (o1 + n) p (mkT (cc p + 1) (cl p) (cs p)))) eqn:E1;
      destruct (p_err (rec2 [] (Some (typed typeCondOK)) (o2 + n) p (mkT (cc p + 1) (cl p) (cs p)))) eqn:E2; cbn [step_rel];
      try tauto. }
  destruct (mt re_reCond ncap_reCond ctl).
  { intros H1 H2. destruct (negb (N.eqb (last ctl 0%N) c_lbrace)); [apply same4_mk|].
    destruct (mt re_reCondComplex ncap_reCondComplex ctl).
    - destruct (sub re_reCondHelper ncap_reCondHelper ctl) as [m|]; [|apply same4_mk]. cbv zeta.
      apply (NB [] (Some (typed typeCond)) p (mkT (cc p + 1) (cl p) (cs p))
                (fun s => mkP (dst ++ [mk_cond [] [] false false 0 (g m 1) (extractArgs (g m 2)) (lc_of (g m 1)) (cond_children (p_nodes s))]) (p_off s) (p_cnt s) root (p_err s))
                (fun s => mkP (dst ++ [mk_cond [] [] false false 0 (g m 1) (extractArgs (g m 2)) (lc_of (g m 1)) (cond_children (p_nodes s))]) (p_off s) (p_cnt s) root None)) in H1;
        [| apply not_reached_incr_cc | exact H2
         | intros s1 s2 (A&B&C&D); unfold same4; cbn [p_nodes p_cnt p_root p_err p_off]; rewrite ?A, ?B, ?C, ?D; repeat split
         | intros s1 s2 (A&B&C&D); unfold same4; cbn [p_nodes p_cnt p_root p_err p_off]; rewrite ?A, ?B, ?C, ?D; repeat split
         | reflexivity].
      revert H1.
      destruct (p_err (rec1 [] (Some (typed typeCond)) (o1 + n) p (mkT (cc p + 1) (cl p) (cs p)))) eqn:E1;
        destruct (p_err (rec2 [] (Some (typed typeCond)) (o2 + n) p (mkT (cc p + 1) (cl p) (cs p)))) eqn:E2; cbn [step_rel];
        try tauto.
    - destruct (parseCondExpr re_reCondExpr ncap_reCondExpr ctl) as [[[[ll r_] sl] sr] op]. cbv zeta.
      apply (NB [] (Some (typed typeCond)) p (mkT (cc p + 1) (cl p) (cs p))
                (fun s => mkP (dst ++ [mk_cond ll r_ sl sr op [] [] 0 (cond_children (p_nodes s))]) (p_off s) (p_cnt s) root (p_err s))
                (fun s => mkP (dst ++ [mk_cond ll r_ sl sr op [] [] 0 (cond_children (p_nodes s))]) (p_off s) (p_cnt s) root None)) in H1;
        [| apply not_reached_incr_cc | exact H2
         | intros s1 s2 (A&B&C&D); unfold same4; cbn [p_nodes p_cnt p_root p_err p_off]; rewrite ?A, ?B, ?C, ?D; repeat split
         | intros s1 s2 (A&B&C&D); unfold same4; cbn [p_nodes p_cnt p_root p_err p_off]; rewrite ?A, ?B, ?C, ?D; repeat split
         | reflexivity].
      revert H1.
      destruct (p_err (rec1 [] (Some (typed typeCond)) (o1 + n) p (mkT (cc p + 1) (cl p) (cs p)))) eqn:E1;
        destruct (p_err (rec2 [] (Some (typed typeCond)) (o2 + n) p (mkT (cc p + 1) (cl p) (cs p)))) eqn:E2; cbn [step_rel];
        try tauto. }
  destruct (mt re_reCondElse ncap_reCondElse ctl).
  { intros H1 H2. destruct root as [rt|]; [|apply same4_mk].
    cbn [step_rel]. split; [apply same4_mk|]. exists l. split; assumption. }
  destruct (sub re_reSwitch ncap_reSwitch ctl) as [m|].
  { intros H1 H2. destruct (negb (N.eqb (last ctl 0%N) c_lbrace)); [apply same4_mk|]. cbv zeta.
    apply (NB [] (Some (switch_node (g m 1) [])) p (mkT (cc p) (cl p) (cs p + 1))
              (fun s => mkP (dst ++ [with_child (match p_root s with Some x => x | None => switch_node (g m 1) [] end) (rollupSwitchNodes (p_nodes s))]) (p_off s) (p_cnt s) root (p_err s))
              (fun s => mkP (dst ++ [with_child (match p_root s with Some x => x | None => switch_node (g m 1) [] end) (rollupSwitchNodes (p_nodes s))]) (p_off s) (p_cnt s) root None)) in H1;
      [| apply not_reached_incr_cs | exact H2
       | intros s1 s2 (A&B&C&D); unfold same4; cbn [p_nodes p_cnt p_root p_err p_off]; rewrite ?A, ?B, ?C, ?D; repeat split
       | intros s1 s2 (A&B&C&D); unfold same4; cbn [p_nodes p_cnt p_root p_err p_off]; rewrite ?A, ?B, ?C, ?D; repeat split
       | reflexivity].
    revert H1.
    destruct (p_err (rec1 [] (Some (switch_node (g m 1) [])) (o1 + n) p (mkT (cc p) (cl p) (cs p + 1)))) eqn:E1;
      destruct (p_err (rec2 [] (Some (switch_node (g m 1) [])) (o2 + n) p (mkT (cc p) (cl p) (cs p + 1)))) eqn:E2; cbn [step_rel];
      try tauto. }
  destruct (sub re_reSwitchCaseHelper ncap_reSwitchCaseHelper ctl).
  { intros H1 H2. cbn [step_rel]. split; [apply same4_mk|]. exists l. split; assumption. }
  destruct (mt re_reSwitchCase ncap_reSwitchCase ctl).
  { intros H1 H2. cbn [step_rel]. split; [apply same4_mk|]. exists l. split; assumption. }
  destruct (mt re_reSwitchDefault ncap_reSwitchDefault ctl).
  { intros H1 H2. cbn [step_rel]. split; [apply same4_mk|]. exists l. split; assumption. }
  destruct (N.eqb c0 c_rbrace).
  { intros H1 H2. destruct root as [rt|]; [|apply same4_mk].
    destruct (close_block p (typ rt)) as [p' [x|]]; [apply same4_mk|].
    cbn [step_rel]. split; [apply same4_mk|]. exists l. cbn [p_off].
    replace (S o1) with (o1 + 1) by lia. replace (S o2) with (o2 + 1) by lia. split; assumption. }
  intros H1 H2. destruct (simple_stmt NM ctl); [|apply same4_mk].
  cbn [step_rel]. split; [apply same4_mk|]. exists l. split; assumption.
Qed.

Lemma Ctls_inv body off l : Ctls body off l ->
  match next_ctl body off with
  | None => l = []
  | Some (ctl0, o) => exists l', l = trim_right_blank ctl0 :: l' /\ Ctls body (o + consumed (trim_right_blank ctl0)) l'
  end.
Proof.
  intro H. inversion H as [off' E|off0 ctl0 o l' E T]; subst.
  - rewrite E. reflexivity.
  - rewrite E. exists l'. split; [reflexivity|exact T].
Qed.

Local Arguments reached : simpl never.
Local Arguments eqZero : simpl never.
Local Arguments next_ctl : simpl never.
Local Arguments process : simpl never.
Local Arguments trim_right_blank : simpl never.

(* a nested block; the two parsers may run on different fuel, each enough for
   its own text from the offsets in question on *)
Lemma parse_rel : forall f1 f2 m1 m2,
  List.length b1 + 1 - m1 < f1 -> List.length b2 + 1 - m2 < f2 ->
  rec_rel (parse NM b1 f1) (parse NM b2 f2) m1 m2.
Proof.
  induction f1 as [|f IH]; intros f2 m1 m2 F1 F2 l d ro o1 o2 t p M1 M2 Hr H1 H2; [lia|].
  destruct f2 as [|g]; [lia|].
  simpl. rewrite Hr. simpl.
  pose proof (Ctls_inv _ _ _ H1) as I1. pose proof (Ctls_inv _ _ _ H2) as I2.
  destruct (next_ctl b1 o1) as [[ca oa]|] eqn:En1; destruct (next_ctl b2 o2) as [[cb ob]|] eqn:En2.
  - destruct I1 as [l1 [L1 T1]]. destruct I2 as [l2 [L2 T2]]. subst l. inversion L2 as [[Ec El]]. subst l2.
    destruct (next_ctl_spec _ _ _ _ En1) as (N1 & N2 & N3 & N4 & _).
    destruct (next_ctl_spec _ _ _ _ En2) as (N1' & _ & N3' & _ & _).
    pose proof (trim_right_blank_nonempty ca N2 N4) as Nt.
    rewrite <- Ec in *.
    assert (IHs : rec_rel (parse NM b1 f) (parse NM b2 g) (S oa) (S ob)) by (apply IH; lia).
    pose proof (process_rel (parse NM b1 f) (parse NM b2 g) d ro (trim_right_blank ca) oa ob p l1 Nt IHs T1 T2) as PR.
    pose proof (process_progress NM (parse NM b1 f) d ro (trim_right_blank ca) oa p (parse_nested_ok NM b1 f) Nt) as P1.
    pose proof (process_progress NM (parse NM b2 g) d ro (trim_right_blank ca) ob p (parse_nested_ok NM b2 g) Nt) as P2.
    destruct (process NM (parse NM b1 f) d ro (trim_right_blank ca) oa p) as [r1|r1|r1];
      destruct (process NM (parse NM b2 g) d ro (trim_right_blank ca) ob p) as [r2|r2|r2]; cbn [step_rel] in PR; try contradiction.
    + split; [exact PR|]. intro E. destruct PR as (_&_&_&Pe). destruct P1. congruence.
    + destruct PR as [(A&B&C&D) TL]. split.
      * unfold perr_of. repeat split; cbn; try congruence. rewrite B. reflexivity.
      * intro E. unfold perr_of in *. cbn [p_off]. exact TL.
    + destruct PR as [(A&B&C&D) [l' [T1' T2']]]. destruct P1 as (O1 & Q1 & _). destruct P2 as (O2 & Q2 & _).
      rewrite A, C. rewrite Q1, Q2.
      apply (IH g (S oa) (S ob) ltac:(lia) ltac:(lia) l'); [lia|lia|exact Hr|exact T1'|exact T2'].
  - destruct I1 as [l1 [L1 _]]. subst l. discriminate.
  - destruct I2 as [l2 [L2 _]]. subst l. discriminate.
  - split; [repeat split|]. cbn. discriminate.
Qed.

(* the top level *)
Lemma parse_top_rel : forall f1 f2 d o1 o2 t l,
  List.length b1 + 1 - o1 < f1 -> List.length b2 + 1 - o2 < f2 ->
  eqZero t = true -> Ctls b1 o1 l -> Ctls b2 o2 l ->
  same4 (parse NM b1 f1 d None o1 t t) (parse NM b2 f2 d None o2 t t).
Proof.
  induction f1 as [|f IH]; intros f2 d o1 o2 t l F1 F2 Hz H1 H2; [lia|].
  destruct f2 as [|g]; [lia|].
  simpl. rewrite Hz. rewrite andb_false_r.
  pose proof (Ctls_inv _ _ _ H1) as I1. pose proof (Ctls_inv _ _ _ H2) as I2.
  destruct (next_ctl b1 o1) as [[ca oa]|] eqn:En1; destruct (next_ctl b2 o2) as [[cb ob]|] eqn:En2.
  - destruct I1 as [l1 [L1 T1]]. destruct I2 as [l2 [L2 T2]]. subst l. inversion L2 as [[Ec El]]. subst l2.
    destruct (next_ctl_spec _ _ _ _ En1) as (N1 & N2 & N3 & N4 & _).
    destruct (next_ctl_spec _ _ _ _ En2) as (N1' & _ & N3' & _ & _).
    pose proof (trim_right_blank_nonempty ca N2 N4) as Nt.
    rewrite <- Ec in *.
    assert (IHs : rec_rel (parse NM b1 f) (parse NM b2 g) (S oa) (S ob)) by (apply parse_rel; lia).
    pose proof (process_rel (parse NM b1 f) (parse NM b2 g) d None (trim_right_blank ca) oa ob t l1 Nt IHs T1 T2) as PR.
    pose proof (process_progress NM (parse NM b1 f) d None (trim_right_blank ca) oa t (parse_nested_ok NM b1 f) Nt) as P1.
    pose proof (process_progress NM (parse NM b2 g) d None (trim_right_blank ca) ob t (parse_nested_ok NM b2 g) Nt) as P2.
    pose proof (process_shape NM (parse NM b1 f) d None (trim_right_blank ca) oa t Nt) as S1.
    destruct (process NM (parse NM b1 f) d None (trim_right_blank ca) oa t) as [r1|r1|r1];
      destruct (process NM (parse NM b2 g) d None (trim_right_blank ca) ob t) as [r2|r2|r2]; cbn [step_rel] in PR; try contradiction.
    + exact PR.
    + destruct S1 as (_ & _ & Hroot & _). congruence.
    + destruct PR as [(A&B&C&D) [l' [T1' T2']]]. destruct P1 as (O1 & Q1 & _). destruct P2 as (O2 & Q2 & _).
      assert (R1 : p_root r1 = None).
      { destruct S1 as [(_ & _ & R)|[(_ & _ & R)|(_ & _ & Hroot & _)]]; congruence. }
      assert (R2 : p_root r2 = None) by congruence.
      rewrite A, R1, R2, Q1, Q2. apply (IH g _ _ _ _ l'); try assumption; lia.
  - destruct I1 as [l1 [L1 _]]. subst l. discriminate.
  - destruct I2 as [l2 [L2 _]]. subst l. discriminate.
  - repeat split.
Qed.

End TWO.

(* C09: two texts with the same control lines parse to the same tree, with the
   same error -- whatever else differs between them *)
Theorem same_lines_same_tree s1 s2 l :
  Ctls s1 0 l -> Ctls s2 0 l -> parse_pure NM s1 = parse_pure NM s2.
Proof.
  intros H1 H2. unfold parse_pure.
  destruct (parse_top_rel s1 s2 (S (S (List.length s1))) (S (S (List.length s2))) [] 0 0 (mkT 0 0 0) l
              ltac:(lia) ltac:(lia) eq_refl H1 H2) as (A & _ & _ & D).
  rewrite A, D. reflexivity.
Qed.

(* the same with the computed line lists: nothing is assumed about the texts *)
Corollary same_lines_same_tree_computed s1 s2 :
  ctls s1 (S (List.length s1)) 0 = ctls s2 (S (List.length s2)) 0 -> parse_pure NM s1 = parse_pure NM s2.
Proof.
  intro E. apply (same_lines_same_tree s1 s2 (ctls s1 (S (List.length s1)) 0)).
  - apply ctls_sound. lia.
  - rewrite E. apply ctls_sound. lia.
Qed.

End WITH_NAMES.

(* not vacuous: a program in its canonical layout and in a layout with CR LF
   line ends, indentation by tabs and blanks, blank lines, `;` after statements,
   blanks at line ends, a whole-line comment and no final newline is cut into
   the same control lines except for the comment -- and a comment line does not
   change the tree either (checked here by evaluation) *)
Definition lnl : string := String (Ascii.ascii_of_nat 10) EmptyString.
Definition lcr : string := String (Ascii.ascii_of_nat 13) (String (Ascii.ascii_of_nat 10) EmptyString).
Definition ltab : string := String (Ascii.ascii_of_nat 9) EmptyString.
Definition l_names : names := mkNames (fun _ => false) (fun _ => false) (fun b => bytes_eqb b (bs "probe")).
Definition l_canon : bytes :=
  bs ("if jso.n == 5 {" ++ lnl ++ "probe(1)" ++ lnl ++ "obj.Id = jso.s" ++ lnl ++ "} else {" ++ lnl ++ "for i := 0; i < 3; i++ {" ++ lnl ++ "probe(i)" ++ lnl ++ "}" ++ lnl ++ "}" ++ lnl).
Definition l_layout : bytes :=
  bs (lcr ++ "if jso.n == 5 {  " ++ lcr ++ ltab ++ "probe(1);" ++ lcr ++ lcr ++ "  " ++ ltab ++ "obj.Id = jso.s; " ++ lcr ++ "} else {" ++ lcr
      ++ "    for i := 0; i < 3; i++ {" ++ ltab ++ lcr ++ ltab ++ ltab ++ "probe(i)" ++ lcr ++ "    }" ++ lcr ++ "}").

Example layout_example :
  ctls l_canon (S (List.length l_canon)) 0 = ctls l_layout (S (List.length l_layout)) 0 /\
  List.length (ctls l_canon (S (List.length l_canon)) 0) = 8 /\
  parse_pure l_names l_canon = parse_pure l_names l_layout /\
  snd (parse_pure l_names l_canon) = None.
Proof.
  split; [vm_compute; reflexivity|]. split; [vm_compute; reflexivity|].
  split; [apply same_lines_same_tree_computed; vm_compute; reflexivity|vm_compute; reflexivity].
Qed.
