(* ParserBalanced.v -- accepted => balanced (C08).
   The text is read as a sequence of control lines, exactly as parser.parse
   reads it (nextCtl, trailing blanks dropped); each line is an opener (loop,
   condition, cond-OK, switch header), a closer (`}`), an else (`} else {`) or a
   statement.  If Parse returns no error then this sequence is balanced: the
   depth never goes below zero, an else only occurs inside an open block, and
   the depth is zero at the end.  Hence a missing closing brace, a surplus
   closing brace and an else with no open block are all rejected -- for every
   text, at every position, under every nesting. *)
From Coq Require Import List NArith ZArith Bool Lia String.
From Dec Require Import Bytes Strconv Crc Regex Tree Db Parser.
From Dec.generated Require Import Regexes.
From Dec.proofs Require Import RegexFacts ParserFacts.
Import ListNotations.

Inductive tok := TOpen | TClose | TElse | TStmt.

(* relative depth; [inb] = we are inside some open block (an else is allowed
   at relative depth 0) *)
Fixpoint rrun (inb : bool) (d : nat) (l : list tok) : option nat :=
  match l with
  | [] => Some d
  | TOpen :: r => rrun inb (S d) r
  | TClose :: r => match d with O => None | S d' => rrun inb d' r end
  | TElse :: r => match d with O => if inb then rrun inb d r else None | S _ => rrun inb d r end
  | TStmt :: r => rrun inb d r
  end.

Definition balanced (l : list tok) : bool :=
  match rrun false 0 l with Some O => true | _ => false end.

Lemma rrun_app inb : forall l1 l2 d d1, rrun inb d l1 = Some d1 -> rrun inb d (l1 ++ l2) = rrun inb d1 l2.
Proof.
  induction l1 as [|x l1 IH]; intros l2 d d1 H; simpl in *; [inversion H; reflexivity|].
  destruct x; try (apply IH; exact H).
  - destruct d; [discriminate|apply IH; exact H].
  - destruct d; [destruct inb; [apply IH; exact H|discriminate]|apply IH; exact H].
Qed.

(* a balanced block body can be lifted to any depth and any surrounding *)
Lemma rrun_lift inb : forall l d d1 k, rrun true d l = Some d1 -> rrun inb (S k + d) l = Some (S k + d1).
Proof.
  induction l as [|x l IH]; intros d d1 k H; simpl in *; [inversion H; reflexivity|].
  destruct x.
  - replace (S (k + d)) with (k + S d) by lia.
    specialize (IH (S d) d1 k H). simpl in IH. replace (S (k + S d)) with (S (S (k + d))) in IH by lia.
    replace (S (k + d1)) with (S (k + d1)) by lia. replace (k + S d) with (S (k + d)) by lia. exact IH.
  - destruct d; [discriminate|]. replace (k + S d) with (S (k + d)) by lia.
    specialize (IH d d1 k H). simpl in IH. exact IH.
  - destruct d.
    + replace (k + 0) with k by lia. specialize (IH 0 d1 k H). simpl in IH. replace (k + 0) with k in IH by lia.
      destruct k; exact IH.
    + replace (k + S d) with (S (k + d)) by lia. specialize (IH (S d) d1 k H). simpl in IH.
      replace (k + S d) with (S (k + d)) in IH by lia. exact IH.
  - specialize (IH d d1 k H). simpl in IH. exact IH.
Qed.

Section WITH_NAMES.
Variable NM : names.

(* what kind of line processCtl takes a control line for (same tests, same order) *)
Definition classify (ctl : bytes) : tok :=
  match ctl with
  | [] => TStmt
  | c0 :: _ =>
    if N.eqb c0 c_hash || has_prefix (bs "//") ctl then TStmt
    else if mt re_reLoop ncap_reLoop ctl then TOpen
    else if mt re_reCondOK ncap_reCondOK ctl then TOpen
    else if mt re_reCond ncap_reCond ctl then TOpen
    else if mt re_reCondElse ncap_reCondElse ctl then TElse
    else match sub re_reSwitch ncap_reSwitch ctl with
         | Some _ => TOpen
         | None =>
             match sub re_reSwitchCaseHelper ncap_reSwitchCaseHelper ctl with
             | Some _ => TStmt
             | None =>
                 if mt re_reSwitchCase ncap_reSwitchCase ctl then TStmt
                 else if mt re_reSwitchDefault ncap_reSwitchDefault ctl then TStmt
                 else if N.eqb c0 c_rbrace then TClose
                 else TStmt
             end
         end
  end.

(* bytes a line accounts for: a closer is one byte, anything else the whole line *)
Definition consumed (ctl : bytes) : nat :=
  match classify ctl with TClose => 1 | _ => List.length ctl end.

Section WITH_BODY.
Variable body : bytes.

(* the control lines of the text from an offset on *)
Inductive Toks : nat -> list tok -> Prop :=
| Toks_eof off : next_ctl body off = None -> Toks off []
| Toks_cons off0 ctl0 off l :
    next_ctl body off0 = Some (ctl0, off) ->
    Toks (off + consumed (trim_right_blank ctl0)) l ->
    Toks off0 (classify (trim_right_blank ctl0) :: l).

(* the same, computed (for examples and for totality) *)
Fixpoint toks (fuel : nat) (off : nat) : list tok :=
  match fuel with
  | O => []
  | S f =>
      match next_ctl body off with
      | None => []
      | Some (ctl0, o) => classify (trim_right_blank ctl0) :: toks f (o + consumed (trim_right_blank ctl0))
      end
  end.

Lemma consumed_pos ctl : 1 <= List.length ctl -> 1 <= consumed ctl.
Proof. unfold consumed. destruct (classify ctl); lia. Qed.

Lemma toks_sound : forall fuel off, List.length body - off < fuel -> Toks off (toks fuel off).
Proof.
  induction fuel as [|f IH]; intros off H; [lia|]. cbn [toks].
  destruct (next_ctl body off) as [[ctl0 o]|] eqn:E; [|apply Toks_eof; exact E].
  destruct (next_ctl_spec _ _ _ _ E) as (N1 & N2 & N3 & N4 & _).
  pose proof (trim_right_blank_nonempty ctl0 N2 N4) as Nt.
  pose proof (consumed_pos _ Nt) as Nc.
  eapply Toks_cons; [exact E|]. apply IH. lia.
Qed.

(* every text has its sequence of control lines *)
Corollary Toks_total off : exists l, Toks off l.
Proof. exists (toks (S (List.length body - off)) off). apply toks_sound. lia. Qed.

Lemma Toks_det : forall off l1, Toks off l1 -> forall l2, Toks off l2 -> l1 = l2.
Proof.
  induction 1 as [off E|off0 ctl0 off l E T IH]; intros l2 H2; inversion H2; subst; try congruence.
  match goal with H : next_ctl body off0 = Some (?c, ?o) |- _ => rewrite E in H; inversion H; subst end.
  f_equal. apply IH. assumption.
Qed.

(* ---------------------------------------------- what one control line does *)

(* a nested block was parsed by [rec] starting right after the line *)
Definition nested_call (rec : rec_t) (off n : nat) (p : target) (r : pres) : Prop :=
  exists d0 r0 p', reached p p' = false /\
    p_err (rec d0 r0 (off + n) p p') = None /\ p_off r = p_off (rec d0 r0 (off + n) p p').

Lemma process_shape rec dst root ctl off p :
  1 <= List.length ctl ->
  match process NM rec dst root ctl off p with
  | SNext r =>
      (classify ctl = TOpen /\ nested_call rec off (List.length ctl) p r /\ p_root r = root) \/
      (classify ctl = TStmt /\ p_off r = off + List.length ctl /\ p_root r = root) \/
      (classify ctl = TElse /\ p_off r = off + List.length ctl /\ root <> None /\ p_root r <> None)
  | SUp r => classify ctl = TClose /\ p_off r = S off /\ root <> None /\ p_root r = root
  | SErr _ => True
  end.
Proof.
  intro Hlen. unfold process, classify.
  destruct ctl as [|c0 ctl']; [simpl in Hlen; lia|].
  set (ctl := c0 :: ctl') in *.
  destruct (N.eqb c0 c_hash || has_prefix (bs "//") ctl); [right; left; cbn [p_off p_root]; auto|].
  destruct (mt re_reLoop ncap_reLoop ctl).
  { destruct (negb (N.eqb (last ctl 0%N) c_lbrace)); [exact I|].
    destruct (loop_header ctl) as [r|]; [|exact I].
    match goal with |- context [p_err (rec ?d ?rr ?o ?t ?pp)] => destruct (p_err (rec d rr o t pp)) eqn:E; [exact I|] end.
    left. split; [reflexivity|]. split; [|reflexivity].
    eexists _, _, _. split; [apply not_reached_incr_cl|]. split; [exact E|reflexivity]. }
  destruct (mt re_reCondOK ncap_reCondOK ctl).
  { destruct (negb (N.eqb (last ctl 0%N) c_lbrace)); [exact I|].
    match goal with |- context [p_err (rec ?d ?rr ?o ?t ?pp)] => destruct (p_err (rec d rr o t pp)) eqn:E; [exact I|] end.
    left. split; [reflexivity|]. split; [|reflexivity].
    eexists _, _, _. split; [apply not_reached_incr_cc|]. split; [exact E|reflexivity]. }
  destruct (mt re_reCond ncap_reCond ctl).
  { destruct (negb (N.eqb (last ctl 0%N) c_lbrace)); [exact I|].
    destruct (mt re_reCondComplex ncap_reCondComplex ctl).
    - destruct (sub re_reCondHelper ncap_reCondHelper ctl); [|exact I].
      match goal with |- context [p_err (rec ?d ?rr ?o ?t ?pp)] => destruct (p_err (rec d rr o t pp)) eqn:E; [exact I|] end.
      left. split; [reflexivity|]. split; [|reflexivity].
      eexists _, _, _. split; [apply not_reached_incr_cc|]. split; [exact E|reflexivity].
    - destruct (parseCondExpr re_reCondExpr ncap_reCondExpr ctl) as [[[[l r_] sl] sr] op].
      match goal with |- context [p_err (rec ?d ?rr ?o ?t ?pp)] => destruct (p_err (rec d rr o t pp)) eqn:E; [exact I|] end.
      left. split; [reflexivity|]. split; [|reflexivity].
      eexists _, _, _. split; [apply not_reached_incr_cc|]. split; [exact E|reflexivity]. }
  destruct (mt re_reCondElse ncap_reCondElse ctl).
  { destruct root as [rt|]; [|exact I]. right; right. cbn [p_off p_root]. repeat split; congruence. }
  destruct (sub re_reSwitch ncap_reSwitch ctl).
  { destruct (negb (N.eqb (last ctl 0%N) c_lbrace)); [exact I|].
    match goal with |- context [p_err (rec ?d ?rr ?o ?t ?pp)] => destruct (p_err (rec d rr o t pp)) eqn:E; [exact I|] end.
    left. split; [reflexivity|]. split; [|reflexivity].
    eexists _, _, _. split; [apply not_reached_incr_cs|]. split; [exact E|reflexivity]. }
  destruct (sub re_reSwitchCaseHelper ncap_reSwitchCaseHelper ctl); [right; left; cbn [p_off p_root]; auto|].
  destruct (mt re_reSwitchCase ncap_reSwitchCase ctl); [right; left; cbn [p_off p_root]; auto|].
  destruct (mt re_reSwitchDefault ncap_reSwitchDefault ctl); [right; left; cbn [p_off p_root]; auto|].
  destruct (N.eqb c0 c_rbrace).
  { destruct root as [rt|]; [|exact I].
    destruct (close_block p (typ rt)) as [p' [x|]]; [exact I|]. cbn [p_off p_root]. repeat split; congruence. }
  destruct (simple_stmt NM ctl); [right; left; cbn [p_off p_root]; auto|exact I].
Qed.

(* D37 / D40: a line taken for an opener must end in its block brace *)
Lemma opener_without_brace_rejected rec dst root ctl off p :
  classify ctl = TOpen -> N.eqb (last ctl 0%N) c_lbrace = false ->
  exists r, process NM rec dst root ctl off p = SErr r /\ p_err r = Some PENoBrace.
Proof.
  unfold process, classify. intros C L.
  destruct ctl as [|c0 ctl']; [discriminate|].
  set (ctl := c0 :: ctl') in *.
  destruct (N.eqb c0 c_hash || has_prefix (bs "//") ctl); [discriminate|].
  destruct (mt re_reLoop ncap_reLoop ctl); [rewrite L; cbn [negb]; eexists; split; reflexivity|].
  destruct (mt re_reCondOK ncap_reCondOK ctl); [rewrite L; cbn [negb]; eexists; split; reflexivity|].
  destruct (mt re_reCond ncap_reCond ctl); [rewrite L; cbn [negb]; eexists; split; reflexivity|].
  destruct (mt re_reCondElse ncap_reCondElse ctl); [discriminate|].
  destruct (sub re_reSwitch ncap_reSwitch ctl); [rewrite L; cbn [negb]; eexists; split; reflexivity|].
  destruct (sub re_reSwitchCaseHelper ncap_reSwitchCaseHelper ctl); [discriminate|].
  destruct (mt re_reSwitchCase ncap_reSwitchCase ctl); [discriminate|].
  destruct (mt re_reSwitchDefault ncap_reSwitchDefault ctl); [discriminate|].
  destruct (N.eqb c0 c_rbrace); discriminate.
Qed.

Lemma consumed_of ctl k : classify ctl = k -> consumed ctl = match k with TClose => 1 | _ => List.length ctl end.
Proof. intro H. unfold consumed. rewrite H. reflexivity. Qed.

Local Arguments reached : simpl never.
Local Arguments eqZero : simpl never.
Local Arguments next_ctl : simpl never.
Local Arguments process : simpl never.
Local Arguments trim_right_blank : simpl never.
Local Arguments classify : simpl never.

(* a nested block: its lines are a balanced body, then the closer; parsing
   resumes right after it *)
Lemma parse_block : forall fuel dst root off t p,
  reached t p = false ->
  p_err (parse NM body fuel dst root off t p) = None ->
  forall l, Toks off l ->
  exists l1 l2, l = l1 ++ TClose :: l2 /\ rrun true 0 l1 = Some 0 /\
                Toks (p_off (parse NM body fuel dst root off t p)) l2.
Proof.
  induction fuel as [|f IH]; intros dst root off t p Hr He l HT; [simpl in He; discriminate|].
  simpl in He |- *. rewrite Hr in He |- *. simpl in He |- *.
  destruct (next_ctl body off) as [[ctl0 o]|] eqn:En; [|simpl in He; discriminate].
  destruct (next_ctl_spec _ _ _ _ En) as (N1 & N2 & N3 & N4 & _).
  pose proof (trim_right_blank_nonempty ctl0 N2 N4) as Nt.
  inversion HT as [off' E'|off0 ctl0' off' l' E' T']; subst; [congruence|].
  rewrite En in E'. inversion E'; subst ctl0' off'. clear E'.
  pose proof (process_progress NM (parse NM body f) dst root (trim_right_blank ctl0) o p (parse_nested_ok NM body f) Nt) as P.
  pose proof (process_shape (parse NM body f) dst root (trim_right_blank ctl0) o p Nt) as S.
  destruct (process NM (parse NM body f) dst root (trim_right_blank ctl0) o p) as [r|r|r].
  - destruct P. exact He.
  - (* the closer *)
    destruct S as (C & O & _ & _). exists [], l'. rewrite C. split; [reflexivity|]. split; [reflexivity|].
    simpl. rewrite (consumed_of _ _ C) in T'. rewrite O. replace (S o) with (o + 1) by lia. exact T'.
  - destruct P as (P1 & P2 & P3). subst p.
    destruct S as [(C & (d0 & r0 & p' & Hn & En' & Eo) & _)|[(C & O & _)|(C & O & _)]].
    + (* an opener: the nested block, then the rest of this one *)
      rewrite (consumed_of _ _ C) in T'.
      destruct (IH d0 r0 (o + List.length (trim_right_blank ctl0)) (p_cnt r) p' Hn En' l' T') as (a1 & a2 & La & Ra & Ta).
      rewrite <- Eo in Ta.
      destruct (IH (p_nodes r) (p_root r) (p_off r) t (p_cnt r) Hr He a2 Ta) as (b1 & b2 & Lb & Rb & Tb).
      exists (TOpen :: a1 ++ TClose :: b1), b2. rewrite C. split.
      * rewrite La, Lb. simpl. rewrite <- app_assoc. reflexivity.
      * split; [|exact Tb]. cbn [rrun].
        rewrite (rrun_app true a1 (TClose :: b1) 1 1); [simpl; exact Rb|].
        apply (rrun_lift true a1 0 0 0). exact Ra.
    + rewrite (consumed_of _ _ C) in T'. rewrite <- O in T'.
      destruct (IH (p_nodes r) (p_root r) (p_off r) t (p_cnt r) Hr He l' T') as (b1 & b2 & Lb & Rb & Tb).
      exists (TStmt :: b1), b2. rewrite C. split; [rewrite Lb; reflexivity|]. split; [exact Rb|exact Tb].
    + rewrite (consumed_of _ _ C) in T'. rewrite <- O in T'.
      destruct (IH (p_nodes r) (p_root r) (p_off r) t (p_cnt r) Hr He l' T') as (b1 & b2 & Lb & Rb & Tb).
      exists (TElse :: b1), b2. rewrite C. split; [rewrite Lb; reflexivity|]. split; [exact Rb|exact Tb].
Qed.

(* the top level: no block is open, so closers and elses are errors *)
Lemma parse_top : forall fuel dst off t,
  eqZero t = true ->
  p_err (parse NM body fuel dst None off t t) = None ->
  forall l, Toks off l -> rrun false 0 l = Some 0.
Proof.
  induction fuel as [|f IH]; intros dst off t Hz He l HT; [simpl in He; discriminate|].
  simpl in He. rewrite Hz in He. rewrite andb_false_r in He.
  destruct (next_ctl body off) as [[ctl0 o]|] eqn:En.
  2:{ inversion HT; subst; [reflexivity|congruence]. }
  destruct (next_ctl_spec _ _ _ _ En) as (N1 & N2 & N3 & N4 & _).
  pose proof (trim_right_blank_nonempty ctl0 N2 N4) as Nt.
  inversion HT as [off' E'|off0 ctl0' off' l' E' T']; subst; [congruence|].
  rewrite En in E'. inversion E'; subst ctl0' off'. clear E'.
  pose proof (process_progress NM (parse NM body f) dst None (trim_right_blank ctl0) o t (parse_nested_ok NM body f) Nt) as P.
  pose proof (process_shape (parse NM body f) dst None (trim_right_blank ctl0) o t Nt) as S.
  destruct (process NM (parse NM body f) dst None (trim_right_blank ctl0) o t) as [r|r|r].
  - destruct P. exact He.
  - destruct S as (_ & _ & Hroot & _). congruence.
  - destruct P as (P1 & P2 & P3).
    destruct S as [(C & (d0 & r0 & p' & Hn & En' & Eo) & Rr)|[(C & O & Rr)|(C & O & Hroot & _)]]; [| |congruence].
    + rewrite (consumed_of _ _ C) in T'.
      destruct (parse_block f d0 r0 (o + List.length (trim_right_blank ctl0)) t p' Hn En' l' T') as (a1 & a2 & La & Ra & Ta).
      rewrite <- Eo in Ta. rewrite Rr, P2 in He.
      pose proof (IH (p_nodes r) (p_off r) t Hz He a2 Ta) as Rb.
      rewrite C, La. cbn [rrun].
      rewrite (rrun_app false a1 (TClose :: a2) 1 1); [simpl; exact Rb|].
      apply (rrun_lift false a1 0 0 0). exact Ra.
    + rewrite (consumed_of _ _ C) in T'. rewrite <- O in T'. rewrite Rr, P2 in He.
      rewrite C. cbn [rrun]. apply (IH (p_nodes r) (p_off r) t Hz He l' T').
Qed.

End WITH_BODY.

(* Parse accepted the text => its control lines are balanced *)
Theorem accepted_is_balanced src ns l :
  parse_pure NM src = (ns, None) -> Toks src 0 l -> balanced l = true.
Proof.
  unfold parse_pure. intros H T. apply (f_equal snd) in H. cbn [snd] in H.
  unfold balanced. rewrite (parse_top src _ [] 0 (mkT 0 0 0) eq_refl H l T). reflexivity.
Qed.

(* the same with the computed sequence: nothing is assumed about the text *)
Corollary accepted_is_balanced_computed src ns :
  parse_pure NM src = (ns, None) -> balanced (toks src (S (List.length src)) 0) = true.
Proof. intro H. eapply accepted_is_balanced; [exact H|]. apply toks_sound. lia. Qed.

(* contrapositive, as the property words it: an unbalanced text is rejected *)
Corollary unbalanced_is_rejected src :
  balanced (toks src (S (List.length src)) 0) = false -> snd (parse_pure NM src) <> None.
Proof.
  intros B E. destruct (parse_pure NM src) as [ns e] eqn:P. simpl in E. subst e.
  rewrite (accepted_is_balanced_computed src ns P) in B. discriminate.
Qed.

End WITH_NAMES.

(* ------------------------------------------------ not vacuous *)
Definition ex_names : names := mkNames (fun _ => false) (fun _ => false) (fun b => bytes_eqb b (bs "probe")).
Definition nl : string := String (Ascii.ascii_of_nat 10) EmptyString.
Definition ex_ok : bytes := bs ("if jso.n == 5 {" ++ nl ++ "probe(1)" ++ nl ++ "} else {" ++ nl ++ "for i := 0; i < 3; i++ {" ++ nl ++ "probe(i)" ++ nl ++ "}" ++ nl ++ "}" ++ nl).
Definition ex_missing : bytes := bs ("if jso.n == 5 {" ++ nl ++ "probe(1)" ++ nl).
Definition ex_surplus : bytes := bs ("probe(1)" ++ nl ++ "}" ++ nl).
Definition ex_else : bytes := bs ("probe(1)" ++ nl ++ "} else {" ++ nl ++ "}" ++ nl).

Example ex_ok_tokens :
  toks ex_ok (S (List.length ex_ok)) 0 = [TOpen; TStmt; TElse; TOpen; TStmt; TClose; TClose]
  /\ snd (parse_pure ex_names ex_ok) = None.
Proof. split; vm_compute; reflexivity. Qed.

Example ex_unbalanced_tokens :
  balanced (toks ex_missing (S (List.length ex_missing)) 0) = false /\
  balanced (toks ex_surplus (S (List.length ex_surplus)) 0) = false /\
  balanced (toks ex_else (S (List.length ex_else)) 0) = false.
Proof. repeat split; vm_compute; reflexivity. Qed.
