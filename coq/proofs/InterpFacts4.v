(* InterpFacts4.v -- conditionals, loop entry/exit bookkeeping, failure
   propagation, Reset. *)
From Coq Require Import List NArith ZArith Bool Lia String.
From Dec Require Import Bytes Strconv Crc Values Tree Interp.
From Dec.proofs Require Import StrconvFacts InterpFacts InterpFacts2 InterpFacts3.
Import ListNotations.

Local Arguments ctx_set : simpl never.

Section COND.
Variable U : ufuns.

(* C03: a plain condition runs exactly the branch its comparison selects *)
Theorem cond_selects_branch f r c c' b :
  typ r = typeCond -> condHlp r = [] ->
  node_cmp c r = (c', b, None) -> cerr c' = None ->
  follow U (S f) r c =
    if b then match child r with ch :: _ => follow U f ch c' | [] => (c', None) end
    else match child r with _ :: ch :: _ => follow U f ch c' | _ => (c', None) end.
Proof.
  intros H1 H2 H3 H4. rewrite (follow_cond_plain U f r c H1 H2), H3, H4.
  unfold branch. destruct b; reflexivity.
Qed.

(* the three routes of nodeCmp *)
Lemma node_cmp_right_static c r :
  condStaticL r = false -> condStaticR r = true ->
  node_cmp c r = (let '(c', ok) := ctx_cmp c (condL r) (condOp r) (condR r) in (c', ok, None)).
Proof. intros H1 H2. unfold node_cmp. rewrite H1, H2. reflexivity. Qed.

Lemma node_cmp_left_static c r :
  condStaticL r = true -> condStaticR r = false ->
  node_cmp c r = (let '(c', ok) := ctx_cmp c (condR r) (op_swap (condOp r)) (condL r) in (c', ok, None)).
Proof. intros H1 H2. unfold node_cmp. rewrite H1, H2. reflexivity. Qed.

(* literal on the left: `lit OP v` on integers decides lit OP v *)
Theorem literal_left_int c z o right lit :
  valid_cmp o -> parse_int0 right = inl lit ->
  static_compare c (VInt z) (op_swap o) right = CSet (cmp_by o (Z.compare lit z)).
Proof.
  intros Ho Hp. unfold static_compare. simpl. rewrite Hp. rewrite swap_mirror_Z by exact Ho. reflexivity.
Qed.

(* literal on the right: `v OP lit` decides v OP lit *)
Theorem literal_right_int c z o right lit :
  parse_int0 right = inl lit ->
  static_compare c (VInt z) o right = CSet (cmp_by o (Z.compare z lit)).
Proof. intros Hp. unfold static_compare. simpl. rewrite Hp. reflexivity. Qed.

Theorem literal_left_str c s o lit :
  valid_cmp o -> static_compare c (VStr s) (op_swap o) lit = CSet (cmp_by o (bytes_cmp lit s)).
Proof. intro Ho. unfold static_compare. simpl. rewrite swap_mirror_bytes by exact Ho. reflexivity. Qed.

Theorem node_literal_left_str j path t o lit :
  valid_cmp o -> jget j path = JStr t ->
  vector_compare (VNode j) (op_swap o) lit path = CSet (cmp_by o (bytes_cmp lit t)).
Proof. intros Ho Hj. unfold vector_compare. rewrite Hj. rewrite swap_mirror_bytes by exact Ho. reflexivity. Qed.

Theorem node_literal_left_int j path t z o right lit :
  valid_cmp o -> jget j path = JNum t -> parse_int10 t = inl z -> parse_int0 right = inl lit ->
  vector_compare (VNode j) (op_swap o) right path = CSet (cmp_by o (Z.compare lit z)).
Proof.
  intros Ho Hj Ht Hp. unfold vector_compare. rewrite Hj, Hp, Ht. rewrite swap_mirror_Z by exact Ho. reflexivity.
Qed.

(* a condition helper decides the branch by its return value *)
Theorem cond_helper_decides f r c fn :
  typ r = typeCond -> condHlp r <> [] -> condLC r = lcNone -> u_cond U (condHlp r) = Some fn ->
  follow U (S f) r c =
    (let '(c1, a) := collect_args c (condHlpArg r) [] in
     let failed := match snd (fn (ncalls c1) a) with Some _ => true | None => false end in
     let '(c2, n) := log_call c1 (kind_of (bs "cond") failed) (condHlp r) a in
     let c3 := match snd (fn n a) with Some x => w_cerr c2 (Some x) | None => c2 end in
     match cerr c3 with
     | Some x => (c3, Some x)
     | None => branch (follow U f) r c3 (fst (fn n a)) None
     end).
Proof.
  intros H1 H2 H3 H4. simpl. rewrite H1. simpl.
  destruct (condHlp r) as [|h hs] eqn:Eh; [congruence|].
  rewrite H3. simpl. unfold call_cond. rewrite H4.
  destruct (collect_args c (condHlpArg r) []) as [c1 a].
  unfold log_call. destruct (fn (ncalls c1) a) as [b e]. reflexivity.
Qed.

(* a helper that reports a failure through ctx.Err fails the rule with it *)
Corollary cond_helper_failure f r c fn :
  typ r = typeCond -> condHlp r <> [] -> condLC r = lcNone -> u_cond U (condHlp r) = Some fn ->
  forall x, (let '(c1, a) := collect_args c (condHlpArg r) [] in snd (fn (ncalls c1) a)) = Some x ->
  snd (follow U (S f) r c) = Some x.
Proof.
  intros H1 H2 H3 H4 x Hx. rewrite (cond_helper_decides f r c fn H1 H2 H3 H4).
  destruct (collect_args c (condHlpArg r) []) as [c1 a]. unfold log_call. cbv zeta.
  rewrite Hx. reflexivity.
Qed.

(* an unregistered helper fails the rule *)
Theorem cond_helper_missing f r c :
  typ r = typeCond -> condHlp r <> [] -> condLC r = lcNone -> u_cond U (condHlp r) = None ->
  follow U (S f) r c = (c, Some ECondHlpNotFound).
Proof.
  intros H1 H2 H3 H4. simpl. rewrite H1. simpl.
  destruct (condHlp r) as [|h hs] eqn:Eh; [congruence|].
  rewrite H3. simpl. unfold call_cond. rewrite H4. reflexivity.
Qed.

(* cond-OK: x and ok are bound as the helper returned them, and the branch is
   the (possibly negated) flag *)
Theorem condok_binds_and_branches f r c fn i :
  typ r = typeCondOK -> condHlp r <> [] -> condIns r = [] -> condR r = [] ->
  u_condok U (condHlp r) = Some fn -> u_ins U (bs "static") = Some i ->
  follow U (S f) r c =
    (let '(c1, a) := collect_args c (condHlpArg r) [] in
     let '(c2, n) := log_call c1 (bs "condok") (condHlp r) a in
     let '(v, okv) := fn n a in
     let c3 := w_bufBl (w_bufX c2 v) okv in
     let c4 := ctx_set (ctx_set c3 (condOKL r) v i) (condOKR r) (VBool okv) InsStatic in
     branch (follow U f) r c4 okv None).
Proof.
  intros H1 H2 H3 H4 H5 H6. simpl. rewrite H1. simpl.
  destruct (condHlp r) as [|h hs] eqn:Eh; [congruence|].
  rewrite H5.
  destruct (collect_args c (condHlpArg r) []) as [c1 a].
  unfold log_call.
  destruct (fn (ncalls c1) a) as [v okv]. rewrite H3. simpl in H6. rewrite H6. rewrite H4. reflexivity.
Qed.

(* ------------------------------------------------ loops: bookkeeping *)

(* a break depth pending for enclosing loops survives a nested loop *)
Theorem loop_keeps_pending_depth f r c :
  typ r = typeLoopCount \/ typ r = typeLoopRange ->
  brkD c <= brkD (fst (follow U (S f) r c)).
Proof.
  intros [H|H].
  - rewrite (follow_loopcount U f r c H). simpl.
    destruct (Nat.ltb_spec (brkD (cloop (follow U f) f r (w_brkD c 0))) (brkD c)); simpl; lia.
  - rewrite (follow_looprange U f r c H). simpl.
    destruct (Nat.ltb_spec (brkD (rloop (follow U f) r (w_brkD c 0))) (brkD c)); simpl; lia.
Qed.

(* a loop statement reports exactly what the driver left in ctx.Err: the
   break / continue / lazybreak signals of its body never escape as such *)
Theorem loop_result_is_ctx_err f r c :
  typ r = typeLoopCount \/ typ r = typeLoopRange ->
  snd (follow U (S f) r c) = cerr (fst (follow U (S f) r c)).
Proof.
  intros [H|H].
  - rewrite (follow_loopcount U f r c H). reflexivity.
  - rewrite (follow_looprange U f r c H). reflexivity.
Qed.

End COND.

Section FAIL.
Variable fr : node -> ctx -> ctx * option err.

(* C15: a failing rule in a counter-loop body ends the loop at once with the
   error in ctx.Err: no later rule of the iteration, no later iteration *)
Theorem cloop_fail_stops k n idx v lim c c1 e :
  loop_allows (loopCondOp n) v lim = Some true -> brkD c = 0 ->
  body fr (child n) (ctx_set c (loopCnt n) (VLC idx) InsStatic) false = (c1, BFail e) ->
  cloop_run fr (S k) n idx v lim c = w_cerr c1 (Some e).
Proof.
  intros Ha Hb Hbody. simpl. rewrite Ha, Hb. simpl.
  change (ctx_set c (loopCnt n) (VLC idx) InsStatic) with (ctx_set c (loopCnt n) (VLC idx) InsStatic).
  unfold ctx_set in Hbody |- *. rewrite Hbody. reflexivity.
Qed.

(* ... and so does one in a range-loop body; the loop is marked broken, so the
   remaining elements run nothing (vloop_broken_trace) *)
Theorem iterate_fail_stops n c c1 e :
  brkD c = 0 -> body fr (child n) c false = (c1, BFail e) ->
  iterate fr n c false = (w_cerr c1 (Some e), true, true).
Proof. intros Hb Hbody. unfold iterate. rewrite Hb. simpl. rewrite Hbody. reflexivity. Qed.

End FAIL.

(* a loop bound that is not a number fails the loop *)
Lemma cloop_range_not_number c b raw :
  ctx_get c b [] = (c, raw) -> cerr c = None -> iface2int c raw = None ->
  cerr (fst (cloop_range c false b)) = Some EWrongLoopLim.
Proof. intros H1 H2 H3. unfold cloop_range. rewrite H1, H2, H3. reflexivity. Qed.

Lemma cloop_range_bad_literal c b e :
  parse_int0 b = inr e -> cerr (fst (cloop_range c true b)) = Some (EStrconv e).
Proof. intro H. unfold cloop_range. rewrite H. reflexivity. Qed.

Lemma iface2int_rejects c :
  iface2int c VNil = None /\ iface2int c (VBool true) = None /\ iface2int c VOther = None /\
  iface2int c (VNode (JStr (bs "abc"))) = None /\ iface2int c (VNode JNull) = None /\
  iface2int c (VNode (JObj [])) = None.
Proof. repeat split; reflexivity. Qed.

(* ------------------------------------------------------------ Reset *)

(* what Reset leaves: no variables, no error, no pending break, no counters,
   no reserved buffers, nil scratch value -- everything a new context has,
   except the verdict cell bufBl (which Ctx.cmp clears before every use) *)
Theorem reset_is_new_but_bufBl c :
  ctx_reset c = w_ncalls (w_trace (w_bufBl (new_ctx (store c)) (bufBl c)) (trace c)) (ncalls c).
Proof. reflexivity. Qed.

Corollary reset_core_eq_new c :
  core_eq (w_ncalls (w_trace (ctx_reset c) []) 0) (new_ctx (store c)) /\
  bufX (ctx_reset c) = bufX (new_ctx (store c)).
Proof. repeat split. Qed.
