(* AuditFacts.v -- the audits regenerated from the working tree hold.  These
   are the proof obligations that change when db.go, the decode path or
   parser.go change: a lock dropped on one path, a shared field touched
   outside a lock region, a store through the tree, make them fail. *)
From Coq Require Import List String Bool.
From Dec Require Import AuditDefs.
From Dec.generated Require Import Audit.
Import ListNotations.

Lemma lock_discipline_holds : lock_discipline db_audit = true.
Proof. vm_compute. reflexivity. Qed.

Lemma no_discipline_complaints : why_not db_audit = [].
Proof. vm_compute. reflexivity. Qed.

(* every method of the registry takes the lock at most once on any path: its
   lookups and updates form one critical section (a registration that looked
   the slot up in one region and wrote it in another would not be atomic) *)
Lemma every_db_method_is_one_critical_section : single_sections db_audit = true.
Proof. vm_compute. reflexivity. Qed.

Lemma no_method_with_several_sections : several_sections db_audit = [].
Proof. vm_compute. reflexivity. Qed.

Lemma registry_fields_private : registry_fields_used_outside_db_go = [].
Proof. reflexivity. Qed.

Lemma decode_path_tree_writes_nil : decode_path_tree_writes = [].
Proof. reflexivity. Qed.

Lemma parse_src_writes_nil : parse_src_writes = [].
Proof. reflexivity. Qed.

(* the lock-free helpers that touch shared fields are exactly the ones the
   model knows: getIdxLF, inlined into its callers' regions *)
Lemma lockfree_helpers_known : lockfree_helpers db_audit = ["getIdxLF"%string].
Proof. vm_compute. reflexivity. Qed.

(* the context pool resets a context before it makes it available to others *)
Lemma ctxpool_resets_before_pooling : ctxpool_put_calls = ["ctx.Reset"%string; "p.p.Put"%string].
Proof. reflexivity. Qed.

(* no function other than init and the Register* family stores to a
   package-level variable: there is no shared mutable state besides the
   registries (guarded by their locks) and sync.Pool-backed pools *)
Lemma no_package_level_stores : package_level_stores = [].
Proof. reflexivity. Qed.
