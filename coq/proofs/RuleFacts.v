(* RuleFacts.v -- rule-level statements for C19 (a rule `ctx.name = expr`
   binds the name, with the inspector its value or its `as T` clause selects,
   and disturbs no other name) and C02 (an assignment rule touches at most the
   one object its destination's root variable points to, and no variable). *)
From Coq Require Import List NArith ZArith Bool Lia String.
From Dec Require Import Bytes Strconv Crc Values Tree Interp.
From Dec.proofs Require Import InterpFacts InterpFacts2 InterpFacts3.
Import ListNotations.

Local Arguments ctx_set : simpl never.
Local Arguments split_path : simpl never.
Local Arguments find_var : simpl never.
Local Arguments set_var : simpl never.

Section WITH_U.
Variable U : ufuns.

Definition default_ins (x : val) : insk := match x with VNode _ => InsVector | _ => InsStatic end.
Definition is_nullish (x : val) : bool := match x with VNode JNull | VNode JAbsent => true | _ => false end.

(* C19: `ctx.name = expr` binds name to the value; the inspector is the vector
   inspector for nodes and the static one otherwise *)
Theorem ctx_rule_binds c path x k r0 rest :
  vars c <> [] -> split_path path = k :: r0 :: rest -> is_ctx_name k = true -> is_nullish x = false ->
  ctx_set_path U c path x [] = (ctx_set c (skipn (S (List.length k)) path) x (default_ins x), None).
Proof.
  intros Hv Hs Hk Hn. unfold ctx_set_path.
  destruct path as [|p0 p']; [discriminate|].
  destruct (vars c) as [|v0 vs]; [congruence|].
  rewrite Hs, Hk.
  destruct x; try reflexivity. destruct j; try reflexivity; discriminate.
Qed.

(* ... or the one the `as T` / `.(T)` clause names *)
Theorem ctx_rule_binds_as c path x k r0 rest t0 t i :
  vars c <> [] -> split_path path = k :: r0 :: rest -> is_ctx_name k = true ->
  u_ins U (t0 :: t) = Some i ->
  ctx_set_path U c path x (t0 :: t) = (ctx_set c (skipn (S (List.length k)) path) x i, None).
Proof.
  intros Hv Hs Hk Hi. unfold ctx_set_path.
  destruct path as [|p0 p']; [discriminate|].
  destruct (vars c) as [|v0 vs]; [congruence|].
  rewrite Hs, Hk, Hi. reflexivity.
Qed.

(* an unknown inspector name is an error and binds nothing *)
Theorem ctx_rule_unknown_ins c path x k r0 rest t0 t :
  vars c <> [] -> split_path path = k :: r0 :: rest -> is_ctx_name k = true ->
  u_ins U (t0 :: t) = None ->
  ctx_set_path U c path x (t0 :: t) = (c, Some EUnknownIns).
Proof.
  intros Hv Hs Hk Hi. unfold ctx_set_path.
  destruct path as [|p0 p']; [discriminate|].
  destruct (vars c) as [|v0 vs]; [congruence|].
  rewrite Hs, Hk, Hi. reflexivity.
Qed.

(* later rules see the binding, and every other name is as it was *)
Corollary ctx_rule_visible c path x k r0 rest :
  vars c <> [] -> split_path path = k :: r0 :: rest -> is_ctx_name k = true -> is_nullish x = false ->
  let c' := fst (ctx_set_path U c path x []) in
  let name := skipn (S (List.length k)) path in
  find_var (vars c') name = Some (x, default_ins x) /\
  forall other, name <> other -> find_var (vars c') other = find_var (vars c) other.
Proof.
  intros Hv Hs Hk Hn. rewrite (ctx_rule_binds c path x k r0 rest Hv Hs Hk Hn). cbn [fst]. split.
  - apply ctx_set_get_same.
  - intros other Ho. apply ctx_set_get_other. exact Ho.
Qed.

(* C02: Ctx.set on a destination that is not a context variable changes no
   variable, no counter, no log, and at most the one object the destination's
   root variable points to *)
Theorem dst_write_frame c path x insn c' e :
  ctx_set_path U c path x insn = (c', e) ->
  (forall k r, split_path path = k :: r -> is_ctx_name k = false) ->
  vars c' = vars c /\ bufLC c' = bufLC c /\ trace c' = trace c /\ ncalls c' = ncalls c /\ brkD c' = brkD c /\
  forall j, (forall k r v i, split_path path = k :: r -> find_var (vars c) k = Some (v, i) ->
                             forall p, v <> VObj j p) ->
            nth_error (store c') j = nth_error (store c) j.
Proof.
  unfold ctx_set_path. intros H Hk.
  destruct path as [|p0 p']; [inversion H; subst; repeat split; auto|].
  destruct (vars c) as [|v0 vs] eqn:Ev; [inversion H; subst; repeat split; auto|].
  destruct (split_path (p0 :: p')) as [|k rest] eqn:Es; [inversion H; subst; repeat split; auto|].
  rewrite (Hk k rest eq_refl) in H.
  destruct (find_var (v0 :: vs) k) as [[v ik]|] eqn:Ef; [|inversion H; subst; repeat split; auto].
  destruct ik; try (inversion H; subst; simpl; repeat split; auto; fail).
  destruct (obj_setwb (w_bufX c x) v x rest) as [c1 e1] eqn:Eo.
  inversion H; subst c' e. clear H.
  destruct (setwb_frame _ _ _ _ _ _ Eo) as (F1 & F2 & F3 & F4 & F5 & F6 & F7).
  simpl in *. repeat split; try congruence.
  intros j Hj. destruct v; try (unfold obj_setwb in Eo; destruct rest; inversion Eo; subst; reflexivity).
  destruct (Nat.eq_dec j oid) as [->|Hne].
  - exfalso. eapply (Hj k rest _ _ eq_refl); [exact Ef|reflexivity].
  - apply (F7 oid prefix eq_refl j Hne).
Qed.

End WITH_U.

(* ------------------------------------------------------------------ C01, rule level *)

Local Arguments ctx_get : simpl never.
Local Arguments assign : simpl never.
Local Arguments oupdate : simpl never.

Section RULE.
Variable U : ufuns.

(* a rule `dst = src` without modifiers is: look the source up, write it *)
Lemma follow_plain_assign f r c :
  typ r = typeOperator -> callback r = false -> getter r = false -> static r = false ->
  nonempty (dst r) = true -> nonempty (src r) = true -> mods r = [] ->
  follow U (S f) r c =
    (let '(c1, raw) := ctx_get c (src r) (subset r) in
     match cerr c1 with
     | Some x => (c1, Some x)
     | None => ctx_set_path U c1 (dst r) raw (ins r)
     end).
Proof.
  intros H H1 H2 H3 H4 H5 H6. cbn [follow]. rewrite H. cbn. rewrite H1, H2, H3, H4, H5, H6. cbn.
  destruct (ctx_get c (src r) (subset r)) as [c1 raw]. destruct (cerr c1); reflexivity.
Qed.

(* C01, end to end for the central case: `obj.F = jso.path`, F a field of the
   destination struct, path leading to a present value.  After the rule the
   field holds exactly the assign cascade's conversion of that value (which the
   C01_* theorems characterise as `convert` of its text, or the number narrowed
   as Go narrows), every other object is untouched, no variable changes and the
   rule succeeds. *)
Theorem vector_to_field_rule f r c dk fk sk srest doc oid ob fld fld' :
  typ r = typeOperator -> callback r = false -> getter r = false -> static r = false ->
  mods r = [] -> subset r = [] -> cerr c = None ->
  split_path (dst r) = [dk; fk] -> is_ctx_name dk = false ->
  split_path (src r) = sk :: srest ->
  find_var (vars c) sk = Some (VNode doc, InsVector) ->
  find_var (vars c) dk = Some (VObj oid [], InsObj) ->
  nth_error (store c) oid = Some ob -> assoc_b fk (o_fields ob) = Some fld ->
  assign c fld (VNode (jget doc srest)) = Some fld' ->
  let res := follow U (S f) r c in
  snd res = None /\
  store (fst res) = set_nth_l (store c) oid (oupdate ofuel ob [fk] fld') /\
  vars (fst res) = vars c.
Proof.
  intros H H1 H2 H3 H6 Hsub Hce Hd Hk Hs Hsv Hdv Hob Hf Ha.
  assert (Hnd : nonempty (dst r) = true).
  { destruct (dst r); [discriminate Hd|reflexivity]. }
  assert (Hns : nonempty (src r) = true).
  { destruct (src r); [discriminate Hs|reflexivity]. }
  cbv zeta. rewrite (follow_plain_assign f r c H H1 H2 H3 Hnd Hns H6).
  unfold ctx_get. rewrite Hsub.
  destruct (src r) as [|s0 s'] eqn:Es; [discriminate|].
  change (vars (w_bufX c VNil)) with (vars c).
  destruct (vars c) as [|v0 vs] eqn:Ev; [discriminate Hsv|].
  rewrite Hs, Hsv. cbn [cerr w_bufX]. rewrite Hce.
  unfold ctx_set_path.
  destruct (dst r) as [|d0 d'] eqn:Ed; [discriminate|].
  cbn [vars w_bufX]. rewrite Ev, Hd, Hk, Hdv.
  unfold obj_setwb. cbn [store w_bufX app]. rewrite Hob.
  cbn [oresolve ofuel]. rewrite Hf.
  assert (Ha' : forall cc, bufLC cc = bufLC c -> assign cc fld (VNode (jget doc srest)) = Some fld').
  { intros cc E. rewrite <- Ha. unfold assign, x2bytes, deref. reflexivity. }
  rewrite Ha' by reflexivity.
  cbn [fst snd store vars w_cerr w_store w_bufX]. rewrite Ev. repeat split.
Qed.

End RULE.

(* C07, the switch statement: what it does is decided by the scan's outcome --
   the first matching case's body (and no other), the default body when no case
   matches and there is one, nothing otherwise, or the error of a case value *)
Theorem switch_statement_outcome U f r c :
  typ r = typeSwitch -> switchArg r <> [] ->
  exists x, switch_outcome (follow U f) r (child r) c x /\
    follow U (S f) r c =
      (let '(c', ok, e, early) := x in
       if early then (c', e)
       else if ok then (c', e)
       else match first_default (child r) with
            | Some d => follow U f d c'
            | None => (c', e)
            end).
Proof.
  intros Ht Ha. exists (switch_classic (follow U f) r (child r) c false). split.
  - apply switch_classic_outcome.
  - rewrite (follow_switch U f r c Ht). destruct (switchArg r); [congruence|reflexivity].
Qed.

(* ------------------------------------------------------------------ C07, condition-less form *)

Section NOCOND.
Variable U : ufuns.
Variable fr : node -> ctx -> ctx * option err.

(* verdict of one `case L op R:` / `case helper(args):` of a condition-less switch *)
Definition nocond_verdict (ch : node) (c : ctx) (ok : bool) : ctx * bool * option err * bool :=
  match caseHlp ch with
  | _ :: _ =>
      match call_cond U c (caseHlp ch) (caseHlpArg ch) with
      | (c', None) => (c', ok, Some ECondHlpNotFound, true)
      | (c', Some b) => (c', b, None, false)
      end
  | [] =>
      let sl := caseStaticL ch in
      let sr := caseStaticR ch in
      if sl && sr then (c, ok, Some ESenseless, true)
      else if sr then let '(c', b) := ctx_cmp c (caseL ch) (caseOp ch) (trimq (caseR ch)) in (c', b, None, false)
      else if sl then let '(c', b) := ctx_cmp c (caseR ch) (op_swap (caseOp ch)) (trimq (caseL ch)) in (c', b, None, false)
      else
        let '(c', _) := ctx_get c (caseR ch) [] in
        match cerr c' with
        | Some _ => (c', ok, None, false)
        | None =>
            match x2bytes c' (bufX c') with
            | None => (c', ok, Some EUnknownType, true)
            | Some b => let '(c'', b') := ctx_cmp c' (caseL ch) (caseOp ch) b in (c'', b', None, false)
            end
        end
  end.

Lemma switch_nocond_cons ch r c ok :
  switch_nocond U fr (ch :: r) c ok =
  if Z.eqb (typ ch) typeCase then
    let '(c1, ok1, e, early) := nocond_verdict ch c ok in
    if early then (c1, ok1, e, true)
    else match cerr c1 with
         | Some x => (c1, ok1, Some x, true)
         | None => if ok1 then let '(c', e') := fr ch c1 in (c', true, e', false)
                   else switch_nocond U fr r c1 ok1
         end
  else switch_nocond U fr r c ok.
Proof. reflexivity. Qed.

(* [l] is a run of children that are not matching cases (default arms are skipped by the scan) *)
Inductive nc_no_match : list node -> ctx -> ctx -> Prop :=
| ncn_nil c : nc_no_match [] c c
| ncn_skip ch l c c' : Z.eqb (typ ch) typeCase = false -> nc_no_match l c c' -> nc_no_match (ch :: l) c c'
| ncn_cons ch l c c1 e c' :
    Z.eqb (typ ch) typeCase = true ->
    nocond_verdict ch c false = (c1, false, e, false) -> cerr c1 = None ->
    nc_no_match l c1 c' -> nc_no_match (ch :: l) c c'.

(* the scan of a condition-less switch has exactly three outcomes: the body of
   the first case whose comparison or helper holds (and no other), no match, or
   an error in a case's operands / helper *)
Inductive nc_outcome (l : list node) (c : ctx) : ctx * bool * option err * bool -> Prop :=
| nco_first l1 ch l2 c1 c2 e :
    l = l1 ++ ch :: l2 -> nc_no_match l1 c c1 -> Z.eqb (typ ch) typeCase = true ->
    nocond_verdict ch c1 false = (c2, true, e, false) -> cerr c2 = None ->
    nc_outcome l c (let '(c', e') := fr ch c2 in (c', true, e', false))
| nco_none c' : nc_no_match l c c' -> nc_outcome l c (c', false, None, false)
| nco_error l1 ch l2 c1 c2 ok e :
    l = l1 ++ ch :: l2 -> nc_no_match l1 c c1 -> Z.eqb (typ ch) typeCase = true ->
    nc_outcome l c (c2, ok, e, true).

Theorem switch_nocond_outcome l : forall c, nc_outcome l c (switch_nocond U fr l c false).
Proof.
  induction l as [|ch l IH]; intro c.
  - cbn [switch_nocond]. apply nco_none. constructor.
  - rewrite switch_nocond_cons.
    destruct (Z.eqb (typ ch) typeCase) eqn:Et.
    2:{ pose proof (IH c) as IHc. destruct IHc as [l1 ch' l2 ca cb e El Hn Ht Hv Hc|c' Hn|l1 ch' l2 ca cb ok e El Hn Ht].
        - rewrite El. apply (nco_first (ch :: l1 ++ ch' :: l2) c (ch :: l1) ch' l2 ca cb e); try assumption; [reflexivity|].
          apply ncn_skip; assumption.
        - apply nco_none. apply ncn_skip; assumption.
        - rewrite El. apply (nco_error (ch :: l1 ++ ch' :: l2) c (ch :: l1) ch' l2 ca cb ok e); try assumption; [reflexivity|].
          apply ncn_skip; assumption. }
    destruct (nocond_verdict ch c false) as [[[c1 ok1] e1] ea1] eqn:V.
    destruct ea1.
    + apply (nco_error (ch :: l) c [] ch l c c1 ok1 e1); [reflexivity|constructor|exact Et].
    + destruct (cerr c1) as [x|] eqn:Ec.
      * apply (nco_error (ch :: l) c [] ch l c c1 ok1 (Some x)); [reflexivity|constructor|exact Et].
      * destruct ok1.
        -- apply (nco_first (ch :: l) c [] ch l c c1 e1); [reflexivity|constructor|exact Et|exact V|exact Ec].
        -- pose proof (IH c1) as IHc. destruct IHc as [l1 ch' l2 ca cb e El Hn Ht Hv Hc|c' Hn|l1 ch' l2 ca cb ok e El Hn Ht].
           ++ rewrite El. apply (nco_first (ch :: l1 ++ ch' :: l2) c (ch :: l1) ch' l2 ca cb e); try assumption; [reflexivity|].
              eapply ncn_cons; eassumption.
           ++ apply nco_none. eapply ncn_cons; eassumption.
           ++ rewrite El. apply (nco_error (ch :: l1 ++ ch' :: l2) c (ch :: l1) ch' l2 ca cb ok e); try assumption; [reflexivity|].
              eapply ncn_cons; eassumption.
Qed.

End NOCOND.
