(* RuleFacts.v -- rule-level statements for C19 (a rule `ctx.name = expr`
   binds the name, with the inspector its value or its `as T` clause selects,
   and disturbs no other name) and C02 (an assignment rule touches at most the
   one object its destination's root variable points to, and no variable). *)
From Coq Require Import List NArith ZArith Bool Lia String.
From Dec Require Import Bytes Strconv Crc Values Tree Interp.
From Dec.proofs Require Import InterpFacts InterpFacts2 InterpFacts3.
Import ListNotations.

Local Arguments ctx_set : simpl never.
Local Arguments split_path : simpl never.
Local Arguments find_var : simpl never.
Local Arguments set_var : simpl never.

Section WITH_U.
Variable U : ufuns.

Definition default_ins (x : val) : insk := match x with VNode _ => InsVector | _ => InsStatic end.
Definition is_nullish (x : val) : bool := match x with VNode JNull | VNode JAbsent => true | _ => false end.

(* C19: `ctx.name = expr` binds name to the value; the inspector is the vector
   inspector for nodes and the static one otherwise *)
Theorem ctx_rule_binds c path x k r0 rest :
  vars c <> [] -> split_path path = k :: r0 :: rest -> is_ctx_name k = true -> is_nullish x = false ->
  ctx_set_path U c path x [] = (ctx_set c (skipn (S (List.length k)) path) x (default_ins x), None).
Proof.
  intros Hv Hs Hk Hn. unfold ctx_set_path.
  destruct path as [|p0 p']; [discriminate|].
  destruct (vars c) as [|v0 vs]; [congruence|].
  rewrite Hs, Hk.
  destruct x; try reflexivity. destruct j; try reflexivity; discriminate.
Qed.

(* ... or the one the `as T` / `.(T)` clause names *)
Theorem ctx_rule_binds_as c path x k r0 rest t0 t i :
  vars c <> [] -> split_path path = k :: r0 :: rest -> is_ctx_name k = true ->
  u_ins U (t0 :: t) = Some i ->
  ctx_set_path U c path x (t0 :: t) = (ctx_set c (skipn (S (List.length k)) path) x i, None).
Proof.
  intros Hv Hs Hk Hi. unfold ctx_set_path.
  destruct path as [|p0 p']; [discriminate|].
  destruct (vars c) as [|v0 vs]; [congruence|].
  rewrite Hs, Hk, Hi. reflexivity.
Qed.

(* an unknown inspector name is an error and binds nothing *)
Theorem ctx_rule_unknown_ins c path x k r0 rest t0 t :
  vars c <> [] -> split_path path = k :: r0 :: rest -> is_ctx_name k = true ->
  u_ins U (t0 :: t) = None ->
  ctx_set_path U c path x (t0 :: t) = (c, Some EUnknownIns).
Proof.
  intros Hv Hs Hk Hi. unfold ctx_set_path.
  destruct path as [|p0 p']; [discriminate|].
  destruct (vars c) as [|v0 vs]; [congruence|].
  rewrite Hs, Hk, Hi. reflexivity.
Qed.

(* later rules see the binding, and every other name is as it was *)
Corollary ctx_rule_visible c path x k r0 rest :
  vars c <> [] -> split_path path = k :: r0 :: rest -> is_ctx_name k = true -> is_nullish x = false ->
  let c' := fst (ctx_set_path U c path x []) in
  let name := skipn (S (List.length k)) path in
  find_var (vars c') name = Some (x, default_ins x) /\
  forall other, name <> other -> find_var (vars c') other = find_var (vars c) other.
Proof.
  intros Hv Hs Hk Hn. rewrite (ctx_rule_binds c path x k r0 rest Hv Hs Hk Hn). cbn [fst]. split.
  - apply ctx_set_get_same.
  - intros other Ho. apply ctx_set_get_other. exact Ho.
Qed.

(* C02: Ctx.set on a destination that is not a context variable changes no
   variable, no counter, no log, and at most the one object the destination's
   root variable points to *)
Theorem dst_write_frame c path x insn c' e :
  ctx_set_path U c path x insn = (c', e) ->
  (forall k r, split_path path = k :: r -> is_ctx_name k = false) ->
  vars c' = vars c /\ bufLC c' = bufLC c /\ trace c' = trace c /\ ncalls c' = ncalls c /\ brkD c' = brkD c /\
  forall j, (forall k r v i, split_path path = k :: r -> find_var (vars c) k = Some (v, i) ->
                             forall p, v <> VObj j p) ->
            nth_error (store c') j = nth_error (store c) j.
Proof.
  unfold ctx_set_path. intros H Hk.
  destruct path as [|p0 p']; [inversion H; subst; repeat split; auto|].
  destruct (vars c) as [|v0 vs] eqn:Ev; [inversion H; subst; repeat split; auto|].
  destruct (split_path (p0 :: p')) as [|k rest] eqn:Es; [inversion H; subst; repeat split; auto|].
  rewrite (Hk k rest eq_refl) in H.
  destruct (find_var (v0 :: vs) k) as [[v ik]|] eqn:Ef; [|inversion H; subst; repeat split; auto].
  destruct ik; try (inversion H; subst; simpl; repeat split; auto; fail).
  destruct (obj_setwb (w_bufX c x) v x rest) as [c1 e1] eqn:Eo.
  inversion H; subst c' e. clear H.
  destruct (setwb_frame _ _ _ _ _ _ Eo) as (F1 & F2 & F3 & F4 & F5 & F6 & F7).
  simpl in *. repeat split; try congruence.
  intros j Hj. destruct v; try (unfold obj_setwb in Eo; destruct rest; inversion Eo; subst; reflexivity).
  destruct (Nat.eq_dec j oid) as [->|Hne].
  - exfalso. eapply (Hj k rest _ _ eq_refl); [exact Ef|reflexivity].
  - apply (F7 oid prefix eq_refl j Hne).
Qed.

End WITH_U.
