(* InterpFacts3.v -- range loops bind key and value in order; switch runs the
   first matching case; arguments are evaluated one by one; the scratch cells
   bufX / bufBl are written before they are read. *)
From Coq Require Import List NArith ZArith Bool Lia String.
From Dec Require Import Bytes Strconv Crc Values Tree Interp.
From Dec.proofs Require Import InterpFacts InterpFacts2.
Import ListNotations.

Local Arguments ctx_set : simpl never.

(* ------------------------------------------------------- range loops *)

Section RANGE.
Variable fr : node -> ctx -> ctx * option err.

(* the contexts in which the body of a range loop over a vector array is
   entered, with the index and the element of that iteration *)
Fixpoint vloop_entries (n : node) (xs : list json) (i : nat) (c : ctx) (brk : bool)
  : list (nat * json * ctx) :=
  match xs with
  | [] => []
  | x :: r =>
      let c1 := ctx_set (set_key n c i) (loopVal n) (VNode x) InsVector in
      let '(c2, brk', _) := iterate fr n c1 brk in
      (if brk || negb (Nat.eqb (brkD c1) 0) then [] else [(i, x, c1)]) ++
      vloop_entries n r (S i) c2 brk'
  end.

Definition key_bytes (i : nat) : bytes := format_int (Z.of_nat i).

(* C05: in every iteration the key variable reads the element's index and the
   value variable the element itself *)
Theorem vloop_binds_key_and_value n : forall xs i c brk,
  loopKey n <> [] -> loopVal n <> loopKey n ->
  Forall (fun e => let '(j, x, ce) := e in
            find_var (vars ce) (loopKey n) = Some (VBytes (key_bytes j), InsStatic) /\
            find_var (vars ce) (loopVal n) = Some (VNode x, InsVector))
         (vloop_entries n xs i c brk).
Proof.
  induction xs as [|x xs IH]; intros i c brk Hk Hv; simpl; [constructor|].
  destruct (iterate fr n (ctx_set (set_key n c i) (loopVal n) (VNode x) InsVector) brk) as [[c2 brk'] st].
  apply Forall_app. split; [|apply IH; assumption].
  match goal with |- Forall _ (if ?b then _ else _) => destruct b end; constructor; [|constructor].
  split.
  - rewrite ctx_set_get_other by congruence.
    unfold set_key. destruct (loopKey n) as [|b k] eqn:E; [congruence|].
    apply ctx_set_get_same.
  - apply ctx_set_get_same.
Qed.

(* the iterations happen in element order, at most one per element *)
Fixpoint is_subseq {A} (eqb : A -> A -> bool) (a b : list A) : bool :=
  match a, b with
  | [], _ => true
  | _, [] => false
  | x :: a', y :: b' => if eqb x y then is_subseq eqb a' b' else is_subseq eqb a b'
  end.

Lemma vloop_entries_indices n : forall xs i c brk,
  map (fun e => fst (fst e)) (vloop_entries n xs i c brk) =
  map (fun e => fst (fst e)) (vloop_entries n xs i c brk) /\
  Forall (fun e => i <= fst (fst e) < i + List.length xs) (vloop_entries n xs i c brk).
Proof.
  induction xs as [|x xs IH]; intros i c brk; simpl; [split; [reflexivity|constructor]|].
  split; [reflexivity|].
  destruct (iterate fr n (ctx_set (set_key n c i) (loopVal n) (VNode x) InsVector) brk) as [[c2 brk'] st].
  apply Forall_app. split.
  - match goal with |- Forall _ (if ?b then _ else _) => destruct b end; constructor; [simpl; lia|constructor].
  - destruct (IH (S i) c2 brk') as [_ H]. eapply Forall_impl; [|exact H]. simpl. intros a Ha. lia.
Qed.

(* when no iteration breaks, fails or leaves a break depth pending, the body
   runs exactly once per element, in order *)
Theorem vloop_visits_all n : forall xs i c,
  (forall c0 c1 br, brkD c0 = 0 -> body fr (child n) c0 false = (c1, br) -> (br = BNone \/ br = BCont) /\ brkD c1 = 0) ->
  brkD c = 0 ->
  map (fun e => (fst (fst e), snd (fst e))) (vloop_entries n xs i c false) =
  combine (seq i (List.length xs)) xs.
Proof.
  induction xs as [|x xs IH]; intros i c Hb H0; [reflexivity|].
  cbn [vloop_entries List.length seq combine].
  remember (ctx_set (set_key n c i) (loopVal n) (VNode x) InsVector) as c1 eqn:Ec1.
  assert (Hb1 : brkD c1 = 0).
  { subst c1. unfold ctx_set, set_key. destruct (loopKey n); simpl; exact H0. }
  unfold iterate. rewrite Hb1. cbn [Nat.eqb negb orb].
  destruct (body fr (child n) c1 false) as [c2 br] eqn:Eb.
  destruct (Hb _ _ _ Hb1 Eb) as [[->| ->] Hd].
  - rewrite Hd. cbn [Nat.eqb negb app map fst snd]. f_equal. apply IH; assumption.
  - cbn [app map fst snd]. f_equal. apply IH; assumption.
Qed.

(* C05, unconditionally: whatever the bodies do (break, fail, leave a break
   depth pending), the iterations that are entered are those of the elements
   number i, i+1, ..., i+m-1 for some m: in order, each element at most once,
   without gaps, each with its own element *)
Lemma vloop_entries_broken n : forall xs i c, vloop_entries n xs i c true = [].
Proof.
  induction xs as [|x xs IH]; intros i c; [reflexivity|]. cbn [vloop_entries].
  cbn [iterate]. cbn [orb]. apply IH.
Qed.

Theorem vloop_entries_are_a_prefix n : forall xs i c,
  exists m, m <= List.length xs /\
    map (fun e => (fst (fst e), snd (fst e))) (vloop_entries n xs i c false) = combine (seq i m) (firstn m xs).
Proof.
  induction xs as [|x xs IH]; intros i c.
  - exists 0. split; [lia|reflexivity].
  - cbn [vloop_entries].
    set (c1 := ctx_set (set_key n c i) (loopVal n) (VNode x) InsVector).
    destruct (iterate fr n c1 false) as [[c2 brk'] st] eqn:It. cbn [orb].
    destruct (negb (Nat.eqb (brkD c1) 0)) eqn:Hp.
    + (* a pending depth: the iteration is not entered and the loop is broken *)
      assert (brk' = true).
      { unfold iterate in It. rewrite Hp in It. inversion It. reflexivity. }
      subst brk'. rewrite vloop_entries_broken. exists 0. split; [lia|reflexivity].
    + destruct brk'.
      * rewrite vloop_entries_broken. exists 1. split; [simpl; lia|reflexivity].
      * destruct (IH (S i) c2) as [m [Hm Em]]. exists (S m). split; [simpl; lia|].
        cbn [app map fst snd seq firstn combine]. f_equal. exact Em.
Qed.

(* an absent source gives zero iterations and no error *)
Lemma rloop_absent n c k rest v :
  split_path (loopSrc n) = k :: rest -> find_var (vars c) k = Some (VNode v, InsVector) ->
  jget v rest = JAbsent -> rloop fr n c = w_cerr c None.
Proof. intros H1 H2 H3. unfold rloop. rewrite H1, H2, H3. reflexivity. Qed.

Lemma rloop_unknown_var n c k rest :
  split_path (loopSrc n) = k :: rest -> find_var (vars c) k = None -> rloop fr n c = c.
Proof. intros H1 H2. unfold rloop. rewrite H1, H2. reflexivity. Qed.

(* struct slices: same bindings, and a break really stops the walk *)
Fixpoint oloop_entries (n : node) (oid : nat) (sp : list bytes) (cnt i : nat) (c : ctx) (brk : bool)
  : list (nat * ctx) :=
  match cnt with
  | O => []
  | S cnt' =>
      let c1 := ctx_set (set_key n c i) (loopVal n) (VObj oid (sp ++ [key_bytes i])) InsObj in
      let '(c2, brk', stop) := iterate fr n c1 brk in
      (if brk || negb (Nat.eqb (brkD c1) 0) then [] else [(i, c1)]) ++
      (if stop then [] else oloop_entries n oid sp cnt' (S i) c2 brk')
  end.

Theorem oloop_binds_key_and_value n oid sp : forall cnt i c brk,
  loopKey n <> [] -> loopVal n <> loopKey n ->
  Forall (fun e => let '(j, ce) := e in
            find_var (vars ce) (loopKey n) = Some (VBytes (key_bytes j), InsStatic) /\
            find_var (vars ce) (loopVal n) = Some (VObj oid (sp ++ [key_bytes j]), InsObj))
         (oloop_entries n oid sp cnt i c brk).
Proof.
  induction cnt as [|cnt IH]; intros i c brk Hk Hv; simpl; [constructor|].
  destruct (iterate fr n (ctx_set (set_key n c i) (loopVal n) (VObj oid (sp ++ [key_bytes i])) InsObj) brk) as [[c2 brk'] st].
  apply Forall_app. split.
  - match goal with |- Forall _ (if ?b then _ else _) => destruct b end; constructor; [|constructor]. split.
    + rewrite ctx_set_get_other by congruence.
      unfold set_key. destruct (loopKey n) as [|b k] eqn:E; [congruence|].
      apply ctx_set_get_same.
    + apply ctx_set_get_same.
  - destruct st; [constructor|apply IH; assumption].
Qed.

End RANGE.

(* ----------------------------------------------------------- switch *)

Section SWITCH.
Variable fr : node -> ctx -> ctx * option err.

(* verdict of one case of a classic switch *)
Definition classic_verdict (sw ch : node) (c : ctx) (ok : bool) : ctx * bool * option err * bool :=
  if Z.eqb (typ ch) typeCase then
    if caseStaticL ch then
      let '(c', b) := ctx_cmp c (switchArg sw) opEq (trimq (caseL ch)) in (c', b, None, false)
    else
      let '(c', _) := ctx_get c (caseL ch) [] in
      match cerr c' with
      | Some _ => (c', ok, None, false)
      | None =>
          match x2bytes c' (bufX c') with
          | None => (c', ok, Some EUnknownType, true)
          | Some b => let '(c'', b') := ctx_cmp c' (switchArg sw) opEq b in (c'', b', None, false)
          end
      end
  else (c, ok, None, false).

Lemma switch_classic_cons sw ch r c ok :
  switch_classic fr sw (ch :: r) c ok =
  let '(c1, ok1, e, early) := classic_verdict sw ch c ok in
  if early then (c1, ok1, e, true)
  else if ok1 then let '(c', e') := fr ch c1 in (c', true, e', false)
  else switch_classic fr sw r c1 ok1.
Proof. reflexivity. Qed.

(* [l] is a run of children none of which matches, ending in context [c'] *)
Inductive no_match (sw : node) : list node -> ctx -> ctx -> Prop :=
| nm_nil c : no_match sw [] c c
| nm_cons ch l c c1 e c' :
    classic_verdict sw ch c false = (c1, false, e, false) -> no_match sw l c1 c' ->
    no_match sw (ch :: l) c c'.

(* C07: the body that runs is that of the first case, in source order, whose
   comparison holds; the cases after it are not even looked at *)
Theorem switch_first_match sw l1 ch l2 c c1 c2 e :
  no_match sw l1 c c1 -> classic_verdict sw ch c1 false = (c2, true, e, false) ->
  switch_classic fr sw (l1 ++ ch :: l2) c false =
  (let '(c', e') := fr ch c2 in (c', true, e', false)).
Proof.
  intros H. induction H as [c|ch0 l c c1' e0 c' Hv Hn IH]; intro Hm; simpl app.
  - rewrite switch_classic_cons, Hm. reflexivity.
  - rewrite switch_classic_cons, Hv. apply IH. exact Hm.
Qed.

(* ... and when no case matches, nothing has been executed: only the default may run *)
Theorem switch_no_match sw l c c' :
  no_match sw l c c' -> switch_classic fr sw l c false = (c', false, None, false).
Proof.
  intros H. induction H as [c|ch0 l c c1' e0 c' Hv Hn IH]; [reflexivity|].
  rewrite switch_classic_cons, Hv. exact IH.
Qed.

End SWITCH.

(* C07, the classic switch as a whole: exactly one of -- an early error in a
   case value; the first matching case's body and nothing else; or, when no
   case matches, the default body if there is one, else nothing *)
Inductive switch_outcome (fr : node -> ctx -> ctx * option err) (sw : node) (l : list node) (c : ctx) : ctx * bool * option err * bool -> Prop :=
| so_first l1 ch l2 c1 c2 e :
    l = l1 ++ ch :: l2 -> no_match sw l1 c c1 -> classic_verdict sw ch c1 false = (c2, true, e, false) ->
    switch_outcome fr sw l c (let '(c', e') := fr ch c2 in (c', true, e', false))
| so_none c' :
    no_match sw l c c' -> switch_outcome fr sw l c (c', false, None, false)
| so_early l1 ch l2 c1 c2 ok e :
    l = l1 ++ ch :: l2 -> no_match sw l1 c c1 -> classic_verdict sw ch c1 false = (c2, ok, e, true) ->
    switch_outcome fr sw l c (c2, ok, e, true).

Theorem switch_classic_outcome fr sw l : forall c,
  switch_outcome fr sw l c (switch_classic fr sw l c false).
Proof.
  induction l as [|ch l IH]; intro c.
  - cbn [switch_classic]. apply so_none. constructor.
  - rewrite switch_classic_cons.
    destruct (classic_verdict sw ch c false) as [[[c1 ok1] e1] ea1] eqn:V.
    destruct ea1.
    + apply (so_early fr sw (ch :: l) c [] ch l c c1 ok1 e1); [reflexivity|constructor|exact V].
    + destruct ok1.
      * apply (so_first fr sw (ch :: l) c [] ch l c c1 e1); [reflexivity|constructor|exact V].
      * pose proof (IH c1) as IHc. destruct IHc as [l1 ch' l2 ca cb e El Hn Hv|c' Hn|l1 ch' l2 ca cb ok e El Hn Hv].
        -- rewrite El.
           apply (so_first fr sw (ch :: l1 ++ ch' :: l2) c (ch :: l1) ch' l2 ca cb e); [reflexivity| |exact Hv].
           econstructor; [exact V|exact Hn].
        -- apply so_none. econstructor; [exact V|exact Hn].
        -- rewrite El.
           apply (so_early fr sw (ch :: l1 ++ ch' :: l2) c (ch :: l1) ch' l2 ca cb ok e); [reflexivity| |exact Hv].
           econstructor; [exact V|exact Hn].
Qed.


(* the default body runs only when nothing matched, and only one of them *)
Lemma first_default_spec l d : first_default l = Some d -> typ d = typeDefault /\ In d l.
Proof.
  induction l as [|ch r IH]; simpl; [discriminate|].
  destruct (Z.eqb_spec (typ ch) typeDefault).
  - intro H; inversion H; subst; auto.
  - intro H. destruct (IH H). auto.
Qed.

(* -------------------------------------- scratch cells: written before read *)

(* contexts that differ in the scratch cells bufX and bufBl only *)
Definition core_eq (a b : ctx) : Prop :=
  vars a = vars b /\ store a = store b /\ cerr a = cerr b /\ brkD a = brkD b /\
  bufLC a = bufLC b /\ lenBB a = lenBB b /\ trace a = trace b /\ ncalls a = ncalls b.

Lemma core_eq_refl a : core_eq a a.
Proof. repeat split. Qed.

Lemma core_eq_sym a b : core_eq a b -> core_eq b a.
Proof. unfold core_eq. intuition congruence. Qed.

Lemma core_eq_trans a b c : core_eq a b -> core_eq b c -> core_eq a c.
Proof. unfold core_eq. intuition congruence. Qed.

Definition full_eq_on_scratch (a b : ctx) : Prop := core_eq a b /\ bufX a = bufX b /\ bufBl a = bufBl b.

Lemma full_eq a b : full_eq_on_scratch a b -> a = b.
Proof.
  destruct a, b. unfold full_eq_on_scratch, core_eq. simpl. intuition; subst; reflexivity.
Qed.

Lemma deref_core a b v : core_eq a b -> deref a v = deref b v.
Proof. intros (_ & _ & _ & _ & H & _). destruct v; simpl; auto. rewrite H. reflexivity. Qed.

Lemma x2bytes_core a b v : core_eq a b -> x2bytes a v = x2bytes b v.
Proof. intro H. unfold x2bytes. rewrite (deref_core a b v H). reflexivity. Qed.

Lemma ins_getto_core a b i v p : core_eq a b -> ins_getto a i v p = ins_getto b i v p.
Proof.
  intros (_ & H & _). unfold ins_getto. destruct i; auto. destruct v; auto. rewrite H. reflexivity.
Qed.

(* Ctx.get: the value and the resulting scratch value do not depend on the
   incoming scratch cells *)
Lemma ctx_get_core a b p s :
  core_eq a b ->
  core_eq (fst (ctx_get a p s)) (fst (ctx_get b p s)) /\
  snd (ctx_get a p s) = snd (ctx_get b p s) /\
  bufX (fst (ctx_get a p s)) = bufX (fst (ctx_get b p s)).
Proof.
  intro H. pose proof H as (Hv & Hs & He & Hb & Hl & Hn & Ht & Hc).
  assert (Hcore : core_eq (w_bufX a VNil) (w_bufX b VNil)) by (repeat split; auto).
  unfold ctx_get.
  destruct p as [|p0 p']; [repeat split; simpl; try congruence; auto|].
  change (vars (w_bufX a VNil)) with (vars a). change (vars (w_bufX b VNil)) with (vars b).
  rewrite <- Hv. destruct (vars a) as [|v0 vs] eqn:Eva; [repeat split; simpl; try congruence; auto|].
  destruct (split_path (p0 :: p')) as [|k rest]; [repeat split; simpl; try congruence; auto|].
  destruct (find_var (v0 :: vs) k) as [[v i]|]; [|repeat split; simpl; try congruence; auto].
  destruct v; try (destruct i;
    try (rewrite (ins_getto_core _ _ _ _ _ Hcore);
         match goal with |- context [ins_getto ?c ?i ?v ?r] => destruct (ins_getto c i v r) end);
    repeat split; simpl; try congruence; auto; fail).
Qed.

Lemma ins_compare_core a b i v o r p : core_eq a b -> ins_compare a i v o r p = ins_compare b i v o r p.
Proof.
  intros H. pose proof H as (_ & Hs & _). unfold ins_compare. destruct i; auto.
  - unfold static_compare. rewrite (deref_core a b v H). reflexivity.
  - unfold obj_compare. destruct p; auto. destruct v; auto. rewrite Hs. reflexivity.
Qed.

(* Ctx.cmp: the verdict does not depend on the incoming scratch cells; in
   particular not on the verdict a previous comparison left in bufBl *)
Lemma ctx_cmp_core a b p o r :
  core_eq a b ->
  core_eq (fst (ctx_cmp a p o r)) (fst (ctx_cmp b p o r)) /\
  snd (ctx_cmp a p o r) = snd (ctx_cmp b p o r).
Proof.
  intro H. pose proof H as (Hv & Hs & He & Hb & Hl & Hn & Ht & Hc).
  unfold ctx_cmp. destruct (split_path p) as [|k rest]; [simpl; auto|].
  rewrite <- Hv. destruct (find_var (vars a) k) as [[v i]|]; [|simpl; auto].
  assert (Hcore : core_eq (w_bufBl a false) (w_bufBl b false)) by (repeat split; auto).
  rewrite (ins_compare_core _ _ i v o r rest Hcore).
  destruct (ins_compare (w_bufBl b false) i v o r rest); simpl; repeat split; auto.
Qed.

Corollary cmp_verdict_ignores_bufBl c x p o r :
  snd (ctx_cmp (w_bufBl c x) p o r) = snd (ctx_cmp c p o r).
Proof. apply ctx_cmp_core. repeat split. Qed.

(* when the left operand's variable exists the whole resulting context is the
   same: a stale verdict cannot survive a comparison *)
Lemma ctx_cmp_found_full a b p o r k rest v i :
  core_eq a b -> bufX a = bufX b -> split_path p = k :: rest -> find_var (vars a) k = Some (v, i) ->
  ctx_cmp a p o r = ctx_cmp b p o r.
Proof.
  intros H Hx Hp Hf. pose proof H as (Hv & Hs & He & Hb & Hl & Hn & Ht & Hc).
  unfold ctx_cmp. rewrite Hp. rewrite <- Hv, Hf.
  assert (Hcore : core_eq (w_bufBl a false) (w_bufBl b false)) by (repeat split; auto).
  rewrite (ins_compare_core _ _ i v o r rest Hcore).
  assert (E : w_bufBl a false = w_bufBl b false).
  { apply full_eq. split; [exact Hcore|]. simpl. auto. }
  rewrite E. reflexivity.
Qed.

(* ----------------------------------------------------- argument vectors *)

(* the value an argument denotes in a context *)
Definition arg_value (c : ctx) (a : arg) : val :=
  if a_static a then VBytes (a_val a)
  else deref c (snd (ctx_get c (a_val a) (a_subset a))).

Lemma collect_args_core : forall l a b acc,
  core_eq a b ->
  core_eq (fst (collect_args a l acc)) (fst (collect_args b l acc)) /\
  snd (collect_args a l acc) = snd (collect_args b l acc).
Proof.
  induction l as [|x l IH]; intros a b acc H; simpl; [auto|].
  destruct (a_static x); [apply IH; exact H|].
  destruct (ctx_get_core a b (a_val x) (a_subset x) H) as (H1 & H2 & _).
  destruct (ctx_get a (a_val x) (a_subset x)) as [a' va].
  destruct (ctx_get b (a_val x) (a_subset x)) as [b' vb]. simpl in *. subst vb.
  rewrite (deref_core a' b' va H1). apply IH. exact H1.
Qed.

Lemma ctx_get_preserves c p s :
  let c' := fst (ctx_get c p s) in
  vars c' = vars c /\ store c' = store c /\ bufLC c' = bufLC c /\ brkD c' = brkD c /\
  lenBB c' = lenBB c /\ trace c' = trace c /\ ncalls c' = ncalls c.
Proof.
  unfold ctx_get. destruct p as [|p0 p']; [simpl; repeat split|].
  change (vars (w_bufX c VNil)) with (vars c).
  destruct (vars c) as [|v0 vs] eqn:Ev; [simpl; repeat split; auto|].
  destruct (split_path (p0 :: p')) as [|k rest]; [simpl; repeat split; auto|].
  destruct (find_var (v0 :: vs) k) as [[v i]|]; [|simpl; repeat split; auto].
  destruct v; try (destruct i;
    try (match goal with |- context [ins_getto ?c ?i ?v ?r] => destruct (ins_getto c i v r) end);
    simpl; repeat split; auto; fail).
Qed.

(* the value of an argument depends only on variables, objects and loop counters *)
Lemma arg_value_stable a b x :
  vars a = vars b -> store a = store b -> bufLC a = bufLC b -> arg_value a x = arg_value b x.
Proof.
  intros Hv Hs Hl. unfold arg_value. destruct (a_static x); [reflexivity|].
  (* ctx_get reads vars, store; deref reads bufLC *)
  assert (G : snd (ctx_get a (a_val x) (a_subset x)) = snd (ctx_get b (a_val x) (a_subset x))).
  { unfold ctx_get. destruct (a_val x) as [|p0 p']; [reflexivity|].
    change (vars (w_bufX a VNil)) with (vars a). change (vars (w_bufX b VNil)) with (vars b).
    rewrite <- Hv. destruct (vars a) as [|v0 vs] eqn:Eva; [reflexivity|].
    destruct (split_path (p0 :: p')) as [|k rest]; [reflexivity|].
    destruct (find_var (v0 :: vs) k) as [[v i]|]; [|reflexivity].
    assert (Hg : ins_getto (w_bufX a VNil) i v rest = ins_getto (w_bufX b VNil) i v rest).
    { unfold ins_getto. destruct i; auto. destruct v; auto. simpl. rewrite Hs. reflexivity. }
    destruct v; try (destruct i; try (rewrite Hg; destruct (ins_getto (w_bufX b VNil) _ _ rest)); reflexivity). }
  rewrite G. destruct (snd (ctx_get b (a_val x) (a_subset x))); simpl; auto. rewrite Hl. reflexivity.
Qed.

(* C17: a call receives exactly the written arguments, in order, each one
   evaluated on its own -- earlier arguments do not influence later ones *)
Theorem collect_args_exact : forall l c acc,
  snd (collect_args c l acc) = rev acc ++ map (arg_value c) l /\
  (let c' := fst (collect_args c l acc) in
   vars c' = vars c /\ store c' = store c /\ bufLC c' = bufLC c /\ brkD c' = brkD c /\
   lenBB c' = lenBB c /\ trace c' = trace c /\ ncalls c' = ncalls c).
Proof.
  induction l as [|x l IH]; intros c acc; simpl.
  - rewrite app_nil_r. repeat split.
  - destruct (a_static x) eqn:Es.
    + destruct (IH c (VBytes (a_val x) :: acc)) as [H1 H2]. split; [|exact H2].
      rewrite H1. simpl. rewrite <- app_assoc. simpl. unfold arg_value at 2. rewrite Es. reflexivity.
    + pose proof (ctx_get_preserves c (a_val x) (a_subset x)) as P. simpl in P.
      destruct (ctx_get c (a_val x) (a_subset x)) as [c' v] eqn:Eg. simpl in P.
      destruct P as (Pv & Ps & Pl & Pb & Pn & Pt & Pc).
      destruct (IH c' (deref c' v :: acc)) as [H1 H2]. split.
      * rewrite H1. simpl. rewrite <- app_assoc. simpl. f_equal. f_equal.
        -- unfold arg_value. rewrite Es, Eg. simpl.
           destruct v; simpl; auto. rewrite Pl. reflexivity.
        -- apply map_ext. intro a0. apply arg_value_stable; auto.
      * destruct H2 as (Q1 & Q2 & Q3 & Q4 & Q5 & Q6 & Q7). repeat split; congruence.
Qed.
