(* InterpFacts.v -- facts about the loop drivers and the rule sequencer of
   Interp.v that hold for every rule semantics [fr] (so in particular for
   followRule at any fuel), and unfolding lemmas for [follow]. *)
From Coq Require Import List NArith ZArith Bool Lia String.
From Dec Require Import Bytes Strconv Crc Values Tree Interp.
Import ListNotations.

Local Arguments ctx_set : simpl never.

Definition is_signal (e : err) : bool :=
  match e with EBreak | ELBreak | ECont => true | _ => false end.

Section DRIVERS.
Variable fr : node -> ctx -> ctx * option err.

(* ------------------------------------------------------------- rules *)

Lemma rules_nil c : rules fr [] c = (c, None).
Proof. reflexivity. Qed.

Lemma rules_lz_cons_ok n r c c' lz : fr n c = (c', None) -> rules_lz fr (n :: r) c lz = rules_lz fr r c' lz.
Proof. intro H. simpl. rewrite H. reflexivity. Qed.

Lemma rules_cons_ok n r c c' : fr n c = (c', None) -> rules fr (n :: r) c = rules fr r c'.
Proof. apply rules_lz_cons_ok. Qed.

(* a lazybreak raised by a rule does not cut the block short *)
Lemma rules_lz_cons_lazy n r c c' lz :
  fr n c = (c', Some ELBreak) -> rules_lz fr (n :: r) c lz = rules_lz fr r c' true.
Proof. intro H. simpl. rewrite H. reflexivity. Qed.

(* a failing rule (or break / continue) stops the sequence: nothing that
   follows is executed *)
Lemma rules_lz_cons_err n r c c' e lz :
  fr n c = (c', Some e) -> e <> ELBreak -> e <> ECont -> rules_lz fr (n :: r) c lz = (c', Some e).
Proof. intros H N N2. simpl. rewrite H. destruct e; try reflexivity; congruence. Qed.

(* a continue ends the block; if a lazybreak was seen earlier in the block the
   iteration and the loop end together: the block reports a break *)
Lemma rules_lz_cons_cont n r c c' lz :
  fr n c = (c', Some ECont) -> rules_lz fr (n :: r) c lz = (c', if lz then Some EBreak else Some ECont).
Proof. intro H. simpl. rewrite H. reflexivity. Qed.

Lemma rules_cons_err n r c c' e :
  fr n c = (c', Some e) -> e <> ELBreak -> rules fr (n :: r) c = (c', Some e).
Proof. intros H N. unfold rules. simpl. rewrite H. destruct e; try reflexivity; congruence. Qed.

(* [l] runs to its end: every rule succeeds or asks for a lazybreak *)
Inductive block_clean : list node -> ctx -> bool -> ctx -> bool -> Prop :=
| bc_nil c lz : block_clean [] c lz c lz
| bc_none n l c c1 lz c2 lz2 :
    fr n c = (c1, None) -> block_clean l c1 lz c2 lz2 -> block_clean (n :: l) c lz c2 lz2
| bc_lazy n l c c1 lz c2 lz2 :
    fr n c = (c1, Some ELBreak) -> block_clean l c1 true c2 lz2 -> block_clean (n :: l) c lz c2 lz2.

Lemma rules_lz_app l1 : forall c lz c1 lz1 l2,
  block_clean l1 c lz c1 lz1 -> rules_lz fr (l1 ++ l2) c lz = rules_lz fr l2 c1 lz1.
Proof.
  induction l1 as [|m l1 IH]; intros c lz c1 lz1 l2 H; inversion H; subst; simpl.
  - reflexivity.
  - match goal with E : fr m c = _ |- _ => rewrite E end. apply IH. assumption.
  - match goal with E : fr m c = _ |- _ => rewrite E end. apply IH. assumption.
Qed.

(* the error of a sequence is the error of its first failing rule, and the
   rules after it do not matter *)
Lemma rules_err_prefix l1 n l2 l2' c c1 lz1 c2 e :
  block_clean l1 c false c1 lz1 -> fr n c1 = (c2, Some e) -> e <> ELBreak -> e <> ECont ->
  rules fr (l1 ++ n :: l2) c = (c2, Some e) /\ rules fr (l1 ++ n :: l2') c = (c2, Some e).
Proof.
  intros H1 H2 N N2. unfold rules. rewrite !(rules_lz_app l1 c false c1 lz1) by exact H1.
  split; apply rules_lz_cons_err; assumption.
Qed.

(* after a clean block the result is the remembered lazybreak, or nothing *)
Lemma rules_clean l c c1 lz1 :
  block_clean l c false c1 lz1 -> rules fr l c = (c1, if lz1 then Some ELBreak else None).
Proof.
  intro H. unfold rules. rewrite <- (app_nil_r l). rewrite (rules_lz_app l c false c1 lz1) by exact H.
  reflexivity.
Qed.

(* -------------------------------------------------------------- body *)

Lemma body_cons_none n r c c' lz : fr n c = (c', None) -> body fr (n :: r) c lz = body fr r c' lz.
Proof. intro H. simpl. rewrite H. reflexivity. Qed.

(* lazybreak: the iteration goes on, the request is remembered *)
Lemma body_cons_lazy n r c c' lz : fr n c = (c', Some ELBreak) -> body fr (n :: r) c lz = body fr r c' true.
Proof. intro H. simpl. rewrite H. reflexivity. Qed.

(* break: the rest of the iteration is abandoned *)
Lemma body_cons_break n r c c' lz : fr n c = (c', Some EBreak) -> body fr (n :: r) c lz = (c', BBreak).
Proof. intro H. simpl. rewrite H. reflexivity. Qed.

(* continue: the rest of the iteration is abandoned; an earlier lazybreak survives *)
Lemma body_cons_cont n r c c' lz :
  fr n c = (c', Some ECont) -> body fr (n :: r) c lz = (c', if lz then BLazy else BCont).
Proof. intro H. simpl. rewrite H. reflexivity. Qed.

(* any other error: the rest of the iteration is abandoned and the error kept *)
Lemma body_cons_fail n r c c' e lz :
  fr n c = (c', Some e) -> is_signal e = false -> body fr (n :: r) c lz = (c', BFail e).
Proof. intros H S. simpl. rewrite H. destruct e; simpl in S; try discriminate; reflexivity. Qed.

Lemma body_nil c lz : body fr [] c lz = (c, if lz then BLazy else BNone).
Proof. reflexivity. Qed.

(* [l] runs to its end without break / continue / failure *)
Inductive runs_clean : list node -> ctx -> bool -> ctx -> bool -> Prop :=
| rc_nil c lz : runs_clean [] c lz c lz
| rc_none n l c c1 lz c2 lz2 :
    fr n c = (c1, None) -> runs_clean l c1 lz c2 lz2 -> runs_clean (n :: l) c lz c2 lz2
| rc_lazy n l c c1 lz c2 lz2 :
    fr n c = (c1, Some ELBreak) -> runs_clean l c1 true c2 lz2 -> runs_clean (n :: l) c lz c2 lz2.

Lemma body_clean_prefix l1 : forall c lz c1 lz1 l2,
  runs_clean l1 c lz c1 lz1 -> body fr (l1 ++ l2) c lz = body fr l2 c1 lz1.
Proof.
  induction l1 as [|m l1 IH]; intros c lz c1 lz1 l2 H; inversion H; subst; simpl.
  - reflexivity.
  - match goal with E : fr m c = _ |- _ => rewrite E end. apply IH. assumption.
  - match goal with E : fr m c = _ |- _ => rewrite E end. apply IH. assumption.
Qed.

(* whatever follows a break / continue / failing rule is not executed *)
Theorem body_rest_irrelevant l1 n l2 l2' c lz c1 lz1 c2 e :
  runs_clean l1 c lz c1 lz1 -> fr n c1 = (c2, Some e) -> e <> ELBreak ->
  body fr (l1 ++ n :: l2) c lz = body fr (l1 ++ n :: l2') c lz.
Proof.
  intros H He Hne. rewrite !(body_clean_prefix l1 c lz c1 lz1) by exact H.
  simpl. rewrite He. destruct e; try reflexivity. congruence.
Qed.

(* A failing rule is reported as such by [body], and never as a loop signal *)
Lemma body_fail_not_signal l c lz c' e : body fr l c lz = (c', BFail e) -> is_signal e = false.
Proof.
  revert c lz. induction l as [|n l IH]; intros c lz H; simpl in H.
  - destruct lz; discriminate.
  - destruct (fr n c) as [c1 [x|]] eqn:E.
    + destruct x; try (inversion H; subst; reflexivity); try (eapply IH; eassumption).
      destruct lz; discriminate.
    + eapply IH; eassumption.
Qed.

(* ------------------------------------------------------ counter loops *)

(* Go's `for i := v; i OP lim; i STEP`: the values of i for which the body
   runs, at most [k] of them; int64 wrap-around is part of [step64] *)
Fixpoint go_seq (k : nat) (op step : Z) (v lim : Z) : list Z :=
  match k with
  | O => []
  | S k' =>
      match loop_allows op v lim, step64 step v with
      | Some true, Some v' => v :: go_seq k' op step v' lim
      | _, _ => []
      end
  end.

(* the counter cell is stepped and the counter variable pointed at it again *)
Definition step_cell (n : node) (c : ctx) (idx : nat) : ctx :=
  ctx_set (w_bufLC c (set_nth_l (bufLC c) idx
               (match step64 (loopCntOp n) (nth idx (bufLC c) 0%Z) with Some x => x | None => 0%Z end)))
          (loopCnt n) (VLC idx) InsStatic.

(* What the loop does, written over the list of counter values: one body
   execution per value, in order; a break / lazybreak or a pending break N ends
   it and consumes one level of the pending depth; a failing rule ends it with
   the error in ctx.Err. *)
Fixpoint run_iters (n : node) (idx : nat) (vs : list Z) (c : ctx) : ctx :=
  match vs with
  | [] => dec_brk c
  | _ :: rest =>
      if negb (Nat.eqb (brkD c) 0) then dec_brk c
      else
        let c := ctx_set c (loopCnt n) (VLC idx) InsStatic in
        let '(c, br) := body fr (child n) c false in
        match br with
        | BFail e => w_cerr c (Some e)
        | BBreak | BLazy => dec_brk (step_cell n c idx)
        | _ => run_iters n idx rest (step_cell n c idx)
        end
  end.

Definition valid_step (o : Z) : Prop := o = opInc \/ o = opDec.
Definition valid_cond (o : Z) : Prop :=
  o = opLt \/ o = opLtq \/ o = opGt \/ o = opGtq \/ o = opEq \/ o = opNq.

Lemma valid_step_some o v : valid_step o -> exists v', step64 o v = Some v'.
Proof. intros [->| ->]; unfold step64; simpl; eauto. Qed.

Lemma valid_cond_some o v lim : valid_cond o -> exists b, loop_allows o v lim = Some b.
Proof.
  intros [->|[->|[->|[->|[->| ->]]]]]; unfold loop_allows; simpl; eauto.
Qed.

(* C04, main statement: with a valid header and enough fuel for Go's loop to
   finish, the counter loop driver is [run_iters] over Go's counter sequence. *)
Theorem cloop_run_is_go_loop k : forall n idx v lim c,
  valid_cond (loopCondOp n) -> valid_step (loopCntOp n) ->
  List.length (go_seq k (loopCondOp n) (loopCntOp n) v lim) < k ->
  cloop_run fr k n idx v lim c =
  run_iters n idx (go_seq k (loopCondOp n) (loopCntOp n) v lim) c.
Proof.
  induction k as [|k IH]; intros n idx v lim c Hc Hs Hlen; [simpl in Hlen; lia|].
  destruct (valid_cond_some _ v lim Hc) as [b Hb].
  destruct (valid_step_some _ v Hs) as [v' Hv'].
  simpl. rewrite Hb. simpl in Hlen. rewrite Hb, Hv' in Hlen.
  destruct b; simpl.
  - rewrite Hv'. simpl. simpl in Hlen.
    destruct (Nat.eqb (brkD c) 0) eqn:Eb; simpl; [|reflexivity].
    destruct (body fr (child n) (ctx_set c (loopCnt n) (VLC idx) InsStatic) false) as [c1 br] eqn:Ebody.
    destruct br; try reflexivity.
    + (* BNone *) unfold step_cell. apply IH; auto. lia.
    + (* BCont *) unfold step_cell. apply IH; auto. lia.
  - reflexivity.
Qed.

(* a loop whose condition is false at entry executes nothing *)
Corollary cloop_false_at_entry k n idx v lim c :
  loop_allows (loopCondOp n) v lim = Some false -> brkD c = 0 ->
  cloop_run fr (S k) n idx v lim c = c.
Proof.
  intros H Hb. simpl. rewrite H. simpl. unfold dec_brk. rewrite Hb. reflexivity.
Qed.

(* a pending break N ends the enclosing counter loop before its next iteration
   and consumes one level *)
Lemma cloop_run_pending k n idx v lim c d :
  valid_cond (loopCondOp n) -> brkD c = S d ->
  cloop_run fr (S k) n idx v lim c = w_brkD c d.
Proof.
  intros Hc Hb. destruct (valid_cond_some _ v lim Hc) as [b Hl].
  simpl. rewrite Hl. rewrite Hb. simpl. rewrite andb_false_r. simpl.
  unfold dec_brk. rewrite Hb. reflexivity.
Qed.

(* what the loop variable reads at the start of each iteration *)
Fixpoint iter_reads (n : node) (idx : nat) (vs : list Z) (c : ctx) : list (Z * Z) :=
  match vs with
  | [] => []
  | z :: rest =>
      if negb (Nat.eqb (brkD c) 0) then []
      else
        let c0 := ctx_set c (loopCnt n) (VLC idx) InsStatic in
        let '(c1, br) := body fr (child n) c0 false in
        (z, nth idx (bufLC c0) 0%Z) ::
        match br with
        | BNone | BCont => iter_reads n idx rest (step_cell n c1 idx)
        | _ => []
        end
  end.

Lemma nth_set_nth_l_same {A} (l : list A) i x d : i < List.length l -> nth i (set_nth_l l i x) d = x.
Proof.
  revert i; induction l as [|y l IH]; intros [|i] H; simpl in *; try lia; auto. apply IH. lia.
Qed.

Lemma length_set_nth_l {A} (l : list A) i x : List.length (set_nth_l l i x) = List.length l.
Proof. revert i; induction l as [|y l IH]; intros [|i]; simpl; auto. Qed.

(* If the bodies leave the loop's own counter cell alone (they only ever append
   cells or touch their own), the loop variable reads Go's value of i in every
   iteration. *)
Theorem counter_reads_go_value k : forall n idx v lim c,
  valid_step (loopCntOp n) ->
  (forall c0 c1 br, body fr (child n) c0 false = (c1, br) ->
     idx < List.length (bufLC c0) ->
     nth idx (bufLC c1) 0%Z = nth idx (bufLC c0) 0%Z /\ idx < List.length (bufLC c1)) ->
  idx < List.length (bufLC c) -> nth idx (bufLC c) 0%Z = v ->
  Forall (fun p => fst p = snd p)
         (iter_reads n idx (go_seq k (loopCondOp n) (loopCntOp n) v lim) c).
Proof.
  induction k as [|k IH]; intros n idx v lim c Hs Hkeep Hlen Hv; simpl; [constructor|].
  destruct (loop_allows (loopCondOp n) v lim) as [[|]|]; try constructor.
  destruct (step64 (loopCntOp n) v) as [v'|] eqn:Ev; [|constructor].
  simpl. destruct (Nat.eqb (brkD c) 0); simpl; [|constructor].
  destruct (body fr (child n) (ctx_set c (loopCnt n) (VLC idx) InsStatic) false) as [c1 br] eqn:Eb.
  assert (Hc0 : bufLC (ctx_set c (loopCnt n) (VLC idx) InsStatic) = bufLC c) by reflexivity.
  destruct (Hkeep _ _ _ Eb) as [K1 K2]; [rewrite Hc0; exact Hlen|].
  constructor; [cbn [fst snd]; auto|].
  destruct br; try constructor.
  - apply IH; auto.
    + unfold step_cell; simpl. rewrite length_set_nth_l. exact K2.
    + unfold step_cell; simpl. rewrite nth_set_nth_l_same by exact K2.
      rewrite K1, Hc0, Hv, Ev. reflexivity.
  - apply IH; auto.
    + unfold step_cell; simpl. rewrite length_set_nth_l. exact K2.
    + unfold step_cell; simpl. rewrite nth_set_nth_l_same by exact K2.
      rewrite K1, Hc0, Hv, Ev. reflexivity.
Qed.

(* ------------------------------------------------------- range loops *)

(* once a range loop has been broken, the remaining elements run no rule: the
   result does not depend on the rule semantics at all *)
Lemma iterate_broken n c : iterate fr n c true = (c, true, true).
Proof. reflexivity. Qed.

(* a pending break N ends the enclosing range loop and consumes one level *)
Lemma iterate_pending n c d : brkD c = S d -> iterate fr n c false = (w_brkD c d, true, true).
Proof. intro H. unfold iterate. rewrite H. simpl. unfold dec_brk. rewrite H. reflexivity. Qed.

End DRIVERS.

Lemma vloop_broken_any fr fr' n xs : forall i c, vloop fr n xs i c true = vloop fr' n xs i c true.
Proof.
  induction xs as [|x xs IH]; intros i c; simpl; [reflexivity|]. apply IH.
Qed.

Lemma set_key_trace n c i : trace (set_key n c i) = trace c /\ ncalls (set_key n c i) = ncalls c.
Proof. unfold set_key. destruct (loopKey n); simpl; auto. Qed.

(* ... and no user function is called for them *)
Lemma vloop_broken_trace fr n xs : forall i c,
  trace (vloop fr n xs i c true) = trace c /\ ncalls (vloop fr n xs i c true) = ncalls c.
Proof.
  induction xs as [|x xs IH]; intros i c; simpl; [auto|].
  destruct (IH (S i) (ctx_set (set_key n c i) (loopVal n) (VNode x) InsVector)) as [H1 H2].
  rewrite H1, H2. simpl. apply set_key_trace.
Qed.

Lemma oloop_broken fr n oid sp cnt i c :
  cnt <> 0 ->
  oloop_run fr n oid sp cnt i c true =
  ctx_set (set_key n c i) (loopVal n) (VObj oid (sp ++ [format_int (Z.of_nat i)])) InsObj.
Proof. destruct cnt; [congruence|]. intros _. reflexivity. Qed.

(* ---------------------------------------------------- follow, unfolded *)

Section FOLLOWEQ.
Variable U : ufuns.

Lemma follow_0 r c : follow U 0 r c = (c, Some EFuel).
Proof. reflexivity. Qed.

Lemma follow_break f r c : typ r = typeBreak ->
  follow U (S f) r c = (w_brkD c (Z.to_nat (loopBrkD r)), Some EBreak).
Proof. intro H. simpl. rewrite H. reflexivity. Qed.

Lemma follow_lbreak f r c : typ r = typeLBreak ->
  follow U (S f) r c = (w_brkD c (Z.to_nat (loopBrkD r)), Some ELBreak).
Proof. intro H. simpl. rewrite H. reflexivity. Qed.

Lemma follow_continue f r c : typ r = typeContinue -> follow U (S f) r c = (c, Some ECont).
Proof. intro H. simpl. rewrite H. reflexivity. Qed.

Lemma follow_loopcount f r c : typ r = typeLoopCount ->
  follow U (S f) r c =
    (let p := brkD c in
     let c1 := cloop (follow U f) f r (w_brkD c 0) in
     let c2 := if Nat.ltb (brkD c1) p then w_brkD c1 p else c1 in
     (c2, cerr c2)).
Proof. intro H. simpl. rewrite H. reflexivity. Qed.

Lemma follow_looprange f r c : typ r = typeLoopRange ->
  follow U (S f) r c =
    (let p := brkD c in
     let c1 := rloop (follow U f) r (w_brkD c 0) in
     let c2 := if Nat.ltb (brkD c1) p then w_brkD c1 p else c1 in
     (c2, cerr c2)).
Proof. intro H. simpl. rewrite H. reflexivity. Qed.

Lemma follow_block f r c :
  typ r = typeCondTrue \/ typ r = typeCondFalse \/ typ r = typeCase \/ typ r = typeDefault ->
  follow U (S f) r c = rules (follow U f) (child r) c.
Proof. intros [H|[H|[H|H]]]; simpl; rewrite H; reflexivity. Qed.

Lemma follow_cond_plain f r c : typ r = typeCond -> condHlp r = [] ->
  follow U (S f) r c =
    (let '(c', b, e') := node_cmp c r in
     match cerr c' with
     | Some x => (c', Some x)
     | None => branch (follow U f) r c' b e'
     end).
Proof. intros H H2. simpl. rewrite H, H2. simpl. destruct (node_cmp c r) as [[c' b] e']. reflexivity. Qed.

Lemma follow_switch f r c : typ r = typeSwitch ->
  follow U (S f) r c =
    (let '(c', ok, e, early) :=
       match switchArg r with
       | _ :: _ => switch_classic (follow U f) r (child r) c false
       | [] => switch_nocond U (follow U f) (child r) c false
       end in
     if early then (c', e)
     else if ok then (c', e)
     else match first_default (child r) with
          | Some d => follow U f d c'
          | None => (c', e)
          end).
Proof. intro H. simpl. rewrite H. reflexivity. Qed.

Lemma follow_static_assign f r c :
  typ r = typeOperator -> callback r = false -> getter r = false ->
  nonempty (dst r) = true -> static r = true ->
  follow U (S f) r c =
    ctx_set_path U (w_lenBB c (S (lenBB c))) (dst r) (VBytes (src r)) (ins r).
Proof.
  intros H H1 H2 H3 H5. simpl. rewrite H, H1, H2, H3, H5. reflexivity.
Qed.

Lemma follow_callback f r c fn :
  typ r = typeOperator -> callback r = true -> u_cb U (src r) = Some fn ->
  follow U (S f) r c =
    (let '(c1, a) := collect_args c (args r) [] in
     let failed := match fn (ncalls c1) a with Some _ => true | None => false end in
     let '(c2, n) := log_call c1 (kind_of (bs "cb") failed) (src r) a in
     (c2, fn n a)).
Proof.
  intros H H1 H2. simpl. rewrite H, H1, H2.
  destruct (collect_args c (args r) []) as [c1 a]. reflexivity.
Qed.

End FOLLOWEQ.
