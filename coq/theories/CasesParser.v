(* CasesParser.v -- evaluator for parser correspondence cases: rule texts with
   the error class or the serialised tree the real Parse produced. *)
From Coq Require Import List NArith ZArith Bool String.
From Dec Require Import Bytes Strconv Tree Parser.
Import ListNotations.

Definition ser_nat (n : nat) : bytes := format_int (Z.of_nat n).
Definition ser_bytes (b : bytes) : bytes := ser_nat (List.length b) ++ [58%N] ++ b.
Definition ser_bool (b : bool) : bytes := if b then [116%N] else [102%N].
Definition ser_z (z : Z) : bytes := format_int z ++ [59%N].
Definition ser_list {A} (f : A -> bytes) (l : list A) : bytes :=
  ser_nat (List.length l) ++ [91%N] ++ List.concat (map f l) ++ [93%N].

Definition ser_arg (a : arg) : bytes :=
  [65%N] ++ ser_bytes (a_val a) ++ ser_list ser_bytes (a_subset a) ++ ser_bool (a_static a).
Definition ser_mod (m : modn) : bytes := [77%N] ++ ser_bytes (m_id m) ++ ser_list ser_arg (m_arg m).

Fixpoint ser_node (n : node) : bytes :=
  [78%N] ++ ser_z (typ n) ++ ser_bytes (dst n) ++ ser_bytes (src n) ++ ser_bytes (ins n) ++
  ser_list ser_bytes (subset n) ++ ser_bool (getter n) ++ ser_bool (callback n) ++ ser_bool (static n) ++
  ser_list ser_mod (mods n) ++ ser_list ser_arg (args n) ++
  (ser_nat (List.length (child n)) ++ [91%N] ++
   (fix go (l : list node) : bytes := match l with [] => [] | x :: r => ser_node x ++ go r end) (child n) ++ [93%N]) ++
  ser_bytes (loopKey n) ++ ser_bytes (loopVal n) ++ ser_bytes (loopSrc n) ++ ser_bytes (loopCnt n) ++
  ser_bytes (loopCntInit n) ++ ser_bool (loopCntStatic n) ++ ser_z (loopCntOp n) ++ ser_z (loopCondOp n) ++
  ser_bytes (loopLim n) ++ ser_bool (loopLimStatic n) ++ ser_z (loopBrkD n) ++
  ser_bytes (condL n) ++ ser_bytes (condOKL n) ++ ser_bytes (condR n) ++ ser_bytes (condOKR n) ++
  ser_bool (condStaticL n) ++ ser_bool (condStaticR n) ++ ser_z (condOp n) ++ ser_bytes (condHlp n) ++
  ser_list ser_arg (condHlpArg n) ++ ser_bytes (condIns n) ++ ser_z (condLC n) ++ ser_bytes (switchArg n) ++
  ser_bytes (caseL n) ++ ser_bytes (caseR n) ++ ser_bool (caseStaticL n) ++ ser_bool (caseStaticR n) ++
  ser_z (caseOp n) ++ ser_bytes (caseHlp n) ++ ser_list ser_arg (caseHlpArg n).

Definition ser_nodes (l : list node) : bytes := ser_list ser_node l.

Definition mk_names (gs ms cs : list bytes) : names :=
  mkNames (fun b => existsb (bytes_eqb b) gs) (fun b => existsb (bytes_eqb b) ms) (fun b => existsb (bytes_eqb b) cs).

(* (text, observed error class, observed serialised tree when there was no error) *)
Definition parsecase := (bytes * option perror * bytes)%type.

Definition opt_perror_eqb (a b : option perror) : bool :=
  match a, b with
  | None, None => true
  | Some x, Some y => perror_eqb x y
  | _, _ => false
  end.

Definition parsecase_ok (NM : names) (c : parsecase) : bool :=
  let '(src, e, ser) := c in
  let '(ns, e') := parse_pure NM src in
  opt_perror_eqb e e' && match e with None => bytes_eqb (ser_nodes ns) ser | Some _ => true end.

Fixpoint pc_mis_from (NM : names) (i : nat) (cs : list parsecase) : list nat :=
  match cs with
  | [] => []
  | c :: r => if parsecase_ok NM c then pc_mis_from NM (S i) r else i :: pc_mis_from NM (S i) r
  end.
Definition mismatches (NM : names) := pc_mis_from NM 0.

(* ---- histories of Parse / Register* for C20 ---- *)
From Dec Require Import Db.

Inductive hop :=
| HParse (src : bytes)                       (* Parse(text); its result gets the next index *)
| HRegKey (key : bytes) (res : nat)          (* RegisterDecoderKey(key, tree of parse #res) *)
| HRegID (id : Z) (res : nat)
| HRegBoth (id : Z) (key : bytes) (res : nat).

(* observed: for every HParse, error class and serialised tree *)
Definition hcase := (list hop * list (option perror * bytes))%type.

Fixpoint run_hist (NM : names) (d : db tree) (res : list tree) (ops : list hop)
  : list (option perror * bytes) :=
  match ops with
  | [] => []
  | HParse src :: r =>
      let '(t, e) := parse_api NM d src in
      (e, ser_nodes (t_nodes t)) :: run_hist NM d (res ++ [t]) r
  | HRegKey k i :: r =>
      match nth_error res i with
      | Some t => run_hist NM (set tree t_hsum t_src d (-1)%Z k t) res r
      | None => run_hist NM d res r
      end
  | HRegID id i :: r =>
      match nth_error res i with
      | Some t => run_hist NM (set tree t_hsum t_src d id nokey t) res r
      | None => run_hist NM d res r
      end
  | HRegBoth id k i :: r =>
      match nth_error res i with
      | Some t => run_hist NM (set tree t_hsum t_src d id k t) res r
      | None => run_hist NM d res r
      end
  end.

Fixpoint obs_list_eqb (a b : list (option perror * bytes)) : bool :=
  match a, b with
  | [], [] => true
  | (e, s) :: a', (e', s') :: b' =>
      opt_perror_eqb e e' && (match e with None => bytes_eqb s s' | Some _ => true end) && obs_list_eqb a' b'
  | _, _ => false
  end.

Definition hcase_ok (NM : names) (c : hcase) : bool :=
  let '(ops, obs) := c in obs_list_eqb (run_hist NM initDB [] ops) obs.

Fixpoint hc_mis_from (NM : names) (i : nat) (cs : list hcase) : list nat :=
  match cs with
  | [] => []
  | c :: r => if hcase_ok NM c then hc_mis_from NM (S i) r else i :: hc_mis_from NM (S i) r
  end.
Definition hmismatches (NM : names) := hc_mis_from NM 0.
