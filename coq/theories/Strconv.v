(* Strconv.v -- Gallina re-implementations of the Go strconv functions (and
   three anchored numeric regexps) that the decoder model needs.
   Definitions only; facts are in proofs/StrconvFacts.v; differential tests
   against the real Go functions are in harness/cmd/sctest.
   Stdlib only. *)
From Coq Require Import List NArith ZArith Bool.
From Dec Require Import Bytes.
Import ListNotations.
Local Open Scope N_scope.

Inductive perr := ESyntax | ERange.

(* ------------------------------------------------------------------ *)
(* character classes                                                  *)

(* '0' <= c <= '9' *)
Definition is_digit (c : N) : bool := (48 <=? c) && (c <=? 57).

(* Go: digit value of c in ParseUint. Go computes lower(c) = c | 0x20 and
   tests 'a' <= lower(c) <= 'z'; on bytes this is exactly "c is an ASCII
   letter", which is what is written here (proof friendly). *)
Definition digit_val (c : N) : option N :=
  if is_digit c then Some (c - 48)
  else if (97 <=? c) && (c <=? 122) then Some (c - 87)
  else if (65 <=? c) && (c <=? 90) then Some (c - 55)
  else None.

(* lower(c) == x for a lower-case ASCII letter x *)
Definition lower_is (c x : N) : bool := (c =? x) || (c =? x - 32).

Definition is_hexletter (c : N) : bool :=
  ((97 <=? c) && (c <=? 102)) || ((65 <=? c) && (c <=? 70)).

Definition is_sign (c : N) : bool := (c =? 43) || (c =? 45).

(* ------------------------------------------------------------------ *)
(* ParseUint / ParseInt                                               *)

Definition maxU64 : N := 18446744073709551615.
Definition two63 : N := 9223372036854775808.

(* The digit loop of strconv.ParseUint with bitSize 64.
   [co] is Go's cutoff = maxUint64/base + 1; [us] is the "underscores" flag.
   Errors are returned at the first offending byte, as in Go (so a range
   error can hide a later syntax error). *)
Fixpoint uloop (base co : N) (base0 : bool) (s : bytes) (n : N) (us : bool)
  : (N * bool) + perr :=
  match s with
  | [] => inl (n, us)
  | c :: r =>
      if (c =? 95) && base0 then uloop base co base0 r n true else
      match digit_val c with
      | None => inr ESyntax
      | Some d =>
          if base <=? d then inr ESyntax
          else if co <=? n then inr ERange
          else let n1 := n * base + d in
               if maxU64 <? n1 then inr ERange
               else uloop base co base0 r n1 us
      end
  end.

(* strconv.underscoreOK *)
Inductive saw := SawStart | SawDigit | SawUnder | SawOther.

Fixpoint uok_loop (hex : bool) (s : bytes) (sw : saw) : bool :=
  match s with
  | [] => match sw with SawUnder => false | _ => true end
  | c :: r =>
      if is_digit c || (hex && is_hexletter c) then uok_loop hex r SawDigit
      else if c =? 95 then
        match sw with SawDigit => uok_loop hex r SawUnder | _ => false end
      else
        match sw with SawUnder => false | _ => uok_loop hex r SawOther end
  end.

Definition underscore_ok (s : bytes) : bool :=
  let s1 := match s with
            | c :: r => if is_sign c then r else s
            | [] => s
            end in
  match s1 with
  | c0 :: c1 :: r =>
      if (c0 =? 48) && (lower_is c1 98 || lower_is c1 111 || lower_is c1 120)
      then uok_loop (lower_is c1 120) r SawDigit
      else uok_loop false s1 SawStart
  | _ => uok_loop false s1 SawStart
  end.

(* strconv.ParseUint(s, base, 64) for base = 10 ([base0] = false) and
   base = 0 ([base0] = true). *)
Definition parse_uint_gen (base0 : bool) (s : bytes) : N + perr :=
  match s with
  | [] => inr ESyntax
  | c0 :: r0 =>
      let '(base, body) :=
        if base0 && (c0 =? 48) then
          match r0 with
          | c1 :: ((_ :: _) as r1) =>
              if lower_is c1 98 then (2, r1)
              else if lower_is c1 111 then (8, r1)
              else if lower_is c1 120 then (16, r1)
              else (8, r0)
          | _ => (8, r0)
          end
        else (10, s) in
      match uloop base (maxU64 / base + 1) base0 body 0 false with
      | inr e => inr e
      | inl (n, us) =>
          if us && negb (underscore_ok s) then inr ESyntax else inl n
      end
  end.

(* strconv.ParseInt(s, base, 64). When ParseUint reports a range error Go
   continues with un = maxUint64, which always ends in a range error. *)
Definition parse_int_gen (base0 : bool) (s : bytes) : Z + perr :=
  match s with
  | [] => inr ESyntax
  | c :: r =>
      let neg := c =? 45 in
      let body := if is_sign c then r else s in
      match parse_uint_gen base0 body with
      | inr e => inr e
      | inl un =>
          if neg then
            if two63 <? un then inr ERange else inl (- Z.of_N un)%Z
          else
            if two63 <=? un then inr ERange else inl (Z.of_N un)
      end
  end.

Definition lift_u (r : N + perr) : Z + perr :=
  match r with inl n => inl (Z.of_N n) | inr e => inr e end.

(* strconv.ParseInt(s, 10, 64) *)
Definition parse_int10 (s : bytes) : Z + perr := parse_int_gen false s.
(* strconv.ParseUint(s, 10, 64) *)
Definition parse_uint10 (s : bytes) : Z + perr := lift_u (parse_uint_gen false s).
(* strconv.ParseInt(s, 0, 0) on a 64-bit platform *)
Definition parse_int0 (s : bytes) : Z + perr := parse_int_gen true s.
(* strconv.ParseUint(s, 0, 0) on a 64-bit platform *)
Definition parse_uint0 (s : bytes) : Z + perr := lift_u (parse_uint_gen true s).

(* ------------------------------------------------------------------ *)
(* ParseBool                                                          *)

Definition parse_bool (s : bytes) : option bool :=
  if bytes_eqb s [49] || bytes_eqb s [116] || bytes_eqb s [84]
     || bytes_eqb s [84;82;85;69] || bytes_eqb s [116;114;117;101]
     || bytes_eqb s [84;114;117;101] then Some true
  else if bytes_eqb s [48] || bytes_eqb s [102] || bytes_eqb s [70]
     || bytes_eqb s [70;65;76;83;69] || bytes_eqb s [102;97;108;115;101]
     || bytes_eqb s [70;97;108;115;101] then Some false
  else None.

(* ------------------------------------------------------------------ *)
(* FormatInt / FormatUint, base 10                                    *)

(* decimal digits of n, most significant first; fuel must exceed the
   number of bits of n (see [format_N]). *)
Fixpoint digs (fuel : nat) (n : N) : bytes :=
  match fuel with
  | O => []
  | S f => (if n <? 10 then [] else digs f (n / 10)) ++ [48 + n mod 10]
  end.

Definition format_N (n : N) : bytes := digs (S (N.to_nat (N.size n))) n.

(* strconv.FormatUint(z, 10) for 0 <= z (Go: z < 2^64) *)
Definition format_uint (z : Z) : bytes := format_N (Z.to_N z).

(* strconv.FormatInt(z, 10) *)
Definition format_int (z : Z) : bytes :=
  if (z <? 0)%Z then 45 :: format_N (Z.to_N (- z)) else format_N (Z.to_N z).

(* ------------------------------------------------------------------ *)
(* anchored numeric regexps (\d = ASCII digit; $ = end of text)       *)

Definition all_digits (s : bytes) : bool := forallb is_digit s.
(* \d+ up to the end of the text *)
Definition all_digits1 (s : bytes) : bool :=
  match s with [] => false | _ => all_digits s end.

(* ^[-+]?\d+$ *)
Definition is_int_re (s : bytes) : bool :=
  match s with
  | [] => false
  | c :: r => if is_sign c then all_digits1 r else all_digits1 s
  end.

(* ^[+]?\d+$ *)
Definition is_uint_re (s : bytes) : bool :=
  match s with
  | [] => false
  | c :: r => if c =? 43 then all_digits1 r else all_digits1 s
  end.

(* drop leading digits *)
Fixpoint skip_digits (s : bytes) : bytes :=
  match s with
  | c :: r => if is_digit c then skip_digits r else s
  | [] => []
  end.

(* ([eE][-+]?\d+)?$ *)
Definition exp_tail (s : bytes) : bool :=
  match s with
  | [] => true
  | c :: r =>
      if (c =? 101) || (c =? 69) then
        match r with
        | c' :: r' => if is_sign c' then all_digits1 r' else all_digits1 r
        | [] => false
        end
      else false
  end.

(* ^[-+]?\d*\.?\d+([eE][-+]?\d+)?$
   The mantissa \d*\.?\d+ is either \d+ or \d*\.\d+ . *)
Definition is_float_re (s : bytes) : bool :=
  let s1 := match s with
            | c :: r => if is_sign c then r else s
            | [] => s
            end in
  let r1 := skip_digits s1 in
  match r1 with
  | c :: r =>
      if c =? 46 then
        (* \d* . \d+ *)
        let r2 := skip_digits r in
        negb (Nat.eqb (List.length r2) (List.length r)) && exp_tail r2
      else
        negb (Nat.eqb (List.length r1) (List.length s1)) && exp_tail r1
  | [] => negb (Nat.eqb (List.length s1) 0)
  end.

(* ------------------------------------------------------------------ *)
(* integer conversions                                                *)

Local Open Scope Z_scope.

(* Go conversion to uintN: keep the low [bits] bits *)
Definition wrap_uint (bits : N) (z : Z) : Z := z mod 2 ^ Z.of_N bits.

(* Go conversion to intN: two's complement narrowing *)
Definition wrap_int (bits : N) (z : Z) : Z :=
  let m := 2 ^ Z.of_N bits in
  let r := z mod m in
  if 2 * r <? m then r else r - m.
