(* CasesPool.v -- evaluator for pool-discipline correspondence cases (C14):
   histories of AcquireFrom / Reset / recycle-through-CtxPool over a few
   contexts and named counting pools, with the log of Get / Reset / Put events
   the real pools recorded. *)
From Coq Require Import List NArith ZArith Bool String.
From Dec Require Import Bytes Pool.
Import ListNotations.

Definition pevent_eqb (a b : pevent) : bool :=
  match a, b with
  | PGet k o, PGet k' o' | PReset k o, PReset k' o' | PPut k o, PPut k' o' => bytes_eqb k k' && Nat.eqb o o'
  | _, _ => false
  end.

Fixpoint plist_eqb (a b : list pevent) : bool :=
  match a, b with
  | [], [] => true
  | x :: a', y :: b' => pevent_eqb x y && plist_eqb a' b'
  | _, _ => false
  end.

(* (pool names, number of contexts, operations, observed log oldest first) *)
Definition pcase := (list bytes * nat * list pop * list pevent)%type.

Definition pcase_ok (c : pcase) : bool :=
  let '(names, n, ops, lg) := c in
  plist_eqb (rev (plog (prun names n ops))) lg.

Fixpoint pmis_from (i : nat) (cs : list pcase) : list nat :=
  match cs with
  | [] => []
  | c :: r => if pcase_ok c then pmis_from (S i) r else i :: pmis_from (S i) r
  end.
Definition mismatches := pmis_from 0.
