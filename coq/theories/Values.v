(* Values.v -- the data the interpreter works on: JSON documents (vector
   nodes), Go values that travel through `any`, struct objects behind
   inspc-generated inspectors, and the canonical rendering used to compare
   observables with the implementation. *)
From Coq Require Import List NArith ZArith Bool String Ascii Lia.
From Dec Require Import Bytes Strconv.
Import ListNotations.


(* ------------------------------------------------------------------ JSON *)

Inductive json :=
| JAbsent                     (* vector's shared null node: what Get returns for a missing child *)
| JNull                       (* a null written in the document *)
| JBool (b : bool)
| JNum (t : bytes)            (* the number's text, as jsonvector keeps it *)
| JStr (t : bytes)            (* raw text between the quotes *)
| JArr (xs : list json)
| JObj (kvs : list (bytes * json)).

Fixpoint assoc_b {A} (k : bytes) (l : list (bytes * A)) : option A :=
  match l with
  | [] => None
  | (k', v) :: r => if bytes_eqb k k' then Some v else assoc_b k r
  end.

(* strconv.Atoi of an array index: plain base-10 int *)
Definition atoi_idx (k : bytes) : option nat :=
  match parse_int10 k with
  | inl z => if Z.leb 0 z then Some (Z.to_nat z) else None
  | inr _ => None
  end.

(* vector.Node.Get (keys...) for in-range indexes; an absent child is the null
   node.  (Out-of-range indexes on arrays that are not the first of their depth
   read foreign entries in the dependency: known finding D25, never generated.) *)
Fixpoint jget (j : json) (keys : list bytes) : json :=
  match keys with
  | [] => j
  | k :: ks =>
      match j with
      | JObj kvs => match assoc_b k kvs with Some c => jget c ks | None => JAbsent end
      | JArr xs =>
          match atoi_idx k with
          | Some i => match nth_error xs i with Some c => jget c ks | None => JAbsent end
          | None => JAbsent
          end
      | _ => JAbsent
      end
  end.

Definition jis_null (j : json) : bool := match j with JNull | JAbsent => true | _ => false end.

(* Node.Bytes(): only string, number, bool *)
Definition jbytes (j : json) : bytes :=
  match j with
  | JStr t => t
  | JNum t => t
  | JBool true => bs "true"
  | JBool false => bs "false"
  | _ => []
  end.

(* Node.Bool(): only TypeBool *)
Definition jbool (j : json) : bool := match j with JBool b => b | _ => false end.

(* Node.Int()/Uint(): only TypeNum, errors ignored by the callers that matter *)
Definition jint (j : json) : option Z :=
  match j with JNum t => match parse_int10 t with inl z => Some z | inr _ => None end | _ => None end.
Definition juint (j : json) : option Z :=
  match j with JNum t => match parse_uint10 t with inl z => Some z | inr _ => None end | _ => None end.

(* children visited by Node.Each, in order *)
Definition jchildren (j : json) : list json :=
  match j with
  | JArr xs => xs
  | JObj kvs => map snd kvs
  | _ => []
  end.

(* ------------------------------------------------------------ Go values *)

Inductive val :=
| VNil
| VNode (j : json)                 (* *vector.Node *)
| VBytes (b : bytes)               (* []byte or *[]byte *)
| VStr (b : bytes)                 (* string or *string *)
| VBool (b : bool)
| VInt (z : Z)                     (* any signed integer kind, by value or pointer *)
| VUint (z : Z)
| VFloat (t : bytes)               (* float32/float64: decimal text *)
| VLC (idx : nat)                  (* *int64 pointing at counter cell bufLC[idx] *)
| VObj (oid : nat) (prefix : list bytes)   (* pointer to a struct (or slice element) *)
| VOther.                          (* any other Go value: opaque *)

(* ------------------------------------------------------- struct objects *)

Inductive fval :=
| FStr (b : bytes)
| FBytes (b : bytes)
| FBool (b : bool)
| FInt (bits : N) (z : Z)
| FUint (bits : N) (z : Z)
| FFloat (bits : N) (t : bytes).

Inductive obj :=
| Obj (fields : list (bytes * fval)) (subs : list (bytes * obj)) (slices : list (bytes * list obj)).

Definition o_fields (o : obj) := let 'Obj f _ _ := o in f.
Definition o_subs (o : obj) := let 'Obj _ s _ := o in s.
Definition o_slices (o : obj) := let 'Obj _ _ l := o in l.

(* strconv.ParseInt(idx, 0, 0) for slice indexes *)
Inductive idxres := IdxOk (i : nat) | IdxNeg | IdxErr (e : perr).
Definition parse_idx (k : bytes) : idxres :=
  match parse_int0 k with
  | inl z => if Z.leb 0 z then IdxOk (Z.to_nat z) else IdxNeg
  | inr e => IdxErr e
  end.

(* Result of resolving a path inside an object *)
Inductive oref :=
| RField (v : fval)           (* a scalar field: GetTo yields a pointer to it *)
| RObj (rel : list bytes)     (* a struct reached by the path [rel] (slice element or the object itself) *)
| ROther                      (* pointer to a sub-struct pointer, to a slice, ... *)
| RNone                       (* unknown name: the buffer is left untouched *)
| RErr (e : perr).            (* index does not parse *)

Fixpoint oresolve (fuel : nat) (o : obj) (path : list bytes) : oref :=
  match fuel with
  | O => ROther
  | S f =>
    match path with
    | [] => RObj []
    | p :: rest =>
        match assoc_b p (o_fields o) with
        | Some v => RField v
        | None =>
            match assoc_b p (o_subs o) with
            | Some s =>
                match rest with
                | [] => ROther
                | _ =>
                    match oresolve f s rest with
                    | RObj rel => RObj (p :: rel)
                    | RNone => ROther   (* falls through to "*buf = &x.Sub" *)
                    | r => r
                    end
                end
            | None =>
                match assoc_b p (o_slices o) with
                | Some elems =>
                    match rest with
                    | [] => ROther
                    | i :: rest' =>
                        match parse_idx i with
                        | IdxErr e => RErr e
                        | IdxNeg => ROther
                        | IdxOk n =>
                            match nth_error elems n with
                            | None => ROther
                            | Some e =>
                                match rest' with
                                | [] => ROther
                                | _ =>
                                    match oresolve f e rest' with
                                    | RField v => RField v
                                    | RErr x => RErr x
                                    | _ => ROther
                                    end
                                end
                            end
                        end
                    end
                | None => RNone
                end
            end
        end
    end
  end.

(* functional update of the scalar field a path denotes *)
Fixpoint set_assoc {A} (k : bytes) (v : A) (l : list (bytes * A)) : list (bytes * A) :=
  match l with
  | [] => []
  | (k', x) :: r => if bytes_eqb k k' then (k', v) :: r else (k', x) :: set_assoc k v r
  end.

Fixpoint set_nth_l {A} (l : list A) (n : nat) (x : A) : list A :=
  match l, n with
  | [], _ => []
  | _ :: r, O => x :: r
  | y :: r, S n' => y :: set_nth_l r n' x
  end.

Fixpoint oupdate (fuel : nat) (o : obj) (path : list bytes) (nv : fval) : obj :=
  match fuel with
  | O => o
  | S f =>
    match path with
    | [] => o
    | p :: rest =>
        match assoc_b p (o_fields o) with
        | Some _ => Obj (set_assoc p nv (o_fields o)) (o_subs o) (o_slices o)
        | None =>
            match assoc_b p (o_subs o) with
            | Some s => Obj (o_fields o) (set_assoc p (oupdate f s rest nv) (o_subs o)) (o_slices o)
            | None =>
                match assoc_b p (o_slices o), rest with
                | Some elems, i :: rest' =>
                    match parse_idx i with
                    | IdxOk n =>
                        match nth_error elems n with
                        | Some e => Obj (o_fields o) (o_subs o)
                                        (set_assoc p (set_nth_l elems n (oupdate f e rest' nv)) (o_slices o))
                        | None => o
                        end
                    | _ => o
                    end
                | _, _ => o
                end
            end
        end
    end
  end.

(* the elements a Loop over the path visits: (index, relative path of element) *)
Fixpoint oloop (fuel : nat) (o : obj) (path : list bytes) : option (list bytes * nat) :=
  (* returns the path of the slice and its length *)
  match fuel with
  | O => None
  | S f =>
    match path with
    | [] => None
    | p :: rest =>
        match assoc_b p (o_subs o) with
        | Some s => match oloop f s rest with Some (q, n) => Some (p :: q, n) | None => None end
        | None =>
            match assoc_b p (o_slices o) with
            | Some elems => Some ([p], List.length elems)
            | None => None
            end
        end
    end
  end.

(* -------------------------------------------------------- decimal texts *)

(* Canonical form of a plain decimal "[-]d*[.d*]" as strconv.FormatFloat(f,'f',-1,64)
   prints the double it denotes (exact for the short literals the generators use):
   no leading zeros, no trailing zeros in the fraction, no trailing point. *)
Definition c0 : N := 48.
Fixpoint strip_lead0 (s : bytes) : bytes :=
  match s with
  | x :: r => if N.eqb x c0 then strip_lead0 r else s
  | [] => []
  end.
Definition strip_trail0 (s : bytes) : bytes := rev (strip_lead0 (rev s)).

Definition split_dot (s : bytes) : bytes * bytes :=
  match index_byte 46 s with
  | Some i => (firstn i s, skipn (S i) s)
  | None => (s, [])
  end.

Definition norm_dec (s : bytes) : bytes :=
  let '(neg, s1) := match s with
                    | 45 :: r => (true, r)
                    | 43 :: r => (false, r)
                    | _ => (false, s)
                    end%N in
  let '(ip, fp) := split_dot s1 in
  let ip' := match strip_lead0 ip with [] => [c0] | x => x end in
  let fp' := strip_trail0 fp in
  let body := match fp' with [] => ip' | _ => ip' ++ [46%N] ++ fp' end in
  let zero := match fp' with [] => bytes_eqb ip' [c0] | _ => false end in
  if neg && negb zero then 45%N :: body else body.

(* comparison of two non-negative plain decimals (after normalisation) *)
Fixpoint pad_right (s : bytes) (n : nat) : bytes :=
  match n with O => s | S n' => match s with [] => c0 :: pad_right [] n' | x :: r => x :: pad_right r n' end end.

Definition dec_cmp_nonneg (a b : bytes) : comparison :=
  let '(ia, fa) := split_dot a in
  let '(ib, fb) := split_dot b in
  let ia := strip_lead0 ia in let ib := strip_lead0 ib in
  match Nat.compare (List.length ia) (List.length ib) with
  | Eq =>
      match bytes_cmp ia ib with
      | Eq => let n := Nat.max (List.length fa) (List.length fb) in bytes_cmp (pad_right fa n) (pad_right fb n)
      | c => c
      end
  | c => c
  end.

Definition dec_neg (s : bytes) : bool * bytes :=
  match s with
  | 45%N :: r => (true, r)
  | 43%N :: r => (false, r)
  | _ => (false, s)
  end.

Definition dec_cmp (a b : bytes) : comparison :=
  let '(na, a') := dec_neg (norm_dec a) in
  let '(nb, b') := dec_neg (norm_dec b) in
  match na, nb with
  | false, false => dec_cmp_nonneg a' b'
  | true, true => dec_cmp_nonneg b' a'
  | true, false => Lt
  | false, true => Gt
  end.

(* is the text a plain decimal the model knows how to treat as a float? *)
Fixpoint all_digits_b (s : bytes) : bool :=
  match s with [] => true | x :: r => (N.leb 48 x && N.leb x 57) && all_digits_b r end.
Definition is_plain_dec (s : bytes) : bool :=
  let '(_, s1) := dec_neg s in
  let '(ip, fp) := split_dot s1 in
  all_digits_b ip && all_digits_b fp && negb (Nat.eqb (List.length ip + List.length fp) 0).

(* --------------------------------------------------- canonical rendering *)

Definition render_nat (n : nat) : bytes := format_int (Z.of_nat n).

Definition render_json (j : json) : bytes :=
  match j with
  | JNull | JAbsent => bs "null"
  | JBool true => bs "b:true"
  | JBool false => bs "b:false"
  | JNum t => bs "num:" ++ t
  | JStr t => bs "str:" ++ t
  | JArr xs => bs "arr:" ++ render_nat (List.length xs)
  | JObj kvs => bs "obj:" ++ render_nat (List.length kvs)
  end.

Definition render_fval (v : fval) : bytes :=
  match v with
  | FStr b => bs "S:" ++ b
  | FBytes b => bs "B:" ++ b
  | FBool true => bs "bool:true"
  | FBool false => bs "bool:false"
  | FInt _ z => bs "i:" ++ format_int z
  | FUint _ z => bs "u:" ++ format_uint z
  | FFloat _ t => bs "f:" ++ t
  end.
