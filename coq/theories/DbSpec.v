(* DbSpec.v -- the abstract registry C12 speaks about: a partial map from ids
   and keys to trees plus the pairing made by RegisterDecoder. Short enough to
   read in a minute; nothing here mentions slots or indexes. *)
From Coq Require Import List NArith ZArith Bool Lia.
From Dec Require Import Bytes Db.
Import ListNotations.

Section SPEC.
Variable T : Type.

Record spec := {
  mI : Z -> option T;          (* tree an id denotes *)
  mK : bytes -> option T;      (* tree a key denotes *)
  pK : Z -> option bytes;      (* the key an id has been paired with *)
  pI : bytes -> option Z;      (* the id a key has been paired with *)
}.

Definition spec_init : spec :=
  {| mI := fun _ => None; mK := fun _ => None; pK := fun _ => None; pI := fun _ => None |}.

Definition opt_is_key (o : option bytes) (k : bytes) : bool :=
  match o with Some x => bytes_eqb x k | None => false end.
Definition opt_is_id (o : option Z) (i : Z) : bool :=
  match o with Some x => Z.eqb x i | None => false end.

Definition spec_apply (s : spec) (o : regop T) : spec :=
  match o with
  | RegBoth id key t =>
      {| mI := fun x => if Z.eqb x id then Some t else mI s x;
         mK := fun x => if bytes_eqb x key then Some t else mK s x;
         pK := fun x => if Z.eqb x id then Some key else pK s x;
         pI := fun x => if bytes_eqb x key then Some id else pI s x |}
  | RegID id t =>
      {| mI := fun x => if Z.eqb x id then Some t else mI s x;
         mK := fun x => if opt_is_key (pK s id) x then Some t else mK s x;
         pK := pK s; pI := pI s |}
  | RegKey key t =>
      {| mI := fun x => if opt_is_id (pI s key) x then Some t else mI s x;
         mK := fun x => if bytes_eqb x key then Some t else mK s x;
         pK := pK s; pI := pI s |}
  end.

(* The histories the property quantifies over: non-negative ids, keys other
   than "-1", and an identifier that has been paired is never registered
   together with a different partner. *)
Definition valid_op (s : spec) (o : regop T) : Prop :=
  match o with
  | RegBoth id key _ =>
      (0 <= id)%Z /\ key <> nokey /\
      (pK s id = None \/ pK s id = Some key) /\
      (pI s key = None \/ pI s key = Some id)
  | RegID id _ => (0 <= id)%Z
  | RegKey key _ => key <> nokey
  end.

Fixpoint valid_hist (s : spec) (ops : list (regop T)) : Prop :=
  match ops with
  | [] => True
  | o :: r => valid_op s o /\ valid_hist (spec_apply s o) r
  end.

Definition spec_run (ops : list (regop T)) : spec := fold_left spec_apply ops spec_init.

Definition spec_fb (s : spec) (k fb : bytes) : option T :=
  match mK s k with Some t => Some t | None => mK s fb end.

(* executable validity check, used by the correspondence harness *)
Definition opt_none_or_key (o : option bytes) (k : bytes) : bool :=
  match o with None => true | Some x => bytes_eqb x k end.
Definition opt_none_or_id (o : option Z) (i : Z) : bool :=
  match o with None => true | Some x => Z.eqb x i end.

Definition valid_opb (s : spec) (o : regop T) : bool :=
  match o with
  | RegBoth id key _ =>
      Z.leb 0 id && negb (bytes_eqb key nokey) &&
      opt_none_or_key (pK s id) key && opt_none_or_id (pI s key) id
  | RegID id _ => Z.leb 0 id
  | RegKey key _ => negb (bytes_eqb key nokey)
  end.

Fixpoint valid_histb (s : spec) (ops : list (regop T)) : bool :=
  match ops with
  | [] => true
  | o :: r => valid_opb s o && valid_histb (spec_apply s o) r
  end.

End SPEC.

Arguments mI {T}. Arguments mK {T}. Arguments pK {T}. Arguments pI {T}.
Arguments spec_init {T}. Arguments spec_apply {T}. Arguments spec_run {T}.
Arguments spec_fb {T}. Arguments valid_op {T}. Arguments valid_hist {T}.
Arguments valid_opb {T}. Arguments valid_histb {T}.
