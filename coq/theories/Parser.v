(* Parser.v -- parser.go, function by function: the line cutter
   (skipFmt / nextCtl), the first-match cascade of regular expressions
   (processCtl, processCond, parseCondExpr, parseCaseExpr, extractMods / Args /
   Set), the recursion for blocks with its three depth counters, and the
   entry point Parse with the registry shortcut.  The regular expressions are
   the terms of generated/Regexes.v, regenerated from the source on every run.
   Go pointer mutation becomes value return: [parse] returns the possibly
   retyped root. *)
From Coq Require Import List NArith ZArith Bool Lia String.
From Dec Require Import Bytes Strconv Crc Regex Tree Db.
From Dec.generated Require Import Regexes.
Import ListNotations.

(* names registered with the package: getters, modifiers, callbacks *)
Record names := mkNames {
  is_getter : bytes -> bool;
  is_mod : bytes -> bool;
  is_callback : bytes -> bool;
}.

Inductive perror :=
| PEUnbalanced          (* ErrUnbalancedCtl *)
| PEUnexpectedClose     (* ErrUnexpectedClose *)
| PELoop                (* couldn't parse loop control structure *)
| PEComplex             (* too complex condition *)
| PENoBrace             (* condition / loop / switch without opening bracket *)
| PEUnknownGetter       (* unknown getter nor modifier function *)
| PEUnknownCallback     (* unknown callback function *)
| PEUnknownNode         (* unknown node *)
| PEFuel.               (* model out of fuel *)

Definition perror_eqb (a b : perror) : bool :=
  match a, b with
  | PEUnbalanced, PEUnbalanced | PEUnexpectedClose, PEUnexpectedClose | PELoop, PELoop
  | PEComplex, PEComplex | PENoBrace, PENoBrace | PEUnknownGetter, PEUnknownGetter | PEUnknownCallback, PEUnknownCallback
  | PEUnknownNode, PEUnknownNode | PEFuel, PEFuel => true
  | _, _ => false
  end.

Record target := mkT { cc : Z; cl : Z; cs : Z }.

Definition reached (t p : target) : bool := Z.eqb (cc t) (cc p) && Z.eqb (cl t) (cl p) && Z.eqb (cs t) (cs p).
Definition eqZero (t : target) : bool := Z.eqb (cc t) 0 && Z.eqb (cl t) 0 && Z.eqb (cs t) 0.

(* ------------------------------------------------------------- bytes *)

Definition c_nl : N := 10. Definition c_cr : N := 13. Definition c_tab : N := 9.
Definition c_sp : N := 32. Definition c_semi : N := 59. Definition c_lbrace : N := 123.
Definition c_rbrace : N := 125. Definition c_dot : N := 46. Definition c_hash : N := 35.
Definition c_comma : N := 44. Definition c_vline : N := 124. Definition c_bang : N := 33.

Definition is_fmt (c : N) : bool :=
  N.eqb c c_nl || N.eqb c c_cr || N.eqb c c_tab || N.eqb c c_sp || N.eqb c c_semi.

(* skipFmt: index of the first byte at or after [off] that is not layout;
   [None] = end of input *)
Fixpoint skip_fmt (s : bytes) (off : nat) : option nat :=
  match s with
  | [] => None
  | c :: r => if is_fmt c then skip_fmt r (S off) else Some off
  end.

Definition index_any_nl (s : bytes) : option nat :=
  (fix go (l : bytes) (i : nat) : option nat :=
     match l with
     | [] => None
     | c :: r => if N.eqb c c_nl || N.eqb c c_cr then Some i else go r (S i)
     end) s 0.

(* position of the first occurrence of byte [c] when it is > 0 and [ok] holds for the byte before it *)
Definition index_pos (c : N) (ctl : bytes) : option nat :=
  match index_byte c ctl with
  | Some (S j) => Some (S j)
  | _ => None
  end.

Definition is_comment (ctl : bytes) : bool :=
  match ctl with c0 :: _ => N.eqb c0 c_hash || has_prefix (bs "//") ctl | [] => false end.

(* nextCtl: the control line starting at the first non-layout byte *)
Definition next_ctl (body : bytes) (off : nat) : option (bytes * nat) :=
  match skip_fmt (skipn off body) off with
  | None => None
  | Some o =>
      let rest := skipn o body in
      let i := match index_any_nl rest with Some i => i | None => List.length rest end in
      match Some i with
      | None => Some (rest, o)
      | Some i =>
          let ctl := firstn i rest in
          (* a whole-line comment is opaque: the line is returned as it is *)
          if is_comment ctl then Some (ctl, o) else
          match index_pos c_lbrace ctl with
          | Some j =>
              if negb (N.eqb (nth (j - 1) ctl 0%N) c_dot) then Some (firstn (S j) rest, o)
              else
                (* falls through to the next tests *)
                match index_pos c_semi ctl with
                | Some j2 => if negb (has_prefix (bs "for") ctl) then Some (firstn j2 rest, o)
                             else match index_pos c_rbrace ctl with
                                  | Some j3 => if negb (contains [c_dot; c_lbrace] ctl) then Some (firstn j3 rest, o) else Some (ctl, o)
                                  | None => Some (ctl, o)
                                  end
                | None => match index_pos c_rbrace ctl with
                          | Some j3 => if negb (contains [c_dot; c_lbrace] ctl) then Some (firstn j3 rest, o) else Some (ctl, o)
                          | None => Some (ctl, o)
                          end
                end
          | None =>
              match index_pos c_semi ctl with
              | Some j2 => if negb (has_prefix (bs "for") ctl) then Some (firstn j2 rest, o)
                           else match index_pos c_rbrace ctl with
                                | Some j3 => if negb (contains [c_dot; c_lbrace] ctl) then Some (firstn j3 rest, o) else Some (ctl, o)
                                | None => Some (ctl, o)
                                end
              | None => match index_pos c_rbrace ctl with
                        | Some j3 => if negb (contains [c_dot; c_lbrace] ctl) then Some (firstn j3 rest, o) else Some (ctl, o)
                        | None => Some (ctl, o)
                        end
              end
          end
      end
  end.

Definition trim_right_blank (s : bytes) : bytes := trim_right [c_sp; c_tab] s.

(* ------------------------------------------------------------ helpers *)

Definition mt (r : re) (n : nat) (s : bytes) : bool := re_match r n s.
Definition sub (r : re) (n : nat) (s : bytes) : option (list bytes) := re_submatch r n s.
Definition g (m : list bytes) (i : nat) : bytes := nth i m [].

Definition isStatic (a : bytes) : bool := mt re_isStaticRE ncap_isStaticRE a.

Definition space : bytes := [c_sp].
Definition quotes : bytes := [34%N; 39%N; 96%N].

Definition parseOp (s : bytes) : Z :=
  if bytes_eqb s (bs "==") then opEq
  else if bytes_eqb s (bs "!=") then opNq
  else if bytes_eqb s (bs ">") then opGt
  else if bytes_eqb s (bs ">=") then opGtq
  else if bytes_eqb s (bs "<") then opLt
  else if bytes_eqb s (bs "<=") then opLtq
  else if bytes_eqb s (bs "++") then opInc
  else if bytes_eqb s (bs "--") then opDec
  else opUnk.

(* bytes.Replace(p, "[", ".", -1) then "]" -> "" *)
Definition replaceQB (p : bytes) : bytes :=
  flat_map (fun c => if N.eqb c 91 then [c_dot] else if N.eqb c 93 then [] else [c]) p.

Definition extractSet (p : bytes) : bytes * list bytes :=
  let p := replaceQB p in
  match sub re_reSet ncap_reSet p with
  | Some m => (g m 1, split_byte c_vline (g m 2))
  | None => (p, [])
  end.

(* splitComma: split at the commas outside of quoted literals *)
Fixpoint split_comma_aux (p : bytes) (quote : N) (cur : bytes) : list bytes :=
  match p with
  | [] => [rev cur]
  | c :: r =>
      if negb (N.eqb quote 0) then split_comma_aux r (if N.eqb c quote then 0%N else quote) (c :: cur)
      else if N.eqb c 34 || N.eqb c 39 || N.eqb c 96 then split_comma_aux r c (c :: cur)
      else if N.eqb c c_comma then rev cur :: split_comma_aux r 0%N []
      else split_comma_aux r 0%N (c :: cur)
  end.
Definition split_comma (p : bytes) : list bytes := split_comma_aux p 0%N [].

Definition extractArgs (l : bytes) : list arg :=
  match l with
  | [] => []
  | _ =>
      map (fun a =>
             let a := trim space a in
             if isStatic a then mkArg (unquote_with quotes a) [] true
             else let '(v, set) := extractSet a in mkArg v set false)
          (split_comma l)
  end.

Section WITH_NAMES.
Variable NM : names.

(* splitVline: split at the vertical lines outside of (...), {...} and quoted literals *)
Fixpoint split_vline_aux (p : bytes) (depth : nat) (quote : N) (cur : bytes) : list bytes :=
  match p with
  | [] => [rev cur]
  | c :: r =>
      if negb (N.eqb quote 0) then
        split_vline_aux r depth (if N.eqb c quote then 0%N else quote) (c :: cur)
      else if N.eqb c 34 || N.eqb c 39 || N.eqb c 96 then split_vline_aux r depth c (c :: cur)
      else if N.eqb c 40 || N.eqb c 123 then split_vline_aux r (S depth) 0%N (c :: cur)
      else if N.eqb c 41 || N.eqb c 125 then split_vline_aux r (pred depth) 0%N (c :: cur)
      else if N.eqb c c_vline && Nat.eqb depth 0 then rev cur :: split_vline_aux r 0 0%N []
      else split_vline_aux r depth 0%N (c :: cur)
  end.
Definition split_vline (p : bytes) : list bytes := split_vline_aux p 0 0%N [].

Definition extractMods (p : bytes) : bytes * list modn :=
  let chunks := split_vline p in
  let hasVline := Nat.ltb 1 (List.length chunks) in
  let modNoVar := mt re_reFunction ncap_reFunction p && negb hasVline in
  if hasVline || modNoVar then
    let rest := if modNoVar then chunks else tl chunks in
    let mods := flat_map (fun ch =>
                   match sub re_reMod ncap_reMod ch with
                   | Some m => if is_mod NM (g m 1) then [mkMod (g m 1) (extractArgs (g m 2))] else []
                   | None => []
                   end) rest in
    (hd [] chunks, mods)
  else (p, []).

(* parseCondExpr *)
Definition parseCondExpr (r : re) (n : nat) (expr : bytes) : bytes * bytes * bool * bool * Z :=
  match sub r n expr with
  | None => ([], [], false, false, opUnk)
  | Some m =>
      let l := trim space (g m 1) in
      let '(l, r_, sl, sr, op) :=
        match l with
        | 33%N :: l' => (l', bs "true", false, true, opNq)
        | _ => let r_ := trim space (g m 3) in (l, r_, isStatic l, isStatic r_, parseOp (g m 2))
        end in
      (unquote_with quotes l, unquote_with quotes r_, sl, sr, op)
  end.

(* parseCaseExpr *)
Definition parseCaseExpr (expr : bytes) : bytes * bytes * bool * bool * Z :=
  match sub re_reSwitchCase ncap_reSwitchCase expr with
  | None => ([], [], false, false, opUnk)
  | Some m =>
      let l := trim space (g m 1) in
      let r_ := trim space (g m 3) in
      (l, r_, isStatic l, isStatic r_, parseOp (g m 2))
  end.

(* splitNodes *)
Fixpoint split_nodes_aux (l : list node) (cur : list node) : list (list node) :=
  match l with
  | [] => match cur with [] => [] | _ => [rev cur] end
  | n :: r => if Z.eqb (typ n) typeDiv then rev cur :: split_nodes_aux r [] else split_nodes_aux r (n :: cur)
  end.
Definition splitNodes (l : list node) : list (list node) :=
  match l with [] => [] | _ => split_nodes_aux l [] end.

Definition with_child (n : node) (ch : list node) : node :=
  mkNode (typ n) (dst n) (src n) (ins n) (subset n) (getter n) (callback n) (static n) (mods n) (args n) ch
         (loopKey n) (loopVal n) (loopSrc n) (loopCnt n) (loopCntInit n) (loopCntStatic n) (loopCntOp n) (loopCondOp n)
         (loopLim n) (loopLimStatic n) (loopBrkD n) (condL n) (condOKL n) (condR n) (condOKR n) (condStaticL n)
         (condStaticR n) (condOp n) (condHlp n) (condHlpArg n) (condIns n) (condLC n) (switchArg n)
         (caseL n) (caseR n) (caseStaticL n) (caseStaticR n) (caseOp n) (caseHlp n) (caseHlpArg n).

Definition with_typ (n : node) (t : Z) : node :=
  mkNode t (dst n) (src n) (ins n) (subset n) (getter n) (callback n) (static n) (mods n) (args n) (child n)
         (loopKey n) (loopVal n) (loopSrc n) (loopCnt n) (loopCntInit n) (loopCntStatic n) (loopCntOp n) (loopCondOp n)
         (loopLim n) (loopLimStatic n) (loopBrkD n) (condL n) (condOKL n) (condR n) (condOKR n) (condStaticL n)
         (condStaticR n) (condOp n) (condHlp n) (condHlpArg n) (condIns n) (condLC n) (switchArg n)
         (caseL n) (caseR n) (caseStaticL n) (caseStaticR n) (caseOp n) (caseHlp n) (caseHlpArg n).

Definition typed (t : Z) : node := with_typ node0 t.

Definition cond_children (sub_nodes : list node) : list node :=
  match splitNodes sub_nodes with
  | [] => []
  | [a] => [with_child (typed typeCondTrue) a]
  | a :: b :: _ => [with_child (typed typeCondTrue) a; with_child (typed typeCondFalse) b]
  end.

(* rollupSwitchNodes (after the repair: the last group is kept even when empty) *)
Fixpoint rollup_aux (l : list node) (grp : option node) (acc : list node) : list node :=
  match l with
  | [] => match grp with Some x => rev (x :: acc) | None => rev acc end
  | n :: r =>
      let is_case := Z.eqb (typ n) typeCase || Z.eqb (typ n) typeDefault in
      match grp with
      | None => if is_case then rollup_aux r (Some n) acc else rollup_aux r None acc
      | Some x =>
          if is_case then rollup_aux r (Some n) (x :: acc)
          else rollup_aux r (Some (with_child x (child x ++ [n]))) acc
      end
  end.
Definition rollupSwitchNodes (l : list node) : list node :=
  match l with [] => [] | _ => rollup_aux l None [] end.

(* a simple (non-block) statement: everything processCtl recognises after the
   block openers and the closing brace.  Returns the node or an error. *)
Definition lc_of (h : bytes) : Z :=
  if bytes_eqb h (bs "len") then lcLen else if bytes_eqb h (bs "cap") then lcCap else lcNone.

Definition set_assign (n : node) (d s i : bytes) (st : bool) (sub_ : list bytes) (ms : list modn) : node :=
  mkNode (typ n) d s i sub_ (getter n) (callback n) st ms (args n) (child n)
         (loopKey n) (loopVal n) (loopSrc n) (loopCnt n) (loopCntInit n) (loopCntStatic n) (loopCntOp n) (loopCondOp n)
         (loopLim n) (loopLimStatic n) (loopBrkD n) (condL n) (condOKL n) (condR n) (condOKR n) (condStaticL n)
         (condStaticR n) (condOp n) (condHlp n) (condHlpArg n) (condIns n) (condLC n) (switchArg n)
         (caseL n) (caseR n) (caseStaticL n) (caseStaticR n) (caseOp n) (caseHlp n) (caseHlpArg n).

Definition brk_depth (m : list bytes) : Z :=
  match parse_int10 (g m 1) with
  | inl z => if Z.ltb 0 z then z else 0%Z
  | inr _ => 0%Z
  end.

Definition mk_brk (t : Z) (d : Z) : node :=
  mkNode t [] [] [] [] false false false [] [] [] [] [] [] [] [] false 0 0 [] false d
         [] [] [] [] false false 0 [] [] [] 0 [] [] [] false false 0 [] [].

Definition tern_child (d raw : bytes) (sub_ : list bytes) : node :=
  set_assign node0 d raw [] false sub_ [].

Definition mk_cond (l r_ : bytes) (sl sr : bool) (op : Z) (hlp : bytes) (ha : list arg) (lc : Z) (ch : list node) : node :=
  mkNode typeCond [] [] [] [] false false false [] [] ch [] [] [] [] [] false 0 0 [] false 0
         l [] r_ [] sl sr op hlp ha [] lc [] [] [] false false 0 [] [].

Definition simple_stmt (ctl : bytes) : node + perror :=
  if mt re_reLoopLBrk ncap_reLoopLBrk ctl then
    match sub re_reLoopLBrk ncap_reLoopLBrk ctl with
    | Some m => inl (mk_brk typeLBreak (brk_depth m))
    | None => inr PEUnknownNode
    end
  else if bytes_eqb ctl (bs "lazybreak") then inl (mk_brk typeLBreak 0)
  else if mt re_reLoopBrk ncap_reLoopBrk ctl then
    match sub re_reLoopBrk ncap_reLoopBrk ctl with
    | Some m => inl (mk_brk typeBreak (brk_depth m))
    | None => inr PEUnknownNode
    end
  else if bytes_eqb ctl (bs "break") then inl (mk_brk typeBreak 0)
  else if bytes_eqb ctl (bs "continue") then inl (mk_brk typeContinue 0)
  else if mt re_reAssignV2C ncap_reAssignV2C ctl then
    let '(d, s, i) :=
      match sub re_reAssignV2CAs ncap_reAssignV2CAs ctl with
      | Some m => (g m 1, g m 2, g m 3)
      | None =>
          match sub re_reAssignV2CDot ncap_reAssignV2CDot ctl with
          | Some m => (g m 1, g m 2, g m 3)
          | None =>
              match sub re_reAssignV2C ncap_reAssignV2C ctl with
              | Some m => (g m 1, g m 2, [])
              | None => ([], [], [])
              end
          end
      end in
    if isStatic s then inl (set_assign node0 d (unquote_with quotes s) i true [] [])
    else let '(s1, ms) := extractMods s in
         let '(s2, sub_) := extractSet s1 in
         inl (set_assign node0 d s2 i false sub_ ms)
  else if mt re_reAssignV2V ncap_reAssignV2V ctl then
    match sub re_reTernary ncap_reTernary ctl with
    | Some m =>
        let '(l, r_, sl, sr, op) := parseCondExpr re_reTernaryCondExpr ncap_reTernaryCondExpr ctl in
        let '(raw1, sub1) := extractSet (trim space (g m 5)) in
        let '(raw2, sub2) := extractSet (trim space (g m 6)) in
        inl (mk_cond l r_ sl sr op [] [] 0
               [with_child (typed typeCondTrue) [tern_child (g m 1) raw1 sub1];
                with_child (typed typeCondFalse) [tern_child (g m 1) raw2 sub2]])
    | None =>
        match sub re_reTernaryHelper ncap_reTernaryHelper ctl with
        | Some m =>
            let '(raw1, sub1) := extractSet (trim space (g m 4)) in
            let '(raw2, sub2) := extractSet (trim space (g m 5)) in
            inl (mk_cond [] [] false false 0 (g m 2) (extractArgs (g m 3)) (lc_of (g m 2))
                   [with_child (typed typeCondTrue) [tern_child (g m 1) raw1 sub1];
                    with_child (typed typeCondFalse) [tern_child (g m 1) raw2 sub2]])
        | None =>
            match sub re_reAssignF2V ncap_reAssignF2V ctl with
            | Some m =>
                let d := replaceQB (g m 1) in
                if is_getter NM (g m 2) then
                  inl (mkNode 0 d (replaceQB (g m 2)) [] [] true false false [] (extractArgs (g m 3)) []
                         [] [] [] [] [] false 0 0 [] false 0 [] [] [] [] false false 0 [] [] [] 0 [] [] [] false false 0 [] [])
                else
                  match sub re_reAssignV2V ncap_reAssignV2V ctl with
                  | Some m2 =>
                      let '(s1, ms) := extractMods (g m2 2) in
                      let '(s2, sub_) := extractSet s1 in
                      match ms with
                      | [] => inr PEUnknownGetter
                      | _ => inl (set_assign node0 d s2 [] false sub_ ms)
                      end
                  | None => inr PEUnknownGetter
                  end
            | None =>
                match sub re_reAssignV2V ncap_reAssignV2V ctl with
                | Some m =>
                    let d := replaceQB (g m 1) in
                    if isStatic (g m 2) then inl (set_assign node0 d (unquote_with quotes (g m 2)) [] true [] [])
                    else let '(s1, ms) := extractMods (g m 2) in
                         let '(s2, sub_) := extractSet s1 in
                         inl (set_assign node0 d s2 [] false sub_ ms)
                | None => inl node0
                end
            end
        end
    end
  else if mt re_reFunction ncap_reFunction ctl then
    match sub re_reFunction ncap_reFunction ctl with
    | Some m =>
        if is_callback NM (g m 1) then
          inl (mkNode 0 [] (g m 1) [] [] false true false [] (extractArgs (g m 2)) []
                 [] [] [] [] [] false 0 0 [] false 0 [] [] [] [] false false 0 [] [] [] 0 [] [] [] false false 0 [] [])
        else inr PEUnknownCallback
    | None => inr PEUnknownNode
    end
  else inr PEUnknownNode.

(* loop headers *)
Definition loop_header (ctl : bytes) : option node :=
  match sub re_reLoopRange ncap_reLoopRange ctl with
  | Some m =>
      let '(k, v) :=
        if contains [c_comma] (g m 1) then
          let kv := split_byte c_comma (g m 1) in
          let k := trim space (nth 0 kv []) in
          ((if bytes_eqb k (bs "_") then [] else k), trim space (nth 1 kv []))
        else (trim space (g m 1), []) in
      Some (mkNode typeLoopRange [] [] [] [] false false false [] [] [] k v (g m 2) [] [] false 0 0 [] false 0
              [] [] [] [] false false 0 [] [] [] 0 [] [] [] false false 0 [] [])
  | None =>
      match sub re_reLoopCount ncap_reLoopCount ctl with
      | Some m =>
          Some (mkNode typeLoopCount [] [] [] [] false false false [] [] [] [] [] [] (g m 1) (g m 2) (isStatic (g m 2))
                  (parseOp (g m 5)) (parseOp (g m 3)) (g m 4) (isStatic (g m 4)) 0
                  [] [] [] [] false false 0 [] [] [] 0 [] [] [] false false 0 [] [])
      | None => None
      end
  end.

Definition condok_header (ctl : bytes) : node :=
  let m := match sub re_reCondAsOK ncap_reCondAsOK ctl with
           | Some m => m
           | None => match sub re_reCondDotOK ncap_reCondDotOK ctl with
                     | Some m => m
                     | None => match sub re_reCondOK ncap_reCondOK ctl with Some m => m | None => [] end
                     end
           end in
  let '(l, r_, sl, sr, op) := parseCondExpr re_reCondExprOK ncap_reCondExprOK ctl in
  mkNode typeCondOK [] [] [] [] false false false [] [] [] [] [] [] [] [] false 0 0 [] false 0
         l (g m 1) r_ (g m 2) sl sr op (g m 3) (extractArgs (g m 4)) (g m 5) 0 [] [] [] false false 0 [] [].

Definition case_helper_node (m : list bytes) : node :=
  mkNode typeCase [] [] [] [] false false false [] [] [] [] [] [] [] [] false 0 0 [] false 0
         [] [] [] [] false false 0 [] [] [] 0 [] [] [] false false 0 (g m 1) (extractArgs (g m 2)).

Definition case_node (ctl : bytes) : node :=
  let '(l, r_, sl, sr, op) := parseCaseExpr ctl in
  mkNode typeCase [] [] [] [] false false false [] [] [] [] [] [] [] [] false 0 0 [] false 0
         [] [] [] [] false false 0 [] [] [] 0 [] l r_ sl sr op [] [].

Definition switch_node (arg_ : bytes) (ch : list node) : node :=
  mkNode typeSwitch [] [] [] [] false false false [] [] ch [] [] [] [] [] false 0 0 [] false 0
         [] [] [] [] false false 0 [] [] [] 0 arg_ [] [] false false 0 [] [].

(* result of parse / processCtl *)
Record pres := mkP {
  p_nodes : list node;
  p_off : nat;
  p_cnt : target;
  p_root : option node;
  p_err : option perror;
}.

(* which counter a closing brace decrements, by the type of the block's root *)
Definition close_block (p : target) (rt : Z) : target * option perror :=
  if Z.eqb rt typeLoopCount || Z.eqb rt typeLoopRange then (mkT (cc p) (cl p - 1) (cs p), None)
  else if Z.eqb rt typeCond || Z.eqb rt typeCondOK || Z.eqb rt typeElse || Z.eqb rt typeDiv then (mkT (cc p - 1) (cl p) (cs p), None)
  else if Z.eqb rt typeSwitch then (mkT (cc p) (cl p) (cs p - 1), None)
  else (p, Some PEUnexpectedClose).

(* what processCtl did with one control line *)
Inductive step :=
| SErr (r : pres)      (* an error: parsing stops *)
| SUp (r : pres)       (* a closing brace: the current block ends *)
| SNext (r : pres).    (* a statement or a whole nested block was consumed *)

Definition perr_of (e : option perror) (r : pres) : pres :=
  mkP (p_nodes r) (p_off r) (p_cnt r) (p_root r) e.

(* processCtl; [rec] is parser.parse for nested blocks *)
Definition process (rec : list node -> option node -> nat -> target -> target -> pres)
                   (dst : list node) (root : option node) (ctl : bytes) (off : nat) (p : target) : step :=
  let n := List.length ctl in
  match ctl with
  | [] => SNext (mkP dst off p root None)
  | c0 :: _ =>
    if N.eqb c0 c_hash || has_prefix (bs "//") ctl then SNext (mkP dst (off + n) p root None)
    else if mt re_reLoop ncap_reLoop ctl then
      if negb (N.eqb (last ctl 0%N) c_lbrace) then SErr (mkP dst off p root (Some PENoBrace)) else
      match loop_header ctl with
      | None => SErr (mkP dst off p root (Some PELoop))
      | Some r =>
          let sub_ := rec [] (Some r) (off + n) p (mkT (cc p) (cl p + 1) (cs p)) in
          match p_err sub_ with
          | Some e => SErr (mkP (p_nodes sub_) (p_off sub_) (p_cnt sub_) root (Some e))
          | None =>
              (* the loop node is the root of its own block: an `else` inside retypes it *)
              let r' := match p_root sub_ with Some x => x | None => r end in
              SNext (mkP (dst ++ [with_child r' (p_nodes sub_)]) (p_off sub_) (p_cnt sub_) root None)
          end
      end
    else if mt re_reCondOK ncap_reCondOK ctl then
      if negb (N.eqb (last ctl 0%N) c_lbrace) then SErr (mkP dst off p root (Some PENoBrace)) else
      let r := condok_header ctl in
      let sub_ := rec [] (Some (typed typeCondOK)) (off + n) p (mkT (cc p + 1) (cl p) (cs p)) in
      let node_ := with_child r (cond_children (p_nodes sub_)) in
      match p_err sub_ with
      | Some e => SErr (mkP (dst ++ [node_]) (p_off sub_) (p_cnt sub_) root (Some e))
      | None => SNext (mkP (dst ++ [node_]) (p_off sub_) (p_cnt sub_) root None)
      end
    else if mt re_reCond ncap_reCond ctl then
      if negb (N.eqb (last ctl 0%N) c_lbrace) then SErr (mkP dst off p root (Some PENoBrace))
      else if mt re_reCondComplex ncap_reCondComplex ctl then
        match sub re_reCondHelper ncap_reCondHelper ctl with
        | Some m =>
            let sub_ := rec [] (Some (typed typeCond)) (off + n) p (mkT (cc p + 1) (cl p) (cs p)) in
            let node_ := mk_cond [] [] false false 0 (g m 1) (extractArgs (g m 2)) (lc_of (g m 1)) (cond_children (p_nodes sub_)) in
            match p_err sub_ with
            | Some e => SErr (mkP (dst ++ [node_]) (p_off sub_) (p_cnt sub_) root (Some e))
            | None => SNext (mkP (dst ++ [node_]) (p_off sub_) (p_cnt sub_) root None)
            end
        | None => SErr (mkP dst off p root (Some PEComplex))
        end
      else
        let '(l, r_, sl, sr, op) := parseCondExpr re_reCondExpr ncap_reCondExpr ctl in
        let sub_ := rec [] (Some (typed typeCond)) (off + n) p (mkT (cc p + 1) (cl p) (cs p)) in
        let node_ := mk_cond l r_ sl sr op [] [] 0 (cond_children (p_nodes sub_)) in
        match p_err sub_ with
        | Some e => SErr (mkP (dst ++ [node_]) (p_off sub_) (p_cnt sub_) root (Some e))
        | None => SNext (mkP (dst ++ [node_]) (p_off sub_) (p_cnt sub_) root None)
        end
    else if mt re_reCondElse ncap_reCondElse ctl then
      match root with
      | None => SErr (mkP dst off p root (Some PEUnexpectedClose))
      | Some rt =>
          let rt' := with_typ rt typeDiv in
          SNext (mkP (dst ++ [rt']) (off + n) p (Some rt') None)
      end
    else
      match sub re_reSwitch ncap_reSwitch ctl with
      | Some m =>
          if negb (N.eqb (last ctl 0%N) c_lbrace) then SErr (mkP dst off p root (Some PENoBrace)) else
          let r := switch_node (g m 1) [] in
          let sub_ := rec [] (Some r) (off + n) p (mkT (cc p) (cl p) (cs p + 1)) in
          let r' := match p_root sub_ with Some x => x | None => r end in
          let node_ := with_child r' (rollupSwitchNodes (p_nodes sub_)) in
          match p_err sub_ with
          | Some e => SErr (mkP (dst ++ [node_]) (p_off sub_) (p_cnt sub_) root (Some e))
          | None => SNext (mkP (dst ++ [node_]) (p_off sub_) (p_cnt sub_) root None)
          end
      | None =>
          match sub re_reSwitchCaseHelper ncap_reSwitchCaseHelper ctl with
          | Some m => SNext (mkP (dst ++ [case_helper_node m]) (off + n) p root None)
          | None =>
              if mt re_reSwitchCase ncap_reSwitchCase ctl then
                SNext (mkP (dst ++ [case_node ctl]) (off + n) p root None)
              else if mt re_reSwitchDefault ncap_reSwitchDefault ctl then
                SNext (mkP (dst ++ [typed typeDefault]) (off + n) p root None)
              else if N.eqb c0 c_rbrace then
                match root with
                | None => SErr (mkP dst (S off) p root (Some PEUnexpectedClose))
                | Some rt =>
                    let '(p', e) := close_block p (typ rt) in
                    match e with
                    | Some x => SErr (mkP dst (S off) p' root (Some x))
                    | None => SUp (mkP dst (S off) p' root None)
                    end
                end
              else
                match simple_stmt ctl with
                | inl nd => SNext (mkP (dst ++ [nd]) (off + n) p root None)
                | inr e => SErr (mkP dst off p root (Some e))
                end
          end
      end
  end.

Section WITH_BODY.
Variable body : bytes.

(* parser.parse; [fuel] bounds the recursion depth and the number of control
   lines; every control line consumed advances the offset *)
Fixpoint parse (fuel : nat) (dst : list node) (root : option node) (off : nat) (t : target) (p : target)
  : pres :=
  match fuel with
  | O => mkP dst off p root (Some PEFuel)
  | S f =>
    if reached t p && negb (eqZero t) then mkP dst off p root None
    else
      match next_ctl body off with
      | None =>
          (* eof *)
          mkP dst (pred (List.length body)) p root (if reached t p then None else Some PEUnbalanced)
      | Some (ctl0, off) =>
          match process (parse f) dst root (trim_right_blank ctl0) off p with
          | SErr r => r
          | SUp r => perr_of (if reached t (p_cnt r) then None else Some PEUnbalanced) r
          | SNext r => parse f (p_nodes r) (p_root r) (p_off r) t (p_cnt r)
          end
      end
  end.

End WITH_BODY.

(* Parse without the registry shortcut: nodes and error *)
Definition parse_pure (src : bytes) : list node * option perror :=
  let r := parse src (S (S (List.length src))) [] None 0 (mkT 0 0 0) (mkT 0 0 0) in
  (p_nodes r, p_err r).

End WITH_NAMES.

(* ---------------------------------------------------------- Parse (API) *)

(* a tree as Parse builds it: nodes, checksum and recorded text (only when
   parsing succeeded) *)
Record tree := mkTree { t_nodes : list node; t_hsum : N; t_src : option bytes }.

Definition mk_tree (NM : names) (src : bytes) : tree * option perror :=
  let '(ns, e) := parse_pure NM src in
  match e with
  | None => (mkTree ns (crc64_iso src) (Some src), None)
  | Some _ => (mkTree ns 0 None, e)
  end.

(* Parse: reuse a registered tree whose checksum and text both match, else parse *)
Definition parse_api (NM : names) (d : db tree) (src : bytes) : tree * option perror :=
  match getTreeByHash tree t_hsum t_src d (crc64_iso src) src with
  | Some t => (t, None)
  | None => mk_tree NM src
  end.
