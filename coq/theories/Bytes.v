(* Bytes.v -- byte strings of the model: lists of N below 256.
   Coq string literals are used in generated case files for readability and
   converted with [bs]. Stdlib only. *)
From Coq Require Import List NArith ZArith Ascii String Bool Lia.
Import ListNotations.
Local Open Scope N_scope.

Definition byte := N.
Definition bytes := list N.

Fixpoint bs (s : string) : bytes :=
  match s with
  | EmptyString => []
  | String a r => N_of_ascii a :: bs r
  end.

Fixpoint bytes_eqb (a b : bytes) : bool :=
  match a, b with
  | [], [] => true
  | x :: a', y :: b' => N.eqb x y && bytes_eqb a' b'
  | _, _ => false
  end.

Lemma bytes_eqb_eq a b : bytes_eqb a b = true <-> a = b.
Proof.
  revert b; induction a as [|x a IH]; intros [|y b]; simpl; split; intro H;
    try reflexivity; try discriminate.
  - apply andb_true_iff in H as [H1 H2]. apply N.eqb_eq in H1. apply IH in H2. congruence.
  - inversion H; subst. rewrite N.eqb_refl. simpl. apply IH. reflexivity.
Qed.

Lemma bytes_eqb_refl a : bytes_eqb a a = true.
Proof. apply bytes_eqb_eq. reflexivity. Qed.

Lemma bytes_eqb_neq a b : bytes_eqb a b = false <-> a <> b.
Proof.
  split; intro H.
  - intro E. apply bytes_eqb_eq in E. congruence.
  - destruct (bytes_eqb a b) eqn:E; [|reflexivity]. apply bytes_eqb_eq in E. contradiction.
Qed.

(* Lexicographic comparison, as Go compares strings. *)
Fixpoint bytes_cmp (a b : bytes) : comparison :=
  match a, b with
  | [], [] => Eq
  | [], _ => Lt
  | _, [] => Gt
  | x :: a', y :: b' =>
      match N.compare x y with
      | Eq => bytes_cmp a' b'
      | c => c
      end
  end.

Fixpoint has_prefix (p s : bytes) : bool :=
  match p, s with
  | [], _ => true
  | x :: p', y :: s' => N.eqb x y && has_prefix p' s'
  | _, [] => false
  end.

(* index of first occurrence of byte c *)
Fixpoint index_byte (c : N) (s : bytes) : option nat :=
  match s with
  | [] => None
  | x :: r => if N.eqb x c then Some O else option_map S (index_byte c r)
  end.

(* index of first occurrence of sub-slice *)
Fixpoint index_sub (p s : bytes) : option nat :=
  if has_prefix p s then Some O else
  match s with
  | [] => None
  | _ :: r => option_map S (index_sub p r)
  end.

Definition contains (p s : bytes) : bool :=
  match index_sub p s with Some _ => true | None => false end.

(* bytes.Split(s, sep) for a one-byte separator *)
Fixpoint split_byte_aux (c : N) (s cur : bytes) : list bytes :=
  match s with
  | [] => [rev cur]
  | x :: r => if N.eqb x c then rev cur :: split_byte_aux c r [] else split_byte_aux c r (x :: cur)
  end.
Definition split_byte (c : N) (s : bytes) : list bytes := split_byte_aux c s [].

Definition mem_byte (c : N) (set : bytes) : bool := existsb (N.eqb c) set.

Fixpoint trim_left (set s : bytes) : bytes :=
  match s with
  | [] => []
  | x :: r => if mem_byte x set then trim_left set r else s
  end.
Definition trim_right (set s : bytes) : bytes := rev (trim_left set (rev s)).
(* bytealg.Trim / bytes.Trim with a cut set *)
Definition trim (set s : bytes) : bytes := trim_right set (trim_left set s).

(* parser.go unquote: strip the one pair of equal quote characters that
   encloses the text; anything else is trimmed as before *)
Definition unquote_with (set s : bytes) : bytes :=
  match s with
  | q :: r =>
      match rev r with
      | l :: m => if N.eqb q l && existsb (N.eqb q) set then rev m else trim set s
      | [] => trim set s
      end
  | [] => []
  end.

Definition ch (a : ascii) : N := N_of_ascii a.
