(* Pool.v -- internal object pools (ipool.go) and the bookkeeping of borrowed
   objects in a context (Ctx.AcquireFrom, the release loop of Ctx.Reset,
   CtxPool.Put).  Several contexts share one registry of named pools.  Pools
   are the harness's counting pools: Get pops the free list or makes a new
   object with the next serial number; every Get / Reset / Put is logged. *)
From Coq Require Import List NArith ZArith Bool Lia.
From Dec Require Import Bytes.
Import ListNotations.

Record pool := mkPool { p_free : list nat; p_next : nat }.

Inductive pevent :=
| PGet (pool : bytes) (o : nat)
| PReset (pool : bytes) (o : nat)
| PPut (pool : bytes) (o : nat).

Record pstate := mkPS {
  pools : list (bytes * pool);             (* the registry, by name *)
  held : list (list (bytes * nat));        (* per context: ipv[0..ipvl), oldest first *)
  plog : list pevent;                      (* newest first *)
}.

Fixpoint pool_find (k : bytes) (l : list (bytes * pool)) : option pool :=
  match l with
  | [] => None
  | (k', p) :: r => if bytes_eqb k k' then Some p else pool_find k r
  end.

Fixpoint pool_set (k : bytes) (p : pool) (l : list (bytes * pool)) : list (bytes * pool) :=
  match l with
  | [] => []
  | (k', q) :: r => if bytes_eqb k k' then (k', p) :: r else (k', q) :: pool_set k p r
  end.

Fixpoint upd_nth {A} (l : list A) (n : nat) (x : A) : list A :=
  match l, n with
  | [], _ => []
  | _ :: r, O => x :: r
  | y :: r, S n' => y :: upd_nth r n' x
  end.

(* ipools.acquire + the bookkeeping of Ctx.AcquireFrom; unknown pool: error, nothing changes *)
Definition acquire (s : pstate) (ctx : nat) (k : bytes) : pstate * option nat :=
  match pool_find k (pools s), nth_error (held s) ctx with
  | Some p, Some h =>
      let '(o, p') := match p_free p with
                      | x :: r => (x, mkPool r (p_next p))
                      | [] => (p_next p, mkPool [] (S (p_next p)))
                      end in
      (mkPS (pool_set k p' (pools s)) (upd_nth (held s) ctx (h ++ [(k, o)])) (PGet k o :: plog s), Some o)
  | _, _ => (s, None)
  end.

(* ipools.release: Reset then Put; unknown pool: silently nothing *)
Definition release (ps : list (bytes * pool)) (lg : list pevent) (k : bytes) (o : nat) :=
  match pool_find k ps with
  | Some p => (pool_set k (mkPool (o :: p_free p) (p_next p)) ps, PPut k o :: PReset k o :: lg)
  | None => (ps, lg)
  end.

Fixpoint release_all (ps : list (bytes * pool)) (lg : list pevent) (h : list (bytes * nat)) :=
  match h with
  | [] => (ps, lg)
  | (k, o) :: r => let '(ps', lg') := release ps lg k o in release_all ps' lg' r
  end.

(* the release loop of Ctx.Reset (also what CtxPool.Put does first) *)
Definition reset (s : pstate) (ctx : nat) : pstate :=
  match nth_error (held s) ctx with
  | Some h =>
      let '(ps, lg) := release_all (pools s) (plog s) h in
      mkPS ps (upd_nth (held s) ctx []) lg
  | None => s
  end.

Inductive pop := OpAcq (ctx : nat) (k : bytes) | OpReset (ctx : nat).

Definition pstep (s : pstate) (o : pop) : pstate :=
  match o with
  | OpAcq c k => fst (acquire s c k)
  | OpReset c => reset s c
  end.

Definition pinit (names : list bytes) (nctx : nat) : pstate :=
  mkPS (map (fun k => (k, mkPool [] 0)) names) (repeat [] nctx) [].

Definition prun (names : list bytes) (nctx : nat) (ops : list pop) : pstate :=
  fold_left pstep ops (pinit names nctx).
