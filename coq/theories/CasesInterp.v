(* CasesInterp.v -- evaluator for interpreter correspondence cases.  A case is
   the tree the real parser produced (from the verif dump), the document, the
   struct objects and variables the harness put into the context, the failure
   injection point, and the observables the real decode showed: result class,
   trace of user-function calls, every field of the destination objects and
   selected context variables, all in canonical rendering. *)
From Coq Require Import List NArith ZArith Bool String.
From Dec Require Import Bytes Strconv Values Tree Interp.
Import ListNotations.

(* ------------------------------------------------ the harness's functions *)

Definition upper_byte (b : N) : N := if (N.leb 97 b && N.leb b 122)%bool then (b - 32)%N else b.

Definition val_text (v : val) : option bytes :=
  match v with
  | VBytes b | VStr b => Some b
  | VBool b => Some (bool_bytes b)
  | VInt z => Some (format_int z)
  | VUint z => Some (format_uint z)
  | VFloat t => Some t
  | VNode j => Some (jbytes j)
  | _ => None
  end.

Definition is_present (v : val) : bool :=
  match v with
  | VNil | VNode JNull | VNode JAbsent => false
  | _ => true
  end.

Definition fails (fk : option nat) (n : nat) : bool :=
  match fk with Some k => Nat.eqb k n | None => false end.

Definition testU (fk : option nat) : ufuns :=
  mkU
    (* callbacks *)
    (fun name =>
       if bytes_eqb name (bs "probe") || bytes_eqb name (bs "ns::probe") then
         Some (fun n _ => if fails fk n then Some (EUser n) else None)
       else None)
    (* getters *)
    (fun name =>
       if bytes_eqb name (bs "ident") then
         Some (fun n a => if fails fk n then inr (EUser n) else inl (match a with x :: _ => x | [] => VNil end))
       else if bytes_eqb name (bs "konst") then
         Some (fun n _ => if fails fk n then inr (EUser n) else inl (VBytes (bs "K")))
       else None)
    (* modifiers *)
    (fun name =>
       if bytes_eqb name (bs "upper") then
         Some (fun n v _ => if fails fk n then inr (EUser n) else
                 inl (match val_text v with Some t => VBytes (map upper_byte t) | None => v end))
       else if bytes_eqb name (bs "ns::suffix") || bytes_eqb name (bs "suffix") then
         Some (fun n v a => if fails fk n then inr (EUser n) else
                 inl (match val_text v with
                      | Some t => VBytes (t ++ List.concat (map (fun x => match val_text x with Some y => y | None => [] end) a))
                      | None => v
                      end))
       else None)
    (* condition helpers *)
    (fun name =>
       if bytes_eqb name (bs "isTrue") then
         Some (fun n a => if fails fk n then (false, Some (EUser n)) else
                 (match a with x :: _ => match val_text x with Some t => bytes_eqb t (bs "true") | None => false end | [] => false end, None))
       else if bytes_eqb name (bs "ns::eq") || bytes_eqb name (bs "eq") then
         Some (fun n a => if fails fk n then (false, Some (EUser n)) else
                 (match a with
                  | x :: y :: _ => match val_text x, val_text y with
                                   | Some s, Some t => bytes_eqb s t
                                   | _, _ => false
                                   end
                  | _ => false
                  end, None))
       else None)
    (* cond-OK helpers *)
    (fun name =>
       if bytes_eqb name (bs "okh") then
         Some (fun _ a => match a with
                          | x :: _ => (x, is_present x)
                          | [] => (VInt 15, true)
                          end)
       else if bytes_eqb name (bs "nokh") then
         Some (fun _ a => (VInt 17, false))
       else None)
    (* inspectors by name *)
    (fun name =>
       if bytes_eqb name (bs "static") then Some InsStatic
       else if bytes_eqb name (bs "vector") then Some InsVector
       else if bytes_eqb name (bs "TestObject") || bytes_eqb name (bs "TestHistory") || bytes_eqb name (bs "TestStruct") then Some InsObj
       else None).

(* ----------------------------------------------------- flattening objects *)

Fixpoint flatten_obj (fuel : nat) (o : obj) : list bytes :=
  match fuel with
  | O => []
  | S f =>
      map (fun kv => render_fval (snd kv)) (o_fields o) ++
      flat_map (fun ks => flatten_obj f (snd ks)) (o_subs o) ++
      flat_map (fun kl => flat_map (flatten_obj f) (snd kl)) (o_slices o)
  end.

(* ------------------------------------------------------------- a job *)

Record job := mkJob {
  j_tree : list node;
  j_vars : list (bytes * val * insk);    (* Set/SetStatic/SetVector calls, in order *)
  j_fail : option nat;                   (* index of the user-function call that fails *)
  j_getvars : list bytes;                (* names read back with Ctx.Get afterwards *)
}.

Record observed := mkObs {
  o_res : option err;
  o_trace : list bytes;                  (* oldest first *)
  o_fields : list (list bytes);          (* per object of the store *)
  o_vars : list bytes;
}.

Definition setup_vars (c : ctx) (vs : list (bytes * val * insk)) : ctx :=
  fold_left (fun c '(k, v, i) => ctx_set c k v i) vs c.

Definition big_fuel : nat := 400.

Definition run_job (c : ctx) (j : job) : ctx * observed :=
  let c := setup_vars (ctx_reset c) (j_vars j) in
  let c := w_trace (w_ncalls c 0) [] in
  let '(c, r) := decode (testU (j_fail j)) big_fuel (j_tree j) c in
  let vs := map (fun name => let '(c', v) := ctx_get c name [] in render_val (deref c' v)) (j_getvars j) in
  (c, mkObs r (rev (trace c)) (map (flatten_obj 6) (store c)) vs).

Definition opt_err_eqb (a b : option err) : bool :=
  match a, b with
  | None, None => true
  | Some x, Some y => err_eqb x y
  | _, _ => false
  end.

Fixpoint bl_eqb (a b : list bytes) : bool :=
  match a, b with
  | [], [] => true
  | x :: a', y :: b' => bytes_eqb x y && bl_eqb a' b'
  | _, _ => false
  end.

Fixpoint bll_eqb (a b : list (list bytes)) : bool :=
  match a, b with
  | [], [] => true
  | x :: a', y :: b' => bl_eqb x y && bll_eqb a' b'
  | _, _ => false
  end.

Definition obs_eqb (a b : observed) : bool :=
  opt_err_eqb (o_res a) (o_res b) && bl_eqb (o_trace a) (o_trace b) &&
  bll_eqb (o_fields a) (o_fields b) && bl_eqb (o_vars a) (o_vars b).

Definition unsupported (o : observed) : bool :=
  match o_res o with
  | Some EUnsupported | Some EFuel => true
  | _ => false
  end.

(* A case: initial objects, then jobs run one after the other on one context
   (Reset between them), each with what the implementation showed. *)
Definition icase := (list obj * list (job * observed))%type.

(* 0 = agree, 1 = disagree, 2 = outside the model *)
(* every job works on fresh copies of the objects (destinations alias context
   buffers, so results of an earlier decode must be consumed before the context
   is reused); the context itself is carried from job to job *)
Fixpoint run_jobs (objs : list obj) (c : ctx) (l : list (job * observed)) : nat :=
  match l with
  | [] => 0
  | (j, exp) :: r =>
      let '(c', got) := run_job (w_store c objs) j in
      if unsupported got then 2
      else if obs_eqb got exp then run_jobs objs c' r else 1
  end.

Definition case_status (cs : icase) : nat :=
  let '(objs, jobs) := cs in run_jobs objs (new_ctx objs) jobs.

Fixpoint mismatches_from (i : nat) (cs : list icase) : list nat :=
  match cs with
  | [] => []
  | c :: r => match case_status c with
              | 0 => mismatches_from (S i) r
              | 1 => i :: mismatches_from (S i) r
              | _ => mismatches_from (S i) r
              end
  end.
Definition mismatches := mismatches_from 0.

Fixpoint skipped_from (i : nat) (cs : list icase) : list nat :=
  match cs with
  | [] => []
  | c :: r => match case_status c with
              | 2 => i :: skipped_from (S i) r
              | _ => skipped_from (S i) r
              end
  end.
Definition skipped := skipped_from 0.

(* what the model computes for a case, for replay files and debugging *)
Fixpoint model_obs (objs : list obj) (c : ctx) (l : list (job * observed)) : list observed :=
  match l with
  | [] => []
  | (j, _) :: r => let '(c', got) := run_job (w_store c objs) j in got :: model_obs objs c' r
  end.
Definition model_of (cs : icase) : list observed := let '(objs, jobs) := cs in model_obs objs (new_ctx objs) jobs.
