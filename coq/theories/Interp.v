(* Interp.v -- the interpreter: followRule / DecodeRuleset / nodeCmp
   (decoder.go), Ctx.get/set/cmp/rloop/Set/Reset (ctx.go), cloop.go, rloop.go,
   the builtin modifiers and getters, and the dependency behaviour they go
   through (static / vector / generated struct inspectors, the assign cascade,
   x2bytes).  Mirrors the repaired code statement by statement; [cerr] is
   ctx.Err, a side channel distinct from the returned error.  User-registered
   functions are a record of pure functions of (call number, arguments); every
   invocation is appended to [trace]. *)
From Coq Require Import List NArith ZArith Bool Lia String.
From Dec Require Import Bytes Strconv Crc Values Tree.
Import ListNotations.

(* ----------------------------------------------------------------- errors *)

Inductive err :=
| EBreak | ELBreak | ECont                       (* loop sentinels *)
| EUser (n : nat)                                (* returned by a user function at call n *)
| ECondHlpNotFound | ESenseless
| EWrongLoopLim | EWrongLoopCond | EWrongLoopOp
| EModPoorArgs | EModNoArgs | EGetterPoorArgs
| EStrconv (e : perr)
| EUnknownType                                   (* x2bytes.ErrUnknownType *)
| EUnknownIns                                    (* inspector.GetInspector failed *)
| EFuel                                          (* model ran out of fuel *)
| EUnsupported                                   (* construct outside the model *)
| EOther | EPanic | EHang.                       (* only ever observed on the implementation; equal to nothing *)

Definition err_eqb (a b : err) : bool :=
  match a, b with
  | EBreak, EBreak | ELBreak, ELBreak | ECont, ECont => true
  | EUser n, EUser m => Nat.eqb n m
  | ECondHlpNotFound, ECondHlpNotFound | ESenseless, ESenseless => true
  | EWrongLoopLim, EWrongLoopLim | EWrongLoopCond, EWrongLoopCond | EWrongLoopOp, EWrongLoopOp => true
  | EModPoorArgs, EModPoorArgs | EModNoArgs, EModNoArgs | EGetterPoorArgs, EGetterPoorArgs => true
  | EStrconv ESyntax, EStrconv ESyntax | EStrconv ERange, EStrconv ERange => true
  | EUnknownType, EUnknownType | EUnknownIns, EUnknownIns | EFuel, EFuel | EUnsupported, EUnsupported => true
  | _, _ => false
  end.

Inductive insk := InsStatic | InsVector | InsObj | InsNil.

(* ---------------------------------------------------------------- context *)

Record ctx := mkCtx {
  vars : list (bytes * val * insk);
  store : list obj;
  bufX : val;
  bufBl : bool;
  cerr : option err;
  brkD : nat;
  bufLC : list Z;
  lenBB : nat;
  trace : list bytes;      (* newest first *)
  ncalls : nat;
}.

Definition new_ctx (st : list obj) : ctx := mkCtx [] st VNil false None 0 [] 0 [] 0.

Definition w_vars c x := mkCtx x (store c) (bufX c) (bufBl c) (cerr c) (brkD c) (bufLC c) (lenBB c) (trace c) (ncalls c).
Definition w_store c x := mkCtx (vars c) x (bufX c) (bufBl c) (cerr c) (brkD c) (bufLC c) (lenBB c) (trace c) (ncalls c).
Definition w_bufX c x := mkCtx (vars c) (store c) x (bufBl c) (cerr c) (brkD c) (bufLC c) (lenBB c) (trace c) (ncalls c).
Definition w_bufBl c x := mkCtx (vars c) (store c) (bufX c) x (cerr c) (brkD c) (bufLC c) (lenBB c) (trace c) (ncalls c).
Definition w_cerr c x := mkCtx (vars c) (store c) (bufX c) (bufBl c) x (brkD c) (bufLC c) (lenBB c) (trace c) (ncalls c).
Definition w_brkD c x := mkCtx (vars c) (store c) (bufX c) (bufBl c) (cerr c) x (bufLC c) (lenBB c) (trace c) (ncalls c).
Definition w_bufLC c x := mkCtx (vars c) (store c) (bufX c) (bufBl c) (cerr c) (brkD c) x (lenBB c) (trace c) (ncalls c).
Definition w_lenBB c x := mkCtx (vars c) (store c) (bufX c) (bufBl c) (cerr c) (brkD c) (bufLC c) x (trace c) (ncalls c).
Definition w_trace c x := mkCtx (vars c) (store c) (bufX c) (bufBl c) (cerr c) (brkD c) (bufLC c) (lenBB c) x (ncalls c).
Definition w_ncalls c x := mkCtx (vars c) (store c) (bufX c) (bufBl c) (cerr c) (brkD c) (bufLC c) (lenBB c) (trace c) x.

(* Ctx.Set: update the first variable with that key or claim a new slot *)
Fixpoint set_var (vs : list (bytes * val * insk)) (k : bytes) (v : val) (i : insk) :=
  match vs with
  | [] => [(k, v, i)]
  | (k', v', i') :: r => if bytes_eqb k' k then (k, v, i) :: r else (k', v', i') :: set_var r k v i
  end.
Definition ctx_set (c : ctx) (k : bytes) (v : val) (i : insk) : ctx := w_vars c (set_var (vars c) k v i).

Fixpoint find_var (vs : list (bytes * val * insk)) (k : bytes) : option (val * insk) :=
  match vs with
  | [] => None
  | (k', v, i) :: r => if bytes_eqb k' k then Some (v, i) else find_var r k
  end.

(* Ctx.Reset: variables, errors, counters, buffers; bufBl is not reset by the code *)
Definition ctx_reset (c : ctx) : ctx :=
  mkCtx [] (store c) VNil (bufBl c) None 0 [] 0 (trace c) (ncalls c).

Definition deref (c : ctx) (v : val) : val :=
  match v with VLC i => VInt (nth i (bufLC c) 0%Z) | _ => v end.

(* ------------------------------------------------------ user functions *)

Record ufuns := mkU {
  u_cb : bytes -> option (nat -> list val -> option err);
  u_get : bytes -> option (nat -> list val -> val + err);
  u_mod : bytes -> option (nat -> val -> list val -> val + err);
  u_cond : bytes -> option (nat -> list val -> bool * option err);   (* a helper reports failure through ctx.Err *)
  u_condok : bytes -> option (nat -> list val -> val * bool);
  u_ins : bytes -> option insk;
}.

(* ------------------------------------------------- rendering of values *)

Definition render_val (v : val) : bytes :=
  match v with
  | VNil => bs "nil"
  | VNode j => render_json j
  | VBytes b => bs "B:" ++ b
  | VStr b => bs "S:" ++ b
  | VBool true => bs "bool:true"
  | VBool false => bs "bool:false"
  | VInt z => bs "i:" ++ format_int z
  | VUint z => bs "u:" ++ format_uint z
  | VFloat t => bs "f:" ++ t
  | VLC _ => bs "lc"
  | VObj _ _ => bs "obj"
  | VOther => bs "other"
  end.

Fixpoint join_bytes (sep : bytes) (l : list bytes) : bytes :=
  match l with
  | [] => []
  | [x] => x
  | x :: r => x ++ sep ++ join_bytes sep r
  end.

Definition event (kind name : bytes) (vs : list val) : bytes :=
  kind ++ [58%N] ++ name ++ [40%N] ++ join_bytes [44%N] (map render_val vs) ++ [41%N].

(* the kind of a call's log entry carries a `!` when the call returned an error *)
Definition kind_of (k : bytes) (failed : bool) : bytes := if failed then k ++ [33%N] else k.

Definition log_call (c : ctx) (kind name : bytes) (vs : list val) : ctx * nat :=
  let n := ncalls c in
  (w_ncalls (w_trace c (event kind name vs :: trace c)) (S n), n).

(* -------------------------------------------------------- conversions *)

Definition val_of_fval (v : fval) : val :=
  match v with
  | FStr b => VStr b
  | FBytes b => VBytes b
  | FBool b => VBool b
  | FInt _ z => VInt z
  | FUint _ z => VUint z
  | FFloat _ t => VFloat t
  end.

Definition bool_bytes (b : bool) : bytes := if b then bs "true" else bs "false".

(* x2bytes.ToBytes (with vector_inspector's node conversion registered) *)
Definition x2bytes (c : ctx) (v : val) : option bytes :=
  match deref c v with
  | VBytes b => Some b
  | VStr b => Some b
  | VBool b => Some (bool_bytes b)
  | VInt z => Some (format_int z)
  | VUint z => Some (format_uint z)
  | VFloat t => Some t
  | VNode j => Some (jbytes j)
  | _ => None
  end.

Definition is_true_text (b : bytes) : bool := bytes_eqb b (bs "true").

Definition atoi_re (b : bytes) : option Z :=
  if is_int_re b then match parse_int10 b with inl z => Some z | inr _ => None end else None.
Definition atou_re (b : bytes) : option Z :=
  if is_uint_re b then match parse_uint10 b with inl z => Some z | inr _ => None end else None.
Definition atof_re (b : bytes) : option bytes :=
  if is_float_re b && is_plain_dec b then Some (norm_dec b) else None.

Definition float_is_zero (t : bytes) : bool := bytes_eqb (norm_dec t) [48%N].

(* inspector.AssignBuf through the registered cascade AssignToBytes, ToStr,
   ToBool, ToInt, ToUint, ToFloat, AssignVectorNode; [None] = no function took it *)
Definition assign (c : ctx) (dstf : fval) (v : val) : option fval :=
  let v := deref c v in
  match dstf with
  | FBytes _ =>
      match x2bytes c v with Some b => Some (FBytes b) | None => None end
  | FStr _ =>
      match x2bytes c v with Some b => Some (FStr b) | None => None end
  | FBool _ =>
      match v with
      | VBool b => Some (FBool b)
      | VBytes b | VStr b => Some (FBool (is_true_text b))
      | VInt z | VUint z => Some (FBool (negb (Z.eqb z 0)))
      | VFloat t => Some (FBool (negb (float_is_zero t)))
      | VNode JNull | VNode JAbsent => None
      | VNode j => Some (FBool (jbool j))
      | _ => None
      end
  | FInt bits _ =>
      match v with
      | VInt z => Some (FInt bits (wrap_int bits z))
      | VBytes b | VStr b =>
          match atoi_re b with Some z => Some (FInt bits (wrap_int bits z)) | None => None end
      | VNode JNull | VNode JAbsent => None
      | VNode j => Some (FInt bits (wrap_int bits (match jint j with Some z => z | None => 0%Z end)))
      | _ => None
      end
  | FUint bits _ =>
      match v with
      | VUint z => Some (FUint bits (wrap_uint bits z))
      | VBytes b | VStr b =>
          match atou_re b with Some z => Some (FUint bits (wrap_uint bits z)) | None => None end
      | VNode JNull | VNode JAbsent => None
      | VNode j => Some (FUint bits (wrap_uint bits (match juint j with Some z => z | None => 0%Z end)))
      | _ => None
      end
  | FFloat bits _ =>
      match v with
      | VFloat t => Some (FFloat bits t)
      | VBytes b | VStr b =>
          match atof_re b with Some t => Some (FFloat bits t) | None => None end
      | VNode JNull | VNode JAbsent => None
      | VNode (JNum t) => if is_plain_dec t then Some (FFloat bits (norm_dec t)) else Some (FFloat bits (bs "?"))
      | VNode _ => Some (FFloat bits [48%N])
      | _ => None
      end
  end.

(* ------------------------------------------------------- comparisons *)

Definition cmp_by (o : Z) (c : comparison) : bool :=
  if Z.eqb o opEq then match c with Eq => true | _ => false end
  else if Z.eqb o opNq then match c with Eq => false | _ => true end
  else if Z.eqb o opGt then match c with Gt => true | _ => false end
  else if Z.eqb o opGtq then match c with Lt => false | _ => true end
  else if Z.eqb o opLt then match c with Lt => true | _ => false end
  else if Z.eqb o opLtq then match c with Gt => false | _ => true end
  else false.

Definition cmp_eq_only (o : Z) (eq : bool) : bool :=
  if Z.eqb o opEq then eq else if Z.eqb o opNq then negb eq else false.

(* op.Swap *)
Definition op_swap (o : Z) : Z :=
  if Z.eqb o opGt then opLt
  else if Z.eqb o opGtq then opLtq
  else if Z.eqb o opLt then opGt
  else if Z.eqb o opLtq then opGtq
  else o.

(* result of an inspector's Compare: error, or the verdict it wrote, or nothing *)
Inductive cmpres := CErr (e : err) | CSet (b : bool) | CUntouched.

Definition cmp_float_text (o : Z) (l r : bytes) : cmpres :=
  if is_plain_dec r && is_plain_dec l then CSet (cmp_by o (dec_cmp l r)) else CErr EUnsupported.

(* StaticInspector.Compare *)
Definition static_compare (c : ctx) (v : val) (o : Z) (right : bytes) : cmpres :=
  match deref c v with
  | VInt z => match parse_int0 right with inl r => CSet (cmp_by o (Z.compare z r)) | inr _ => CUntouched end
  | VUint z => match parse_uint0 right with inl r => CSet (cmp_by o (Z.compare z r)) | inr _ => CUntouched end
  | VFloat t => if is_float_re right then cmp_float_text o t right else
                  (if is_plain_dec right then cmp_float_text o t right else CUntouched)
  | VBool b => match parse_bool right with
               | Some r => CSet (cmp_eq_only o (Bool.eqb b r))
               | None => CUntouched
               end
  | VBytes b => CSet (cmp_eq_only o (bytes_eqb b right))
  | VStr b => CSet (cmp_by o (bytes_cmp b right))
  | _ => CSet false
  end.

(* VectorInspector.Compare *)
Definition vector_compare (v : val) (o : Z) (right : bytes) (path : list bytes) : cmpres :=
  match v with
  | VNode j =>
      match jget j path with
      | JStr t => CSet (cmp_by o (bytes_cmp t right))
      | JBool b => CSet (cmp_by o (bytes_cmp (bool_bytes b) right))
      | JNum t =>
          match parse_int0 right with
          | inl r => CSet (cmp_by o (Z.compare (match parse_int10 t with inl z => z | inr _ => 0%Z end) r))
          | inr _ =>
              match parse_uint0 right with
              | inl r => CSet (cmp_by o (Z.compare (match parse_uint10 t with inl z => z | inr _ => 0%Z end) r))
              | inr _ =>
                  if is_float_re right && is_plain_dec right
                  then (if is_plain_dec t then CSet (cmp_by o (dec_cmp t right)) else CErr EUnsupported)
                  else (if is_float_re right then CErr EUnsupported else CUntouched)
              end
          end
      | _ => CSet false
      end
  | _ => CSet false
  end.

(* Compare of an inspc-generated struct inspector, on the field the path denotes *)
Definition field_compare (f : fval) (o : Z) (right : bytes) : cmpres :=
  match f with
  | FStr b => CSet (cmp_by o (bytes_cmp b right))
  | FBytes b => CSet (if Z.eqb o opEq then bytes_eqb b right else negb (bytes_eqb b right))
  | FInt bits z =>
      match parse_int0 right with
      | inl r => CSet (cmp_by o (Z.compare z (wrap_int bits r)))
      | inr e => CErr (EStrconv e)
      end
  | FUint bits z =>
      match parse_uint0 right with
      | inl r => CSet (cmp_by o (Z.compare z (wrap_uint bits r)))
      | inr e => CErr (EStrconv e)
      end
  | FFloat _ t =>
      if is_float_re right then cmp_float_text o t right else CErr (EStrconv ESyntax)
  | FBool b =>
      match parse_bool right with
      | Some r => CSet (if Z.eqb o opEq then Bool.eqb b r else negb (Bool.eqb b r))
      | None => CErr (EStrconv ESyntax)
      end
  end.

Definition ofuel : nat := 8.

Definition obj_compare (c : ctx) (v : val) (o : Z) (right : bytes) (path : list bytes) : cmpres :=
  match path, v with
  | [], _ => CUntouched
  | _, VObj oid prefix =>
      match nth_error (store c) oid with
      | Some ob =>
          match oresolve ofuel ob (prefix ++ path) with
          | RField f => field_compare f o right
          | RErr e => CErr (EStrconv e)
          | _ => CUntouched
          end
      | None => CUntouched
      end
  | _, _ => CUntouched
  end.

Definition ins_compare (c : ctx) (i : insk) (v : val) (o : Z) (right : bytes) (path : list bytes) : cmpres :=
  match i with
  | InsStatic => static_compare c v o right
  | InsVector => vector_compare v o right path
  | InsObj => obj_compare c v o right path
  | InsNil => CErr EUnsupported      (* a nil inspector would be dereferenced *)
  end.

(* bytealg.AppendSplit(buf[:0], path, ".", -1): nothing for the empty path *)
Definition split_path (p : bytes) : list bytes := match p with [] => [] | _ => split_byte 46 p end.

(* Ctx.cmp *)
Definition ctx_cmp (c : ctx) (path : bytes) (o : Z) (right : bytes) : ctx * bool :=
  match split_path path with
  | [] => (c, false)
  | k :: rest =>
      match find_var (vars c) k with
      | None => (c, false)
      | Some (v, i) =>
          let c := w_bufBl c false in
          match ins_compare c i v o right rest with
          | CErr e => (w_cerr c (Some e), false)
          | CSet b => (w_cerr (w_bufBl c b) None, b)
          | CUntouched => (w_cerr c None, false)
          end
      end
  end.

(* ------------------------------------------------------------ Ctx.get *)

Inductive getres := GVal (v : val) | GUntouched | GErr (e : err).

Definition ins_getto (c : ctx) (i : insk) (v : val) (path : list bytes) : getres :=
  match i with
  | InsStatic => GVal v
  | InsVector => match v with VNode j => GVal (VNode (jget j path)) | _ => GUntouched end
  | InsObj =>
      match v with
      | VObj oid prefix =>
          match nth_error (store c) oid with
          | Some ob =>
              match oresolve ofuel ob (prefix ++ path) with
              | RField f => GVal (val_of_fval f)
              | RObj rel => GVal (VObj oid rel)
              | ROther => GVal VOther
              | RNone => GUntouched
              | RErr e => GErr (EStrconv e)
              end
          | None => GUntouched
          end
      | _ => GUntouched
      end
  | InsNil => GVal v
  end.

(* the coalesce form a.{k1|k2|...}: first listed key that is not null *)
Fixpoint coalesce (j : json) (rest : list bytes) (tails : list bytes) (cur : val) : val :=
  match tails with
  | [] => cur
  | t :: r =>
      match t with
      | [] => coalesce j rest r cur
      | _ =>
          let x := jget j (rest ++ [t]) in
          if jis_null x then coalesce j rest r (VNode x) else VNode x
      end
  end.

Definition ctx_get (c : ctx) (path : bytes) (subset : list bytes) : ctx * val :=
  let c := w_bufX c VNil in
  match path, vars c with
  | [], _ => (c, VNil)
  | _, [] => (c, VNil)
  | _, _ =>
      match split_path path with
      | [] => (c, VNil)
      | k :: rest =>
          match find_var (vars c) k with
          | None => (c, VNil)
          | Some (VNode j, _) =>
              let r := match subset with
                       | [] => VNode (jget j rest)
                       | _ => coalesce j rest subset VNil
                       end in
              (w_bufX c r, r)
          | Some (v, InsNil) => (c, v)
          | Some (v, i) =>
              match ins_getto c i v rest with
              | GVal x => (w_cerr (w_bufX c x) None, x)
              | GUntouched => (w_cerr c None, VNil)
              | GErr e => (w_cerr c (Some e), VNil)
              end
          end
      end
  end.

(* ------------------------------------------------------------ Ctx.set *)

Definition is_ctx_name (s : bytes) : bool := bytes_eqb s (bs "ctx") || bytes_eqb s (bs "context").

Definition obj_setwb (c : ctx) (v : val) (x : val) (path : list bytes) : ctx * option err :=
  match path, v with
  | [], _ => (c, None)
  | _, VObj oid prefix =>
      match nth_error (store c) oid with
      | Some ob =>
          match oresolve ofuel ob (prefix ++ path) with
          | RField f =>
              match assign c f x with
              | Some f' => (w_store c (set_nth_l (store c) oid (oupdate ofuel ob (prefix ++ path) f')), None)
              | None => (c, None)
              end
          | RErr e => (c, Some (EStrconv e))
          | _ => (c, None)
          end
      | None => (c, None)
      end
  | _, _ => (c, None)
  end.

Definition ctx_set_path (U : ufuns) (c : ctx) (path : bytes) (x : val) (insName : bytes) : ctx * option err :=
  match path, vars c with
  | [], _ => (c, None)
  | _, [] => (c, None)
  | _, _ =>
      match split_path path with
      | [] => (c, None)
      | k :: rest =>
          if is_ctx_name k then
            match rest with
            | [] => (c, None)
            | _ =>
                let name := skipn (S (List.length k)) path in
                match insName with
                | _ :: _ =>
                    match u_ins U insName with
                    | Some i => (ctx_set c name x i, None)
                    | None => (c, Some EUnknownIns)
                    end
                | [] =>
                    match x with
                    | VNode JNull | VNode JAbsent => (c, None)
                    | VNode j => (ctx_set c name x InsVector, None)
                    | _ => (ctx_set c name x InsStatic, None)
                    end
                end
            end
          else
            match find_var (vars c) k with
            | None => (c, None)
            | Some (_, InsNil) => (c, None)
            | Some (v, i) =>
                let c := w_bufX c x in
                match i with
                | InsObj =>
                    let '(c', e) := obj_setwb c v x rest in
                    (w_cerr c' e, e)
                | _ => (w_cerr c None, None)
                end
            end
      end
  end.

(* ---------------------------------------------------- argument vectors *)

Fixpoint collect_args (c : ctx) (l : list arg) (acc : list val) : ctx * list val :=
  match l with
  | [] => (c, rev acc)
  | a :: r =>
      if a_static a then collect_args c r (VBytes (a_val a) :: acc)
      else let '(c', v) := ctx_get c (a_val a) (a_subset a) in
           collect_args c' r (deref c' v :: acc)
  end.

(* -------------------------------------------------------- builtin mods *)

Definition quotes : bytes := [34%N; 39%N; 96%N].

Definition mod_is_empty (c : ctx) (v : val) : bool :=
  match deref c v with
  | VBytes b | VStr b => match b with [] => true | _ => false end
  | VBool b => negb b
  | VInt z | VUint z => Z.eqb z 0
  | VFloat t => float_is_zero t
  | VNode JNull | VNode JAbsent => true
  | VNode (JArr xs) => match xs with [] => true | _ => false end
  | VNode (JObj xs) => match xs with [] => true | _ => false end
  | VNode j => match jbytes j with [] => true | _ => false end
  | _ => false
  end.

Definition check_true (c : ctx) (v : val) : bool :=
  match deref c v with
  | VBytes b | VStr b => is_true_text b
  | VBool b => b
  | VInt z | VUint z => Z.eqb z 1
  | VFloat t => bytes_eqb (norm_dec t) [49%N]
  | VNode j => jbool j
  | _ => false
  end.

(* result of a modifier: new scratch value or error; [None] leaves bufX as is *)
Definition mod_default (c : ctx) (v : val) (a : list val) : ctx * (option val) * option err :=
  if negb (mod_is_empty c v) then (c, None, None)
  else match a with
       | [] => (c, None, Some EModPoorArgs)
       | x :: _ =>
           match x with
           | VBytes b => (w_lenBB c (S (lenBB c)), Some (VBytes b), None)
           | VNode j => (w_lenBB c (S (lenBB c)), Some (VBytes (jbytes j)), None)
           | VStr _ | VBool _ | VInt _ | VUint _ | VFloat _ => (c, Some x, None)
           | _ => (c, Some VNil, None)
           end
       end.

(* ownArg: a bytes argument is copied to a bufBB slot of the context *)
Definition own_arg (c : ctx) (x : val) : ctx :=
  match x with VBytes _ => w_lenBB c (S (lenBB c)) | _ => c end.

Definition mod_ifthen (c : ctx) (v : val) (a : list val) : ctx * (option val) * option err :=
  match a with
  | [] => (c, None, Some EModNoArgs)
  | x :: _ => if check_true c v then (own_arg c x, Some x, None) else (c, None, None)
  end.

Definition mod_ifthenelse (c : ctx) (v : val) (a : list val) : ctx * (option val) * option err :=
  match a with
  | x :: y :: _ => if check_true c v then (own_arg c x, Some x, None) else (own_arg c y, Some y, None)
  | _ => (c, None, Some EModPoorArgs)
  end.

Inductive bmod := BDefault | BIfThen | BIfThenElse | BNop.

Definition builtin_mod (name : bytes) : option bmod :=
  if bytes_eqb name (bs "default") || bytes_eqb name (bs "def") then Some BDefault
  else if bytes_eqb name (bs "ifThen") || bytes_eqb name (bs "if") then Some BIfThen
  else if bytes_eqb name (bs "ifThenElse") || bytes_eqb name (bs "ifel") then Some BIfThenElse
  else if bytes_eqb name (bs "bar::baz") then Some BNop
  else None.

(* ----------------------------------------------------- builtin getters *)

Inductive bget := GCrc32 | GAtoi | GAtou | GAtof | GAtob | GItoa | GUtoa.

Definition builtin_getter (name : bytes) : option bget :=
  if bytes_eqb name (bs "crc32") then Some GCrc32
  else if bytes_eqb name (bs "strToInt") || bytes_eqb name (bs "atoi") then Some GAtoi
  else if bytes_eqb name (bs "strToUint") || bytes_eqb name (bs "atou") then Some GAtou
  else if bytes_eqb name (bs "strToFloat") || bytes_eqb name (bs "atof") then Some GAtof
  else if bytes_eqb name (bs "strToBool") || bytes_eqb name (bs "atob") then Some GAtob
  else if bytes_eqb name (bs "intToStr") || bytes_eqb name (bs "itoa") then Some GItoa
  else if bytes_eqb name (bs "uintToStr") || bytes_eqb name (bs "utoa") then Some GUtoa
  else None.

Definition crc_piece (v : val) : bytes :=
  match v with
  | VBytes b | VStr b => b
  | VNode j => jbytes j
  | _ => []
  end.

(* Node.String() *)
Definition jstring (j : json) : bytes := jbytes j.

Definition atox_raw (v : val) : option bytes :=
  match v with
  | VNode j => Some (jstring j)
  | VStr b | VBytes b => Some b
  | _ => None
  end.

Definition run_bget (c : ctx) (g : bget) (a : list val) : ctx * (option val) * option err :=
  match g with
  | GCrc32 =>
      match a with
      | [] => (c, None, Some EGetterPoorArgs)
      | _ => (c, Some (VInt (Z.of_N (crc32_ieee (List.concat (map crc_piece a))))), None)
      end
  | GAtoi | GAtou | GAtof | GAtob =>
      match a with
      | [] => (c, None, Some EGetterPoorArgs)
      | x :: _ =>
          match atox_raw x with
          | None => (c, None, None)
          | Some raw =>
              match g with
              | GAtoi => match parse_int10 raw with
                         | inl z => (c, Some (VInt z), None)
                         | inr e => (c, None, Some (EStrconv e))
                         end
              | GAtou => match parse_uint10 raw with
                         | inl z => (c, Some (VUint z), None)
                         | inr e => (c, None, Some (EStrconv e))
                         end
              | GAtob => match parse_bool raw with
                         | Some b => (c, Some (VBool b), None)
                         | None => (c, None, Some (EStrconv ESyntax))
                         end
              | _ => if is_plain_dec raw && is_float_re raw then (c, Some (VFloat (norm_dec raw)), None)
                     else (c, None, Some EUnsupported)
              end
          end
      end
  | GItoa =>
      match a with
      | [] => (c, None, Some EGetterPoorArgs)
      | x :: _ =>
          let c := w_lenBB c (S (lenBB c)) in
          match x with
          | VNode j => (c, Some (VBytes (jbytes j)), None)
          | VInt z => (c, Some (VBytes (format_int z)), None)
          | _ => (c, None, Some EUnknownType)
          end
      end
  | GUtoa =>
      match a with
      | [] => (c, None, Some EGetterPoorArgs)
      | x :: _ =>
          let c := w_lenBB c (S (lenBB c)) in
          match x with
          | VNode j => (c, Some (VBytes (jbytes j)), None)
          | VUint z => (c, Some (VBytes (format_uint z)), None)
          | _ => (c, None, Some EUnknownType)
          end
      end
  end.

(* ------------------------------------------------------------ nodeCmp *)

(* the both-dynamic route renders the right operand with WriteX *)
Definition cmp_dynamic (c : ctx) (l : bytes) (o : Z) (r : bytes) : ctx * bool * option err :=
  let '(c, _) := ctx_get c r [] in
  match cerr c with
  | Some _ => (c, false, None)
  | None =>
      match x2bytes c (bufX c) with
      | None => (c, false, Some EUnknownType)
      | Some b => let '(c', ok) := ctx_cmp c l o b in (c', ok, None)
      end
  end.

Definition node_cmp (c : ctx) (n : node) : ctx * bool * option err :=
  let sl := condStaticL n in
  let sr := condStaticR n in
  if sl && sr then (c, false, Some ESenseless)
  else if sr then let '(c', ok) := ctx_cmp c (condL n) (condOp n) (condR n) in (c', ok, None)
  else if sl then let '(c', ok) := ctx_cmp c (condR n) (op_swap (condOp n)) (condL n) in (c', ok, None)
  else cmp_dynamic c (condL n) (condOp n) (condR n).

(* ------------------------------------------------------- loop helpers *)

Definition iface2int (c : ctx) (v : val) : option Z :=
  match deref c v with
  | VInt z => Some z
  | VUint z => Some (wrap_int 64 z)
  | VBytes b | VStr b =>
      match b with
      | [] => Some 0%Z
      | _ => match parse_int0 b with inl z => Some z | inr _ => Some 0%Z end
      end
  | VNode j => jint j
  | _ => None
  end.

Definition cloop_range (c : ctx) (static_ : bool) (b : bytes) : ctx * Z :=
  if static_ then
    match parse_int0 b with
    | inl z => (w_cerr c None, z)
    | inr e => (w_cerr c (Some (EStrconv e)), 0%Z)
    end
  else
    let '(c, raw) := ctx_get c b [] in
    match cerr c with
    | Some _ => (c, 0%Z)
    | None =>
        match iface2int c raw with
        | Some z => (c, z)
        | None => (w_cerr c (Some EWrongLoopLim), 0%Z)
        end
    end.

Definition loop_allows (o : Z) (v lim : Z) : option bool :=
  if Z.eqb o opLt then Some (Z.ltb v lim)
  else if Z.eqb o opLtq then Some (Z.leb v lim)
  else if Z.eqb o opGt then Some (Z.gtb v lim)
  else if Z.eqb o opGtq then Some (Z.geb v lim)
  else if Z.eqb o opEq then Some (Z.eqb v lim)
  else if Z.eqb o opNq then Some (negb (Z.eqb v lim))
  else None.

Definition step64 (o : Z) (v : Z) : option Z :=
  if Z.eqb o opInc then Some (wrap_int 64 (v + 1))
  else if Z.eqb o opDec then Some (wrap_int 64 (v - 1))
  else None.

Definition dec_brk (c : ctx) : ctx := match brkD c with O => c | S k => w_brkD c k end.

Definition is_sig (e : option err) (s : err) : bool :=
  match e with Some x => err_eqb x s | None => false end.

(* outcome of one pass over a loop body *)
Inductive bodyres :=
| BNone            (* ran to its end *)
| BLazy            (* ran to its end, lazybreak seen *)
| BBreak | BCont
| BFail (e : err). (* a rule failed *)

(* ------------------------------------------------------- the interpreter *)

Section FOLLOW.
Variable U : ufuns.

Definition trimq (b : bytes) : bytes := unquote_with quotes b.

Definition call_cond (c : ctx) (name : bytes) (al : list arg) : ctx * option bool :=
  match u_cond U name with
  | None => (c, None)
  | Some f =>
      let '(c, a) := collect_args c al [] in
      let failed := match snd (f (ncalls c) a) with Some _ => true | None => false end in
      let '(c, n) := log_call c (kind_of (bs "cond") failed) name a in
      let '(b, e) := f n a in
      (match e with Some x => w_cerr c (Some x) | None => c end, Some b)
  end.

Section WITH_REC.
(* [fr] is followRule at smaller fuel *)
Variable fr : node -> ctx -> ctx * option err.

(* DecodeRuleset: stops at the first failing rule or break / continue; a
   lazybreak is remembered, the rest of the block runs, and the signal is handed
   on afterwards; a continue that comes after a remembered lazybreak ends the
   iteration and the loop, i.e. is a break *)
Fixpoint rules_lz (l : list node) (c : ctx) (lz : bool) : ctx * option err :=
  match l with
  | [] => (c, if lz then Some ELBreak else None)
  | n :: r =>
      match fr n c with
      | (c', None) => rules_lz r c' lz
      | (c', Some ELBreak) => rules_lz r c' true
      | (c', Some ECont) => (c', if lz then Some EBreak else Some ECont)
      | res => res
      end
  end.
Definition rules (l : list node) (c : ctx) : ctx * option err := rules_lz l c false.

(* the body of one loop iteration, as both loop drivers read it *)
Fixpoint body (l : list node) (c : ctx) (lazy : bool) : ctx * bodyres :=
  match l with
  | [] => (c, if lazy then BLazy else BNone)
  | n :: r =>
      match fr n c with
      | (c', None) => body r c' lazy
      | (c', Some ELBreak) => body r c' true
      | (c', Some EBreak) => (c', BBreak)
      | (c', Some ECont) => (c', if lazy then BLazy else BCont)
      | (c', Some e) => (c', BFail e)
      end
  end.

(* counter loop, [k] bounds the number of iterations the model will run *)
Fixpoint cloop_run (k : nat) (n : node) (idx : nat) (v lim : Z) (c : ctx) : ctx :=
  match k with
  | O => w_cerr c (Some EFuel)
  | S k' =>
      let '(c, allow) := match loop_allows (loopCondOp n) v lim with
                         | Some a => (c, a)
                         | None => (w_cerr c (Some EWrongLoopCond), false)
                         end in
      let allow := allow && Nat.eqb (brkD c) 0 in
      if negb allow then dec_brk c
      else
        let c := ctx_set c (loopCnt n) (VLC idx) InsStatic in
        let '(c, br) := body (child n) c false in
        match br with
        | BFail e => w_cerr c (Some e)
        | _ =>
            match step64 (loopCntOp n) v with
            | None =>
                (* default: ctx.Err = ErrWrongLoopOp; the counter is not stepped *)
                let c := w_cerr c (Some EWrongLoopOp) in
                let c := ctx_set c (loopCnt n) (VLC idx) InsStatic in
                match br with
                | BBreak | BLazy => dec_brk c
                | _ => cloop_run k' n idx v lim c
                end
            | Some v' =>
                let c := w_bufLC c (set_nth_l (bufLC c) idx (match step64 (loopCntOp n) (nth idx (bufLC c) 0%Z) with Some x => x | None => 0%Z end)) in
                (* the counter variable is pointed at the counter again (the storage may have moved) *)
                let c := ctx_set c (loopCnt n) (VLC idx) InsStatic in
                match br with
                | BBreak | BLazy => dec_brk c
                | _ => cloop_run k' n idx v' lim c
                end
            end
        end
  end.

Definition cloop (k : nat) (n : node) (c : ctx) : ctx :=
  let '(c, cnt) := cloop_range c (loopCntStatic n) (loopCntInit n) in
  match cerr c with
  | Some _ => c
  | None =>
      let '(c, lim) := cloop_range c (loopLimStatic n) (loopLim n) in
      match cerr c with
      | Some _ => c
      | None =>
          let idx := List.length (bufLC c) in
          let c := w_bufLC c (bufLC c ++ [cnt]) in
          cloop_run k n idx cnt lim c
      end
  end.

(* RangeLoop.Iterate; [brk] is rl.brk.  Returns the new rl.brk and the LoopCtl
   (true = LoopCtlBrk). *)
Definition iterate (n : node) (c : ctx) (brk : bool) : ctx * bool * bool :=
  if brk then (c, true, true)
  else if negb (Nat.eqb (brkD c) 0) then (dec_brk c, true, true)
  else
    let '(c, br) := body (child n) c false in
    match br with
    | BBreak | BLazy => (dec_brk c, true, true)
    | BCont => (c, false, false)
    | BFail e => (w_cerr c (Some e), true, true)
    | BNone => if negb (Nat.eqb (brkD c) 0) then (dec_brk c, true, true) else (c, false, false)
    end.

Definition set_key (n : node) (c : ctx) (i : nat) : ctx :=
  match loopKey n with
  | [] => c
  | k => ctx_set c k (VBytes (format_int (Z.of_nat i))) InsStatic
  end.

(* VectorInspector.Loop: Node.Each cannot be stopped *)
Fixpoint vloop (n : node) (xs : list json) (i : nat) (c : ctx) (brk : bool) : ctx :=
  match xs with
  | [] => c
  | x :: r =>
      let c := set_key n c i in
      let c := ctx_set c (loopVal n) (VNode x) InsVector in
      let '(c, brk', _) := iterate n c brk in
      vloop n r (S i) c brk'
  end.

(* generated struct inspector: honours LoopCtlBrk *)
Fixpoint oloop_run (n : node) (oid : nat) (sp : list bytes) (cnt : nat) (i : nat) (c : ctx) (brk : bool) : ctx :=
  match cnt with
  | O => c
  | S cnt' =>
      let c := set_key n c i in
      let c := ctx_set c (loopVal n) (VObj oid (sp ++ [format_int (Z.of_nat i)])) InsObj in
      let '(c, brk', stop) := iterate n c brk in
      if stop then c else oloop_run n oid sp cnt' (S i) c brk'
  end.

(* after the loop the key variable gets its own copy of the key (a bufBB slot):
   the loop object's key buffer is reused by the next loop *)
Definition key_slot (n : node) (c : ctx) : ctx :=
  match loopKey n with [] => c | _ => w_lenBB c (S (lenBB c)) end.

(* Ctx.rloop *)
Definition rloop (n : node) (c : ctx) : ctx :=
  match split_path (loopSrc n) with
  | [] => c
  | k :: rest =>
      match find_var (vars c) k with
      | None => c
      | Some (v, i) =>
          let c := w_cerr c None in
          match i with
          | InsVector =>
              match v with
              | VNode j =>
                  (* Node.Each on a node without children that is not the null node (an
                     empty array or object, a scalar) visits whatever node the document
                     index holds at its offset: dependency behaviour outside the model
                     (known finding KF-C05-childless). *)
                  match jget j rest with
                  | JAbsent => c
                  | JArr (_ :: _) | JObj (_ :: _) => key_slot n (vloop n (jchildren (jget j rest)) 0 c false)
                  | _ => w_cerr c (Some EUnsupported)
                  end
              | _ => c
              end
          | InsObj =>
              match v with
              | VObj oid prefix =>
                  match nth_error (store c) oid with
                  | Some ob =>
                      match oloop ofuel ob (prefix ++ rest) with
                      | Some (sp, cnt) =>
                          let c' := oloop_run n oid sp cnt 0 c false in
                          match cnt with O => c' | S _ => key_slot n c' end
                      | None => c
                      end
                  | None => c
                  end
              | _ => c
              end
          | InsStatic => c
          | InsNil => w_cerr c (Some EUnsupported)
          end
      end
  end.

(* classic switch: scan cases in order *)
Fixpoint switch_classic (sw : node) (l : list node) (c : ctx) (ok : bool) : ctx * bool * option err * bool :=
  (* returns ctx, ok, error, and whether the function returned early (error before default) *)
  match l with
  | [] => (c, ok, None, false)
  | ch :: r =>
      let '(c, ok, e, early) :=
        if Z.eqb (typ ch) typeCase then
          if caseStaticL ch then
            let '(c', b) := ctx_cmp c (switchArg sw) opEq (trimq (caseL ch)) in (c', b, None, false)
          else
            let '(c', _) := ctx_get c (caseL ch) [] in
            match cerr c' with
            | Some _ => (c', ok, None, false)
            | None =>
                match x2bytes c' (bufX c') with
                | None => (c', ok, Some EUnknownType, true)
                | Some b => let '(c'', b') := ctx_cmp c' (switchArg sw) opEq b in (c'', b', None, false)
                end
            end
        else (c, ok, None, false) in
      if early then (c, ok, e, true)
      else if ok then let '(c', e') := fr ch c in (c', true, e', false)
      else switch_classic sw r c ok
  end.

Fixpoint switch_nocond (l : list node) (c : ctx) (ok : bool) : ctx * bool * option err * bool :=
  match l with
  | [] => (c, ok, None, false)
  | ch :: r =>
      if Z.eqb (typ ch) typeCase then
        let '(c, ok, e, early) :=
          match caseHlp ch with
          | _ :: _ =>
              match call_cond c (caseHlp ch) (caseHlpArg ch) with
              | (c', None) => (c', ok, Some ECondHlpNotFound, true)
              | (c', Some b) => (c', b, None, false)
              end
          | [] =>
              let sl := caseStaticL ch in
              let sr := caseStaticR ch in
              if sl && sr then (c, ok, Some ESenseless, true)
              else if sr then let '(c', b) := ctx_cmp c (caseL ch) (caseOp ch) (trimq (caseR ch)) in (c', b, None, false)
              else if sl then let '(c', b) := ctx_cmp c (caseR ch) (op_swap (caseOp ch)) (trimq (caseL ch)) in (c', b, None, false)
              else
                let '(c', _) := ctx_get c (caseR ch) [] in
                match cerr c' with
                | Some _ => (c', ok, None, false)
                | None =>
                    match x2bytes c' (bufX c') with
                    | None => (c', ok, Some EUnknownType, true)
                    | Some b => let '(c'', b') := ctx_cmp c' (caseL ch) (caseOp ch) b in (c'', b', None, false)
                    end
                end
          end in
        if early then (c, ok, e, true)
        else match cerr c with
             | Some x => (c, ok, Some x, true)
             | None =>
                 if ok then let '(c', e') := fr ch c in (c', true, e', false)
                 else switch_nocond r c ok
             end
      else switch_nocond r c ok
  end.

Fixpoint first_default (l : list node) : option node :=
  match l with
  | [] => None
  | ch :: r => if Z.eqb (typ ch) typeDefault then Some ch else first_default r
  end.

(* modifier chain of a dynamic assignment *)
Fixpoint run_mods (ms : list modn) (c : ctx) (raw : val) : ctx * val :=
  match ms with
  | [] => (c, raw)
  | m :: r =>
      let '(c, a) := collect_args c (m_arg m) [] in
      let c := w_bufX c raw in
      let '(c, res, e) :=
        match builtin_mod (m_id m) with
        | Some BDefault => mod_default c raw a
        | Some BIfThen => mod_ifthen c raw a
        | Some BIfThenElse => mod_ifthenelse c raw a
        | Some BNop => (c, None, None)
        | None =>
            match u_mod U (m_id m) with
            | None => (c, None, Some EUnsupported)
            | Some f =>
                let failed := match f (ncalls c) (deref c raw) a with inr _ => true | inl _ => false end in
                let '(c, n) := log_call c (kind_of (bs "mod") failed) (m_id m) (deref c raw :: a) in
                match f n (deref c raw) a with
                | inl v => (c, Some v, None)
                | inr x => (c, None, Some x)
                end
            end
        end in
      let c := match res with Some v => w_bufX c v | None => c end in
      let c := w_cerr c e in
      match e with
      | Some _ => (c, raw)
      | None => run_mods r c (bufX c)
      end
  end.

Definition branch (n : node) (c : ctx) (ok : bool) (e0 : option err) : ctx * option err :=
  if ok then
    match child n with
    | ch :: _ => fr ch c
    | [] => (c, e0)
    end
  else
    match child n with
    | _ :: ch :: _ => fr ch c
    | _ => (c, e0)
    end.

End WITH_REC.

Definition nonempty (b : bytes) : bool := match b with [] => false | _ => true end.

(* followRule *)
Fixpoint follow (fuel : nat) (r : node) (c : ctx) {struct fuel} : ctx * option err :=
  match fuel with
  | O => (c, Some EFuel)
  | S f =>
    let fr := follow f in
    let t := typ r in
    if Z.eqb t typeLoopRange then
      let p := brkD c in
      let c := rloop fr r (w_brkD c 0) in
      let c := if Nat.ltb (brkD c) p then w_brkD c p else c in
      (c, cerr c)
    else if Z.eqb t typeLoopCount then
      let p := brkD c in
      let c := cloop fr f r (w_brkD c 0) in
      let c := if Nat.ltb (brkD c) p then w_brkD c p else c in
      (c, cerr c)
    else if Z.eqb t typeBreak then (w_brkD c (Z.to_nat (loopBrkD r)), Some EBreak)
    else if Z.eqb t typeLBreak then (w_brkD c (Z.to_nat (loopBrkD r)), Some ELBreak)
    else if Z.eqb t typeContinue then (c, Some ECont)
    else if Z.eqb t typeCondOK then
      match condHlp r with
      | [] => (c, None)
      | _ =>
          match u_condok U (condHlp r) with
          | None => (c, Some ECondHlpNotFound)
          | Some fn =>
              let '(c, a) := collect_args c (condHlpArg r) [] in
              let '(c, n) := log_call c (bs "condok") (condHlp r) a in
              let '(v, okv) := fn n a in
              let c := w_bufBl (w_bufX c v) okv in
              let insn := match condIns r with [] => bs "static" | x => x end in
              match u_ins U insn with
              | None => (c, Some EUnknownIns)
              | Some i =>
                  let c := ctx_set c (condOKL r) v i in
                  let c := ctx_set c (condOKR r) (VBool okv) InsStatic in
                  let '(c, ok, e) :=
                    match condR r with
                    | [] => (c, okv, None)
                    | _ => node_cmp c r
                    end in
                  branch fr r c ok e
              end
          end
      end
    else if Z.eqb t typeCond then
      let '(c, ok, e, early) :=
        match condHlp r with
        | _ :: _ =>
            if Z.eqb (condLC r) lcNone then
              match call_cond c (condHlp r) (condHlpArg r) with
              | (c', None) => (c', false, Some ECondHlpNotFound, true)
              | (c', Some b) => (c', b, None, false)
              end
            else (c, false, Some EUnsupported, true)
        | [] => let '(c', b, e') := node_cmp c r in (c', b, e', false)
        end in
      if early then (c, e)
      else match cerr c with
           | Some x => (c, Some x)
           | None => branch fr r c ok e
           end
    else if Z.eqb t typeCondTrue || Z.eqb t typeCondFalse || Z.eqb t typeCase || Z.eqb t typeDefault then
      rules fr (child r) c
    else if Z.eqb t typeSwitch then
      let '(c, ok, e, early) :=
        match switchArg r with
        | _ :: _ => switch_classic fr r (child r) c false
        | [] => switch_nocond fr (child r) c false
        end in
      if early then (c, e)
      else if ok then (c, e)
      else match first_default (child r) with
           | Some d => fr d c
           | None => (c, e)
           end
    else if callback r then
      let '(c, a) := collect_args c (args r) [] in
      match u_cb U (src r) with
      | None => (c, Some EUnsupported)
      | Some fn =>
          let failed := match fn (ncalls c) a with Some _ => true | None => false end in
          let '(c, n) := log_call c (kind_of (bs "cb") failed) (src r) a in
          (c, fn n a)
      end
    else if getter r then
      let '(c, a) := collect_args c (args r) [] in
      let c := w_bufX c VNil in
      let '(c, res, e) :=
        match builtin_getter (src r) with
        | Some g => run_bget c g a
        | None =>
            match u_get U (src r) with
            | None => (c, None, Some EUnsupported)
            | Some fn =>
                let failed := match fn (ncalls c) a with inr _ => true | inl _ => false end in
                let '(c, n) := log_call c (kind_of (bs "get") failed) (src r) a in
                match fn n a with
                | inl v => (c, Some v, None)
                | inr x => (c, None, Some x)
                end
            end
        end in
      let c := match res with Some v => w_bufX c v | None => c end in
      match e with
      | Some _ => (c, e)
      | None => ctx_set_path U c (dst r) (bufX c) (ins r)
      end
    else if nonempty (dst r) && static r then
      let c := w_lenBB c (S (lenBB c)) in
      ctx_set_path U c (dst r) (VBytes (src r)) (ins r)
    else if nonempty (dst r) && nonempty (src r) && negb (static r) then
      let '(c, raw) := ctx_get c (src r) (subset r) in
      match cerr c with
      | Some x => (c, Some x)
      | None =>
          let '(c, raw) := run_mods (mods r) c raw in
          match cerr c with
          | Some x => (c, Some x)
          | None => ctx_set_path U c (dst r) raw (ins r)
          end
      end
    else (c, None)
  end.

(* DecodeRuleset at top level *)
Definition decode (fuel : nat) (t : list node) (c : ctx) : ctx * option err :=
  rules (follow fuel) t c.

End FOLLOW.
