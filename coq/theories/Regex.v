(* Regex.v -- executable mirror of Go's regexp engine (leftmost-first, Perl
   syntax) for the AST subset used by the decoder's expressions.

   The AST is what regexp/syntax.Parse(p, syntax.Perl).Simplify() yields,
   with two normalisations done by the translator (harness/retrans):
     - n-ary OpConcat / OpAlternate are nested to the right (RCat / RAlt);
       this preserves the priority order of the backtracking search;
     - an OpLiteral carrying the FoldCase flag is split into exact literals
       (runes whose simple-fold orbit is trivial) and one-rune classes that
       list the whole orbit (e.g. k -> {K, k, U+212A}); this is exactly the
       test Go's Inst.MatchRunePos performs, so no case tables are needed
       here and [re] has no fold flag.
   Non-greedy operators, OpRepeat (gone after Simplify), line anchors and
   word boundaries are not representable; the translator rejects them.

   Input is a byte string.  Runes are decoded on the fly exactly like Go's
   utf8.DecodeRune: an invalid or truncated sequence yields U+FFFD of
   width 1.  Literals, classes and the dot all work on decoded runes.

   Matching is backtracking in continuation-passing style.  Priorities:
   left alternative first, greedy repetition prefers one more iteration.
   The first success wins.  Captures are threaded through the search, so a
   group inside a repetition keeps the value of the last iteration it took
   part in (as in Go).  Stdlib only, definitions only. *)
From Coq Require Import List NArith Bool Arith.
From Dec Require Import Bytes.
Import ListNotations.

Inductive re : Type :=
| REmpty                          (* OpEmptyMatch *)
| RNoMatch                        (* OpNoMatch: empty class *)
| RLit (rs : list N)              (* OpLiteral: runes, compared exactly *)
| RClass (rs : list (N * N))      (* OpCharClass: inclusive rune ranges *)
| RAnyNotNL                       (* OpAnyCharNotNL *)
| RAny                            (* OpAnyChar *)
| RBeginText                      (* OpBeginText *)
| REndText                        (* OpEndText *)
| RCapture (i : nat) (r : re)     (* OpCapture, group index i >= 1 *)
| RStar (r : re)                  (* OpStar, greedy *)
| RPlus (r : re)                  (* OpPlus, greedy *)
| RQuest (r : re)                 (* OpQuest, greedy *)
| RCat (r1 r2 : re)               (* OpConcat *)
| RAlt (r1 r2 : re).              (* OpAlternate, r1 has priority *)

(* ------------------------------------------------------------------ *)
(* UTF-8 decoding, as utf8.DecodeRune.                                  *)

Definition rune_error : N := 65533%N.

Definition in_rng (lo hi x : N) : bool := (N.leb lo x && N.leb x hi)%bool.

Definition is_cont (b : N) : bool := in_rng 128 191 b.

(* [decode s] = None at end of input, else (rune, width, rest). *)
Definition decode (s : bytes) : option (N * nat * bytes) :=
  match s with
  | [] => None
  | b0 :: t =>
    if N.ltb b0 128 then Some (b0, 1, t)
    else
      let bad := Some (rune_error, 1, t) in
      if in_rng 194 223 b0 then
        match t with
        | b1 :: t1 =>
          if is_cont b1 then Some (((b0 - 192) * 64 + (b1 - 128))%N, 2, t1) else bad
        | _ => bad
        end
      else if in_rng 224 239 b0 then
        match t with
        | b1 :: b2 :: t2 =>
          let lo := if N.eqb b0 224 then 160%N else 128%N in
          let hi := if N.eqb b0 237 then 159%N else 191%N in
          if (in_rng lo hi b1 && is_cont b2)%bool then
            Some (((b0 - 224) * 4096 + (b1 - 128) * 64 + (b2 - 128))%N, 3, t2)
          else bad
        | _ => bad
        end
      else if in_rng 240 244 b0 then
        match t with
        | b1 :: b2 :: b3 :: t3 =>
          let lo := if N.eqb b0 240 then 144%N else 128%N in
          let hi := if N.eqb b0 244 then 143%N else 191%N in
          if (in_rng lo hi b1 && is_cont b2 && is_cont b3)%bool then
            Some (((b0 - 240) * 262144 + (b1 - 128) * 4096
                   + (b2 - 128) * 64 + (b3 - 128))%N, 4, t3)
          else bad
        | _ => bad
        end
      else bad
  end.

Fixpoint in_class (rs : list (N * N)) (x : N) : bool :=
  match rs with
  | [] => false
  | (lo, hi) :: t => if in_rng lo hi x then true else in_class t x
  end.

(* ------------------------------------------------------------------ *)
(* Matcher.                                                            *)

Definition caps := list (option (nat * nat)).

(* Three-valued outcome of a search. *)
Inductive mres : Type :=
| MFail                (* no match *)
| MFuel                (* iteration budget exhausted; never happens with [re_fuel] *)
| MOk (c : caps).      (* match, groups 0..ncap *)

Fixpoint set_cap (i : nat) (v : nat * nat) (c : caps) : caps :=
  match c with
  | [] => []
  | x :: t =>
    match i with
    | O => Some v :: t
    | S i' => x :: set_cap i' v t
    end
  end.

(* Continuations and matchers receive: rest of input, byte offset of that
   rest in the whole input, current captures. *)
Definition kont := bytes -> nat -> caps -> mres.
Definition matcher := kont -> kont.

(* One rune satisfying [f]. *)
Definition m_rune (f : N -> bool) : matcher :=
  fun k s p c =>
    match decode s with
    | Some (x, w, s') => if f x then k s' (w + p) c else MFail
    | None => MFail
    end.

Fixpoint m_lit (rs : list N) : matcher :=
  match rs with
  | [] => fun k => k
  | x :: t => let mt := m_lit t in fun k => m_rune (N.eqb x) (mt k)
  end.

(* Iterations of [body], mirroring Go's compilation of x+ as
   L: x; alt(L, out), and of x* as (x+)? when x can match empty (for x
   that cannot, the plain loop alt(x -> loop, out) is the same thing).
   Go's engines never revisit an (instruction, position) pair on one
   search path, which for these loops means:
     - an empty first iteration is accepted, but the loop is then left;
     - an empty later iteration fails.
   [n] bounds the number of iterations; every iteration that is followed
   by another one consumes at least one byte, so [length s + 1] is always
   enough (RegexFacts.re_exec_fuel). *)
Fixpoint same_len (a b : bytes) : bool :=
  match a, b with
  | [], [] => true
  | _ :: a', _ :: b' => same_len a' b'
  | _, _ => false
  end.

Fixpoint m_loop (body : matcher) (n : nat) (first : bool) : matcher :=
  match n with
  | O => fun _ _ _ _ => MFuel
  | S n' =>
    fun k s p c =>
      body (fun s' p' c' =>
              if same_len s' s then
                if first then k s' p' c' else MFail
              else
                match m_loop body n' false k s' p' c' with
                | MFail => k s' p' c'
                | x => x
                end) s p c
  end.

Fixpoint m (fuel : nat) (r : re) {struct r} : matcher :=
  match r with
  | REmpty => fun k => k
  | RNoMatch => fun _ _ _ _ => MFail
  | RLit rs => m_lit rs
  | RClass rs => m_rune (in_class rs)
  | RAnyNotNL => m_rune (fun x => negb (N.eqb x 10))
  | RAny => m_rune (fun _ => true)
  | RBeginText => fun k s p c => match p with O => k s p c | S _ => MFail end
  | REndText => fun k s p c => match s with [] => k s p c | _ :: _ => MFail end
  | RCapture i r1 =>
    let m1 := m fuel r1 in
    fun k s p c => m1 (fun s' p' c' => k s' p' (set_cap i (p, p') c')) s p c
  | RStar r1 =>
    let lp := m_loop (m fuel r1) fuel true in
    fun k s p c => match lp k s p c with MFail => k s p c | x => x end
  | RPlus r1 => m_loop (m fuel r1) fuel true
  | RQuest r1 =>
    let m1 := m fuel r1 in
    fun k s p c => match m1 k s p c with MFail => k s p c | x => x end
  | RCat r1 r2 =>
    let m1 := m fuel r1 in
    let m2 := m fuel r2 in
    fun k => m1 (m2 k)
  | RAlt r1 r2 =>
    let m1 := m fuel r1 in
    let m2 := m fuel r2 in
    fun k s p c => match m1 k s p c with MFail => m2 k s p c | x => x end
  end.

(* Iteration budget per loop; sufficient for every input (RegexFacts). *)
Definition re_fuel (s : bytes) : nat := S (List.length s).

(* Anchored attempt at offset [p], [s] being the input from [p] on. *)
Definition match_here (mr : matcher) (ncap : nat) (s : bytes) (p : nat) : mres :=
  mr (fun _ p' c' => MOk (set_cap 0 (p, p') c')) s p (repeat None (S ncap)).

(* Unanchored search: start offsets in increasing order, advancing by the
   width of the rune at the current offset, the end of input included
   (Go: backtrack / NFA main loops).  [n] only makes the recursion
   structural; [S (length s)] start offsets exist at most. *)
Fixpoint search (mr : matcher) (ncap : nat) (n : nat) (s : bytes) (p : nat) : mres :=
  match n with
  | O => MFuel
  | S n' =>
    match match_here mr ncap s p with
    | MFail =>
      match decode s with
      | None => MFail
      | Some (_, w, s') => search mr ncap n' s' (w + p)
      end
    | x => x
    end
  end.

Definition re_exec (r : re) (ncap : nat) (s : bytes) : mres :=
  search (m (re_fuel s) r) ncap (S (List.length s)) s 0.

(* FindSubmatchIndex: None = no match (Go: nil).  Out of fuel is mapped to
   None as well; [re_exec] distinguishes it and RegexFacts.re_exec_fuel
   shows it does not occur. *)
Definition re_find (r : re) (ncap : nat) (s : bytes)
  : option (list (option (nat * nat))) :=
  match re_exec r ncap s with
  | MOk c => Some c
  | _ => None
  end.

(* Match *)
Definition re_match (r : re) (ncap : nat) (s : bytes) : bool :=
  match re_find r ncap s with Some _ => true | None => false end.

Definition slice (s : bytes) (i j : nat) : bytes := firstn (j - i) (skipn i s).

(* FindSubmatch; an unset group is the empty slice (Go: nil slice). *)
Definition re_submatch (r : re) (ncap : nat) (s : bytes) : option (list bytes) :=
  match re_find r ncap s with
  | Some gs =>
    Some (map (fun g => match g with
                        | Some (i, j) => slice s i j
                        | None => []
                        end) gs)
  | None => None
  end.
