(* Crc.v -- hash/crc32.ChecksumIEEE and hash/crc64 with the ISO polynomial,
   as table-driven reflected CRCs over N. Stdlib only. *)
From Coq Require Import List NArith.
From Dec Require Import Bytes.
Import ListNotations.
Local Open Scope N_scope.

(* one table entry: 8 rounds of the reflected shift register *)
Definition crc_step (poly c : N) : N :=
  if N.odd c then N.lxor (N.shiftr c 1) poly else N.shiftr c 1.

Definition crc_entry (poly i : N) : N :=
  crc_step poly (crc_step poly (crc_step poly (crc_step poly
  (crc_step poly (crc_step poly (crc_step poly (crc_step poly i))))))).

Definition mk_table (poly : N) : list N :=
  map (fun i => crc_entry poly (N.of_nat i)) (seq 0 256).

(* crc32.IEEE = 0xedb88320 *)
Definition tbl32 : list N := Eval vm_compute in mk_table 3988292384.
(* crc64.ISO = 0xD800000000000000 *)
Definition tbl64 : list N := Eval vm_compute in mk_table 15564440312192434176.

Definition crc_update (tbl : list N) (crc : N) (s : bytes) : N :=
  fold_left
    (fun c b => N.lxor (nth (N.to_nat (N.land (N.lxor c b) 255)) tbl 0)
                       (N.shiftr c 8))
    s crc.

Definition mask32 : N := 4294967295.
Definition mask64 : N := 18446744073709551615.

(* crc32.ChecksumIEEE(s) *)
Definition crc32_ieee (s : bytes) : N :=
  N.lxor (crc_update tbl32 mask32 s) mask32.

(* crc64.Checksum(s, crc64.MakeTable(crc64.ISO)) *)
Definition crc64_iso (s : bytes) : N :=
  N.lxor (crc_update tbl64 mask64 s) mask64.
