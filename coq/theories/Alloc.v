(* Alloc.v -- the reuse discipline of the context's growable buffers (C11).
   Each buffer has a capacity; a demand for k elements allocates iff k exceeds
   the capacity and then raises it to (at least) k; Reset truncates lengths and
   keeps capacities.  A decode is, for this purpose, the sequence of demands it
   makes, which depends on the program and the document but not on the
   capacities. *)
From Coq Require Import List Arith Lia Bool.
Import ListNotations.

(* a demand: buffer id and the length it must hold *)
Definition demand := (nat * nat)%type.

Definition caps := nat -> nat.

Definition need (c : caps) (d : demand) : caps * bool :=
  let '(b, k) := d in
  if Nat.leb k (c b) then (c, false)
  else ((fun x => if Nat.eqb x b then k else c x), true).

(* run a trace of demands: resulting capacities and number of allocations *)
Fixpoint run_trace (c : caps) (t : list demand) : caps * nat :=
  match t with
  | [] => (c, 0)
  | d :: r =>
      let '(c1, a) := need c d in
      let '(c2, n) := run_trace c1 r in
      (c2, (if a then 1 else 0) + n)
  end.

Definition caps_after (c : caps) (t : list demand) : caps := fst (run_trace c t).
Definition allocs (c : caps) (t : list demand) : nat := snd (run_trace c t).
