(* AuditDefs.v -- the lock-structure audit of db.go: data emitted by the
   translator (generated/Audit.v) and the checker that decides it.  Every
   method of `db` is a tree of events; [lock_discipline] walks it with the
   state of the RWMutex as the code would hold it. *)
From Coq Require Import List String Bool.
Import ListNotations.
Local Open Scope string_scope.

Inductive aev :=
| ALock | AUnlock | ARLock | ARUnlock
| ADeferUnlock | ADeferRUnlock
| ARead (field : string) | AWrite (field : string)
| ACall (method : string)
| AOther.                      (* a construct the translator does not understand *)

Inductive astmt :=
| SEv (e : aev)
| SIf (a b : list astmt)
| SLoop (b : list astmt)
| SRet.

Inductive lstate := LNone | LR | LW.
Definition lstate_eqb (a b : lstate) : bool :=
  match a, b with LNone, LNone | LR, LR | LW, LW => true | _, _ => false end.

(* state while walking: the lock held and whether an unlock is deferred *)
Record wstate := mkW { held : lstate; deferred : bool }.

(* outcome of walking a statement list: failure, all paths returned, or falls
   through in a state *)
Inductive wres := WFail (why : string) | WRet | WGo (s : wstate).

Fixpoint assoc_s {A} (k : string) (l : list (string * A)) : option A :=
  match l with
  | [] => None
  | (k', v) :: r => if String.eqb k k' then Some v else assoc_s k r
  end.

(* does a method take the lock itself? *)
Fixpoint takes_lock (l : list astmt) : bool :=
  match l with
  | [] => false
  | SEv ALock :: _ | SEv ARLock :: _ => true
  | SIf a b :: r => (fix go (x : list astmt) := match x with [] => false | SEv ALock :: _ | SEv ARLock :: _ => true | _ :: y => go y end) a
                    || (fix go (x : list astmt) := match x with [] => false | SEv ALock :: _ | SEv ARLock :: _ => true | _ :: y => go y end) b
                    || takes_lock r
  | _ :: r => takes_lock r
  end.

Section WALK.
Variable methods : list (string * list astmt).

Fixpoint walk (fuel : nat) (l : list astmt) (s : wstate) : wres :=
  match fuel with
  | O => WFail "fuel"
  | S f =>
    match l with
    | [] => WGo s
    | st :: r =>
        let next (s' : wstate) := walk f r s' in
        match st with
        | SRet =>
            if deferred s || lstate_eqb (held s) LNone then WRet
            else WFail "return while holding the lock"
        | SIf a b =>
            match walk f a s, walk f b s with
            | WFail w, _ | _, WFail w => WFail w
            | WRet, WRet => WRet
            | WRet, WGo s' | WGo s', WRet => next s'
            | WGo s1, WGo s2 =>
                if lstate_eqb (held s1) (held s2) && Bool.eqb (deferred s1) (deferred s2) then next s1
                else WFail "branches leave the lock in different states"
            end
        | SLoop b =>
            match walk f b s with
            | WFail w => WFail w
            | WRet => next s
            | WGo s' =>
                if lstate_eqb (held s') (held s) && Bool.eqb (deferred s') (deferred s) then next s
                else WFail "loop body changes the lock state"
            end
        | SEv e =>
            match e with
            | ALock => if lstate_eqb (held s) LNone then next (mkW LW (deferred s)) else WFail "Lock while holding the lock"
            | ARLock => if lstate_eqb (held s) LNone then next (mkW LR (deferred s)) else WFail "RLock while holding the lock"
            | AUnlock => if lstate_eqb (held s) LW then next (mkW LNone false) else WFail "Unlock without write lock"
            | ARUnlock => if lstate_eqb (held s) LR then next (mkW LNone false) else WFail "RUnlock without read lock"
            | ADeferUnlock => if lstate_eqb (held s) LW then next (mkW LW true) else WFail "defer Unlock without write lock"
            | ADeferRUnlock => if lstate_eqb (held s) LR then next (mkW LR true) else WFail "defer RUnlock without read lock"
            | ARead _ => if lstate_eqb (held s) LNone then WFail "shared field read outside a lock region" else next s
            | AWrite _ => if lstate_eqb (held s) LW then next s else WFail "shared field written without the write lock"
            | ACall m =>
                match assoc_s m methods with
                | None => WFail "call of an unknown db method"
                | Some body =>
                    if takes_lock body then
                      (if lstate_eqb (held s) LNone then next s else WFail "call of a locking method while holding the lock")
                    else
                      (* a lock-free helper: its accesses happen under the caller's lock *)
                      match walk f body (mkW (held s) true) with
                      | WFail w => WFail w
                      | _ => next s
                      end
                end
            | AOther => WFail "construct outside the audit's language"
            end
        end
    end
  end.

(* a method is fine if, entered without the lock, every path ends without it
   (or with a deferred unlock) -- or it is a lock-free helper only ever called
   under a lock (checked at its call sites) *)
Definition method_ok (body : list astmt) : bool :=
  if takes_lock body then
    match walk 200 body (mkW LNone false) with
    | WRet => true
    | WGo s => deferred s || lstate_eqb (held s) LNone
    | WFail _ => false
    end
  else true.

(* lock-free helpers must be called from somewhere under a lock, or touch nothing *)
Fixpoint touches (l : list astmt) : bool :=
  match l with
  | [] => false
  | SEv (ARead _) :: _ | SEv (AWrite _) :: _ => true
  | SIf a b :: r => (fix go (x : list astmt) := match x with [] => false | SEv (ARead _) :: _ | SEv (AWrite _) :: _ => true | _ :: y => go y end) a
                    || (fix go (x : list astmt) := match x with [] => false | SEv (ARead _) :: _ | SEv (AWrite _) :: _ => true | _ :: y => go y end) b
                    || touches r
  | SLoop b :: r => (fix go (x : list astmt) := match x with [] => false | SEv (ARead _) :: _ | SEv (AWrite _) :: _ => true | _ :: y => go y end) b || touches r
  | _ :: r => touches r
  end.

End WALK.

(* names of the lock-free helpers that touch shared fields: they may only be
   reached through db's own locked methods (unexported, checked by listing) *)
Definition lockfree_helpers (methods : list (string * list astmt)) : list string :=
  map fst (filter (fun m => negb (takes_lock (snd m)) && touches (snd m)) methods).

Definition lock_discipline (methods : list (string * list astmt)) : bool :=
  forallb (fun m => method_ok methods (snd m)) methods.

Definition why_not (methods : list (string * list astmt)) : list (string * string) :=
  flat_map (fun m => if takes_lock (snd m) then
                       match walk methods 200 (snd m) (mkW LNone false) with
                       | WFail w => [(fst m, w)]
                       | WGo s => if deferred s || lstate_eqb (held s) LNone then [] else [(fst m, "ends while holding the lock")]
                       | WRet => []
                       end
                     else []) methods.

(* ---- one critical section per method.  [acquisitions] is the largest number
   of times a path through the method takes the lock (directly or by calling a
   locking method); a loop that takes it counts as "more than once".  A method
   with at most one acquisition reads and writes the registry inside a single
   region: what it does is atomic with respect to every other method. *)
Section SECTIONS.
Variable methods : list (string * list astmt).

Fixpoint acquisitions (fuel : nat) (l : list astmt) : nat :=
  match fuel with
  | O => 2
  | S f =>
    match l with
    | [] => 0
    | SRet :: _ => 0
    | SEv ALock :: r | SEv ARLock :: r => S (acquisitions f r)
    | SEv (ACall m) :: r =>
        match assoc_s m methods with
        | Some body => (if takes_lock body then 1 else 0) + acquisitions f r
        | None => 2
        end
    | SEv _ :: r => acquisitions f r
    | SIf a b :: r => Nat.max (acquisitions f a) (acquisitions f b) + acquisitions f r
    | SLoop b :: r => (match acquisitions f b with O => 0 | _ => 2 end) + acquisitions f r
    end
  end.

Definition one_section (body : list astmt) : bool := Nat.leb (acquisitions 200 body) 1.
End SECTIONS.

Definition single_sections (methods : list (string * list astmt)) : bool :=
  forallb (fun m => one_section methods (snd m)) methods.

Definition several_sections (methods : list (string * list astmt)) : list string :=
  map fst (filter (fun m => negb (one_section methods (snd m))) methods).
