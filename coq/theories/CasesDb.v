(* CasesDb.v -- evaluator for registry correspondence cases (C12, C20 part).
   A case is a history of register calls, each carrying the marker of a fresh
   tree, together with the lookup table the real registry showed after every
   call.  [mismatches] returns the indices of the cases on which the model's
   table differs. *)
From Coq Require Import List NArith ZArith Bool String.
Local Open Scope string_scope.
From Dec Require Import Bytes Db DbSpec.
Import ListNotations.

(* trees are represented by their marker *)
Definition mk_hsum (m : N) : N := m.
Definition mk_src (m : N) : option bytes := Some [m].

Definition obs_ids : list Z := [0%Z; 1%Z; 9%Z; (-1)%Z].
Definition obs_keys : list bytes := [bs "a"; bs "b"; bs "z"; nokey].

Definition table (d : db N) : list (option N) :=
  map (lookup_id d) obs_ids ++
  map (lookup_key d) obs_keys ++
  flat_map (fun k => map (fun fb => lookup_fb d k fb) obs_keys) obs_keys.

Definition spec_table (s : spec N) : list (option N) :=
  map (mI s) obs_ids ++
  map (mK s) obs_keys ++
  flat_map (fun k => map (fun fb => spec_fb s k fb) obs_keys) obs_keys.

Fixpoint run_tables (d : db N) (ops : list (regop N)) : list (list (option N)) :=
  match ops with
  | [] => []
  | o :: r => let d' := apply_reg N mk_hsum mk_src d o in table d' :: run_tables d' r
  end.

Fixpoint spec_tables (s : spec N) (ops : list (regop N)) : list (list (option N)) :=
  match ops with
  | [] => []
  | o :: r => let s' := spec_apply s o in spec_table s' :: spec_tables s' r
  end.

Definition optN_eqb (a b : option N) : bool :=
  match a, b with
  | Some x, Some y => N.eqb x y
  | None, None => true
  | _, _ => false
  end.

Fixpoint list_eqb {A} (eqb : A -> A -> bool) (a b : list A) : bool :=
  match a, b with
  | [], [] => true
  | x :: a', y :: b' => eqb x y && list_eqb eqb a' b'
  | _, _ => false
  end.

Definition tables_eqb := list_eqb (list_eqb optN_eqb).

Definition dbcase := (list (regop N) * list (list (option N)))%type.

(* model vs observed; and, on valid histories, abstract spec vs observed *)
Definition case_ok (c : dbcase) : bool :=
  let '(ops, observed) := c in
  tables_eqb (run_tables initDB ops) observed &&
  (if valid_histb spec_init ops then tables_eqb (spec_tables spec_init ops) observed else true).

Fixpoint mismatches_from (i : nat) (cs : list dbcase) : list nat :=
  match cs with
  | [] => []
  | c :: r => if case_ok c then mismatches_from (S i) r else i :: mismatches_from (S i) r
  end.
Definition mismatches := mismatches_from 0.
