(* Db.v -- the decoder registry of db.go, statement by statement.

   Go maps are modelled as total functions into [option nat] (lookups and
   point updates are all the code does with them); [buf] is a list of slots.
   The tree type is a parameter: the registry only reads a tree's checksum and
   recorded text (set (..) and getTreeByHash). *)
From Coq Require Import List NArith ZArith Bool Lia.
From Dec Require Import Bytes.
Import ListNotations.

Section DB.
Variable T : Type.
Variable t_hsum : T -> N.
Variable t_src : T -> option bytes.

Record decoder := { d_id : Z; d_key : bytes; d_tree : T }.

Record db := {
  idxID : Z -> option nat;
  idxKey : bytes -> option nat;
  idxHash : N -> option nat;
  buf : list decoder;
}.

Definition initDB : db :=
  {| idxID := fun _ => None; idxKey := fun _ => None; idxHash := fun _ => None; buf := [] |}.

(* the key that stands for "no key" in RegisterDecoderID, the bytes of "-1" *)
Definition nokey : bytes := [45%N; 49%N].

Definition upd_Z (m : Z -> option nat) (k : Z) (v : nat) : Z -> option nat :=
  fun x => if Z.eqb x k then Some v else m x.
Definition upd_B (m : bytes -> option nat) (k : bytes) (v : nat) : bytes -> option nat :=
  fun x => if bytes_eqb x k then Some v else m x.
Definition upd_N (m : N -> option nat) (k : N) (v : nat) : N -> option nat :=
  fun x => if N.eqb x k then Some v else m x.

(* getIdxLF: key index first, then id index.  (Go's "idx1 != -1" tests are
   vacuous for indexes that only ever hold slot numbers.) *)
Definition getIdxLF (d : db) (id : Z) (key : bytes) : option nat :=
  match idxKey d key with
  | Some i => Some i
  | None => idxID d id
  end.

Fixpoint set_nth {A} (l : list A) (n : nat) (x : A) : list A :=
  match l, n with
  | [], _ => []
  | _ :: r, O => x :: r
  | y :: r, S n' => y :: set_nth r n' x
  end.

Definition in_range (d : db) (o : option nat) : option nat :=
  match o with
  | Some i => if Nat.ltb i (length (buf d)) then Some i else None
  | None => None
  end.

(* db.set *)
Definition set (d : db) (id : Z) (key : bytes) (t : T) : db :=
  let dec := {| d_id := id; d_key := key; d_tree := t |} in
  let '(buf', idx) :=
    match in_range d (getIdxLF d id key) with
    | Some i => (set_nth (buf d) i dec, i)
    | None => (buf d ++ [dec], length (buf d))
    end in
  let iid := if Z.leb 0 id then upd_Z (idxID d) id idx else idxID d in
  let ikey := if bytes_eqb key nokey then idxKey d else upd_B (idxKey d) key idx in
  let ihash :=
    match idxHash d (t_hsum t), t_src t with
    | None, Some _ => upd_N (idxHash d) (t_hsum t) idx
    | _, _ => idxHash d
    end in
  {| idxID := iid; idxKey := ikey; idxHash := ihash; buf := buf' |}.

(* db.get *)
Definition get (d : db) (id : Z) (key : bytes) : option decoder :=
  match in_range d (getIdxLF d id key) with
  | Some i => nth_error (buf d) i
  | None => None
  end.

Definition getID (d : db) (id : Z) := get d id nokey.
Definition getKey (d : db) (key : bytes) := get d (-1)%Z key.

(* db.getKey1 *)
Definition getKey1 (d : db) (key key1 : bytes) : option decoder :=
  let o := match idxKey d key with Some i => Some i | None => idxKey d key1 end in
  match in_range d o with
  | Some i => nth_error (buf d) i
  | None => None
  end.

Definition opt_bytes_eqb (a : option bytes) (b : bytes) : bool :=
  match a with Some x => bytes_eqb x b | None => false end.

(* db.getTreeByHash (after the repair: checksum and text must both match) *)
Definition getTreeByHash (d : db) (h : N) (src : bytes) : option T :=
  match in_range d (idxHash d h) with
  | Some i =>
      match nth_error (buf d) i with
      | Some dec =>
          let t := d_tree dec in
          match t_src t with
          | Some s => if N.eqb (t_hsum t) h && bytes_eqb s src then Some t else None
          | None => None
          end
      | None => None
      end
  | None => None
  end.

(* The exported API of decoder.go on top of it. *)
Inductive regop :=
| RegBoth (id : Z) (key : bytes) (t : T)   (* RegisterDecoder *)
| RegID (id : Z) (t : T)                   (* RegisterDecoderID *)
| RegKey (key : bytes) (t : T).            (* RegisterDecoderKey *)

Definition apply_reg (d : db) (o : regop) : db :=
  match o with
  | RegBoth id key t => set d id key t
  | RegID id t => set d id nokey t
  | RegKey key t => set d (-1)%Z key t
  end.

Definition lookup_key (d : db) (k : bytes) : option T := option_map d_tree (getKey d k).
Definition lookup_id (d : db) (id : Z) : option T := option_map d_tree (getID d id).
Definition lookup_fb (d : db) (k fb : bytes) : option T := option_map d_tree (getKey1 d k fb).

Definition run_regs (ops : list regop) : db := fold_left apply_reg ops initDB.

End DB.

Arguments initDB {T}.
Arguments idxID {T}. Arguments idxKey {T}. Arguments idxHash {T}. Arguments buf {T}.
Arguments d_id {T}. Arguments d_key {T}. Arguments d_tree {T}.
Arguments getIdxLF {T}. Arguments in_range {T}.
Arguments get {T}. Arguments getID {T}. Arguments getKey {T}. Arguments getKey1 {T}.
Arguments lookup_key {T}. Arguments lookup_id {T}. Arguments lookup_fb {T}.
Arguments RegBoth {T}. Arguments RegID {T}. Arguments RegKey {T}.
