(* Tree.v -- the parsed rule tree (tree_node.go), field for field.  Function
   values (getter, callback, modifier fn) are represented by a flag; their
   registered name is what the parser leaves in [src] / [m_id]. *)
From Coq Require Import List NArith ZArith Bool.
From Dec Require Import Bytes.
Import ListNotations.

Record arg := mkArg { a_val : bytes; a_subset : list bytes; a_static : bool }.
Record modn := mkMod { m_id : bytes; m_arg : list arg }.

Inductive node := mkNode {
  typ : Z;
  dst : bytes; src : bytes; ins : bytes;
  subset : list bytes;
  getter : bool; callback : bool;
  static : bool;
  mods : list modn;
  args : list arg;
  child : list node;
  loopKey : bytes; loopVal : bytes; loopSrc : bytes;
  loopCnt : bytes; loopCntInit : bytes; loopCntStatic : bool;
  loopCntOp : Z; loopCondOp : Z;
  loopLim : bytes; loopLimStatic : bool;
  loopBrkD : Z;
  condL : bytes; condOKL : bytes; condR : bytes; condOKR : bytes;
  condStaticL : bool; condStaticR : bool;
  condOp : Z;
  condHlp : bytes; condHlpArg : list arg; condIns : bytes;
  condLC : Z;
  switchArg : bytes;
  caseL : bytes; caseR : bytes; caseStaticL : bool; caseStaticR : bool;
  caseOp : Z;
  caseHlp : bytes; caseHlpArg : list arg;
}.

(* rtype *)
Definition typeOperator : Z := 0.
Definition typeLoopRange : Z := 1.
Definition typeLoopCount : Z := 2.
Definition typeLBreak : Z := 3.
Definition typeBreak : Z := 4.
Definition typeContinue : Z := 5.
Definition typeCond : Z := 6.
Definition typeCondOK : Z := 7.
Definition typeCondTrue : Z := 8.
Definition typeCondFalse : Z := 9.
Definition typeElse : Z := 10.
Definition typeDiv : Z := 11.
Definition typeSwitch : Z := 12.
Definition typeCase : Z := 13.
Definition typeDefault : Z := 14.

(* op *)
Definition opUnk : Z := 0.
Definition opEq : Z := 1.
Definition opNq : Z := 2.
Definition opGt : Z := 3.
Definition opGtq : Z := 4.
Definition opLt : Z := 5.
Definition opLtq : Z := 6.
Definition opInc : Z := 7.
Definition opDec : Z := 8.

(* lc *)
Definition lcNone : Z := 0.
Definition lcLen : Z := 1.
Definition lcCap : Z := 2.

(* an all-empty node, the Go zero value with typ = typeOperator *)
Definition node0 : node :=
  mkNode 0 [] [] [] [] false false false [] [] []
         [] [] [] [] [] false 0 0 [] false 0
         [] [] [] [] false false 0 [] [] [] 0
         [] [] [] false false 0 [] [].

(* size of a tree, used for fuel bounds *)
Fixpoint node_size (n : node) : nat :=
  S ((fix go (l : list node) : nat :=
        match l with [] => O | x :: r => node_size x + go r end) (child n)).
Definition nodes_size (l : list node) : nat := fold_right (fun n a => node_size n + a) O l.
