(* Conc.v -- two small interleaving models.

   (a) Goroutines with private state over shared immutable data: N threads,
       each stepping its own state; any schedule.  (C10)
   (b) A readers-writer lock around a shared value: writer operations are
       sequences of primitive writes (not atomic by themselves), reader
       operations sequences of primitive reads; threads are scheduled
       arbitrarily and block as sync.RWMutex blocks them.  (C13) *)
From Coq Require Import List Arith Bool Lia.
Import ListNotations.

(* ------------------------------------------------------------------ (a) *)

Section PRIVATE.
Variable S : Type.                       (* a goroutine's private state: its context, destination, trace *)
Variable step : nat -> S -> S.           (* thread i's next step; reads shared immutable data only *)

Fixpoint upd {A} (l : list A) (i : nat) (x : A) : list A :=
  match l, i with
  | [], _ => []
  | _ :: r, O => x :: r
  | y :: r, Datatypes.S j => y :: upd r j x
  end.

(* one scheduling decision: thread i takes a step (out-of-range ids stutter) *)
Definition sched_step (st : list S) (i : nat) : list S :=
  match nth_error st i with
  | Some s => upd st i (step i s)
  | None => st
  end.

Definition run (st : list S) (sched : list nat) : list S := fold_left sched_step sched st.

(* the solo run of thread i: as many steps as the schedule gives it *)
Fixpoint iter (n : nat) (f : S -> S) (s : S) : S := match n with O => s | Datatypes.S k => iter k f (f s) end.

End PRIVATE.

(* ------------------------------------------------------------------ (b) *)

Section RWLOCK.
Variable D : Type.

Inductive top :=
| TW (steps : list (D -> D))       (* a writer operation: Lock; primitive writes; Unlock *)
| TR (reads : nat).                (* a reader operation: RLock; that many reads of the shared value; RUnlock *)

Inductive tstate :=
| NotStarted
| InW (rest : list (D -> D)) (all : list (D -> D))
| InR (rest : nat) (obs : list D)
| Done (obs : list D).

Inductive mode := Free | Wr (t : nat) | Rd (ts : list nat).

Record cfg := mkCfg {
  shared : D;
  lk : mode;
  ths : nat -> tstate;
  completed : list (list (D -> D));       (* ghost: writer operations in the order they released the lock *)
}.

Definition set_th (f : nat -> tstate) (i : nat) (x : tstate) : nat -> tstate :=
  fun j => if Nat.eqb j i then x else f j.

Fixpoint remove_nat (i : nat) (l : list nat) : list nat :=
  match l with [] => [] | x :: r => if Nat.eqb x i then remove_nat i r else x :: remove_nat i r end.

Variable prog : nat -> top.              (* what each thread does *)

(* thread i is scheduled: it takes its next step if the lock lets it, else it waits *)
Definition tstep (c : cfg) (i : nat) : cfg :=
  match ths c i with
  | NotStarted =>
      match prog i, lk c with
      | TW steps, Free => mkCfg (shared c) (Wr i) (set_th (ths c) i (InW steps steps)) (completed c)
      | TR n, Free => mkCfg (shared c) (Rd [i]) (set_th (ths c) i (InR n [])) (completed c)
      | TR n, Rd l => mkCfg (shared c) (Rd (i :: l)) (set_th (ths c) i (InR n [])) (completed c)
      | _, _ => c                                        (* blocked *)
      end
  | InW (f :: r) all => mkCfg (f (shared c)) (lk c) (set_th (ths c) i (InW r all)) (completed c)
  | InW [] all => mkCfg (shared c) Free (set_th (ths c) i (Done [])) (completed c ++ [all])
  | InR (Datatypes.S n) obs => mkCfg (shared c) (lk c) (set_th (ths c) i (InR n (shared c :: obs))) (completed c)
  | InR O obs =>
      let l' := match lk c with Rd l => remove_nat i l | _ => [] end in
      mkCfg (shared c) (match l' with [] => Free | _ => Rd l' end) (set_th (ths c) i (Done obs)) (completed c)
  | Done _ => c
  end.

Definition init (d0 : D) : cfg := mkCfg d0 Free (fun _ => NotStarted) [].
Definition exec (d0 : D) (sched : list nat) : cfg := fold_left tstep sched (init d0).

Definition apply_op (d : D) (op : list (D -> D)) : D := fold_left (fun x f => f x) op d.
Definition apply_ops (d : D) (ops : list (list (D -> D))) : D := fold_left apply_op ops d.

End RWLOCK.
