(* C12 -- The decoder registry resolves every id and key to its decoder's
   latest tree.  Only statements here; proofs are in proofs/DbProofs.v. *)
From Coq Require Import List NArith ZArith Bool String.
From Dec Require Import Bytes Db DbSpec.
From Dec.proofs Require Import DbProofs.
Import ListNotations.
Local Open Scope string_scope.

Section C12.
Variable T : Type.
Variable t_hsum : T -> N.
Variable t_src : T -> option bytes.

(* Full statement: on every finite history of register calls that respects the
   partner constraint (non-negative ids, keys other than "-1"), each of the
   three lookups of the concrete registry -- the model of db.go that the
   correspondence check ties to the code -- returns what the abstract registry
   returns, for every identifier, registered or not. *)
Theorem C12_db_refines_spec : forall ops : list (regop T),
  valid_hist spec_init ops ->
  (forall id, lookup_id (run_regs T t_hsum t_src ops) id = mI (spec_run ops) id) /\
  (forall k, lookup_key (run_regs T t_hsum t_src ops) k = mK (spec_run ops) k) /\
  (forall k fb, lookup_fb (run_regs T t_hsum t_src ops) k fb = spec_fb (spec_run ops) k fb).
Proof. exact (db_refines_spec T t_hsum t_src). Qed.

(* The abstract registry says what the property says. *)

(* every identifier a call names resolves to that call's tree afterwards *)
Theorem C12_named_resolve_to_latest : forall (s : spec T) (o : regop T),
  match o with
  | RegBoth id key t => mI (spec_apply s o) id = Some t /\ mK (spec_apply s o) key = Some t
  | RegID id t => mI (spec_apply s o) id = Some t
  | RegKey key t => mK (spec_apply s o) key = Some t
  end.
Proof. exact (spec_named_latest T). Qed.

(* ... and so does every identifier paired with one of them *)
Theorem C12_partner_resolves_to_latest : forall (s : spec T) (o : regop T),
  match o with
  | RegID id t => forall k, pK s id = Some k -> mK (spec_apply s o) k = Some t
  | RegKey key t => forall id, pI s key = Some id -> mI (spec_apply s o) id = Some t
  | RegBoth _ _ _ => True
  end.
Proof. exact (spec_partner_latest T). Qed.

(* other decoders are unaffected *)
Theorem C12_others_unaffected : forall (s : spec T) (o : regop T),
  (forall id, (match o with
               | RegBoth i _ _ => id <> i
               | RegID i _ => id <> i
               | RegKey k _ => pI s k <> Some id
               end) -> mI (spec_apply s o) id = mI s id) /\
  (forall key, (match o with
               | RegBoth _ k _ => key <> k
               | RegKey k _ => key <> k
               | RegID i _ => pK s i <> Some key
               end) -> mK (spec_apply s o) key = mK s key).
Proof. exact (spec_others_unaffected T). Qed.

(* an identifier no call ever named is not found *)
Theorem C12_unregistered_id_not_found : forall (ops : list (regop T)) id,
  (forall o, In o ops -> ~ names_id T o id) -> mI (spec_run ops) id = None.
Proof. exact (spec_unregistered_id T). Qed.

Theorem C12_unregistered_key_not_found : forall (ops : list (regop T)) key,
  (forall o, In o ops -> ~ names_key T o key) -> mK (spec_run ops) key = None.
Proof. exact (spec_unregistered_key T). Qed.

(* the executable validity test used in case files and examples is sound *)
Theorem C12_validity_check_sound : forall (ops : list (regop T)) (s : spec T),
  valid_histb s ops = true -> valid_hist s ops.
Proof. exact (valid_histb_sound T). Qed.

End C12.

(* Non-vacuity: a valid history that pairs, re-registers through the partner
   and leaves another decoder alone; the concrete registry answers as stated. *)
Example C12_nonvacuous :
  let ops := [RegKey (bs "k") 1%N; RegBoth 5%Z (bs "k") 2%N; RegID 7%Z 3%N; RegID 5%Z 4%N] in
  valid_histb spec_init ops = true /\
  lookup_id (run_regs N (fun m => m) (fun m => Some [m]) ops) 5%Z = Some 4%N /\
  lookup_key (run_regs N (fun m => m) (fun m => Some [m]) ops) (bs "k") = Some 4%N /\
  lookup_id (run_regs N (fun m => m) (fun m => Some [m]) ops) 7%Z = Some 3%N /\
  lookup_id (run_regs N (fun m => m) (fun m => Some [m]) ops) 9%Z = None.
Proof. vm_compute. repeat split. Qed.

Print Assumptions C12_db_refines_spec.
Print Assumptions C12_named_resolve_to_latest.
Print Assumptions C12_partner_resolves_to_latest.
Print Assumptions C12_others_unaffected.
Print Assumptions C12_unregistered_id_not_found.
Print Assumptions C12_unregistered_key_not_found.
Print Assumptions C12_validity_check_sound.
