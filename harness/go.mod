module verifharness

go 1.18

require (
	github.com/koykov/decoder v0.0.0
	github.com/koykov/inspector v1.4.6
	github.com/koykov/jsonvector v1.2.5
	github.com/koykov/vector v1.2.6
	github.com/koykov/x2bytes v1.0.2
)

require (
	github.com/koykov/bitset v1.0.0 // indirect
	github.com/koykov/bytealg v1.0.4 // indirect
	github.com/koykov/bytebuf v1.0.9 // indirect
	github.com/koykov/byteconv v1.0.0 // indirect
	github.com/koykov/byteseq v1.0.1 // indirect
	github.com/koykov/clock v1.1.3 // indirect
	github.com/koykov/entry v1.0.2 // indirect
	github.com/koykov/indirect v1.0.1 // indirect
	github.com/koykov/openrt v0.0.0-20240411200908-3abd933415e1 // indirect
	github.com/koykov/vector_inspector v1.0.6 // indirect
	golang.org/x/sys v0.10.0 // indirect
	golang.org/x/tools v0.11.1 // indirect
)

replace github.com/koykov/decoder => /repo
