package retrans

import (
	"os"
	"path/filepath"
	"strings"
	"testing"
)

func writePkg(t *testing.T, src string) string {
	t.Helper()
	d := t.TempDir()
	if err := os.WriteFile(filepath.Join(d, "a.go"), []byte(src), 0o644); err != nil {
		t.Fatal(err)
	}
	return d
}

func TestExtractFolds(t *testing.T) {
	d := writePkg(t, "package p\nimport re \"regexp\"\nvar (\n a = re.MustCompile(`x(y)` + \"\\\\d\" + (`z`))\n b, c = 1, re.MustCompile(\"(a)(b)\")\n)\n")
	rs, err := Extract(d)
	if err != nil {
		t.Fatal(err)
	}
	if len(rs) != 2 || rs[0].Name != "a" || rs[0].Pattern != `x(y)\dz` || rs[0].NumCap != 1 || rs[1].Name != "c" || rs[1].NumCap != 2 {
		t.Fatalf("unexpected %+v", rs)
	}
}

func TestExtractRejects(t *testing.T) {
	for name, src := range map[string]string{
		"non-constant": "package p\nimport \"regexp\"\nvar s = `a`\nvar a = regexp.MustCompile(s)\n",
		"local":        "package p\nimport \"regexp\"\nfunc f() { _ = regexp.MustCompile(`a`) }\n",
		"posix":        "package p\nimport \"regexp\"\nvar a = regexp.MustCompilePOSIX(`a`)\n",
		"sprintf":      "package p\nimport (\"regexp\"; \"fmt\")\nvar a = regexp.MustCompile(fmt.Sprint(`a`))\n",
	} {
		if _, err := Extract(writePkg(t, src)); err == nil {
			t.Errorf("%s: expected an error", name)
		}
	}
}

func TestTermSubset(t *testing.T) {
	for _, p := range []string{
		`for (\w*)\s*:*=\s*(\w+)\s*;\s*\w+\s*(<|<=|>|>=|!=)+\s*([^;]+)\s*;\s*\w*(--|\+\+)+\s*\{`,
		`case ([^<=>!]+)([<=>!]{2})*(.*):`,
		`(?i)k=stra\x{df}e`,
	} {
		tm, err := Term(p)
		if err != nil {
			t.Errorf("%q: %v", p, err)
		}
		if strings.Contains(tm, "RRepeat") {
			t.Errorf("%q: %s", p, tm)
		}
	}
	for _, p := range []string{`a*?`, `a+?b`, `a??`, `\bx`, `\Bx`, `(?m)^a`, `(?m)a$`} {
		if tm, err := Term(p); err == nil {
			t.Errorf("%q: expected an error, got %s", p, tm)
		}
	}
}

func TestFoldOrbit(t *testing.T) {
	got := FoldOrbit('k')
	want := []rune{'K', 'K', 'k', 'k', 0x212a, 0x212a}
	if string(got) != string(want) {
		t.Fatalf("orbit of k: %v", got)
	}
	tm, err := Term(`(?i)ks`)
	if err != nil || !strings.Contains(tm, "8490") || !strings.Contains(tm, "383") {
		t.Fatalf("fold literal: %s %v", tm, err)
	}
}

func TestEmitDeterministic(t *testing.T) {
	rs := []Regex{{Name: "b", Pattern: `"(x)*"`, NumCap: 1}, {Name: "a", Pattern: `(.*)`, NumCap: 1}}
	s1, err := EmitCoq(rs)
	if err != nil {
		t.Fatal(err)
	}
	s2, _ := EmitCoq([]Regex{rs[1], rs[0]})
	if s1 != s2 || strings.Index(s1, "re_a") > strings.Index(s1, "re_b") {
		t.Fatal("output not sorted/deterministic")
	}
	if !strings.Contains(s1, `"""(x)*"""%string`) {
		t.Fatalf("quote escaping: %s", s1)
	}
	if _, err := EmitCoq([]Regex{{Name: "a", Pattern: `(x)`, NumCap: 0}}); err == nil {
		t.Fatal("capture count mismatch must be reported")
	}
}
