// Package retrans extracts the regular expressions of the decoder package
// from its sources and translates them into terms of the Coq type
// Dec.Regex.re (see /verif/coq/theories/Regex.v).
//
// The translation goes through Go's own regexp/syntax: the pattern is parsed
// with syntax.Perl (what regexp.MustCompile uses) and simplified, which is the
// tree the regexp compiler consumes. Anything outside the subset modelled in
// Regex.v is an error.
package retrans

import (
	"fmt"
	"go/ast"
	"go/parser"
	"go/token"
	"os"
	"path/filepath"
	"regexp/syntax"
	"sort"
	"strconv"
	"strings"
	"unicode"
)

// Regex is one package-level `name = regexp.MustCompile(pattern)`.
type Regex struct {
	Name    string // Go identifier
	Pattern string // folded pattern text
	NumCap  int    // number of capture groups (without group 0)
	File    string // base name of the source file
	Line    int
}

var compileFuncs = map[string]bool{
	"MustCompile": true, "Compile": true, "MustCompilePOSIX": true, "CompilePOSIX": true,
}

// Extract parses all non-test .go files in repoDir (not recursing) and
// returns every package-level variable initialised with regexp.MustCompile of
// a constant-foldable string. Any other use of a regexp compile function
// (inside a function body, POSIX variants, non-constant argument) is an error,
// because the Coq model would silently miss it.
func Extract(repoDir string) ([]Regex, error) {
	ents, err := os.ReadDir(repoDir)
	if err != nil {
		return nil, err
	}
	var files []string
	for _, e := range ents {
		n := e.Name()
		if e.IsDir() || !strings.HasSuffix(n, ".go") || strings.HasSuffix(n, "_test.go") {
			continue
		}
		files = append(files, n)
	}
	sort.Strings(files)
	fset := token.NewFileSet()
	var out []Regex
	seen := map[string]string{}
	for _, fn := range files {
		f, err := parser.ParseFile(fset, filepath.Join(repoDir, fn), nil, parser.SkipObjectResolution)
		if err != nil {
			return nil, err
		}
		local := regexpImportName(f)
		if local == "" {
			continue
		}
		if local == "." || local == "_" {
			return nil, fmt.Errorf("%s: unsupported import form %q of package regexp", fn, local)
		}
		isCompile := func(e ast.Expr) (string, *ast.CallExpr) {
			call, ok := e.(*ast.CallExpr)
			if !ok {
				return "", nil
			}
			sel, ok := call.Fun.(*ast.SelectorExpr)
			if !ok {
				return "", nil
			}
			id, ok := sel.X.(*ast.Ident)
			if !ok || id.Name != local || !compileFuncs[sel.Sel.Name] {
				return "", nil
			}
			return sel.Sel.Name, call
		}
		handled := map[*ast.CallExpr]bool{}
		for _, d := range f.Decls {
			gd, ok := d.(*ast.GenDecl)
			if !ok || gd.Tok != token.VAR {
				continue
			}
			for _, sp := range gd.Specs {
				vs := sp.(*ast.ValueSpec)
				for i, v := range vs.Values {
					fun, call := isCompile(v)
					if call == nil {
						continue
					}
					pos := fset.Position(call.Pos())
					if fun != "MustCompile" {
						return nil, fmt.Errorf("%s: regexp.%s is not supported (only MustCompile)", pos, fun)
					}
					if len(vs.Names) != len(vs.Values) || len(call.Args) != 1 {
						return nil, fmt.Errorf("%s: unsupported shape of regexp.MustCompile declaration", pos)
					}
					pat, err := foldString(call.Args[0])
					if err != nil {
						return nil, fmt.Errorf("%s: cannot fold argument of regexp.MustCompile: %v", pos, err)
					}
					name := vs.Names[i].Name
					if name == "_" {
						return nil, fmt.Errorf("%s: regexp assigned to blank identifier", pos)
					}
					if prev, dup := seen[name]; dup {
						return nil, fmt.Errorf("%s: %s already declared at %s", pos, name, prev)
					}
					seen[name] = pos.String()
					re, err := syntax.Parse(pat, syntax.Perl)
					if err != nil {
						return nil, fmt.Errorf("%s: %s: %v", pos, name, err)
					}
					out = append(out, Regex{Name: name, Pattern: pat, NumCap: re.MaxCap(), File: fn, Line: pos.Line})
					handled[call] = true
				}
			}
		}
		// Anything left over is a compile call the model would not see.
		var stray error
		ast.Inspect(f, func(n ast.Node) bool {
			if e, ok := n.(ast.Expr); ok && stray == nil {
				if fun, call := isCompile(e); call != nil && !handled[call] {
					stray = fmt.Errorf("%s: regexp.%s outside a package-level variable initialiser", fset.Position(call.Pos()), fun)
				}
			}
			return stray == nil
		})
		if stray != nil {
			return nil, stray
		}
	}
	sort.Slice(out, func(i, j int) bool { return out[i].Name < out[j].Name })
	return out, nil
}

func regexpImportName(f *ast.File) string {
	for _, im := range f.Imports {
		p, err := strconv.Unquote(im.Path.Value)
		if err != nil || p != "regexp" {
			continue
		}
		if im.Name != nil {
			return im.Name.Name
		}
		return "regexp"
	}
	return ""
}

// foldString evaluates a string literal or a +-concatenation of literals.
func foldString(e ast.Expr) (string, error) {
	switch x := e.(type) {
	case *ast.BasicLit:
		if x.Kind != token.STRING {
			return "", fmt.Errorf("literal %s is not a string", x.Value)
		}
		return strconv.Unquote(x.Value)
	case *ast.ParenExpr:
		return foldString(x.X)
	case *ast.BinaryExpr:
		if x.Op != token.ADD {
			return "", fmt.Errorf("operator %s", x.Op)
		}
		a, err := foldString(x.X)
		if err != nil {
			return "", err
		}
		b, err := foldString(x.Y)
		if err != nil {
			return "", err
		}
		return a + b, nil
	}
	return "", fmt.Errorf("expression of type %T is not a string literal", e)
}

// Simplified returns the tree the regexp compiler works on.
func Simplified(pattern string) (*syntax.Regexp, error) {
	re, err := syntax.Parse(pattern, syntax.Perl)
	if err != nil {
		return nil, err
	}
	return re.Simplify(), nil
}

// Term translates a pattern into a Coq term of type Dec.Regex.re.
func Term(pattern string) (string, error) {
	re, err := Simplified(pattern)
	if err != nil {
		return "", err
	}
	return term(re)
}

// FoldOrbit is the set of runes Go's Inst.MatchRunePos accepts for a
// one-rune instruction with the FoldCase flag, as sorted inclusive ranges.
func FoldOrbit(r rune) []rune {
	set := []rune{r}
	for f := unicode.SimpleFold(r); f != r; f = unicode.SimpleFold(f) {
		set = append(set, f)
	}
	sort.Slice(set, func(i, j int) bool { return set[i] < set[j] })
	var rs []rune
	for _, x := range set {
		if n := len(rs); n > 0 && rs[n-1]+1 == x {
			rs[n-1] = x
		} else {
			rs = append(rs, x, x)
		}
	}
	return rs
}

func term(re *syntax.Regexp) (string, error) {
	greedy := func() error {
		if re.Flags&syntax.NonGreedy != 0 {
			return fmt.Errorf("non-greedy %s is not supported", re.Op)
		}
		return nil
	}
	sub1 := func(ctor string) (string, error) {
		if err := greedy(); err != nil {
			return "", err
		}
		if len(re.Sub) != 1 {
			return "", fmt.Errorf("%s with %d operands", re.Op, len(re.Sub))
		}
		t, err := term(re.Sub[0])
		if err != nil {
			return "", err
		}
		return "(" + ctor + " " + t + ")", nil
	}
	nest := func(ctor, unit string) (string, error) {
		if len(re.Sub) == 0 {
			return unit, nil
		}
		ts := make([]string, len(re.Sub))
		for i, s := range re.Sub {
			t, err := term(s)
			if err != nil {
				return "", err
			}
			ts[i] = t
		}
		acc := ts[len(ts)-1]
		for i := len(ts) - 2; i >= 0; i-- {
			acc = "(" + ctor + " " + ts[i] + " " + acc + ")"
		}
		return acc, nil
	}
	switch re.Op {
	case syntax.OpNoMatch:
		return "RNoMatch", nil
	case syntax.OpEmptyMatch:
		return "REmpty", nil
	case syntax.OpLiteral:
		return literal(re.Rune, re.Flags&syntax.FoldCase != 0), nil
	case syntax.OpCharClass:
		if len(re.Rune)%2 != 0 {
			return "", fmt.Errorf("odd class table")
		}
		if len(re.Rune) == 0 {
			return "RNoMatch", nil
		}
		return classTerm(re.Rune), nil
	case syntax.OpAnyCharNotNL:
		return "RAnyNotNL", nil
	case syntax.OpAnyChar:
		return "RAny", nil
	case syntax.OpBeginText:
		return "RBeginText", nil
	case syntax.OpEndText:
		return "REndText", nil
	case syntax.OpCapture:
		if len(re.Sub) != 1 || re.Cap < 1 {
			return "", fmt.Errorf("malformed capture")
		}
		t, err := term(re.Sub[0])
		if err != nil {
			return "", err
		}
		return fmt.Sprintf("(RCapture %d%%nat %s)", re.Cap, t), nil
	case syntax.OpStar:
		return sub1("RStar")
	case syntax.OpPlus:
		return sub1("RPlus")
	case syntax.OpQuest:
		return sub1("RQuest")
	case syntax.OpConcat:
		return nest("RCat", "REmpty")
	case syntax.OpAlternate:
		return nest("RAlt", "RNoMatch")
	}
	return "", fmt.Errorf("operator %s is outside the modelled subset", re.Op)
}

func classTerm(rs []rune) string {
	var b strings.Builder
	b.WriteString("(RClass [")
	for i := 0; i+1 < len(rs); i += 2 {
		if i > 0 {
			b.WriteString("; ")
		}
		fmt.Fprintf(&b, "(%d, %d)", rs[i], rs[i+1])
	}
	b.WriteString("]%N)")
	return b.String()
}

// literal renders an OpLiteral. With fold, runes that have a non-trivial
// simple-fold orbit become one-rune classes listing the orbit.
func literal(rs []rune, fold bool) string {
	var parts []string
	var run []rune
	flush := func() {
		if len(run) > 0 {
			parts = append(parts, "(RLit "+RunesTerm(run)+")")
			run = nil
		}
	}
	for _, r := range rs {
		if fold && unicode.SimpleFold(r) != r {
			flush()
			parts = append(parts, classTerm(FoldOrbit(r)))
			continue
		}
		run = append(run, r)
	}
	flush()
	if len(parts) == 0 {
		return "REmpty"
	}
	acc := parts[len(parts)-1]
	for i := len(parts) - 2; i >= 0; i-- {
		acc = "(RCat " + parts[i] + " " + acc + ")"
	}
	return acc
}

// RunesTerm renders a list of N: `bs "..."` when all values are printable
// ASCII (for which rune and byte coincide), an explicit list otherwise.
func RunesTerm(rs []rune) string {
	ascii := len(rs) > 0
	for _, r := range rs {
		if r < 32 || r > 126 {
			ascii = false
		}
	}
	if ascii {
		return "(bs " + CoqString(string(rs)) + ")"
	}
	var b strings.Builder
	b.WriteString("[")
	for i, r := range rs {
		if i > 0 {
			b.WriteString("; ")
		}
		fmt.Fprintf(&b, "%d", r)
	}
	b.WriteString("]%N")
	return b.String()
}

// BytesTerm renders a byte string as a Coq term of type bytes, using string
// literals for printable ASCII stretches and numerals for the rest.
func BytesTerm(s []byte) string {
	if len(s) == 0 {
		return "[]"
	}
	var parts []string
	i := 0
	for i < len(s) {
		j := i
		for j < len(s) && s[j] >= 32 && s[j] <= 126 {
			j++
		}
		if j > i {
			parts = append(parts, "bs "+CoqString(string(s[i:j])))
			i = j
			continue
		}
		for j < len(s) && (s[j] < 32 || s[j] > 126) {
			j++
		}
		var b strings.Builder
		b.WriteString("[")
		for k := i; k < j; k++ {
			if k > i {
				b.WriteString(";")
			}
			fmt.Fprintf(&b, "%d", s[k])
		}
		b.WriteString("]%N")
		parts = append(parts, b.String())
		i = j
	}
	if len(parts) == 1 {
		return "(" + parts[0] + ")"
	}
	return "(" + strings.Join(parts, " ++ ") + ")"
}

// CoqString renders printable ASCII text as a Coq string literal.
func CoqString(s string) string {
	return `"` + strings.ReplaceAll(s, `"`, `""`) + `"%string`
}

// patternString renders arbitrary pattern text as a Coq term of type string.
func patternString(p string) string {
	for i := 0; i < len(p); i++ {
		if p[i] < 32 || p[i] > 126 {
			// keep the file ASCII: spell the bytes out
			var b strings.Builder
			b.WriteString("(string_of_list_ascii (map ascii_of_N [")
			for k := 0; k < len(p); k++ {
				if k > 0 {
					b.WriteString(";")
				}
				fmt.Fprintf(&b, "%d", p[k])
			}
			b.WriteString("]%N))")
			return b.String()
		}
	}
	return CoqString(p)
}

func validIdent(s string) bool {
	if s == "" {
		return false
	}
	for i, c := range s {
		ok := c == '_' || (c >= 'a' && c <= 'z') || (c >= 'A' && c <= 'Z') || (i > 0 && c >= '0' && c <= '9')
		if !ok {
			return false
		}
	}
	return true
}

// EmitCoq renders Regexes.v: for every regex `re_<name> : re`,
// `ncap_<name> : nat`, `pat_<name> : string` and the table
// `all_regexes : list (string * re * nat)`, sorted by name. Pattern text only
// ever appears inside Coq string literals.
func EmitCoq(rs []Regex) (string, error) {
	rs = append([]Regex(nil), rs...)
	sort.Slice(rs, func(i, j int) bool { return rs[i].Name < rs[j].Name })
	var b strings.Builder
	b.WriteString("(* Generated by verifharness/retrans from the regexp.MustCompile calls of the\n")
	b.WriteString("   decoder package. Do not edit. *)\n")
	b.WriteString("From Coq Require Import List NArith Ascii String.\n")
	b.WriteString("From Dec Require Import Bytes Regex.\n")
	b.WriteString("Import ListNotations.\n\n")
	for i, r := range rs {
		if !validIdent(r.Name) {
			return "", fmt.Errorf("regex name %q is not usable as a Coq identifier", r.Name)
		}
		if i > 0 && rs[i-1].Name == r.Name {
			return "", fmt.Errorf("duplicate regex name %s", r.Name)
		}
		re, err := Simplified(r.Pattern)
		if err != nil {
			return "", fmt.Errorf("%s: %v", r.Name, err)
		}
		t, err := term(re)
		if err != nil {
			return "", fmt.Errorf("%s: %v", r.Name, err)
		}
		if re.MaxCap() != r.NumCap {
			return "", fmt.Errorf("%s: %d capture groups recorded, pattern has %d", r.Name, r.NumCap, re.MaxCap())
		}
		fmt.Fprintf(&b, "Definition pat_%s : string := %s.\n", r.Name, patternString(r.Pattern))
		fmt.Fprintf(&b, "Definition re_%s : re :=\n  %s.\n", r.Name, t)
		fmt.Fprintf(&b, "Definition ncap_%s : nat := %d%%nat.\n\n", r.Name, r.NumCap)
	}
	b.WriteString("Definition all_regexes : list (string * re * nat) :=\n  [")
	for i, r := range rs {
		if i > 0 {
			b.WriteString(";\n   ")
		}
		fmt.Fprintf(&b, "(%s, re_%s, ncap_%s)", CoqString(r.Name), r.Name, r.Name)
	}
	b.WriteString("].\n")
	return b.String(), nil
}
