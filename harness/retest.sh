#!/bin/sh
# Differential test of the Coq regex matcher (coq/theories/Regex.v) against
# Go's regexp: see cmd/retest. Works on private copies of Bytes.v and Regex.v
# in work/retest, so it never touches the build products of coq/.
#   SEED (default 1), N inputs per expression (default 500), SHARD cases per
#   Coq file (default 1500), JOBS parallel coqc (default 8), REPO (/repo).
set -eu
export GOFLAGS=-mod=mod GOPROXY=off GOSUMDB=off GOTOOLCHAIN=local
H=$(cd "$(dirname "$0")" && pwd)
V=$(dirname "$H")
W=$V/work/retest
REPO=${REPO:-/repo}
rm -rf "$W"
mkdir -p "$W/theories" "$W/bin"
cp "$V/coq/theories/Bytes.v" "$V/coq/theories/Regex.v" "$W/theories/"
(cd "$H" && go build -o "$W/bin/retest" ./cmd/retest)
"$W/bin/retest" -repo "$REPO" -out "$W" -seed "${SEED:-1}" -n "${N:-500}" -shard "${SHARD:-1500}" | tee "$W/gen.log" | tail -n 1
cd "$W"
Q="-Q $W Dec"
coqc $Q theories/Bytes.v
coqc $Q theories/Regex.v
coqc $Q generated/Regexes.v
coqc $Q cases/RetestLib.v
ls cases/Cases_*.v | xargs -P "${JOBS:-8}" -I{} sh -c "coqc $Q {} > {}.out 2>&1 || echo COQC-FAILED >> {}.out"
fail=0
for f in cases/Cases_*.v; do
  # expected output, exactly:  mism = []  /  : list N
  if [ "$(tr -d ' \n' < "$f.out")" != "mism=[]:listN" ]; then
    fail=1
    echo "retest: disagreement in $f:"
    cat "$f.out"
  fi
done
ncase=$(wc -l < cases/index.txt)
if [ "$fail" = 0 ]; then
  echo "retest: PASS ($ncase cases agree with Go regexp)"
else
  echo "retest: FAIL (see $W/cases/index.txt for the numbered cases)"
  exit 1
fi
