// Package coqfmt renders Go values as Coq terms for generated case files.
package coqfmt

import (
	"fmt"
	"strings"
)

// Bytes renders a byte string as a term of type `bytes` (list N): `bs "..."` when
// every byte is printable ASCII, a numeral list otherwise.
func Bytes(b []byte) string {
	printable := true
	for _, c := range b {
		if c < 0x20 || c > 0x7e {
			printable = false
			break
		}
	}
	if printable {
		return `(bs "` + strings.ReplaceAll(string(b), `"`, `""`) + `")`
	}
	var sb strings.Builder
	sb.WriteString("[")
	for i, c := range b {
		if i > 0 {
			sb.WriteString("; ")
		}
		fmt.Fprintf(&sb, "%d%%N", c)
	}
	sb.WriteString("]")
	return sb.String()
}

// Str renders a Go string as bytes.
func Str(s string) string { return Bytes([]byte(s)) }

// CoqString renders a Coq string literal.
func CoqString(s string) string {
	return `"` + strings.ReplaceAll(s, `"`, `""`) + `"`
}

// Z renders an integer of type Z.
func Z(i int64) string {
	if i < 0 {
		return fmt.Sprintf("(%d)%%Z", i)
	}
	return fmt.Sprintf("%d%%Z", i)
}

// ZU renders an unsigned integer of type Z.
func ZU(u uint64) string { return fmt.Sprintf("%d%%Z", u) }

// N renders a natural of type N.
func N(u uint64) string { return fmt.Sprintf("%d%%N", u) }

// Nat renders a small nat.
func Nat(i int) string { return fmt.Sprintf("%d", i) }

// Bool renders a bool.
func Bool(b bool) string {
	if b {
		return "true"
	}
	return "false"
}

// List renders a Coq list from rendered elements.
func List(xs []string) string {
	return "[" + strings.Join(xs, "; ") + "]"
}

// BytesList renders a list of byte strings.
func BytesList(xs [][]byte) string {
	r := make([]string, len(xs))
	for i, x := range xs {
		r[i] = Bytes(x)
	}
	return List(r)
}

// OptN renders option N.
func OptN(ok bool, v uint64) string {
	if !ok {
		return "None"
	}
	return "(Some " + N(v) + ")"
}
