package main

import (
	"encoding/json"
	"fmt"
	"os"
	"path/filepath"
)

// loadCorpus reads hand-written / minimised interpreter cases; they run first.
func loadCorpus(verif, name string) ([]*ICase, error) {
	b, err := os.ReadFile(filepath.Join(verif, "corpus", name))
	if err != nil {
		return nil, err
	}
	var cs []*ICase
	if err := json.Unmarshal(b, &cs); err != nil {
		return nil, err
	}
	for _, c := range cs {
		for i := range c.Jobs {
			j, err := parseJV(c.Jobs[i].Doc)
			if err != nil {
				return nil, fmt.Errorf("corpus %s: %v", c.Tag, err)
			}
			c.Jobs[i].doc = j
		}
	}
	return cs, nil
}

// parseJV parses the JSON subset the generators emit.
func parseJV(s string) (*JV, error) {
	p := &jparser{s: s}
	v, err := p.value()
	if err != nil {
		return nil, err
	}
	p.ws()
	if p.i != len(p.s) {
		return nil, fmt.Errorf("trailing data in %q", s)
	}
	return v, nil
}

type jparser struct {
	s string
	i int
}

func (p *jparser) ws() {
	for p.i < len(p.s) && (p.s[p.i] == ' ' || p.s[p.i] == '\n' || p.s[p.i] == '\t') {
		p.i++
	}
}

func (p *jparser) value() (*JV, error) {
	p.ws()
	if p.i >= len(p.s) {
		return nil, fmt.Errorf("unexpected end")
	}
	switch c := p.s[p.i]; {
	case c == '{':
		p.i++
		o := &JV{K: "obj"}
		p.ws()
		if p.i < len(p.s) && p.s[p.i] == '}' {
			p.i++
			return o, nil
		}
		for {
			p.ws()
			k, err := p.str()
			if err != nil {
				return nil, err
			}
			p.ws()
			if p.i >= len(p.s) || p.s[p.i] != ':' {
				return nil, fmt.Errorf("expected :")
			}
			p.i++
			v, err := p.value()
			if err != nil {
				return nil, err
			}
			o.Keys = append(o.Keys, k)
			o.Xs = append(o.Xs, v)
			p.ws()
			if p.i < len(p.s) && p.s[p.i] == ',' {
				p.i++
				continue
			}
			if p.i < len(p.s) && p.s[p.i] == '}' {
				p.i++
				return o, nil
			}
			return nil, fmt.Errorf("expected , or }")
		}
	case c == '[':
		p.i++
		a := &JV{K: "arr"}
		p.ws()
		if p.i < len(p.s) && p.s[p.i] == ']' {
			p.i++
			return a, nil
		}
		for {
			v, err := p.value()
			if err != nil {
				return nil, err
			}
			a.Xs = append(a.Xs, v)
			p.ws()
			if p.i < len(p.s) && p.s[p.i] == ',' {
				p.i++
				continue
			}
			if p.i < len(p.s) && p.s[p.i] == ']' {
				p.i++
				return a, nil
			}
			return nil, fmt.Errorf("expected , or ]")
		}
	case c == '"':
		s, err := p.str()
		if err != nil {
			return nil, err
		}
		return jStr(s), nil
	case c == 't' && len(p.s) >= p.i+4 && p.s[p.i:p.i+4] == "true":
		p.i += 4
		return jBool(true), nil
	case c == 'f' && len(p.s) >= p.i+5 && p.s[p.i:p.i+5] == "false":
		p.i += 5
		return jBool(false), nil
	case c == 'n' && len(p.s) >= p.i+4 && p.s[p.i:p.i+4] == "null":
		p.i += 4
		return jNull(), nil
	default:
		st := p.i
		for p.i < len(p.s) && (p.s[p.i] == '-' || p.s[p.i] == '+' || p.s[p.i] == '.' || p.s[p.i] == 'e' || p.s[p.i] == 'E' || (p.s[p.i] >= '0' && p.s[p.i] <= '9')) {
			p.i++
		}
		if st == p.i {
			return nil, fmt.Errorf("unexpected %q", p.s[p.i])
		}
		return jNum(p.s[st:p.i]), nil
	}
}

func (p *jparser) str() (string, error) {
	if p.i >= len(p.s) || p.s[p.i] != '"' {
		return "", fmt.Errorf("expected string")
	}
	p.i++
	st := p.i
	for p.i < len(p.s) && p.s[p.i] != '"' {
		if p.s[p.i] == '\\' {
			return "", fmt.Errorf("escapes are not generated")
		}
		p.i++
	}
	if p.i >= len(p.s) {
		return "", fmt.Errorf("unterminated string")
	}
	s := p.s[st:p.i]
	p.i++
	return s, nil
}
