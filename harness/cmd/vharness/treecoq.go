package main

import (
	"fmt"
	"strings"

	"github.com/koykov/decoder"

	"verifharness/coqfmt"
)

func argCoq(a decoder.VerifArg) string {
	return "(mkArg " + coqfmt.Bytes(a.Val) + " " + coqfmt.BytesList(a.Subset) + " " + coqfmt.Bool(a.Static) + ")"
}

func argsCoq(as []decoder.VerifArg) string {
	xs := make([]string, len(as))
	for i, a := range as {
		xs[i] = argCoq(a)
	}
	return coqfmt.List(xs)
}

func nodeCoq(n decoder.VerifNode) string {
	var sb strings.Builder
	mods := make([]string, len(n.Mod))
	for i, m := range n.Mod {
		mods[i] = "(mkMod " + coqfmt.Bytes(m.ID) + " " + argsCoq(m.Arg) + ")"
	}
	fmt.Fprintf(&sb, "(mkNode %s %s %s %s %s %s %s %s %s %s %s",
		coqfmt.Z(int64(n.Typ)), coqfmt.Bytes(n.Dst), coqfmt.Bytes(n.Src), coqfmt.Bytes(n.Ins),
		coqfmt.BytesList(n.Subset), coqfmt.Bool(n.Getter), coqfmt.Bool(n.Callback), coqfmt.Bool(n.Static),
		coqfmt.List(mods), argsCoq(n.Arg), nodesCoq(n.Child))
	fmt.Fprintf(&sb, " %s %s %s %s %s %s %s %s %s %s %s",
		coqfmt.Bytes(n.LoopKey), coqfmt.Bytes(n.LoopVal), coqfmt.Bytes(n.LoopSrc),
		coqfmt.Bytes(n.LoopCnt), coqfmt.Bytes(n.LoopCntInit), coqfmt.Bool(n.LoopCntStatic),
		coqfmt.Z(int64(n.LoopCntOp)), coqfmt.Z(int64(n.LoopCondOp)),
		coqfmt.Bytes(n.LoopLim), coqfmt.Bool(n.LoopLimStatic), coqfmt.Z(int64(n.LoopBrkD)))
	fmt.Fprintf(&sb, " %s %s %s %s %s %s %s %s %s %s %s",
		coqfmt.Bytes(n.CondL), coqfmt.Bytes(n.CondOKL), coqfmt.Bytes(n.CondR), coqfmt.Bytes(n.CondOKR),
		coqfmt.Bool(n.CondStaticL), coqfmt.Bool(n.CondStaticR), coqfmt.Z(int64(n.CondOp)),
		coqfmt.Bytes(n.CondHlp), argsCoq(n.CondHlpArg), coqfmt.Bytes(n.CondIns), coqfmt.Z(int64(n.CondLC)))
	fmt.Fprintf(&sb, " %s %s %s %s %s %s %s %s)",
		coqfmt.Bytes(n.SwitchArg), coqfmt.Bytes(n.CaseL), coqfmt.Bytes(n.CaseR),
		coqfmt.Bool(n.CaseStaticL), coqfmt.Bool(n.CaseStaticR), coqfmt.Z(int64(n.CaseOp)),
		coqfmt.Bytes(n.CaseHlp), argsCoq(n.CaseHlpArg))
	return sb.String()
}

func nodesCoq(ns []decoder.VerifNode) string {
	xs := make([]string, len(ns))
	for i, n := range ns {
		xs[i] = nodeCoq(n)
	}
	return coqfmt.List(xs)
}
