package main

// Canonical rendering of Go values and of the struct objects behind generated
// inspectors; must agree with render_val / render_fval / flatten_obj in the
// Coq model (theories/Values.v, Interp.v, CasesInterp.v).

import (
	"fmt"
	"strconv"
	"strings"

	"github.com/koykov/inspector/testobj"
	"github.com/koykov/vector"

	"verifharness/coqfmt"
)

func fmtFloat(f float64) string { return strconv.FormatFloat(f, 'f', -1, 64) }

func nodeChildCount(n *vector.Node) int {
	c := 0
	n.Each(func(int, *vector.Node) { c++ })
	return c
}

func renderNode(n *vector.Node) string {
	if n == nil {
		return "nil"
	}
	switch n.Type() {
	case vector.TypeNull:
		return "null"
	case vector.TypeBool:
		return "b:" + string(n.Bytes())
	case vector.TypeNum:
		return "num:" + string(n.Bytes())
	case vector.TypeStr:
		return "str:" + string(n.Bytes())
	case vector.TypeArr:
		return "arr:" + strconv.Itoa(nodeChildCount(n))
	case vector.TypeObj:
		return "obj:" + strconv.Itoa(nodeChildCount(n))
	}
	return "other"
}

func renderAny(a any) string {
	switch x := a.(type) {
	case nil:
		return "nil"
	case *vector.Node:
		return renderNode(x)
	case *[]byte:
		return "B:" + string(*x)
	case []byte:
		return "B:" + string(x)
	case *string:
		return "S:" + *x
	case string:
		return "S:" + x
	case *bool:
		return "bool:" + strconv.FormatBool(*x)
	case bool:
		return "bool:" + strconv.FormatBool(x)
	case int:
		return "i:" + strconv.FormatInt(int64(x), 10)
	case *int:
		return "i:" + strconv.FormatInt(int64(*x), 10)
	case int8:
		return "i:" + strconv.FormatInt(int64(x), 10)
	case *int8:
		return "i:" + strconv.FormatInt(int64(*x), 10)
	case int16:
		return "i:" + strconv.FormatInt(int64(x), 10)
	case *int16:
		return "i:" + strconv.FormatInt(int64(*x), 10)
	case int32:
		return "i:" + strconv.FormatInt(int64(x), 10)
	case *int32:
		return "i:" + strconv.FormatInt(int64(*x), 10)
	case int64:
		return "i:" + strconv.FormatInt(x, 10)
	case *int64:
		return "i:" + strconv.FormatInt(*x, 10)
	case uint:
		return "u:" + strconv.FormatUint(uint64(x), 10)
	case *uint:
		return "u:" + strconv.FormatUint(uint64(*x), 10)
	case uint8:
		return "u:" + strconv.FormatUint(uint64(x), 10)
	case *uint8:
		return "u:" + strconv.FormatUint(uint64(*x), 10)
	case uint16:
		return "u:" + strconv.FormatUint(uint64(x), 10)
	case *uint16:
		return "u:" + strconv.FormatUint(uint64(*x), 10)
	case uint32:
		return "u:" + strconv.FormatUint(uint64(x), 10)
	case *uint32:
		return "u:" + strconv.FormatUint(uint64(*x), 10)
	case uint64:
		return "u:" + strconv.FormatUint(x, 10)
	case *uint64:
		return "u:" + strconv.FormatUint(*x, 10)
	case float32:
		return "f:" + fmtFloat(float64(x))
	case *float32:
		return "f:" + fmtFloat(float64(*x))
	case float64:
		return "f:" + fmtFloat(x)
	case *float64:
		return "f:" + fmtFloat(*x)
	case *testobj.TestObject, *testobj.TestHistory, *testobj.TestStruct:
		return "obj"
	}
	return "other"
}

// ---------------------------------------------------------------- objects

type fieldV struct {
	Name string
	Kind string // S B bool i u f
	Bits int
	S    []byte
	Bo   bool
	I    int64
	U    uint64
	F    float64
}

type objV struct {
	Fields []fieldV
	Subs   []subV
	Slices []sliceV
}
type subV struct {
	Name string
	O    objV
}
type sliceV struct {
	Name  string
	Elems []objV
}

func historyV(h *testobj.TestHistory) objV {
	return objV{Fields: []fieldV{
		{Name: "DateUnix", Kind: "i", Bits: 64, I: h.DateUnix},
		{Name: "Cost", Kind: "f", Bits: 64, F: h.Cost},
		{Name: "Comment", Kind: "B", S: h.Comment},
	}}
}

func testObjectV(o *testobj.TestObject) objV {
	r := objV{Fields: []fieldV{
		{Name: "Id", Kind: "S", S: []byte(o.Id)},
		{Name: "Name", Kind: "B", S: o.Name},
		{Name: "Status", Kind: "i", Bits: 32, I: int64(o.Status)},
		{Name: "Ustate", Kind: "u", Bits: 64, U: o.Ustate},
		{Name: "Cost", Kind: "f", Bits: 64, F: o.Cost},
	}}
	if o.Finance != nil {
		f := o.Finance
		fin := objV{Fields: []fieldV{
			{Name: "MoneyIn", Kind: "f", Bits: 64, F: f.MoneyIn},
			{Name: "MoneyOut", Kind: "f", Bits: 64, F: f.MoneyOut},
			{Name: "Balance", Kind: "f", Bits: 64, F: f.Balance},
			{Name: "AllowBuy", Kind: "bool", Bo: f.AllowBuy},
		}}
		sl := sliceV{Name: "History"}
		for i := range f.History {
			sl.Elems = append(sl.Elems, historyV(&f.History[i]))
		}
		fin.Slices = []sliceV{sl}
		r.Subs = []subV{{Name: "Finance", O: fin}}
	}
	return r
}

func testStructV(s *testobj.TestStruct) objV {
	return objV{Fields: []fieldV{
		{Name: "A", Kind: "u", Bits: 8, U: uint64(s.A)},
		{Name: "S", Kind: "S", S: []byte(s.S)},
		{Name: "B", Kind: "B", S: s.B},
		{Name: "I", Kind: "i", Bits: 64, I: int64(s.I)},
		{Name: "I8", Kind: "i", Bits: 8, I: int64(s.I8)},
		{Name: "I16", Kind: "i", Bits: 16, I: int64(s.I16)},
		{Name: "I32", Kind: "i", Bits: 32, I: int64(s.I32)},
		{Name: "I64", Kind: "i", Bits: 64, I: s.I64},
		{Name: "U", Kind: "u", Bits: 64, U: uint64(s.U)},
		{Name: "U8", Kind: "u", Bits: 8, U: uint64(s.U8)},
		{Name: "U16", Kind: "u", Bits: 16, U: uint64(s.U16)},
		{Name: "U32", Kind: "u", Bits: 32, U: uint64(s.U32)},
		{Name: "U64", Kind: "u", Bits: 64, U: s.U64},
		{Name: "F", Kind: "f", Bits: 32, F: float64(s.F)},
		{Name: "D", Kind: "f", Bits: 64, F: s.D},
	}}
}

func (f fieldV) render() string {
	switch f.Kind {
	case "S":
		return "S:" + string(f.S)
	case "B":
		return "B:" + string(f.S)
	case "bool":
		return "bool:" + strconv.FormatBool(f.Bo)
	case "i":
		return "i:" + strconv.FormatInt(f.I, 10)
	case "u":
		return "u:" + strconv.FormatUint(f.U, 10)
	default:
		return "f:" + fmtFloat(f.F)
	}
}

func (f fieldV) coq() string {
	switch f.Kind {
	case "S":
		return "FStr " + coqfmt.Bytes(f.S)
	case "B":
		return "FBytes " + coqfmt.Bytes(f.S)
	case "bool":
		return "FBool " + coqfmt.Bool(f.Bo)
	case "i":
		return fmt.Sprintf("FInt %d%%N %s", f.Bits, coqfmt.Z(f.I))
	case "u":
		return fmt.Sprintf("FUint %d%%N %s", f.Bits, coqfmt.ZU(f.U))
	default:
		return fmt.Sprintf("FFloat %d%%N %s", f.Bits, coqfmt.Str(fmtFloat(f.F)))
	}
}

func (o objV) flatten() []string {
	var r []string
	for _, f := range o.Fields {
		r = append(r, f.render())
	}
	for _, s := range o.Subs {
		r = append(r, s.O.flatten()...)
	}
	for _, s := range o.Slices {
		for _, e := range s.Elems {
			r = append(r, e.flatten()...)
		}
	}
	return r
}

func (o objV) coq() string {
	var fs, ss, ls []string
	for _, f := range o.Fields {
		fs = append(fs, "("+coqfmt.Str(f.Name)+", "+f.coq()+")")
	}
	for _, s := range o.Subs {
		ss = append(ss, "("+coqfmt.Str(s.Name)+", "+s.O.coq()+")")
	}
	for _, s := range o.Slices {
		var es []string
		for _, e := range s.Elems {
			es = append(es, e.coq())
		}
		ls = append(ls, "("+coqfmt.Str(s.Name)+", "+coqfmt.List(es)+")")
	}
	return "(Obj " + coqfmt.List(fs) + " " + coqfmt.List(ss) + " " + coqfmt.List(ls) + ")"
}

func strList(xs []string) string {
	r := make([]string, len(xs))
	for i, x := range xs {
		r[i] = coqfmt.Str(x)
	}
	return coqfmt.List(r)
}

var _ = strings.Join
