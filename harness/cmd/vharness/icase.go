package main

// Interpreter correspondence cases: jobs run on the real decoder (one context,
// Reset between jobs) and the matching Coq terms.

import (
	"errors"
	"fmt"
	"path/filepath"
	"strconv"
	"strings"
	"time"

	"github.com/koykov/decoder"
	"github.com/koykov/inspector/testobj"
	"github.com/koykov/inspector/testobj_ins"
	"github.com/koykov/jsonvector"
	"github.com/koykov/x2bytes"

	"verifharness/coqfmt"
)

// StaticVar is a variable bound with SetStatic before the decode.
type StaticVar struct {
	Name string `json:"name"`
	Kind string `json:"kind"` // i u f b S B
	I    int64  `json:"i,omitempty"`
	U    uint64 `json:"u,omitempty"`
	F    string `json:"f,omitempty"` // decimal text
	Bo   bool   `json:"b,omitempty"`
	S    string `json:"s,omitempty"`
}

func (v StaticVar) goValue() any {
	switch v.Kind {
	case "i":
		return v.I
	case "u":
		return v.U
	case "f":
		f, _ := strconv.ParseFloat(v.F, 64)
		return f
	case "b":
		return v.Bo
	case "S":
		return v.S
	default:
		b := []byte(v.S)
		return &b
	}
}

func (v StaticVar) coqVal() string {
	switch v.Kind {
	case "i":
		return "VInt " + coqfmt.Z(v.I)
	case "u":
		return "VUint " + coqfmt.ZU(v.U)
	case "f":
		return "VFloat " + coqfmt.Str(v.F)
	case "b":
		return "VBool " + coqfmt.Bool(v.Bo)
	case "S":
		return "VStr " + coqfmt.Str(v.S)
	default:
		return "VBytes " + coqfmt.Str(v.S)
	}
}

// Job is one decode.
type Job struct {
	Prog    string `json:"prog"`
	Doc     string `json:"doc"`
	doc     *JV
	Statics []StaticVar `json:"statics,omitempty"`
	Fail    int         `json:"fail"` // -1: none
	GetVars []string    `json:"getvars,omitempty"`
	NoObj   bool        `json:"no_obj,omitempty"`  // leave "obj" unbound (C16 contexts with missing variables)
	NoVars  bool        `json:"no_vars,omitempty"` // bind nothing at all: a new / just reset context
}

// Obs is what a decode showed.
type Obs struct {
	Res      string     `json:"res"`
	Trace    []string   `json:"trace"`
	Fields   [][]string `json:"fields"`
	Vars     []string   `json:"vars"`
	ParseErr string     `json:"parse_err,omitempty"`
}

// ICase is a sequence of jobs on one context over one set of objects.
type ICase struct {
	Tag  string `json:"tag"`
	Jobs []Job  `json:"jobs"`
	Obs  []Obs  `json:"obs,omitempty"`
	// Expect, when set, is the call trace the reference semantics requires per job
	Expect [][]string `json:"expect_trace,omitempty"`
	// Coq terms of the trees, filled by execution
	trees []string
	objs0 []objV
}

type env struct {
	trees map[string]*decoder.Tree
	ctx   *decoder.Ctx
	obj   *testobj.TestObject
	st    *testobj.TestObject
	ts    *testobj.TestStruct
}

// freshObjects replaces the destination and source objects (every job works on
// its own copies: results alias context buffers and must be consumed before the
// context is reused).
func (e *env) freshObjects() {
	n := newEnv()
	e.obj, e.st, e.ts = n.obj, n.st, n.ts
}

func newEnv() *env {
	return &env{
		ctx: decoder.NewCtx(),
		obj: &testobj.TestObject{Finance: &testobj.TestFinance{History: []testobj.TestHistory{
			{DateUnix: 11, Comment: []byte("h0")}, {DateUnix: 22, Comment: []byte("h1")}, {DateUnix: 33, Comment: []byte("h2")}}}},
		st: &testobj.TestObject{Id: "sid7", Name: []byte("sname"), Status: 7, Ustate: 9, Cost: 2.5,
			Finance: &testobj.TestFinance{Balance: 10.25, AllowBuy: true, History: []testobj.TestHistory{
				{DateUnix: 100, Cost: 1.5, Comment: []byte("first")}, {DateUnix: 200, Cost: 0.25, Comment: []byte("second")}}}},
		ts: &testobj.TestStruct{},
	}
}

func (e *env) objs() []objV {
	return []objV{testObjectV(e.obj), testObjectV(e.st), testStructV(e.ts)}
}

func classify(err error) string {
	if err == nil {
		return "None"
	}
	var ie *injErr
	if errors.As(err, &ie) {
		return fmt.Sprintf("(Some (EUser %d))", ie.n)
	}
	var ne *strconv.NumError
	if errors.As(err, &ne) {
		if ne.Err == strconv.ErrSyntax {
			return "(Some (EStrconv ESyntax))"
		}
		if ne.Err == strconv.ErrRange {
			return "(Some (EStrconv ERange))"
		}
	}
	switch err {
	case decoder.ErrBreakLoop:
		return "(Some EBreak)"
	case decoder.ErrLBreakLoop:
		return "(Some ELBreak)"
	case decoder.ErrContLoop:
		return "(Some ECont)"
	case decoder.ErrCondHlpNotFound:
		return "(Some ECondHlpNotFound)"
	case decoder.ErrSenselessCond:
		return "(Some ESenseless)"
	case decoder.ErrWrongLoopLim:
		return "(Some EWrongLoopLim)"
	case decoder.ErrWrongLoopCond:
		return "(Some EWrongLoopCond)"
	case decoder.ErrWrongLoopOp:
		return "(Some EWrongLoopOp)"
	case decoder.ErrModPoorArgs:
		return "(Some EModPoorArgs)"
	case decoder.ErrModNoArgs:
		return "(Some EModNoArgs)"
	case decoder.ErrGetterPoorArgs:
		return "(Some EGetterPoorArgs)"
	case x2bytes.ErrUnknownType:
		return "(Some EUnknownType)"
	}
	if strings.Contains(err.Error(), "inspector") {
		return "(Some EUnknownIns)"
	}
	return "(Some EOther)"
}

// runJob executes one job on the environment's context and observes it.
func (e *env) runJob(j *Job) (Obs, string, error) {
	registerUserFuncs()
	var o Obs
	// a decoder is parsed once and used for many jobs: the same text on the same
	// environment reuses the tree it was parsed to
	if e.trees == nil {
		e.trees = map[string]*decoder.Tree{}
	}
	tree := e.trees[j.Prog]
	if tree == nil {
		var perr error
		tree, perr = decoder.Parse([]byte(j.Prog))
		if perr != nil {
			o.ParseErr = perr.Error()
			return o, "", fmt.Errorf("program rejected by Parse: %v\n%s", perr, j.Prog)
		}
		e.trees[j.Prog] = tree
	}
	dump := decoder.VerifDumpTree(tree)
	e.freshObjects()
	ctx := e.ctx
	ctx.Reset()
	if !j.NoObj && !j.NoVars {
		ctx.Set("obj", e.obj, testobj_ins.TestObjectInspector{})
	}
	if !j.NoVars {
		ctx.Set("st", e.st, testobj_ins.TestObjectInspector{})
		ctx.Set("ts", e.ts, testobj_ins.TestStructInspector{})
	}
	vec := jsonvector.NewVector()
	if err := vec.Parse([]byte(j.Doc)); err != nil {
		return o, "", fmt.Errorf("document rejected by jsonvector: %v: %s", err, j.Doc)
	}
	if !j.NoVars {
		ctx.SetVector("jso", vec)
		for _, s := range j.Statics {
			ctx.SetStatic(s.Name, s.goValue())
		}
	}
	us := ustate(ctx)
	us.trace, us.n, us.failAt = nil, 0, j.Fail
	type res struct {
		err error
		pan any
	}
	done := make(chan res, 1)
	go func() {
		var r res
		defer func() {
			if p := recover(); p != nil {
				r.pan = p
			}
			done <- r
		}()
		r.err = decoder.DecodeRuleset(tree.Ruleset(), ctx)
	}()
	select {
	case r := <-done:
		if r.pan != nil {
			o.Res = "(Some EPanic)"
			o.ParseErr = fmt.Sprint("panic: ", r.pan)
		} else {
			o.Res = classify(r.err)
			if o.Res == "(Some EOther)" {
				o.ParseErr = "error: " + r.err.Error()
			}
		}
	case <-time.After(10 * time.Second):
		o.Res = "(Some EHang)"
		// the goroutine is abandoned together with its context
		e.ctx = decoder.NewCtx()
	}
	o.Trace = append([]string{}, us.trace...)
	for _, ob := range e.objs() {
		o.Fields = append(o.Fields, ob.flatten())
	}
	o.Vars = []string{}
	if o.Res != "(Some EHang)" && o.Res != "(Some EPanic)" {
		for _, n := range j.GetVars {
			o.Vars = append(o.Vars, renderAny(ctx.Get(n)))
		}
	} else {
		for range j.GetVars {
			o.Vars = append(o.Vars, "?")
		}
	}
	return o, nodesCoq(dump), nil
}

// exec runs all jobs of the case on a fresh environment.
func (c *ICase) exec() error {
	e := newEnv()
	c.objs0 = e.objs()
	c.Obs, c.trees = nil, nil
	for i := range c.Jobs {
		j := &c.Jobs[i]
		if j.doc != nil {
			j.Doc = j.doc.text()
		}
		o, t, err := e.runJob(j)
		if err != nil {
			return err
		}
		c.Obs = append(c.Obs, o)
		c.trees = append(c.trees, t)
	}
	dropUState(e.ctx)
	return nil
}

func (c *ICase) coq() string {
	objs := make([]string, len(c.objs0))
	for i, o := range c.objs0 {
		objs[i] = o.coq()
	}
	var jobs []string
	for i, j := range c.Jobs {
		vars := []string{}
		if !j.NoObj && !j.NoVars {
			vars = append(vars, `(bs "obj", VObj 0 [], InsObj)`)
		}
		if !j.NoVars {
			vars = append(vars, `(bs "st", VObj 1 [], InsObj)`, `(bs "ts", VObj 2 [], InsObj)`)
			docTerm := "JNull"
			if j.doc != nil {
				docTerm = j.doc.coq()
			}
			vars = append(vars, `(bs "jso", VNode `+docTerm+`, InsVector)`)
			for _, s := range j.Statics {
				vars = append(vars, "("+coqfmt.Str(s.Name)+", "+s.coqVal()+", InsStatic)")
			}
		}
		fail := "None"
		if j.Fail >= 0 {
			fail = fmt.Sprintf("(Some %d)", j.Fail)
		}
		o := c.Obs[i]
		fl := make([]string, len(o.Fields))
		for k, f := range o.Fields {
			fl[k] = strList(f)
		}
		jobs = append(jobs, fmt.Sprintf("(mkJob %s %s %s %s,\n    mkObs %s %s %s %s)",
			c.trees[i], coqfmt.List(vars), fail, strList(j.GetVars),
			o.Res, strList(o.Trace), coqfmt.List(fl), strList(o.Vars)))
	}
	return "(" + coqfmt.List(objs) + ",\n   " + coqfmt.List(jobs) + ")"
}

// emitICases writes sharded case files for interpreter cases.
func emitICases(cfg *runCfg, sum *Summary, prefix string, cases []*ICase, shard int) error {
	for off, k := 0, 0; off < len(cases); off, k = off+shard, k+1 {
		end := off + shard
		if end > len(cases) {
			end = len(cases)
		}
		name := fmt.Sprintf("cases_%s_%03d.v", prefix, k)
		var sb strings.Builder
		sb.WriteString("From Coq Require Import List NArith ZArith String.\nFrom Dec Require Import Bytes Strconv Values Tree Interp CasesInterp.\nImport ListNotations.\n")
		sb.WriteString("Definition cases : list icase := [\n")
		var meta []any
		for i, c := range cases[off:end] {
			if i > 0 {
				sb.WriteString(";\n")
			}
			sb.WriteString(c.coq())
			meta = append(meta, c)
		}
		sb.WriteString("\n].\nDefinition M := Eval vm_compute in mismatches cases.\nPrint M.\nDefinition K := Eval vm_compute in skipped cases.\nPrint K.\n")
		if err := writeIfChanged(filepath.Join(cfg.out, name), []byte(sb.String())); err != nil {
			return err
		}
		sum.Files = append(sum.Files, CaseFile{File: name, Cases: meta})
	}
	sum.CoqCases += len(cases)
	return nil
}
