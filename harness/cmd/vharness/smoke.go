package main

import "fmt"

// "IX": runs the interpreter corpus only (debugging aid, not a property).
func init() {
	runners["IX"] = func(cfg *runCfg) (*Summary, error) {
		sum := &Summary{Distribution: map[string]int{}}
		cs, err := loadCorpus(cfg.verif, "interp.json")
		if err != nil {
			return nil, err
		}
		for _, c := range cs {
			if err := c.exec(); err != nil {
				return nil, fmt.Errorf("%s: %v", c.Tag, err)
			}
			sum.Evaluations++
		}
		if err := emitICases(cfg, sum, "IX", cs, 500); err != nil {
			return nil, err
		}
		return sum, nil
	}
}
