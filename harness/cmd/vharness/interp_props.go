package main

// Runners of the interpreter properties: each builds its stream of cases
// (corpus first, then generated), executes them on the real decoder and emits
// Coq case files for the model.

import (
	"fmt"
	"sort"
)

type icaseGen func(r *prng, i int, stats map[string]int) *ICase

func runInterp(cfg *runCfg, prefix string, nQuick, nThorough int, rule string, gen icaseGen, nontrivial func(*ICase) bool, oracle func(*ICase, *Summary)) (*Summary, error) {
	sum := &Summary{Distribution: map[string]int{}, Rule: rule}
	n := nQuick
	if cfg.tier == "thorough" {
		n = nThorough
	}
	rng := newPRNG(cfg.seed)
	var cases []*ICase
	corpus, err := loadCorpus(cfg.verif, "interp.json")
	if err != nil {
		return nil, err
	}
	seen := map[string]bool{}
	add := func(c *ICase, fromCorpus bool) error {
		if err := c.exec(); err != nil {
			if fromCorpus {
				return fmt.Errorf("corpus case %q: %v", c.Tag, err)
			}
			sum.Distribution["rejected by Parse (generator)"]++
			if len(sum.Notes) < 3 {
				sum.Notes = append(sum.Notes, err.Error())
			}
			return nil
		}
		sum.Evaluations++
		key := ""
		for _, j := range c.Jobs {
			key += j.Prog + "\x00" + j.Doc + "\x00" + fmt.Sprint(j.Fail) + "\x01"
		}
		for _, o := range c.Obs {
			sum.Distribution["result "+o.Res]++
			sum.Distribution["trace events"] += len(o.Trace)
		}
		if !seen[key] && (nontrivial == nil || nontrivial(c)) {
			sum.Distinct++
		}
		seen[key] = true
		if oracle != nil {
			oracle(c, sum)
		}
		cases = append(cases, c)
		if len(sum.Samples) < 2 && !fromCorpus {
			sum.Samples = append(sum.Samples, c)
		}
		return nil
	}
	for _, c := range corpus {
		if err := add(c, true); err != nil {
			return nil, err
		}
	}
	for i := 0; i < n; i++ {
		c := gen(rng, i, sum.Distribution)
		if c == nil {
			continue
		}
		if err := add(c, false); err != nil {
			return nil, err
		}
	}
	if rej := sum.Distribution["rejected by Parse (generator)"]; rej > n/3 {
		// the programs of the generator are accepted by the unchanged parser and its
		// documents by the vector: losing a third of them means the tie is broken
		return nil, fmt.Errorf("%d of %d generated cases were rejected by Parse / the document parser: %v", rej, n, sum.Notes)
	}
	if err := emitICases(cfg, sum, prefix, cases, 150); err != nil {
		return nil, err
	}
	// keep the distribution readable
	keys := make([]string, 0, len(sum.Distribution))
	for k := range sum.Distribution {
		keys = append(keys, k)
	}
	sort.Strings(keys)
	return sum, nil
}

func singleJob(tag string, j Job) *ICase { return &ICase{Tag: tag, Jobs: []Job{j}} }

func hasTrace(c *ICase) bool {
	for _, o := range c.Obs {
		if len(o.Trace) > 0 {
			return true
		}
	}
	return false
}

func init() {
	// a general stream used while the property-specific generators are being built
	runners["IG"] = func(cfg *runCfg) (*Summary, error) {
		return runInterp(cfg, "IG", 300, 3000,
			"random core-grammar programs (all constructs) over random documents; one job per case",
			func(r *prng, i int, st map[string]int) *ICase {
				j := genJob(r, allOpts, 3+r.intn(5), 3, st)
				return singleJob("general", j)
			}, hasTrace, nil)
	}
}
