package main

// Known findings: genuine defects that are recorded rather than repaired (see
// /verif/known_findings.json and DESIGN.md §9). Each is identified by one
// specific input; it is replayed on the real code on every run of the
// properties it concerns, and reported as a known hit while it reproduces.
// Generators keep these constructs out of their main streams.

import (
	"fmt"
	"runtime"
	"strings"

	"github.com/koykov/decoder"
	"github.com/koykov/inspector/testobj_ins"
	"github.com/koykov/jsonvector"
)

type knownProbe struct {
	ID    string
	Props []string
	Prog  string
	Doc   string
	// returns (reproduces, what was observed)
	Check func(o Obs) (bool, string)
}

func traceHas(o Obs, sub string) bool {
	for _, e := range o.Trace {
		if strings.Contains(e, sub) {
			return true
		}
	}
	return false
}

var knownProbes = []knownProbe{
	{ID: "KF-C05-childless", Props: []string{"C05", "C16"},
		Prog: "for k, v := range jso.a {\nprobe(\"empty\", k, v)\n}\nfor k2, v2 := range jso.s {\nprobe(\"scalar\", k2, v2)\n}\nfor k3, v3 := range jso.nul {\nprobe(\"null\", k3, v3)\n}\n",
		Doc:  `{"s":"x","a":[],"nul":null,"b":["p","q"]}`,
		Check: func(o Obs) (bool, string) {
			return len(o.Trace) > 0, fmt.Sprintf("range over an empty array / a scalar / a literal null executed the body: %v (vector.Node.Each visits the node at the childless node's offset)", o.Trace)
		}},
	{ID: "D23-ternary-literal", Props: []string{"C03", "C01"},
		Prog: "obj.Id = jso.n == 5 ? \"yes\" : \"no\"\n", Doc: `{"n":5}`,
		Check: func(o Obs) (bool, string) {
			return o.Fields[0][0] != "S:yes", "ternary with literal branches left the destination at " + o.Fields[0][0] + " (the branch operands are parsed as paths; pinned by testdata/parser/ternary.xml)"
		}},
	{ID: "D24-loop-cell-alias", Props: []string{"C02", "C19"},
		Prog: "for i := 0; i < 3; i++ {\nif i == 1 {\nctx.saved = i\n}\n}\nprobe(saved)\n", Doc: `{}`,
		Check: func(o Obs) (bool, string) {
			return !traceHas(o, "cb:probe(i:1)"), fmt.Sprintf("a context variable bound to the loop counter at i == 1 reads %v after the loop (it holds a pointer to the counter cell)", o.Trace)
		}},
	{ID: "D30-ctx-getter", Props: []string{"C19"},
		Prog: "ctx.x = atoi(jso.n)\nprobe(x)\n", Doc: `{"n":"12"}`,
		Check: func(o Obs) (bool, string) {
			return !traceHas(o, "cb:probe(i:12)"), fmt.Sprintf("`ctx.x = getter(...)` does not call the getter: %v", o.Trace)
		}},
}

// D25 (index past the end of an array that is not the first at its depth reads
// foreign entries in vector.Node.Get) is probed separately below.

func runKnownProbes(prop string, sum *Summary) {
	for _, kp := range knownProbes {
		use := false
		for _, p := range kp.Props {
			if p == prop {
				use = true
			}
		}
		if !use {
			continue
		}
		doc, err := parseJV(kp.Doc)
		if err != nil {
			continue
		}
		c := singleJob("known "+kp.ID, Job{Prog: kp.Prog, doc: doc, Fail: -1})
		if err := c.exec(); err != nil {
			continue
		}
		if ok, what := kp.Check(c.Obs[0]); ok {
			sum.Known = append(sum.Known, KnownHit{ID: kp.ID, What: what})
		}
	}
	switch prop {
	case "C16", "C01":
		// D25
		doc, _ := parseJV(`{"x":[1],"y":[7,8],"z":[9]}`)
		c := singleJob("known D25", Job{Prog: "obj.Id = jso.y.2\n", doc: doc, Fail: -1})
		if err := c.exec(); err == nil {
			o := c.Obs[0]
			if o.Res == "(Some EPanic)" || o.Fields[0][0] != "S:" {
				sum.Known = append(sum.Known, KnownHit{ID: "D25-vector-index", What: "jso.y.2 on {\"x\":[1],\"y\":[7,8],\"z\":[9]} (index past the end of an array that is not the first at its depth) gave " + o.Res + " " + o.Fields[0][0] + " " + o.ParseErr})
			}
		}
	case "C11":
		// D44: a negative JSON number into an unsigned field allocates inside strconv
		registerUserFuncs()
		if tree, err := decoder.Parse([]byte("ts.U64 = jso.n\nobj.Ustate = jso.n\n")); err == nil {
			ctx := decoder.NewCtx()
			e := newEnv()
			vec := jsonvector.NewVector()
			run := func() {
				ctx.Reset()
				ctx.Set("obj", e.obj, testobj_ins.TestObjectInspector{})
				ctx.Set("ts", e.ts, testobj_ins.TestStructInspector{})
				vec.Reset()
				_ = vec.Parse([]byte(`{"n":-129}`))
				ctx.SetVector("jso", vec)
				_ = decoder.DecodeRuleset(tree.Ruleset(), ctx)
			}
			for k := 0; k < 200; k++ {
				run()
			}
			var ms runtime.MemStats
			runtime.ReadMemStats(&ms)
			b := ms.Mallocs
			for k := 0; k < 1000; k++ {
				run()
			}
			runtime.ReadMemStats(&ms)
			if d := ms.Mallocs - b; d >= 500 {
				sum.Known = append(sum.Known, KnownHit{ID: "D44-failing-number-conversion", What: fmt.Sprintf("`ts.U64 = jso.n` with n = -129 allocated %d objects in 1000 steady-state repetitions although Decode returns nil (strconv.ParseUint's error value inside vector.Node.Uint)", d)})
			}
		}
		// D26: default(x) with a Go-typed argument allocates
		tree, err := decoder.Parse([]byte("obj.Status = jso.missing|default(ivar)\n"))
		if err == nil {
			ctx := decoder.NewCtx()
			e := newEnv()
			vec := jsonvector.NewVector()
			var iv any = int64(7)
			run := func() {
				ctx.Reset()
				ctx.Set("obj", e.obj, testobj_ins.TestObjectInspector{})
				vec.Reset()
				_ = vec.Parse([]byte(`{}`))
				ctx.SetVector("jso", vec)
				ctx.SetStatic("ivar", iv)
				_ = decoder.DecodeRuleset(tree.Ruleset(), ctx)
			}
			for k := 0; k < 200; k++ {
				run()
			}
			var ms runtime.MemStats
			runtime.ReadMemStats(&ms)
			b := ms.Mallocs
			for k := 0; k < 1000; k++ {
				run()
			}
			runtime.ReadMemStats(&ms)
			if d := ms.Mallocs - b; d >= 500 {
				sum.Known = append(sum.Known, KnownHit{ID: "D26-default-go-value", What: fmt.Sprintf("`x|default(ivar)` with a Go-typed argument allocated %d objects in 1000 steady-state repetitions (mod_builtin.go takes the address of a local copy)", d)})
			}
		}
	}
}
