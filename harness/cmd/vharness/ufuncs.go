package main

// User-registered functions of the harness. They mirror testU in
// coq/theories/CasesInterp.v: pure functions of (call number, arguments); every
// invocation is recorded in the trace with its arguments dereferenced at call
// time; the call whose number equals failAt returns an injected error.

import (
	"fmt"
	"strconv"
	"strings"
	"sync"

	"github.com/koykov/decoder"
	"github.com/koykov/vector"
)

type injErr struct{ n int }

func (e *injErr) Error() string { return fmt.Sprintf("injected failure at call %d", e.n) }

type uState struct {
	trace  []string
	n      int
	failAt int
}

// one state per goroutine-less run; concurrent checks (C10) keep a state per context
var (
	uMu     sync.Mutex
	uStates = map[*decoder.Ctx]*uState{}
)

func ustate(ctx *decoder.Ctx) *uState {
	uMu.Lock()
	defer uMu.Unlock()
	s, ok := uStates[ctx]
	if !ok {
		s = &uState{failAt: -1}
		uStates[ctx] = s
	}
	return s
}

func dropUState(ctx *decoder.Ctx) {
	uMu.Lock()
	delete(uStates, ctx)
	uMu.Unlock()
}

func (s *uState) log(kind, name string, args []any) (int, bool) {
	xs := make([]string, len(args))
	for i, a := range args {
		xs[i] = renderAny(a)
	}
	n := s.n
	s.n++
	fail := n == s.failAt && kind != "condok"
	if fail {
		// the log entry of a call that reports a failure carries a `!` after its kind
		kind += "!"
	}
	s.trace = append(s.trace, kind+":"+name+"("+strings.Join(xs, ",")+")")
	return n, fail
}

func valText(a any) ([]byte, bool) {
	switch x := a.(type) {
	case *[]byte:
		return *x, true
	case []byte:
		return x, true
	case *string:
		return []byte(*x), true
	case string:
		return []byte(x), true
	case *vector.Node:
		if x == nil {
			return nil, false
		}
		return x.Bytes(), true
	case nil:
		return nil, false
	}
	r := renderAny(a)
	switch {
	case strings.HasPrefix(r, "bool:"):
		return []byte(r[5:]), true
	case strings.HasPrefix(r, "i:"), strings.HasPrefix(r, "u:"), strings.HasPrefix(r, "f:"):
		return []byte(r[2:]), true
	}
	return nil, false
}

func present(a any) bool {
	if a == nil {
		return false
	}
	if n, ok := a.(*vector.Node); ok {
		return n != nil && n.Type() != vector.TypeNull
	}
	return true
}

var registerOnce sync.Once

func registerUserFuncs() {
	registerOnce.Do(func() {
		cb := func(name string) decoder.CallbackFn {
			return func(ctx *decoder.Ctx, args []any) error {
				n, fail := ustate(ctx).log("cb", name, args)
				if fail {
					return &injErr{n}
				}
				return nil
			}
		}
		decoder.RegisterCallbackFn("probe", "", cb("probe"))
		decoder.RegisterCallbackFnNS("ns", "probe", "", cb("ns::probe"))

		decoder.RegisterGetterFn("ident", "", func(ctx *decoder.Ctx, buf *any, args []any) error {
			n, fail := ustate(ctx).log("get", "ident", args)
			if fail {
				return &injErr{n}
			}
			if len(args) > 0 {
				*buf = args[0]
				// a literal argument arrives as a pointer into the parsed tree:
				// the harness's getter hands out its own copy, never tree memory
				if p, ok := args[0].(*[]byte); ok && p != nil {
					b := append([]byte(nil), *p...)
					*buf = &b
				}
			} else {
				*buf = nil
			}
			return nil
		})
		decoder.RegisterGetterFn("konst", "", func(ctx *decoder.Ctx, buf *any, args []any) error {
			n, fail := ustate(ctx).log("get", "konst", args)
			if fail {
				return &injErr{n}
			}
			k := []byte("K")
			*buf = &k
			return nil
		})

		upper := func(ctx *decoder.Ctx, buf *any, val any, args []any) error {
			n, fail := ustate(ctx).log("mod", "upper", append([]any{val}, args...))
			if fail {
				return &injErr{n}
			}
			if t, ok := valText(val); ok {
				u := make([]byte, len(t))
				for i, c := range t {
					if c >= 'a' && c <= 'z' {
						c -= 32
					}
					u[i] = c
				}
				*buf = &u
			}
			return nil
		}
		decoder.RegisterModFn("upper", "", upper)
		suffix := func(name string) decoder.ModFn {
			return func(ctx *decoder.Ctx, buf *any, val any, args []any) error {
				n, fail := ustate(ctx).log("mod", name, append([]any{val}, args...))
				if fail {
					return &injErr{n}
				}
				if t, ok := valText(val); ok {
					u := append([]byte(nil), t...)
					for _, a := range args {
						if x, ok := valText(a); ok {
							u = append(u, x...)
						}
					}
					if u == nil {
						u = []byte{}
					}
					*buf = &u
				}
				return nil
			}
		}
		decoder.RegisterModFn("suffix", "", suffix("suffix"))
		decoder.RegisterModFnNS("ns", "suffix", "", suffix("ns::suffix"))
		// functions registered with a namespace and an alias (used by the
		// registration oracle of C17 only; the Coq model does not know them)
		decoder.RegisterModFnNS("vns", "tail", "tl", suffix("vns::tail"))
		decoder.RegisterModFn("plaintail", "ptl", suffix("plaintail"))
		decoder.RegisterCallbackFnNS("vns", "note", "nt", cb("vns::note"))
		decoder.RegisterGetterFnNS("vns", "konst", "kn", func(ctx *decoder.Ctx, buf *any, args []any) error {
			k := []byte("VK")
			*buf = &k
			return nil
		})

		decoder.RegisterCondFn("isTrue", func(ctx *decoder.Ctx, args []any) bool {
			// a condition helper has no error result: it reports a failure through ctx.Err
			if n, fail := ustate(ctx).log("cond", "isTrue", args); fail {
				ctx.Err = &injErr{n}
				return false
			}
			if len(args) == 0 {
				return false
			}
			t, ok := valText(args[0])
			return ok && string(t) == "true"
		})
		eq := func(name string) decoder.CondFn {
			return func(ctx *decoder.Ctx, args []any) bool {
				if n, fail := ustate(ctx).log("cond", name, args); fail {
					ctx.Err = &injErr{n}
					return false
				}
				if len(args) < 2 {
					return false
				}
				a, ok1 := valText(args[0])
				b, ok2 := valText(args[1])
				return ok1 && ok2 && string(a) == string(b)
			}
		}
		decoder.RegisterCondFn("eq", eq("eq"))
		decoder.RegisterCondFnNS("ns", "eq", eq("ns::eq"))

		decoder.RegisterCondOKFn("okh", func(ctx *decoder.Ctx, v *any, ok *bool, args []any) {
			ustate(ctx).log("condok", "okh", args)
			if len(args) > 0 {
				*v, *ok = args[0], present(args[0])
			} else {
				*v, *ok = int(15), true
			}
		})
		decoder.RegisterCondOKFn("nokh", func(ctx *decoder.Ctx, v *any, ok *bool, args []any) {
			ustate(ctx).log("condok", "nokh", args)
			*v, *ok = int(17), false
		})
	})
}

var _ = strconv.Itoa
