package main

// C10 (a registered decoder is safe to share between goroutines), C13
// (registering and decoding concurrently) and C11 (steady-state decoding does
// not allocate): stress / measurement oracles on the real code. The proofs
// these checks rest on are about interleaving and buffer-reuse models
// (coq/theories/Conc.v, Alloc.v) and about the lock audit regenerated from
// db.go; what the runtime adds -- data races, the Go memory model, escape
// analysis -- can only be observed, and is observed here.

import (
	"fmt"
	"reflect"
	"regexp"
	"runtime"
	"runtime/debug"
	"strings"
	"sync"
	"sync/atomic"
	"time"

	"github.com/koykov/decoder"
	"github.com/koykov/inspector/testobj"
	"github.com/koykov/inspector/testobj_ins"
	"github.com/koykov/jsonvector"
)

// ---------------------------------------------------------------- C10

type soloResult struct {
	Res    string
	Trace  []string
	Fields [][]string
}

// slowPool: an internal pool whose Reset yields the processor, so that a context
// released to the context pool while it still holds borrowed objects takes a
// while to reset (goroutine-safe, unlike the counting pools of C14)
type slowPool struct{}

func (slowPool) Get() any { return new(int) }
func (slowPool) Put(any)  {}
func (slowPool) Reset(any) {
	runtime.Gosched()
}

var slowOnce sync.Once

func decodeOnce(tree *decoder.Tree, j *Job, ctx *decoder.Ctx) soloResult {
	r, _ := decodeOnceEnv(tree, j, ctx)
	return r
}

// scribble overwrites, in place, every byte of every []byte reachable from v:
// what the owner of a destination is entitled to do with its own data.
func scribble(v reflect.Value) {
	switch v.Kind() {
	case reflect.Ptr, reflect.Interface:
		if !v.IsNil() {
			scribble(v.Elem())
		}
	case reflect.Struct:
		for i := 0; i < v.NumField(); i++ {
			scribble(v.Field(i))
		}
	case reflect.Slice:
		if v.Type().Elem().Kind() == reflect.Uint8 {
			if v.Len() > 0 {
				// a []byte that aliases a Go string constant of the harness (a
				// source such as st.Id, a static variable) lies in read-only
				// memory: it is shared with that goroutine's own source, not
				// with the tree, and is left alone
				func() {
					defer debug.SetPanicOnFault(debug.SetPanicOnFault(true))
					defer func() { _ = recover() }()
					b := v.Bytes()
					for i := range b {
						b[i] = '#'
					}
				}()
			}
			return
		}
		for i := 0; i < v.Len(); i++ {
			scribble(v.Index(i))
		}
	case reflect.Map:
		for _, k := range v.MapKeys() {
			scribble(v.MapIndex(k))
		}
	}
}

func decodeOnceEnv(tree *decoder.Tree, j *Job, ctx *decoder.Ctx) (soloResult, *env) {
	registerUserFuncs()
	slowOnce.Do(func() { _ = decoder.RegisterPool("slow", slowPool{}) })
	e := newEnv()
	ctx.Reset()
	for k := 0; k < 3; k++ {
		_, _ = ctx.AcquireFrom("slow")
	}
	ctx.Set("obj", e.obj, testobj_ins.TestObjectInspector{})
	ctx.Set("st", e.st, testobj_ins.TestObjectInspector{})
	ctx.Set("ts", e.ts, testobj_ins.TestStructInspector{})
	vec := jsonvector.NewVector()
	_ = vec.Parse([]byte(j.Doc))
	ctx.SetVector("jso", vec)
	for _, s := range j.Statics {
		ctx.SetStatic(s.Name, s.goValue())
	}
	us := ustate(ctx)
	us.trace, us.n, us.failAt = nil, 0, j.Fail
	var r soloResult
	func() {
		defer func() {
			if p := recover(); p != nil {
				r.Res = fmt.Sprint("panic: ", p)
			}
		}()
		r.Res = classify(decoder.DecodeRuleset(tree.Ruleset(), ctx))
	}()
	r.Trace = append([]string{}, us.trace...)
	for _, ob := range e.objs() {
		r.Fields = append(r.Fields, ob.flatten())
	}
	return r, e
}

func init() {
	runners["C10"] = func(cfg *runCfg) (*Summary, error) {
		nProg, reps := 14, 25
		gs := []int{2, 4, 8}
		if cfg.tier == "thorough" {
			nProg, reps = 150, 120
			gs = []int{2, 3, 5, 8, 16}
		}
		var pending []Job
		sum, err := runInterp(cfg, "C10", nProg, nProg,
			"generated core-grammar programs (loops, helpers, modifiers, signals, some with an injected failing call) decoded through ONE shared parsed tree by 2..16 goroutines at once, each with its own context (fresh or from the shared context pool), source and destination, for many repetitions; oracle: every goroutine obtains exactly the result, trace and destination of the solo decode, and the shared tree's dump is unchanged; the solo runs are also compared with the Coq model. The thorough tier runs the same stress under the race detector",
			func(r *prng, i int, st map[string]int) *ICase {
				j := genJob(r, allOpts, 3+r.intn(4), 3, st)
				if r.chance(1, 4) {
					j.Fail = r.intn(4)
				}
				pending = append(pending, j)
				return singleJob("shared", j)
			}, nil, noPanic)
		if err != nil {
			return nil, err
		}
		// every way a literal of the program text can reach a []byte destination
		// (the destination must own its bytes, see the scribble oracle below)
		for _, p := range []string{
			"obj.Name = \"literal\"\nts.B = 'other'\n",
			"obj.Name = jso.t|ifThen(\"yes\")\n",
			"obj.Name = jso.fl|ifThenElse(\"yes\", \"nope\")\nts.B = jso.t|ifThenElse(\"yes\", \"nope\")\n",
			"obj.Name = jso.nul|default(\"dflt\")\n",
			"obj.Name = ident(\"arg\")\nobj.Finance.History[0].Comment = jso.missing|default('c')\n",
			"if jso.t == true {\nobj.Name = \"inner\"\n}\nfor i := 0; i < 2; i++ {\nts.B = \"loop\"\n}\n",
			"switch jso.s {\ncase \"Hello\":\nobj.Name = \"matched\"\ndefault:\nobj.Name = \"dflt\"\n}\n",
		} {
			d := genDoc(newPRNG(cfg.seed))
			pending = append(pending, Job{Prog: p, doc: d.doc, Fail: -1})
		}
		// a job that fails inside a loop (the failure is parked in the context): pooled
		// contexts are handed on right after it now and then
		failJob := Job{Prog: "for i := 0; i < 2; i++ {\nobj.Status = atoi(jso.s)\n}\n", Doc: `{"s":"abc"}`, Fail: -1}
		failTree, _ := decoder.Parse([]byte(failJob.Prog))
		// the concurrent phase
		rng := newPRNG(cfg.seed + 10)
		for pi := range pending {
			j := pending[pi]
			if j.doc != nil {
				j.Doc = j.doc.text()
			}
			tree, perr := decoder.Parse([]byte(j.Prog))
			if perr != nil {
				continue
			}
			before := serNodes(decoder.VerifDumpTree(tree))
			solo, soloEnv := decodeOnceEnv(tree, &j, decoder.NewCtx())
			// the destination belongs to its owner: editing its bytes in place
			// afterwards must not reach the shared tree or any other decode
			func() {
				defer func() { _ = recover() }()
				scribble(reflect.ValueOf(soloEnv.obj))
				scribble(reflect.ValueOf(soloEnv.st))
				scribble(reflect.ValueOf(soloEnv.ts))
			}()
			if mid := serNodes(decoder.VerifDumpTree(tree)); mid != before && len(sum.OracleFails) < 5 {
				sum.OracleFails = append(sum.OracleFails, OracleFail{What: "a destination filled by a decode shares memory with the shared tree: overwriting the destination's own bytes in place changed the tree every other goroutine decodes through", Input: singleJob("shared", j), Expect: "tree dump unchanged", Got: "tree dump changed"})
				continue
			}
			if again := decodeOnce(tree, &j, decoder.NewCtx()); !reflect.DeepEqual(again, solo) && len(sum.OracleFails) < 5 {
				sum.OracleFails = append(sum.OracleFails, OracleFail{What: "a decode through the shared tree after another owner overwrote its own destination bytes differs from the solo decode", Input: singleJob("shared", j), Expect: solo, Got: again})
				continue
			}
			n := pick(rng, gs)
			var wg sync.WaitGroup
			var bad atomic.Value
			for g := 0; g < n; g++ {
				wg.Add(1)
				go func(g int) {
					defer wg.Done()
					for k := 0; k < reps; k++ {
						var ctx *decoder.Ctx
						pooled := (g+k)%2 == 0
						if pooled {
							ctx = decoder.AcquireCtx()
							if k%5 == 2 && failTree != nil {
								fj := failJob
								_ = decodeOnce(failTree, &fj, ctx)
								dropUState(ctx)
								decoder.ReleaseCtx(ctx)
								ctx = decoder.AcquireCtx()
							}
						} else {
							ctx = decoder.NewCtx()
						}
						r := decodeOnce(tree, &j, ctx)
						dropUState(ctx)
						if pooled {
							decoder.ReleaseCtx(ctx)
						}
						if !reflect.DeepEqual(r, solo) {
							bad.Store(fmt.Sprintf("goroutine %d repetition %d: %v", g, k, r))
							return
						}
					}
				}(g)
			}
			wg.Wait()
			sum.Evaluations += n * reps
			sum.Distribution[fmt.Sprintf("goroutines=%d", n)]++
			if b := bad.Load(); b != nil && len(sum.OracleFails) < 5 {
				sum.OracleFails = append(sum.OracleFails, OracleFail{What: "a goroutine decoding through the shared tree obtained a result different from the solo decode", Input: singleJob("shared", j), Expect: solo, Got: b})
			}
			if after := serNodes(decoder.VerifDumpTree(tree)); after != before && len(sum.OracleFails) < 5 {
				sum.OracleFails = append(sum.OracleFails, OracleFail{What: "decoding modified the shared tree", Input: singleJob("shared", j), Expect: "tree dump unchanged", Got: "tree dump changed"})
			}
		}
		return sum, nil
	}

	runners["C13"] = func(cfg *runCfg) (*Summary, error) {
		return runC13(cfg)
	}
	runners["C11"] = func(cfg *runCfg) (*Summary, error) {
		return runC11(cfg)
	}
}

// ---------------------------------------------------------------- C13

// Writers re-register a small set of identifiers with uniquely marked trees;
// each identifier has ONE writer whose marks increase, so versions are
// comparable. Readers decode by key, id and fallback; parsers parse.
var c13Texts = []string{
	"obj.Name = jso.s|default(\"dflt\")|ifThen(jso.t)\nobj.Id = jso.{a|b|c}|ifThenElse(\"x\", jso.s2)\n",
	"if jso.n == 5 {\nobj.Status = jso.m|default(7)\n} else {\nobj.Id = crc32(jso.s, \"lit\")\n}\n",
	"for k, v := range jso.list {\nobj.Name = v.name|def(\"n/a\")\nif k == 2 {\nbreak\n}\n}\n",
	"switch jso.kind {\ncase \"a\":\nobj.Id = jso.a|ifThen(\"A\")\ncase jso.other:\nobj.Id = \"o\"\ndefault:\nobj.Id = jso.z|default(jso.{p|q})\n}\n",
	"for i := 0; i < jso.lim; i++ {\nobj.Status = i\nctx.v = jso.x|default(3)\n}\nobj.Ustate = atou(jso.u)\n",
	"obj.Finance.AllowBuy = jso.flag == true ? jso.yes : jso.no\nobj.Cost = jso.{c1|c2}\n# a comment } with ; braces {\nobj.Id = testns::nothing\n",
}
var c13Dumps []string

func runC13(cfg *runCfg) (*Summary, error) {
	c13Dumps = c13Dumps[:0]
	for _, t := range c13Texts {
		tr, err := decoder.Parse([]byte(t))
		if err != nil {
			return nil, fmt.Errorf("C13 reference text rejected: %v: %q", err, t)
		}
		c13Dumps = append(c13Dumps, serNodes(decoder.VerifDumpTree(tr)))
	}
	sum := &Summary{Distribution: map[string]int{}}
	sum.Rule = "W writer goroutines re-registering keys / ids / pairs with uniquely marked trees (one writer per identifier, marks increasing), R reader goroutines decoding them by key, id and fallback, P goroutines parsing, for W,R,P drawn from 1..8; oracle: no deadlock (watchdog), no panic, every decode of an identifier that has been registered runs a complete tree registered for it (marker in the identifier's set), markers seen by one reader for one identifier never decrease, and a decode that starts after a registration returned sees that registration or a later one. Thorough tier: the same under the race detector"
	registerUserFuncs()
	rounds, opsPer := 3, 400
	if cfg.tier == "thorough" {
		rounds, opsPer = 12, 4000
	}
	rng := newPRNG(cfg.seed)
	for round := 0; round < rounds; round++ {
		decoder.VerifResetRegistry()
		W, R, P := 1+rng.intn(8), 1+rng.intn(8), 1+rng.intn(4)
		sum.Distribution[fmt.Sprintf("W=%d R=%d P=%d", W, R, P)]++
		// identifier w: key "k<w>" and id w; writer w alternates the three register calls
		published := make([]int64, W) // last mark whose registration has returned
		var stop int32
		var progress int64
		var failure atomic.Value
		fail := func(s string) {
			if failure.Load() == nil {
				failure.Store(s)
			}
			atomic.StoreInt32(&stop, 1)
		}
		var wg sync.WaitGroup
		for w := 0; w < W; w++ {
			wg.Add(1)
			go func(w int) {
				defer wg.Done()
				defer func() {
					if p := recover(); p != nil {
						fail(fmt.Sprint("panic in writer: ", p))
					}
				}()
				key := fmt.Sprintf("k%d", w)
				for m := 1; m <= opsPer && atomic.LoadInt32(&stop) == 0; m++ {
					mark := int64(w)*1000000 + int64(m)
					tree, err := decoder.Parse([]byte(fmt.Sprintf("obj.Status = %d\nobj.Ustate = %d\n", mark%1000000, mark)))
					if err != nil {
						fail("Parse of a marker program failed: " + err.Error())
						return
					}
					switch m % 3 {
					case 0:
						decoder.RegisterDecoder(w, key, tree)
					case 1:
						decoder.RegisterDecoderKey(key, tree)
					default:
						if m > 3 { // the id is known from the first pairing on
							decoder.RegisterDecoderID(w, tree)
						} else {
							decoder.RegisterDecoder(w, key, tree)
						}
					}
					atomic.StoreInt64(&published[w], int64(m))
					atomic.AddInt64(&progress, 1)
				}
			}(w)
		}
		for r := 0; r < R; r++ {
			wg.Add(1)
			go func(r int) {
				defer wg.Done()
				defer func() {
					if p := recover(); p != nil {
						fail(fmt.Sprint("panic in reader: ", p))
					}
				}()
				ctx := decoder.NewCtx()
				obj := &testobj.TestObject{}
				last := make([]int64, W)
				lr := newPRNG(cfg.seed*31 + int64(r))
				for k := 0; k < opsPer && atomic.LoadInt32(&stop) == 0; k++ {
					w := lr.intn(W)
					key := fmt.Sprintf("k%d", w)
					floor := atomic.LoadInt64(&published[w])
					ctx.Reset()
					obj.Status, obj.Ustate = -1, 0
					ctx.Set("obj", obj, testobj_ins.TestObjectInspector{})
					var err error
					how := k % 3
					switch how {
					case 0:
						err = decoder.Decode(key, ctx)
					case 1:
						err = decoder.DecodeByID(w, ctx)
					default:
						err = decoder.DecodeFallback("nosuch-"+key, key, ctx)
					}
					atomic.AddInt64(&progress, 1)
					if err == decoder.ErrDecoderNotFound {
						// by id: the id is indexed by the first RegisterDecoder (m == 2 or 3)
						need := int64(1)
						if how == 1 {
							need = 3
						}
						if floor >= need {
							fail(fmt.Sprintf("reader: %s not found although registration %d had returned", key, floor))
							return
						}
						continue
					}
					if err != nil {
						fail("reader: decode failed: " + err.Error())
						return
					}
					mark := int64(obj.Ustate)
					if mark/1000000 != int64(w) || int64(obj.Status) != mark%1000000 {
						fail(fmt.Sprintf("reader: decode of %s ran an incomplete or foreign tree (Status=%d Ustate=%d)", key, obj.Status, obj.Ustate))
						return
					}
					m := mark % 1000000
					if m < floor && !(how == 1 && floor < 3) {
						fail(fmt.Sprintf("reader: decode of %s started after registration %d had returned but ran version %d", key, floor, m))
						return
					}
					if how != 1 {
						if m < last[w] {
							fail(fmt.Sprintf("reader: versions of %s went backwards (%d after %d)", key, m, last[w]))
							return
						}
						last[w] = m
					}
				}
			}(r)
		}
		for p := 0; p < P; p++ {
			wg.Add(1)
			go func(p int) {
				defer wg.Done()
				defer func() {
					if x := recover(); x != nil {
						fail(fmt.Sprint("panic in parser: ", x))
					}
				}()
				for k := 0; k < opsPer/4 && atomic.LoadInt32(&stop) == 0; k++ {
					src := []byte(fmt.Sprintf("obj.Status = %d\nobj.Ustate = %d\n", k%50+1, int64(p%4)*1000000+int64(k%50+1)))
					t, err := decoder.Parse(src)
					atomic.AddInt64(&progress, 1)
					if err != nil || t == nil || len(t.Ruleset()) != 2 {
						fail(fmt.Sprintf("parser: Parse of a two-rule text gave %v", err))
						return
					}
					// texts that go through every part of the parser (modifier chains,
					// coalesce groups, conditions, loops, switches): a concurrent Parse
					// must give the tree the same text gives when parsed alone
					ri := (k + p) % len(c13Texts)
					t2, err2 := decoder.Parse([]byte(c13Texts[ri]))
					if err2 != nil || t2 == nil {
						fail(fmt.Sprintf("parser: concurrent Parse of a reference text failed: %v", err2))
						return
					}
					if got := serNodes(decoder.VerifDumpTree(t2)); got != c13Dumps[ri] {
						fail(fmt.Sprintf("parser: a concurrent Parse returned a tree different from the one the same text gives when parsed alone (text %q)", c13Texts[ri]))
						return
					}
				}
			}(p)
		}
		done := make(chan struct{})
		go func() { wg.Wait(); close(done) }()
		lastP := int64(-1)
		stuck := 0
	wait:
		for {
			select {
			case <-done:
				break wait
			case <-time.After(500 * time.Millisecond):
				cur := atomic.LoadInt64(&progress)
				if cur == lastP {
					stuck++
					if stuck >= 8 {
						fail("no operation completed for 4 s: deadlock")
						break wait
					}
				} else {
					stuck = 0
				}
				lastP = cur
			}
		}
		n := int(atomic.LoadInt64(&progress))
		sum.Evaluations += n
		sum.Distinct += n / 2
		if f := failure.Load(); f != nil {
			sum.OracleFails = append(sum.OracleFails, OracleFail{What: "concurrent registration / decoding: " + f.(string), Input: map[string]any{"writers": W, "readers": R, "parsers": P, "ops_per_goroutine": opsPer, "seed": cfg.seed, "round": round}, Expect: "race-free, linearizable registry", Got: f})
			break
		}
	}
	// two registrations of ONE identifier racing (a pairing against a re-registration
	// of its key or of its id): each is atomic, so afterwards the identifier's id and
	// its key lead to the same tree, the one of the registration that came second
	if len(sum.OracleFails) == 0 {
		pairs := 1500
		if cfg.tier == "thorough" {
			pairs = 30000
		}
		decoder.VerifResetRegistry()
		tA, errA := decoder.Parse([]byte("obj.Status = 1\n"))
		tB, errB := decoder.Parse([]byte("obj.Status = 2\n"))
		if errA != nil || errB != nil {
			return nil, fmt.Errorf("C13 marker programs rejected")
		}
		ctx := decoder.NewCtx()
		obj := &testobj.TestObject{}
		run := func(f func() error) (int32, error) {
			ctx.Reset()
			obj.Status = -1
			ctx.Set("obj", obj, testobj_ins.TestObjectInspector{})
			err := f()
			return obj.Status, err
		}
		for i := 0; i < pairs; i++ {
			id, key := 1000+i, fmt.Sprintf("race%d", i)
			var ready int32
			var wg sync.WaitGroup
			wg.Add(2)
			gate := func() {
				atomic.AddInt32(&ready, 1)
				for atomic.LoadInt32(&ready) < 2 {
				}
			}
			go func() { defer wg.Done(); gate(); decoder.RegisterDecoder(id, key, tA) }()
			go func() {
				defer wg.Done()
				gate()
				if i%2 == 0 {
					decoder.RegisterDecoderKey(key, tB)
				} else {
					decoder.RegisterDecoderID(id, tB)
				}
			}()
			wg.Wait()
			byID, e1 := run(func() error { return decoder.DecodeByID(id, ctx) })
			byKey, e2 := run(func() error { return decoder.Decode(key, ctx) })
			sum.Evaluations += 2
			sum.Distribution["racing registrations of one identifier"]++
			if e1 != nil || e2 != nil || byID != byKey {
				other := "RegisterDecoderKey(key, B)"
				if i%2 == 1 {
					other = "RegisterDecoderID(id, B)"
				}
				sum.OracleFails = append(sum.OracleFails, OracleFail{What: "two concurrent registrations of one identifier left its id and its key leading to different trees (no serial order of the two does)",
					Input:  map[string]any{"history": "RegisterDecoder(id, key, A) || " + other + "; then DecodeByID(id), Decode(key)", "id": id, "key": key, "pair_number": i},
					Expect: "both decodes run the same tree", Got: fmt.Sprintf("DecodeByID ran %d (err %v), Decode ran %d (err %v)", byID, e1, byKey, e2)})
				break
			}
		}
	}
	sum.Samples = append(sum.Samples, map[string]any{"writer": "for m := 1..: RegisterDecoder(w, k<w>, tree(m)) / RegisterDecoderKey / RegisterDecoderID in turn", "reader": "Decode(k<w>) / DecodeByID(w) / DecodeFallback(nosuch, k<w>) -> version monotone, complete, not older than a returned registration"})
	decoder.VerifResetRegistry()
	return sum, nil
}

// ---------------------------------------------------------------- C11

func runC11(cfg *runCfg) (*Summary, error) {
	sum := &Summary{Distribution: map[string]int{}}
	sum.Rule = "generated core-grammar programs without user-registered functions and map destinations (assignments from vector, struct, literal and context sources, conditionals, switches, counter and range loops with signals, coalesce, builtin modifiers and getters) x three document sizes; after a warm-up of 300 Reset-set-Decode repetitions the heap-object count (runtime.MemStats.Mallocs, GOMAXPROCS(1), GC off) is sampled over three further windows of 800, 1400 and 2500 repetitions (each contains a power-of-two repetition count, so geometric buffer growth shows in every window); oracle: the minimum over the windows stays below half an object per repetition (the runtime's own bookkeeping accounts for a handful per window; a decode-path allocation costs at least one per repetition) and the context's lengths and capacities (verif snapshot) after the first and the last window are identical"
	nProg := 24
	if cfg.tier == "thorough" {
		nProg = 250
	}
	rng := newPRNG(cfg.seed)
	registerUserFuncs()
	old := runtime.GOMAXPROCS(1)
	defer runtime.GOMAXPROCS(old)
	for i := 0; i < nProg; i++ {
		o := genOpts{signals: true, loops: true, conds: true, switches: true, ctxvars: true, floats: false, userFns: false}
		j := genJob(rng, o, 3+rng.intn(5), 3, sum.Distribution)
		if i < len(c11Builtins) {
			// every builtin getter and modifier, with values beyond one byte (an
			// integer boxed into an interface allocates unless it is below 256)
			j.Prog = c11Builtins[i]
			sum.Distribution["builtin getter / modifier programs"]++
		}
		// D44: a JSON number that does not convert to its destination (a negative one
		// into an unsigned field) makes strconv allocate an error value inside
		// vector.Node.Uint although the decode succeeds (known finding); the documents
		// of the main stream carry non-negative numbers within int64 only
		stripMinus(j.doc)
		if i >= len(c11Builtins) && reBadBound.MatchString(j.Prog) {
			// a bound that is not a number is converted with strconv and fails there (same class as D44)
			sum.Distribution["skipped: counter loop with a non-numeric bound (known finding D44)"]++
			continue
		}
		// D26: default(x) with a Go-typed argument allocates (known finding); keep it out of the main stream
		if containsGoTypedDefault(j.Prog) {
			sum.Distribution["skipped: default() with Go-typed argument (known finding D26)"]++
			continue
		}
		j.Doc = j.doc.text()
		// the probe callback of the harness records (and so allocates); the builtin no-op callback stands in for it
		j.Prog = strings.ReplaceAll(j.Prog, "probe(", "testns::foo(")
		tree, err := decoder.Parse([]byte(j.Prog))
		if err != nil {
			continue
		}
		ctx := decoder.NewCtx()
		e := newEnv()
		vec := jsonvector.NewVector()
		doc := []byte(j.Doc)
		statics := make([]any, len(j.Statics))
		for k, s := range j.Statics {
			statics[k] = s.goValue()
		}
		run := func() {
			ctx.Reset()
			ctx.Set("obj", e.obj, testobj_ins.TestObjectInspector{})
			ctx.Set("st", e.st, testobj_ins.TestObjectInspector{})
			ctx.Set("ts", e.ts, testobj_ins.TestStructInspector{})
			vec.Reset()
			_ = vec.Parse(doc)
			ctx.SetVector("jso", vec)
			for k, s := range j.Statics {
				ctx.SetStatic(s.Name, statics[k])
			}
			_ = decoder.DecodeRuleset(tree.Ruleset(), ctx)
		}
		for k := 0; k < 300; k++ {
			run()
		}
		// a decode that fails builds an error value (strconv.NumError, ...): only successful decodes are measured
		{
			ok := true
			func() {
				ctx.Reset()
				ctx.Set("obj", e.obj, testobj_ins.TestObjectInspector{})
				ctx.Set("st", e.st, testobj_ins.TestObjectInspector{})
				ctx.Set("ts", e.ts, testobj_ins.TestStructInspector{})
				vec.Reset()
				_ = vec.Parse(doc)
				ctx.SetVector("jso", vec)
				for k, s := range j.Statics {
					ctx.SetStatic(s.Name, statics[k])
				}
				if err := decoder.DecodeRuleset(tree.Ruleset(), ctx); err != nil {
					ok = false
				}
			}()
			if !ok {
				sum.Distribution["skipped: the decode returns an error"]++
				continue
			}
		}
		snap0 := decoder.VerifCtx(ctx)
		var ms runtime.MemStats
		windows := []int{800, 1400, 2500}
		if cfg.tier != "thorough" {
			windows = []int{800, 1400}
		}
		min := uint64(1 << 62)
		for _, wlen := range windows {
			runtime.GC()
			runtime.ReadMemStats(&ms)
			before := ms.Mallocs
			for k := 0; k < wlen; k++ {
				run()
			}
			runtime.ReadMemStats(&ms)
			d := ms.Mallocs - before
			if d < min {
				min = d
			}
		}
		snap1 := decoder.VerifCtx(ctx)
		sum.Evaluations++
		sum.Distinct++
		if min < 400 {
			sum.Distribution["mallocs per repetition = 0 (window noise < 400 objects)"]++
		} else {
			sum.Distribution[fmt.Sprintf("mallocs(min over windows)=%d", min)]++
		}
		// The runtime itself allocates a handful of objects per window (GC bookkeeping,
		// lazily filled type-switch caches); an allocation in the decode path shows as
		// at least one object per repetition. Growth that is not per repetition
		// (geometric buffer growth) is caught by the capacity snapshots below.
		if min >= 400 && len(sum.OracleFails) < 5 {
			sum.OracleFails = append(sum.OracleFails, OracleFail{What: fmt.Sprintf("steady-state decoding allocated: at least %d heap objects in every measurement window", min), Input: singleJob("alloc", j), Expect: 0, Got: min})
		}
		snap0.BufI, snap0.BufI_, snap0.BufU, snap0.BufF, snap0.BufBl, snap0.BufXNil = 0, 0, 0, 0, false, false
		snap1.BufI, snap1.BufI_, snap1.BufU, snap1.BufF, snap1.BufBl, snap1.BufXNil = 0, 0, 0, 0, false, false
		if !reflect.DeepEqual(snap0, snap1) && len(sum.OracleFails) < 5 {
			sum.OracleFails = append(sum.OracleFails, OracleFail{What: "the context's buffer lengths / capacities keep changing from repetition to repetition (a buffer that Reset does not truncate, or that is re-allocated)", Input: singleJob("alloc", j), Expect: snap0, Got: snap1})
		}
		if len(sum.Samples) < 2 {
			sum.Samples = append(sum.Samples, map[string]any{"program": j.Prog, "document_bytes": len(doc), "min_mallocs": min, "lenBB": snap1.LenBB, "capBufLC": snap1.CapBufLC})
		}
	}
	return sum, nil
}

var c11Builtins = []string{
	"ts.I = atoi(jso.big)\nts.I64 = strToInt(\"105999\")\nobj.Status = atoi(jso.bigs)\nts.U64 = atou(jso.big)\nobj.Ustate = strToUint(\"70000\")\n",
	"ts.S = itoa(jso.big)\nobj.Id = intToStr(st.Status)\nobj.Name = utoa(jso.big)\nts.B = uintToStr(st.Ustate)\n",
	// number-to-text conversions through the context's accumulative buffer, several in one decode
	"obj.Id = st.Status\nobj.Name = st.Ustate\nts.S = st.Finance.History.0.DateUnix\nts.B = st.Finance.History.1.DateUnix\nobj.Finance.History[0].Comment = st.Status\n",
	"ts.I64 = crc32(jso.s, jso.big, \"lit\")\nobj.Status = crc32(st.Id)\nobj.Finance.AllowBuy = atob(jso.t)\nobj.Finance.AllowBuy = strToBool(\"true\")\n",
	"obj.Name = jso.nul|default(jso.s)\nobj.Id = jso.missing|def(\"dflt\")\nts.S = jso.t|ifThen(jso.s)\nts.B = jso.fl|ifThenElse(\"yes\", jso.s2)\nobj.Status = jso.z|default(jso.big)\n",
	"for i := 250; i < 262; i++ {\nobj.Status = i\nts.I = i\n}\nfor k, v := range jso.a {\nts.I64 = atoi(v)\n}\n",
	"for k, v := range jso.objs {\nfor k2, v2 := range jso.a {\nfor k3, v3 := range jso.b {\ntestns::foo(k, k2, k3, v.id, v2, v3)\n}\nfor _, r := range jso.grid {\nts.I = r.0\n}\n}\n}\nfor _, h := range st.Finance.History {\nfor _, h2 := range obj.Finance.History {\nts.I64 = h2.DateUnix\n}\n}\n",
	"for i := 0; i < 3; i++ {\nfor j := 2; j >= 0; j-- {\nfor l := 1; l != 3; l++ {\nts.I = l\nif j == 1 {\ncontinue\n}\nif l == 2 {\nbreak 2\n}\n}\n}\n}\nobj.Name = \"lit\"\nts.S = 'another literal of some length'\nobj.Id = jso.missing|default(\"dflt\")\n",
	"ctx.x = jso.big\nobj.Status = x\nctx.y = 70000\nts.I = y\nif x == 70001 {\nts.U64 = atou(x)\n}\nswitch jso.big {\ncase 300:\nts.I = 1\ncase jso.big:\nts.I = atoi(jso.big)\n}\n",
}

var reBadBound = regexp.MustCompile(`for \w+ := [^\n]*\b(fvar|bvar|svar|nosuchvar)\b`)

func stripMinus(v *JV) {
	if v == nil {
		return
	}
	if v.K == "num" {
		v.T = strings.TrimPrefix(v.T, "-")
		if len(v.T) >= 19 && !strings.Contains(v.T, ".") {
			// beyond int64: does not convert to signed fields either
			v.T = v.T[:9]
		}
	}
	for _, x := range v.Xs {
		stripMinus(x)
	}
}

func containsGoTypedDefault(p string) bool {
	// default(<static var or struct field>) : args that are Go values, not literals / nodes
	for _, v := range []string{"default(ivar", "default(uvar", "default(bvar", "default(svar", "default(fvar", "default(st.", "def(ivar", "def(uvar", "def(bvar", "def(svar", "def(fvar", "def(st."} {
		if containsStr(p, v) {
			return true
		}
	}
	return false
}

func containsStr(s, sub string) bool {
	for i := 0; i+len(sub) <= len(s); i++ {
		if s[i:i+len(sub)] == sub {
			return true
		}
	}
	return false
}
