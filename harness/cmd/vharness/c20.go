package main

// C20: Parse is a pure function of the rule text. Histories of Parse and
// Register* calls over a few texts (including the empty text, a blank text,
// and two different texts of the same length) are replayed on the real
// package; every Parse result is compared with the result of parsing the same
// text in an empty registry (direct oracle) and with the Coq model of
// Parse + registry.

import (
	"fmt"
	"path/filepath"
	"strings"

	"github.com/koykov/decoder"
	"github.com/koykov/inspector/testobj"
	"github.com/koykov/inspector/testobj_ins"

	"verifharness/coqfmt"
)

type histOp struct {
	Kind string `json:"kind"` // parse regkey regid regboth
	Text int    `json:"text,omitempty"`
	Key  string `json:"key,omitempty"`
	ID   int    `json:"id,omitempty"`
	Res  int    `json:"res,omitempty"`
}

type histCase struct {
	Texts []string   `json:"texts"`
	Ops   []histOp   `json:"ops"`
	Obs   []parseObs `json:"obs"`
}

func decodeMarker(t *decoder.Tree) string {
	ctx := decoder.NewCtx()
	obj := &testobj.TestObject{}
	ctx.Set("obj", obj, testobj_ins.TestObjectInspector{})
	st := &testobj.TestObject{Finance: &testobj.TestFinance{History: []testobj.TestHistory{{DateUnix: 1}, {DateUnix: 2}}}}
	ctx.Set("st", st, testobj_ins.TestObjectInspector{})
	func() {
		defer func() { _ = recover() }()
		_ = decoder.DecodeRuleset(t.Ruleset(), ctx)
		// what a caller does next: the context goes back for reuse
		ctx.Reset()
	}()
	return fmt.Sprintf("%s|%s|%d", obj.Id, obj.Name, obj.Status)
}

func init() {
	runners["C20"] = func(cfg *runCfg) (*Summary, error) {
		sum := &Summary{Distribution: map[string]int{}}
		sum.Rule = "histories of 3-9 Parse / RegisterDecoderKey / RegisterDecoderID / RegisterDecoder calls over 7 texts per history (generated programs, the empty text, a blank text, two different texts of equal length, a text with a parse error, a text using a function name that is registered in another spelling only), re-registering keys with other trees between two parses of one text; oracle: every Parse returns the error and a tree structurally identical to (and decoding like) the one the same text gives in an empty registry, and never changes the bytes it is given. distinct_nontrivial = histories in which some text is parsed again after a registration"
		rng := newPRNG(cfg.seed)
		n := 120
		if cfg.tier == "thorough" {
			n = 2500
		}
		registerUserFuncs()
		var coq []string
		var meta []any
		for i := 0; i < n; i++ {
			p1 := genProgramText(rng, nil)
			a := fmt.Sprintf("obj.Status = %d\n", 100+rng.intn(800))
			b := fmt.Sprintf("obj.Status = %d\n", 100+rng.intn(800))
			if i%3 == 0 {
				// a text whose decode goes through range loops (the loop objects keep the body they ran)
				p1 = fmt.Sprintf("for _, v := range st.Finance.History {\nobj.Status = %d\nfor k := range st.Finance.History {\nobj.Id = \"in\"\n}\n}\n", 100+rng.intn(800))
			}
			texts := []string{"", " \n\t", a, b, p1, "if obj.Status == 1 {\nobj.Id = \"x\"\n",
				// a name that is registered in another spelling only: rejected, and the bytes stay as given
				pick(rng, []string{"obj.Id = jso.s|Default(\"x\")\n", "obj.Name = jso.s|UpperFirst\n", "Probe(jso.a)\n", "obj.Id = Crc32(jso.s)\n", "obj.Id = jso.s|Upper()\nobj.Status = 5\n"})}
			// reference results in an empty registry
			ref := make([]parseObs, len(texts))
			refMark := make([]string, len(texts))
			for k, t := range texts {
				decoder.VerifResetRegistry()
				o, tr := realParse([]byte(t))
				ref[k] = o
				if tr != nil {
					refMark[k] = decodeMarker(tr)
				}
			}
			decoder.VerifResetRegistry()
			var ops []histOp
			var trees []*decoder.Tree
			var obs []parseObs
			reparsed := false
			registered := false
			l := 3 + rng.intn(7)
			var coqOps []string
			// scripted histories first: parse x, register it, register another text's
			// tree under the same identifier, parse x again (all pairs of the first four texts)
			var script []int // >=0: parse text; -1-k: register result k under key k1; -100-k: by id 0
			if i < 32 {
				x, y := (i/2)%4, (i/8)%4
				reg := -1
				if i%2 == 1 {
					reg = -100
				}
				script = []int{x, reg - 0, y, reg - 1, x, y, x}
				l = len(script)
			}
			for k := 0; k < l; k++ {
				scripted := script != nil
				if (scripted && script[k] >= 0) || (!scripted && (len(trees) == 0 || rng.chance(3, 5))) {
					ti := rng.intn(len(texts))
					if scripted {
						ti = script[k]
					}
					o, tr := realParse([]byte(texts[ti]))
					ops = append(ops, histOp{Kind: "parse", Text: ti})
					coqOps = append(coqOps, "HParse "+coqfmt.Str(texts[ti]))
					obs = append(obs, o)
					trees = append(trees, tr)
					if registered {
						reparsed = true
					}
					sum.Evaluations++
					fail := ""
					switch {
					case o.Class == "panic" || o.Class == "hang" || o.Class == "modified-input":
						fail = "Parse " + o.Class + " " + o.Err
					case o.Class != ref[ti].Class:
						fail = fmt.Sprintf("Parse returned %s (%s) for a text that gives %s in an empty registry", o.Class, o.Err, ref[ti].Class)
					case o.Class == "ok" && o.Ser != ref[ti].Ser:
						fail = "Parse returned a tree that differs structurally from the tree of the same text in an empty registry"
					case o.Class == "ok" && tr != nil && decodeMarker(tr) != refMark[ti]:
						fail = "the returned tree decodes differently from the tree of the same text in an empty registry"
					}
					if fail != "" && len(sum.OracleFails) < 5 {
						sum.OracleFails = append(sum.OracleFails, OracleFail{What: fail, Input: histCase{texts, append([]histOp(nil), ops...), nil}, Expect: ref[ti].Class, Got: o.Class + " " + o.Err})
					}
					continue
				}
				ri := rng.intn(len(trees))
				kind := rng.intn(3)
				if scripted {
					if script[k] <= -100 {
						ri, kind = -100-script[k], 1
					} else {
						ri, kind = -1-script[k], 0
					}
				}
				if ri >= len(trees) || trees[ri] == nil {
					continue
				}
				registered = true
				switch kind {
				case 0:
					key := pick(rng, []string{"k1", "k2"})
					if scripted {
						key = "k1"
					}
					decoder.RegisterDecoderKey(key, trees[ri])
					ops = append(ops, histOp{Kind: "regkey", Key: key, Res: ri})
					coqOps = append(coqOps, fmt.Sprintf("HRegKey %s %d", coqfmt.Str(key), ri))
				case 1:
					id := rng.intn(2)
					if scripted {
						id = 0
					}
					decoder.RegisterDecoderID(id, trees[ri])
					ops = append(ops, histOp{Kind: "regid", ID: id, Res: ri})
					coqOps = append(coqOps, fmt.Sprintf("HRegID %s %d", coqfmt.Z(int64(id)), ri))
				default:
					id, key := rng.intn(2), pick(rng, []string{"k1", "k2"})
					decoder.RegisterDecoder(id, key, trees[ri])
					ops = append(ops, histOp{Kind: "regboth", ID: id, Key: key, Res: ri})
					coqOps = append(coqOps, fmt.Sprintf("HRegBoth %s %s %d", coqfmt.Z(int64(id)), coqfmt.Str(key), ri))
				}
			}
			if reparsed {
				sum.Distinct++
			}
			sum.Distribution[fmt.Sprintf("history length %d", len(ops))]++
			var cobs []string
			for _, o := range obs {
				e := "None"
				ser := o.Ser
				if o.Class != "ok" {
					if strings.HasPrefix(o.Class, "PE") {
						e = "(Some " + o.Class + ")"
					} else {
						e = "(Some PEFuel)"
					}
					ser = ""
				}
				cobs = append(cobs, "("+e+", "+coqfmt.Bytes([]byte(ser))+")")
			}
			coq = append(coq, "("+coqfmt.List(coqOps)+",\n  "+coqfmt.List(cobs)+")")
			hc := histCase{texts, ops, obs}
			meta = append(meta, hc)
			if len(sum.Samples) < 2 {
				sum.Samples = append(sum.Samples, hc)
			}
		}
		const shard = 40
		for off, k := 0, 0; off < len(coq); off, k = off+shard, k+1 {
			end := off + shard
			if end > len(coq) {
				end = len(coq)
			}
			name := fmt.Sprintf("cases_C20_%03d.v", k)
			var sb strings.Builder
			sb.WriteString("From Coq Require Import List NArith ZArith String.\nFrom Dec Require Import Bytes Tree Parser CasesParser.\nImport ListNotations.\n")
			sb.WriteString(namesCoq())
			sb.WriteString("Definition cases : list hcase := [\n" + strings.Join(coq[off:end], ";\n") + "\n].\nDefinition M := Eval vm_compute in hmismatches NM cases.\nPrint M.\n")
			if err := writeIfChanged(filepath.Join(cfg.out, name), []byte(sb.String())); err != nil {
				return nil, err
			}
			sum.Files = append(sum.Files, CaseFile{File: name, Cases: meta[off:end]})
		}
		sum.CoqCases = len(coq)
		decoder.VerifResetRegistry()
		return sum, nil
	}
}
