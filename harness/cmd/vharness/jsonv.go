package main

// JSON documents generated structurally and handed to both sides: as text to
// jsonvector, as a term of type json to the Coq model.

import (
	"strings"

	"verifharness/coqfmt"
)

type JV struct {
	K    string // null bool num str arr obj
	B    bool
	T    string // number text / raw string text
	Xs   []*JV
	Keys []string
}

func jNull() *JV         { return &JV{K: "null"} }
func jBool(b bool) *JV   { return &JV{K: "bool", B: b} }
func jNum(t string) *JV  { return &JV{K: "num", T: t} }
func jStr(t string) *JV  { return &JV{K: "str", T: t} }
func jArr(xs ...*JV) *JV { return &JV{K: "arr", Xs: xs} }
func jObj(kv ...any) *JV {
	o := &JV{K: "obj"}
	for i := 0; i+1 < len(kv); i += 2 {
		o.Keys = append(o.Keys, kv[i].(string))
		o.Xs = append(o.Xs, kv[i+1].(*JV))
	}
	return o
}

func (j *JV) text() string {
	switch j.K {
	case "null":
		return "null"
	case "bool":
		if j.B {
			return "true"
		}
		return "false"
	case "num":
		return j.T
	case "str":
		return `"` + jsonEscape(j.T) + `"`
	case "arr":
		xs := make([]string, len(j.Xs))
		for i, x := range j.Xs {
			xs[i] = x.text()
		}
		return "[" + strings.Join(xs, ",") + "]"
	default:
		xs := make([]string, len(j.Xs))
		for i, x := range j.Xs {
			xs[i] = `"` + j.Keys[i] + `":` + x.text()
		}
		return "{" + strings.Join(xs, ",") + "}"
	}
}

func (j *JV) coq() string {
	switch j.K {
	case "null":
		return "JNull"
	case "bool":
		return "(JBool " + coqfmt.Bool(j.B) + ")"
	case "num":
		return "(JNum " + coqfmt.Str(j.T) + ")"
	case "str":
		return "(JStr " + coqfmt.Str(j.T) + ")"
	case "arr":
		xs := make([]string, len(j.Xs))
		for i, x := range j.Xs {
			xs[i] = x.coq()
		}
		return "(JArr " + coqfmt.List(xs) + ")"
	default:
		xs := make([]string, len(j.Xs))
		for i, x := range j.Xs {
			xs[i] = "(" + coqfmt.Str(j.Keys[i]) + ", " + x.coq() + ")"
		}
		return "(JObj " + coqfmt.List(xs) + ")"
	}
}

// jsonEscape writes a string value as JSON text (the vector unescapes it lazily)
func jsonEscape(t string) string {
	if !strings.ContainsAny(t, "\"\\\t\n") {
		return t
	}
	var sb strings.Builder
	for i := 0; i < len(t); i++ {
		switch t[i] {
		case '"':
			sb.WriteString("\\\"")
		case '\\':
			sb.WriteString("\\\\")
		case '\t':
			sb.WriteString("\\t")
		case '\n':
			sb.WriteString("\\n")
		default:
			sb.WriteByte(t[i])
		}
	}
	return sb.String()
}
