// vharness: correspondence harness between /repo (built with -tags verif) and
// the Coq model in /verif/coq. See /verif/DESIGN.md §4.
package main

import (
	"encoding/json"
	"flag"
	"fmt"
	"os"
	"path/filepath"
	"sort"
)

// Summary is what a `run` writes next to its case files; the runner turns it
// into the evidence file.
type Summary struct {
	Property     string         `json:"property"`
	Tier         string         `json:"tier"`
	Seed         int64          `json:"seed"`
	Evaluations  int            `json:"evaluations"`
	Distinct     int            `json:"distinct_nontrivial"`
	Rule         string         `json:"rule"`
	Exhaustive   bool           `json:"exhaustive"`
	CoqCases     int            `json:"coq_cases"`
	Samples      []any          `json:"samples"`
	Distribution map[string]int `json:"distribution"`
	OracleFails  []OracleFail   `json:"oracle_failures"`
	Files        []CaseFile     `json:"files"`
	Known        []KnownHit     `json:"known_hits"`
	Notes        []string       `json:"notes,omitempty"`
}

// OracleFail is a concrete input on which the real code violates the property's
// direct oracle.
type OracleFail struct {
	What   string `json:"what"`
	Input  any    `json:"input"`
	Expect any    `json:"expect"`
	Got    any    `json:"got"`
}

// KnownHit reports that a listed known finding still reproduces.
type KnownHit struct {
	ID   string `json:"id"`
	What string `json:"what"`
}

// CaseFile lists, for one generated .v file, the cases it contains (by index)
// so that the runner can map a mismatch index back to a replayable input.
type CaseFile struct {
	File  string `json:"file"`
	Cases []any  `json:"cases"`
}

type runCfg struct {
	prop   string
	tier   string
	seed   int64
	out    string
	repo   string
	verif  string
	replay string
}

var runners = map[string]func(cfg *runCfg) (*Summary, error){}

func main() {
	if len(os.Args) < 2 {
		fmt.Fprintln(os.Stderr, "usage: vharness translate|run ...")
		os.Exit(2)
	}
	switch os.Args[1] {
	case "translate":
		fs := flag.NewFlagSet("translate", flag.ExitOnError)
		repo := fs.String("repo", "/repo", "repository")
		out := fs.String("out", "/verif/coq/generated", "output dir")
		_ = fs.Parse(os.Args[2:])
		if err := translate(*repo, *out); err != nil {
			fmt.Fprintln(os.Stderr, "translate:", err)
			os.Exit(1)
		}
	case "run":
		fs := flag.NewFlagSet("run", flag.ExitOnError)
		cfg := &runCfg{}
		fs.StringVar(&cfg.prop, "prop", "", "property id")
		fs.StringVar(&cfg.tier, "tier", "quick", "quick|thorough")
		fs.Int64Var(&cfg.seed, "seed", 1, "seed")
		fs.StringVar(&cfg.out, "out", "", "output dir")
		fs.StringVar(&cfg.repo, "repo", "/repo", "repository")
		fs.StringVar(&cfg.verif, "verif", "/verif", "verif dir")
		fs.StringVar(&cfg.replay, "replay", "", "replay file")
		_ = fs.Parse(os.Args[2:])
		fn, ok := runners[cfg.prop]
		if !ok {
			fmt.Fprintln(os.Stderr, "unknown property", cfg.prop)
			os.Exit(2)
		}
		if err := os.MkdirAll(cfg.out, 0o755); err != nil {
			fmt.Fprintln(os.Stderr, err)
			os.Exit(1)
		}
		sum, err := fn(cfg)
		if err != nil {
			fmt.Fprintln(os.Stderr, "run:", err)
			os.Exit(1)
		}
		runKnownProbes(cfg.prop, sum)
		sum.Property, sum.Tier, sum.Seed = cfg.prop, cfg.tier, cfg.seed
		b, _ := json.MarshalIndent(sum, "", " ")
		if err := os.WriteFile(filepath.Join(cfg.out, "summary.json"), b, 0o644); err != nil {
			fmt.Fprintln(os.Stderr, err)
			os.Exit(1)
		}
	case "list":
		var ks []string
		for k := range runners {
			ks = append(ks, k)
		}
		sort.Strings(ks)
		for _, k := range ks {
			fmt.Println(k)
		}
	default:
		fmt.Fprintln(os.Stderr, "unknown command", os.Args[1])
		os.Exit(2)
	}
}

// writeIfChanged writes the file only when its content differs, so that make
// does not rebuild what did not change.
func writeIfChanged(path string, content []byte) error {
	old, err := os.ReadFile(path)
	if err == nil && string(old) == string(content) {
		return nil
	}
	if err := os.MkdirAll(filepath.Dir(path), 0o755); err != nil {
		return err
	}
	return os.WriteFile(path, content, 0o644)
}
