package main

// C18, direct oracle for the four parsing getters: atoi / atou / atof / atob
// return what strconv's ParseInt / ParseUint / ParseFloat / ParseBool return and
// fail exactly when those fail. The argument reaches the getter as a vector
// node, as a static string variable and as a literal.

import (
	"errors"
	"fmt"
	"math"
	"strconv"
	"strings"

	"github.com/koykov/decoder"
	"github.com/koykov/inspector/testobj"
	"github.com/koykov/inspector/testobj_ins"
	"github.com/koykov/jsonvector"
)

var strconvCurated = []string{"", "0", "1", "-1", "+1", "-0", "--1", "+-1", "007", " 1", "1 ", "1 2", "12a", "a12", "0x10", "1_000", "1e3",
	"9223372036854775807", "9223372036854775808", "-9223372036854775808", "-9223372036854775809", "18446744073709551615", "18446744073709551616",
	"99999999999999999999999", ".", "e", "1e", "1e+", "1.e1", ".5", "5.", "+.5e-3", "1.5", "-2.25", "1.2.3", "1e308", "1e309", "1e999", "-1e999", "4.9e-324", "1e-400",
	"0x1p-2", "0x1.8p1", "inf", "+Inf", "-inf", "infinity", "Infinity", "nan", "NaN", "nAn", "in", "abc", "true", "TRUE", "True", "tRue", "t", "T",
	"f", "F", "false", "FALSE", "False", "yes", "no", "on", "2", "01", "1.0", "0.0", "00", "3.14159265358979323846264338327950288", "1e23", "8.41e21", "2.2250738585072011e-308"}

func genStrconvText(r *prng) string {
	const digits = "0123456789"
	const rest = "+-.eE xXpPnNaAiIfF_tTrRuUlLsS"
	var sb strings.Builder
	if r.chance(1, 2) {
		// mostly well-formed numbers: sign? digits (. digits)? (e sign? digits)?
		sb.WriteString(pick(r, []string{"", "", "-", "+"}))
		for i, k := 0, 1+r.intn(19); i < k; i++ {
			sb.WriteByte(digits[r.intn(len(digits))])
		}
		if r.chance(1, 3) {
			sb.WriteByte('.')
			for i, k := 0, r.intn(6); i < k; i++ {
				sb.WriteByte(digits[r.intn(len(digits))])
			}
		}
		if r.chance(1, 4) {
			sb.WriteString(pick(r, []string{"e", "E", "e-", "e+"}) + strconv.Itoa(r.intn(400)))
		}
		return sb.String()
	}
	n := r.intn(9)
	for i := 0; i < n; i++ {
		if r.chance(2, 3) {
			sb.WriteByte(digits[r.intn(len(digits))])
		} else {
			sb.WriteByte(rest[r.intn(len(rest))])
		}
	}
	return sb.String()
}

func sameStrconvErr(got, want error) bool {
	if (got == nil) != (want == nil) {
		return false
	}
	if got == nil {
		return true
	}
	var a, b *strconv.NumError
	if errors.As(got, &a) && errors.As(want, &b) {
		return a.Err == b.Err
	}
	return false
}

func strconvOracle(cfg *runCfg, sum *Summary) {
	rng := newPRNG(cfg.seed*7 + 3)
	n := 400
	if cfg.tier == "thorough" {
		n = 20000
	}
	texts := append([]string{}, strconvCurated...)
	for i := 0; i < n; i++ {
		texts = append(texts, genStrconvText(rng))
	}
	type target struct {
		getter, dst string
	}
	targets := []target{{"atoi", "ts.I64"}, {"atou", "ts.U64"}, {"atof", "ts.D"}, {"atob", "obj.Finance.AllowBuy"},
		{"strToInt", "ts.I64"}, {"strToUint", "ts.U64"}, {"strToFloat", "ts.D"}, {"strToBool", "obj.Finance.AllowBuy"}}
	trees := map[string]*decoder.Tree{}
	tree := func(prog string) *decoder.Tree {
		if t := trees[prog]; t != nil {
			return t
		}
		t, err := decoder.Parse([]byte(prog))
		if err != nil {
			return nil
		}
		trees[prog] = t
		return t
	}
	ctx := decoder.NewCtx()
	vec := jsonvector.NewVector()
	fails := 0
	for _, s := range texts {
		plain := !strings.ContainsAny(s, "\"\\") && strings.IndexFunc(s, func(c rune) bool { return c < 0x20 }) < 0
		literal := plain && !strings.ContainsAny(s, "'|(){};#,/")
		for ti, tg := range targets {
			if ti >= 4 && !rng.chance(1, 6) {
				continue
			}
			for form := 0; form < 3; form++ {
				var prog string
				switch form {
				case 0:
					if !plain {
						continue
					}
					prog = tg.dst + " = " + tg.getter + "(jso.x)\n"
				case 1:
					prog = tg.dst + " = " + tg.getter + "(sv)\n"
				default:
					if !literal {
						continue
					}
					prog = tg.dst + " = " + tg.getter + "(\"" + s + "\")\n"
				}
				t := tree(prog)
				if t == nil {
					continue
				}
				obj := &testobj.TestObject{Finance: &testobj.TestFinance{}}
				ts := &testobj.TestStruct{}
				var wantErr error
				var check func() (bool, string, string)
				switch tg.getter {
				case "atoi", "strToInt":
					z, e := strconv.ParseInt(s, 10, 64)
					wantErr = e
					ts.I64 = ^z
					check = func() (bool, string, string) { return ts.I64 == z, fmt.Sprint(z), fmt.Sprint(ts.I64) }
				case "atou", "strToUint":
					z, e := strconv.ParseUint(s, 10, 64)
					wantErr = e
					ts.U64 = ^z
					check = func() (bool, string, string) { return ts.U64 == z, fmt.Sprint(z), fmt.Sprint(ts.U64) }
				case "atof", "strToFloat":
					f, e := strconv.ParseFloat(s, 64)
					wantErr = e
					ts.D = 12345.678
					check = func() (bool, string, string) {
						return math.Float64bits(ts.D) == math.Float64bits(f) || (math.IsNaN(f) && math.IsNaN(ts.D)), fmt.Sprint(f), fmt.Sprint(ts.D)
					}
				default:
					b, e := strconv.ParseBool(s)
					wantErr = e
					obj.Finance.AllowBuy = !b
					check = func() (bool, string, string) {
						return obj.Finance.AllowBuy == b, fmt.Sprint(b), fmt.Sprint(obj.Finance.AllowBuy)
					}
				}
				ctx.Reset()
				ctx.Set("obj", obj, testobj_ins.TestObjectInspector{})
				ctx.Set("ts", ts, testobj_ins.TestStructInspector{})
				vec.Reset()
				if form == 0 {
					if err := vec.Parse([]byte(`{"x":"` + s + `"}`)); err != nil {
						continue
					}
					ctx.SetVector("jso", vec)
				}
				sv := s
				ctx.SetStatic("sv", &sv)
				var got error
				func() {
					defer func() {
						if p := recover(); p != nil {
							got = fmt.Errorf("panic: %v", p)
						}
					}()
					got = decoder.DecodeRuleset(t.Ruleset(), ctx)
				}()
				sum.Evaluations++
				sum.Distribution[fmt.Sprintf("strconv oracle: %s, %s", tg.getter, []string{"vector node", "static string", "literal"}[form])]++
				if wantErr != nil {
					sum.Distribution["strconv oracle: inputs strconv rejects"]++
				}
				bad, exp, have := false, "", ""
				if !sameStrconvErr(got, wantErr) {
					bad, exp, have = true, fmt.Sprint("error ", wantErr), fmt.Sprint("error ", got)
				} else if wantErr == nil {
					if ok, e, h := check(); !ok {
						bad, exp, have = true, e, h
					}
				}
				if bad && fails < 5 {
					fails++
					sum.OracleFails = append(sum.OracleFails, OracleFail{What: tg.getter + " does not return what strconv returns for this text (or does not fail exactly when strconv fails)",
						Input: map[string]any{"prog": prog, "text": s, "argument_form": []string{"vector node jso.x", "static string variable sv", "literal"}[form]}, Expect: exp, Got: have})
				}
			}
		}
	}
}
