package main

// Parser properties C08 (Parse is total), C09 (layout independence) and C20
// (Parse is a pure function of the text): case streams, direct oracles and Coq
// case files for the parser model.

import (
	"bytes"
	"fmt"
	"os"
	"path/filepath"
	"reflect"
	"regexp"
	"sort"
	"strconv"
	"strings"
	"time"

	"github.com/koykov/decoder"

	"verifharness/coqfmt"
)

// ---------------------------------------------------------------- serialisation (mirrors CasesParser.v)

func serBytes(b []byte) string { return strconv.Itoa(len(b)) + ":" + string(b) }
func serBool(b bool) string {
	if b {
		return "t"
	}
	return "f"
}
func serZ(i int) string { return strconv.Itoa(i) + ";" }
func serBytesList(l [][]byte) string {
	var sb strings.Builder
	sb.WriteString(strconv.Itoa(len(l)) + "[")
	for _, x := range l {
		sb.WriteString(serBytes(x))
	}
	sb.WriteString("]")
	return sb.String()
}
func serArgs(l []decoder.VerifArg) string {
	var sb strings.Builder
	sb.WriteString(strconv.Itoa(len(l)) + "[")
	for _, a := range l {
		sb.WriteString("A" + serBytes(a.Val) + serBytesList(a.Subset) + serBool(a.Static))
	}
	sb.WriteString("]")
	return sb.String()
}
func serNodes(l []decoder.VerifNode) string {
	var sb strings.Builder
	sb.WriteString(strconv.Itoa(len(l)) + "[")
	for _, n := range l {
		sb.WriteString("N" + serZ(n.Typ) + serBytes(n.Dst) + serBytes(n.Src) + serBytes(n.Ins) + serBytesList(n.Subset) +
			serBool(n.Getter) + serBool(n.Callback) + serBool(n.Static))
		sb.WriteString(strconv.Itoa(len(n.Mod)) + "[")
		for _, m := range n.Mod {
			sb.WriteString("M" + serBytes(m.ID) + serArgs(m.Arg))
		}
		sb.WriteString("]")
		sb.WriteString(serArgs(n.Arg) + serNodes(n.Child))
		sb.WriteString(serBytes(n.LoopKey) + serBytes(n.LoopVal) + serBytes(n.LoopSrc) + serBytes(n.LoopCnt) + serBytes(n.LoopCntInit) +
			serBool(n.LoopCntStatic) + serZ(n.LoopCntOp) + serZ(n.LoopCondOp) + serBytes(n.LoopLim) + serBool(n.LoopLimStatic) + serZ(n.LoopBrkD))
		sb.WriteString(serBytes(n.CondL) + serBytes(n.CondOKL) + serBytes(n.CondR) + serBytes(n.CondOKR) + serBool(n.CondStaticL) + serBool(n.CondStaticR) +
			serZ(n.CondOp) + serBytes(n.CondHlp) + serArgs(n.CondHlpArg) + serBytes(n.CondIns) + serZ(n.CondLC) + serBytes(n.SwitchArg))
		sb.WriteString(serBytes(n.CaseL) + serBytes(n.CaseR) + serBool(n.CaseStaticL) + serBool(n.CaseStaticR) + serZ(n.CaseOp) + serBytes(n.CaseHlp) + serArgs(n.CaseHlpArg))
	}
	sb.WriteString("]")
	return sb.String()
}

// ---------------------------------------------------------------- running the real parser

type parseObs struct {
	Class string `json:"class"` // ok | Coq constructor of the error | panic | hang
	Err   string `json:"err,omitempty"`
	Ser   string `json:"-"`
	Nodes int    `json:"nodes"`
}

func classifyParseErr(err error) string {
	switch {
	case err == nil:
		return "ok"
	case err == decoder.ErrUnbalancedCtl:
		return "PEUnbalanced"
	case err == decoder.ErrUnexpectedClose:
		return "PEUnexpectedClose"
	case strings.HasPrefix(err.Error(), "couldn't parse loop"):
		return "PELoop"
	case strings.HasPrefix(err.Error(), "too complex condition"):
		return "PEComplex"
	case strings.HasPrefix(err.Error(), "condition without opening bracket"), strings.HasPrefix(err.Error(), "loop without opening bracket"), strings.HasPrefix(err.Error(), "switch without opening bracket"):
		return "PENoBrace"
	case strings.HasPrefix(err.Error(), "unknown getter nor modifier"):
		return "PEUnknownGetter"
	case strings.HasPrefix(err.Error(), "unknown callback"):
		return "PEUnknownCallback"
	case strings.HasPrefix(err.Error(), "unknown node"):
		return "PEUnknownNode"
	}
	return "other"
}

func realParse(src []byte) (parseObs, *decoder.Tree) {
	registerUserFuncs()
	type res struct {
		t   *decoder.Tree
		err error
		pan any
	}
	done := make(chan res, 1)
	in := append([]byte(nil), src...)
	go func() {
		var r res
		defer func() {
			if p := recover(); p != nil {
				r.pan = p
			}
			done <- r
		}()
		r.t, r.err = decoder.Parse(in)
	}()
	select {
	case r := <-done:
		if r.pan != nil {
			return parseObs{Class: "panic", Err: fmt.Sprint(r.pan)}, nil
		}
		o := parseObs{Class: classifyParseErr(r.err)}
		if r.err != nil {
			o.Err = r.err.Error()
		}
		if !bytes.Equal(in, src) {
			o.Class, o.Err = "modified-input", "Parse changed the bytes it was given"
		}
		if r.t != nil {
			d := decoder.VerifDumpTree(r.t)
			o.Ser, o.Nodes = serNodes(d), len(d)
		}
		return o, r.t
	case <-time.After(10 * time.Second):
		return parseObs{Class: "hang"}, nil
	}
}

// parseFileObs: the same bytes through ParseFile (written to a scratch file that
// is removed at once).
func parseFileObs(src []byte) (parseObs, error) {
	f, err := os.CreateTemp("", "vharness-*.dec")
	if err != nil {
		return parseObs{}, err
	}
	name := f.Name()
	defer os.Remove(name)
	if _, err = f.Write(src); err != nil {
		f.Close()
		return parseObs{}, err
	}
	f.Close()
	var o parseObs
	func() {
		defer func() {
			if p := recover(); p != nil {
				o = parseObs{Class: "panic", Err: fmt.Sprint(p)}
			}
		}()
		t, perr := decoder.ParseFile(name)
		o = parseObs{Class: classifyParseErr(perr)}
		if perr != nil {
			o.Err = perr.Error()
		}
		if t != nil {
			d := decoder.VerifDumpTree(t)
			o.Ser, o.Nodes = serNodes(d), len(d)
		}
	}()
	return o, nil
}

type parseCase struct {
	Tag string   `json:"tag"`
	Src string   `json:"src"`
	Obs parseObs `json:"obs"`
	raw []byte
}

func namesCoq() string {
	g, m, c := decoder.VerifRegisteredNames()
	sort.Strings(g)
	sort.Strings(m)
	sort.Strings(c)
	l := func(xs []string) string {
		r := make([]string, len(xs))
		for i, x := range xs {
			r[i] = coqfmt.Str(x)
		}
		return coqfmt.List(r)
	}
	return "Definition NM : names := mk_names\n  " + l(g) + "\n  " + l(m) + "\n  " + l(c) + ".\n"
}

func emitParseCases(cfg *runCfg, sum *Summary, prefix string, cases []*parseCase, shard int) error {
	registerUserFuncs()
	for off, k := 0, 0; off < len(cases); off, k = off+shard, k+1 {
		end := off + shard
		if end > len(cases) {
			end = len(cases)
		}
		name := fmt.Sprintf("cases_%s_%03d.v", prefix, k)
		var sb strings.Builder
		sb.WriteString("From Coq Require Import List NArith ZArith String.\nFrom Dec Require Import Bytes Tree Parser CasesParser.\nImport ListNotations.\n")
		sb.WriteString(namesCoq())
		sb.WriteString("Definition cases : list parsecase := [\n")
		var meta []any
		for i, c := range cases[off:end] {
			if i > 0 {
				sb.WriteString(";\n")
			}
			e := "None"
			if c.Obs.Class != "ok" {
				if strings.HasPrefix(c.Obs.Class, "PE") {
					e = "(Some " + c.Obs.Class + ")"
				} else {
					e = "(Some PEFuel)" // panic / hang / other: equal to nothing the model returns on real input
				}
			}
			ser := c.Obs.Ser
			if c.Obs.Class != "ok" {
				ser = ""
			}
			sb.WriteString("(" + coqfmt.Bytes(c.raw) + ", " + e + ", " + coqfmt.Bytes([]byte(ser)) + ")")
			meta = append(meta, c)
		}
		sb.WriteString("\n].\nDefinition M := Eval vm_compute in mismatches NM cases.\nPrint M.\n")
		if err := writeIfChanged(filepath.Join(cfg.out, name), []byte(sb.String())); err != nil {
			return err
		}
		sum.Files = append(sum.Files, CaseFile{File: name, Cases: meta})
	}
	sum.CoqCases += len(cases)
	return nil
}

func newParseCase(tag string, src []byte) *parseCase {
	o, _ := realParse(src)
	return &parseCase{Tag: tag, Src: strconv.QuoteToASCII(string(src)), Obs: o, raw: append([]byte(nil), src...)}
}

// ---------------------------------------------------------------- sources of texts

func fixtureTexts(repo string) [][]byte {
	var out [][]byte
	for _, d := range []string{"parser", "decoder", "mod", "getter"} {
		m, _ := filepath.Glob(filepath.Join(repo, "testdata", d, "*.dec"))
		sort.Strings(m)
		for _, f := range m {
			if b, err := os.ReadFile(f); err == nil {
				out = append(out, b)
			}
		}
	}
	return out
}

func genProgramText(r *prng, st map[string]int) string {
	if r.bool() {
		j, _ := refJob(r, rgenOpts{conds: true, switches: true, cloops: true, rloops: true, signals: true}, st, 2+r.intn(3), 3)
		return j.Prog
	}
	j := genJob(r, allOpts, 2+r.intn(4), 3, st)
	return j.Prog
}

var parseTokens = []string{"if ", "for ", "range ", ":= ", "== ", "<= ", "{", "}", "} else {", "(", ")", "|", ".", ",", ";", "?", ":", `"`, "'", " ", "\t", "\n", "\r\n",
	"case ", "default:", "switch ", "break", "lazybreak 2", "continue", " as ", "ctx.", "obj.Id", "jso.a", "probe(", "crc32(", "i++", "i--", "= ", "//", "#", ".{", "x", "5", "é", "\xff"}

var reCmpOp = regexp.MustCompile(`==|!=|>=|<=|>|<|:=|\?|:`)

// dropOperand removes the operand (the run of non-blank bytes) before or after
// one comparison / assignment / ternary operator of the text, or the operator
// itself: `if == 1 {`, `if x >  {`, `obj.Id = == 1 ? a : b`, `for i := ; i < 3; i++ {`
func dropOperand(r *prng, src []byte) []byte {
	locs := reCmpOp.FindAllIndex(src, -1)
	if len(locs) == 0 {
		return src
	}
	l := locs[r.intn(len(locs))]
	s := append([]byte(nil), src...)
	switch r.intn(3) {
	case 0: // left operand
		j := l[0]
		for j > 0 && (s[j-1] == ' ' || s[j-1] == '\t') {
			j--
		}
		i := j
		for i > 0 && s[i-1] != ' ' && s[i-1] != '\t' && s[i-1] != '\n' {
			i--
		}
		return append(s[:i:i], s[j:]...)
	case 1: // right operand
		i := l[1]
		for i < len(s) && (s[i] == ' ' || s[i] == '\t') {
			i++
		}
		j := i
		for j < len(s) && s[j] != ' ' && s[j] != '\t' && s[j] != '\n' && s[j] != '{' {
			j++
		}
		return append(s[:i:i], s[j:]...)
	default: // the operator
		return append(s[:l[0]:l[0]], s[l[1]:]...)
	}
}

func mutateText(r *prng, src []byte) []byte {
	if r.chance(1, 4) {
		return dropOperand(r, src)
	}
	s := append([]byte(nil), src...)
	for k, n := 0, 1+r.intn(3); k < n; k++ {
		if len(s) == 0 {
			s = []byte(pick(r, parseTokens))
			continue
		}
		i := r.intn(len(s))
		j := i + r.intn(8)
		if j > len(s) {
			j = len(s)
		}
		switch r.intn(5) {
		case 0: // delete
			s = append(s[:i:i], s[j:]...)
		case 1: // insert token
			s = append(s[:i:i], append([]byte(pick(r, parseTokens)), s[i:]...)...)
		case 2: // duplicate
			s = append(s[:j:j], append(append([]byte(nil), s[i:j]...), s[j:]...)...)
		case 3: // splice with itself
			k2 := r.intn(len(s))
			s = append(s[:i:i], s[k2:]...)
		default: // replace a byte
			s[i] = pick(r, parseTokens)[0]
		}
	}
	return s
}

// ---------------------------------------------------------------- C08

var bracedHeaders = []string{
	"if jso.{a|b} == 1 {\n%s}\n",
	"if jso.{a|b|c} != \"x\" {\n%s} else {\n%s}\n",
	"if 5 <= jso.o.{k|l} {\n%s}\n",
	"if ns::eq(jso.{a|b}, 1) {\n%s}\n",
	"if v, ok := okh(jso.{a|b}); ok {\n%s}\n",
	"switch jso.{a|b} {\ncase 1:\n%scase jso.{x|y}:\n%sdefault:\n%s}\n",
	"switch {\ncase jso.{a|b} == 1:\n%scase isTrue(jso.{x|y}):\n%s}\n",
	"for i := 0; i < 2; i++ {\nif jso.{a|b} == 1 {\n%s}\n}\n",
	"for k, v := range jso.list {\nif v.{a|b} == 1 {\n%s} else {\n%s}\n}\n",
}

var bracedBodies = []string{"probe(1)\n", "obj.Id = jso.{a|b}\n", "obj.Status = jso.o.{k|l}|default(3)\n", "probe(jso.{a|b}, 2)\nobj.Name = \"x\"\n", ""}

func bracedHeaderPrograms(r *prng, n int) []string {
	var out []string
	for _, h := range bracedHeaders {
		out = append(out, fillBodies(r, h))
	}
	for i := 0; i < n; i++ {
		out = append(out, fillBodies(r, pick(r, bracedHeaders))+fillBodies(r, pick(r, bracedHeaders)))
	}
	return out
}

func fillBodies(r *prng, h string) string {
	for strings.Contains(h, "%s") {
		h = strings.Replace(h, "%s", pick(r, bracedBodies), 1)
	}
	return h
}

func braceEdits(text string) [][]byte {
	var out [][]byte
	b := []byte(text)
	for i, c := range b {
		if c == '{' || c == '}' {
			// block braces only: an opener ends its line, a closer starts it
			// (the braces of a coalesce group a.{k1|k2} are not block structure)
			if c == '{' && !(i+1 == len(b) || b[i+1] == '\n') {
				continue
			}
			if c == '}' && !(i == 0 || b[i-1] == '\n') {
				continue
			}
			out = append(out, append(append([]byte(nil), b[:i]...), b[i+1:]...))
		}
	}
	// insert a surplus closing brace / an else with no open if at every line start
	off := 0
	for _, line := range strings.SplitAfter(text, "\n") {
		out = append(out, []byte(text[:off]+"}\n"+text[off:]))
		off += len(line)
	}
	out = append(out, []byte(text+"}\n"), []byte(text+"} else {\nprobe(1)\n}\n"))
	return out
}

func init() {
	runners["C08"] = func(cfg *runCfg) (*Summary, error) {
		sum := &Summary{Distribution: map[string]int{}}
		sum.Rule = "byte strings handed to Parse under recover and a watchdog: random bytes and token soups; token-level delete / insert / duplicate / splice mutations of the repository's fixtures and of generated core-grammar programs; every single-brace deletion and every surplus-brace / stray-else insertion in generated programs (these must be rejected); calls of unregistered callbacks and getters (must be rejected); each with and without a final newline. distinct_nontrivial = distinct texts with at least one control line"
		rng := newPRNG(cfg.seed)
		nRandom, nMut, nProg := 300, 500, 40
		if cfg.tier == "thorough" {
			nRandom, nMut, nProg = 5000, 12000, 600
		}
		seen := map[string]bool{}
		var cases []*parseCase
		add := func(tag string, src []byte, mustFail bool) {
			c := newParseCase(tag, src)
			sum.Evaluations++
			sum.Distribution["class "+c.Obs.Class]++
			sum.Distribution["stream "+tag]++
			if !seen[string(src)] && len(bytes.TrimSpace(src)) > 0 {
				sum.Distinct++
			}
			seen[string(src)] = true
			if c.Obs.Class == "panic" || c.Obs.Class == "hang" || c.Obs.Class == "modified-input" {
				if len(sum.OracleFails) < 5 {
					sum.OracleFails = append(sum.OracleFails, OracleFail{What: "Parse " + c.Obs.Class + ": " + c.Obs.Err, Input: c, Expect: "a tree or an error", Got: c.Obs.Class})
				}
			} else if mustFail && c.Obs.Class == "ok" {
				if len(sum.OracleFails) < 5 {
					sum.OracleFails = append(sum.OracleFails, OracleFail{What: "a program that is unbalanced or calls an unregistered function was accepted (" + tag + ")", Input: c, Expect: "non-nil error", Got: "nil error"})
				}
			}
			// ParseFile is Parse of the file's bytes: same verdict, same tree
			if tag == "corpus" || len(cases)%9 == 0 {
				if fo, ferr := parseFileObs(src); ferr == nil {
					sum.Distribution["ParseFile compared with Parse"]++
					if (fo.Class != c.Obs.Class || fo.Ser != c.Obs.Ser) && c.Obs.Class != "modified-input" && len(sum.OracleFails) < 5 {
						sum.OracleFails = append(sum.OracleFails, OracleFail{What: "ParseFile of a file does not give what Parse gives for the file's bytes (" + tag + ")", Input: c,
							Expect: c.Obs.Class + " " + c.Obs.Err, Got: fo.Class + " " + fo.Err})
					}
				}
			}
			cases = append(cases, c)
			if len(sum.Samples) < 3 && tag != "random bytes" && len(src) < 200 {
				sum.Samples = append(sum.Samples, c)
			}
		}
		// corpus: pre-repair witnesses
		for _, s := range []string{"}\n", "} else {\n", "x", "if jso.n == 5 {\nprobe(1)\n}", "", " \n\t", "for i := 0; i < 3; i++ {\n} else {\n}\n", "switch jso.s {\n} else {\n}\n",
			"if x == 1 {\n", "for k, v := range jso.a {\nprobe(k)\n", "switch jso.s {\ncase 1:\n", "nosuchfn(1)\n", "obj.Id = nosuchgetter(jso.a)\n", "obj.Id = jso.a|nosuchmod()\n",
			"if == 1 {\nprobe(1)\n}\n", "if  <= jso.n {\n}\n", "if >5{\n}\n", "obj.Id = == 1 ? jso.a : jso.b\n", "if jso.n == {\n}\n", "if jso.n  1 {\n}\n",
			"for i := ; i < 3; i++ {\n}\n", "for i := 0; i < ; i++ {\n}\n", "for := range jso.a {\n}\n", "switch {\ncase == 1:\nprobe(1)\n}\n", "switch {\ncase jso.n >:\n}\n",
			"obj.Id = jso.n == 1 ? : jso.b\n", "obj.Id = jso.n == 1 ? jso.a :\n", "if x, ok := (jso.a); ok {\n}\n", "if , ok := okh(jso.a); ok {\n}\n",
			// names that are registered in another spelling only
			"obj.Id = jso.s|Default(\"x\")\n", "obj.Name = jso.s|UpperFirst\n", "ctx.v = jso.b|IfThenElse(1, 2)\n", "obj.Id = Crc32(jso.s)\n", "Probe(jso.a)\n", "obj.Id = jso.s|Upper()|suffix(\"A\")\n"} {
			must := strings.Contains(s, "else") || strings.HasPrefix(s, "}") || strings.HasSuffix(s, "{\n") || strings.Contains(s, "nosuchfn") || strings.Contains(s, "nosuchgetter") ||
				(strings.Contains(s, "range") && !strings.HasSuffix(s, "}\n")) || strings.HasSuffix(s, "case 1:\n")
			add("corpus", []byte(s), must)
		}
		fx := fixtureTexts(cfg.repo)
		for i := 0; i < nRandom; i++ {
			n := r2len(rng)
			b := make([]byte, n)
			for k := range b {
				if rng.chance(1, 3) {
					t := pick(rng, parseTokens)
					b[k] = t[0]
				} else {
					b[k] = byte(rng.intn(256))
				}
			}
			add("random bytes", b, false)
			var sb strings.Builder
			for k, m := 0, 1+rng.intn(12); k < m; k++ {
				sb.WriteString(pick(rng, parseTokens))
			}
			add("token soup", []byte(sb.String()), false)
		}
		var progs []string
		for i := 0; i < nProg; i++ {
			progs = append(progs, genProgramText(rng, sum.Distribution))
		}
		// block headers that themselves contain braces (coalesce groups in
		// conditions, switch subjects, case values, helper arguments): the
		// block brace is still the one that ends the line
		progs = append(progs, bracedHeaderPrograms(rng, 6)...)
		for i := 0; i < nMut; i++ {
			var base []byte
			if rng.bool() && len(fx) > 0 {
				base = pick(rng, fx)
			} else {
				base = []byte(pick(rng, progs))
			}
			m := mutateText(rng, base)
			if rng.bool() {
				m = bytes.TrimRight(m, "\n")
			}
			add("mutation", m, false)
		}
		for _, p := range progs {
			add("valid program", []byte(p), false)
			add("valid program, no final newline", []byte(strings.TrimRight(p, "\n")), false)
			for _, e := range braceEdits(p) {
				add("single brace edit", e, true)
				if rng.chance(1, 4) {
					add("single brace edit, no final newline", bytes.TrimRight(e, "\n"), true)
				}
				// whole-line comments are opaque: a brace inside one balances nothing
				for _, mark := range []string{"#", "//"} {
					ls := strings.SplitAfter(string(e), "\n")
					at := rng.intn(len(ls))
					com := pick(rng, []string{"", " ", "\t"}) + mark + pick(rng, []string{"", " "}) + pick(rng, []string{"}", "{", "} else {", "if x == 1 {", "closes the block }", "}}", "for i := 0; i < 3; i++ {"}) + "\n"
					add("single brace edit plus a "+mark+" comment with braces", []byte(strings.Join(ls[:at], "")+com+strings.Join(ls[at:], "")), true)
				}
			}
			add("unregistered callback", []byte(p+"nosuchcallback(jso.a)\n"), true)
			add("unregistered getter", []byte("obj.Id = nosuchgetter(jso.a)\n"+p), true)
		}
		// a rejected text stays rejected whatever happened before: the tree that came
		// with the error is registered (callers that ignore the error do that) and
		// the same bytes are parsed again
		decoder.VerifResetRegistry()
		for k, bad := range []string{"if jso.a == 1 {\nprobe(1)\n", "probe(1)\n}\n", "probe(1)\n} else {\n}\n", "nosuchcallback(jso.a)\n", "obj.Id = nosuchgetter(jso.a)\n",
			"for i := 0; i < 3; i++ {\n", "switch jso.s {\ncase 1:\nprobe(1)\n"} {
			t1, e1 := decoder.Parse([]byte(bad))
			if e1 == nil {
				continue
			}
			if t1 != nil {
				decoder.RegisterDecoderKey(fmt.Sprintf("bad%d", k), t1)
				decoder.RegisterDecoder(100+k, fmt.Sprintf("badpair%d", k), t1)
			}
			_, e2 := decoder.Parse([]byte(bad))
			sum.Evaluations++
			sum.Distribution["parse / register / parse histories of rejected texts"]++
			if e2 == nil && len(sum.OracleFails) < 5 {
				sum.OracleFails = append(sum.OracleFails, OracleFail{What: "a text that Parse rejected is accepted when parsed again after the tree returned with the error was registered", Input: map[string]any{"text": bad, "history": "Parse(text) -> error; Register(tree); Parse(text)"}, Expect: "non-nil error", Got: "nil error"})
			}
		}
		decoder.VerifResetRegistry()
		registerUserFuncs()
		// Coq evaluates a sample (all corpus + brace edits sample + mutations sample)
		var coq []*parseCase
		budget := 350
		if cfg.tier == "thorough" {
			budget = 6000
		}
		for i, c := range cases {
			if c.Tag == "corpus" || rng.intn(len(cases)) < budget || i < 20 {
				if len(c.raw) <= 600 {
					coq = append(coq, c)
				}
			}
		}
		if err := emitParseCases(cfg, sum, "C08", coq, 120); err != nil {
			return nil, err
		}
		return sum, nil
	}

	runners["C09"] = func(cfg *runCfg) (*Summary, error) {
		sum := &Summary{Distribution: map[string]int{}}
		sum.Rule = "generated core-grammar programs (assignments, getters, callbacks, modifiers, coalesce, if/else, cond-OK, ternary, both switch forms, both loop kinds, signals, nesting to depth 3) rendered in layouts drawn from all combinations of: indentation (none / spaces / tabs), blank lines, LF / CRLF, trailing `;`, whole-line // and # comments, blanks at the end of lines, final newline present / absent, compact vs gofmt-style spacing around = == := , and in loop headers; oracle: every layout parses to the same tree as the canonical one; the canonical and a sample of the layouts are also parsed by the Coq parser model"
		rng := newPRNG(cfg.seed)
		nProg, nLay := 40, 14
		if cfg.tier == "thorough" {
			nProg, nLay = 400, 64
		}
		var coq []*parseCase
		for i := 0; i < nProg+len(c09Fixed); i++ {
			p := genProgramText(rng, sum.Distribution)
			if i >= nProg {
				// shapes the random programs reach only now and then; every layout is applied to them
				p = c09Fixed[i-nProg]
			} else if i%2 == 0 {
				// "the tree reflects the program": a structured program whose meaning is
				// known from its construction is parsed, decoded, and must behave as written
				c := refCase(rng, rgenOpts{conds: true, switches: true, cloops: true, rloops: true, signals: true}, sum.Distribution, "reference")
				if err := c.exec(); err == nil {
					before := len(sum.OracleFails)
					refOracle(c, sum)
					if len(sum.OracleFails) > before {
						sum.OracleFails[len(sum.OracleFails)-1].What = "the parsed tree does not reflect the program: " + sum.OracleFails[len(sum.OracleFails)-1].What
					}
					sum.Evaluations++
					p = c.Jobs[0].Prog
				}
			}
			base := newParseCase("canonical", []byte(p))
			sum.Evaluations++
			if base.Obs.Class != "ok" {
				sum.Distribution["canonical program rejected (generator)"]++
				continue
			}
			sum.Distinct++
			coq = append(coq, base)
			if len(sum.Samples) < 2 {
				sum.Samples = append(sum.Samples, base)
			}
			for k := 0; k < nLay; k++ {
				mask := rng.intn(1 << 10)
				if k < 11 {
					mask = []int{1, 2, 4, 8, 16, 32, 64, 128, 256, 512, 1023}[k]
				}
				lay := applyLayout(rng, p, mask)
				c := newParseCase(fmt.Sprintf("layout %010b", mask), lay)
				sum.Evaluations++
				sum.Distribution["layouts"]++
				if c.Obs.Class != "ok" || c.Obs.Ser != base.Obs.Ser {
					if len(sum.OracleFails) < 5 {
						sum.OracleFails = append(sum.OracleFails, OracleFail{What: "a layout of the program parses differently from its canonical rendering (layout switches, low bit first: indent-spaces, indent-tabs, blank lines, CRLF, trailing ;, // comments, # comments, trailing blanks, no final newline, compact spacing)",
							Input: map[string]any{"canonical": p, "layout": string(lay), "mask": fmt.Sprintf("%010b", mask)}, Expect: base.Obs.Class + " / same tree", Got: c.Obs.Class + " " + c.Obs.Err})
					}
				}
				// the same layout as a file: ParseFile gives the tree of the file's bytes
				if k == 8 || k == 3 || k%6 == 5 {
					if fo, ferr := parseFileObs(lay); ferr == nil {
						sum.Distribution["layouts parsed through ParseFile"]++
						if (fo.Class != "ok" || fo.Ser != base.Obs.Ser) && len(sum.OracleFails) < 5 {
							sum.OracleFails = append(sum.OracleFails, OracleFail{What: "a layout of the program, read through ParseFile, parses differently from the canonical rendering",
								Input: map[string]any{"canonical": p, "layout": string(lay), "mask": fmt.Sprintf("%010b", mask)}, Expect: base.Obs.Class + " / same tree", Got: fo.Class + " " + fo.Err})
						}
					}
				}
				if rng.chance(1, 5) {
					coq = append(coq, c)
				}
			}
		}
		if err := emitParseCases(cfg, sum, "C09", coq, 100); err != nil {
			return nil, err
		}
		return sum, nil
	}
}

var c09Fixed = []string{
	"obj.Name = jso.a == 1 ? jso.{b|c} : jso.d\nobj.Id = jso.{x|y} != 2 ? jso.e : jso.o.{k|l}\nts.S = isTrue(jso.t) ? jso.{b|c} : jso.d\n",
	"obj.Id = jso.{a|b}|default(\"z\")|upper()\nprobe(jso.{a|b}, \"x\", jso.o.{k|l})\nobj.Name = jso.s|ifThenElse(jso.{a|b}, \"n\")\nctx.v = jso.{a|b} as static\nctx.w = jso.o.(vector)\n",
	"for k, v := range jso.list {\nif v.{a|b} == 1 {\nobj.Id = v.{a|b}\n} else {\nprobe(k, v.{c|d})\n}\n}\nfor i := 0; i <= jso.lim; i++ {\nobj.Status = i\n}\nfor _, w := range st.Finance.History {\nprobe(w.DateUnix)\n}\n",
	"switch {\ncase 4 == jso.x:\nprobe(1)\ncase jso.y >= \"a b\":\nprobe(2)\ncase isTrue(jso.{p|q}):\nprobe(3)\ndefault:\nprobe(4)\n}\nswitch jso.k {\ncase 'q':\nprobe(5)\ncase jso.z:\nbreak\n}\n",
	"if v, ok := okh(jso.a, \"lit\"); ok {\nobj.Id = v\n} else {\nlazybreak 2\n}\nif x, y := nokh(); !y {\ncontinue\n}\nif 5 <= jso.n {\nbreak 3\n}\nobj.Finance.History[1].Comment = atoi(\"12\")\n",
}

// compactLine removes the optional blanks around =, ==, !=, >=, <=, >, <, :=, ','
// and inside loop headers (gofmt-style spacing -> compact spacing).
func compactLine(l string) string {
	if strings.HasPrefix(l, "//") || strings.HasPrefix(l, "#") {
		return l
	}
	// quoted literals are content, not layout: only the text outside of them is compacted
	var out strings.Builder
	rest := l
	for len(rest) > 0 {
		i := strings.IndexAny(rest, "\"'`")
		if i < 0 {
			out.WriteString(compactPlain(rest, strings.HasPrefix(l, "for ")))
			break
		}
		out.WriteString(compactPlain(rest[:i], strings.HasPrefix(l, "for ")))
		j := strings.IndexByte(rest[i+1:], rest[i])
		if j < 0 {
			out.WriteString(rest[i:])
			break
		}
		out.WriteString(rest[i : i+j+2])
		rest = rest[i+j+2:]
	}
	return out.String()
}

func compactPlain(l string, loop bool) string {
	for _, op := range []string{":=", "==", "!=", ">=", "<=", "=", ">", "<", "?"} {
		l = strings.ReplaceAll(l, " "+op+" ", op)
	}
	l = strings.ReplaceAll(l, ", ", ",")
	if loop {
		l = strings.ReplaceAll(l, "; ", ";")
	}
	return l
}

func r2len(r *prng) int {
	switch r.intn(4) {
	case 0:
		return r.intn(4)
	case 1:
		return r.intn(20)
	default:
		return r.intn(120)
	}
}

// applyLayout renders the canonical text (one statement per line, LF, no
// indentation) in another layout. Bits: 1 indent with spaces, 2 indent with
// tabs, 4 blank lines, 8 CRLF, 16 trailing ';' after simple statements, 32
// whole-line // comments, 64 whole-line # comments, 128 blanks at the end of
// lines, 256 no final newline.
// whole-line comments may say anything, including what looks like code
var commentTexts = []string{"a comment without braces or semicolons", "another comment", "if v.price > 100 {", "for i := 0", "was for k, v := range jso.a {",
	"default:", "case 5:", "switch x {", "} else {", "}", "x = 1", "probe(1)", "TODO: drop this if it is unused", "break", "obj.Id = jso.{a|b}"}

func applyLayout(r *prng, text string, mask int) []byte {
	lines := strings.Split(strings.TrimRight(text, "\n"), "\n")
	nl := "\n"
	if mask&8 != 0 {
		nl = "\r\n"
	}
	var sb strings.Builder
	depth := 0
	for _, l := range lines {
		if strings.HasPrefix(l, "}") {
			depth--
		}
		if mask&4 != 0 && r.chance(1, 3) {
			sb.WriteString(nl)
		}
		if mask&32 != 0 && r.chance(1, 4) {
			sb.WriteString("// " + pick(r, commentTexts) + nl)
		}
		if mask&64 != 0 && r.chance(1, 4) {
			sb.WriteString("# " + pick(r, commentTexts) + nl)
		}
		ind := ""
		if mask&1 != 0 {
			ind = strings.Repeat("  ", depth)
		}
		if mask&2 != 0 {
			ind = strings.Repeat("\t", depth) + ind
		}
		if mask&512 != 0 {
			l = compactLine(l)
		}
		sb.WriteString(ind + l)
		simple := !strings.HasSuffix(l, "{") && !strings.HasSuffix(l, "}") && !strings.HasSuffix(l, ":") && !strings.HasPrefix(l, "}")
		if mask&16 != 0 && simple {
			sb.WriteString(";")
		}
		if mask&128 != 0 && r.chance(1, 2) {
			sb.WriteString(pick(r, []string{" ", "  ", "\t", " \t"}))
		}
		sb.WriteString(nl)
		if strings.HasSuffix(l, "{") {
			depth++
		}
		if depth < 0 {
			depth = 0
		}
	}
	out := sb.String()
	if mask&256 != 0 {
		out = strings.TrimSuffix(out, nl)
	}
	return []byte(out)
}

var _ = reflect.DeepEqual
