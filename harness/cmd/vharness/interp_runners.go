package main

// Property-specific case streams and direct oracles for the interpreter
// properties. The Coq model is the common reference (K); the oracles below
// state the property itself on the implementation's observables (O).

import (
	"fmt"
	"github.com/koykov/decoder"
	"reflect"
	"regexp"
	"sort"
	"strconv"
	"strings"
)

func addFail(sum *Summary, what string, c *ICase, expect, got any) {
	if len(sum.OracleFails) < 5 {
		sum.OracleFails = append(sum.OracleFails, OracleFail{What: what, Input: c, Expect: expect, Got: got})
	} else {
		sum.Distribution["further oracle failures"]++
	}
}

func noPanic(c *ICase, sum *Summary) {
	for i, o := range c.Obs {
		if o.Res == "(Some EPanic)" || o.Res == "(Some EHang)" {
			addFail(sum, "Decode panicked or hung: "+o.ParseErr, c, "nil or an error", fmt.Sprintf("job %d: %s", i, o.Res))
		}
	}
}

var reIndex = regexp.MustCompile(`\[(\d+)\]`)

// indexSyntax: a[i][j] is another spelling of a.i.j; the same program written
// with dotted paths must end in the same state
func indexSyntax(c *ICase, sum *Summary) {
	noPanic(c, sum)
	any := false
	d := &ICase{Tag: c.Tag + " (dotted spelling)"}
	for _, j := range c.Jobs {
		j2 := j
		j2.Prog = reIndex.ReplaceAllString(j.Prog, ".$1")
		if j2.Prog != j.Prog {
			any = true
		}
		d.Jobs = append(d.Jobs, j2)
	}
	if !any {
		return
	}
	if err := d.exec(); err != nil {
		return
	}
	sum.Distribution["index-syntax twins compared"]++
	for i := range c.Obs {
		a, b := c.Obs[i], d.Obs[i]
		if a.Res != b.Res || !reflect.DeepEqual(a.Fields, b.Fields) || !reflect.DeepEqual(a.Trace, b.Trace) || !reflect.DeepEqual(a.Vars, b.Vars) {
			addFail(sum, "a program using index syntax a[i] / a[i][j] ends in a different state than the same program with dotted paths a.i.j (the source addressed by index was not the one assigned)", c, b, a)
			return
		}
	}
}

func sentinelFree(c *ICase, sum *Summary) {
	noPanic(c, sum)
}

// refOracle: the call trace must be the one the reference semantics computes
// from the program's structure, and the decode must succeed.
func refOracle(c *ICase, sum *Summary) {
	noPanic(c, sum)
	for i := range c.Expect {
		o := c.Obs[i]
		if o.Res != "None" {
			addFail(sum, "a core-grammar program whose reference run succeeds made Decode return "+o.Res+" "+o.ParseErr, c, "nil", o.Res)
			continue
		}
		if !reflect.DeepEqual(o.Trace, c.Expect[i]) {
			addFail(sum, "the calls made by the decode differ from what the program means (reference semantics written from the property: Go's loops and comparisons, first matching case, break/continue/lazybreak)", c, c.Expect[i], o.Trace)
		}
	}
}

func refCase(r *prng, o rgenOpts, st map[string]int, tag string) *ICase {
	j, exp := refJob(r, o, st, 2+r.intn(3), 3)
	return &ICase{Tag: tag, Jobs: []Job{j}, Expect: [][]string{exp}}
}

// ------------------------------------------------------------------ C01

func genAssignJob(r *prng, st map[string]int) Job {
	opts := genOpts{conds: true, loops: true, floats: true, userFns: true}
	d := genDoc(r)
	g := &pgen{r: r, d: d, opts: opts, maxDepth: 2, stats: st}
	g.statics = defaultStatics(r)
	n := 3 + r.intn(6)
	for i := 0; i < n; i++ {
		switch r.intn(10) {
		case 0:
			g.emit("if " + g.condition() + " {")
			g.assign()
			g.emit("}")
		case 1:
			v := g.id("i")
			g.emit(g.cloopHeader(v))
			g.loopInts = append(g.loopInts, v)
			g.assign()
			g.loopInts = g.loopInts[:len(g.loopInts)-1]
			g.emit("}")
		case 2:
			if r.bool() {
				// a context variable as a relay, rebound to a source of another kind
				a, b := g.source(), g.source()
				g.emit("ctx.relay = " + a.text)
				g.emit(g.dest().text + " = relay")
				g.emit("ctx.relay = " + b.text)
				g.emit(g.dest().text + " = relay")
				g.count("context variable relayed twice")
			} else {
				// an index directly under a variable that holds an array
				switch r.intn(3) {
				case 0:
					g.emit("ctx.arr = jso.a")
					g.emit(g.dest().text + " = " + pick(r, []string{"arr.0", "arr[0]"}))
				case 1:
					g.emit("ctx.rows = jso.grid")
					g.emit(g.dest().text + " = " + pick(r, []string{"rows.1.0", "rows[1][0]", "rows[0].0"}))
				default:
					g.emit("for _, row := range jso.grid {")
					g.emit(g.dest().text + " = " + pick(r, []string{"row.0", "row[0]"}))
					g.emit("probe(\"row\", row.0)")
					g.emit("}")
				}
				g.count("index directly under an array variable")
			}
		default:
			// typed cross product: every source kind to every destination kind
			d := g.dest()
			var s srcExpr
			switch r.intn(12) {
			case 0:
				s = srcExpr{g.intLit(), "int"}
			case 1:
				s = srcExpr{pick(r, []string{"127", "128", "255", "256", "32767", "32768", "65535", "65536", "2147483647", "2147483648", "4294967295", "4294967296", "9223372036854775807", "9223372036854775808", "18446744073709551615", "18446744073709551616", "0"}), "int"}
			case 2:
				s = srcExpr{pick(r, []string{"0.5", "3.25", "12.75", "100.5", "7.0", "0.0"}), "float"}
			case 3:
				s = srcExpr{g.strLit(), "str"}
			case 4:
				s = srcExpr{pick(r, []string{"true", "false"}), "bool"}
			default:
				s = g.source()
			}
			if strings.HasPrefix(d.kind, "f") {
				// floats: sources whose decimal text is short enough to be exact (DESIGN 3.1)
				s = pick(r, []srcExpr{{"jso.f", "float"}, {"0.5", "float"}, {"3.25", "float"}, {"12", "int"}, {"jso.m", "int"}, {"st.Cost", "float"},
					{"fvar", "float"}, {"jso.s", "str"}, {"st.Finance.Balance", "float"}, {"\"2.5\"", "str"}, {"jso.missing", "absent"}, {"jso.t", "bool"}, {"ivar", "int"}})
			}
			g.emit(d.text + " = " + s.text)
			g.count("assign " + s.kind + " -> " + d.kind)
		}
	}
	return Job{Prog: strings.Join(g.lines, "\n") + "\n", doc: d.doc, Statics: g.statics, Fail: -1}
}

// boundaryGrid: every boundary value, as a JSON number, as a literal and as a
// JSON string, into every integer / unsigned / bool / string destination
// (deterministic; part of every run).
func boundaryGrid() []Job {
	bounds := []string{"0", "1", "127", "128", "255", "256", "32767", "32768", "65535", "65536", "2147483647", "2147483648",
		"4294967295", "4294967296", "9223372036854775807", "9223372036854775808", "18446744073709551615", "18446744073709551616",
		"-1", "-128", "-129", "-32768", "-32769", "-2147483648", "-2147483649", "-9223372036854775808", "-9223372036854775809"}
	dsts := []string{"ts.I", "ts.I8", "ts.I16", "ts.I32", "ts.I64", "ts.U", "ts.U8", "ts.U16", "ts.U32", "ts.U64", "ts.A", "obj.Status", "obj.Ustate",
		"obj.Finance.History[1].DateUnix", "ts.S", "ts.B", "obj.Finance.AllowBuy"}
	doc := &JV{K: "obj"}
	doc.Keys = append(doc.Keys, "pre")
	doc.Xs = append(doc.Xs, jObj("x", jNum("1")))
	for i, b := range bounds {
		doc.Keys = append(doc.Keys, fmt.Sprintf("n%d", i), fmt.Sprintf("s%d", i))
		doc.Xs = append(doc.Xs, jNum(b), jStr(b))
	}
	var jobs []Job
	for i, b := range bounds {
		var lines []string
		for _, d := range dsts {
			lines = append(lines, fmt.Sprintf("%s = jso.n%d", d, i))
		}
		jobs = append(jobs, Job{Prog: strings.Join(lines, "\n") + "\n", doc: doc, Fail: -1})
		lines = nil
		for _, d := range dsts {
			lines = append(lines, fmt.Sprintf("%s = jso.s%d", d, i))
		}
		jobs = append(jobs, Job{Prog: strings.Join(lines, "\n") + "\n", doc: doc, Fail: -1})
		if !strings.HasPrefix(b, "-") {
			lines = nil
			for _, d := range dsts {
				lines = append(lines, fmt.Sprintf("%s = %s", d, b))
			}
			jobs = append(jobs, Job{Prog: strings.Join(lines, "\n") + "\n", doc: doc, Fail: -1})
		}
	}
	return jobs
}

// ------------------------------------------------------------------ C02

// independent rules with pairwise distinct destinations, every permutation as a
// job of its own (fresh objects per job: each job is its own case).
// one value-producing mechanism used by every rule of the block, with different
// values, into text destinations (which keep a pointer to what they were
// given): storage shared between two results of the same mechanism shows as a
// destination changed by a later rule
var aliasFamilies = [][]string{
	{"itoa(jso.n)", "itoa(jso.big)", "itoa(jso.m)", "itoa(jso.o.k)"},
	{"utoa(jso.big)", "utoa(jso.m)", "utoa(jso.o.k)", "utoa(jso.z)"},
	{"itoa(st.Status)", "intToStr(ivar)", "itoa(jso.big)", "utoa(st.Ustate)", "uintToStr(uvar)"},
	{"ivar", "uvar", "st.Status", "st.Ustate", "bvar", "st.Finance.AllowBuy"},
	{"jso.s|upper()", "jso.s2|upper()", "jso.o.name|upper()", "jso.bigs|upper()"},
	{"crc32(jso.s)", "crc32(jso.s2)", "crc32(jso.bigs)", "crc32(jso.o.name)"},
	{"ident(jso.s)", "ident(jso.s2)", "ident(jso.bigs)", "konst()"},
	{"jso.nul|default(\"dflt\")", "jso.missing|default(jso.s)", "jso.e|default(ivar)", "jso.z|default(uvar)"},
	{"jso.n", "jso.big", "jso.s", "jso.bigs", "jso.t"},
	{`"abcdef"`, `"xyz"`, `"0123456789abcdef0123456789abcdefX"`, `""`, `'q'`},
}
var textDsts = []string{"obj.Id", "obj.Name", "ts.S", "ts.B", "obj.Finance.History[0].Comment", "obj.Finance.History[1].Comment"}

func genIndependent(r *prng, st map[string]int, gi int) ([]string, *docInfo, []StaticVar) {
	d := genDoc(r)
	g := &pgen{r: r, d: d, opts: genOpts{floats: false, userFns: true}, stats: st}
	g.statics = defaultStatics(r)
	if gi%2 == 0 {
		fam := append([]string{}, aliasFamilies[(gi/4)%len(aliasFamilies)]...)
		ds := append([]string{}, textDsts...)
		for i := len(fam) - 1; i > 0; i-- {
			j := r.intn(i + 1)
			fam[i], fam[j] = fam[j], fam[i]
		}
		for i := len(ds) - 1; i > 0; i-- {
			j := r.intn(i + 1)
			ds[i], ds[j] = ds[j], ds[i]
		}
		n := 2 + r.intn(2)
		var rules []string
		for i := 0; i < n; i++ {
			rule := ds[i] + " = " + fam[i]
			if i == 0 {
				// the first rule inside a block now and then: what it wrote must
				// survive the end of the block (and of each iteration)
				switch (gi / 4) % 3 {
				case 1:
					rule = "for w0 := 5; w0 < 7; w0++ {\n" + rule + "\n}"
				case 2:
					rule = "if jso.t == true {\n" + rule + "\n}"
				}
			}
			rules = append(rules, rule)
		}
		st["one mechanism, several text destinations"]++
		return rules, d, g.statics
	}
	dsts := append([]dstExpr{}, dstPool...)
	// shuffle
	for i := len(dsts) - 1; i > 0; i-- {
		j := r.intn(i + 1)
		dsts[i], dsts[j] = dsts[j], dsts[i]
	}
	n := 2 + r.intn(3)
	var rules []string
	lits := []string{"", "a", "xyz", "12345678", "123456789", "abcdefghijklmnopq", "0123456789abcdef0123456789abcdefX"}
	cvars := []string{"cvx", "cvy"}
	for i := 0; i < n; i++ {
		var s string
		switch r.intn(8) {
		case 0, 1, 2:
			s = `"` + pick(r, lits) + `"`
		case 3:
			s = g.intLit()
		case 4:
			s = pick(r, []string{"crc32(jso.s)", "itoa(jso.n)", "atoi(jso.m)", "konst()", "ident(jso.s2)"})
		case 5:
			s = "jso.s|default(\"dflt\")|upper()"
		default:
			s = g.source().text
		}
		if len(cvars) > 0 && r.chance(1, 3) {
			// context variables hold a pointer to their value: the empty
			// literal and short literals are the interesting ones
			rules = append(rules, "ctx."+cvars[0]+" = "+pick(r, []string{`"ctxlit"`, "jso.s", "77", `""`, `''`, `"c"`}))
			cvars = cvars[1:]
			continue
		}
		rule := dsts[i].text + " = " + s
		switch r.intn(8) {
		case 0:
			// the same rule as the single iteration of a loop / inside a taken branch:
			// what it wrote must survive the end of the block
			rule = fmt.Sprintf("for w%d := 0; w%d < 1; w%d++ {\n%s\n}", i, i, i, rule)
		case 1:
			rule = "if jso.t == true {\n" + rule + "\n}"
		case 2:
			rule = fmt.Sprintf("for w%d := 5; w%d < 7; w%d++ {\n%s\n}", i, i, i, rule)
		}
		rules = append(rules, rule)
	}
	return rules, d, g.statics
}

func permutations(n int) [][]int {
	if n == 1 {
		return [][]int{{0}}
	}
	var out [][]int
	for _, p := range permutations(n - 1) {
		for i := 0; i <= len(p); i++ {
			q := append(append(append([]int{}, p[:i]...), n-1), p[i:]...)
			out = append(out, q)
		}
	}
	return out
}

// ------------------------------------------------------------------ C15

// faultSweep: the fault-free run, then one run per call index.
func faultSweep(base Job, maxK int) []*ICase {
	var out []*ICase
	free := &ICase{Tag: "fault-free", Jobs: []Job{base}}
	if err := free.exec(); err != nil {
		return nil
	}
	out = append(out, free)
	n := len(free.Obs[0].Trace)
	if n > maxK {
		n = maxK
	}
	for k := 0; k < n; k++ {
		j := base
		j.Fail = k
		out = append(out, &ICase{Tag: fmt.Sprintf("fail at call %d", k), Jobs: []Job{j}})
	}
	return out
}

func canFail(ev string) bool {
	return strings.HasPrefix(ev, "cb:") || strings.HasPrefix(ev, "get:") || strings.HasPrefix(ev, "mod:") || strings.HasPrefix(ev, "cond:")
}

// errorStops: with call k failing, the error is the injected one and the trace
// is exactly the fault-free trace up to and including call k.
func errorStops(free, c *ICase, sum *Summary) {
	k := c.Jobs[0].Fail
	ft := free.Obs[0].Trace
	o := c.Obs[0]
	if k < 0 || k >= len(ft) {
		return
	}
	if !canFail(ft[k]) {
		// cond-OK helpers have no way to fail: the run must equal the fault-free one
		if !reflect.DeepEqual(o, free.Obs[0]) {
			addFail(sum, "failure index names a cond-OK helper (cannot fail) but the run differs from the fault-free run", c, free.Obs[0], o)
		}
		return
	}
	want := fmt.Sprintf("(Some (EUser %d))", k)
	if o.Res != want {
		addFail(sum, "a failing user function did not fail the decode with its own error", c, want, o.Res)
		return
	}
	// the failing call's entry is marked with `!` after its kind; apart from that
	// the trace is the fault-free prefix
	want2 := append([]string{}, ft[:k+1]...)
	if i := strings.Index(want2[k], ":"); i > 0 {
		want2[k] = want2[k][:i] + "!" + want2[k][i:]
	}
	if len(o.Trace) != k+1 || !reflect.DeepEqual(o.Trace, want2) {
		addFail(sum, "rules kept executing after the failing call (trace is not the fault-free prefix)", c, want2, o.Trace)
	}
}

// ------------------------------------------------------------------ C14

// reuse: jobs run on one context with Reset in between must show what each
// shows on a fresh context.
func freshEqualsReused(c *ICase, sum *Summary) {
	for i := range c.Jobs {
		if i == 0 {
			continue
		}
		e := newEnv()
		j := c.Jobs[i]
		o, _, err := e.runJob(&j)
		dropUState(e.ctx)
		if err != nil {
			continue
		}
		if !reflect.DeepEqual(o, c.Obs[i]) {
			addFail(sum, fmt.Sprintf("job %d on the reset context differs from the same job on a new context", i), c, o, c.Obs[i])
		}
	}
}

// ------------------------------------------------------------------ registration

func init() {
	runners["C01"] = func(cfg *runCfg) (*Summary, error) {
		grid := boundaryGrid()
		return runInterp(cfg, "C01", 220+len(grid), 2500+len(grid),
			"programs of 3-9 assignment rules (every source kind: vector node at depth 1-4 by key/index, literal number / fraction / bool / quoted string, struct field, static and context variable, loop variable, getter, coalesce; absent and null sources) x every destination kind (string, []byte, bool, int8..int64, uint8..uint64, float32/64, nested struct fields, slice elements) with boundary values of each width, at top level and inside if / loop bodies; all fields of all objects compared. distinct_nontrivial = distinct programs",
			func(r *prng, i int, st map[string]int) *ICase {
				if i < len(grid) {
					return singleJob("boundary grid", grid[i])
				}
				return singleJob("assign", genAssignJob(r, st))
			}, nil, indexSyntax)
	}
	runners["C02"] = func(cfg *runCfg) (*Summary, error) {
		var pending []*ICase
		var group []*ICase
		ngroups := 0
		return runInterp(cfg, "C02", 260, 2600,
			"sequences of 2-4 rules with pairwise distinct destinations and no data dependencies (literals of lengths 1,3,8,9,17,33; getters; modifiers; nodes; struct fields; a context variable), every permutation executed as its own case on fresh objects; oracle: all permutations end in the same fields and context variables",
			func(r *prng, i int, st map[string]int) *ICase {
				if len(pending) == 0 {
					rules, d, statics := genIndependent(r, st, ngroups)
					group = nil
					if ngroups%8 == 7 {
						// a destination written twice from sources of different kinds, after its
						// first value was handed on: what was handed on stays as written
						ds := append([]string{}, textDsts...)
						for i := len(ds) - 1; i > 0; i-- {
							j := r.intn(i + 1)
							ds[i], ds[j] = ds[j], ds[i]
						}
						lit := `"` + pick(r, []string{"abcdef", "0123456789", "xy", "some longer literal value"}) + `"`
						conv := pick(r, []string{"ivar", "uvar", "bvar", "jso.n", "jso.big", "st.Status", "jso.t", "itoa(jso.big)", "crc32(jso.s)"})
						var ls []string
						if r.bool() {
							ls = []string{"ctx.cva = " + lit, ds[0] + " = cva", ds[0] + " = " + conv, "probe(\"handed-on\", cva)", ds[1] + " = cva"}
						} else {
							ls = []string{ds[0] + " = " + lit, ds[1] + " = " + ds[0], ds[0] + " = " + conv, ds[2] + " = " + ds[1], ds[0] + " = " + pick(r, []string{"jso.s", lit, "ivar"})}
						}
						st["destination re-assigned after its value was handed on"]++
						ngroups++
						return singleJob("chain", Job{Prog: strings.Join(ls, "\n") + "\n", doc: d.doc, Statics: statics, Fail: -1, GetVars: []string{"cva"}})
					}
					recycled := ngroups%4 == 2
					if recycled {
						// context variables on a context that an earlier decode has used
						// and Reset has emptied: the earlier decode declares the same
						// names in one fixed order, the permutations follow
						srcs := []string{`"ctxlit"`, "jso.s", "77", "jso.n", `"c"`, "ivar", "jso.s2"}
						rules = nil
						names := []string{"cva", "cvb", "cvc"}
						if (ngroups/4)%2 == 1 {
							// a dotted name is a name of its own, not a path into another variable
							names = []string{"cva", "cva.sub", "cvc"}
						}
						for k, nm := range names {
							rules = append(rules, []string{"ctx.", "context."}[(ngroups/4+k)%2]+nm+" = "+srcs[(ngroups/4+2*k)%len(srcs)])
						}
						st["context variables on a recycled context"]++
					}
					getv := []string{"cvx", "cvy", "cva", "cvb", "cvc"}
					first := Job{Prog: strings.Join(rules, "\n") + "\n", doc: d.doc, Statics: statics, Fail: -1, GetVars: getv}
					for _, p := range permutations(len(rules)) {
						var ls []string
						for _, k := range p {
							ls = append(ls, rules[k])
						}
						j := Job{Prog: strings.Join(ls, "\n") + "\n", doc: d.doc, Statics: statics, Fail: -1, GetVars: getv}
						if recycled {
							pending = append(pending, &ICase{Tag: fmt.Sprint("perm (recycled context) ", p), Jobs: []Job{first, j}})
						} else {
							pending = append(pending, singleJob(fmt.Sprint("perm ", p), j))
						}
					}
					ngroups++
				}
				c := pending[0]
				pending = pending[1:]
				return c
			}, nil,
			func(c *ICase, sum *Summary) {
				noPanic(c, sum)
				if !strings.HasPrefix(c.Tag, "perm") {
					return
				}
				key := func(x *ICase) string {
					ls := strings.Split(strings.TrimSpace(x.Jobs[len(x.Jobs)-1].Prog), "\n")
					sort.Strings(ls)
					return fmt.Sprint(len(x.Jobs)) + x.Jobs[0].Doc + "\x00" + strings.Join(ls, "\n")
				}
				if len(group) > 0 && key(group[0]) == key(c) {
					a, b := group[0].Obs[len(group[0].Obs)-1], c.Obs[len(c.Obs)-1]
					if a.Res == "None" && (b.Res != a.Res || !reflect.DeepEqual(a.Fields, b.Fields) || !reflect.DeepEqual(a.Vars, b.Vars)) {
						addFail(sum, "two orderings of independent rules end in different states", c, group[0], b)
					}
					group = append(group, c)
				} else {
					group = []*ICase{c}
				}
			})
	}
	runners["C03"] = func(cfg *runCfg) (*Summary, error) {
		return runInterp(cfg, "C03", 220, 2500,
			"programs dominated by conditionals: six operators x literal right / left / both dynamic x int, string, bool, float operands from vector nodes, struct fields, static, context and loop variables x with/without else x nesting <= 3, ternaries, condition helpers, cond-OK helpers (plain and negated), preceded by rules that leave foreign values in the scratch cells; branch taken observed through probe calls and assignments",
			func(r *prng, i int, st map[string]int) *ICase {
				if i%2 == 1 {
					return refCase(r, rgenOpts{conds: true, cloops: true}, st, "reference")
				}
				o := genOpts{conds: true, userFns: true, ctxvars: true, floats: true, loops: i%3 == 0}
				return singleJob("cond", genJob(r, o, 4+r.intn(4), 3, st))
			}, hasTrace, refOracle)
	}
	runners["C04"] = func(cfg *runCfg) (*Summary, error) {
		return runInterp(cfg, "C04", 220, 2500,
			"counter loops: five comparison operators x ++/-- x initial values and limits in a small window (literals, JSON numbers, static variables), Go-finite headers only, nested in counter and range loops, same loop executed repeatedly, loop variable probed in every iteration and used as a source; half of the reference programs end some iterations early with continue / break",
			func(r *prng, i int, st map[string]int) *ICase {
				if i%2 == 1 {
					// every other reference program also uses continue / break inside
					// the body: the counter sequence must not be disturbed by an
					// iteration that ends early
					return refCase(r, rgenOpts{cloops: true, rloops: true, conds: true, signals: i%4 == 3}, st, "reference")
				}
				o := genOpts{loops: true, conds: i%2 == 0, userFns: true}
				return singleJob("cloop", genJob(r, o, 3+r.intn(3), 3, st))
			}, hasTrace, refOracle)
	}
	runners["C05"] = func(cfg *runCfg) (*Summary, error) {
		return runInterp(cfg, "C05", 220, 2500,
			"range loops over JSON arrays (ints, strings, objects; length 1-4), absent sources, and struct slices; forms k,v / _,v / k; nested to depth 3 with distinct names; consecutive loops; keys and values probed and used as sources and path roots; two decodes on one context",
			func(r *prng, i int, st map[string]int) *ICase {
				if i%2 == 1 {
					return refCase(r, rgenOpts{rloops: true, cloops: true, conds: true, signals: i%4 == 3}, st, "reference")
				}
				o := genOpts{loops: true, conds: i%2 == 0, userFns: true, signals: i%8 == 2}
				j1 := genJob(r, o, 3+r.intn(3), 3, st)
				if i%4 == 0 {
					j2 := genJob(r, o, 2+r.intn(3), 3, st)
					return &ICase{Tag: "rloop x2", Jobs: []Job{j1, j2}}
				}
				return singleJob("rloop", j1)
			}, hasTrace, refOracle)
	}
	runners["C06"] = func(cfg *runCfg) (*Summary, error) {
		return runInterp(cfg, "C06", 260, 3000,
			"break / continue / lazybreak (plain and with depth 1..3) guarded by conditions on loop variables that fire at the first, a middle, the last or no iteration, in nests up to depth 3 mixing counter and range loops over vector arrays and struct slices, inside if/switch blocks, followed by further loops and sibling loops inside the enclosing body; every iteration probed",
			func(r *prng, i int, st map[string]int) *ICase {
				if i%2 == 1 {
					return refCase(r, rgenOpts{cloops: true, rloops: true, conds: true, switches: true, signals: true}, st, "reference")
				}
				o := genOpts{loops: true, conds: true, switches: i%3 == 0, signals: true, userFns: i%2 == 0}
				return singleJob("signals", genJob(r, o, 3+r.intn(3), 3, st))
			}, hasTrace, refOracle)
	}
	runners["C07"] = func(cfg *runCfg) (*Summary, error) {
		return runInterp(cfg, "C07", 220, 2500,
			"switch statements in both forms: matching case first / middle / last / none / several, int / string (both quote styles) / bool subjects, literal and variable case values, default absent or at any position, six operators and helpers in the condition-less form, nested in loops and conditionals; executed body observed through probes and assignments",
			func(r *prng, i int, st map[string]int) *ICase {
				if i%2 == 1 {
					return refCase(r, rgenOpts{switches: true, conds: true, cloops: true}, st, "reference")
				}
				o := genOpts{switches: true, conds: i%2 == 0, loops: i%3 == 0, userFns: true}
				return singleJob("switch", genJob(r, o, 4+r.intn(3), 3, st))
			}, hasTrace, refOracle)
	}
	runners["C17"] = func(cfg *runCfg) (*Summary, error) {
		sum, err := runC17(cfg)
		if err == nil {
			aliasOracle(sum)
			goldenCalls(sum)
		}
		return sum, err
	}
	runners["C19"] = func(cfg *runCfg) (*Summary, error) {
		return runInterp(cfg, "C19", 220, 2500,
			"programs that define context variables from literals, vector nodes, struct fields (with and without `as` / `.(T)`), rebind them and read them back in later rules and through Ctx.Get; static variables set before the decode; sequences of 1-3 decodes on one context with Reset in between",
			func(r *prng, i int, st map[string]int) *ICase {
				o := genOpts{ctxvars: true, conds: true, userFns: true, loops: i%3 == 0}
				n := 1 + r.intn(3)
				c := &ICase{Tag: "ctxvars"}
				for k := 0; k < n; k++ {
					j := genCtxVarJob(r, o, st)
					c.Jobs = append(c.Jobs, j)
				}
				return c
			}, nil, noPanic)
	}
	runners["C14"] = func(cfg *runCfg) (*Summary, error) {
		sum, err := runC14Interp(cfg)
		if err != nil {
			return nil, err
		}
		n := 300
		if cfg.tier == "thorough" {
			n = 5000
		}
		if err := genPoolCases(cfg, sum, newPRNG(cfg.seed+77), n); err != nil {
			return nil, err
		}
		sum.Rule += "; plus histories of AcquireFrom / Reset / release-and-acquire through the context pool over 1-3 contexts and two counting pools (and an unregistered pool name), log of Get / Reset / Put events compared with the pool model, oracle: each borrowed object reset and put back exactly once, never handed out twice"
		return sum, nil
	}
}

func runC14Interp(cfg *runCfg) (*Summary, error) {
	{
		return runInterp(cfg, "C14", 160, 1800,
			"sequences of 2-4 jobs (random core-grammar programs and documents, some failing midway through injected errors, some breaking out of nested loops, cond-OK helpers, getters, context variables; a third of the jobs repeat an earlier decoder of the sequence through the same parsed tree) on one context with Reset between jobs; oracle: each job shows exactly what it shows on a newly created context",
			func(r *prng, i int, st map[string]int) *ICase {
				n := 2 + r.intn(3)
				c := &ICase{Tag: "reuse"}
				for k := 0; k < n; k++ {
					j := genJob(r, allOpts, 2+r.intn(4), 3, st)
					if r.chance(1, 3) {
						j.Fail = r.intn(4)
					}
					if k > 0 && r.chance(1, 3) {
						// the same decoder again (its tree is parsed once and reused) on the
						// document it was generated for (its paths are valid there: an index
						// past the end of an array is known finding D25)
						prev := c.Jobs[r.intn(len(c.Jobs))]
						j.Prog, j.Statics, j.GetVars = prev.Prog, prev.Statics, prev.GetVars
						j.doc, j.Doc = prev.doc, prev.Doc
						st["job repeating an earlier decoder of the sequence"]++
					}
					c.Jobs = append(c.Jobs, j)
				}
				return c
			}, nil,
			func(c *ICase, sum *Summary) {
				noPanic(c, sum)
				freshEqualsReused(c, sum)
			})
	}
}

func init() {
	runners["C15"] = func(cfg *runCfg) (*Summary, error) {
		var pending []*ICase
		var free *ICase
		return runInterp(cfg, "C15", 320, 4000,
			"for generated programs (all constructs) every run in which the k-th invocation of a user function (callback, getter, modifier; condition helpers cannot return errors) fails, for every k up to the number of calls of the fault-free run (capped at 12); oracle: Decode returns that function's error and the call trace is exactly the fault-free prefix",
			func(r *prng, i int, st map[string]int) *ICase {
				for len(pending) == 0 {
					base := genJob(r, allOpts, 3+r.intn(4), 3, st)
					pending = faultSweep(base, 12)
				}
				c := pending[0]
				pending = pending[1:]
				return c
			}, nil,
			func(c *ICase, sum *Summary) {
				noPanic(c, sum)
				if c.Tag == "fault-free" {
					free = c
					return
				}
				if free != nil && strings.HasPrefix(c.Tag, "fail at") && free.Jobs[0].Prog == c.Jobs[0].Prog {
					errorStops(free, c, sum)
				}
			})
	}
	runners["C16"] = func(cfg *runCfg) (*Summary, error) {
		return runInterp(cfg, "C16", 300, 4000,
			"parser-accepted programs including ones outside the core grammar (wrong arities of builtin modifiers and getters, paths into missing variables, type-mismatched operands, signals outside loops, unbound destination) x documents with wrong types, nulls, missing keys x contexts with the destination variable missing; oracle: Decode returns (no panic, no hang)",
			func(r *prng, i int, st map[string]int) *ICase {
				j := genMalformedJob(r, st)
				return singleJob("malformed", j)
			}, nil, noPanic)
	}
	runners["C18"] = func(cfg *runCfg) (*Summary, error) {
		sum, err := runC18(cfg)
		if err == nil {
			strconvOracle(cfg, sum)
		}
		return sum, err
	}
}

func runC18(cfg *runCfg) (*Summary, error) {
	{
		return runInterp(cfg, "C18", 260, 3000,
			"builtin modifiers default / ifThen / ifThenElse over every incoming-value type and emptiness class (absent, null, empty / non-empty string, 0 / non-zero number, false / true; vector nodes, struct fields, static variables) with 0-2 arguments; getters atoi / atou / atob / itoa / utoa / crc32 over digit, sign, blank and letter strings, int64/uint64 boundaries, byte strings and argument splits; arities 0-3; direct oracle: atoi / atou / atof / atob (and their long names) against strconv.ParseInt / ParseUint / ParseFloat / ParseBool on curated boundary texts and random texts over digits, signs, dots, exponents, blanks and letters (length 0-8), the argument given as a vector node, a static string variable and a literal: same value, and an error of the same kind exactly when strconv fails",
			func(r *prng, i int, st map[string]int) *ICase {
				return singleJob("builtins", genBuiltinJob(r, st))
			}, nil, noPanic)
	}
}

func init() { _ = runC18 }

// ------------------------------------------------------------------ C17 generator

func genCallsJob(r *prng, st map[string]int) Job {
	d := genDoc(r)
	g := &pgen{r: r, d: d, opts: genOpts{userFns: true, loops: true, ctxvars: true}, maxDepth: 2, stats: st}
	g.statics = defaultStatics(r)
	n := 3 + r.intn(4)
	coal := func() string {
		keys := []string{}
		for i, k := 0, 1+r.intn(4); i < k; i++ {
			keys = append(keys, pick(r, []string{"nokey", "nul", "s", "n", "e", "nope2", "t", "s2"}))
		}
		return "jso.{" + strings.Join(keys, "|") + "}"
	}
	arg := func() string {
		switch r.intn(8) {
		case 0:
			return coal()
		case 1:
			return "jso.o.{zz|k|name}"
		default:
			return g.source().text
		}
	}
	args := func(n int) string {
		xs := make([]string, n)
		for i := range xs {
			xs[i] = arg()
		}
		return strings.Join(xs, ", ")
	}
	for i := 0; i < n; i++ {
		switch r.intn(9) {
		case 0, 1:
			g.emit(pick(r, []string{"probe", "ns::probe"}) + "(" + args(r.intn(6)) + ")")
		case 2:
			g.emit(g.dest().text + " = ident(" + args(1+r.intn(3)) + ")")
		case 3, 4:
			src := g.source()
			for isDigits(src.text) || strings.HasPrefix(src.text, `"`) || strings.HasPrefix(src.text, "'") || src.text == "true" || src.text == "false" {
				src = g.source()
			}
			chain := ""
			for k, m := 0, r.intn(5); k < m; k++ {
				chain += "|" + pick(r, []string{"upper()", "ns::suffix(" + args(1+r.intn(2)) + ")", "suffix(" + args(1) + ")", "default(" + arg() + ")", "ifThen(" + arg() + ")", "bar::baz()", "ifThenElse(" + args(2) + ")"})
			}
			g.emit(g.dest().text + " = " + src.text + chain)
		case 5:
			chain := ""
			for k, m := 0, r.intn(3); k < m; k++ {
				chain += "|" + pick(r, []string{"upper()", "suffix(" + args(1) + ")", "default(" + arg() + ")", "ifThen(" + arg() + ")"})
			}
			g.emit(g.dest().text + " = " + coal() + chain)
		case 6:
			// a condition helper gets its arguments like any other call
			// (coalesce groups included; they are not part of the comparison syntax)
			g.emit("if " + pick(r, []string{"ns::eq", "eq"}) + "(" + args(2) + ") {")
			g.emit("probe(" + args(2) + ")")
			g.emit("}")
		case 7:
			x, ok := g.id("x"), g.id("ok")
			g.emit("if " + x + ", " + ok + " := okh(" + g.argListPlain(r.intn(3)) + "); " + ok + " {")
			g.emit("probe(" + x + ", " + ok + ")")
			g.emit("}")
		default:
			v := g.id("i")
			g.emit(g.cloopHeader(v))
			g.emit("probe(" + v + ", " + args(2) + ")")
			g.emit("}")
		}
	}
	return Job{Prog: strings.Join(g.lines, "\n") + "\n", doc: d.doc, Statics: g.statics, Fail: -1}
}

// ------------------------------------------------------------------ C19 generator

func genCtxVarJob(r *prng, o genOpts, st map[string]int) Job {
	d := genDoc(r)
	g := &pgen{r: r, d: d, opts: o, maxDepth: 2, stats: st}
	g.statics = defaultStatics(r)
	names := []string{"va", "vb", "vc"}
	n := 4 + r.intn(5)
	for i := 0; i < n; i++ {
		nm := pick(r, names)
		switch r.intn(11) {
		case 10:
			// rebinding to an empty container: it is a value like any other
			g.emit(g.ctxDot() + nm + " = " + pick(r, []string{"jso.ea", "jso.eo"}))
			g.emit("probe(\"after-empty\", " + nm + ", " + nm + ".k)")
		case 8, 9:
			// rebinding from a source that resolves to nothing: the latest
			// binding wins all the same (the name now reads nil)
			g.emit(g.ctxDot() + nm + " = " + pick(r, []string{"nosuchvar", "st.Nope", "st.Finance.Nope", "ivar.x", "nosuch.path"}))
			g.emit("probe(\"after-nil\", " + nm + ")")
		case 0:
			g.emit(g.ctxDot() + nm + " = " + g.strLit())
		case 1:
			g.emit(g.ctxDot() + nm + " = " + g.intLit())
		case 2:
			p, _ := g.docPath(pick(r, []string{"str", "int", "bool"}))
			if p != "" {
				g.emit(g.ctxDot() + nm + " = " + p + pick(r, []string{"", "", " as vector", ".(static)"}))
			}
		case 3:
			g.emit(g.ctxDot() + nm + " = jso.o")
			g.emit("probe(" + nm + ".k, " + nm + ".deep.x, " + nm + ".nokey)")
		case 4:
			g.emit(g.ctxDot() + nm + " = " + pick(r, []string{"st.Name", "st.Id", "st.Status", "st.Finance.AllowBuy"}))
		case 5:
			g.emit(g.dest().text + " = " + nm)
		case 6:
			g.emit("probe(" + nm + ", " + pick(r, names) + ")")
		default:
			g.emit("if " + nm + " == " + pick(r, []string{`"lit"`, "17", `"alpha"`}) + " {")
			g.emit("probe(\"eq\", " + nm + ")")
			g.emit("}")
		}
	}
	return Job{Prog: strings.Join(g.lines, "\n") + "\n", doc: d.doc, Statics: g.statics, Fail: -1,
		GetVars: []string{"va", "vb", "vc", "va.k", "va.deep.x", "nosuch", "ivar", "svar", "bvar", "jso.s", "st.Id", "obj.Nope"}}
}

// ------------------------------------------------------------------ C16 generator

func genMalformedJob(r *prng, st map[string]int) Job {
	d := genDoc(r)
	g := &pgen{r: r, d: d, opts: allOpts, maxDepth: 2, stats: st}
	g.statics = defaultStatics(r)
	n := 3 + r.intn(5)
	bad := []string{
		"obj.Id = jso.s|default()", "obj.Id = jso.missing|default()", "obj.Id = jso.s|ifThen()", "obj.Id = jso.t|ifThenElse(1)",
		"obj.Status = crc32()", "obj.Status = atoi()", "obj.Id = itoa()", "obj.Id = itoa(\"12\")", "obj.Id = utoa(jso.s)",
		"obj.Status = atoi(jso.o)", "obj.Status = atoi(jso.a)", "obj.Ustate = atou(jso.neg)", "obj.Ustate = atou(st.Status)",
		"nosuch.Field = jso.s", "obj.Nope = jso.s", "obj.Finance.Nope = 5", "obj.Finance.History[9].Comment = jso.s", "obj.Status = nosuch.path.deep",
		"obj.Status = jso.s", "obj.Finance.AllowBuy = jso.a", "obj.Id = jso.o", "obj.Name = jso.a", "ts.U8 = jso.o.deep",
		"break", "continue", "lazybreak 2", "break 3",
		"if jso.s > 5 {\nprobe(1)\n}", "if jso.o == 3 {\nprobe(2)\n}", "if 3 == 5 {\nprobe(3)\n}", "if nosuch == 5 {\nprobe(4)\n}", "if obj.Status == \"x\" {\nprobe(5)\n}",
		"if st.Finance.AllowBuy > \"maybe\" {\nprobe(6)\n}", "if jso.s == nosuch.b {\nprobe(7)\n}", "if st == 1 {\nprobe(8)\n}",
		"for i := 0; i < jso.s; i++ {\nprobe(i)\n}", "for i := 0; i < jso.o; i++ {\nprobe(i)\n}", "for i := x; i < 3; i++ {\nprobe(i)\n}", "for i := 0; i < nosuch; i++ {\nprobe(i)\n}",
		"for k, v := range nosuch.list {\nprobe(k)\n}", "for k, v := range st.Id {\nprobe(k)\n}", "for k, v := range st.Finance {\nprobe(k)\n}", "for k, v := range ivar {\nprobe(k)\n}",
		"switch jso.o {\ncase 1:\nprobe(9)\n}", "switch nosuch {\ncase \"a\":\nprobe(10)\ndefault:\nprobe(11)\n}", "switch {\ncase 1 == 2:\nprobe(12)\n}",
		"ctx.x = jso.s as nosuchins", "ctx.y = jso.s.(nosuchins)", "ctx = jso.s", "ctx.z = jso.missing", "obj.Id = z", "ctx.w = st.Finance.History",
		"if x, ok := okh(nosuch); ok {\nprobe(x)\n}", "obj.Id = ident()", "probe(nosuch, obj.Nope, jso.s.x.y, st.Finance.History.7.Comment)",
		"obj.Finance.History[x].Comment = jso.s", "obj.Status = st.Finance.History.zz.DateUnix", "obj.Id = jso.a.1x", "obj.Id = jso.s|upper()|default()",
		// len() / cap() conditions: no argument, brackets in odd places
		"obj.Name = len() ? jso.s : jso.s2", "obj.Name = cap() ? jso.s : jso.s2", "for i := 0; i < 2; i++ {\nobj.Name = len() ? jso.s : jso.s2\n}",
		"for i := 0; i < 2; i++ {\nif len(\"jso.a]i[\") {\nprobe(i)\n}\n}", "for i := 0; i < 2; i++ {\nif cap(\"jso.a]i[\") {\nprobe(i)\n} else {\nprobe(0)\n}\n}",
		"for i := 0; i < 2; i++ {\nobj.Id = len(\"]i[\") ? jso.s : jso.s2\n}", "for i := 0; i < 2; i++ {\nif len(\"jso.a[i]\") {\nprobe(i)\n}\n}", "if len(\"jso.a[0\") {\nprobe(1)\n}",
		// condition helpers that are not registered
		"if nosuchcond(jso.s) {\nprobe(20)\n}", "if nosuchcond(jso.s) {\nprobe(21)\n} else {\nprobe(22)\n}", "obj.Id = nosuchcond(jso.n) ? jso.s : jso.s2",
		"switch {\ncase nosuchcond(jso.s):\nprobe(23)\ndefault:\nprobe(24)\n}",
	}
	for i := 0; i < n; i++ {
		if r.chance(2, 3) {
			g.emit(pick(r, bad))
		} else {
			g.stmt()
		}
	}
	j := Job{Prog: strings.Join(g.lines, "\n") + "\n", doc: d.doc, Statics: g.statics, Fail: -1}
	if r.chance(1, 5) {
		j.NoObj = true
	}
	if r.chance(1, 8) {
		// nothing bound at all: what a program meets on a new or just reset context
		j.NoVars = true
	}
	// documents with wrong types now and then
	if r.chance(1, 4) {
		j.doc = jObj("s", jNum("5"), "n", jStr("str"), "o", jArr(jNum("1")), "a", jObj("k", jNull()), "t", jNull(), "m", jStr("x"),
			"b", jArr(jArr(jNum("1")), jNull(), jObj("q", jNum("1")), jBool(true)), "objs", jArr(jNum("1"), jNum("2"), jStr("three"), jNull()))
	}
	return j
}

// ------------------------------------------------------------------ C18 generator

func genBuiltinJob(r *prng, st map[string]int) Job {
	strs := []string{"", "0", "1", "-1", "+5", "12", "007", " 5", "5 ", "1e3", "1.5", "abc", "true", "false", "T", "t", "TRUE", "FALSE", "0x1F", "1_000",
		"9223372036854775807", "9223372036854775808", "-9223372036854775808", "-9223372036854775809", "18446744073709551615", "18446744073709551616", "99999999999999999999", "--1", "+-1", "1-", "٣"}
	doc := &JV{K: "obj"}
	addk := func(k string, v *JV) { doc.Keys = append(doc.Keys, k); doc.Xs = append(doc.Xs, v) }
	addk("pre", jObj("x", jNum("1"))) // something before, so that scalar nodes are not first at their depth
	s1, s2 := pick(r, strs), pick(r, strs)
	addk("s1", jStr(s1))
	addk("s2", jStr(s2))
	addk("e", jStr(""))
	addk("z", jNum("0"))
	addk("n", jNum(genInt(r)))
	addk("one", jNum("1"))
	addk("t", jBool(true))
	addk("fl", jBool(false))
	addk("nul", jNull())
	addk("w", jStr(pick(r, words)))
	// escaped in the document's text, read for the first time by the builtin
	addk("esc", jStr("Joe \"Q\" Public\tjr"))
	addk("esc2", jStr("a\\b\"c"))
	var lines []string
	dsts := []string{"obj.Id", "obj.Name", "ts.S", "ts.B", "ts.I64", "ts.U64", "ts.I32", "obj.Finance.AllowBuy", "obj.Status"}
	incoming := []string{"jso.s1", "jso.e", "jso.z", "jso.n", "jso.one", "jso.t", "jso.fl", "jso.nul", "jso.missing", "jso.w",
		"st.Id", "st.Name", "st.Status", "st.Finance.AllowBuy", "st.Nope", "zi", "oi", "es", "ns", "bt", "bf", "zu"}
	argv := []string{`"d"`, "5", "jso.w", "jso.nul", "st.Id", "true", "oi", `"true"`, "jso.missing", "jso.esc", "jso.esc2", "jso.esc"}
	n := 3 + r.intn(5)
	for i := 0; i < n; i++ {
		d := pick(r, dsts)
		switch r.intn(12) {
		case 0, 1, 2:
			a := ""
			if r.chance(5, 6) {
				a = pick(r, argv)
			}
			lines = append(lines, d+" = "+pick(r, incoming)+"|"+pick(r, []string{"default", "def"})+"("+a+")")
		case 3:
			a := ""
			if r.chance(5, 6) {
				a = pick(r, argv)
			}
			lines = append(lines, d+" = "+pick(r, incoming)+"|"+pick(r, []string{"ifThen", "if"})+"("+a+")")
		case 4:
			as := []string{}
			for k, m := 0, r.intn(4); k < m; k++ {
				as = append(as, pick(r, argv))
			}
			lines = append(lines, d+" = "+pick(r, incoming)+"|"+pick(r, []string{"ifThenElse", "ifel"})+"("+strings.Join(as, ", ")+")")
		case 5:
			lines = append(lines, pick(r, []string{"ts.I64", "ts.I8", "obj.Status", "ts.S"})+" = "+pick(r, []string{"atoi", "strToInt"})+"("+pick(r, []string{"jso.s1", "jso.s2", "jso.n", `"` + strings.ReplaceAll(pick(r, strs[:20]), `"`, "") + `"`, ""})+")")
		case 6:
			lines = append(lines, pick(r, []string{"ts.U64", "ts.U8", "obj.Ustate", "ts.S"})+" = "+pick(r, []string{"atou", "strToUint"})+"("+pick(r, []string{"jso.s1", "jso.s2", "jso.n", "jso.one"})+")")
		case 7:
			lines = append(lines, pick(r, []string{"obj.Finance.AllowBuy", "ts.S"})+" = "+pick(r, []string{"atob", "strToBool"})+"("+pick(r, []string{"jso.s1", "jso.s2", "jso.t", "jso.one", `"T"`, `"maybe"`})+")")
		case 8:
			lines = append(lines, pick(r, []string{"obj.Id", "ts.B"})+" = "+pick(r, []string{"itoa", "intToStr"})+"("+pick(r, []string{"jso.n", "st.Status", "zi", "oi", "st.Finance.History.0.DateUnix", "jso.s1", "st.Ustate", ""})+")")
		case 9:
			lines = append(lines, pick(r, []string{"obj.Id", "ts.B"})+" = "+pick(r, []string{"utoa", "uintToStr"})+"("+pick(r, []string{"jso.n", "st.Ustate", "zu", "st.Status", ""})+")")
		default:
			as := []string{}
			for k, m := 0, r.intn(4); k < m; k++ {
				as = append(as, pick(r, []string{"jso.s1", "jso.s2", "jso.e", `"abc"`, "jso.w", "jso.esc", "jso.esc2", "st.Name", "st.Id", "jso.nul", "jso.n", `""`[0:0] + `"x y"`}))
			}
			lines = append(lines, pick(r, []string{"ts.I64", "obj.Status", "ts.S", "ts.U32"})+" = crc32("+strings.Join(as, ", ")+")")
		}
	}
	statics := []StaticVar{{Name: "zi", Kind: "i", I: 0}, {Name: "oi", Kind: "i", I: 1}, {Name: "es", Kind: "S", S: ""}, {Name: "ns", Kind: "S", S: "true"},
		{Name: "bt", Kind: "b", Bo: true}, {Name: "bf", Kind: "b", Bo: false}, {Name: "zu", Kind: "u", U: 0}}
	for _, l := range lines {
		st["builtin "+strings.SplitN(strings.SplitN(l, "|", 2)[len(strings.SplitN(l, "|", 2))-1], "(", 2)[0]]++
	}
	return Job{Prog: strings.Join(lines, "\n") + "\n", doc: doc, Statics: statics, Fail: -1}
}

var _ = strconv.Itoa

// aliasOracle: a function registered with a namespace and an alias is reachable
// under ns::name and ns::alias (and under nothing else), and a rule written
// with either spelling calls it with the written arguments.
func aliasOracle(sum *Summary) {
	registerUserFuncs()
	getters, mods, cbs := decoder.VerifRegisteredNames()
	has := func(l []string, n string) bool {
		for _, x := range l {
			if x == n {
				return true
			}
		}
		return false
	}
	for _, w := range []struct {
		l    []string
		kind string
		yes  []string
		no   []string
	}{{mods, "modifier", []string{"vns::tail", "vns::tl", "plaintail", "ptl", "ns::suffix"}, []string{"tl", "tail"}},
		{cbs, "callback", []string{"vns::note", "vns::nt", "ns::probe"}, []string{"nt", "note"}},
		{getters, "getter", []string{"vns::konst", "vns::kn"}, []string{"kn"}}} {
		for _, n := range w.yes {
			if !has(w.l, n) {
				addFail(sum, "a "+w.kind+" registered with a namespace and an alias is not reachable under "+n, nil, n+" registered", "missing")
			}
		}
		for _, n := range w.no {
			if has(w.l, n) {
				addFail(sum, "a "+w.kind+" registered in a namespace is reachable under the bare name "+n, nil, n+" not registered", "registered")
			}
		}
	}
	doc, _ := parseJV(`{"s":"bob"}`)
	for _, sp := range []string{"vns::tail", "vns::tl", "plaintail", "ptl"} {
		c := singleJob("alias "+sp, Job{Prog: "obj.Name = jso.s|" + sp + "(\"!\", \"?\")|" + sp + "(\".\")\nobj.Id = vns::kn()\nvns::nt(jso.s, 1)\n", doc: doc, Fail: -1})
		if err := c.exec(); err != nil {
			addFail(sum, "a rule using the registered spelling "+sp+" is rejected: "+err.Error(), c, "accepted", "rejected")
			continue
		}
		sum.Evaluations++
		o := c.Obs[0]
		if o.Res != "None" || o.Fields[0][1] != "B:bob!?." || o.Fields[0][0] != "S:VK" {
			addFail(sum, "a modifier / getter written with a registered namespace::alias spelling did not run with its written arguments", c, "Name = bob!?. , Id = VK", fmt.Sprint(o.Res, " ", o.Fields[0][:2], " ", o.Trace))
		}
	}
}

func runC17(cfg *runCfg) (*Summary, error) {
	return runInterp(cfg, "C17", 220, 2500,
		"calls with 0-5 arguments mixing literals, paths, loop / static / context variables and coalesce groups; chains of 0-4 modifiers (builtin, user, namespaced); coalesce sources with 1-3 keys in all missing / null / present patterns; every user function records the arguments it receives",
		func(r *prng, i int, st map[string]int) *ICase {
			return singleJob("calls", genCallsJob(r, st))
		}, hasTrace, noPanic)
}

// goldenCalls: programs whose outcome is written down from the property's text
// (arguments in order, modifiers left to right, coalesce = first present key),
// independently of the parsed tree: the correspondence hands the real parser's
// tree to the model, so a parser that misreads a call is only seen here (and by
// the parser model in C09).
func goldenCalls(sum *Summary) {
	doc, _ := parseJV(`{"s":"abc","s2":"xyz","n":7,"nul":null,"t":true,"fl":false,"o":{"k":5,"name":"nm"}}`)
	type gold struct {
		prog   string
		id     string // expected obj.Id
		name   string // expected obj.Name
		traces []string
	}
	for _, g := range []gold{
		{"obj.Id = jso.{nokey|s}|upper()\nobj.Name = jso.{nul|s2|s}|suffix(\"!\")|upper()\n", "S:ABC", "B:XYZ!", []string{"mod:upper(str:abc)", "mod:suffix(str:xyz,B:!)", "mod:upper(B:xyz!)"}},
		{"obj.Id = jso.s|suffix(jso.{nokey|s2}, \"-\", jso.o.{zz|k})\nobj.Name = jso.nul|default(jso.{nul|s})\n", "S:abcxyz-5", "B:abc", []string{"mod:suffix(str:abc,str:xyz,B:-,num:5)"}},
		{"obj.Id = jso.t|ifThen(jso.{nokey|s})|upper()\nobj.Name = jso.fl|ifThenElse(\"y\", jso.o.{name|k})|suffix(\"?\")\n", "S:ABC", "B:nm?", []string{"mod:upper(str:abc)", "mod:suffix(str:nm,B:?)"}},
		{"probe(jso.{nokey|s}, \"lit\", 5, jso.o.k, jso.{nul|n})\nobj.Id = ident(jso.{nokey|s2}, jso.s)\nif eq(jso.{nokey|s}, \"abc\") {\nobj.Name = \"yes\"\n}\n", "S:xyz", "B:yes", []string{"cb:probe(str:abc,B:lit,B:5,num:5,num:7)", "get:ident(str:xyz,str:abc)", "cond:eq(str:abc,B:abc)"}},
		{"probe(\"a,b\", 'c, d', jso.s, \"for x\")\nobj.Id = ident(\"wait for it, please\")\nobj.Name = jso.s|suffix(\", if \", \"z\")\n", "S:wait for it, please", "B:abc, if z", []string{"cb:probe(B:a,b,B:c, d,str:abc,B:for x)", "get:ident(B:wait for it, please)", "mod:suffix(str:abc,B:, if ,B:z)"}},
		{"probe(\"it's, fine\", 'say \"a, b\" twice', jso.s)\nobj.Id = ident(\"rock'n, roll\", jso.s2)\nobj.Name = jso.s|suffix(\"'\", \",\", 'x\"y, z')\n", "S:rock'n, roll", "B:abc',x\"y, z", []string{"cb:probe(B:it's, fine,B:say \"a, b\" twice,str:abc)", "get:ident(B:rock'n, roll,str:xyz)", "mod:suffix(str:abc,B:',B:,,B:x\"y, z)"}},
		{"obj.Name = jso.s|upper()|suffix(\"1\")|ns::suffix(\"2\", \"3\")|bar::baz()\nobj.Id = jso.{nokey}|default(\"d\")|suffix(jso.{s2})\n", "S:dxyz", "B:ABC123", []string{"mod:upper(str:abc)", "mod:suffix(B:ABC,B:1)", "mod:ns::suffix(B:ABC1,B:2,B:3)", "mod:suffix(B:d,str:xyz)"}},
	} {
		c := singleJob("golden calls", Job{Prog: g.prog, doc: doc, Fail: -1})
		if err := c.exec(); err != nil {
			addFail(sum, "a golden program is rejected: "+err.Error(), c, "accepted", "rejected")
			continue
		}
		sum.Evaluations++
		o := c.Obs[0]
		if o.Res != "None" || o.Fields[0][0] != g.id || o.Fields[0][1] != g.name || !reflect.DeepEqual(o.Trace, g.traces) {
			addFail(sum, "a call did not receive the written arguments in order / a modifier chain did not run left to right / a coalesce group did not select the first present key", c,
				fmt.Sprint("Id=", g.id, " Name=", g.name, " calls=", g.traces), fmt.Sprint(o.Res, " Id=", o.Fields[0][0], " Name=", o.Fields[0][1], " calls=", o.Trace))
		}
	}
}
