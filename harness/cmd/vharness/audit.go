package main

// Static audits emitted as Coq data (generated/Audit.v):
//   (i)  lock structure of every method of `db` (db.go): lock / unlock events,
//        reads and writes of the shared fields, calls of other db methods,
//        branches and returns -- checked by Coq's [lock_discipline];
//   (ii) statements on the decode path that store through a node / Tree / arg /
//        mod (decoder.go, ctx.go, cloop.go, rloop.go, builtins) -- must be [];
//   (iii) statements in parser.go that store into the source bytes -- must be [].
// The audits are syntactic (go/ast); they do not see through unsafe or user
// callbacks. They are part of the trusted base and are backed at run time by
// the race detector and by fingerprints of the shared tree.

import (
	"fmt"
	"go/ast"
	"go/token"
	"sort"
	"strings"
)

var dbFields = map[string]bool{"idxID": true, "idxKey": true, "idxHash": true, "buf": true}

type auditor struct {
	recv string
	sb   *strings.Builder
}

// fieldOf returns the tracked db field an expression is rooted in, if any
func (a *auditor) fieldOf(e ast.Expr) string {
	for {
		switch x := e.(type) {
		case *ast.IndexExpr:
			e = x.X
		case *ast.SliceExpr:
			e = x.X
		case *ast.ParenExpr:
			e = x.X
		case *ast.StarExpr:
			e = x.X
		case *ast.SelectorExpr:
			if id, ok := x.X.(*ast.Ident); ok && id.Name == a.recv && dbFields[x.Sel.Name] {
				return x.Sel.Name
			}
			e = x.X
		default:
			return ""
		}
	}
}

// reads collects the events of evaluating an expression
func (a *auditor) reads(e ast.Expr, out *[]string) {
	ast.Inspect(e, func(n ast.Node) bool {
		switch x := n.(type) {
		case *ast.CallExpr:
			// builtins that change their first argument in place: delete(db.f, k), clear(db.f), copy(db.f, ..)
			if id, ok := x.Fun.(*ast.Ident); ok && (id.Name == "delete" || id.Name == "clear" || id.Name == "copy") && len(x.Args) > 0 {
				if f := a.fieldOf(x.Args[0]); f != "" {
					for _, arg := range x.Args[1:] {
						a.reads(arg, out)
					}
					*out = append(*out, fmt.Sprintf("SEv (AWrite %q)", f))
					return false
				}
			}
			if s, ok := x.Fun.(*ast.SelectorExpr); ok {
				// db.mux.X()
				if s2, ok := s.X.(*ast.SelectorExpr); ok {
					if id, ok := s2.X.(*ast.Ident); ok && id.Name == a.recv && s2.Sel.Name == "mux" {
						ev := map[string]string{"Lock": "ALock", "Unlock": "AUnlock", "RLock": "ARLock", "RUnlock": "ARUnlock"}[s.Sel.Name]
						if ev == "" {
							ev = "AOther"
						}
						*out = append(*out, "SEv "+ev)
						return false
					}
				}
				// db.method(...)
				if id, ok := s.X.(*ast.Ident); ok && id.Name == a.recv {
					for _, arg := range x.Args {
						a.reads(arg, out)
					}
					*out = append(*out, fmt.Sprintf("SEv (ACall %q)", s.Sel.Name))
					return false
				}
			}
		case *ast.SelectorExpr:
			if id, ok := x.X.(*ast.Ident); ok && id.Name == a.recv && dbFields[x.Sel.Name] {
				*out = append(*out, fmt.Sprintf("SEv (ARead %q)", x.Sel.Name))
				return false
			}
		}
		return true
	})
}

func (a *auditor) stmts(l []ast.Stmt) []string {
	var out []string
	for _, s := range l {
		a.stmt(s, &out)
	}
	return out
}

func coqList(xs []string) string { return "[" + strings.Join(xs, "; ") + "]" }

func (a *auditor) stmt(s ast.Stmt, out *[]string) {
	switch x := s.(type) {
	case *ast.ExprStmt:
		a.reads(x.X, out)
	case *ast.AssignStmt:
		for _, r := range x.Rhs {
			a.reads(r, out)
		}
		for _, l := range x.Lhs {
			if f := a.fieldOf(l); f != "" {
				// index expressions on the left are evaluated too
				if ie, ok := l.(*ast.IndexExpr); ok {
					a.reads(ie.Index, out)
				}
				*out = append(*out, fmt.Sprintf("SEv (AWrite %q)", f))
			} else {
				a.reads(l, out)
			}
		}
	case *ast.IncDecStmt:
		if f := a.fieldOf(x.X); f != "" {
			*out = append(*out, fmt.Sprintf("SEv (AWrite %q)", f))
		}
	case *ast.DeclStmt:
		ast.Inspect(x, func(n ast.Node) bool {
			if e, ok := n.(ast.Expr); ok {
				a.reads(e, out)
				return false
			}
			return true
		})
	case *ast.DeferStmt:
		var evs []string
		a.reads(x.Call, &evs)
		for _, e := range evs {
			switch e {
			case "SEv AUnlock":
				*out = append(*out, "SEv ADeferUnlock")
			case "SEv ARUnlock":
				*out = append(*out, "SEv ADeferRUnlock")
			default:
				*out = append(*out, "SEv AOther")
			}
		}
	case *ast.ReturnStmt:
		for _, r := range x.Results {
			a.reads(r, out)
		}
		*out = append(*out, "SRet")
	case *ast.BlockStmt:
		*out = append(*out, a.stmts(x.List)...)
	case *ast.IfStmt:
		if x.Init != nil {
			a.stmt(x.Init, out)
		}
		a.reads(x.Cond, out)
		th := a.stmts(x.Body.List)
		var el []string
		if x.Else != nil {
			a.stmt(x.Else, &el)
		}
		*out = append(*out, "SIf "+coqList(th)+" "+coqList(el))
	case *ast.ForStmt:
		if x.Init != nil {
			a.stmt(x.Init, out)
		}
		var body []string
		if x.Cond != nil {
			a.reads(x.Cond, &body)
		}
		body = append(body, a.stmts(x.Body.List)...)
		if x.Post != nil {
			a.stmt(x.Post, &body)
		}
		*out = append(*out, "SLoop "+coqList(body))
	case *ast.RangeStmt:
		a.reads(x.X, out)
		*out = append(*out, "SLoop "+coqList(a.stmts(x.Body.List)))
	case *ast.SwitchStmt, *ast.TypeSwitchStmt, *ast.SelectStmt, *ast.GoStmt, *ast.LabeledStmt, *ast.BranchStmt:
		*out = append(*out, "SEv AOther")
	}
}

// nodeTyped: parameter / receiver types whose targets are shared between goroutines
func sharedType(e ast.Expr) bool {
	s := exprString(e)
	switch s {
	case "*node", "[]node", "node", "Ruleset", "*Tree", "Tree", "*arg", "[]*arg", "*mod", "[]mod":
		return true
	}
	return false
}

func exprString(e ast.Expr) string {
	switch x := e.(type) {
	case *ast.Ident:
		return x.Name
	case *ast.StarExpr:
		return "*" + exprString(x.X)
	case *ast.ArrayType:
		return "[]" + exprString(x.Elt)
	case *ast.SelectorExpr:
		return exprString(x.X) + "." + x.Sel.Name
	}
	return "?"
}

func rootIdent(e ast.Expr) (string, bool) {
	deref := false
	for {
		switch x := e.(type) {
		case *ast.Ident:
			return x.Name, deref
		case *ast.SelectorExpr:
			e, deref = x.X, true
		case *ast.IndexExpr:
			e, deref = x.X, true
		case *ast.SliceExpr:
			e, deref = x.X, true
		case *ast.StarExpr:
			e, deref = x.X, true
		case *ast.ParenExpr:
			e = x.X
		case *ast.UnaryExpr:
			e = x.X
		default:
			return "", false
		}
	}
}

// treeWrites lists statements of a function that store through a value reached
// from a shared-typed parameter (aliases made by := from such values included).
func treeWrites(fset *token.FileSet, fd *ast.FuncDecl, srcParam string) []string {
	shared := map[string]bool{}
	add := func(fl *ast.FieldList) {
		if fl == nil {
			return
		}
		for _, f := range fl.List {
			if sharedType(f.Type) || (srcParam != "" && exprString(f.Type) == "[]byte") {
				for _, n := range f.Names {
					if srcParam == "" || n.Name == srcParam {
						shared[n.Name] = true
					}
				}
			}
		}
	}
	if srcParam == "" {
		add(fd.Recv)
		add(fd.Type.Params)
	} else {
		add(fd.Type.Params)
	}
	var out []string
	if fd.Body == nil {
		return nil
	}
	ast.Inspect(fd.Body, func(n ast.Node) bool {
		switch x := n.(type) {
		case *ast.AssignStmt:
			// aliases first
			if x.Tok == token.DEFINE || x.Tok == token.ASSIGN {
				for i, l := range x.Lhs {
					if id, ok := l.(*ast.Ident); ok && i < len(x.Rhs) {
						if r, _ := rootIdent(x.Rhs[i]); r != "" && shared[r] {
							// copying a struct value (a := r.arg[i] copies a pointer *arg; arg_ := *x copies) -- stay conservative
							if x.Tok == token.DEFINE {
								shared[id.Name] = true
							}
						}
					}
				}
			}
			for _, l := range x.Lhs {
				if _, isIdent := l.(*ast.Ident); isIdent {
					continue // rebinding a local name is not a store through it
				}
				if r, deref := rootIdent(l); r != "" && shared[r] && deref {
					pos := fset.Position(x.Pos())
					out = append(out, fmt.Sprintf("%s:%d %s", shortFile(pos.Filename), pos.Line, fd.Name.Name))
				}
			}
		case *ast.IncDecStmt:
			if r, deref := rootIdent(x.X); r != "" && shared[r] && deref {
				pos := fset.Position(x.Pos())
				out = append(out, fmt.Sprintf("%s:%d %s", shortFile(pos.Filename), pos.Line, fd.Name.Name))
			}
		case *ast.RangeStmt:
			if r, _ := rootIdent(x.X); r != "" && shared[r] {
				if id, ok := x.Value.(*ast.Ident); ok {
					// the range value is a copy; stores through it do not reach the tree, unless it is a pointer element
					_ = id
				}
			}
		}
		return true
	})
	return out
}

func shortFile(p string) string {
	if i := strings.LastIndex(p, "/"); i >= 0 {
		return p[i+1:]
	}
	return p
}

var decodePathFiles = []string{"decoder.go", "ctx.go", "cloop.go", "rloop.go", "mod_builtin.go", "getter_builtin.go", "conv.go", "assign.go", "callback_builtin.go"}

func emitAudit(fset *token.FileSet, files map[string]*ast.File) (string, error) {
	var sb strings.Builder
	sb.WriteString("(* GENERATED by `vharness translate` from the working tree of the repository. Do not edit. *)\n")
	sb.WriteString("From Coq Require Import List String.\nFrom Dec Require Import AuditDefs.\nImport ListNotations.\nLocal Open Scope string_scope.\n\n")
	dbf, ok := files["db.go"]
	if !ok {
		return "", fmt.Errorf("db.go not found")
	}
	type m struct {
		name string
		body string
	}
	var ms []m
	for _, d := range dbf.Decls {
		fd, ok := d.(*ast.FuncDecl)
		if !ok || fd.Recv == nil || len(fd.Recv.List) != 1 || fd.Body == nil {
			continue
		}
		if exprString(fd.Recv.List[0].Type) != "*db" || len(fd.Recv.List[0].Names) != 1 {
			continue
		}
		a := &auditor{recv: fd.Recv.List[0].Names[0].Name}
		ms = append(ms, m{fd.Name.Name, coqList(a.stmts(fd.Body.List))})
	}
	sort.Slice(ms, func(i, j int) bool { return ms[i].name < ms[j].name })
	sb.WriteString("Definition db_audit : list (string * list astmt) := [\n")
	for i, x := range ms {
		if i > 0 {
			sb.WriteString(";\n")
		}
		fmt.Fprintf(&sb, "  (%q, %s)", x.name, x.body)
	}
	sb.WriteString("\n].\n\n")
	// every other use of the registry fields outside db.go would escape the audit
	var outside []string
	names := make([]string, 0, len(files))
	for n := range files {
		names = append(names, n)
	}
	sort.Strings(names)
	for _, fn := range names {
		if fn == "db.go" {
			continue
		}
		ast.Inspect(files[fn], func(n ast.Node) bool {
			if s, ok := n.(*ast.SelectorExpr); ok && dbFields[s.Sel.Name] {
				if inner, ok := s.X.(*ast.Ident); ok && (inner.Name == "decDB" || inner.Name == "db") {
					pos := fset.Position(s.Pos())
					outside = append(outside, fmt.Sprintf("%s:%d", fn, pos.Line))
				}
			}
			return true
		})
	}
	q := func(xs []string) string {
		r := make([]string, len(xs))
		for i, x := range xs {
			r[i] = fmt.Sprintf("%q", x)
		}
		return coqList(r)
	}
	sb.WriteString("Definition registry_fields_used_outside_db_go : list string := " + q(outside) + ".\n\n")
	// (ii) decode path
	var tw []string
	for _, fn := range decodePathFiles {
		f, ok := files[fn]
		if !ok {
			continue
		}
		for _, d := range f.Decls {
			if fd, ok := d.(*ast.FuncDecl); ok {
				tw = append(tw, treeWrites(fset, fd, "")...)
			}
		}
	}
	sb.WriteString("Definition decode_path_tree_writes : list string := " + q(tw) + ".\n\n")
	// (iii) Parse and its helpers: stores into the source bytes
	var sw []string
	if pf, ok := files["parser.go"]; ok {
		for _, d := range pf.Decls {
			fd, ok := d.(*ast.FuncDecl)
			if !ok || fd.Body == nil {
				continue
			}
			// p.body[...] = ...
			ast.Inspect(fd.Body, func(n ast.Node) bool {
				chk := func(l ast.Expr, pos token.Pos) {
					if _, isIdent := l.(*ast.Ident); isIdent {
						return
					}
					t := l
					for {
						switch x := t.(type) {
						case *ast.IndexExpr:
							t = x.X
							continue
						case *ast.SliceExpr:
							t = x.X
							continue
						}
						break
					}
					s := exprString(t)
					if s == "p.body" || s == "src" || s == "ctl" || s == "expr" {
						ps := fset.Position(pos)
						sw = append(sw, fmt.Sprintf("parser.go:%d %s", ps.Line, fd.Name.Name))
					}
				}
				switch x := n.(type) {
				case *ast.AssignStmt:
					for _, l := range x.Lhs {
						chk(l, x.Pos())
					}
				case *ast.IncDecStmt:
					chk(x.X, x.Pos())
				}
				return true
			})
		}
	}
	sb.WriteString("Definition parse_src_writes : list string := " + q(sw) + ".\n\n")
	// (iv) the context pool: what CtxPool.Put does with the context, in order
	var putCalls []string
	if cf, ok := files["ctx_pool.go"]; ok {
		for _, d := range cf.Decls {
			fd, ok := d.(*ast.FuncDecl)
			if !ok || fd.Recv == nil || fd.Name.Name != "Put" || fd.Body == nil {
				continue
			}
			ast.Inspect(fd.Body, func(n ast.Node) bool {
				if c, ok := n.(*ast.CallExpr); ok {
					putCalls = append(putCalls, exprString(c.Fun))
				}
				return true
			})
		}
	}
	sb.WriteString("Definition ctxpool_put_calls : list string := " + q(putCalls) + ".\n\n")
	// (v) package-level variables stored to from function bodies (anything but
	// init and the Register* functions): shared mutable state outside the
	// registry's locks
	pkgVars := map[string]bool{}
	for _, f := range files {
		for _, d := range f.Decls {
			gd, ok := d.(*ast.GenDecl)
			if !ok || gd.Tok != token.VAR {
				continue
			}
			for _, sp := range gd.Specs {
				if vs, ok := sp.(*ast.ValueSpec); ok {
					for _, n := range vs.Names {
						if n.Name != "_" {
							pkgVars[n.Name] = true
						}
					}
				}
			}
		}
	}
	var gw []string
	var fnames []string
	for fn := range files {
		fnames = append(fnames, fn)
	}
	sort.Strings(fnames)
	for _, fn := range fnames {
		if strings.HasSuffix(fn, "_test.go") || fn == "verif_hooks.go" {
			continue
		}
		for _, d := range files[fn].Decls {
			fd, ok := d.(*ast.FuncDecl)
			if !ok || fd.Body == nil || fd.Name.Name == "init" || strings.HasPrefix(fd.Name.Name, "Register") {
				continue
			}
			// names declared locally (parameters, :=, var) shadow package variables
			local := map[string]bool{}
			if fd.Recv != nil {
				for _, f := range fd.Recv.List {
					for _, n := range f.Names {
						local[n.Name] = true
					}
				}
			}
			if fd.Type.Params != nil {
				for _, f := range fd.Type.Params.List {
					for _, n := range f.Names {
						local[n.Name] = true
					}
				}
			}
			if fd.Type.Results != nil {
				for _, f := range fd.Type.Results.List {
					for _, n := range f.Names {
						local[n.Name] = true
					}
				}
			}
			ast.Inspect(fd.Body, func(n ast.Node) bool {
				switch x := n.(type) {
				case *ast.AssignStmt:
					if x.Tok == token.DEFINE {
						for _, l := range x.Lhs {
							if id, ok := l.(*ast.Ident); ok {
								local[id.Name] = true
							}
						}
					}
				case *ast.ValueSpec:
					for _, id := range x.Names {
						local[id.Name] = true
					}
				case *ast.RangeStmt:
					if x.Tok == token.DEFINE {
						if id, ok := x.Key.(*ast.Ident); ok {
							local[id.Name] = true
						}
						if id, ok := x.Value.(*ast.Ident); ok {
							local[id.Name] = true
						}
					}
				}
				return true
			})
			note := func(l ast.Expr, pos token.Pos) {
				if root, _ := rootIdent(l); root != "" && pkgVars[root] && !local[root] {
					ps := fset.Position(pos)
					gw = append(gw, fmt.Sprintf("%s:%s %s", fn, fd.Name.Name, root))
					_ = ps
				}
			}
			ast.Inspect(fd.Body, func(n ast.Node) bool {
				switch x := n.(type) {
				case *ast.AssignStmt:
					if x.Tok != token.DEFINE {
						for _, l := range x.Lhs {
							note(l, x.Pos())
						}
					}
				case *ast.IncDecStmt:
					note(x.X, x.Pos())
				}
				return true
			})
		}
	}
	sb.WriteString("Definition package_level_stores : list string := " + q(gw) + ".\n")
	return sb.String(), nil
}
