package main

// Structured programs with a reference semantics written directly from the
// properties' texts (Go's own loops and comparisons): the direct oracle (O) for
// C03-C07. The reference never looks at the parsed tree, so it also notices a
// parser that turns a correct text into a different program.

import (
	"fmt"
	"strconv"
	"strings"
)

type rval struct {
	kind string // int str bool
	i    int64
	s    string
	b    bool
}

func (v rval) lit() string {
	switch v.kind {
	case "int":
		return strconv.FormatInt(v.i, 10)
	case "bool":
		return strconv.FormatBool(v.b)
	default:
		return `"` + v.s + `"`
	}
}

// how a value of this kind, held by a JSON node, is rendered when passed to probe
func (v rval) nodeRender() string {
	switch v.kind {
	case "int":
		return "num:" + strconv.FormatInt(v.i, 10)
	case "bool":
		return "b:" + strconv.FormatBool(v.b)
	default:
		return "str:" + v.s
	}
}

type rexpr struct {
	path string // source path ("jso.x", loop variable name) or "" for a literal
	v    rval
	loop string // name of a counter-loop variable / range key / range value it reads
}

type rstmt struct {
	kind string // probe cloop rloop if switch swnc break lazybreak continue
	tag  string
	args []rexpr
	// cloop
	v         string
	init, lim int64
	op        string
	inc       bool
	limPath   string // "" or a jso path holding lim
	octal     bool   // literal bounds are rendered as Go octal literals
	// rloop
	k, val string
	arr    string
	elems  []int64
	// if
	l, r      rexpr
	litLeft   bool
	then, els []rstmt
	hasElse   bool
	// switch
	subj  rexpr
	cases []rcase
	defAt int // -1: none
	def   []rstmt
	// signals
	n    int
	body []rstmt
}

type rcase struct {
	val   rval   // classic
	vpath string // classic: the case value is this variable (holding val), not a literal
	l, r  rexpr  // condition-less
	op    string
	body  []rstmt
	quote string
}

// ---------------------------------------------------------------- rendering

func (e rexpr) text() string {
	if e.path != "" {
		return e.path
	}
	return e.v.lit()
}

func renderStmts(ss []rstmt, sb *strings.Builder) {
	for _, s := range ss {
		switch s.kind {
		case "probe":
			xs := []string{strconv.Quote(s.tag)}
			for _, a := range s.args {
				xs = append(xs, a.text())
			}
			sb.WriteString("probe(" + strings.Join(xs, ", ") + ")\n")
		case "setvar":
			fmt.Fprintf(sb, "ctx.%s = %d\n", s.v, s.lim)
		case "cloop":
			lim := strconv.FormatInt(s.lim, 10)
			if s.limPath != "" {
				lim = s.limPath
			}
			step := "++"
			if !s.inc {
				step = "--"
			}
			// a literal bound is a Go integer literal: a leading zero makes it octal
			init := strconv.FormatInt(s.init, 10)
			if s.octal && s.init > 0 {
				init = "0" + strconv.FormatInt(s.init, 8)
			}
			if s.octal && s.limPath == "" && s.lim > 0 {
				lim = "0" + strconv.FormatInt(s.lim, 8)
			}
			fmt.Fprintf(sb, "for %s := %s; %s %s %s; %s%s {\n", s.v, init, s.v, s.op, lim, s.v, step)
			renderStmts(s.body, sb)
			sb.WriteString("}\n")
		case "rloop":
			switch {
			case s.k != "" && s.val != "":
				fmt.Fprintf(sb, "for %s, %s := range %s {\n", s.k, s.val, s.arr)
			case s.k != "":
				fmt.Fprintf(sb, "for %s := range %s {\n", s.k, s.arr)
			default:
				fmt.Fprintf(sb, "for _, %s := range %s {\n", s.val, s.arr)
			}
			renderStmts(s.body, sb)
			sb.WriteString("}\n")
		case "if":
			if s.litLeft {
				fmt.Fprintf(sb, "if %s %s %s {\n", s.r.text(), mirrorOp(s.op), s.l.text())
			} else {
				fmt.Fprintf(sb, "if %s %s %s {\n", s.l.text(), s.op, s.r.text())
			}
			renderStmts(s.then, sb)
			if s.hasElse {
				sb.WriteString("} else {\n")
				renderStmts(s.els, sb)
			}
			sb.WriteString("}\n")
		case "switch":
			fmt.Fprintf(sb, "switch %s {\n", s.subj.text())
			for i := 0; i <= len(s.cases); i++ {
				if i == s.defAt {
					sb.WriteString("default:\n")
					renderStmts(s.def, sb)
				}
				if i < len(s.cases) {
					c := s.cases[i]
					t := c.val.lit()
					if c.val.kind == "str" && c.quote == "'" {
						t = "'" + c.val.s + "'"
					}
					if c.vpath != "" {
						t = c.vpath
					}
					sb.WriteString("case " + t + ":\n")
					renderStmts(c.body, sb)
				}
			}
			sb.WriteString("}\n")
		case "swnc":
			sb.WriteString("switch {\n")
			for i := 0; i <= len(s.cases); i++ {
				if i == s.defAt {
					sb.WriteString("default:\n")
					renderStmts(s.def, sb)
				}
				if i < len(s.cases) {
					c := s.cases[i]
					fmt.Fprintf(sb, "case %s %s %s:\n", c.l.text(), c.op, c.r.text())
					renderStmts(c.body, sb)
				}
			}
			sb.WriteString("}\n")
		case "break", "lazybreak":
			if s.n > 0 {
				fmt.Fprintf(sb, "%s %d\n", s.kind, s.n)
			} else {
				sb.WriteString(s.kind + "\n")
			}
		case "continue":
			sb.WriteString("continue\n")
		case "comment":
			sb.WriteString("// " + s.tag + "\n")
		}
	}
}

// `lit OP v` written for the comparison `v op lit`
func mirrorOp(op string) string {
	switch op {
	case ">":
		return "<"
	case ">=":
		return "<="
	case "<":
		return ">"
	case "<=":
		return ">="
	}
	return op
}

// ---------------------------------------------------------------- reference semantics

type renv struct {
	ints  map[string]int64 // counter variables
	keys  map[string]int   // range keys
	vals  map[string]int64 // range values (int elements)
	trace []string
}

type rsignal struct {
	kind  string // "" break lazybreak continue
	depth int    // loops still to end after the innermost one
}

func cmpInts(a, b int64, op string) bool {
	switch op {
	case "==":
		return a == b
	case "!=":
		return a != b
	case ">":
		return a > b
	case ">=":
		return a >= b
	case "<":
		return a < b
	default:
		return a <= b
	}
}

func cmpStrs(a, b, op string) bool {
	switch op {
	case "==":
		return a == b
	case "!=":
		return a != b
	case ">":
		return a > b
	case ">=":
		return a >= b
	case "<":
		return a < b
	default:
		return a <= b
	}
}

func (e *renv) value(x rexpr) rval {
	if x.loop != "" {
		if v, ok := e.ints[x.loop]; ok {
			return rval{kind: "int", i: v}
		}
		if v, ok := e.keys[x.loop]; ok {
			return rval{kind: "int", i: int64(v)}
		}
		if v, ok := e.vals[x.loop]; ok {
			return rval{kind: "int", i: v}
		}
	}
	return x.v
}

func (e *renv) renderArg(x rexpr) string {
	if x.loop != "" {
		if v, ok := e.ints[x.loop]; ok {
			return "i:" + strconv.FormatInt(v, 10)
		}
		if v, ok := e.keys[x.loop]; ok {
			return "B:" + strconv.Itoa(v)
		}
		if v, ok := e.vals[x.loop]; ok {
			return "num:" + strconv.FormatInt(v, 10)
		}
	}
	if x.path == "" {
		// literals reach functions as their text
		switch x.v.kind {
		case "str":
			return "B:" + x.v.s
		default:
			return "B:" + x.v.lit()
		}
	}
	return x.v.nodeRender()
}

func (e *renv) compare(l rexpr, op string, r rexpr) bool {
	a, b := e.value(l), e.value(r)
	switch {
	case a.kind == "int" && b.kind == "int":
		return cmpInts(a.i, b.i, op)
	case a.kind == "bool" && b.kind == "bool":
		if op == "==" {
			return a.b == b.b
		}
		return a.b != b.b
	default:
		return cmpStrs(a.s, b.s, op)
	}
}

// run executes statements; returns a pending loop signal
func (e *renv) run(ss []rstmt) rsignal {
	lazy := rsignal{}
	for _, s := range ss {
		var sig rsignal
		switch s.kind {
		case "probe":
			xs := []string{"B:" + s.tag}
			for _, a := range s.args {
				xs = append(xs, e.renderArg(a))
			}
			e.trace = append(e.trace, "cb:probe("+strings.Join(xs, ",")+")")
		case "break":
			d := s.n
			if d > 0 {
				d--
			}
			return rsignal{"break", d}
		case "lazybreak":
			d := s.n
			if d > 0 {
				d--
			}
			sig = rsignal{"lazybreak", d}
		case "continue":
			if lazy.kind != "" {
				return lazy
			}
			return rsignal{"continue", 0}
		case "if":
			if e.compare(s.l, s.op, s.r) {
				sig = e.run(s.then)
			} else if s.hasElse {
				sig = e.run(s.els)
			}
		case "switch":
			matched := false
			for _, c := range s.cases {
				if e.compare(s.subj, "==", rexpr{v: c.val}) {
					sig = e.run(c.body)
					matched = true
					break
				}
			}
			if !matched && s.defAt >= 0 {
				sig = e.run(s.def)
			}
		case "swnc":
			matched := false
			for _, c := range s.cases {
				if e.compare(c.l, c.op, c.r) {
					sig = e.run(c.body)
					matched = true
					break
				}
			}
			if !matched && s.defAt >= 0 {
				sig = e.run(s.def)
			}
		case "cloop":
			sig = e.cloop(s)
		case "rloop":
			sig = e.rloop(s)
		}
		switch sig.kind {
		case "break":
			return sig
		case "continue":
			if lazy.kind != "" {
				return lazy // a lazybreak requested earlier in this iteration survives a continue
			}
			return sig
		case "lazybreak":
			if s.kind == "lazybreak" || lazy.kind == "" || sig.depth > lazy.depth {
				lazy = sig // a lazybreak statement overwrites the pending depth, as the code does
			}
		}
	}
	return lazy
}

// after a nested loop ended with depth d > 0 still to consume, the enclosing
// loop finishes its current iteration and ends: a lazybreak of depth d-1... the
// reference generator never places statements after such a loop, so both
// readings of "end the N-1 enclosing loops" coincide.
func afterLoop(sig rsignal) rsignal {
	if (sig.kind == "break" || sig.kind == "lazybreak") && sig.depth > 0 {
		return rsignal{"lazybreak", sig.depth - 1}
	}
	return rsignal{}
}

func (e *renv) cloop(s rstmt) rsignal {
	var out rsignal
	step := func(i int64) int64 {
		if s.inc {
			return i + 1
		}
		return i - 1
	}
	for i := s.init; cmpInts(i, s.lim, s.op); i = step(i) {
		e.ints[s.v] = i
		sig := e.run(s.body)
		if sig.kind == "break" || sig.kind == "lazybreak" {
			out = sig
			break
		}
	}
	delete(e.ints, s.v)
	return afterLoop(out)
}

func (e *renv) rloop(s rstmt) rsignal {
	var out rsignal
	for i, x := range s.elems {
		if s.k != "" {
			e.keys[s.k] = i
		}
		if s.val != "" {
			e.vals[s.val] = x
		}
		sig := e.run(s.body)
		if sig.kind == "break" || sig.kind == "lazybreak" {
			out = sig
			break
		}
	}
	delete(e.keys, s.k)
	delete(e.vals, s.val)
	return afterLoop(out)
}

func refTrace(ss []rstmt) []string {
	e := &renv{ints: map[string]int64{}, keys: map[string]int{}, vals: map[string]int64{}}
	e.run(ss)
	if e.trace == nil {
		return []string{}
	}
	return e.trace
}

// ---------------------------------------------------------------- generator

type rgen struct {
	r        *prng
	doc      *JV
	ints     map[string]int64
	strs     map[string]string
	bools    map[string]bool
	arrs     map[string][]int64
	nextID   int
	loops    []string // kinds of enclosing loops, innermost last
	cvars    []string // counter variables in scope
	keys     []string
	vals     []string
	opts     rgenOpts
	stats    map[string]int
	deepUsed bool
	nsignals int
}

type rgenOpts struct {
	conds, switches, cloops, rloops, signals bool
}

func newRGen(r *prng, o rgenOpts, st map[string]int) *rgen {
	g := &rgen{r: r, opts: o, stats: st, ints: map[string]int64{}, strs: map[string]string{}, bools: map[string]bool{}, arrs: map[string][]int64{}}
	doc := &JV{K: "obj"}
	add := func(k string, v *JV) { doc.Keys = append(doc.Keys, k); doc.Xs = append(doc.Xs, v) }
	add("pre", jObj("x", jNum("1")))
	for i := 0; i < 4; i++ {
		k := fmt.Sprintf("n%d", i)
		v := int64(r.intn(8)) // non-negative: the DSL has no negative literals, and conditions compare with literals
		g.ints[k] = v
		add(k, jNum(strconv.FormatInt(v, 10)))
	}
	for i := 0; i < 3; i++ {
		k := fmt.Sprintf("s%d", i)
		v := pick(r, []string{"alpha", "beta", "gamma", "x", "Hello"})
		g.strs[k] = v
		add(k, jStr(v))
	}
	g.bools["t"], g.bools["f"] = true, false
	add("t", jBool(true))
	add("f", jBool(false))
	for i := 0; i < 3; i++ {
		k := fmt.Sprintf("a%d", i)
		n := 1 + r.intn(4)
		a := &JV{K: "arr"}
		var xs []int64
		for j := 0; j < n; j++ {
			x := int64(r.intn(7))
			xs = append(xs, x)
			a.Xs = append(a.Xs, jNum(strconv.FormatInt(x, 10)))
		}
		g.arrs[k] = xs
		add(k, a)
	}
	g.doc = doc
	return g
}

func (g *rgen) id(p string) string { g.nextID++; return fmt.Sprintf("%s%d", p, g.nextID) }

func (g *rgen) intExpr() rexpr {
	r := g.r
	switch r.intn(5) {
	case 0:
		if len(g.cvars) > 0 {
			v := pick(r, g.cvars)
			return rexpr{path: v, loop: v, v: rval{kind: "int"}}
		}
	case 1:
		if len(g.vals) > 0 {
			v := pick(r, g.vals)
			return rexpr{path: v, loop: v, v: rval{kind: "int"}}
		}
	}
	k := fmt.Sprintf("n%d", r.intn(4))
	return rexpr{path: "jso." + k, v: rval{kind: "int", i: g.ints[k]}}
}

func (g *rgen) cond() (l rexpr, op string, rr rexpr) {
	r := g.r
	switch r.intn(4) {
	case 0:
		k := fmt.Sprintf("s%d", r.intn(3))
		l = rexpr{path: "jso." + k, v: rval{kind: "str", s: g.strs[k]}}
		other := pick(r, []string{"alpha", "beta", "gamma", "x", "Hello", g.strs[k]})
		return l, pick(r, cmpOps), rexpr{v: rval{kind: "str", s: other}}
	case 1:
		k := pick(r, []string{"t", "f"})
		l = rexpr{path: "jso." + k, v: rval{kind: "bool", b: g.bools[k]}}
		return l, pick(r, []string{"==", "!="}), rexpr{v: rval{kind: "bool", b: r.bool()}}
	default:
		l = g.intExpr()
		c := int64(r.intn(6))
		if l.loop == "" && r.bool() {
			c = l.v.i // equal values are the interesting case
		}
		return l, pick(r, cmpOps), rexpr{v: rval{kind: "int", i: c}}
	}
}

func (g *rgen) probe() rstmt {
	s := rstmt{kind: "probe", tag: g.id("p")}
	for _, v := range g.cvars {
		s.args = append(s.args, rexpr{path: v, loop: v})
	}
	for _, v := range g.keys {
		s.args = append(s.args, rexpr{path: v, loop: v})
	}
	for _, v := range g.vals {
		s.args = append(s.args, rexpr{path: v, loop: v})
	}
	return s
}

func (g *rgen) block(depth, n int) []rstmt {
	var out []rstmt
	for i := 0; i < n; i++ {
		out = append(out, g.stmt(depth)...)
	}
	return out
}

func (g *rgen) count(k string) {
	if g.stats != nil {
		g.stats[k]++
	}
}

func (g *rgen) stmt(depth int) []rstmt {
	r := g.r
	var kinds []string
	kinds = append(kinds, "probe", "probe")
	if depth > 0 {
		if g.opts.conds {
			kinds = append(kinds, "if", "if")
		}
		if g.opts.switches {
			kinds = append(kinds, "switch", "swnc")
		}
		if g.opts.cloops {
			kinds = append(kinds, "cloop", "cloop")
		}
		if g.opts.rloops {
			kinds = append(kinds, "rloop", "rloop")
		}
	}
	if g.opts.signals && len(g.loops) > 0 && !g.deepUsed {
		kinds = append(kinds, "signal", "signal")
	}
	switch pick(r, kinds) {
	case "if":
		l, op, rr := g.cond()
		s := rstmt{kind: "if", l: l, op: op, r: rr, hasElse: r.bool(), litLeft: rr.path == "" && r.chance(1, 3)}
		// empty blocks are programs too
		nt, ne := 1+r.intn(2), 1+r.intn(2)
		if r.chance(1, 6) {
			nt = 0
		}
		if r.chance(1, 8) {
			ne = 0
		}
		s.then = g.block(depth-1, nt)
		if s.hasElse {
			s.els = g.block(depth-1, ne)
		}
		g.count("if " + op)
		if s.litLeft {
			g.count("literal on the left")
		}
		return []rstmt{s}
	case "switch":
		kind := r.intn(3)
		var s rstmt
		s.kind = "switch"
		mk := func(v rval) rcase {
			c := rcase{val: v, quote: pick(r, []string{`"`, `"`, `'`})}
			switch r.intn(5) {
			case 0:
				// empty body
			case 1:
				c.body = []rstmt{{kind: "comment", tag: "nothing to do"}}
			default:
				c.body = g.block(depth-1, 1+r.intn(2))
			}
			return c
		}
		switch kind {
		case 0:
			k := fmt.Sprintf("n%d", r.intn(4))
			s.subj = rexpr{path: "jso." + k, v: rval{kind: "int", i: g.ints[k]}}
			for i, n := 0, 1+r.intn(4); i < n; i++ {
				v := int64(r.intn(6))
				if r.chance(1, 3) {
					v = g.ints[k]
				}
				c := mk(rval{kind: "int", i: v})
				if r.chance(1, 3) {
					// variable case value
					k2 := fmt.Sprintf("n%d", r.intn(4))
					c.val, c.vpath = rval{kind: "int", i: g.ints[k2]}, "jso."+k2
					g.count("switch case value from a variable")
				}
				s.cases = append(s.cases, c)
			}
		case 1:
			k := fmt.Sprintf("s%d", r.intn(3))
			s.subj = rexpr{path: "jso." + k, v: rval{kind: "str", s: g.strs[k]}}
			for i, n := 0, 1+r.intn(4); i < n; i++ {
				v := pick(r, []string{"alpha", "beta", "gamma", "x", "Hello", g.strs[k]})
				c := mk(rval{kind: "str", s: v})
				if r.chance(1, 3) {
					k2 := fmt.Sprintf("s%d", r.intn(3))
					c.val, c.vpath = rval{kind: "str", s: g.strs[k2]}, "jso."+k2
					g.count("switch case value from a variable")
				}
				s.cases = append(s.cases, c)
			}
		default:
			k := pick(r, []string{"t", "f"})
			s.subj = rexpr{path: "jso." + k, v: rval{kind: "bool", b: g.bools[k]}}
			s.cases = append(s.cases, mk(rval{kind: "bool", b: r.bool()}))
			if r.bool() {
				s.cases = append(s.cases, mk(rval{kind: "bool", b: r.bool()}))
			}
		}
		s.defAt = -1
		if r.chance(2, 3) {
			s.defAt = r.intn(len(s.cases) + 1)
			s.def = g.block(depth-1, 1)
		}
		g.count("switch classic")
		return []rstmt{s}
	case "swnc":
		s := rstmt{kind: "swnc", defAt: -1}
		for i, n := 0, 1+r.intn(4); i < n; i++ {
			l, op, rr := g.cond()
			c := rcase{l: l, op: op, r: rr}
			if !r.chance(1, 5) {
				c.body = g.block(depth-1, 1+r.intn(2))
			}
			s.cases = append(s.cases, c)
		}
		if r.chance(2, 3) {
			s.defAt = r.intn(len(s.cases) + 1)
			s.def = g.block(depth-1, 1)
		}
		g.count("switch no-cond")
		return []rstmt{s}
	case "cloop":
		v := g.id("i")
		a := int64(r.intn(5)) - 1
		n := int64(r.intn(4))
		s := rstmt{kind: "cloop", v: v}
		if a < 0 {
			a = 0 // negative literals are not part of the DSL's literal syntax
		}
		switch r.intn(6) {
		case 0:
			s.init, s.op, s.lim, s.inc = a, "<", a+n, true
		case 1:
			s.init, s.op, s.lim, s.inc = a, "<=", a+n, true
		case 2:
			s.init, s.op, s.lim, s.inc = a+n, ">", a, false
		case 3:
			s.init, s.op, s.lim, s.inc = a+n, ">=", a, false
		case 4:
			s.init, s.op, s.lim, s.inc = a, "!=", a+n, true
		default:
			s.init, s.op, s.lim, s.inc = a+n, "!=", a, false
		}
		if r.chance(1, 6) {
			// bounds written as Go octal literals (010 is eight)
			s.octal = true
			s.init, s.lim = s.init+8, s.lim+8
			g.count("counter loop with octal literal bounds")
		}
		if r.chance(1, 4) && s.inc && s.op != "!=" {
			// limit taken from the document (may be negative: zero iterations)
			k := fmt.Sprintf("n%d", r.intn(4))
			s.limPath, s.lim = "jso."+k, g.ints[k]
		}
		if r.chance(1, 8) {
			// condition false at entry
			s.limPath = ""
			switch s.op {
			case "<", "<=":
				s.init, s.lim = 4, 2
			case ">", ">=":
				s.init, s.lim = 1, 3
			default:
				s.lim = s.init
			}
		}
		var pre []rstmt
		rebind := int64(-1)
		if s.limPath == "" && r.chance(1, 5) {
			// the limit is a context variable that the body rebinds: the loop
			// keeps the limit it read at entry
			lv := g.id("lim")
			pre = []rstmt{{kind: "setvar", v: lv, lim: s.lim}}
			s.limPath = lv
			rebind = pick(r, []int64{0, s.lim + 2, s.lim + 1})
			g.count("counter loop whose body rebinds its limit variable")
		}
		g.loops = append(g.loops, "c")
		g.cvars = append(g.cvars, v)
		s.body = g.loopBody(depth - 1)
		if rebind >= 0 {
			s.body = append(s.body, rstmt{kind: "setvar", v: s.limPath, lim: rebind})
		}
		g.cvars = g.cvars[:len(g.cvars)-1]
		g.loops = g.loops[:len(g.loops)-1]
		g.count("counter loop " + s.op)
		return append(pre, s)
	case "rloop":
		k := fmt.Sprintf("a%d", r.intn(3))
		s := rstmt{kind: "rloop", arr: "jso." + k, elems: g.arrs[k]}
		form := r.intn(3)
		if form != 1 {
			s.k = g.id("k")
		}
		if form != 2 {
			s.val = g.id("v")
		}
		g.loops = append(g.loops, "r")
		if s.k != "" {
			g.keys = append(g.keys, s.k)
		}
		if s.val != "" {
			g.vals = append(g.vals, s.val)
		}
		s.body = g.loopBody(depth - 1)
		if s.k != "" {
			g.keys = g.keys[:len(g.keys)-1]
		}
		if s.val != "" {
			g.vals = g.vals[:len(g.vals)-1]
		}
		g.loops = g.loops[:len(g.loops)-1]
		g.count("range loop")
		return []rstmt{s}
	case "signal":
		return []rstmt{g.signal()}
	}
	return []rstmt{g.probe()}
}

// a loop body: probe first; a nested loop that may raise break N is the last
// statement of the body (see afterLoop)
func (g *rgen) loopBody(depth int) []rstmt {
	body := []rstmt{g.probe()}
	body = append(body, g.block(depth, g.r.intn(3))...)
	return body
}

// a signal guarded by a condition on a loop variable of the innermost loop
func (g *rgen) signal() rstmt {
	r := g.r
	var guard rstmt
	guard.kind = "if"
	switch {
	case len(g.cvars) > 0 && (len(g.keys) == 0 || r.bool()):
		v := g.cvars[len(g.cvars)-1]
		guard.l, guard.op, guard.r = rexpr{path: v, loop: v}, pick(r, []string{"==", ">=", "!=", "<"}), rexpr{v: rval{kind: "int", i: int64(r.intn(5))}}
	case len(g.vals) > 0:
		v := g.vals[len(g.vals)-1]
		guard.l, guard.op, guard.r = rexpr{path: v, loop: v}, pick(r, []string{"==", ">=", "<"}), rexpr{v: rval{kind: "int", i: int64(r.intn(6))}}
	default:
		l, op, rr := g.cond()
		guard.l, guard.op, guard.r = l, op, rr
	}
	kind := pick(r, []string{"break", "lazybreak", "continue"})
	sig := rstmt{kind: kind}
	if kind != "continue" && r.chance(1, 2) {
		sig.n = 1
		// one signal per program may reach further out (so that pending depths of
		// different signals never meet: their combination is not specified)
		if !g.deepUsed && g.nsignals == 0 && len(g.loops) > 1 && r.bool() {
			sig.n = 2 + r.intn(len(g.loops)-1)
			g.deepUsed = true
		}
	}
	g.nsignals++
	guard.then = []rstmt{sig}
	g.count("signal " + kind)
	return guard
}

// refJob generates a structured program, renders it and computes the expected trace.
func refJob(r *prng, o rgenOpts, st map[string]int, n, depth int) (Job, []string) {
	g := newRGen(r, o, st)
	ss := g.block(depth, n)
	var sb strings.Builder
	renderStmts(ss, &sb)
	return Job{Prog: sb.String(), doc: g.doc, Fail: -1}, refTrace(ss)
}
