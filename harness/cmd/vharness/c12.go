package main

// C12: the decoder registry. Every history of register calls over a small
// alphabet is replayed against the real registry (reset through the verif
// hook), the whole lookup table is observed after every call through the
// exported Decode/DecodeByID/DecodeFallback, compared with an abstract
// registry written here (direct oracle) and emitted as Coq cases.

import (
	"fmt"
	"path/filepath"
	"strings"

	"github.com/koykov/decoder"
	"github.com/koykov/inspector/testobj"
	"github.com/koykov/inspector/testobj_ins"

	"verifharness/coqfmt"
)

type regCall struct {
	Kind string `json:"kind"` // both | id | key
	ID   int    `json:"id"`
	Key  string `json:"key"`
	Mark int    `json:"mark"`
}

var regAlphabet = []regCall{
	{Kind: "both", ID: 0, Key: "a"}, {Kind: "both", ID: 0, Key: "b"},
	{Kind: "both", ID: 1, Key: "a"}, {Kind: "both", ID: 1, Key: "b"},
	{Kind: "id", ID: 0}, {Kind: "id", ID: 1},
	{Kind: "key", Key: "a"}, {Kind: "key", Key: "b"},
}

var obsIDs = []int{0, 1, 9, -1}
var obsKeys = []string{"a", "b", "z", "-1"}

type regEnv struct {
	trees map[int]*decoder.Tree
	ctx   *decoder.Ctx
	obj   *testobj.TestObject
}

func newRegEnv() *regEnv {
	return &regEnv{trees: map[int]*decoder.Tree{}, ctx: decoder.NewCtx(), obj: &testobj.TestObject{}}
}

func (e *regEnv) tree(mark int) *decoder.Tree {
	if t, ok := e.trees[mark]; ok {
		return t
	}
	t, err := decoder.Parse([]byte(fmt.Sprintf("obj.Status = %d\n", mark)))
	if err != nil {
		panic(err)
	}
	e.trees[mark] = t
	return t
}

// observe runs one lookup through the exported API and returns the marker of
// the tree that was executed (ok=false: ErrDecoderNotFound).
func (e *regEnv) observe(f func(ctx *decoder.Ctx) error) (int, bool, error) {
	e.ctx.Reset()
	e.obj.Status = -7
	e.ctx.Set("obj", e.obj, testobj_ins.TestObjectInspector{})
	err := f(e.ctx)
	if err == decoder.ErrDecoderNotFound {
		if e.obj.Status != -7 {
			return 0, false, fmt.Errorf("ErrDecoderNotFound but a rule was executed")
		}
		return 0, false, nil
	}
	if err != nil {
		return 0, false, err
	}
	return int(e.obj.Status), true, nil
}

type cell struct {
	ok bool
	m  int
}

func (e *regEnv) table() ([]cell, error) {
	var t []cell
	for _, id := range obsIDs {
		id := id
		m, ok, err := e.observe(func(c *decoder.Ctx) error { return decoder.DecodeByID(id, c) })
		if err != nil {
			return nil, err
		}
		t = append(t, cell{ok, m})
	}
	for _, k := range obsKeys {
		k := k
		m, ok, err := e.observe(func(c *decoder.Ctx) error { return decoder.Decode(k, c) })
		if err != nil {
			return nil, err
		}
		t = append(t, cell{ok, m})
	}
	for _, k := range obsKeys {
		for _, fb := range obsKeys {
			k, fb := k, fb
			m, ok, err := e.observe(func(c *decoder.Ctx) error { return decoder.DecodeFallback(k, fb, c) })
			if err != nil {
				return nil, err
			}
			t = append(t, cell{ok, m})
		}
	}
	return t, nil
}

func (e *regEnv) apply(c regCall) {
	t := e.tree(c.Mark)
	switch c.Kind {
	case "both":
		decoder.RegisterDecoder(c.ID, c.Key, t)
	case "id":
		decoder.RegisterDecoderID(c.ID, t)
	case "key":
		decoder.RegisterDecoderKey(c.Key, t)
	}
}

// abstract registry (direct oracle, independent of the Coq model)
type absReg struct {
	mI map[int]int
	mK map[string]int
	pK map[int]string
	pI map[string]int
}

func newAbs() *absReg {
	return &absReg{mI: map[int]int{}, mK: map[string]int{}, pK: map[int]string{}, pI: map[string]int{}}
}

// apply returns false when the call violates the partner constraint.
func (a *absReg) apply(c regCall) bool {
	switch c.Kind {
	case "both":
		if k, ok := a.pK[c.ID]; ok && k != c.Key {
			return false
		}
		if i, ok := a.pI[c.Key]; ok && i != c.ID {
			return false
		}
		a.pK[c.ID], a.pI[c.Key] = c.Key, c.ID
		a.mI[c.ID], a.mK[c.Key] = c.Mark, c.Mark
	case "id":
		a.mI[c.ID] = c.Mark
		if k, ok := a.pK[c.ID]; ok {
			a.mK[k] = c.Mark
		}
	case "key":
		a.mK[c.Key] = c.Mark
		if i, ok := a.pI[c.Key]; ok {
			a.mI[i] = c.Mark
		}
	}
	return true
}

func (a *absReg) table() []cell {
	var t []cell
	for _, id := range obsIDs {
		m, ok := a.mI[id]
		t = append(t, cell{ok, m})
	}
	for _, k := range obsKeys {
		m, ok := a.mK[k]
		t = append(t, cell{ok, m})
	}
	for _, k := range obsKeys {
		for _, fb := range obsKeys {
			if m, ok := a.mK[k]; ok {
				t = append(t, cell{true, m})
			} else {
				m, ok := a.mK[fb]
				t = append(t, cell{ok, m})
			}
		}
	}
	return t
}

func cellsEq(a, b []cell) bool {
	if len(a) != len(b) {
		return false
	}
	for i := range a {
		if a[i].ok != b[i].ok || (a[i].ok && a[i].m != b[i].m) {
			return false
		}
	}
	return true
}

func cellsCoq(t []cell) string {
	xs := make([]string, len(t))
	for i, c := range t {
		xs[i] = coqfmt.OptN(c.ok, uint64(c.m))
	}
	return coqfmt.List(xs)
}

func cellsStr(t []cell) string {
	xs := make([]string, len(t))
	for i, c := range t {
		if c.ok {
			xs[i] = fmt.Sprint(c.m)
		} else {
			xs[i] = "-"
		}
	}
	return strings.Join(xs, " ")
}

func regCallCoq(c regCall) string {
	switch c.Kind {
	case "both":
		return fmt.Sprintf("RegBoth %s %s %s", coqfmt.Z(int64(c.ID)), coqfmt.Str(c.Key), coqfmt.N(uint64(c.Mark)))
	case "id":
		return fmt.Sprintf("RegID %s %s", coqfmt.Z(int64(c.ID)), coqfmt.N(uint64(c.Mark)))
	default:
		return fmt.Sprintf("RegKey %s %s", coqfmt.Str(c.Key), coqfmt.N(uint64(c.Mark)))
	}
}

type regHistory struct {
	Calls []regCall `json:"calls"`
}

// runRegHistory replays one history on the real registry; returns per-step
// tables, the oracle's tables and whether the history is valid.
func runRegHistory(e *regEnv, h []regCall) (obs [][]cell, want [][]cell, valid bool, err error) {
	decoder.VerifResetRegistry()
	a := newAbs()
	valid = true
	for _, c := range h {
		e.apply(c)
		t, err := e.table()
		if err != nil {
			return nil, nil, false, err
		}
		obs = append(obs, t)
		if valid {
			if a.apply(c) {
				want = append(want, a.table())
			} else {
				valid = false
			}
		}
	}
	return obs, want, valid, nil
}

func init() {
	runners["C12"] = runC12
}

func runC12(cfg *runCfg) (*Summary, error) {
	maxLen, coqBudget := 4, 1500
	if cfg.tier == "thorough" {
		maxLen, coqBudget = 6, 12000
	}
	sum := &Summary{Distribution: map[string]int{}, Exhaustive: true}
	sum.Rule = fmt.Sprintf("every history of length 1..%d over the 8 register calls {RegisterDecoder(0|1, a|b), RegisterDecoderID(0|1), RegisterDecoderKey(a|b)}, each call with a fresh marker tree, plus variants in which a call passes the same tree as the previous call; after every call the lookup table DecodeByID(0,1,9,-1), Decode(a,b,z,\"-1\"), DecodeFallback(all 16 pairs) is observed through the exported API and compared with an abstract registry (valid histories) on the Go side; a seeded sample plus all replayed corpus histories is evaluated in the Coq model. distinct_nontrivial = valid histories that pair at least one id with a key and re-register afterwards", maxLen)
	e := newRegEnv()
	rng := newPRNG(cfg.seed)
	var coqCases []string
	var coqMeta []any
	seen := 0
	var total int
	for l := 1; l <= maxLen; l++ {
		n := 1
		for i := 0; i < l; i++ {
			n *= len(regAlphabet)
		}
		total += n
	}
	// corpus first: the pre-repair witness of D12
	corpus := [][]regCall{
		{{Kind: "key", Key: "a"}, {Kind: "both", ID: 0, Key: "a"}},
		{{Kind: "id", ID: 1}, {Kind: "both", ID: 1, Key: "b"}, {Kind: "id", ID: 1}},
		{{Kind: "id", ID: 0}, {Kind: "key", Key: "a"}, {Kind: "both", ID: 0, Key: "a"}, {Kind: "key", Key: "a"}},
	}
	process := func(h []regCall, forceCoq bool) error {
		if h[0].Mark == 0 {
			for i := range h {
				h[i].Mark = i + 1
			}
		}
		obs, want, valid, err := runRegHistory(e, h)
		if err != nil {
			return err
		}
		sum.Evaluations++
		sum.Distribution[fmt.Sprintf("len=%d", len(h))]++
		if valid {
			sum.Distribution["valid"]++
			paired, rereg := false, false
			for _, c := range h {
				if c.Kind == "both" {
					paired = true
				} else if paired {
					rereg = true
				}
			}
			if paired && rereg {
				sum.Distinct++
			}
			for i := range want {
				if !cellsEq(obs[i], want[i]) {
					cp := append([]regCall(nil), h[:i+1]...)
					if len(sum.OracleFails) < 5 {
						sum.OracleFails = append(sum.OracleFails, OracleFail{
							What:   fmt.Sprintf("lookup table after call %d differs from the abstract registry (order: DecodeByID %v, Decode %v, DecodeFallback all pairs)", i+1, obsIDs, obsKeys),
							Input:  regHistory{cp},
							Expect: cellsStr(want[i]), Got: cellsStr(obs[i]),
						})
					}
					break
				}
			}
		} else {
			sum.Distribution["invalid(partner constraint)"]++
		}
		seen++
		if forceCoq || rng.intn(total) < coqBudget {
			ops := make([]string, len(h))
			for i, c := range h {
				ops[i] = regCallCoq(c)
			}
			tabs := make([]string, len(obs))
			for i, t := range obs {
				tabs[i] = cellsCoq(t)
			}
			coqCases = append(coqCases, "("+coqfmt.List(ops)+", "+coqfmt.List(tabs)+")")
			coqMeta = append(coqMeta, regHistory{append([]regCall(nil), h...)})
			if len(sum.Samples) < 3 && valid && len(h) >= 3 {
				sum.Samples = append(sum.Samples, map[string]any{"history": append([]regCall(nil), h...), "table_after_last_call": cellsStr(obs[len(obs)-1])})
			}
		}
		return nil
	}
	for _, h := range corpus {
		if err := process(append([]regCall(nil), h...), true); err != nil {
			return nil, err
		}
	}
	var rec func(h []regCall, l int) error
	rec = func(h []regCall, l int) error {
		if len(h) == l {
			if err := process(append([]regCall(nil), h...), false); err != nil {
				return err
			}
			// the same history with trees reused: every pattern of "this call
			// passes the tree of the previous call" (all patterns up to length 3,
			// a seeded one for longer histories)
			masks := []int{}
			if l <= 3 {
				for m := 1; m < 1<<(l-1); m++ {
					masks = append(masks, m)
				}
			} else if rng.chance(1, 4) {
				masks = append(masks, 1+rng.intn(1<<(l-1)-1))
			}
			for _, m := range masks {
				hh := append([]regCall(nil), h...)
				mark := 1
				for i := range hh {
					if i > 0 && m&(1<<(i-1)) == 0 {
						mark++
					}
					hh[i].Mark = mark
				}
				sum.Distribution["with reused trees"]++
				if err := process(hh, false); err != nil {
					return err
				}
			}
			return nil
		}
		for _, c := range regAlphabet {
			if err := rec(append(h, c), l); err != nil {
				return err
			}
		}
		return nil
	}
	for l := 1; l <= maxLen; l++ {
		if err := rec(nil, l); err != nil {
			return nil, err
		}
	}
	// emit Coq case files, sharded
	const shard = 600
	for off, k := 0, 0; off < len(coqCases); off, k = off+shard, k+1 {
		end := off + shard
		if end > len(coqCases) {
			end = len(coqCases)
		}
		name := fmt.Sprintf("cases_C12_%03d.v", k)
		var sb strings.Builder
		sb.WriteString("From Coq Require Import List NArith ZArith String.\nFrom Dec Require Import Bytes Db DbSpec CasesDb.\nImport ListNotations.\nLocal Open Scope string_scope.\n")
		sb.WriteString("Definition cases : list dbcase := [\n")
		sb.WriteString(strings.Join(coqCases[off:end], ";\n"))
		sb.WriteString("\n].\nDefinition M := Eval vm_compute in mismatches cases.\nPrint M.\n")
		if err := writeIfChanged(filepath.Join(cfg.out, name), []byte(sb.String())); err != nil {
			return nil, err
		}
		sum.Files = append(sum.Files, CaseFile{File: name, Cases: coqMeta[off:end]})
	}
	sum.CoqCases = len(coqCases)
	return sum, nil
}
