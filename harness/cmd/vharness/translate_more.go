package main

import (
	"go/ast"
	"go/token"
	"path/filepath"

	"verifharness/retrans"
)

// translateMore emits the remaining generated files (regexes, audits).
func translateMore(repo, out string, fset *token.FileSet, files map[string]*ast.File) error {
	rs, err := retrans.Extract(repo)
	if err != nil {
		return err
	}
	src, err := retrans.EmitCoq(rs)
	if err != nil {
		return err
	}
	if err := writeIfChanged(filepath.Join(out, "Regexes.v"), []byte(src)); err != nil {
		return err
	}
	au, err := emitAudit(fset, files)
	if err != nil {
		return err
	}
	if err := writeIfChanged(filepath.Join(out, "Audit.v"), []byte(au)); err != nil {
		return err
	}
	bi, err := emitBuiltins(fset, files)
	if err != nil {
		return err
	}
	return writeIfChanged(filepath.Join(out, "Builtins.v"), []byte(bi))
}
