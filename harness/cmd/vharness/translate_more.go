package main

import (
	"go/ast"
	"path/filepath"

	"verifharness/retrans"
)

// translateMore emits the remaining generated files (regexes, audits).
func translateMore(repo, out string, files map[string]*ast.File) error {
	rs, err := retrans.Extract(repo)
	if err != nil {
		return err
	}
	src, err := retrans.EmitCoq(rs)
	if err != nil {
		return err
	}
	if err := writeIfChanged(filepath.Join(out, "Regexes.v"), []byte(src)); err != nil {
		return err
	}
	return nil
}
