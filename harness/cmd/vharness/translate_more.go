package main

import "go/ast"

// translateMore emits the remaining generated files (regexes, audits); filled
// in as the model grows.
func translateMore(repo, out string, files map[string]*ast.File) error {
	return nil
}
