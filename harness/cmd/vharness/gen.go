package main

// Program and document generators for the interpreter properties. Programs are
// produced from the core grammar of DESIGN.md §12 as text; every random choice
// comes from one PRNG state.

import (
	"fmt"
	"strconv"
	"strings"
)

// ------------------------------------------------------------- documents

type docInfo struct {
	doc *JV
	// paths by kind, relative to the variable "jso"
	strs, ints, floats, bools, nulls, missing []string
	arrs                                      []arrInfo
	objs                                      []string
	vals                                      map[string]*JV
}

type arrInfo struct {
	path string
	n    int
	kind string // int str obj
}

var words = []string{"alpha", "beta", "gamma", "delta", "x", "Hello", "w9", "true", "false", "7", "12", "a b", "zz-top", "mixedCase",
	// values that are escaped in the document's text
	"say \"hi\"", "tab\there", "back\\slash"}

func genInt(r *prng) string {
	switch r.intn(8) {
	case 0:
		return "0"
	case 1:
		return "1"
	case 2:
		return strconv.Itoa(r.intn(10))
	case 3:
		return strconv.Itoa(100 + r.intn(200))
	case 4:
		return "-" + strconv.Itoa(1+r.intn(50))
	case 5:
		return pick(r, []string{"127", "128", "255", "256", "32767", "32768", "65535", "65536", "2147483647", "2147483648", "4294967295", "4294967296", "9223372036854775807", "-128", "-129", "-32768", "-2147483648", "-9223372036854775808", "18446744073709551615"})
	default:
		return strconv.Itoa(r.intn(1000))
	}
}

func genDec(r *prng) string {
	return pick(r, []string{"0.5", "3.25", "12.75", "0.125", "2.5", "100.5", "7.0625", "1024.5"}) // dyadic: exact in float32 and float64
}

func genDoc(r *prng) *docInfo {
	d := &docInfo{vals: map[string]*JV{}}
	add := func(o *JV, prefix, k string, v *JV) {
		o.Keys = append(o.Keys, k)
		o.Xs = append(o.Xs, v)
		p := k
		if prefix != "" {
			p = prefix + "." + k
		}
		d.vals[p] = v
		switch v.K {
		case "str":
			d.strs = append(d.strs, p)
		case "num":
			if strings.Contains(v.T, ".") {
				d.floats = append(d.floats, p)
			} else {
				d.ints = append(d.ints, p)
			}
		case "bool":
			d.bools = append(d.bools, p)
		case "null":
			d.nulls = append(d.nulls, p)
		case "obj":
			d.objs = append(d.objs, p)
		}
	}
	root := &JV{K: "obj"}
	add(root, "", "s", jStr(pick(r, words)))
	add(root, "", "s2", jStr(pick(r, words)))
	add(root, "", "e", jStr(""))
	add(root, "", "n", jNum(genInt(r)))
	add(root, "", "m", jNum(strconv.Itoa(r.intn(6))))
	add(root, "", "z", jNum("0"))
	add(root, "", "big", jNum(strconv.Itoa(300+r.intn(100000))))
	add(root, "", "bigs", jStr(strconv.Itoa(300+r.intn(100000))))
	add(root, "", "f", jNum(genDec(r)))
	add(root, "", "t", jBool(true))
	add(root, "", "fl", jBool(false))
	add(root, "", "nul", jNull())
	o := &JV{K: "obj"}
	add(o, "o", "k", jNum(strconv.Itoa(r.intn(20))))
	add(o, "o", "name", jStr(pick(r, words)))
	deep := &JV{K: "obj"}
	add(deep, "o.deep", "x", jStr(pick(r, words)))
	add(deep, "o.deep", "y", jNum(genInt(r)))
	add(o, "o", "deep", deep)
	add(root, "", "o", o)
	// arrays
	mkArr := func(name string, n int, kind string) {
		a := &JV{K: "arr"}
		for i := 0; i < n; i++ {
			var v *JV
			switch kind {
			case "nint":
				// numbers with null elements in between
				if i%2 == 1 {
					v = jNull()
				} else {
					v = jNum(strconv.Itoa(r.intn(40)))
				}
			case "int":
				v = jNum(strconv.Itoa(r.intn(40)))
			case "str":
				v = jStr(pick(r, words))
			default:
				e := &JV{K: "obj"}
				e.Keys = []string{"id", "v", "tag"}
				e.Xs = []*JV{jNum(strconv.Itoa(i + 1)), jNum(strconv.Itoa(r.intn(5))), jStr(pick(r, words))}
				v = e
			}
			a.Xs = append(a.Xs, v)
			p := name + "." + strconv.Itoa(i)
			d.vals[p] = v
			switch v.K {
			case "num":
				d.ints = append(d.ints, p)
			case "str":
				d.strs = append(d.strs, p)
			case "obj":
				d.vals[p+".id"] = v.Xs[0]
				d.vals[p+".v"] = v.Xs[1]
				d.vals[p+".tag"] = v.Xs[2]
				d.ints = append(d.ints, p+".id", p+".v")
				d.strs = append(d.strs, p+".tag")
			}
		}
		root.Keys = append(root.Keys, name)
		root.Xs = append(root.Xs, a)
		d.vals[name] = a
		d.arrs = append(d.arrs, arrInfo{name, n, kind})
	}
	// a grid: arrays in an array
	grid := &JV{K: "arr"}
	for i, rows := 0, 2+r.intn(2); i < rows; i++ {
		row := &JV{K: "arr"}
		for k, cols := 0, 1+r.intn(2); k < cols; k++ {
			v := jNum(strconv.Itoa(50 + r.intn(40)))
			row.Xs = append(row.Xs, v)
			p := fmt.Sprintf("grid.%d.%d", i, k)
			d.vals[p] = v
			d.ints = append(d.ints, p)
		}
		grid.Xs = append(grid.Xs, row)
	}
	root.Keys = append(root.Keys, "grid")
	root.Xs = append(root.Xs, grid)
	d.vals["grid"] = grid
	mkArr("an", 2+r.intn(3), "nint")
	mkArr("a", 1+r.intn(4), "int")
	mkArr("b", 1+r.intn(3), "str")
	mkArr("objs", 1+r.intn(3), "obj")
	// empty containers, after non-empty ones (only bound and looked at, never ranged over:
	// known finding KF-C05-childless)
	root.Keys = append(root.Keys, "ea", "eo")
	root.Xs = append(root.Xs, &JV{K: "arr"}, &JV{K: "obj"})
	d.vals["ea"], d.vals["eo"] = root.Xs[len(root.Xs)-2], root.Xs[len(root.Xs)-1]
	d.missing = []string{"missing", "o.nokey", "o.deep.q", "s.sub", "nul.x"}
	d.doc = root
	return d
}

// ------------------------------------------------------------- programs

type pgen struct {
	r     *prng
	d     *docInfo
	lines []string
	// names in scope
	loopInts     []string // counter-loop variables
	rangeKeys    []string
	rangeVals    []rangeVal
	ctxVars      []ctxVar
	nextID       int
	pendingReads []string // counters of finished loops, read later
	lastK        string   // names of the range loop finished last
	lastV        string
	lastKind     string
	loopDepth    int
	maxDepth     int
	opts         genOpts
	statics      []StaticVar
	stats        map[string]int
}

type rangeVal struct {
	name string
	kind string // int str obj hist
}

type ctxVar struct {
	name string
	kind string // str int bool node
	path string // for node kind: the document path
}

type genOpts struct {
	signals   bool // break / continue / lazybreak
	userFns   bool // user modifiers / getters / helpers
	loops     bool
	conds     bool
	switches  bool
	ctxvars   bool
	floats    bool
	malformed bool // constructs outside the core grammar that Parse accepts (C16)
}

func (g *pgen) id(prefix string) string {
	g.nextID++
	return fmt.Sprintf("%s%d", prefix, g.nextID)
}

func (g *pgen) emit(s string) { g.lines = append(g.lines, s) }

func (g *pgen) count(k string) {
	if g.stats != nil {
		g.stats[k]++
	}
}

var litWords = []string{"lit", "abc", "Q", "hello world", "x1", "17", "true", "some-longer-literal-value-0123456789", "9",
	// commas and keywords inside a literal are part of the literal (D27, D32)
	"a,b", "wait for it", "only if needed", "x, for y",
	// the other quote character inside a literal is an ordinary character
	"it's, fine", `say "a, b" twice`, "rock'n, roll"}

func (g *pgen) strLit() string {
	q := `"`
	if g.r.chance(1, 4) {
		q = `'`
	}
	w := pick(g.r, litWords)
	if strings.Contains(w, q) {
		if q == `"` {
			q = `'`
		} else {
			q = `"`
		}
	}
	return q + w + q
}

// the destination prefix of a context variable: `ctx.` or its alias `context.`
func (g *pgen) ctxDot() string {
	if g.r.chance(1, 5) {
		g.count("context variable written as context.<name>")
		return "context."
	}
	return "ctx."
}

func (g *pgen) intLit() string { return strconv.Itoa(g.r.intn(300)) }

// a source expression with its kind
type srcExpr struct {
	text string
	kind string // str int float bool null node-obj node-arr absent
}

func (g *pgen) docPath(kind string) (string, bool) {
	var pool []string
	switch kind {
	case "str":
		pool = g.d.strs
	case "int":
		pool = g.d.ints
	case "float":
		pool = g.d.floats
	case "bool":
		pool = g.d.bools
	case "null":
		pool = g.d.nulls
	case "absent":
		pool = g.d.missing
	}
	if len(pool) == 0 {
		return "", false
	}
	return "jso." + pick(g.r, pool), true
}

// bracketed renders the numeric segments of a dotted path in index syntax:
// a.1.0 -> a[1][0], objs.1.id -> objs[1].id
func bracketed(p string) string {
	if p == "" || !(p[0] >= 'a' && p[0] <= 'z' || p[0] >= 'A' && p[0] <= 'Z') || strings.ContainsAny(p, "\"'{|(") {
		return p
	}
	segs := strings.Split(p, ".")
	out := segs[0]
	for _, s := range segs[1:] {
		if _, err := strconv.Atoi(s); err == nil && s != "" {
			out += "[" + s + "]"
		} else {
			out += "." + s
		}
	}
	return out
}

func (g *pgen) source() srcExpr {
	e := g.source0()
	if g.r.chance(1, 3) {
		if b := bracketed(e.text); b != e.text {
			e.text = b
			g.count("source path in index syntax a[i]")
			if strings.Count(b, "[") > 1 {
				g.count("source path with two index brackets a[i][j]")
			}
		}
	}
	return e
}

func (g *pgen) source0() srcExpr {
	r := g.r
	for {
		switch r.intn(14) {
		case 0, 1:
			if p, ok := g.docPath("str"); ok {
				return srcExpr{p, "str"}
			}
		case 2, 3:
			if p, ok := g.docPath("int"); ok {
				return srcExpr{p, "int"}
			}
		case 4:
			if g.opts.floats {
				if p, ok := g.docPath("float"); ok {
					return srcExpr{p, "float"}
				}
			}
		case 5:
			if p, ok := g.docPath("bool"); ok {
				return srcExpr{p, "bool"}
			}
		case 6:
			if r.chance(1, 2) {
				if p, ok := g.docPath("absent"); ok {
					return srcExpr{p, "absent"}
				}
			} else if p, ok := g.docPath("null"); ok {
				return srcExpr{p, "null"}
			}
		case 7:
			return srcExpr{g.strLit(), "str"}
		case 8:
			return srcExpr{g.intLit(), "int"}
		case 9:
			return pick(r, []srcExpr{{"st.Id", "str"}, {"st.Name", "str"}, {"st.Status", "int"}, {"st.Ustate", "uint"},
				{"st.Finance.AllowBuy", "bool"}, {"st.Finance.History.1.Comment", "str"}, {"st.Finance.History.0.DateUnix", "int"}, {"st.Nope", "absent"}})
		case 10:
			if len(g.statics) > 0 {
				s := pick(r, g.statics)
				k := map[string]string{"i": "int", "u": "uint", "f": "float", "b": "bool", "S": "str", "B": "str"}[s.Kind]
				if k == "float" && !g.opts.floats {
					continue
				}
				return srcExpr{s.Name, k}
			}
		case 11:
			if len(g.loopInts) > 0 {
				return srcExpr{pick(r, g.loopInts), "int"}
			}
			if len(g.rangeVals) > 0 {
				v := pick(r, g.rangeVals)
				switch v.kind {
				case "int":
					return srcExpr{v.name, "int"}
				case "str":
					return srcExpr{v.name, "str"}
				case "obj":
					return pick(r, []srcExpr{{v.name + ".id", "int"}, {v.name + ".tag", "str"}})
				case "hist":
					return pick(r, []srcExpr{{v.name + ".DateUnix", "int"}, {v.name + ".Comment", "str"}})
				}
			}
		case 12:
			if len(g.ctxVars) > 0 {
				v := pick(r, g.ctxVars)
				switch v.kind {
				case "node":
					return srcExpr{v.name + ".k", "int"}
				default:
					return srcExpr{v.name, v.kind}
				}
			}
		case 13:
			return pick(r, []srcExpr{{"true", "bool"}, {"false", "bool"}})
		}
	}
}

type dstExpr struct {
	text string
	kind string
}

var dstPool = []dstExpr{
	{"obj.Id", "str"}, {"obj.Name", "bytes"}, {"obj.Status", "i32"}, {"obj.Ustate", "u64"},
	{"obj.Finance.AllowBuy", "bool"}, {"obj.Finance.History[0].Comment", "bytes"}, {"obj.Finance.History[2].DateUnix", "i64"},
	{"ts.S", "str"}, {"ts.B", "bytes"}, {"ts.I", "i64"}, {"ts.I8", "i8"}, {"ts.I16", "i16"}, {"ts.I32", "i32"}, {"ts.I64", "i64"},
	{"ts.U", "u64"}, {"ts.U8", "u8"}, {"ts.U16", "u16"}, {"ts.U32", "u32"}, {"ts.U64", "u64"}, {"ts.A", "u8"},
}
var dstFloat = []dstExpr{{"obj.Cost", "f64"}, {"obj.Finance.Balance", "f64"}, {"ts.D", "f64"}, {"ts.F", "f32"}}

func (g *pgen) dest() dstExpr {
	return pick(g.r, dstPool)
}

func (g *pgen) floatAssign() {
	r := g.r
	d := pick(r, dstFloat)
	s := pick(r, []string{"jso.f", "0.5", "3.25", "12", "jso.m", "st.Cost", "fvar", "jso.s", "st.Finance.Balance", "\"2.5\"", "jso.missing", "jso.t", "ivar", "jso.nul"})
	g.emit(d.text + " = " + s)
	g.count("assign -> float")
}

func (g *pgen) argList(n int) string {
	xs := make([]string, n)
	for i := range xs {
		s := g.source()
		if i == 0 && g.r.chance(1, 8) && len(g.d.strs) > 0 {
			xs[i] = "jso.{nokey|" + pick(g.r, []string{"s", "nul", "n"}) + "|s2}"
			continue
		}
		xs[i] = s.text
	}
	return strings.Join(xs, ", ")
}

func (g *pgen) argListPlain(n int) string {
	xs := make([]string, n)
	for i := range xs {
		xs[i] = g.source().text
	}
	return strings.Join(xs, ", ")
}

func (g *pgen) assign() {
	r := g.r
	if g.opts.floats && r.chance(1, 8) {
		g.floatAssign()
		return
	}
	d := g.dest()
	switch r.intn(10) {
	case 0, 1, 2, 3, 4:
		s := g.source()
		mods := ""
		if r.chance(1, 4) && !strings.HasPrefix(s.text, `"`) && !strings.HasPrefix(s.text, `'`) && !isDigits(s.text) && s.text != "true" && s.text != "false" {
			n := 1 + r.intn(2)
			for i := 0; i < n; i++ {
				switch r.intn(6) {
				case 0:
					mods += "|default(" + g.source().text + ")"
				case 1:
					mods += "|ifThen(" + g.source().text + ")"
				case 2:
					mods += "|ifThenElse(" + g.source().text + ", " + g.source().text + ")"
				case 3:
					if g.opts.userFns {
						mods += "|upper()"
					} else {
						mods += "|def(" + g.strLit() + ")"
					}
				case 4:
					if g.opts.userFns {
						mods += "|ns::suffix(" + g.argList(1+r.intn(2)) + ")"
					} else {
						mods += "|if(" + g.intLit() + ")"
					}
				default:
					mods += "|bar::baz()"
				}
			}
			g.count("modifier chain")
		}
		g.emit(d.text + " = " + s.text + mods)
		g.count("assign " + s.kind)
	case 5:
		// coalesce
		keys := []string{"nokey", pick(r, []string{"nul", "s", "n", "e"}), pick(r, []string{"s2", "t", "missing2"})}
		g.emit(d.text + " = jso.{" + strings.Join(keys[:1+r.intn(3)], "|") + "}")
		g.count("coalesce")
	case 6, 7:
		switch r.intn(7) {
		case 0:
			g.emit(d.text + " = crc32(" + g.argList(1+r.intn(3)) + ")")
		case 1:
			g.emit(d.text + " = atoi(" + pick(r, []string{"jso.n", "jso.m", "jso.o.k", `"12"`, "jso.s", "jso.z", "jso.nul"}) + ")")
		case 2:
			g.emit(d.text + " = atou(" + pick(r, []string{"jso.m", "jso.o.k", `"12"`, "jso.n", "jso.z", "jso.missing"}) + ")")
		case 3:
			g.emit(d.text + " = strToBool(" + pick(r, []string{"jso.t", "jso.fl", `"true"`, `"0"`, "jso.s"}) + ")")
		case 4:
			g.emit(d.text + " = itoa(" + pick(r, []string{"jso.n", "st.Status", "jso.m"}) + ")")
		case 5:
			if g.opts.userFns {
				g.emit(d.text + " = ident(" + g.argList(1+r.intn(2)) + ")")
			} else {
				g.emit(d.text + " = utoa(st.Ustate)")
			}
		default:
			if g.opts.userFns {
				g.emit(d.text + " = konst()")
			} else {
				g.emit(d.text + " = intToStr(jso.o.k)")
			}
		}
		g.count("getter")
	case 8:
		if g.opts.ctxvars {
			g.ctxAssign()
		} else {
			g.emit(d.text + " = " + g.source().text)
		}
	default:
		g.emit("probe(" + g.argList(r.intn(4)) + ")")
		g.count("callback")
	}
}

func isDigits(s string) bool {
	if s == "" {
		return false
	}
	for _, c := range s {
		if c < '0' || c > '9' {
			return false
		}
	}
	return true
}

func (g *pgen) ctxAssign() {
	r := g.r
	name := g.id("cv")
	switch r.intn(5) {
	case 0:
		g.emit(g.ctxDot() + name + " = " + g.strLit())
		g.ctxVars = append(g.ctxVars, ctxVar{name, "str", ""})
	case 1:
		g.emit(g.ctxDot() + name + " = " + g.intLit())
		g.ctxVars = append(g.ctxVars, ctxVar{name, "str", ""})
	case 2:
		if p, ok := g.docPath("str"); ok {
			g.emit(g.ctxDot() + name + " = " + p)
			g.ctxVars = append(g.ctxVars, ctxVar{name, "str", ""})
		}
	case 3:
		g.emit(g.ctxDot() + name + " = jso.o")
		g.ctxVars = append(g.ctxVars, ctxVar{name, "node", "o"})
	default:
		g.emit(g.ctxDot() + name + " = " + pick(r, []string{"st.Name", "st.Id", "st.Status"}) + pick(r, []string{"", " as static", ".(static)"}))
		g.ctxVars = append(g.ctxVars, ctxVar{name, "str", ""})
	}
	g.count("ctx variable")
}

var cmpOps = []string{"==", "!=", ">", ">=", "<", "<="}

func (g *pgen) condition() string {
	r := g.r
	if g.opts.userFns && r.chance(1, 6) {
		if r.bool() {
			return "isTrue(" + g.source().text + ")"
		}
		return "ns::eq(" + g.source().text + ", " + g.source().text + ")"
	}
	// typed comparison
	op := pick(r, cmpOps)
	var l, rt string
	switch r.intn(6) {
	case 0, 1:
		p, _ := g.docPath("int")
		if len(g.loopInts) > 0 && r.bool() {
			p = pick(r, g.loopInts)
		}
		if p == "" {
			p = "st.Status"
		}
		l, rt = p, strconv.Itoa(r.intn(30))
	case 2:
		p, ok := g.docPath("str")
		if !ok {
			p = "st.Id"
		}
		l, rt = p, `"`+pick(r, words)+`"`
	case 3:
		l, rt = pick(r, []string{"st.Status", "obj.Status", "st.Finance.History.0.DateUnix"}), strconv.Itoa(r.intn(12))
	case 4:
		p, ok := g.docPath("bool")
		if !ok {
			p = "st.Finance.AllowBuy"
		}
		l, rt = p, pick(r, []string{"true", "false"})
		op = pick(r, []string{"==", "!="})
	default:
		// both sides dynamic
		p1, _ := g.docPath("int")
		p2, _ := g.docPath("int")
		if p1 == "" || p2 == "" {
			p1, p2 = "st.Status", "st.Status"
		}
		return p1 + " " + op + " " + p2
	}
	if r.chance(1, 4) {
		// literal on the left
		return rt + " " + op + " " + l
	}
	return l + " " + op + " " + rt
}

func (g *pgen) block(n int) {
	for i := 0; i < n; i++ {
		g.stmt()
	}
}

func (g *pgen) signal() {
	r := g.r
	if g.loopDepth == 0 {
		return
	}
	n := ""
	if r.chance(1, 3) {
		n = " " + strconv.Itoa(1+r.intn(g.loopDepth))
	}
	guard := g.loopGuard()
	g.emit("if " + guard + " {")
	switch r.intn(3) {
	case 0:
		g.emit("break" + n)
	case 1:
		g.emit("lazybreak" + n)
	default:
		g.emit("continue")
	}
	g.emit("}")
	g.count("loop signal")
}

func (g *pgen) loopGuard() string {
	r := g.r
	if len(g.loopInts) > 0 && r.bool() {
		return pick(r, g.loopInts) + " " + pick(r, []string{"==", ">=", "!="}) + " " + strconv.Itoa(r.intn(4))
	}
	if len(g.rangeKeys) > 0 {
		return pick(r, g.rangeKeys) + " == " + strconv.Itoa(r.intn(3))
	}
	return g.condition()
}

func (g *pgen) stmt() {
	r := g.r
	depth := g.maxDepth
	choice := r.intn(20)
	switch {
	case choice < 8 || depth <= 0:
		g.assign()
	case choice < 11 && g.opts.conds:
		g.maxDepth--
		if g.opts.userFns && r.chance(1, 5) {
			x, ok := g.id("x"), g.id("ok")
			neg := ""
			if r.chance(1, 3) {
				neg = "!"
			}
			h := pick(r, []string{"okh(" + g.source().text + ")", "nokh()", "okh()"})
			g.emit("if " + x + ", " + ok + " := " + h + "; " + neg + ok + " {")
			g.ctxVars = append(g.ctxVars, ctxVar{ok, "bool", ""})
			g.count("cond-OK")
		} else {
			g.emit("if " + g.condition() + " {")
			g.count("if")
		}
		g.block(1 + r.intn(2))
		if r.bool() {
			g.emit("} else {")
			g.block(1 + r.intn(2))
			g.count("else")
		}
		g.emit("}")
		g.maxDepth++
	case choice < 12 && g.opts.conds:
		// ternary with non-literal operands
		p, _ := g.docPath("int")
		if p == "" {
			p = "st.Status"
		}
		a, _ := g.docPath("str")
		b, _ := g.docPath("str")
		if a == "" || b == "" {
			a, b = "st.Id", "st.Name"
		}
		if r.chance(1, 4) {
			// a coalesce group as a branch operand
			if r.bool() {
				a = "jso.{nokey|s|s2}"
			} else {
				b = "jso.o.{zz|name}"
			}
			g.count("ternary with a coalesce operand")
		}
		g.emit(pick(r, []string{"obj.Id", "obj.Name", "ts.S"}) + " = " + p + " " + pick(r, cmpOps) + " " + strconv.Itoa(r.intn(30)) + " ? " + a + " : " + b)
		g.count("ternary")
	case choice < 14 && g.opts.switches:
		g.maxDepth--
		g.genSwitch()
		g.maxDepth++
	case choice < 17 && g.opts.loops:
		g.maxDepth--
		g.cloop()
		g.maxDepth++
	case choice < 19 && g.opts.loops:
		g.maxDepth--
		g.rloop()
		g.maxDepth++
	case g.opts.signals && g.loopDepth > 0:
		g.signal()
	default:
		g.assign()
	}
}

func (g *pgen) genSwitch() {
	r := g.r
	if r.bool() {
		// classic
		kind := r.intn(3)
		var subj string
		var vals []string
		switch kind {
		case 0:
			subj, _ = g.docPath("int")
			if subj == "" {
				subj = "st.Status"
			}
			v := g.d.vals[strings.TrimPrefix(subj, "jso.")]
			cur := "7"
			if v != nil {
				cur = v.T
			}
			vals = []string{cur, strconv.Itoa(r.intn(9)), strconv.Itoa(r.intn(40)), cur}
		case 1:
			subj, _ = g.docPath("str")
			if subj == "" {
				subj = "st.Id"
			}
			v := g.d.vals[strings.TrimPrefix(subj, "jso.")]
			cur := "sid7"
			if v != nil {
				cur = v.T
			}
			vals = []string{`"` + cur + `"`, `"` + pick(r, words) + `"`, `'` + cur + `'`, `"nomatch"`}
		default:
			subj, _ = g.docPath("bool")
			if subj == "" {
				subj = "st.Finance.AllowBuy"
			}
			vals = []string{"true", "false"}
		}
		g.emit("switch " + subj + " {")
		n := 1 + r.intn(3)
		defAt := -1
		if r.chance(2, 3) {
			defAt = r.intn(n + 1)
		}
		for i := 0; i <= n; i++ {
			if i == defAt {
				g.emit("default:")
				g.block(1)
			}
			if i < n {
				v := vals[r.intn(len(vals))]
				if r.chance(1, 6) && kind == 0 {
					if p, ok := g.docPath("int"); ok {
						v = p
					}
				}
				g.emit("case " + v + ":")
				g.block(1 + r.intn(2))
			}
		}
		g.emit("}")
		g.count("switch classic")
	} else {
		g.emit("switch {")
		n := 1 + r.intn(3)
		defAt := -1
		if r.chance(2, 3) {
			defAt = r.intn(n + 1)
		}
		for i := 0; i <= n; i++ {
			if i == defAt {
				g.emit("default:")
				g.block(1)
			}
			if i < n {
				g.emit("case " + g.condition() + ":")
				g.block(1 + r.intn(2))
			}
		}
		g.emit("}")
		g.count("switch no-cond")
	}
}

// finite counter loop headers only (the Go loop terminates within a few iterations)
func (g *pgen) cloopHeader(v string) string {
	r := g.r
	a := r.intn(4)
	n := r.intn(4)
	type h struct{ init, op, lim, step string }
	var c h
	switch r.intn(6) {
	case 0:
		c = h{strconv.Itoa(a), "<", strconv.Itoa(a + n), "++"}
	case 1:
		c = h{strconv.Itoa(a), "<=", strconv.Itoa(a + n), "++"}
	case 2:
		c = h{strconv.Itoa(a + n), ">", strconv.Itoa(a), "--"}
	case 3:
		c = h{strconv.Itoa(a + n), ">=", strconv.Itoa(a), "--"}
	case 4:
		c = h{strconv.Itoa(a), "!=", strconv.Itoa(a + n), "++"}
	default:
		c = h{strconv.Itoa(a + n), "!=", strconv.Itoa(a), "--"}
	}
	if r.chance(1, 8) {
		// Go octal literals: 010 is eight
		oct := func(x string) string {
			v, _ := strconv.Atoi(x)
			return "0" + strconv.FormatInt(int64(v+8), 8)
		}
		c.init, c.lim = oct(c.init), oct(c.lim)
		g.count("counter loop with octal literal bounds")
	}
	// limits from the document or a static variable now and then
	if r.chance(1, 4) && c.step == "++" && (c.op == "<" || c.op == "<=") {
		c.init, c.lim = "0", "jso.m"
	}
	if r.chance(1, 12) && c.op != "!=" {
		// (a string bound reads as 0: with != the loop could be infinite under Go's reading too)
		// a bound that is not a number: the loop fails, whatever its other bound is
		bad := pick(r, []string{"fvar", "bvar", "svar", "nosuchvar"})
		if r.bool() {
			c.init = bad
		} else {
			c.lim = bad
		}
		g.count("counter loop with a non-numeric bound")
	}
	return "for " + v + " := " + c.init + "; " + v + " " + c.op + " " + c.lim + "; " + v + c.step + " {"
}

func (g *pgen) cloop() {
	v := g.id("i")
	g.emit(g.cloopHeader(v))
	g.loopInts = append(g.loopInts, v)
	g.loopDepth++
	if g.opts.signals && g.r.chance(1, 2) {
		g.signal()
	}
	g.emit("probe(" + strconv.Quote("L"+v) + ", " + v + ")")
	g.block(g.r.intn(3))
	if g.opts.signals && g.r.chance(1, 3) {
		g.signal()
	}
	g.loopDepth--
	g.loopInts = g.loopInts[:len(g.loopInts)-1]
	g.emit("}")
	if g.r.chance(1, 4) {
		// the counter of a finished loop keeps the value the loop left it with,
		// whatever later loops do with their own counters
		g.pendingReads = append(g.pendingReads, v)
		g.count("counter read after its loop has finished")
	}
	if len(g.pendingReads) > 0 && g.loopDepth == 0 && g.r.chance(1, 2) {
		g.emit("probe(\"after-loops\", " + strings.Join(g.pendingReads, ", ") + ")")
		g.pendingReads = nil
	}
	g.count("counter loop")
}

func (g *pgen) rloop() {
	r := g.r
	k, v := g.id("k"), g.id("v")
	reused := false
	if g.lastK != "" && r.chance(1, 2) {
		// the names of an earlier, finished range loop are used again (often
		// over a source of another kind): each loop binds them afresh
		inScope := false
		for _, x := range g.rangeKeys {
			inScope = inScope || x == g.lastK
		}
		for _, x := range g.rangeVals {
			inScope = inScope || x.name == g.lastV
		}
		if !inScope {
			k, v = g.lastK, g.lastV
			reused = true
			g.count("range loop reusing the names of a finished one")
		}
	}
	shadow := ""
	if len(g.rangeKeys) > 0 && r.chance(1, 5) {
		// a nested loop that uses the enclosing loop's key name: the outer loop
		// binds it again at its next iteration
		shadow = g.rangeKeys[len(g.rangeKeys)-1]
		k = shadow
		g.count("nested range loop reusing the enclosing key name")
	}
	var srcs []struct {
		path, kind string
	}
	for _, a := range g.d.arrs {
		srcs = append(srcs, struct{ path, kind string }{"jso." + a.path, a.kind})
	}
	srcs = append(srcs, struct{ path, kind string }{"st.Finance.History", "hist"}, struct{ path, kind string }{"obj.Finance.History", "hist"},
		struct{ path, kind string }{"jso.missing", "int"}, struct{ path, kind string }{"jso.o.nokey", "int"},
		struct{ path, kind string }{"jso.grid", "rows"})
	s := pick(r, srcs)
	// an array of arrays: the inner loop ranges over the bare loop value
	for _, x := range g.rangeVals {
		if x.kind == "rows" && x.name != v && r.chance(2, 3) {
			s = struct{ path, kind string }{x.name, "int"}
			g.count("range over a bare loop value (array in an array)")
		}
	}
	if reused {
		// prefer a source of the other kind (document array <-> struct slice)
		for try := 0; try < 6 && (s.kind == "hist") == (g.lastKind == "hist"); try++ {
			s = pick(r, srcs)
		}
		if (s.kind == "hist") != (g.lastKind == "hist") {
			g.count("range loop reusing names over a source of the other kind")
		}
	}
	form := r.intn(4)
	if shadow != "" && form == 1 {
		form = 0
	}
	switch form {
	case 0:
		g.emit("for " + k + ", " + v + " := range " + s.path + " {")
	case 1:
		g.emit("for _, " + v + " := range " + s.path + " {")
	case 2:
		g.emit("for " + k + " := range " + s.path + " {")
	default:
		g.emit("for " + k + "," + v + " := range " + s.path + " {")
	}
	nk, nv := len(g.rangeKeys), len(g.rangeVals)
	if form != 1 {
		g.rangeKeys = append(g.rangeKeys, k)
	}
	if form != 2 {
		g.rangeVals = append(g.rangeVals, rangeVal{v, s.kind})
	}
	g.loopDepth++
	if g.opts.signals && r.chance(1, 2) {
		g.signal()
	}
	args := []string{strconv.Quote("R" + v)}
	if form != 1 {
		args = append(args, k)
	}
	if form != 2 {
		switch s.kind {
		case "obj":
			args = append(args, v+".id", v)
		case "hist":
			args = append(args, v+".DateUnix", v+".Comment")
		case "rows":
			args = append(args, v+".0")
		default:
			args = append(args, v)
		}
	}
	g.emit("probe(" + strings.Join(args, ", ") + ")")
	if s.kind == "rows" && form != 2 && g.maxDepth > 0 && r.chance(3, 4) {
		g.maxDepth--
		g.rloop()
		g.maxDepth++
	}
	g.block(r.intn(3))
	if g.opts.signals && r.chance(1, 3) {
		g.signal()
	}
	g.loopDepth--
	g.rangeKeys = g.rangeKeys[:nk]
	g.rangeVals = g.rangeVals[:nv]
	g.lastK, g.lastV, g.lastKind = k, v, s.kind
	g.emit("}")
	if shadow != "" {
		g.emit("probe(\"after-shadow\", " + shadow + ")")
	}
	if form != 1 && g.r.chance(1, 3) {
		// the key of a finished loop keeps its value, whatever later loops do
		g.pendingReads = append(g.pendingReads, k)
		g.count("range key read after its loop has finished")
	}
	if len(g.pendingReads) > 0 && g.loopDepth == 0 && g.r.chance(1, 2) {
		g.emit("probe(\"after-loops\", " + strings.Join(g.pendingReads, ", ") + ")")
		g.pendingReads = nil
	}
	g.count("range loop")
}

func defaultStatics(r *prng) []StaticVar {
	return []StaticVar{
		{Name: "ivar", Kind: "i", I: int64(r.intn(100))},
		{Name: "uvar", Kind: "u", U: uint64(r.intn(1000000))},
		{Name: "bvar", Kind: "b", Bo: r.bool()},
		{Name: "svar", Kind: "S", S: pick(r, words)},
		{Name: "fvar", Kind: "f", F: genDec(r)},
	}
}

// genJob produces one job: a program over a fresh document.
func genJob(r *prng, opts genOpts, nstmts, depth int, stats map[string]int) Job {
	d := genDoc(r)
	g := &pgen{r: r, d: d, opts: opts, maxDepth: depth, stats: stats}
	g.statics = defaultStatics(r)
	g.block(nstmts)
	var getv []string
	for _, v := range g.ctxVars {
		getv = append(getv, v.name)
	}
	return Job{Prog: strings.Join(g.lines, "\n") + "\n", doc: d.doc, Statics: g.statics, Fail: -1, GetVars: getv}
}

var allOpts = genOpts{signals: true, userFns: true, loops: true, conds: true, switches: true, ctxvars: true, floats: true}
