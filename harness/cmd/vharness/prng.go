package main

// A small deterministic PRNG (splitmix64); every random choice of a run derives
// from one state seeded with VERIF_SEED, so disagreements replay exactly.
type prng struct{ s uint64 }

func newPRNG(seed int64) *prng { return &prng{s: uint64(seed)*0x9E3779B97F4A7C15 + 0x1234567} }

func (p *prng) next() uint64 {
	p.s += 0x9E3779B97F4A7C15
	z := p.s
	z = (z ^ (z >> 30)) * 0xBF58476D1CE4E5B9
	z = (z ^ (z >> 27)) * 0x94D049BB133111EB
	return z ^ (z >> 31)
}

func (p *prng) intn(n int) int {
	if n <= 0 {
		return 0
	}
	return int(p.next() % uint64(n))
}

func (p *prng) bool() bool { return p.next()&1 == 1 }

func (p *prng) chance(num, den int) bool { return p.intn(den) < num }

func pick[T any](p *prng, xs []T) T { return xs[p.intn(len(xs))] }
