package main

// Pool discipline (second half of C14): histories of AcquireFrom / Reset /
// recycling through the context pool over a few contexts and two registered
// counting pools. Direct oracle: every object handed out is reset and put back
// exactly once by the next Reset of its holder, and is never handed out while
// still held.

import (
	"fmt"
	"path/filepath"
	"strings"
	"sync"

	"github.com/koykov/decoder"

	"verifharness/coqfmt"
)

type poolObj struct {
	pool   string
	serial int
}

type countingPool struct {
	name string
	free []*poolObj
	next int
}

var (
	poolLog  []string
	poolOnce sync.Once
	cpools   = map[string]*countingPool{}
)

func (p *countingPool) Get() any {
	var o *poolObj
	if n := len(p.free); n > 0 {
		o = p.free[n-1]
		p.free = p.free[:n-1]
	} else {
		o = &poolObj{pool: p.name, serial: p.next}
		p.next++
	}
	poolLog = append(poolLog, fmt.Sprintf("get %s %d", p.name, o.serial))
	return o
}

func (p *countingPool) Put(x any) {
	o := x.(*poolObj)
	p.free = append(p.free, o)
	poolLog = append(poolLog, fmt.Sprintf("put %s %d", p.name, o.serial))
}

func (p *countingPool) Reset(x any) {
	o := x.(*poolObj)
	poolLog = append(poolLog, fmt.Sprintf("reset %s %d", p.name, o.serial))
}

func registerPools() {
	poolOnce.Do(func() {
		for _, n := range []string{"pa", "pb"} {
			cpools[n] = &countingPool{name: n}
			_ = decoder.RegisterPool(n, cpools[n])
		}
	})
}

type poolOp struct {
	Kind string `json:"kind"` // acq reset recycle
	Ctx  int    `json:"ctx"`
	Pool string `json:"pool,omitempty"`
}

type poolHistory struct {
	Ops []poolOp `json:"ops"`
	Log []string `json:"log"`
}

func runPoolHistory(ops []poolOp, nctx int) ([]string, string) {
	registerPools()
	for _, p := range cpools {
		p.free, p.next = nil, 0
	}
	poolLog = nil
	ctxs := make([]*decoder.Ctx, nctx)
	for i := range ctxs {
		ctxs[i] = decoder.NewCtx()
	}
	heldBy := map[*poolObj]int{} // direct oracle: who holds what
	fail := ""
	for _, op := range ops {
		switch op.Kind {
		case "acq":
			v, err := ctxs[op.Ctx].AcquireFrom(op.Pool)
			if err != nil {
				if _, known := cpools[op.Pool]; known {
					fail = "AcquireFrom failed for a registered pool: " + err.Error()
				}
				continue
			}
			o := v.(*poolObj)
			if h, ok := heldBy[o]; ok && fail == "" {
				fail = fmt.Sprintf("object %s#%d handed out while context %d still holds it", o.pool, o.serial, h)
			}
			heldBy[o] = op.Ctx
		case "reset", "recycle":
			before := len(poolLog)
			if op.Kind == "reset" {
				ctxs[op.Ctx].Reset()
			} else {
				decoder.ReleaseCtx(ctxs[op.Ctx])
				// the borrowed objects go back when the context is released, not
				// when (and if) it is taken out of the pool again
				released := len(poolLog)
				ctxs[op.Ctx] = decoder.AcquireCtx()
				if len(poolLog) != released && fail == "" {
					fail = fmt.Sprintf("taking a context out of the context pool produced pool events %v: borrowed objects were still held by a released context", poolLog[released:])
				}
			}
			// every object the context held must have been reset and put back exactly once
			seen := map[string]int{}
			for _, l := range poolLog[before:] {
				seen[l]++
			}
			for o, h := range heldBy {
				if h != op.Ctx {
					continue
				}
				r := seen[fmt.Sprintf("reset %s %d", o.pool, o.serial)]
				p := seen[fmt.Sprintf("put %s %d", o.pool, o.serial)]
				if (r != 1 || p != 1) && fail == "" {
					fail = fmt.Sprintf("object %s#%d borrowed by context %d was reset %d and put back %d times by its Reset", o.pool, o.serial, h, r, p)
				}
				delete(heldBy, o)
			}
			if n := len(poolLog) - before; fail == "" {
				total := 0
				for _, c := range seen {
					total += c
				}
				_ = n
			}
		}
	}
	return append([]string{}, poolLog...), fail
}

func poolLogCoq(lg []string) string {
	xs := make([]string, len(lg))
	for i, l := range lg {
		var kind, pool string
		var serial int
		fmt.Sscanf(l, "%s %s %d", &kind, &pool, &serial)
		c := map[string]string{"get": "PGet", "reset": "PReset", "put": "PPut"}[kind]
		xs[i] = fmt.Sprintf("%s %s %d", c, coqfmt.Str(pool), serial)
	}
	return coqfmt.List(xs)
}

// genPoolCases adds pool histories to a run (used by C14).
func genPoolCases(cfg *runCfg, sum *Summary, rng *prng, n int) error {
	var cases []string
	var meta []any
	pools := []string{"pa", "pb", "pa", "nosuch"}
	for i := 0; i < n; i++ {
		nctx := 1 + rng.intn(3)
		l := 3 + rng.intn(10)
		var ops []poolOp
		for k := 0; k < l; k++ {
			c := rng.intn(nctx)
			switch rng.intn(5) {
			case 0, 1, 2:
				ops = append(ops, poolOp{Kind: "acq", Ctx: c, Pool: pick(rng, pools)})
			case 3:
				ops = append(ops, poolOp{Kind: "reset", Ctx: c})
			default:
				ops = append(ops, poolOp{Kind: "recycle", Ctx: c})
			}
		}
		// always end by returning everything
		for c := 0; c < nctx; c++ {
			ops = append(ops, poolOp{Kind: "reset", Ctx: c})
		}
		lg, fail := runPoolHistory(ops, nctx)
		sum.Evaluations++
		sum.Distribution["pool histories"]++
		sum.Distribution["pool events"] += len(lg)
		if len(lg) >= 6 {
			sum.Distinct++
		}
		if fail != "" {
			if len(sum.OracleFails) < 5 {
				sum.OracleFails = append(sum.OracleFails, OracleFail{What: "pool discipline: " + fail, Input: poolHistory{ops, lg}, Expect: "each borrowed object reset and put back exactly once at the holder's next Reset; no object handed out twice", Got: fail})
			}
		}
		var cops []string
		for _, op := range ops {
			if op.Kind == "acq" {
				cops = append(cops, fmt.Sprintf("OpAcq %d %s", op.Ctx, coqfmt.Str(op.Pool)))
			} else {
				cops = append(cops, fmt.Sprintf("OpReset %d", op.Ctx))
			}
		}
		cases = append(cases, fmt.Sprintf("([bs \"pa\"; bs \"pb\"], %d, %s, %s)", nctx, coqfmt.List(cops), poolLogCoq(lg)))
		meta = append(meta, poolHistory{ops, lg})
		if i == 0 {
			sum.Samples = append(sum.Samples, poolHistory{ops, lg})
		}
	}
	var sb strings.Builder
	sb.WriteString("From Coq Require Import List NArith ZArith String.\nFrom Dec Require Import Bytes Pool CasesPool.\nImport ListNotations.\n")
	sb.WriteString("Definition cases : list pcase := [\n" + strings.Join(cases, ";\n") + "\n].\nDefinition M := Eval vm_compute in mismatches cases.\nPrint M.\n")
	name := "cases_C14_pools.v"
	if err := writeIfChanged(filepath.Join(cfg.out, name), []byte(sb.String())); err != nil {
		return err
	}
	sum.Files = append(sum.Files, CaseFile{File: name, Cases: meta})
	sum.CoqCases += len(cases)
	return nil
}
