// sctest generates differential test cases for the Coq model files
// theories/Strconv.v and theories/Crc.v: it runs the real Go functions
// (strconv, regexp, hash/crc32, hash/crc64, integer conversions) on
// exhaustive, boundary and random inputs and writes a Coq file that
// recomputes every result with the model and collects the disagreements
// in `mism`.
package main

import (
	"bufio"
	"errors"
	"flag"
	"fmt"
	"hash/crc32"
	"hash/crc64"
	"math"
	"math/rand"
	"os"
	"regexp"
	"strconv"
	"strings"
)

var (
	reInt   = regexp.MustCompile(`^[-+]?\d+$`)
	reUint  = regexp.MustCompile(`^[+]?\d+$`)
	reFloat = regexp.MustCompile(`^[-+]?\d*\.?\d+([eE][-+]?\d+)?$`)
	isoTab  = crc64.MakeTable(crc64.ISO)
)

const chunk = 400

type gen struct {
	w       *bufio.Writer
	idx     int // next case index
	inChunk int
	nChunk  int
	checks  int // number of individual model/Go comparisons
}

func (g *gen) emit(entry string, checks int) {
	if g.inChunk == 0 {
		fmt.Fprintf(g.w, "Definition ch%d : list (N * list N) := Eval vm_compute in bad [\n", g.nChunk)
	} else {
		g.w.WriteString(";\n")
	}
	fmt.Fprintf(g.w, "(%d, %s)", g.idx, entry)
	g.idx++
	g.inChunk++
	g.checks += checks
	if g.inChunk == chunk {
		g.closeChunk()
	}
}

func (g *gen) closeChunk() {
	if g.inChunk == 0 {
		return
	}
	g.w.WriteString("].\n")
	g.inChunk = 0
	g.nChunk++
}

// coqBytes renders a byte string as a Coq term of type bytes.
func coqBytes(b []byte) string {
	printable := true
	for _, c := range b {
		if c < 32 || c > 126 {
			printable = false
			break
		}
	}
	if printable {
		return `(bs "` + strings.ReplaceAll(string(b), `"`, `""`) + `")`
	}
	var sb strings.Builder
	sb.WriteString("[")
	for i, c := range b {
		if i > 0 {
			sb.WriteString(";")
		}
		sb.WriteString(strconv.Itoa(int(c)))
	}
	sb.WriteString("]")
	return sb.String()
}

func resI(v int64, err error) string {
	return res(strconv.FormatInt(v, 10), err)
}
func resU(v uint64, err error) string {
	return res(strconv.FormatUint(v, 10), err)
}
func res(v string, err error) string {
	switch {
	case err == nil:
		return "(V (" + v + ")%Z)"
	case errors.Is(err, strconv.ErrSyntax):
		return "ES"
	case errors.Is(err, strconv.ErrRange):
		return "ER"
	}
	panic(err)
}

func coqBool(b bool) string {
	if b {
		return "true"
	}
	return "false"
}

// strCase: all eight string functions on one input.
func (g *gen) strCase(s string) {
	b := []byte(s)
	pb := "None"
	if v, err := strconv.ParseBool(s); err == nil {
		pb = "(Some " + coqBool(v) + ")"
	}
	g.emit(fmt.Sprintf("sc %s %s %s %s %s %s %s %s %s", coqBytes(b),
		resI(strconv.ParseInt(s, 10, 64)),
		resU(strconv.ParseUint(s, 10, 64)),
		resI(strconv.ParseInt(s, 0, 0)),
		resU(strconv.ParseUint(s, 0, 0)),
		pb,
		coqBool(reInt.Match(b)), coqBool(reUint.Match(b)), coqBool(reFloat.Match(b))), 8)
}

func (g *gen) fmtInt(v int64) {
	s := strconv.FormatInt(v, 10)
	if s2 := string(strconv.AppendInt(nil, v, 10)); s2 != s {
		panic("AppendInt differs")
	}
	g.emit(fmt.Sprintf("fi (%d)%%Z %s", v, coqBytes([]byte(s))), 1)
}

func (g *gen) fmtUint(v uint64) {
	s := strconv.FormatUint(v, 10)
	g.emit(fmt.Sprintf("fu (%d)%%Z %s", v, coqBytes([]byte(s))), 1)
}

func (g *gen) crc(b []byte) {
	g.emit(fmt.Sprintf("cc %s %d %d", coqBytes(b), crc32.ChecksumIEEE(b), crc64.Checksum(b, isoTab)), 2)
}

func (g *gen) wrapI(v int64) {
	g.emit(fmt.Sprintf("wr (%d)%%Z (%d)%%Z (%d)%%Z (%d)%%Z (%d)%%Z (%d)%%Z (%d)%%Z (%d)%%Z (%d)%%Z",
		v, int8(v), int16(v), int32(v), int64(v), uint8(v), uint16(v), uint32(v), uint64(v)), 8)
}

func (g *gen) wrapU(v uint64) {
	g.emit(fmt.Sprintf("wr (%d)%%Z (%d)%%Z (%d)%%Z (%d)%%Z (%d)%%Z (%d)%%Z (%d)%%Z (%d)%%Z (%d)%%Z",
		v, int8(v), int16(v), int32(v), int64(v), uint8(v), uint16(v), uint32(v), uint64(v)), 8)
}

const alphabet = "019+-.eE_xbo atT"

var boundaryStrings = []string{
	"", "0", "-0", "+0", "00", "007", "-007", "+1", "-1", "--1", "+-1", "-+1", "++1", "+", "-",
	"9223372036854775806", "9223372036854775807", "9223372036854775808", "9223372036854775809",
	"-9223372036854775807", "-9223372036854775808", "-9223372036854775809", "+9223372036854775807", "+9223372036854775808",
	"18446744073709551614", "18446744073709551615", "18446744073709551616", "18446744073709551617",
	"-18446744073709551615", "-18446744073709551616", "+18446744073709551615", "+18446744073709551616",
	"1844674407370955161", "18446744073709551609", "18446744073709551610", "18446744073709551620", "184467440737095516150",
	"184467440737095516159", "99999999999999999999", "100000000000000000000", "99999999999999999999999999999999999999",
	"000000000000000000000000000000000001", "0000000000000000000018446744073709551615", "0000000000000000000018446744073709551616",
	"00000000000000000009223372036854775807", "-00000000000000000009223372036854775808", "-00000000000000000009223372036854775809",
	"99999999999999999999999x", "9999999999999999999x", "99999999999999999999_", "_99999999999999999999", "999999999999999999999_9", "9_9999999999999999999999",
	"99999999999999999999 ", "1x", "x1", "1 ", " 1", "1\n", "\n1", "1\x00", "\x001", "1\xff", "\xb1", "\xb12",
	"١", "1٢", "１", "1.0", "1e3", "1E3", "0x1F", "0X1f", "0x1G", "0xg", "0x", "0X", "0b", "0B", "0o", "0O", "0b101", "0B101", "0b102", "0b2",
	"0o17", "0O17", "0o18", "0o8", "017", "018", "08", "0_17", "0_8", "0_", "_0", "0__1", "0_1_7", "1_000", "1_000_000", "1_", "_1", "1__0", "1_0_",
	"0x_1", "0X_1", "0x_", "0x__1", "0x1_", "0x1_F", "0x1__F", "0xF_f", "0x_G", "0b_1", "0b_", "0b1_0", "0b__1", "0o_7", "0o_", "0o7_7", "0o7__7",
	"+0x1F", "-0x1F", "+0b101", "-0b101", "-0o17", "+017", "-017", "-0", "-0x0", "-0x", "+0x", "+_1", "-_1", "+1_0", "-1_0", "+0x_1", "-0x_1", "-0_1", "+0_", "-_",
	"_", "__", "0x_1_", "1_a", "a_1", "1_x", "0xa_g", "0xA_B_C", "0b1_a", "0xx1", "00x1", "0x0x1", "0b0b1", "0o0o1", "0xb1", "0bx1", "0b1x", "0ob", "0xo",
	"0x7FFFFFFFFFFFFFFF", "0x8000000000000000", "-0x8000000000000000", "-0x8000000000000001", "0xFFFFFFFFFFFFFFFF", "0x10000000000000000", "0xffff_ffff_ffff_ffff", "0x1_0000_0000_0000_0000",
	"0x00000000000000000000FFFFFFFFFFFFFFFF", "0xFFFFFFFFFFFFFFFFF", "0xFFFFFFFFFFFFFFFFg", "0xFFFFFFFFFFFFFFFFFg", "0xFFFFFFFFFFFFFFFFF_",
	"0777777777777777777777", "01777777777777777777777", "02000000000000000000000", "01000000000000000000000", "-01000000000000000000000", "-01000000000000000000001",
	"0o1777777777777777777777", "0o2000000000000000000000", "0o777777777777777777777", "0o1000000000000000000000",
	"0b1111111111111111111111111111111111111111111111111111111111111111", "0b10000000000000000000000000000000000000000000000000000000000000000",
	"0b111111111111111111111111111111111111111111111111111111111111111", "0b1000000000000000000000000000000000000000000000000000000000000000",
	"-0b1000000000000000000000000000000000000000000000000000000000000000", "-0b1000000000000000000000000000000000000000000000000000000000000001",
	"9_223_372_036_854_775_807", "9_223_372_036_854_775_808", "-9_223_372_036_854_775_808", "18_446_744_073_709_551_615", "18_446_744_073_709_551_616", "18_446_744_073_709_551_616_", "18__446_744_073_709_551_616",
	"1", "t", "T", "TRUE", "true", "True", "0", "f", "F", "FALSE", "false", "False", "tRUE", "TRue", "truE", "true ", " true", "tru", "truee", "fALSE", "FAlse", "falsE", "fals", "falsee", "yes", "no", "on", "off", "2", "01", "10", "tt", "ff", "nil",
	".", ".5", "5.", "5.5", "-.5", "+.5", "-5.", "..5", ".5.", "5..5", "5.5.5", "1e5", "1E5", "1e+5", "1e-5", "1e", "1e+", "1e-", "e5", ".e5", "1.e5", ".1e5", "1.1e5", "1.1e5.", "1.1e5e5", "1.1e5.5",
	"1.1E-05", "-1.1e+5", "+1.1e+5", "1.1e++5", "1.1e+-5", "1e5 ", " 1e5", "1e5\n", "1.5\n", "1\n", "\n", "-", "+", "-e5", "+.e5", "-.", "+.", "1-", "1+", "1.+5", "1e.5", "1ee5", "1eE5", "1Ee5",
	"0.0", "00.00", "-00.00e00", "1.1١", "١.1", "1.1e١", "inf", "Inf", "NaN", "nan", "0x1p-2", "1_0.5", "1.5_0", "1e1_0",
	"123456789012345678901234567890.123456789012345678901234567890e123456789012345678901234567890",
}

func main() {
	seed := flag.Int64("seed", 1, "random seed")
	n := flag.Int("n", 4000, "number of random inputs per family")
	out := flag.String("o", "Cases.v", "output Coq file")
	flag.Parse()
	rng := rand.New(rand.NewSource(*seed))

	f, err := os.Create(*out)
	if err != nil {
		panic(err)
	}
	defer f.Close()
	g := &gen{w: bufio.NewWriterSize(f, 1<<20)}
	g.w.WriteString(header)

	// 1. every string up to length 3 over the alphabet
	g.strCase("")
	for _, a := range alphabet {
		g.strCase(string(a))
	}
	for _, a := range alphabet {
		for _, b := range alphabet {
			g.strCase(string(a) + string(b))
		}
	}
	for _, a := range alphabet {
		for _, b := range alphabet {
			for _, c := range alphabet {
				g.strCase(string(a) + string(b) + string(c))
			}
		}
	}
	// 2. boundary strings
	for _, s := range boundaryStrings {
		g.strCase(s)
	}
	// 3. random strings
	for i := 0; i < *n; i++ {
		g.strCase(randString(rng))
	}

	// formatters
	i64s := []int64{0, 1, -1, 9, 10, -9, -10, 99, 100, -99, -100, math.MaxInt64, math.MinInt64, math.MaxInt64 - 1, math.MinInt64 + 1,
		math.MaxInt32, math.MinInt32, math.MaxInt32 + 1, math.MinInt32 - 1, 999999999999999999, 1000000000000000000, -999999999999999999, -1000000000000000000}
	for p, k := int64(1), 0; k < 18; k++ {
		p *= 10
		i64s = append(i64s, p, p-1, p+1, -p, -p+1, -p-1)
	}
	for _, v := range i64s {
		g.fmtInt(v)
		g.wrapI(v)
	}
	u64s := []uint64{0, 1, 9, 10, 99, 100, math.MaxUint64, math.MaxUint64 - 1, math.MaxInt64, math.MaxInt64 + 1, math.MaxUint32, math.MaxUint32 + 1, 9999999999999999999, 10000000000000000000}
	for p, k := uint64(1), 0; k < 19; k++ {
		p *= 10
		u64s = append(u64s, p, p-1, p+1)
	}
	for _, v := range u64s {
		g.fmtUint(v)
		g.wrapU(v)
	}
	for i := 0; i < *n; i++ {
		g.fmtInt(randI64(rng))
		g.fmtUint(uint64(randI64(rng)))
	}
	for i := 0; i < *n/4; i++ {
		g.wrapI(randI64(rng))
		g.wrapU(uint64(randI64(rng)))
	}

	// CRCs
	g.crc(nil)
	g.crc([]byte("123456789"))
	for i := 0; i < *n/4; i++ {
		b := make([]byte, rng.Intn(201))
		rng.Read(b)
		g.crc(b)
	}
	for l := 0; l <= 200; l++ {
		b := make([]byte, l)
		rng.Read(b)
		g.crc(b)
	}

	g.closeChunk()
	g.w.WriteString("Definition mism : list (N * list N) := Eval vm_compute in (")
	for i := 0; i < g.nChunk; i++ {
		fmt.Fprintf(g.w, "ch%d ++ ", i)
		if i%10 == 9 {
			g.w.WriteString("\n")
		}
	}
	g.w.WriteString("[]).\nPrint mism.\n")
	if err := g.w.Flush(); err != nil {
		panic(err)
	}
	fmt.Printf("cases=%d checks=%d chunks=%d\n", g.idx, g.checks, g.nChunk)
}

// randI64 returns an int64 with a random bit length so that short and long
// values are both common.
func randI64(rng *rand.Rand) int64 {
	v := rng.Uint64()
	v >>= uint(rng.Intn(64))
	if rng.Intn(8) == 0 {
		// near a power of two or ten
		switch rng.Intn(3) {
		case 0:
			v = uint64(1)<<uint(rng.Intn(64)) + uint64(rng.Intn(5)) - 2
		case 1:
			p := uint64(1)
			for k := rng.Intn(20); k > 0; k-- {
				p *= 10
			}
			v = p + uint64(rng.Intn(5)) - 2
		case 2:
			v = math.MaxUint64 - uint64(rng.Intn(4))
		}
	}
	if rng.Intn(2) == 0 {
		return -int64(v)
	}
	return int64(v)
}

func randString(rng *rand.Rand) string {
	const weighted = "00011123456789999+-.eE_xXbBoO atTfFaAcdgz\n"
	pick := func() byte { return weighted[rng.Intn(len(weighted))] }
	var s string
	switch rng.Intn(9) {
	case 0: // random soup
		l := rng.Intn(25)
		b := make([]byte, l)
		for i := range b {
			b[i] = pick()
		}
		return string(b)
	case 1, 2: // a number in some base, maybe with prefix/sign/underscores
		v := uint64(randI64(rng))
		base := []int{10, 10, 2, 8, 16, 0}[rng.Intn(6)]
		switch base {
		case 10:
			s = strconv.FormatUint(v, 10)
		case 2:
			s = []string{"0b", "0B"}[rng.Intn(2)] + strconv.FormatUint(v, 2)
		case 8:
			s = []string{"0o", "0O", "0"}[rng.Intn(3)] + strconv.FormatUint(v, 8)
		case 16:
			s = []string{"0x", "0X"}[rng.Intn(2)] + strconv.FormatUint(v, 16)
			if rng.Intn(2) == 0 {
				s = s[:2] + strings.ToUpper(s[2:])
			}
		case 0: // more digits than fit
			s = strconv.FormatUint(v, 10) + strconv.Itoa(rng.Intn(1000))
		}
		if rng.Intn(3) == 0 {
			s = strings.Repeat("0", rng.Intn(4)) + s
		}
		switch rng.Intn(4) {
		case 0:
			s = "-" + s
		case 1:
			s = "+" + s
		}
		for k := rng.Intn(4); k > 0 && rng.Intn(2) == 0; k-- {
			p := rng.Intn(len(s) + 1)
			s = s[:p] + "_" + s[p:]
		}
	case 3: // close to the int64 / uint64 limits, base 10
		d := uint64(rng.Intn(21)) - 10
		switch rng.Intn(4) {
		case 0:
			s = strconv.FormatUint(uint64(1)<<63+d, 10)
		case 1:
			s = "-" + strconv.FormatUint(uint64(1)<<63+d, 10)
		case 2:
			s = strconv.FormatUint(math.MaxUint64-uint64(rng.Intn(10)), 10)
		case 3: // 2^64 + small, written out
			s = "1844674407370955" + strconv.Itoa(1616+rng.Intn(40)-20)
		}
		if rng.Intn(3) == 0 {
			s = "+" + s
		}
	case 4, 5: // float-ish
		fv := math.Float64frombits(rng.Uint64())
		if rng.Intn(2) == 0 {
			fv = rng.NormFloat64() * math.Pow(10, float64(rng.Intn(12)-4))
		}
		s = strconv.FormatFloat(fv, "eEfgG"[rng.Intn(5)], rng.Intn(8)-1, 64)
		if rng.Intn(4) == 0 {
			s = "+" + s
		}
		if rng.Intn(6) == 0 && len(s) > 0 && s[0] != '-' && s[0] != '+' && s[0] == '0' {
			s = s[1:] // ".5" form
		}
	case 6: // bool words
		words := []string{"1", "t", "T", "TRUE", "true", "True", "0", "f", "F", "FALSE", "false", "False"}
		s = words[rng.Intn(len(words))]
	case 7: // plain digits, any length
		l := 1 + rng.Intn(30)
		b := make([]byte, l)
		for i := range b {
			b[i] = byte('0' + rng.Intn(10))
		}
		s = string(b)
		if rng.Intn(3) == 0 {
			s = "-" + s
		}
	case 8: // arbitrary bytes, short
		b := make([]byte, rng.Intn(6))
		rng.Read(b)
		return string(b)
	}
	// mutate
	if rng.Intn(3) == 0 && len(s) > 0 {
		b := []byte(s)
		p := rng.Intn(len(b))
		switch rng.Intn(4) {
		case 0:
			b[p] = pick()
		case 1:
			b = append(b[:p], b[p+1:]...)
		case 2:
			b = append(b[:p], append([]byte{pick()}, b[p:]...)...)
		case 3:
			b[p] = byte(rng.Intn(256))
		}
		s = string(b)
	}
	return s
}

const header = `(* generated by harness/cmd/sctest -- do not edit *)
From Coq Require Import List NArith ZArith String Bool.
From Dec Require Import Bytes Strconv Crc.
Import ListNotations.
Open Scope string_scope.
Open Scope N_scope.

Definition V (z : Z) : Z + perr := inl z.
Definition ES : Z + perr := inr ESyntax.
Definition ER : Z + perr := inr ERange.

Definition res_eqb (a b : Z + perr) : bool :=
  match a, b with
  | inl x, inl y => Z.eqb x y
  | inr ESyntax, inr ESyntax => true
  | inr ERange, inr ERange => true
  | _, _ => false
  end.
Definition ob_eqb (a b : option bool) : bool :=
  match a, b with
  | Some x, Some y => Bool.eqb x y
  | None, None => true
  | _, _ => false
  end.
Definition ck (code : N) (ok : bool) : list N := if ok then [] else [code].

(* string case: codes 1..8 = ParseInt10, ParseUint10, ParseInt0, ParseUint0,
   ParseBool, int regexp, uint regexp, float regexp *)
Definition sc (s : bytes) (a b c d : Z + perr) (pb : option bool) (ri ru rf : bool) : list N :=
  ck 1 (res_eqb (parse_int10 s) a) ++ ck 2 (res_eqb (parse_uint10 s) b) ++
  ck 3 (res_eqb (parse_int0 s) c) ++ ck 4 (res_eqb (parse_uint0 s) d) ++
  ck 5 (ob_eqb (parse_bool s) pb) ++ ck 6 (Bool.eqb (is_int_re s) ri) ++
  ck 7 (Bool.eqb (is_uint_re s) ru) ++ ck 8 (Bool.eqb (is_float_re s) rf).
(* FormatInt (9), FormatUint (10) *)
Definition fi (z : Z) (e : bytes) : list N := ck 9 (bytes_eqb (format_int z) e).
Definition fu (z : Z) (e : bytes) : list N := ck 10 (bytes_eqb (format_uint z) e).
(* crc32 (11), crc64 (12) *)
Definition cc (s : bytes) (e32 e64 : N) : list N :=
  ck 11 (N.eqb (crc32_ieee s) e32) ++ ck 12 (N.eqb (crc64_iso s) e64).
(* conversions: codes 13..20 = int8 int16 int32 int64 uint8 uint16 uint32 uint64 *)
Definition wr (z i8 i16 i32 i64 u8 u16 u32 u64 : Z) : list N :=
  ck 13 (Z.eqb (wrap_int 8 z) i8) ++ ck 14 (Z.eqb (wrap_int 16 z) i16) ++
  ck 15 (Z.eqb (wrap_int 32 z) i32) ++ ck 16 (Z.eqb (wrap_int 64 z) i64) ++
  ck 17 (Z.eqb (wrap_uint 8 z) u8) ++ ck 18 (Z.eqb (wrap_uint 16 z) u16) ++
  ck 19 (Z.eqb (wrap_uint 32 z) u32) ++ ck 20 (Z.eqb (wrap_uint 64 z) u64).

Definition bad (l : list (N * list N)) : list (N * list N) :=
  filter (fun p => match snd p with [] => false | _ => true end) l.

`
