// Command retest is the differential test of the Coq regex matcher
// (Dec.Regex) against Go's regexp package.
//
// It extracts the decoder's regular expressions, adds a few historical and
// synthetic patterns, generates inputs (fixture lines, mutations, token soup,
// strings derived from the expression itself), records Go's
// FindSubmatchIndex for each and writes Coq files that recompute every case
// with re_exec and print the indices that disagree.
//
//	-out DIR/generated/Regexes.v   the translated expressions
//	-out DIR/cases/RetestLib.v     comparison helpers
//	-out DIR/cases/Cases_NNN.v     shards; each prints `mism`
//	-out DIR/cases/index.txt       case number -> regex, input, expectation
//
// With -emit FILE only Regexes.v for the repository's own expressions is
// written (no extras, no cases).
package main

import (
	"bytes"
	"flag"
	"fmt"
	"math/rand"
	"os"
	"path/filepath"
	"regexp"
	"regexp/syntax"
	"sort"
	"strings"
	"unicode/utf8"

	"verifharness/retrans"
)

// Patterns the repository used before its repairs, and synthetic ones that
// exercise corners of the engine (empty-width loops, UTF-8, case folding).
var extras = []struct{ name, pat string }{
	{"xHistLoopCount", `for (\w*)\s*:*=\s*(\w+)\s*;\s*\w+\s*(<|<=|>|>=|!=)+\s*([^;]+)\s*;\s*\w*(--|\+\+)+\s*\{`},
	{"xHistSwitchCase", `case ([^<=>!]+)([<=>!]{2})*(.*):`},
	{"xNullStar", `(a*)*b`},
	{"xNullStarAlt", `(a|b*)*c`},
	{"xNullStarQ", `(a?b?)*c`},
	{"xNullPlus", `(a*)+`},
	{"xNullPlusB", `x(a*|b)+y`},
	{"xEmptyAltStar", `(|a)*`},
	{"xEmptyAltPlus", `(|a)+b`},
	{"xAltEmptyStar", `(a|)*b`},
	{"xLastIter", `((a)|b)*`},
	{"xLastIter2", `(?:(a)|(b)|c)+`},
	{"xNested", `((a*)(b*))*c`},
	{"xNested2", `((a*)*|b)*c`},
	{"xRepeat", `(a{0,2})*b{2,3}`},
	{"xDot", `a.c`},
	{"xDotS", `(?s)a.c`},
	{"xNegClass", `[^\x{e9}]`},
	{"xRuneErr", `a\x{FFFD}+`},
	{"xUni", `(\x{e9}|\x{17f})+\x{212a}*`},
	{"xFold", `(?i)(k+)(s*)stra\x{df}e`},
	{"xFoldClass", `(?i)[a-c]+[^k]`},
	{"xAnchors", `^$`},
	{"xEnd", `a*$`},
	{"xBeginMid", `a^b|c`},
	{"xEmpty", ``},
	{"xQuest", `(a*)?(b?)?c`},
	{"xWide", `[\x{10000}-\x{10FFFF}]+|[\x{800}-\x{FFFF}]`},
}

var tokens = []string{
	"if", "for", "range", ":=", "==", "<=", ">=", "!=", "<", ">", "=", "{", "}", "(", ")", "|", ".", ",", ";", "?", ":",
	`"`, "'", "`", " ", " ", " ", "\t", "\n", "case ", "default", "switch", "else", "as", "ctx.", "context.", "break ", "lazybreak ",
	"&&", "||", "!", "++", "--", "::", "[", "]", "\\", "_", "-", "+", "*", ".{", ".(", "^", "$",
	"x", "ok", "src", "dst", "user", "Id", "i", "k", "s", "K", "S", "a", "b", "c", "y", "0", "1", "42", "3.14", "true", "false", "nil",
	"\u00e9", "\u017f", "\u212a", "\u00df", "\u1e9e", "\u044f", "\u20ac", "\U0001F600", "\ufffd",
	"\xff", "\xc3", "\xe2\x82", "\xf0\x9f", "\x80", "\xed\xa0\x80", "\xc0\xaf", "\xf4\x90\x80\x80", "\x00",
}

type tcase struct {
	re    int
	input []byte
	want  []int
}

type gen struct {
	rnd   *rand.Rand
	lines [][]byte
}

func (g *gen) tok() string { return tokens[g.rnd.Intn(len(tokens))] }

func (g *gen) soup() []byte {
	n := g.rnd.Intn(12)
	var b []byte
	for i := 0; i < n; i++ {
		b = append(b, g.tok()...)
	}
	return b
}

func (g *gen) line() []byte {
	if len(g.lines) == 0 {
		return g.soup()
	}
	return g.lines[g.rnd.Intn(len(g.lines))]
}

func (g *gen) mutate(in []byte) []byte {
	b := append([]byte(nil), in...)
	for k := 1 + g.rnd.Intn(3); k > 0; k-- {
		pos := 0
		if len(b) > 0 {
			pos = g.rnd.Intn(len(b) + 1)
		}
		switch g.rnd.Intn(8) {
		case 0: // delete a byte
			if pos < len(b) {
				b = append(b[:pos:pos], b[pos+1:]...)
			}
		case 1, 2: // insert a token
			b = append(b[:pos:pos], append([]byte(g.tok()), b[pos:]...)...)
		case 3: // replace a byte
			if pos < len(b) {
				b[pos] = byte(g.rnd.Intn(256))
			}
		case 4: // splice with another line
			o := g.line()
			cut := 0
			if len(o) > 0 {
				cut = g.rnd.Intn(len(o) + 1)
			}
			if g.rnd.Intn(2) == 0 {
				b = append(b[:pos:pos], o[cut:]...)
			} else {
				b = append(append([]byte(nil), o[:cut]...), b[pos:]...)
			}
		case 5: // duplicate a stretch
			if pos < len(b) {
				end := pos + 1 + g.rnd.Intn(len(b)-pos)
				seg := append([]byte(nil), b[pos:end]...)
				b = append(b[:end:end], append(seg, b[end:]...)...)
			}
		case 6: // truncate
			b = b[:pos]
		case 7: // flip letter case
			if pos < len(b) && (b[pos]|0x20) >= 'a' && (b[pos]|0x20) <= 'z' {
				b[pos] ^= 0x20
			}
		}
	}
	if len(b) > 160 {
		b = b[:160]
	}
	return b
}

var classPool = []rune(" \tabcxyzkKsS019_.,;:=<>!(){}[]|\\\"'`?-+*&\nAZ\u00e9\u017f\u212a\u00df\u044f\u20ac\U0001F600\ufffd")

// fromRegex produces a string biased towards matching re.
func (g *gen) fromRegex(re *syntax.Regexp, b []byte) []byte {
	reps := func(min int) int {
		n := min + g.rnd.Intn(3)
		if g.rnd.Intn(10) == 0 {
			n += 4
		}
		return n
	}
	switch re.Op {
	case syntax.OpLiteral:
		for _, r := range re.Rune {
			if re.Flags&syntax.FoldCase != 0 {
				orb := retrans.FoldOrbit(r)
				i := 2 * g.rnd.Intn(len(orb)/2)
				r = orb[i] + rune(g.rnd.Intn(int(orb[i+1]-orb[i])+1))
			}
			b = utf8.AppendRune(b, r)
		}
	case syntax.OpCharClass, syntax.OpAnyCharNotNL, syntax.OpAnyChar:
		in := func(r rune) bool {
			switch re.Op {
			case syntax.OpAnyChar:
				return true
			case syntax.OpAnyCharNotNL:
				return r != '\n'
			}
			for i := 0; i+1 < len(re.Rune); i += 2 {
				if re.Rune[i] <= r && r <= re.Rune[i+1] {
					return true
				}
			}
			return false
		}
		for try := 0; try < 8; try++ {
			r := classPool[g.rnd.Intn(len(classPool))]
			if in(r) {
				return utf8.AppendRune(b, r)
			}
		}
		if re.Op == syntax.OpCharClass && len(re.Rune) >= 2 {
			i := 2 * g.rnd.Intn(len(re.Rune)/2)
			span := int(re.Rune[i+1] - re.Rune[i])
			if span > 64 {
				span = 64
			}
			return utf8.AppendRune(b, re.Rune[i]+rune(g.rnd.Intn(span+1)))
		}
		b = append(b, 'q')
	case syntax.OpCapture:
		b = g.fromRegex(re.Sub[0], b)
	case syntax.OpStar:
		for n := reps(0); n > 0; n-- {
			b = g.fromRegex(re.Sub[0], b)
		}
	case syntax.OpPlus:
		for n := reps(1); n > 0; n-- {
			b = g.fromRegex(re.Sub[0], b)
		}
	case syntax.OpQuest:
		if g.rnd.Intn(2) == 0 {
			b = g.fromRegex(re.Sub[0], b)
		}
	case syntax.OpConcat:
		for _, s := range re.Sub {
			b = g.fromRegex(s, b)
		}
	case syntax.OpAlternate:
		b = g.fromRegex(re.Sub[g.rnd.Intn(len(re.Sub))], b)
	}
	return b
}

func fixtureLines(repo string) ([][]byte, error) {
	var files []string
	err := filepath.Walk(filepath.Join(repo, "testdata"), func(p string, fi os.FileInfo, err error) error {
		if err != nil {
			return err
		}
		if !fi.IsDir() && strings.HasSuffix(p, ".dec") {
			files = append(files, p)
		}
		return nil
	})
	if err != nil {
		return nil, err
	}
	sort.Strings(files)
	seen := map[string]bool{}
	var out [][]byte
	add := func(l []byte) {
		if len(l) > 0 && len(l) <= 160 && !seen[string(l)] {
			seen[string(l)] = true
			out = append(out, append([]byte(nil), l...))
		}
	}
	for _, f := range files {
		raw, err := os.ReadFile(f)
		if err != nil {
			return nil, err
		}
		for _, l := range bytes.Split(raw, []byte("\n")) {
			add(l)
			add(bytes.TrimSpace(l))
			if i := bytes.IndexByte(l, ';'); i >= 0 {
				add(bytes.TrimSpace(l[i+1:]))
			}
		}
	}
	return out, nil
}

func coqExpect(w []int) string {
	if w == nil {
		return "None"
	}
	var b strings.Builder
	b.WriteString("Some [")
	for i := 0; i+1 < len(w); i += 2 {
		if i > 0 {
			b.WriteString(";")
		}
		if w[i] < 0 {
			b.WriteString("None")
		} else {
			fmt.Fprintf(&b, "Some (%d,%d)", w[i], w[i+1])
		}
	}
	b.WriteString("]")
	return b.String()
}

const lib = `(* Generated by verifharness/cmd/retest. *)
From Coq Require Import List NArith Bool Arith.
From Dec Require Import Bytes Regex.
Import ListNotations.

Definition og_eqb (a b : option (nat * nat)) : bool :=
  match a, b with
  | None, None => true
  | Some (i, j), Some (i', j') => Nat.eqb i i' && Nat.eqb j j'
  | _, _ => false
  end.

Fixpoint gs_eqb (a b : list (option (nat * nat))) : bool :=
  match a, b with
  | [], [] => true
  | x :: a', y :: b' => og_eqb x y && gs_eqb a' b'
  | _, _ => false
  end.

Definition og_slice_ok (s : bytes) (g : option (nat * nat)) (x : bytes) : bool :=
  match g with
  | Some (i, j) => bytes_eqb x (firstn (j - i) (skipn i s))
  | None => bytes_eqb x []
  end.

Fixpoint sub_ok (s : bytes) (gs : list (option (nat * nat))) (xs : list bytes) : bool :=
  match gs, xs with
  | [], [] => true
  | g :: gs', x :: xs' => og_slice_ok s g x && sub_ok s gs' xs'
  | _, _ => false
  end.

(* re_exec must agree with Go (out of fuel counts as a mismatch), and
   re_find / re_match / re_submatch must be consistent with it. *)
Definition case_ok (r : re) (n : nat) (s : bytes)
    (e : option (list (option (nat * nat)))) : bool :=
  match re_exec r n s, e with
  | MOk c, Some d =>
      gs_eqb c d && re_match r n s &&
      match re_find r n s with Some c' => gs_eqb c' d | None => false end &&
      match re_submatch r n s with Some xs => sub_ok s d xs | None => false end
  | MFail, None =>
      negb (re_match r n s) &&
      match re_find r n s with None => true | _ => false end &&
      match re_submatch r n s with None => true | _ => false end
  | _, _ => false
  end.

Definition tcase := (re * nat * bytes * option (list (option (nat * nat))))%type.

Fixpoint check (i : N) (cs : list tcase) : list N :=
  match cs with
  | [] => []
  | (r, n, s, e) :: t =>
      if case_ok r n s e then check (N.succ i) t else i :: check (N.succ i) t
  end.
`

func main() {
	repo := flag.String("repo", "/repo", "decoder repository")
	out := flag.String("out", "", "output directory")
	emit := flag.String("emit", "", "only write Regexes.v for the repository's expressions to this file")
	seed := flag.Int64("seed", 1, "PRNG seed")
	n := flag.Int("n", 500, "generated inputs per expression (on top of the fixture lines)")
	shard := flag.Int("shard", 1500, "cases per Coq file")
	flag.Parse()

	rs, err := retrans.Extract(*repo)
	if err != nil {
		fatal(err)
	}
	if *emit != "" {
		src, err := retrans.EmitCoq(rs)
		if err != nil {
			fatal(err)
		}
		if err := os.WriteFile(*emit, []byte(src), 0o644); err != nil {
			fatal(err)
		}
		fmt.Printf("retest: %d expressions written to %s\n", len(rs), *emit)
		return
	}
	if *out == "" {
		fatal(fmt.Errorf("-out or -emit is required"))
	}
	nrepo := len(rs)
	for _, x := range extras {
		re, err := syntax.Parse(x.pat, syntax.Perl)
		if err != nil {
			fatal(fmt.Errorf("%s: %v", x.name, err))
		}
		rs = append(rs, retrans.Regex{Name: x.name, Pattern: x.pat, NumCap: re.MaxCap(), File: "(extra)"})
	}
	sort.SliceStable(rs, func(i, j int) bool { return rs[i].Name < rs[j].Name })
	src, err := retrans.EmitCoq(rs)
	if err != nil {
		fatal(err)
	}
	gdir := filepath.Join(*out, "generated")
	cdir := filepath.Join(*out, "cases")
	for _, d := range []string{gdir, cdir} {
		if err := os.MkdirAll(d, 0o755); err != nil {
			fatal(err)
		}
	}
	must(os.WriteFile(filepath.Join(gdir, "Regexes.v"), []byte(src), 0o644))
	must(os.WriteFile(filepath.Join(cdir, "RetestLib.v"), []byte(lib), 0o644))

	lines, err := fixtureLines(*repo)
	if err != nil {
		fatal(err)
	}
	g := &gen{rnd: rand.New(rand.NewSource(*seed)), lines: lines}

	var cases []tcase
	matched := make([]int, len(rs))
	total := make([]int, len(rs))
	for ri, r := range rs {
		cre := regexp.MustCompile(r.Pattern)
		simp, err := retrans.Simplified(r.Pattern)
		if err != nil {
			fatal(err)
		}
		seen := map[string]bool{}
		add := func(in []byte) {
			if seen[string(in)] {
				return
			}
			seen[string(in)] = true
			in = append([]byte(nil), in...)
			w := cre.FindSubmatchIndex(in)
			if w != nil {
				matched[ri]++
			}
			total[ri]++
			cases = append(cases, tcase{re: ri, input: in, want: w})
		}
		add(nil)
		synthetic := strings.HasPrefix(r.Name, "x") && r.File == "(extra)" && !strings.HasPrefix(r.Name, "xHist")
		if !synthetic {
			for _, l := range lines {
				add(l)
			}
		}
		for i := 0; i < *n; i++ {
			var in []byte
			switch k := g.rnd.Intn(10); {
			case synthetic && k < 5:
				// small alphabet around the expression's own characters
				in = g.fromRegex(simp, nil)
				for j := g.rnd.Intn(4); j > 0; j-- {
					in = g.fromRegex(simp, in)
				}
				if g.rnd.Intn(2) == 0 {
					in = g.mutate(in)
				}
			case k < 3:
				in = g.mutate(g.line())
			case k < 5:
				in = g.soup()
			case k < 8:
				in = g.fromRegex(simp, nil)
				if g.rnd.Intn(3) == 0 {
					in = append(append(g.soup(), in...), g.soup()...)
				}
			default:
				in = g.mutate(g.fromRegex(simp, g.soup()))
			}
			if len(in) > 200 {
				in = in[:200]
			}
			add(in)
		}
	}

	var idx strings.Builder
	nshard := 0
	for lo := 0; lo < len(cases); lo += *shard {
		hi := lo + *shard
		if hi > len(cases) {
			hi = len(cases)
		}
		var b strings.Builder
		b.WriteString("(* Generated by verifharness/cmd/retest. *)\n")
		b.WriteString("From Coq Require Import List NArith String.\n")
		b.WriteString("From Dec Require Import Bytes Regex.\n")
		b.WriteString("From Dec.generated Require Import Regexes.\n")
		b.WriteString("From Dec.cases Require Import RetestLib.\n")
		b.WriteString("Import ListNotations.\n\n")
		b.WriteString("Definition cases : list tcase :=\n  [")
		for i, c := range cases[lo:hi] {
			if i > 0 {
				b.WriteString(";\n   ")
			}
			name := rs[c.re].Name
			fmt.Fprintf(&b, "(re_%s, ncap_%s, %s, %s)", name, name, retrans.BytesTerm(c.input), coqExpect(c.want))
			fmt.Fprintf(&idx, "%d\t%s\t%q\t%v\n", lo+i, name, c.input, c.want)
		}
		b.WriteString("].\n\n")
		fmt.Fprintf(&b, "Definition mism : list N := Eval vm_compute in check %d%%N cases.\n", lo)
		b.WriteString("Print mism.\n")
		must(os.WriteFile(filepath.Join(cdir, fmt.Sprintf("Cases_%03d.v", nshard)), []byte(b.String()), 0o644))
		nshard++
	}
	must(os.WriteFile(filepath.Join(cdir, "index.txt"), []byte(idx.String()), 0o644))

	for ri, r := range rs {
		fmt.Printf("retest: %-22s cases %5d  matching %5d\n", r.Name, total[ri], matched[ri])
	}
	fmt.Printf("retest: %d expressions (%d from %s, %d extra), %d fixture lines, %d cases in %d shards, seed %d\n",
		len(rs), nrepo, *repo, len(rs)-nrepo, len(lines), len(cases), nshard, *seed)
}

func must(err error) {
	if err != nil {
		fatal(err)
	}
}

func fatal(err error) {
	fmt.Fprintln(os.Stderr, "retest:", err)
	os.Exit(2)
}
