#!/bin/sh
# Differential test of coq/theories/{Strconv,Crc}.v against the real Go
# functions. Usage: harness/sctest.sh [-seed N] [-n N]
# Builds harness/cmd/sctest, generates work/sctest/Cases.v, compiles it with
# coqc and reports PASS when the mismatch list is empty.
set -e
export GOFLAGS=-mod=mod GOPROXY=off GOSUMDB=off GOTOOLCHAIN=local
ROOT=$(cd "$(dirname "$0")/.." && pwd)
W=$ROOT/work/sctest
mkdir -p "$W"
(cd "$ROOT/harness" && go build -o "$W/sctest" ./cmd/sctest)
# compile the model files into the scratch dir so a concurrent build in coq/
# is not disturbed
mkdir -p "$W/Dec/theories"
for f in Bytes Strconv Crc; do
  cp "$ROOT/coq/theories/$f.v" "$W/Dec/theories/$f.v"
  (cd "$W/Dec" && coqc -q -Q . Dec "theories/$f.v")
done
"$W/sctest" -o "$W/Cases.v" "$@" | tee "$W/gen.log"
START=$(date +%s)
(cd "$W" && coqc -q -Q Dec Dec Cases.v > "$W/coq.log" 2>&1) || { cat "$W/coq.log" | head -50; echo "FAIL: coqc error"; exit 1; }
END=$(date +%s)
echo "coqc time: $((END-START)) s"
if tr -d ' \n' < "$W/coq.log" | grep -q '^mism=\[\]:list(N\*listN)$'; then
  echo "PASS: $(cat "$W/gen.log")"
else
  head -c 3000 "$W/coq.log"
  echo
  echo "FAIL: mismatches (index, function codes) above"
  exit 1
fi
